import DadiVerif.Lemmas.DFE
import DadiVerif.Lemmas.DFEMass
import DadiVerif.Lemmas.PDFs
import DadiVerif.Lemmas.PDFsReal
import DadiVerif.Generated.PDFsReal
/-!
# C17 — DFE integration is the documented quadrature of a schedule-independent cache

All statements are about the definitions of `Model/DFE.lean` that the driver executes and about the definitions
GENERATED from the current source (`Gen.DFE.*`: the assembly lines of `Cache1D.integrate*`, `Cache2D.integrate*`,
the mixtures, `Vourlaki_mixture`, the job-split test and the merge cell rule).  They hold for every number of cached
gammas, every grid, all rational pdf values / tail masses / spectra, unless a hypothesis says otherwise.  pdf values,
quad / dblquad results and square roots are parameters (numbers), so "up to quadrature error" and the accuracy of the
compiled pdfs are *not* statements of this file (numerical, see harness/c17.py).

`trapz n x y` is `numpy.trapz(y, x)` on `n` nodes.  Regions: `Reg.N` = between the grid and neutrality,
`Reg.D` = more deleterious than the grid, `Reg.I` = on the grid.
-/
set_option linter.unusedSimpArgs false
namespace DadiVerif
open DFE Gen.DFE

/-! ## literal statements the model relies on -/

/-- every statement of the source that the translator only checks literally (slices, trapz arguments, loop shapes, the
    `this_eval` counter, collection loops, worker except clauses, merge loops) is present as the model assumes -/
theorem C17_shapes :
    int1DShapeOk = true ∧ pp1ShapeOk = true ∧ int2DShapeOk = true ∧ pp2ShapeOk = true ∧ buildShapeOk = true ∧
    mergeShapeOk = true ∧ vkShapeOk = true ∧ pp1_forwardsExterior = true := by decide

/-! ## Cache1D.integrate -/

/-- The result is theta times (trapezoid quadrature of pdf·spectrum over the cached negative gammas + neutral tail mass
    times the neutral spectrum + lethal tail mass times the most deleterious cached spectrum); without exterior
    integration it is theta times the trapezoid term alone. -/
theorem C17_quadrature_1d (theta : ℚ) (n : ℕ) (x w S : ℕ → ℚ) (neu : ℚ) (wt : Reg → ℚ) :
    integrate1D true theta n x w S neu wt
      = theta * (trapz n x (fun i => w i * S i) + wt Reg.N * neu + wt Reg.D * S 0) ∧
    integrate1D false theta n x w S neu wt = theta * trapz n x (fun i => w i * S i) := by
  constructor
  · simp only [integrate1D, int1D_ext, int1D_weighted, if_true]; ring
  · simp [integrate1D, int1D_noext, int1D_weighted]

theorem C17_theta_linear_1d (ext : Bool) (theta : ℚ) (n : ℕ) (x w S : ℕ → ℚ) (neu : ℚ) (wt : Reg → ℚ) :
    integrate1D ext theta n x w S neu wt = theta * integrate1D ext 1 n x w S neu wt := by
  cases ext
  · simp [integrate1D, int1D_noext]
  · simp only [integrate1D, int1D_ext, if_true]; ring

/-- When selection has no effect (every cached spectrum and the neutral one have the same entry `s0`) the result is
    theta · s0 · W with W the total quadrature weight of the distribution: trapz of the pdf + both tail masses. -/
theorem C17_no_selection_1d (theta s0 : ℚ) (n : ℕ) (hn : 0 < n) (x w S : ℕ → ℚ) (wt : Reg → ℚ)
    (hS : ∀ i < n, S i = s0) :
    integrate1D true theta n x w S s0 wt = theta * s0 * (trapz n x w + wt Reg.N + wt Reg.D) ∧
    integrate1D false theta n x w S s0 wt = theta * s0 * trapz n x w := by
  have e : trapz n x (fun i => w i * S i) = s0 * trapz n x w := by
    rw [← trapz_const_mul]
    exact trapz_congr fun i hi => by rw [hS i hi]
  obtain ⟨h1, h2⟩ := C17_quadrature_1d theta n x w S s0 wt
  rw [h1, h2, e, hS 0 hn]
  constructor <;> ring

example : (∀ i < 3, (fun _ : ℕ => (2 : ℚ)) i = 2) ∧ 0 < 3 := ⟨fun _ _ => rfl, by decide⟩

/-! ## Cache1D.integrate_point_pos -/

/-- Σ_k ppos_k · theta · (cached entry of gamma_k) -/
def ppSum (theta : ℚ) (gs sp : List ℚ) : List (ℚ × ℚ) → ℚ
  | [] => 0
  | (p, g) :: rest => p * theta * sp.getD (gs.idxOf g) 0 + ppSum theta gs sp rest

/-- For point masses whose gammas are cached the cache is left as it was. -/
theorem C17_point_pos_1d_cache_unchanged (theta : ℚ) (computed : ℚ → Option ℚ) (pairs : List (ℚ × ℚ)) (gs sp : List ℚ)
    (hg : ∀ p ∈ pairs, p.2 ∈ gs) (r0 : ℚ) :
    ∃ r, pp1Loop theta computed pairs gs sp r0 = .ok (r, gs, sp) := by
  induction pairs generalizing r0 with
  | nil => exact ⟨r0, rfl⟩
  | cons p rest ih =>
    obtain ⟨pp, g⟩ := p
    have hin : g ∈ gs := hg (pp, g) List.mem_cons_self
    have hc : gs.contains g = true := by simpa using hin
    simp only [pp1Loop, hc, if_true]
    exact ih (fun q hq => hg q (List.mem_cons_of_mem _ hq)) _

/-- Point masses of positive selection are mixed in with their stated weights and the result is linear in theta:
    (1 − Σ ppos)·(the continuous part) + Σ ppos_k · theta · (cached spectrum of gamma_k), for cached gammas.
    (Holds only if the per-point-mass update multiplies the cached spectrum by theta.) -/
theorem C17_point_pos_1d (theta : ℚ) (computed : ℚ → Option ℚ) (pposL gposL gs sp : List ℚ) (pdf_fs : ℚ)
    (hg : ∀ g ∈ gposL, g ∈ gs) :
    pointPos1D theta computed pposL gposL gs sp pdf_fs
      = .ok ((1 - ratSum pposL) * pdf_fs + ppSum theta gs sp (pposL.zip gposL), gs, sp) := by
  have key : ∀ (pairs : List (ℚ × ℚ)), (∀ p ∈ pairs, p.2 ∈ gs) → ∀ r0,
      pp1Loop theta computed pairs gs sp r0 = .ok (r0 + ppSum theta gs sp pairs, gs, sp) := by
    intro pairs
    induction pairs with
    | nil => intro _ r0; simp [pp1Loop, ppSum]
    | cons p rest ih =>
      intro hp r0
      obtain ⟨pp, g⟩ := p
      have hin : g ∈ gs := hp (pp, g) List.mem_cons_self
      have hc : gs.contains g = true := by simpa using hin
      simp only [pp1Loop, hc, if_true]
      rw [ih (fun q hq => hp q (List.mem_cons_of_mem _ hq))]
      simp only [pp1_step, ppSum]
      congr 2
      ring
  have hz : ∀ p ∈ pposL.zip gposL, p.2 ∈ gs := fun p hp => hg p.2 (List.of_mem_zip hp).2
  rw [pointPos1D, key _ hz]
  simp only [pp1_base]

/-- linearity in theta of the whole 1-D point-mass integral (the continuous part is linear by `C17_theta_linear_1d`) -/
theorem C17_theta_linear_point_pos_1d (theta : ℚ) (computed : ℚ → Option ℚ) (pposL gposL gs sp : List ℚ) (F : ℚ)
    (hg : ∀ g ∈ gposL, g ∈ gs) :
    ∃ r1, pointPos1D 1 computed pposL gposL gs sp F = .ok (r1, gs, sp) ∧
      pointPos1D theta computed pposL gposL gs sp (pp1_thetaArg theta * F) = .ok (theta * r1, gs, sp) := by
  refine ⟨_, C17_point_pos_1d 1 computed pposL gposL gs sp F hg, ?_⟩
  rw [C17_point_pos_1d theta computed pposL gposL gs sp _ hg]
  have hs : ∀ pairs : List (ℚ × ℚ), ppSum theta gs sp pairs = theta * ppSum 1 gs sp pairs := by
    intro pairs
    induction pairs with
    | nil => simp [ppSum]
    | cons p rest ih => obtain ⟨pp, g⟩ := p; simp only [ppSum, ih]; ring
  rw [hs]
  simp only [pp1_thetaArg]
  congr 2
  ring

/-- A gamma computed on the fly is cached as computed (not scaled by the theta of the call that triggered it). -/
theorem C17_point_pos_1d_stores_unscaled (theta c : ℚ) : pp1_store theta c = c := by
  simp [pp1_store]

example : ∀ g ∈ ([3] : List ℚ), g ∈ ([-2, -1, 3] : List ℚ) := by decide

/-! ## Cache2D.integrate -/

/-- the interior double trapezoid: axis 0 (gamma1) first, then gamma2 -/
def interior2D (n : ℕ) (x : ℕ → ℚ) (w S : ℕ → ℕ → ℚ) : ℚ :=
  trapz n x fun j => trapz n x fun i => w i j * S i j

/-- the eight exterior regions of the (gamma1, gamma2) plane: four edges (one coordinate on the grid, the other beyond
    it on the lethal or on the neutral side, paired with the first / last cached row or column) and four corners -/
def exterior2D (n : ℕ) (x : ℕ → ℚ) (S : ℕ → ℕ → ℚ) (wv : Reg → Reg → ℕ → ℚ) (C : Reg → Reg → ℚ) : ℚ :=
  trapz n x (fun k => S k 0 * wv Reg.I Reg.D k) + trapz n x (fun k => S k (n - 1) * wv Reg.I Reg.N k)
  + trapz n x (fun k => S 0 k * wv Reg.D Reg.I k) + trapz n x (fun k => S (n - 1) k * wv Reg.N Reg.I k)
  + S (n - 1) (n - 1) * C Reg.N Reg.N + S 0 (n - 1) * C Reg.D Reg.N + S (n - 1) 0 * C Reg.N Reg.D
  + S 0 0 * C Reg.D Reg.D

/-- The result is theta times (interior double trapezoid + all eight exterior regions, each cached spectrum slice paired
    with the mass of its own region); without exterior integration theta times the interior term.
    (On a tree where `Cache2D.integrate` omits a region this does not check — the (lethal, lethal) corner, F-17c.) -/
theorem C17_quadrature_2d (theta : ℚ) (n : ℕ) (x : ℕ → ℚ) (w S : ℕ → ℕ → ℚ) (wv : Reg → Reg → ℕ → ℚ) (C : Reg → Reg → ℚ) :
    integrate2D true false theta n x w S wv C = theta * (interior2D n x w S + exterior2D n x S wv C) ∧
    ∀ sym, integrate2D false sym theta n x w S wv C = theta * interior2D n x w S := by
  constructor
  · simp only [integrate2D, int2D_ext, int2D_weighted, interior2D, exterior2D, if_true, Bool.false_eq_true, if_false]
    ring
  · intro sym
    simp [integrate2D, int2D_noext, int2D_weighted, interior2D]

theorem C17_theta_linear_2d (ext sym : Bool) (theta : ℚ) (n : ℕ) (x : ℕ → ℚ) (w S : ℕ → ℕ → ℚ)
    (wv : Reg → Reg → ℕ → ℚ) (C : Reg → Reg → ℚ) :
    integrate2D ext sym theta n x w S wv C = theta * integrate2D ext sym 1 n x w S wv C := by
  cases ext
  · simp [integrate2D, int2D_noext]
  · simp only [integrate2D, int2D_ext, if_true]; ring

/-- When selection has no effect (all cached entries equal `s0`) the result is theta · s0 · W, where W — the total
    quadrature weight of the distribution — is the very same assembly applied to all-ones spectra with theta = 1. -/
theorem C17_no_selection_2d (ext sym : Bool) (theta s0 : ℚ) (n : ℕ) (hn : 0 < n) (x : ℕ → ℚ) (w S : ℕ → ℕ → ℚ)
    (wv : Reg → Reg → ℕ → ℚ) (C : Reg → Reg → ℚ) (hS : ∀ i < n, ∀ j < n, S i j = s0) :
    integrate2D ext sym theta n x w S wv C
      = theta * s0 * integrate2D ext sym 1 n x w (fun _ _ => 1) wv C := by
  have hl : n - 1 < n := by omega
  have e1 : ∀ f : ℕ → ℚ, trapz n x (fun k => S k 0 * f k) = s0 * trapz n x f := fun f => by
    rw [← trapz_mul_left]; exact trapz_congr fun k hk => by rw [hS k hk 0 hn]
  have e2 : ∀ f : ℕ → ℚ, trapz n x (fun k => S k (n - 1) * f k) = s0 * trapz n x f := fun f => by
    rw [← trapz_mul_left]; exact trapz_congr fun k hk => by rw [hS k hk _ hl]
  have e3 : ∀ f : ℕ → ℚ, trapz n x (fun k => S 0 k * f k) = s0 * trapz n x f := fun f => by
    rw [← trapz_mul_left]; exact trapz_congr fun k hk => by rw [hS 0 hn k hk]
  have e4 : ∀ f : ℕ → ℚ, trapz n x (fun k => S (n - 1) k * f k) = s0 * trapz n x f := fun f => by
    rw [← trapz_mul_left]; exact trapz_congr fun k hk => by rw [hS _ hl k hk]
  have e5 : (trapz n x fun j => trapz n x fun i => int2D_weighted (w i j) (S i j))
      = s0 * trapz n x fun j => trapz n x fun i => w i j := by
    rw [← trapz_mul_left]
    refine trapz_congr fun j hj => ?_
    rw [← trapz_mul_left]
    exact trapz_congr fun i hi => by simp only [int2D_weighted]; rw [hS i hi j hj]; ring
  have c1 := hS 0 hn 0 hn
  have c2 := hS 0 hn _ hl
  have c3 := hS _ hl 0 hn
  have c4 := hS _ hl _ hl
  cases ext
  · simp only [integrate2D, int2D_noext, e5, Bool.false_eq_true, if_false]
    simp only [int2D_weighted, mul_one]; ring
  · simp only [integrate2D, int2D_ext, e1, e2, e3, e4, e5, c1, c2, c3, c4, if_true]
    simp only [int2D_weighted, mul_one, one_mul]; ring

example : (∀ i < 2, ∀ j < 2, (fun _ _ : ℕ => (5 : ℚ)) i j = 5) ∧ 0 < 2 := ⟨fun _ _ _ _ => rfl, by decide⟩

/-- W spelled out: the total weight is the interior trapezoid of the pdf plus the masses of all eight exterior regions
    (so a density concentrated beyond the grid in both coordinates still has total weight ≈ 1).  Fails to check when a
    region is missing from `Cache2D.integrate` (F-17c). -/
theorem C17_total_weight_2d (n : ℕ) (x : ℕ → ℚ) (w : ℕ → ℕ → ℚ) (wv : Reg → Reg → ℕ → ℚ) (C : Reg → Reg → ℚ) :
    integrate2D true false 1 n x w (fun _ _ => 1) wv C
      = (trapz n x fun j => trapz n x fun i => w i j)
        + trapz n x (wv Reg.I Reg.D) + trapz n x (wv Reg.I Reg.N) + trapz n x (wv Reg.D Reg.I) + trapz n x (wv Reg.N Reg.I)
        + C Reg.N Reg.N + C Reg.D Reg.N + C Reg.N Reg.D + C Reg.D Reg.D := by
  rw [(C17_quadrature_2d 1 n x w (fun _ _ => 1) wv C).1]
  simp only [interior2D, exterior2D, mul_one, one_mul]
  ring

/-- The symmetric shortcut (reuse the gamma1-tail integrals for gamma2 and one mixed corner for the other) gives the
    same result as the general path whenever the supplied masses really are symmetric. -/
theorem C17_symmetric_shortcut (ext : Bool) (theta : ℚ) (n : ℕ) (x : ℕ → ℚ) (w S : ℕ → ℕ → ℚ)
    (wv : Reg → Reg → ℕ → ℚ) (C : Reg → Reg → ℚ)
    (h1 : ∀ k, wv Reg.D Reg.I k = wv Reg.I Reg.D k) (h2 : ∀ k, wv Reg.N Reg.I k = wv Reg.I Reg.N k)
    (h3 : C Reg.D Reg.N = C Reg.N Reg.D) :
    integrate2D ext true theta n x w S wv C = integrate2D ext false theta n x w S wv C := by
  cases ext
  · simp [integrate2D]
  · simp only [integrate2D, int2D_ext, h1, h2, h3, if_true, ite_self]

example : (∀ k : ℕ, (fun (_ _ : Reg) (_ : ℕ) => (1 : ℚ)) Reg.D Reg.I k = (fun (_ _ : Reg) (_ : ℕ) => (1 : ℚ)) Reg.I Reg.D k) :=
  fun _ => rfl

/-! ## Cache2D.integrate_point_pos -/

/-- The four quadrant weights sum to one for all p1, p2, rho and whatever `sqrt` returns; at rho = 0 they are the
    independent products, at rho = 1 everything positive is shared (weight sqrt(p1·p2)) and the mixed quadrants vanish. -/
theorem C17_quadrants (sqrt : ℚ → ℚ) (p1 p2 rho : ℚ) :
    p_pos_pos sqrt p1 p2 rho + p_pos_neg sqrt p1 p2 rho + p_neg_pos sqrt p1 p2 rho + p_neg_neg sqrt p1 p2 rho = 1 ∧
    (p_pos_pos sqrt p1 p2 0 = p1 * p2 ∧ p_pos_neg sqrt p1 p2 0 = p1 * (1 - p2) ∧
     p_neg_pos sqrt p1 p2 0 = (1 - p1) * p2 ∧ p_neg_neg sqrt p1 p2 0 = (1 - p1) * (1 - p2)) ∧
    (p_pos_pos sqrt p1 p2 1 = sqrt (p1 * p2) ∧ p_pos_neg sqrt p1 p2 1 = 0 ∧
     p_neg_pos sqrt p1 p2 1 = 0 ∧ p_neg_neg sqrt p1 p2 1 = 1 - sqrt (p1 * p2)) := by
  simp only [p_pos_pos, p_pos_neg, p_neg_pos, p_neg_neg]
  refine ⟨by ring, ⟨by ring, by ring, by ring, by ring⟩, ⟨by ring, by ring, by ring, by ring⟩⟩

/-- The point-mass integral is theta times the four quadrants with their stated weights: (+,+) the single cached
    spectrum, (+,−) the spectra with gamma1 = gammapos1 against the marginal pdf of gamma2 (gamma1 integrated out),
    (−,+) symmetrically, (−,−) the full 2-D integral taken with theta = 1 and exterior integration. -/
theorem C17_point_pos_2d (sqrt : ℚ → ℚ) (sym : Bool) (theta rho : ℚ) (n : ℕ) (x : ℕ → ℚ) (w S : ℕ → ℕ → ℚ)
    (wv : Reg → Reg → ℕ → ℚ) (C : Reg → Reg → ℚ) (i1 i2 : ℕ) (p1 p2 : ℚ) :
    integratePointPos2D sqrt sym theta rho n x w S wv C i1 i2 p1 p2
      = theta * (p_pos_pos sqrt p1 p2 rho * S i1 i2
          + p_pos_neg sqrt p1 p2 rho * trapz n x (fun k => trapz n x (fun i => w i k) * S i1 k)
          + p_neg_pos sqrt p1 p2 rho * trapz n x (fun k => trapz n x (fun j => w k j) * S k i2)
          + p_neg_neg sqrt p1 p2 rho * integrate2D true sym 1 n x w S wv C) := by
  simp [integratePointPos2D, pointPos2D, pp2_ret, pp2_combine, pp2_posNegTerm, pp2_negPosTerm, margW,
    pp2_posNegAxis, pp2_negPosAxis, pp2_negnegExterior, pp2_thetaArg]

theorem C17_theta_linear_point_pos_2d (sqrt : ℚ → ℚ) (sym : Bool) (theta rho : ℚ) (n : ℕ) (x : ℕ → ℚ) (w S : ℕ → ℕ → ℚ)
    (wv : Reg → Reg → ℕ → ℚ) (C : Reg → Reg → ℚ) (i1 i2 : ℕ) (p1 p2 : ℚ) :
    integratePointPos2D sqrt sym theta rho n x w S wv C i1 i2 p1 p2
      = theta * integratePointPos2D sqrt sym 1 rho n x w S wv C i1 i2 p1 p2 := by
  rw [C17_point_pos_2d, C17_point_pos_2d]; ring

/-- with no positive mass the point-mass integral is the plain 2-D integral -/
theorem C17_point_pos_2d_no_mass (sqrt : ℚ → ℚ) (h0 : sqrt 0 = 0) (sym : Bool) (theta rho : ℚ) (n : ℕ) (x : ℕ → ℚ)
    (w S : ℕ → ℕ → ℚ) (wv : Reg → Reg → ℕ → ℚ) (C : Reg → Reg → ℚ) (i1 i2 : ℕ) :
    integratePointPos2D sqrt sym theta rho n x w S wv C i1 i2 0 0 = integrate2D true sym theta n x w S wv C := by
  rw [C17_point_pos_2d, C17_theta_linear_2d true sym theta]
  simp only [p_pos_pos, p_pos_neg, p_neg_pos, p_neg_neg, mul_zero, h0]
  ring

example : (fun _ : ℚ => (0 : ℚ)) 0 = 0 := rfl

/-! ## parameter wiring of the point-mass and mixture front ends -/

/-- `integrate_point_pos` reads `params = biv_params ++ [ppos1, gammapos1, ppos2, gammapos2]`; `rho` is the keyword
    (default 0) -/
theorem C17_point_pos_2d_params (bp : List ℚ) (p1 g1 p2 g2 rho : ℚ) :
    pp2Wire (bp ++ [p1, g1, p2, g2]) (.given rho) = .ok (bp, p1, g1, p2, g2, rho) ∧
    pp2Wire (bp ++ [p1, g1, p2, g2]) .dflt = .ok (bp, p1, g1, p2, g2, 0) := by
  have h1 : pyDropNeg (bp ++ [p1, g1, p2, g2]) 4 = [p1, g1, p2, g2] := pyDropNeg_append _ _ _ rfl
  have h2 : pyTakeNeg (bp ++ [p1, g1, p2, g2]) 4 = bp := pyTakeNeg_append _ _ _ rfl
  constructor <;> simp [pp2Wire, h1, h2, tailValue, pp2_tail, pp2_rhoDefault, bind, Except.bind]

/-- `integrate_symmetric_point_pos` reads `params = shared ++ [rho, ppos, gammapos]` and hands
    `shared ++ [rho]` to the pdf, the same point mass to both populations, and that rho to the quadrant weights -/
theorem C17_sym_point_wiring (sh : List ℚ) (rho ppos g : ℚ) :
    sppWire (sh ++ [rho, ppos, g]) = .ok (sh ++ [rho], ppos, g, ppos, g, rho) := by
  have e : sh ++ [rho, ppos, g] = (sh ++ [rho]) ++ [ppos, g] := by simp
  have h1 : pyTakeNeg (sh ++ [rho, ppos, g]) 2 = sh ++ [rho] := by rw [e]; exact pyTakeNeg_append _ _ _ rfl
  have h2 : pyDropNeg (sh ++ [rho, ppos, g]) 2 = [ppos, g] := by rw [e]; exact pyDropNeg_append _ _ _ rfl
  have h3 : pyIdxNeg (sh ++ [rho]) 1 = .ok rho := pyIdxNeg_last _ _
  have h4 := (C17_point_pos_2d_params (sh ++ [rho]) ppos g ppos g rho).1
  simp only [List.append_assoc, List.cons_append, List.nil_append] at h4
  simp [sppWire, spp_wiring, h1, h2, h3, bind, Except.bind, h4]

/-- all three mixtures combine their components with weights (1 − p2d) and p2d -/
theorem C17_mixture_weights (p2d a b : ℚ) :
    mix_combine p2d a b = (1 - p2d) * a + p2d * b ∧ mixsym_combine p2d a b = (1 - p2d) * a + p2d * b ∧
    mixpt_combine p2d a b = (1 - p2d) * a + p2d * b ∧ mix_combine p2d a a = a := by
  simp only [mix_combine, mixsym_combine, mixpt_combine]
  refine ⟨trivial, trivial, trivial, by ring⟩

/-- `mixture`: params = shared ++ [rho, p2d]; the 1-D component gets `shared`, the 2-D one `shared ++ [rho]` -/
theorem C17_mixture_wiring (sh : List ℚ) (rho p2d : ℚ) :
    mix_wiring (sh ++ [rho, p2d]) = .ok (sh, sh ++ [rho], p2d) := by
  have e : sh ++ [rho, p2d] = (sh ++ [rho]) ++ [p2d] := by simp
  have h1 : pyIdxNeg (sh ++ [rho, p2d]) 1 = .ok p2d := by rw [e]; exact pyIdxNeg_last _ _
  have h2 : pyTakeNeg (sh ++ [rho, p2d]) 2 = sh := pyTakeNeg_append _ _ _ rfl
  have h3 : pyTakeNeg (sh ++ [rho, p2d]) 1 = sh ++ [rho] := by rw [e]; exact pyTakeNeg_append _ _ _ rfl
  simp [mix_wiring, h1, h2, h3, bind, Except.bind]

/-- `mixture_symmetric_point_pos`: params = shared ++ [rho, ppos, gamma_pos, p2d].  The 1-D component gets
    shared ++ [ppos, gamma_pos] with one point mass; the 2-D component must end up with the pdf parameters
    shared ++ [rho], the point mass (ppos, gamma_pos) in both populations and that same rho. -/
theorem C17_mixture_sym_wiring (sh : List ℚ) (rho ppos g p2d : ℚ) :
    ∃ P2, mixsym_wiring (sh ++ [rho, ppos, g, p2d]) = .ok (sh ++ [ppos, g], 1, P2, p2d) ∧
      sppWire P2 = .ok (sh ++ [rho], ppos, g, ppos, g, rho) ∧
      pp1Split (sh ++ [ppos, g]) 1 = .ok (sh, [ppos], [g]) := by
  have h1 : pyDropNeg (sh ++ [rho, ppos, g, p2d]) 4 = [rho, ppos, g, p2d] := pyDropNeg_append _ _ _ rfl
  have h2 : pyTakeNeg (sh ++ [rho, ppos, g, p2d]) 4 = sh := pyTakeNeg_append _ _ _ rfl
  have h3 : pyDropNeg (sh ++ [ppos, g]) (2 * 1) = [ppos, g] := pyDropNeg_append _ _ _ rfl
  have h4 : pyTakeNeg (sh ++ [ppos, g]) (2 * 1) = sh := pyTakeNeg_append _ _ _ rfl
  refine ⟨sh ++ [rho, ppos, g], ?_, C17_sym_point_wiring sh rho ppos g, ?_⟩
  · simp [mixsym_wiring, h1, h2, bind, Except.bind]
  · simp [pp1Split, h3, h4, everyOther]

/-- `mixture_point_pos`: params = shared ++ [rho, ppos1, gamma_pos1, ppos2, gamma_pos2, p2d].  The 2-D component must
    receive the pdf parameters shared ++ [rho], both point masses, and rho for the quadrant weights. -/
theorem C17_mixture_point_wiring (sh : List ℚ) (rho p1 g1 p2 g2 p2d : ℚ) :
    ∃ P2 b, mixpt_wiring (sh ++ [rho, p1, g1, p2, g2, p2d]) = .ok (sh ++ [p1, g1], 1, P2, b, p2d) ∧
      pp2Wire P2 b = .ok (sh ++ [rho], p1, g1, p2, g2, rho) := by
  have h1 : pyDropNeg (sh ++ [rho, p1, g1, p2, g2, p2d]) 6 = [rho, p1, g1, p2, g2, p2d] := pyDropNeg_append _ _ _ rfl
  have h2 : pyTakeNeg (sh ++ [rho, p1, g1, p2, g2, p2d]) 6 = sh := pyTakeNeg_append _ _ _ rfl
  have h4 := (C17_point_pos_2d_params (sh ++ [rho]) p1 g1 p2 g2 rho).1
  simp only [List.append_assoc, List.cons_append, List.nil_append] at h4
  refine ⟨sh ++ [rho, p1, g1, p2, g2], .given rho, ?_, ?_⟩
  · simp [mixpt_wiring, h1, h2, bind, Except.bind]
  · simpa using h4

/-! ## Vourlaki_mixture -/

/-- the six component weights sum to one, and the result is theta times the stated combination, with the
    positive/negative components integrated against the gamma pdf including both tails -/
theorem C17_vourlaki (theta : ℚ) (n : ℕ) (x wg : ℕ → ℚ) (wt : Reg → ℚ) (posNeg negPos : ℕ → ℚ)
    (m2 m5 m6 pw pc pcp : ℚ) :
    vourlaki theta n x wg wt posNeg negPos m2 m5 m6 pw pc pcp
      = theta * (m5 * (1 - pw) * (1 - pc) + m6 * (1 - pw) * pc * (1 - pcp)
          + (trapz n x (fun k => wg k * negPos k) + negPos 0 * wt Reg.D + negPos (n - 1) * wt Reg.N) * (1 - pw) * pc * pcp
          + m2 * pw * (1 - pc) + m2 * pw * pc * pcp
          + (trapz n x (fun k => wg k * posNeg k) + posNeg 0 * wt Reg.D + posNeg (n - 1) * wt Reg.N) * pw * pc * (1 - pcp)) ∧
    ∀ m, vk_mix m m m m m m pw pc pcp = m := by
  constructor
  · simp only [vourlaki, vk_ret, vk_mix, vk_m4, vk_m7, vk_m4Term, vk_m7Term]
  · intro m; simp only [vk_mix]; ring

theorem C17_vourlaki_params : vk_paramNames = ["alpha", "beta", "ppos_wild", "gamma_pos", "pchange", "pchange_pos"] := by
  decide

/-! ## the cache is schedule independent; failures are reported -/

/-- Whatever the number of workers and however their completions interleave (any permutation of the results list, keys
    distinct), the collected table is the same: every finished job's value under its key, nothing else. -/
theorem C17_schedule {κ ν : Type} [DecidableEq κ] (r1 r2 : List (κ × ν)) (hp : r1.Perm r2)
    (hnd : (r1.map Prod.fst).Nodup) :
    ∃ t1 t2, buildTable (r1.map (Except.ok (ε := String))) = .ok t1 ∧
      buildTable (r2.map (Except.ok (ε := String))) = .ok t2 ∧ (∀ k, t1 k = t2 k) ∧
      (∀ p ∈ r1, t1 p.1 = some p.2) ∧ (∀ k, k ∉ r1.map Prod.fst → t1 k = none) := by
  refine ⟨assign r1, assign r2, ?_, ?_, assign_perm r1 r2 hp hnd, ?_, ?_⟩
  · simp [buildTable, collect_ok]
  · simp [buildTable, collect_ok]
  · intro p hpm; exact assign_eq_of_mem r1 hnd p.1 p.2 hpm
  · intro k hk; exact assign_none_of_not_mem r1 k hk

example : ([(0, 5), (1, 7)] : List (ℕ × ℕ)).Perm [(1, 7), (0, 5)] ∧ (([(0, 5), (1, 7)] : List (ℕ × ℕ)).map Prod.fst).Nodup := by
  decide

/-- An exception object appended by a worker anywhere in the results list makes the construction raise: no table. -/
theorem C17_worker_error {κ ν : Type} [DecidableEq κ] (results : List (Except String (κ × ν))) (e : String)
    (h : Except.error e ∈ results) : buildTable results = .error "TypeError:unpack" := by
  simp [buildTable, collect_error results e h]

/-- For every `split_jobs ≥ 1`, on both code paths, every evaluation index belongs to exactly one job id below
    `split_jobs` (namely `k mod split_jobs`): the jobs partition the table. -/
theorem C17_split_partition (multi : Bool) (s : ℕ) (hs : 1 ≤ s) (k : ℕ) :
    k % s < s ∧ jobOwns multi s (k % s) k = true ∧ ∀ j, jobOwns multi s j k = true → j = k % s := by
  refine ⟨Nat.mod_lt _ (by omega), ?_, ?_⟩
  · cases multi <;> simp [jobOwns, jobTestSingle, jobTestMulti]
  · intro j hj
    cases multi <;> simp [jobOwns, jobTestSingle, jobTestMulti] at hj <;> omega

section
variable {V : Type} [DecidableEq V]

/-- A successful merge is complete and contains every entry of every input cache (so nothing is absorbed or altered),
    and contains nothing that no input had. -/
theorem C17_merge_sound (N : ℕ) (caches : List (ℕ → Option V)) (t : ℕ → Option V) (h : merge N caches = .ok t) :
    (∀ k < N, (t k).isSome = true) ∧ (∀ c ∈ caches, ∀ k < N, ∀ v, c k = some v → t k = some v) ∧
    (∀ k < N, ∀ v, t k = some v → ∃ c ∈ caches, c k = some v) := by
  cases caches with
  | nil => simp [merge] at h
  | cons c0 rest =>
    simp only [merge] at h
    cases hm : mergeAll N c0 rest with
    | error e => rw [hm] at h; cases h
    | ok t' =>
      rw [hm] at h
      simp only at h
      by_cases hc : complete N t' = true
      · rw [if_pos hc] at h
        injection h with h; subst h
        obtain ⟨h1, h2, h3⟩ := mergeAll_sound rest c0 t' hm
        refine ⟨(complete_iff t').mp hc, ?_, ?_⟩
        · intro c hcm k hk v hv
          rcases List.mem_cons.mp hcm with he | hin
          · subst he; exact h1 k hk v hv
          · exact h2 c hin k hk v hv
        · intro k hk v hv
          rcases h3 k hk v hv with h0 | ⟨o, ho, hov⟩
          · exact ⟨c0, List.mem_cons_self, h0⟩
          · exact ⟨o, List.mem_cons_of_mem _ ho, hov⟩
      · rw [if_neg hc] at h; cases h

/-- A lost job is reported: if some cell is in none of the caches, merge does not return a cache. -/
theorem C17_missing (N : ℕ) (caches : List (ℕ → Option V)) (k : ℕ) (hk : k < N)
    (hmiss : ∀ c ∈ caches, c k = none) : ∀ t, merge N caches ≠ .ok t := by
  intro t h
  obtain ⟨h1, _, h3⟩ := C17_merge_sound N caches t h
  have := h1 k hk
  cases htk : t k with
  | none => rw [htk] at this; cases this
  | some v =>
    obtain ⟨c, hc, hcv⟩ := h3 k hk v htk
    rw [hmiss c hc] at hcv; cases hcv

/-- A conflicting job is reported: two caches that disagree on a cell cannot be merged. -/
theorem C17_conflict (N : ℕ) (caches : List (ℕ → Option V)) (c1 c2 : ℕ → Option V) (h1 : c1 ∈ caches) (h2 : c2 ∈ caches)
    (k : ℕ) (hk : k < N) (u v : V) (hu : c1 k = some u) (hv : c2 k = some v) (huv : u ≠ v) :
    ∀ t, merge N caches ≠ .ok t := by
  intro t h
  obtain ⟨_, hs, _⟩ := C17_merge_sound N caches t h
  have a := hs c1 h1 k hk u hu
  have b := hs c2 h2 k hk v hv
  rw [a] at b
  exact huv (Option.some.inj b)

/-- Caches that are all parts of one full table `T` (duplicates with identical content included) and together cover
    every cell merge, in any order, to exactly `T`. -/
theorem C17_merge_complete (N : ℕ) (T : ℕ → V) (caches : List (ℕ → Option V)) (hne : caches ≠ [])
    (hcons : ∀ c ∈ caches, ∀ k < N, ∀ v, c k = some v → v = T k)
    (hcover : ∀ k < N, ∃ c ∈ caches, c k ≠ none) :
    ∃ t, merge N caches = .ok t ∧ ∀ k < N, t k = some (T k) := by
  cases caches with
  | nil => exact absurd rfl hne
  | cons c0 rest =>
    obtain ⟨t, ht⟩ := mergeAll_consistent T rest c0 (hcons c0 List.mem_cons_self)
      (fun o ho => hcons o (List.mem_cons_of_mem _ ho))
    obtain ⟨h1, h2, h3⟩ := mergeAll_sound rest c0 t ht
    have hall : ∀ k < N, t k = some (T k) := by
      intro k hk
      obtain ⟨c, hc, hcn⟩ := hcover k hk
      cases hck : c k with
      | none => exact absurd hck hcn
      | some v =>
        have hv : v = T k := hcons c hc k hk v hck
        rw [← hv]
        rcases List.mem_cons.mp hc with he | hin
        · subst he; exact h1 k hk v hck
        · exact h2 c hin k hk v hck
    have hcomp : complete N t = true := (complete_iff t).mpr fun k hk => by rw [hall k hk]; rfl
    exact ⟨t, by simp only [merge, ht, hcomp, if_true], hall⟩

/-- the part of the full table `T` that job `j` of `s` computes -/
def jobPart (multi : Bool) (s j : ℕ) (T : ℕ → V) : ℕ → Option V :=
  fun k => if jobOwns multi s j k then some (T k) else none

/-- Split construction followed by merge equals single-job construction: for every `split_jobs = s ≥ 1`, merging the
    `s` job caches — in any order, possibly with some jobs submitted twice — returns the full table. -/
theorem C17_split_merge (multi : Bool) (N s : ℕ) (hs : 1 ≤ s) (T : ℕ → V) (jobs : List ℕ)
    (hall : ∀ j < s, j ∈ jobs) :
    ∃ t, merge N (jobs.map fun j => jobPart multi s j T) = .ok t ∧ ∀ k < N, t k = some (T k) := by
  apply C17_merge_complete N T
  · intro h
    have : (0 : ℕ) ∈ jobs := hall 0 (by omega)
    rw [List.map_eq_nil_iff] at h
    rw [h] at this; cases this
  · intro c hc k _ v hv
    obtain ⟨j, _, rfl⟩ := List.mem_map.mp hc
    simp only [jobPart] at hv
    split at hv
    · exact (Option.some.inj hv).symm
    · cases hv
  · intro k _
    obtain ⟨hlt, hown, _⟩ := C17_split_partition multi s hs k
    refine ⟨jobPart multi s (k % s) T, List.mem_map.mpr ⟨k % s, hall _ hlt, rfl⟩, ?_⟩
    simp [jobPart, hown]

/-- …and if one job id `j0 < s` is absent from the merged list (and the table is big enough for that job to own a cell)
    the merge is refused. -/
theorem C17_split_missing (multi : Bool) (N s : ℕ) (hs : 1 ≤ s) (T : ℕ → V) (jobs : List ℕ) (j0 : ℕ) (hj0 : j0 < s)
    (hN : j0 < N) (hmiss : j0 ∉ jobs) :
    ∀ t, merge N (jobs.map fun j => jobPart multi s j T) ≠ .ok t := by
  apply C17_missing N _ j0 hN
  intro c hc
  obtain ⟨j, hj, rfl⟩ := List.mem_map.mp hc
  have hne : j ≠ j0 := fun h => hmiss (h ▸ hj)
  obtain ⟨_, _, huniq⟩ := C17_split_partition multi s hs j0
  simp only [jobPart]
  split
  · rename_i hown
    have := huniq j hown
    rw [Nat.mod_eq_of_lt hj0] at this
    exact absurd this hne
  · rfl
end

example : (∀ j < 3, j ∈ [2, 0, 1, 1]) ∧ (1 : ℕ) ∉ [0, 2] := by decide

/-! ## Round 4 — compiled bivariate densities equal their reference formulas

`Gen.PDFsReal.c_ln_cell` / `c_g_cell` are the per-cell expressions of dadi/DFE/PDFs.c (value stored by iteration
(ii, jj) of the output loop, with the Nparams dispatch), `py_ln_cell` / `py_g_cell` entry [i, j] of the arrays returned by
`biv_lognormal_py` / `biv_ind_gamma_py` of dadi/DFE/PDFs.py, all regenerated from the source on every run;
`Gen.PDFs.*` are the loop extents, the index expression, the dispatch tables and the wrapper bindings (the same
definitions the driver reports in `c17.pdflayout` / `c17.pdfdispatch`).  `bivLognormal`, `lognormalDensity`,
`gammaDensity` (Lemmas/PDFsReal.lean) are the textbook densities.  Not covered: floating point, and the accuracy of
the Lanczos `gamma_func` (the gamma theorems take `gamma_func α = Γ α` as a hypothesis). -/

section pdfs
open PDFs Gen.PDFs Gen.PDFsReal

set_option linter.unusedTactic false in
set_option linter.unreachableTactic false in
/-- The compiled code assigns its parameters for exactly the parameter-vector lengths the reference formulas accept
    (3 or 5 for the lognormal; 2, 3, 4 or 5 for the gamma), and reads every variable from the same entry. -/
theorem C17_pdf_lengths (L : ℕ) :
    c_ln_handled L = py_ln_accepts L ∧ c_g_handled L = py_g_accepts L ∧
    c_ln_dispatch L = py_ln_dispatch L ∧ c_g_dispatch L = py_g_dispatch L ∧
    (py_ln_accepts L = true ↔ L = 3 ∨ L = 5) ∧ (py_g_accepts L = true ↔ L = 2 ∨ L = 3 ∨ L = 4 ∨ L = 5) := by
  refine ⟨?_, ?_, ?_, ?_, ?_, ?_⟩
  · first | rfl | (simp only [c_ln_handled, py_ln_accepts]; cases hL3 : L == 3 <;> cases hL5 : L == 5 <;> simp_all)
  · first | rfl | (simp only [c_g_handled, py_g_accepts]; simp [Bool.or_assoc, Bool.or_comm])
  · first | rfl | (simp only [c_ln_dispatch, py_ln_dispatch]; split_ifs <;> simp_all)
  · first | rfl | (simp only [c_g_dispatch, py_g_dispatch]; split_ifs <;> simp_all)
  · simp [py_ln_accepts]
  · simp [py_g_accepts, or_assoc]

/-- value of a dispatched variable: the entry of `params` the table names, 0 where it names none -/
def paramOf (table : List (String × Option ℕ)) (params : ℕ → ℝ) (v : String) : ℝ :=
  match dispatchOf table v with
  | some (some k) => params k
  | _ => 0

/-- spelled out: 5 parameters are (μ₁, μ₂, σ₁, σ₂, ρ), 3 parameters are (μ, σ, ρ) -/
theorem C17_pdf_lognormal_closed_form (xx yy params : ℕ → ℝ) (n m i j : ℕ) :
    c_ln_cell xx yy params n m 5 i j
      = bivLognormal (params 0) (params 1) (params 2) (params 3) (params 4) (xx i) (yy j) ∧
    c_ln_cell xx yy params n m 3 i j
      = bivLognormal (params 0) (params 0) (params 1) (params 1) (params 2) (xx i) (yy j) := by
  constructor
  · simp (config := {decide := true}) only [c_ln_cell, bivLognormal, zlog, div_mul_eq_div_div, ↓reduceIte]
    ring_nf
  · simp (config := {decide := true}) only [c_ln_cell, bivLognormal, zlog, div_mul_eq_div_div, ↓reduceIte]
    ring_nf

/-- **Bivariate lognormal.**  For every parameter-vector length the code accepts (3 and 5), every pair of evaluation
    grids (any sizes n, m), every cell: the value the compiled loop stores equals entry [i, j] of the Python reference
    formula, and both are the bivariate lognormal density with the parameters named by the dispatch table. -/
theorem C17_pdf_lognormal_eq (xx yy params : ℕ → ℝ) (n m i j L : ℕ) (hL : c_ln_handled L = true) :
    c_ln_cell xx yy params n m L i j = py_ln_cell xx yy params L i j ∧
    c_ln_cell xx yy params n m L i j
      = bivLognormal (paramOf (c_ln_dispatch L) params "mu1") (paramOf (c_ln_dispatch L) params "mu2")
          (paramOf (c_ln_dispatch L) params "sigma1") (paramOf (c_ln_dispatch L) params "sigma2")
          (paramOf (c_ln_dispatch L) params "rho") (xx i) (yy j) := by
  have h : L = 3 ∨ L = 5 := by simpa [c_ln_handled] using hL
  obtain ⟨h5, h3⟩ := C17_pdf_lognormal_closed_form xx yy params n m i j
  rcases h with rfl | rfl
  · constructor
    · simp (config := {decide := true}) only [c_ln_cell, py_ln_cell, ↓reduceIte, true_or, or_true]
      ring_nf
    · rw [h3]; simp [paramOf, dispatchOf, c_ln_dispatch]
  · constructor
    · simp (config := {decide := true}) only [c_ln_cell, py_ln_cell, ↓reduceIte, true_or, or_true]
      ring_nf
    · rw [h5]; simp [paramOf, dispatchOf, c_ln_dispatch]

example : c_ln_handled 3 = true ∧ c_ln_handled 5 = true := by decide

/-- On the domain of the property (x, y > 0, σ₁, σ₂ > 0, |ρ| < 1) no denominator of the expression vanishes and the
    compiled value is a positive number (so Lean's totalised division is the real one there). -/
theorem C17_pdf_lognormal_pos (xx yy params : ℕ → ℝ) (n m i j : ℕ) (hx : 0 < xx i) (hy : 0 < yy j) :
    (0 < params 2 → 0 < params 3 → |params 4| < 1 → 0 < c_ln_cell xx yy params n m 5 i j) ∧
    (0 < params 1 → |params 2| < 1 → 0 < c_ln_cell xx yy params n m 3 i j) := by
  obtain ⟨h5, h3⟩ := C17_pdf_lognormal_closed_form xx yy params n m i j
  constructor
  · intro h1 h2 hr; rw [h5]; exact bivLognormal_pos hx hy h1 h2 hr
  · intro h1 hr; rw [h3]; exact bivLognormal_pos hx hy h1 h1 hr

example : (0 : ℝ) < 1 ∧ |(1 / 2 : ℝ)| < 1 := by norm_num [abs_lt]

/-- parameter vector given as a list -/
def pvec (l : List ℝ) : ℕ → ℝ := fun k => l.getD k 0

/-- The symmetric 3-parameter form (μ, σ, ρ) is the 5-parameter form with μ₁ = μ₂ = μ, σ₁ = σ₂ = σ — in the compiled
    code and in the reference — and it is symmetric under exchanging the two arguments (what the symmetric shortcut
    of `Cache2D.integrate` relies on). -/
theorem C17_pdf_lognormal_symmetric_form (xx yy : ℕ → ℝ) (mu sigma rho : ℝ) (n m i j : ℕ) :
    c_ln_cell xx yy (pvec [mu, sigma, rho]) n m 3 i j = c_ln_cell xx yy (pvec [mu, mu, sigma, sigma, rho]) n m 5 i j ∧
    py_ln_cell xx yy (pvec [mu, sigma, rho]) 3 i j = py_ln_cell xx yy (pvec [mu, mu, sigma, sigma, rho]) 5 i j ∧
    c_ln_cell xx yy (pvec [mu, sigma, rho]) n m 3 i j = c_ln_cell yy xx (pvec [mu, sigma, rho]) m n 3 j i := by
  refine ⟨?_, ?_, ?_⟩
  · simp [c_ln_cell, pvec]
  · simp [py_ln_cell, pvec]
  · rw [(C17_pdf_lognormal_closed_form xx yy _ n m i j).2, (C17_pdf_lognormal_closed_form yy xx _ m n j i).2]
    exact bivLognormal_swap _ _ _ _ _

/-- With ρ = 0 the bivariate lognormal is the product of the univariate `PDFs.lognormal` of the two arguments (the
    1-D and 2-D components of the mixtures share μ, σ). -/
theorem C17_pdf_lognormal_rho_zero (xx yy : ℕ → ℝ) (mu1 mu2 s1 s2 : ℝ) (n m i j : ℕ) (hx : 0 < xx i) (hy : 0 < yy j) :
    c_ln_cell xx yy (pvec [mu1, mu2, s1, s2, 0]) n m 5 i j
      = py_lognormal (xx i) (pvec [mu1, s1]) * py_lognormal (yy j) (pvec [mu2, s2]) := by
  rw [(C17_pdf_lognormal_closed_form xx yy _ n m i j).1]
  simp only [py_lognormal, scipyPdf, scipyLognormStd, sub_zero, pvec, List.getD_cons_zero, List.getD_cons_succ]
  rw [lognorm_scipy_eq hx, lognorm_scipy_eq hy]
  exact bivLognormal_rho_zero _ _ _ _ _ _

/-- **Bivariate independent gamma.**  For every accepted length (2, 3: shared shape and scale; 4, 5: (α₁, α₂, β₁, β₂); a
    trailing third / fifth entry is ignored), every grid and cell, with x, y > 0 and scales > 0: the compiled value
    equals the reference (`scipy.stats.gamma.pdf` marginals) provided `gamma_func` returns Γ at the shapes used, and
    both are the product of the two gamma densities. -/
theorem C17_pdf_gamma_eq (gamma_func : ℝ → ℝ) (xx yy params : ℕ → ℝ) (n m i j : ℕ) (hx : 0 < xx i) (hy : 0 < yy j) :
    (∀ L, L = 2 ∨ L = 3 → 0 < params 1 → gamma_func (params 0) = Real.Gamma (params 0) →
      c_g_cell gamma_func xx yy params n m L i j = py_g_cell xx yy params L i j ∧
      py_g_cell xx yy params L i j = gammaDensity (params 0) (params 1) (xx i) * gammaDensity (params 0) (params 1) (yy j)) ∧
    (∀ L, L = 4 ∨ L = 5 → 0 < params 2 → 0 < params 3 → gamma_func (params 0) = Real.Gamma (params 0) →
      gamma_func (params 1) = Real.Gamma (params 1) →
      c_g_cell gamma_func xx yy params n m L i j = py_g_cell xx yy params L i j ∧
      py_g_cell xx yy params L i j = gammaDensity (params 0) (params 2) (xx i) * gammaDensity (params 1) (params 3) (yy j)) := by
  constructor
  · intro L hL hb hG
    rcases hL with rfl | rfl <;>
    · simp (config := {decide := true}) only [c_g_cell, py_g_cell, scipyPdf, scipyGammaStd, cpow, sub_zero, ↓reduceIte,
        true_or, or_true]
      rw [gamma_scipy_eq _ hx hb, gamma_scipy_eq _ hy hb]
      simp only [hG, gammaDensity, gammaDensityWith, and_self]
  · intro L hL hb1 hb2 hG1 hG2
    rcases hL with rfl | rfl <;>
    · simp (config := {decide := true}) only [c_g_cell, py_g_cell, scipyPdf, scipyGammaStd, cpow, sub_zero, ↓reduceIte,
        true_or, or_true]
      rw [gamma_scipy_eq _ hx hb1, gamma_scipy_eq _ hy hb2]
      simp only [hG1, hG2, gammaDensity, gammaDensityWith, and_self]

example : (0 : ℝ) < pvec [2, 3] 1 ∧ (fun a : ℝ => Real.Gamma a) (pvec [2, 3] 0) = Real.Gamma (pvec [2, 3] 0) := by
  simp [pvec]

/-- the compiled gamma value is positive on the domain when `gamma_func` is positive at the shapes -/
theorem C17_pdf_gamma_pos (gamma_func : ℝ → ℝ) (xx yy params : ℕ → ℝ) (n m i j : ℕ) (hx : 0 < xx i) (hy : 0 < yy j)
    (hb1 : 0 < params 2) (hb2 : 0 < params 3) (h1 : 0 < gamma_func (params 0)) (h2 : 0 < gamma_func (params 1)) :
    0 < c_g_cell gamma_func xx yy params n m 4 i j := by
  have e : c_g_cell gamma_func xx yy params n m 4 i j
      = gammaDensityWith (gamma_func (params 0)) (params 0) (params 2) (xx i)
        * gammaDensityWith (gamma_func (params 1)) (params 1) (params 3) (yy j) := by
    simp (config := {decide := true}) only [c_g_cell, cpow, gammaDensityWith, ↓reduceIte, true_or, or_true]
  rw [e]
  exact mul_pos (gammaDensityWith_pos h1 hx hb1) (gammaDensityWith_pos h2 hy hb2)

example : (0 : ℝ) < 1 := one_pos

/-- The 2-parameter form is the 4-parameter form with α₁ = α₂, β₁ = β₂; the third / fifth entry is ignored — in the
    compiled code and in the reference. -/
theorem C17_pdf_gamma_symmetric_form (gamma_func : ℝ → ℝ) (xx yy : ℕ → ℝ) (a b a2 b2 extra : ℝ) (n m i j : ℕ) :
    c_g_cell gamma_func xx yy (pvec [a, b]) n m 2 i j = c_g_cell gamma_func xx yy (pvec [a, a, b, b]) n m 4 i j ∧
    c_g_cell gamma_func xx yy (pvec [a, b, extra]) n m 3 i j = c_g_cell gamma_func xx yy (pvec [a, b]) n m 2 i j ∧
    c_g_cell gamma_func xx yy (pvec [a, a2, b, b2, extra]) n m 5 i j = c_g_cell gamma_func xx yy (pvec [a, a2, b, b2]) n m 4 i j ∧
    py_g_cell xx yy (pvec [a, b]) 2 i j = py_g_cell xx yy (pvec [a, a, b, b]) 4 i j ∧
    py_g_cell xx yy (pvec [a, b, extra]) 3 i j = py_g_cell xx yy (pvec [a, b]) 2 i j ∧
    py_g_cell xx yy (pvec [a, a2, b, b2, extra]) 5 i j = py_g_cell xx yy (pvec [a, a2, b, b2]) 4 i j := by
  refine ⟨?_, ?_, ?_, ?_, ?_, ?_⟩ <;> simp [c_g_cell, py_g_cell, pvec]

/-- The reference bivariate gamma is the product of the univariate `PDFs.gamma` of the two arguments (what
    `Vourlaki_mixture` pairs with `biv_ind_gamma`). -/
theorem C17_pdf_gamma_marginals (xx yy params : ℕ → ℝ) (i j : ℕ) :
    py_g_cell xx yy params 2 i j = py_gamma (xx i) params * py_gamma (yy j) params ∧
    py_g_cell xx yy params 4 i j
      = py_gamma (xx i) (pvec [params 0, params 2]) * py_gamma (yy j) (pvec [params 1, params 3]) := by
  constructor <;> simp [py_g_cell, py_gamma, pvec]

/-- The univariate densities of PDFs.py, as written there (scipy.stats calls with scipy's documented formulas), in
    closed form on x > 0. -/
theorem C17_pdf_univariate (x mu sigma : ℝ) (params : ℕ → ℝ) (hx : 0 < x) :
    py_lognormal x params = lognormalDensity (params 0) (params 1) x ∧
    (0 < params 1 → py_gamma x params = gammaDensity (params 0) (params 1) x) ∧
    py_exponential x params = Real.exp (-(x / params 0)) / params 0 ∧
    py_normal x mu sigma = Real.exp (-((x - mu) / sigma) ^ 2 / 2) / Real.sqrt (2 * Real.pi) / sigma ∧
    py_beta x params = Real.Gamma (params 0 + params 1) * x ^ (params 0 - 1) * (1 - x) ^ (params 1 - 1)
        / (Real.Gamma (params 0) * Real.Gamma (params 1)) := by
  refine ⟨?_, ?_, ?_, ?_, ?_⟩
  · simp only [py_lognormal, scipyPdf, scipyLognormStd, sub_zero]
    exact lognorm_scipy_eq hx
  · intro hb
    simp only [py_gamma, scipyPdf, scipyGammaStd, sub_zero]
    exact gamma_scipy_eq _ hx hb
  · simp only [py_exponential, scipyPdf, scipyExponStd, sub_zero]
  · simp only [py_normal, scipyPdf, scipyNormStd]
  · simp only [py_beta, scipyPdf, scipyBetaStd, sub_zero, div_one]

example : (0 : ℝ) < 2 := two_pos

/-- **Output layout.**  For inputs of any sizes `xs`, `ys` (rectangular grids included) the array the wrapper returns
    has shape (xs, ys), its entry [i, j] (numpy row-major addressing of the flat buffer) is the value the loops computed
    for (ii, jj) = (i, j), every cell is written and nothing is written at or beyond the end of the buffer — i.e. the
    index expression of the output loop is row-major with stride `ys`.  `gam = true`: biv_ind_gamma. -/
theorem C17_pdf_index_row_major {α : Type} (gam : Bool) (xs ys ps : ℕ) (val : ℕ → ℕ → α) :
    resultShape gam xs ys ps = (xs, ys) ∧
    (∀ i < xs, ∀ j < ys, resultAt gam xs ys ps val i j = some (val i j)) ∧
    (∀ k, xs * ys ≤ k → bufferAfter gam xs ys ps val k = none) := by
  cases gam
  · refine ⟨rfl, ?_, ?_⟩
    · intro i hi j hj
      exact (fill2_rowMajor xs ys val).1 i hi j hj
    · intro k hk
      exact (fill2_rowMajor xs ys val).2 k hk
  · refine ⟨rfl, ?_, ?_⟩
    · intro i hi j hj
      exact (fill2_rowMajor xs ys val).1 i hi j hj
    · intro k hk
      exact (fill2_rowMajor xs ys val).2 k hk

/-- Work arrays and wrappers: every work array is malloc'ed with as many entries as the loop filling it writes and the
    loop reading it reads, it is computed from the input array of that very extent (xx ↔ n, yy ↔ m), direct reads of
    xx / yy in the output loop use the matching loop variable, the Cython wrapper passes the pointers in order and
    `params.size` as Nparams, PDFs.py hands contiguous float arrays over, and `gamma_func` closes with the Lanczos and
    reflection formulas literally. -/
theorem C17_pdf_buffers :
    (∀ b ∈ c_ln_buffers ++ c_g_buffers, b.2.1 = b.2.2.1 ∧ b.2.2.1 = b.2.2.2.1 ∧ b.2.2.2.1 = b.2.2.2.2.2 ∧
      ((b.2.2.2.2.1 = "xx" ∧ b.2.1 = "n") ∨ (b.2.2.2.2.1 = "yy" ∧ b.2.1 = "m"))) ∧
    (∀ r ∈ c_ln_directReads ++ c_g_directReads, r = ("xx", "n") ∨ r = ("yy", "m")) ∧
    pyx_ln_pointersOk = true ∧ pyx_g_pointersOk = true ∧ py_ln_wrapperOk = true ∧ py_g_wrapperOk = true ∧
    lanczosShapeOk = true ∧
    (∀ xs ys ps, pyx_ln_Nparams xs ys ps = ps ∧ pyx_g_Nparams xs ys ps = ps ∧
      pyx_ln_n xs ys ps = xs ∧ pyx_ln_m xs ys ps = ys ∧ pyx_g_n xs ys ps = xs ∧ pyx_g_m xs ys ps = ys) := by
  refine ⟨by decide, by decide, by decide, by decide, by decide, by decide, by decide, fun _ _ _ => ⟨rfl, rfl, rfl, rfl, rfl, rfl⟩⟩

end pdfs

/-! ## Round 4 — the exact part of "total quadrature weight is one, up to quadrature error"

The regions N = (0, a), I = [a, b], D = (b, ∞) (`regSet`, a = −neg_gammas[−1], b = −neg_gammas[0]: the bounds the
translator reads off the quad / dblquad calls) partition the positive half line.  For ANY finite measure μ — any
distribution of fitness effects, with a density or not — the difference between the total weight the code uses and the
total mass is therefore exactly the sum of the per-region quadrature errors (each number the code computes minus the
mass of its own region), in one and in two dimensions. -/

section mass
open MeasureTheory Set

/-- the number `Cache1D.integrate` uses for the mass of region `r` -/
def regionWeight1D (n : ℕ) (x w : ℕ → ℚ) (wt : Reg → ℚ) : Reg → ℚ
  | .I => trapz n x w
  | r => wt r

/-- the number `Cache2D.integrate` uses for the mass of region (r1, r2) of the (γ1, γ2) plane -/
def regionWeight2D (n : ℕ) (x : ℕ → ℚ) (w : ℕ → ℕ → ℚ) (wv : Reg → Reg → ℕ → ℚ) (C : Reg → Reg → ℚ) : Reg → Reg → ℚ
  | .I, .I => trapz n x fun j => trapz n x fun i => w i j
  | .I, .D => trapz n x (wv .I .D)
  | .I, .N => trapz n x (wv .I .N)
  | .D, .I => trapz n x (wv .D .I)
  | .N, .I => trapz n x (wv .N .I)
  | r1, r2 => C r1 r2

/-- Σ over the three regions / the nine pairs of regions -/
def sumReg {K : Type} [Add K] (f : Reg → K) : K := f .N + f .I + f .D
def sumReg2 {K : Type} [Add K] (f : Reg → Reg → K) : K := sumReg fun r1 => sumReg fun r2 => f r1 r2

/-- the total weights of `C17_no_selection_1d` / `C17_total_weight_2d` are the sums of the region weights -/
theorem C17_total_weight_regions (n : ℕ) (x w : ℕ → ℚ) (wt : Reg → ℚ) (w2 : ℕ → ℕ → ℚ) (wv : Reg → Reg → ℕ → ℚ)
    (C : Reg → Reg → ℚ) :
    integrate1D true 1 n x w (fun _ => 1) 1 wt = sumReg (regionWeight1D n x w wt) ∧
    integrate2D true false 1 n x w2 (fun _ _ => 1) wv C = sumReg2 (regionWeight2D n x w2 wv C) := by
  constructor
  · rw [(C17_quadrature_1d 1 n x w (fun _ => 1) 1 wt).1]
    simp only [sumReg, regionWeight1D, mul_one, one_mul]; ring
  · rw [C17_total_weight_2d]
    simp only [sumReg2, sumReg, regionWeight2D]; ring

/-- **1-D.**  For any finite measure μ on the line and a grid spanning [a, b], 0 < a ≤ b: total weight − total mass of
    (0, ∞) = Σ over the three regions of (the number used − the mass of the region); hence |W − mass| ≤ Σ of the
    per-region quadrature errors, and W is within that bound of one for a probability distribution on (0, ∞). -/
theorem C17_total_weight_exact_1d (μ : Measure ℝ) [IsFiniteMeasure μ] (a b : ℝ) (ha : 0 < a) (hab : a ≤ b)
    (n : ℕ) (x w : ℕ → ℚ) (wt : Reg → ℚ) :
    ((integrate1D true 1 n x w (fun _ => 1) 1 wt : ℚ) : ℝ) - μ.real (Ioi 0)
      = sumReg (fun r => ((regionWeight1D n x w wt r : ℚ) : ℝ) - μ.real (regSet a b r)) ∧
    ∀ e : Reg → ℝ, (∀ r, |((regionWeight1D n x w wt r : ℚ) : ℝ) - μ.real (regSet a b r)| ≤ e r) →
      |((integrate1D true 1 n x w (fun _ => 1) 1 wt : ℚ) : ℝ) - μ.real (Ioi 0)| ≤ sumReg e := by
  have key : ((integrate1D true 1 n x w (fun _ => 1) 1 wt : ℚ) : ℝ) - μ.real (Ioi 0)
      = sumReg (fun r => ((regionWeight1D n x w wt r : ℚ) : ℝ) - μ.real (regSet a b r)) := by
    rw [(C17_total_weight_regions n x w wt (fun _ _ => 0) (fun _ _ _ => 0) (fun _ _ => 0)).1, mass_regions_1d μ ha hab]
    simp only [sumReg]; push_cast; ring
  refine ⟨key, fun e he => ?_⟩
  rw [key]
  have hN := abs_le.mp (he .N); have hI := abs_le.mp (he .I); have hD := abs_le.mp (he .D)
  simp only [sumReg] at *
  rw [abs_le]; constructor <;> linarith [hN.1, hN.2, hI.1, hI.2, hD.1, hD.2]

/-- **2-D.**  For any finite measure μ on the plane: total weight − mass of the positive quadrant = Σ over the nine
    regions of (the number used − the mass of the region) — interior double trapezoid, four edge trapezoids of
    quad results, four dblquad corners, each against the mass of its own region r1 × r2 — hence
    |W − mass| ≤ Σ of the nine quadrature errors (so W is one up to exactly those errors for a probability
    distribution on the positive quadrant).  Without the (lethal, lethal) corner the identity is false (F-17c). -/
theorem C17_total_weight_exact_2d (μ : Measure (ℝ × ℝ)) [IsFiniteMeasure μ] (a b : ℝ) (ha : 0 < a) (hab : a ≤ b)
    (n : ℕ) (x : ℕ → ℚ) (w : ℕ → ℕ → ℚ) (wv : Reg → Reg → ℕ → ℚ) (C : Reg → Reg → ℚ) :
    ((integrate2D true false 1 n x w (fun _ _ => 1) wv C : ℚ) : ℝ) - μ.real (Ioi 0 ×ˢ Ioi 0)
      = sumReg2 (fun r1 r2 => ((regionWeight2D n x w wv C r1 r2 : ℚ) : ℝ) - μ.real (regSet a b r1 ×ˢ regSet a b r2)) ∧
    ∀ e : Reg → Reg → ℝ,
      (∀ r1 r2, |((regionWeight2D n x w wv C r1 r2 : ℚ) : ℝ) - μ.real (regSet a b r1 ×ˢ regSet a b r2)| ≤ e r1 r2) →
      |((integrate2D true false 1 n x w (fun _ _ => 1) wv C : ℚ) : ℝ) - μ.real (Ioi 0 ×ˢ Ioi 0)| ≤ sumReg2 e := by
  have key : ((integrate2D true false 1 n x w (fun _ _ => 1) wv C : ℚ) : ℝ) - μ.real (Ioi 0 ×ˢ Ioi 0)
      = sumReg2 (fun r1 r2 => ((regionWeight2D n x w wv C r1 r2 : ℚ) : ℝ) - μ.real (regSet a b r1 ×ˢ regSet a b r2)) := by
    rw [(C17_total_weight_regions n x (fun _ => 0) (fun _ => 0) w wv C).2, mass_regions_2d μ ha hab]
    simp only [sumReg2, sumReg]; push_cast; ring
  refine ⟨key, fun e he => ?_⟩
  rw [key]
  have h := fun r1 r2 => abs_le.mp (he r1 r2)
  simp only [sumReg2, sumReg] at *
  rw [abs_le]
  constructor <;>
    linarith [(h .N .N).1, (h .N .N).2, (h .N .I).1, (h .N .I).2, (h .N .D).1, (h .N .D).2, (h .I .N).1, (h .I .N).2,
      (h .I .I).1, (h .I .I).2, (h .I .D).1, (h .I .D).2, (h .D .N).1, (h .D .N).2, (h .D .I).1, (h .D .I).2,
      (h .D .D).1, (h .D .D).2]

example : (0 : ℝ) < 1 ∧ (1 : ℝ) ≤ 2 := by norm_num

end mass

/-! ## Round 4 — point masses (any number) and mixtures when selection has no effect -/

/-- (ppos₁, γ₁, ppos₂, γ₂, …) -/
def flatPairs : List (ℚ × ℚ) → List ℚ
  | [] => []
  | (p, g) :: t => p :: g :: flatPairs t

theorem flatPairs_length (pairs : List (ℚ × ℚ)) : (flatPairs pairs).length = 2 * pairs.length := by
  induction pairs with
  | nil => rfl
  | cons p t ih => obtain ⟨a, b⟩ := p; simp only [flatPairs, List.length_cons, ih]; ring

theorem everyOther_flatPairs (pairs : List (ℚ × ℚ)) :
    everyOther (flatPairs pairs) = pairs.map Prod.fst ∧
    ∀ a, everyOther (a :: flatPairs pairs) = a :: everyOther ((flatPairs pairs).drop 1) := by
  induction pairs with
  | nil => exact ⟨rfl, fun _ => rfl⟩
  | cons p t ih =>
    obtain ⟨a, b⟩ := p
    refine ⟨?_, fun c => ?_⟩
    · simp only [flatPairs, everyOther, List.map_cons, ih.1]
    · simp only [flatPairs, everyOther, List.drop_succ_cons, List.drop_zero]

theorem everyOther_flatPairs_drop (pairs : List (ℚ × ℚ)) :
    everyOther ((flatPairs pairs).drop 1) = pairs.map Prod.snd := by
  induction pairs with
  | nil => rfl
  | cons p t ih =>
    obtain ⟨a, b⟩ := p
    simp only [flatPairs, List.drop_succ_cons, List.drop_zero, List.map_cons]
    rw [(everyOther_flatPairs t).2 b, ih]

/-- `Cache1D.integrate_point_pos` with ANY number Npos ≥ 1 of point masses: the parameter vector
    pdf_params ++ (ppos₁, γ₁, …, ppos_Npos, γ_Npos) is split into the pdf parameters, all the proportions and all the
    gammas, in order. -/
theorem C17_point_pos_1d_params (sh : List ℚ) (pairs : List (ℚ × ℚ)) (hne : pairs ≠ []) :
    pp1Split (sh ++ flatPairs pairs) pairs.length = .ok (sh, pairs.map Prod.fst, pairs.map Prod.snd) := by
  have hl := flatPairs_length pairs
  have hpos : pairs.length ≠ 0 := fun h => hne (List.length_eq_zero_iff.mp h)
  have h1 : pyDropNeg (sh ++ flatPairs pairs) (2 * pairs.length) = flatPairs pairs := pyDropNeg_append _ _ _ hl
  have h2 : pyTakeNeg (sh ++ flatPairs pairs) (2 * pairs.length) = sh := pyTakeNeg_append _ _ _ hl
  have hlen : ¬ (sh ++ flatPairs pairs).length < 2 * pairs.length := by
    rw [List.length_append, hl]; omega
  simp only [pp1Split, hpos, hlen, or_self, if_false, h1, h2, (everyOther_flatPairs pairs).1, everyOther_flatPairs_drop]

example : ([(1 / 10, 2), (1 / 5, 3)] : List (ℚ × ℚ)) ≠ [] := by decide

theorem ppSum_const (theta s0 : ℚ) (gs sp : List ℚ) (hS : ∀ k < gs.length, sp.getD k 0 = s0) :
    ∀ (pposL gposL : List ℚ), pposL.length = gposL.length → (∀ g ∈ gposL, g ∈ gs) →
      ppSum theta gs sp (pposL.zip gposL) = theta * s0 * ratSum pposL := by
  intro pposL
  induction pposL with
  | nil => intro gposL _ _; simp [ppSum, ratSum]
  | cons p t ih =>
    intro gposL hl hg
    cases gposL with
    | nil => simp at hl
    | cons g gt =>
      have hin : g ∈ gs := hg g List.mem_cons_self
      have hidx : gs.idxOf g < gs.length := List.idxOf_lt_length_iff.mpr hin
      simp only [List.zip_cons_cons, ppSum, ratSum, hS _ hidx]
      rw [ih gt (by simpa using hl) (fun g' hg' => hg g' (List.mem_cons_of_mem _ hg'))]
      ring

/-- When selection has no effect (every cached spectrum, positive gammas included, and the neutral one have the same
    entry s0), `Cache1D.integrate_point_pos` with any number of cached point masses returns
    theta · s0 · ((1 − Σ ppos) · W + Σ ppos), W the total weight of the continuous part — theta · s0 when W = 1. -/
theorem C17_point_pos_1d_no_selection (ext : Bool) (theta s0 : ℚ) (computed : ℚ → Option ℚ) (pposL gposL gs sp : List ℚ)
    (n : ℕ) (hn : 0 < n) (hnG : n ≤ gs.length) (x w : ℕ → ℚ) (wt : Reg → ℚ)
    (hS : ∀ k < gs.length, sp.getD k 0 = s0)
    (hl : pposL.length = gposL.length) (hg : ∀ g ∈ gposL, g ∈ gs) :
    integratePointPos1D ext theta computed pposL gposL gs sp n x w s0 wt
      = .ok (theta * s0 * ((1 - ratSum pposL) * integrate1D ext 1 n x w (fun _ => 1) 1 wt + ratSum pposL), gs, sp) ∧
    (integrate1D ext 1 n x w (fun _ => 1) 1 wt = 1 →
      integratePointPos1D ext theta computed pposL gposL gs sp n x w s0 wt = .ok (theta * s0, gs, sp)) := by
  have hS' : ∀ i < n, (fun i => sp.getD i 0) i = s0 := fun i hi => hS i (by omega)
  have e1 : integrate1D ext (pp1_thetaArg theta) n x w (fun i => sp.getD i 0) s0 wt
      = theta * s0 * integrate1D ext 1 n x w (fun _ => 1) 1 wt := by
    obtain ⟨a1, a2⟩ := C17_no_selection_1d (pp1_thetaArg theta) s0 n hn x w (fun i => sp.getD i 0) wt hS'
    obtain ⟨b1, b2⟩ := C17_no_selection_1d 1 1 n hn x w (fun _ => 1) wt (fun _ _ => rfl)
    cases ext
    · rw [a2, b2]; simp only [pp1_thetaArg]; ring
    · rw [a1, b1]; simp only [pp1_thetaArg]; ring
  have main : integratePointPos1D ext theta computed pposL gposL gs sp n x w s0 wt
      = .ok (theta * s0 * ((1 - ratSum pposL) * integrate1D ext 1 n x w (fun _ => 1) 1 wt + ratSum pposL), gs, sp) := by
    rw [integratePointPos1D, C17_point_pos_1d theta computed pposL gposL gs sp _ hg, e1,
      ppSum_const theta s0 gs sp hS pposL gposL hl hg]
    congr 2; ring
  refine ⟨main, fun hW => ?_⟩
  rw [main, hW]; congr 2; ring

example : (0 < 2 ∧ 2 ≤ ([-3, -1, 4] : List ℚ).length) ∧ (∀ k < ([-3, -1, 4] : List ℚ).length, ([5, 5, 5] : List ℚ).getD k 0 = 5) ∧
    (∀ g ∈ ([4, 4] : List ℚ), g ∈ ([-3, -1, 4] : List ℚ)) := by decide

/-- When selection has no effect (all cached entries equal s0), `Cache2D.integrate_point_pos` returns theta · s0 times
    (p₊₊ + p₊₋ · M₂ + p₋₊ · M₁ + p₋₋ · W) with W the total weight of the continuous part and M₁, M₂ the interior
    masses of the two marginals; with W = M₁ = M₂ = 1 the four quadrant weights add up and the result is theta · s0. -/
theorem C17_point_pos_2d_no_selection (sqrt : ℚ → ℚ) (sym : Bool) (theta rho s0 : ℚ) (n : ℕ) (hn : 0 < n) (x : ℕ → ℚ)
    (w S : ℕ → ℕ → ℚ) (wv : Reg → Reg → ℕ → ℚ) (C : Reg → Reg → ℚ) (i1 i2 : ℕ) (p1 p2 : ℚ) (hS : ∀ i j, S i j = s0) :
    integratePointPos2D sqrt sym theta rho n x w S wv C i1 i2 p1 p2
      = theta * s0 * (p_pos_pos sqrt p1 p2 rho
          + p_pos_neg sqrt p1 p2 rho * trapz n x (fun k => trapz n x fun i => w i k)
          + p_neg_pos sqrt p1 p2 rho * trapz n x (fun k => trapz n x fun j => w k j)
          + p_neg_neg sqrt p1 p2 rho * integrate2D true sym 1 n x w (fun _ _ => 1) wv C) ∧
    (trapz n x (fun k => trapz n x fun i => w i k) = 1 → trapz n x (fun k => trapz n x fun j => w k j) = 1 →
      integrate2D true sym 1 n x w (fun _ _ => 1) wv C = 1 →
      integratePointPos2D sqrt sym theta rho n x w S wv C i1 i2 p1 p2 = theta * s0) := by
  have e : integrate2D true sym 1 n x w S wv C = s0 * integrate2D true sym 1 n x w (fun _ _ => 1) wv C := by
    rw [C17_no_selection_2d true sym 1 s0 n hn x w S wv C (fun i _ j _ => hS i j)]; ring
  have main : integratePointPos2D sqrt sym theta rho n x w S wv C i1 i2 p1 p2
      = theta * s0 * (p_pos_pos sqrt p1 p2 rho
          + p_pos_neg sqrt p1 p2 rho * trapz n x (fun k => trapz n x fun i => w i k)
          + p_neg_pos sqrt p1 p2 rho * trapz n x (fun k => trapz n x fun j => w k j)
          + p_neg_neg sqrt p1 p2 rho * integrate2D true sym 1 n x w (fun _ _ => 1) wv C) := by
    rw [C17_point_pos_2d, e]
    simp only [hS, trapz_const_mul]
    ring
  refine ⟨main, fun h1 h2 h3 => ?_⟩
  rw [main, h1, h2, h3]
  have q := (C17_quadrants sqrt p1 p2 rho).1
  linear_combination theta * s0 * q

example : (∀ i j : ℕ, (fun _ _ : ℕ => (3 : ℚ)) i j = 3) ∧ 0 < 2 := ⟨fun _ _ => rfl, by decide⟩

/-- **`DFE.mixture` when selection has no effect**: with every cached spectrum of both caches and the neutral spectrum
    equal to s0 the result is theta · s0 · ((1 − p2d) · W₁ + p2d · W₂), W₁ / W₂ the total quadrature weights of the 1-D /
    2-D component (the very same assemblies on all-ones spectra); theta · s0 when both weights are one. -/
theorem C17_mixture_no_selection (ext sym : Bool) (theta p2d s0 : ℚ) (n1 : ℕ) (hn1 : 0 < n1) (x1 w1 S1 : ℕ → ℚ)
    (wt : Reg → ℚ) (n2 : ℕ) (hn2 : 0 < n2) (x2 : ℕ → ℚ) (w2 S2 : ℕ → ℕ → ℚ) (wv : Reg → Reg → ℕ → ℚ) (C : Reg → Reg → ℚ)
    (hS1 : ∀ i < n1, S1 i = s0) (hS2 : ∀ i < n2, ∀ j < n2, S2 i j = s0) :
    mixtureEntry ext theta p2d n1 x1 w1 S1 s0 wt sym n2 x2 w2 S2 wv C
      = theta * s0 * ((1 - p2d) * integrate1D ext 1 n1 x1 w1 (fun _ => 1) 1 wt
          + p2d * integrate2D ext sym 1 n2 x2 w2 (fun _ _ => 1) wv C) ∧
    (integrate1D ext 1 n1 x1 w1 (fun _ => 1) 1 wt = 1 → integrate2D ext sym 1 n2 x2 w2 (fun _ _ => 1) wv C = 1 →
      mixtureEntry ext theta p2d n1 x1 w1 S1 s0 wt sym n2 x2 w2 S2 wv C = theta * s0) := by
  have e1 : integrate1D ext theta n1 x1 w1 S1 s0 wt = theta * s0 * integrate1D ext 1 n1 x1 w1 (fun _ => 1) 1 wt := by
    obtain ⟨a1, a2⟩ := C17_no_selection_1d theta s0 n1 hn1 x1 w1 S1 wt hS1
    obtain ⟨b1, b2⟩ := C17_no_selection_1d 1 1 n1 hn1 x1 w1 (fun _ => 1) wt (fun _ _ => rfl)
    cases ext
    · rw [a2, b2]; ring
    · rw [a1, b1]; ring
  have main : mixtureEntry ext theta p2d n1 x1 w1 S1 s0 wt sym n2 x2 w2 S2 wv C
      = theta * s0 * ((1 - p2d) * integrate1D ext 1 n1 x1 w1 (fun _ => 1) 1 wt
          + p2d * integrate2D ext sym 1 n2 x2 w2 (fun _ _ => 1) wv C) := by
    rw [mixtureEntry, e1, C17_no_selection_2d ext sym theta s0 n2 hn2 x2 w2 S2 wv C hS2, (C17_mixture_weights p2d _ _).1]
    ring
  refine ⟨main, fun h1 h2 => ?_⟩
  rw [main, h1, h2]; ring

example : (∀ i < 2, (fun _ : ℕ => (7 : ℚ)) i = 7) ∧ (∀ i < 2, ∀ j < 2, (fun _ _ : ℕ => (7 : ℚ)) i j = 7) :=
  ⟨fun _ _ => rfl, fun _ _ _ _ => rfl⟩

/-- **`DFE.mixture_point_pos` / `DFE.mixture_symmetric_point_pos` when selection has no effect**: the result is
    theta · s0 · ((1 − p2d) · ((1 − ppos) · W₁ + ppos) + p2d · (p₊₊ + p₊₋ M₂ + p₋₊ M₁ + p₋₋ W₂)); with all of W₁, W₂, M₁,
    M₂ equal to one it is theta · s0 — the weights p2d, 1 − p2d, the point-mass proportions and the four quadrant
    weights add up to one. -/
theorem C17_mixture_point_no_selection (symm : Bool) (sqrt : ℚ → ℚ) (theta p2d ppos gpos s0 : ℚ) (gs1 sp1 : List ℚ)
    (n1 : ℕ) (hn1 : 0 < n1) (hnG : n1 ≤ gs1.length) (x1 w1 : ℕ → ℚ) (wt : Reg → ℚ)
    (sym : Bool) (rho : ℚ) (n2 : ℕ) (hn2 : 0 < n2) (x2 : ℕ → ℚ) (w2 S2 : ℕ → ℕ → ℚ) (wv : Reg → Reg → ℕ → ℚ)
    (C : Reg → Reg → ℚ) (i1 i2 : ℕ) (p1 p2 : ℚ)
    (hS1 : ∀ k < gs1.length, sp1.getD k 0 = s0) (hg : gpos ∈ gs1)
    (hS2 : ∀ i j, S2 i j = s0) :
    mixturePointEntry symm sqrt theta p2d ppos gpos gs1 sp1 n1 x1 w1 s0 wt sym rho n2 x2 w2 S2 wv C i1 i2 p1 p2
      = .ok (theta * s0 * ((1 - p2d) * ((1 - ppos) * integrate1D true 1 n1 x1 w1 (fun _ => 1) 1 wt + ppos)
          + p2d * (p_pos_pos sqrt p1 p2 rho
              + p_pos_neg sqrt p1 p2 rho * trapz n2 x2 (fun k => trapz n2 x2 fun i => w2 i k)
              + p_neg_pos sqrt p1 p2 rho * trapz n2 x2 (fun k => trapz n2 x2 fun j => w2 k j)
              + p_neg_neg sqrt p1 p2 rho * integrate2D true sym 1 n2 x2 w2 (fun _ _ => 1) wv C))) ∧
    (integrate1D true 1 n1 x1 w1 (fun _ => 1) 1 wt = 1 →
      trapz n2 x2 (fun k => trapz n2 x2 fun i => w2 i k) = 1 → trapz n2 x2 (fun k => trapz n2 x2 fun j => w2 k j) = 1 →
      integrate2D true sym 1 n2 x2 w2 (fun _ _ => 1) wv C = 1 →
      mixturePointEntry symm sqrt theta p2d ppos gpos gs1 sp1 n1 x1 w1 s0 wt sym rho n2 x2 w2 S2 wv C i1 i2 p1 p2
        = .ok (theta * s0)) := by
  have hg' : ∀ g ∈ [gpos], g ∈ gs1 := fun g hgm => by rw [List.mem_singleton.mp hgm]; exact hg
  obtain ⟨a1, a2⟩ := C17_point_pos_1d_no_selection true theta s0 (fun _ => none) [ppos] [gpos] gs1 sp1 n1 hn1 hnG x1 w1 wt
    hS1 rfl hg'
  obtain ⟨b1, b2⟩ := C17_point_pos_2d_no_selection sqrt sym theta rho s0 n2 hn2 x2 w2 S2 wv C i1 i2 p1 p2 hS2
  have hs : ratSum [ppos] = ppos := by simp [ratSum]
  constructor
  · simp only [mixturePointEntry, a1, b1, hs]
    cases symm <;> simp only [mixsym_combine, mixpt_combine, if_true, Bool.false_eq_true, if_false] <;> congr 1 <;> ring
  · intro h1 h2 h3 h4
    simp only [mixturePointEntry, a2 h1, b2 h2 h3 h4]
    cases symm <;> simp only [mixsym_combine, mixpt_combine, if_true, Bool.false_eq_true, if_false] <;> congr 1 <;> ring

example : (4 : ℚ) ∈ ([-3, -1, 4] : List ℚ) := by decide

end DadiVerif
