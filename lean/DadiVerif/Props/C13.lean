import DadiVerif.Lemmas.DataDictCorr
import DadiVerif.Lemmas.DataDictText
import DadiVerif.Lemmas.DataDictGt
/-!
# C13 — genotype data become the spectrum and statistics that direct counting gives

Every theorem is about the definitions of Model/DataDict.lean that the driver executes (`spectrumAt`, `countDict`,
`fragment`, `bootAt`, `chosenCalls`, `sOf`, `piOf`, `fstOf`, …) and, through them, about the generated definitions
of Generated/DataDict.lean (polarisation test, argument wiring of `_cached_projection`, the closed formulas of the
statistics), for data sets, projections and numbers of populations of any size.

What is NOT proved here (validated numerically only, see harness/c13.py): that the text parsers produce the
abstract `Site`/`Snp` records (K through rendered VCF / SNP files), that numpy's slicing/broadcasting computes the
pointwise product `prodW`, round-off of `exp(gammaln …)`, the `sqrt` in Tajima's D (a parameter).
-/
namespace DadiVerif
open DataDict Gen.DD

/-! ## the spectrum is the sum over usable SNPs of their hypergeometric projections -/

/-- the contribution of one SNP as the statement describes it: its product of hypergeometric projection rows,
    folded when the data are treated as unpolarised -/
def snpSpecAt (pol : Bool) (proj : List ℕ) (s : Snp) (idx : List ℕ) : ℚ :=
  if pol then contribAt true proj s idx else foldAt proj (contribAt false proj s) idx

/-- **Spectrum = Σ over SNPs** (grouping into the count dictionary, accumulation and the final fold included) -/
theorem C13_sum_of_snps (pol : Bool) (proj : List ℕ) (snps : List Snp) (idx : List ℕ) :
    spectrumAt pol proj snps idx = sumMap snps (fun s => snpSpecAt pol proj s idx) := by
  have hf : foldIffUnpolarized = true := rfl
  cases pol with
  | true => simp [spectrumAt, specAt, snpSpecAt, rawAt_countDict]
  | false =>
    simp only [spectrumAt, specAt, snpSpecAt, hf, if_true, Bool.false_eq_true, if_false]
    have : rawAt false proj (countDict snps) = fun i => sumMap snps (fun s => contribAt false proj s i) := by
      funext i; exact rawAt_countDict false proj snps i
    rw [this, foldAt_sumMap]

/-- a usable SNP (biallelic, polarised if required, at least `proj` calls in every population) contributes a
    total of exactly one … -/
theorem C13_snp_total (pol : Bool) (proj : List ℕ) (s : Snp) (hlen : s.calls.length = proj.length)
    (hu : usable pol proj s = true) : boxSum (shapeOf proj) (snpSpecAt pol proj s) = 1 := by
  cases pol with
  | true =>
    have : snpSpecAt true proj s = contribAt true proj s := by funext i; simp [snpSpecAt]
    rw [this]; exact contribAt_total_usable true proj s hlen hu
  | false =>
    have : snpSpecAt false proj s = foldAt proj (contribAt false proj s) := by funext i; simp [snpSpecAt]
    rw [this, foldAt_total]; exact contribAt_total_usable false proj s hlen hu

example : usable true [4, 2] (⟨0, 7, 0, 2, 1, 4, some 4, [(3, 5), (2, 0)]⟩ : Snp) = true := by decide

/-- … and any other SNP contributes nothing to any entry -/
theorem C13_snp_zero (pol : Bool) (proj : List ℕ) (s : Snp) (hlen : s.calls.length = proj.length)
    (hu : usable pol proj s = false) (idx : List ℕ) (hidx : InBox idx (shapeOf proj)) :
    snpSpecAt pol proj s idx = 0 := by
  have hl : idx.length = proj.length := by rw [inBox_length hidx, shapeOf_length]
  cases pol with
  | true => simp only [snpSpecAt, if_true]; exact contribAt_unusable true proj s hlen hu idx hl
  | false =>
    simp only [snpSpecAt, Bool.false_eq_true, if_false, foldAt]
    have hm : (mirror proj idx).length = proj.length := by
      rw [inBox_length (mirror_inBox hidx), shapeOf_length]
    rw [contribAt_unusable false proj s hlen hu idx hl, contribAt_unusable false proj s hlen hu _ hm]
    split_ifs <;> simp

example : usable true [4] (⟨0, 7, 0, 2, 1, 4, some 3, [(3, 5)]⟩ : Snp) = false := by decide
example : usable false [4] (⟨0, 7, 0, 2, 1, 4, none, [(1, 2)]⟩ : Snp) = false := by decide

/-- **the total of the spectrum (corner entries included) is the number of usable SNPs**, polarised or folded -/
theorem C13_total (pol : Bool) (proj : List ℕ) (snps : List Snp) (hlen : ∀ s ∈ snps, s.calls.length = proj.length) :
    boxSum (shapeOf proj) (spectrumAt pol proj snps) = (countUsable pol proj snps : ℚ) := by
  have h1 : spectrumAt pol proj snps = fun idx => sumMap snps (fun s => snpSpecAt pol proj s idx) := by
    funext idx; exact C13_sum_of_snps pol proj snps idx
  rw [h1, boxSum_sumMap, countUsable, length_filter_eq_sumMap]
  apply sumMap_congr
  intro s hs
  by_cases hu : usable pol proj s = true
  · rw [C13_snp_total pol proj s (hlen s hs) hu]; simp [hu]
  · have hu' : usable pol proj s = false := by simpa using hu
    have : boxSum (shapeOf proj) (snpSpecAt pol proj s) = boxSum (shapeOf proj) (fun _ => 0) :=
      boxSum_congr fun idx hidx => C13_snp_zero pol proj s (hlen s hs) hu' idx hidx
    rw [this, boxSum_zero]; simp [hu']

example : (∀ s ∈ [(⟨0, 7, 0, 2, 1, 4, some 4, [(3, 5), (2, 0)]⟩ : Snp), ⟨0, 9, 0, 2, 1, 4, some 2, [(4, 4), (1, 1)]⟩],
    s.calls.length = [4, 2].length) ∧
    countUsable true [4, 2] [(⟨0, 7, 0, 2, 1, 4, some 4, [(3, 5), (2, 0)]⟩ : Snp), ⟨0, 9, 0, 2, 1, 4, some 2, [(4, 4), (1, 1)]⟩] = 1 := by
  decide

/-- the spectrum of the union of two data sets is the sum of their spectra -/
theorem C13_additive (pol : Bool) (proj : List ℕ) (A B : List Snp) (idx : List ℕ) :
    spectrumAt pol proj (A ++ B) idx = spectrumAt pol proj A idx + spectrumAt pol proj B idx := by
  simp only [C13_sum_of_snps, sumMap_append]

/-- the order of the entries of the dictionary is irrelevant -/
theorem C13_perm (pol : Bool) (proj : List ℕ) (A B : List Snp) (h : A.Perm B) (idx : List ℕ) :
    spectrumAt pol proj A idx = spectrumAt pol proj B idx := by
  simp only [C13_sum_of_snps]; exact sumMap_perm h _

/-! ## polarisation -/

/-- **the three-way test for a usable ancestral allele, as a decision table**: `polTable` is generated by running the polarisation
    and derived-allele statements of `Misc.count_data_dict` on one representative per equality pattern among ('-', allele1,
    allele2, outgroup allele or no outgroup key) — 80 rows.  The table is complete (its keys are exactly `polKeys`), agrees row by row
    with the statement's test `polSpec` (polarised iff an outgroup allele is recorded, is not '-' and is one of the two segregating
    alleles; then the other allele is the derived one; '-' / missing / a third allele ⇒ unpolarised, second allele counted), and
    therefore the model's decision `Snp.polRow` — the row found under the SNP's canonical key — is `polSpec` for EVERY SNP, whatever
    its allele strings -/
theorem C13_polarised_table :
    polTable.map (·.1) = polKeys ∧ (∀ k ∈ polKeys, Snp.polLookup k = polSpec k) ∧
    ∀ s : Snp, s.polRow = polSpec (s.out, s.a1, s.a2) := by
  have h1 : polTable.map (·.1) = polKeys := by decide +kernel
  have h2 : ∀ k ∈ polKeys, Snp.polLookup k = polSpec k := by decide +kernel
  exact ⟨h1, h2, Snp.polRow_of_table h2⟩

/-- a SNP is polarised exactly when an outgroup allele is recorded, is not '-', and is one of the two segregating alleles -/
theorem C13_polarised_iff (s : Snp) :
    s.polarized = true ↔ ∃ o, s.out = some o ∧ o ≠ dash ∧ (o = s.a1 ∨ o = s.a2) := by
  unfold Snp.polarized
  rw [C13_polarised_table.2.2 s, polSpec]
  cases h : s.out with
  | none => simp
  | some o =>
    by_cases hc : o ≠ dash ∧ (o = s.a1 ∨ o = s.a2)
    · simp only [if_pos hc, true_iff]; exact ⟨o, rfl, hc.1, hc.2⟩
    · simp only [if_neg hc, Bool.false_eq_true, false_iff]
      rintro ⟨o', ho', hd, h12⟩
      cases ho'
      exact hc ⟨hd, h12⟩

/-- the derived calls are those of the allele that differs from the outgroup allele; an unpolarised SNP counts
    its second allele -/
theorem C13_polarise (s : Snp) :
    (s.polarized = true → s.out = some s.a1 → s.derived = s.calls.map Prod.snd) ∧
    (s.polarized = true → s.out = some s.a2 → s.a1 ≠ s.a2 → s.derived = s.calls.map Prod.fst) ∧
    (s.polarized = false → s.derived = s.calls.map Prod.snd) ∧
    s.successful = s.calls.map (fun c => c.1 + c.2) := by
  have hrow := C13_polarised_table.2.2 s
  have hsel : s.derivedSel = (polSpec (s.out, s.a1, s.a2)).2 := by unfold Snp.derivedSel; rw [hrow]
  have hpol : s.polarized = (polSpec (s.out, s.a1, s.a2)).1 := by unfold Snp.polarized; rw [hrow]
  refine ⟨?_, ?_, ?_, ?_⟩
  · intro hp ho
    rw [hpol] at hp
    have : s.derivedSel = some 2 := by
      rw [hsel]; rw [ho] at hp ⊢
      simp only [polSpec] at hp ⊢
      split_ifs at hp ⊢ <;> simp_all
    simp [Snp.derived, this, Snp.pick]
  · intro hp ho hne
    rw [hpol] at hp
    have : s.derivedSel = some 1 := by
      rw [hsel]; rw [ho] at hp ⊢
      simp only [polSpec] at hp ⊢
      split_ifs at hp ⊢ <;> simp_all
    simp [Snp.derived, this, Snp.pick]
  · intro hp
    rw [hpol] at hp
    have : s.derivedSel = some 2 := by
      rw [hsel]
      cases ho : s.out with
      | none => rfl
      | some o =>
        rw [ho] at hp
        simp only [polSpec] at hp ⊢
        split_ifs at hp ⊢ <;> simp_all
    simp [Snp.derived, this, Snp.pick]
  · simp [Snp.successful, successfulCalls]

/-- **'-' / missing / a third allele ⇒ unpolarised-only**: a SNP without a usable ancestral allele is not polarised, contributes
    nothing to a polarised spectrum (it is not usable there, whatever its calls), and enters the unpolarised (folded) spectrum
    through the calls of its second allele -/
theorem C13_unpolarised_only (proj : List ℕ) (s : Snp)
    (h : s.out = none ∨ s.out = some dash ∨ ∃ o, s.out = some o ∧ o ≠ s.a1 ∧ o ≠ s.a2) :
    s.polarized = false ∧ (∀ idx, contribAt true proj s idx = 0) ∧ usable true proj s = false ∧
    s.derived = s.calls.map Prod.snd ∧
    (∀ idx, contribAt false proj s idx = if s.nseg ≠ biallelicLen then 0 else prodW proj s.successful (s.calls.map Prod.snd) idx) := by
  have hp : s.polarized = false := by
    rw [Bool.eq_false_iff]
    intro hp
    obtain ⟨o, ho, hd, h12⟩ := (C13_polarised_iff s).mp hp
    rcases h with h | h | ⟨o', ho', h1, h2⟩
    · rw [h] at ho; cases ho
    · rw [h] at ho; cases ho; exact hd rfl
    · rw [ho'] at ho; cases ho; rcases h12 with e | e
      · exact h1 e
      · exact h2 e
  have hd := (C13_polarise s).2.2.1 hp
  refine ⟨hp, ?_, ?_, hd, ?_⟩
  · intro idx; simp [contribAt, hp, skipEntry]
  · simp [usable, hp, skipEntry]
  · intro idx; simp [contribAt, hp, skipEntry, hd]

example : (⟨0, 1, 0, 2, 1, 4, some 3, [(3, 5)]⟩ : Snp).out = some 3 ∧ (3 : ℕ) ≠ 1 ∧ (3 : ℕ) ≠ 4 := by decide

/-- which of the two alleles is written first (REF/ALT, Allele1/Allele2) does not matter for a polarised SNP -/
theorem C13_swap_alleles (proj : List ℕ) (s : Snp) (hp : s.polarized = true) (hne : s.a1 ≠ s.a2) (idx : List ℕ) :
    contribAt true proj { s with a1 := s.a2, a2 := s.a1, calls := s.calls.map Prod.swap } idx
      = contribAt true proj s idx := by
  obtain ⟨o, ho, hd, ho12⟩ := (C13_polarised_iff s).mp hp
  set s' : Snp := { s with a1 := s.a2, a2 := s.a1, calls := s.calls.map Prod.swap } with hs'
  have hp' : s'.polarized = true := by
    rw [C13_polarised_iff]
    exact ⟨o, ho, hd, ho12.symm⟩
  have hsucc : s'.successful = s.successful := by
    simp [hs', Snp.successful, successfulCalls, Function.comp_def, Nat.add_comm]
  have hder : s'.derived = s.derived := by
    rcases ho12 with e | e
    · -- outgroup = a1 of s = a2 of s'
      have h1 := (C13_polarise s).1 hp (by rw [ho, e])
      have h2 := (C13_polarise s').2.1 hp' (by simp [hs', ho, e]) (by simp [hs']; exact fun h => hne h.symm)
      rw [h1, h2]; simp [hs', Function.comp_def]
    · have h1 := (C13_polarise s).2.1 hp (by rw [ho, e]) hne
      have h2 := (C13_polarise s').1 hp' (by simp [hs', ho, e])
      rw [h1, h2]; simp [hs', Function.comp_def]
  have hn : s'.nseg = s.nseg := rfl
  simp only [contribAt, hp, hp', hsucc, hder, hn]

example : (⟨0, 1, 0, 2, 1, 4, some 4, [(3, 5)]⟩ : Snp).polarized = true ∧ (1 : ℕ) ≠ 4 := by decide

/-- **folded when unpolarised**: for an unpolarised SNP (no usable outgroup allele) the folded contribution does not
    depend on which of the two alleles is written first — counting the other allele mirrors the projection rows
    (`projWeight_mirror`: w(m,n,n−i,m−j) = w(m,n,i,j)) and folding identifies an entry with its mirror image -/
theorem C13_unpolarised_swap (proj : List ℕ) (s : Snp) (hp : s.polarized = false) (hlen : s.calls.length = proj.length)
    (idx : List ℕ) (hidx : InBox idx (shapeOf proj)) :
    snpSpecAt false proj { s with a1 := s.a2, a2 := s.a1, calls := s.calls.map Prod.swap } idx
      = snpSpecAt false proj s idx := by
  set s' : Snp := { s with a1 := s.a2, a2 := s.a1, calls := s.calls.map Prod.swap } with hs'
  have hp' : s'.polarized = false := by
    have : s'.polarized = s.polarized := by
      rw [Bool.eq_iff_iff, C13_polarised_iff, C13_polarised_iff]
      simp only [hs', or_comm]
    rw [this, hp]
  have hsucc : s'.successful = s.successful := by
    simp [hs', Snp.successful, successfulCalls, Function.comp_def, Nat.add_comm]
  have hd := (C13_polarise s).2.2.1 hp
  have hd' := (C13_polarise s').2.2.1 hp'
  have key : ∀ l : List (ℕ × ℕ),
      l.map (fun c => c.1) = complCalls (l.map fun c => c.1 + c.2) (l.map fun c => c.2) := by
    intro l
    induction l with
    | nil => rfl
    | cons c t ih =>
      simp only [List.map_cons, complCalls, ← ih]
      congr 1
      omega
  have hcompl : s'.derived = complCalls s.successful s.derived := by
    rw [hd', hd, (C13_polarise s).2.2.2]
    simp only [hs', List.map_map]
    exact key s.calls
  have hn : s'.nseg = s.nseg := rfl
  -- the swapped SNP's raw contribution is the mirror image of the original one
  have hraw : ∀ i, InBox i (shapeOf proj) → contribAt false proj s' (mirror proj i) = contribAt false proj s i := by
    intro i hi
    simp only [contribAt, hn, hp, hp', hsucc, hcompl]
    split_ifs
    · rfl
    · rfl
    · exact prodW_mirror proj s.successful s.derived i (by rw [successful_length, hlen])
        (by rw [derived_length, hlen]) (derived_le_successful s) hi
  have hm := mirror_inBox hidx
  have e1 : contribAt false proj s' idx = contribAt false proj s (mirror proj idx) := by
    have := hraw (mirror proj idx) hm
    rwa [mirror_mirror hidx] at this
  have e2 : contribAt false proj s' (mirror proj idx) = contribAt false proj s idx := hraw idx hidx
  simp only [snpSpecAt, Bool.false_eq_true, if_false, foldAt, e1, e2]
  split_ifs <;> ring

example : (⟨0, 1, 0, 2, 1, 4, some 3, [(3, 5)]⟩ : Snp).polarized = false ∧ InBox [2] (shapeOf [4]) := by
  refine ⟨by decide, ?_⟩
  simp [InBox, shapeOf]

/-- with pairwise distinct keys (`CHROM_POS[.info]`) the dictionary is the list of kept lines; a repeated key replaces the
    earlier entry (`ddInsert`) -/
theorem C13_dict_distinct (snps : List Snp) (hk : keysDistinct snps) : mkDict snps = snps :=
  mkDict_distinct snps hk

example : keysDistinct [(⟨0, 7, 0, 2, 1, 4, some 4, [(3, 5)]⟩ : Snp), ⟨0, 7, 1, 2, 1, 4, some 4, [(3, 5)]⟩, ⟨1, 7, 0, 2, 1, 4, none, [(1, 1)]⟩] := by
  simp [keysDistinct, sameKey]

/-- **last write wins**: as a multiset, the dictionary built by writing the entries one after the other (`mkDict`, what Python's
    `data_dict[key] = entry` does, repeated keys included) holds exactly the entries that are not overwritten by a later entry with
    the same key `CHROM_POS[.info]` -/
theorem C13_dict_last_wins (snps : List Snp) : (mkDict snps).Perm (lastEntries snps) := mkDict_perm snps

/-- **first-insertion position kept**: the dictionary lists the keys in the order of their first appearance, each with the last
    entry written under it (the order matters for `fragment_data_dict`: chromosomes in first-appearance order) -/
theorem C13_dict_order (snps : List Snp) : mkDict snps = (firstBy keyT snps).map (lastOf keyT snps) := by
  rw [mkDict_eq_dictOf]; exact dictOf_eq keyT snps

example : mkDict [(⟨0, 7, 0, 2, 1, 4, some 4, [(3, 5)]⟩ : Snp), ⟨1, 7, 0, 2, 1, 4, none, [(1, 1)]⟩, ⟨0, 7, 0, 2, 1, 4, some 1, [(0, 8)]⟩]
      = [⟨0, 7, 0, 2, 1, 4, some 1, [(0, 8)]⟩, ⟨1, 7, 0, 2, 1, 4, none, [(1, 1)]⟩] ∧
    lastEntries [(⟨0, 7, 0, 2, 1, 4, some 4, [(3, 5)]⟩ : Snp), ⟨1, 7, 0, 2, 1, 4, none, [(1, 1)]⟩, ⟨0, 7, 0, 2, 1, 4, some 1, [(0, 8)]⟩]
      = [⟨1, 7, 0, 2, 1, 4, none, [(1, 1)]⟩, ⟨0, 7, 0, 2, 1, 4, some 1, [(0, 8)]⟩] := by decide

/-- the spectrum of a dictionary with repeated keys is the sum over the LAST entry of each key … -/
theorem C13_dict_spectrum (pol : Bool) (proj : List ℕ) (snps : List Snp) (idx : List ℕ) :
    spectrumAt pol proj (mkDict snps) idx = sumMap (lastEntries snps) (fun s => snpSpecAt pol proj s idx) := by
  rw [C13_perm pol proj _ _ (C13_dict_last_wins snps) idx, C13_sum_of_snps]

/-- … so its total is the number of keys whose last entry is usable (no distinct-keys hypothesis) -/
theorem C13_dict_total (pol : Bool) (proj : List ℕ) (snps : List Snp) (hlen : ∀ s ∈ snps, s.calls.length = proj.length) :
    boxSum (shapeOf proj) (spectrumAt pol proj (mkDict snps)) = (countUsable pol proj (lastEntries snps) : ℚ) := by
  have : spectrumAt pol proj (mkDict snps) = spectrumAt pol proj (lastEntries snps) :=
    funext fun idx => C13_perm pol proj _ _ (C13_dict_last_wins snps) idx
  rw [this]
  exact C13_total pol proj _ fun s hs => hlen s (mem_lastBy keyT hs)

example : countUsable true [4] (lastEntries [(⟨0, 7, 0, 2, 1, 4, some 4, [(3, 5)]⟩ : Snp), ⟨0, 7, 0, 2, 1, 4, some 3, [(3, 5)]⟩]) = 0 ∧
    countUsable true [4] [(⟨0, 7, 0, 2, 1, 4, some 4, [(3, 5)]⟩ : Snp), ⟨0, 7, 0, 2, 1, 4, some 3, [(3, 5)]⟩] = 1 := by decide

/-! ## VCF lines -/

/-- a kept VCF line is polarised exactly when it carries an AA value that is a single base equal to REF or ALT -/
theorem C13_vcf_polarised (st : Site) (calls : List (ℕ × ℕ)) :
    (siteSnp st calls).polarized = true ↔ ∃ c, st.aa = some c ∧ isBase c = true ∧ (c = st.ref ∨ c = st.alt) := by
  rw [C13_polarised_iff]
  simp only [siteSnp, Option.some.injEq]
  constructor
  · rintro ⟨o, ho, hd, h12⟩
    cases haa : st.aa with
    | none => simp [vcfOutgroup, haa] at ho; exact absurd ho.symm hd
    | some c =>
      by_cases hb : isBase c = true
      · have : o = c := by simp [vcfOutgroup, haa, hb] at ho; exact ho.symm
        subst this; exact ⟨o, rfl, hb, h12⟩
      · simp [vcfOutgroup, haa, hb] at ho; exact absurd ho.symm hd
  · rintro ⟨c, haa, hb, h12⟩
    refine ⟨c, by simp [vcfOutgroup, haa, hb], ?_, h12⟩
    intro e; subst e; simp [isBase, dash] at hb

/-- which VCF lines count: not filtered out, REF and ALT single bases, ancestral allele usable if polarisation is
    requested, enough called chromosomes in every population -/
theorem C13_vcf_usable (filt pol : Bool) (proj : List ℕ) (st : Site) (calls : List (ℕ × ℕ)) :
    (siteKept filt st && usable pol proj (siteSnp st calls)) = true ↔
      (filt = true → st.pass = true) ∧ isBase st.ref = true ∧ isBase st.alt = true ∧
      (pol = true → ∃ c, st.aa = some c ∧ isBase c = true ∧ (c = st.ref ∨ c = st.alt)) ∧
      enoughCalls proj (calls.map fun c => c.1 + c.2) = true := by
  have hs : (siteSnp st calls).successful = calls.map fun c => c.1 + c.2 := by
    simp [siteSnp, Snp.successful, successfulCalls]
  have hn : (siteSnp st calls).nseg = biallelicLen := rfl
  rw [← C13_vcf_polarised st calls]
  simp only [siteKept, usable, hs, hn, skipEntry, Bool.and_eq_true, Bool.not_eq_true', beq_self_eq_true, true_and,
    Bool.and_eq_false_iff, Bool.not_eq_false']
  cases filt <;> cases pol <;> cases st.pass <;> cases (siteSnp st calls).polarized <;> simp [and_assoc]

/-- the key `CHROM_POS` of a VCF line (no additional info) -/
def siteKey (st : Site) : ℕ × ℕ × ℕ := (st.chrom, st.pos, 0)

/-- **the VCF path end to end (after parsing), repeated CHROM_POS included**: with every requested population present, the total of
    the spectrum built from the lines is the number of lines that are kept (filter, single-base REF/ALT), are the LAST kept line
    with their CHROM_POS (a later line replaces an earlier one in the dictionary) and are usable (ancestral allele if polarised,
    enough calls) — `C13_vcf_usable` spells the last condition out -/
theorem C13_vcf_total (filt pol : Bool) (popIds proj : List ℕ) (sites : List Site) (dd : List Snp)
    (h : ddVcf filt popIds sites = some dd) (hlen : popIds.length = proj.length) :
    boxSum (shapeOf proj) (spectrumAt pol proj dd)
      = (((lastBy siteKey (sites.filter (siteKept filt))).filter fun st =>
            usable pol proj (siteSnp st (siteCalls st popIds))).length : ℚ) := by
  unfold ddVcf at h
  cases he : vcfEntries filt popIds sites with
  | none => simp [he] at h
  | some es =>
    simp only [he, Option.map_some, Option.some.injEq] at h
    subst h
    have hes := vcfEntries_eq filt popIds sites es he
    have hl : ∀ s ∈ es, s.calls.length = proj.length := by
      intro s hs
      rw [hes] at hs
      obtain ⟨st, _, rfl⟩ := List.mem_map.mp hs
      simp [siteSnp, siteCalls, hlen]
    rw [C13_dict_total pol proj es hl, countUsable, lastEntries, hes, lastBy_map]
    have hk : (fun st : Site => keyT (siteSnp st (siteCalls st popIds))) = siteKey := rfl
    rw [hk, List.filter_map, List.length_map]
    rfl

/-- … in particular, with pairwise distinct CHROM_POS keys, the number of kept and usable lines -/
theorem C13_vcf_total_distinct (filt pol : Bool) (popIds proj : List ℕ) (sites : List Site) (dd : List Snp)
    (h : ddVcf filt popIds sites = some dd) (hlen : popIds.length = proj.length)
    (hk : ((sites.filter (siteKept filt)).map siteKey).Nodup) :
    boxSum (shapeOf proj) (spectrumAt pol proj dd)
      = ((sites.filter fun st => siteKept filt st && usable pol proj (siteSnp st (siteCalls st popIds))).length : ℚ) := by
  rw [C13_vcf_total filt pol popIds proj sites dd h hlen, lastBy_of_nodup siteKey _ hk, List.filter_filter]
  congr 2
  apply List.filter_congr
  intro st _
  exact Bool.and_comm _ _

example : ddVcf true [0]
    [⟨0, 10, true, 1, 4, some 1, [⟨some 0, [0, 1], false⟩, ⟨some 0, [1, 1], false⟩, ⟨none, [0, 0], false⟩]⟩,
     ⟨0, 12, false, 1, 4, some 1, [⟨some 0, [0, 1], false⟩]⟩,
     ⟨0, 15, true, 1, 7, some 1, [⟨some 0, [0, 1], false⟩]⟩]
    = some [(⟨0, 10, 0, 2, 1, 4, some 1, [(1, 3)]⟩ : Snp)] := by decide

/-- a repeated CHROM_POS: the second line replaces the first (and is the one that counts) -/
example : ddVcf true [0]
    [⟨0, 10, true, 1, 4, some 1, [⟨some 0, [0, 1], false⟩, ⟨some 0, [1, 1], false⟩]⟩,
     ⟨0, 10, true, 2, 3, some 4, [⟨some 0, [0, 0], false⟩, ⟨some 0, [9, 9], false⟩]⟩]
    = some [(⟨0, 10, 0, 2, 2, 3, some 4, [(2, 0)]⟩ : Snp)] := by decide

/-! ## the mask of the result -/

/-- `maskAt` is the composition the code performs: the constructor's corner masking of `fs_total` (`ctorMask`), then — unpolarised —
    `Spectrum.fold`'s mask (`foldMask`: mask | reversed mask | folded-out half, handed to the constructor again); and `fold`'s
    mask for ANY input mask `m` in closed form -/
theorem C13_fold_mask (mc : Bool) (proj : List ℕ) (m : List ℕ → Bool) (idx : List ℕ) :
    maskAt true mc proj idx = ctorMask mc proj (fun _ => false) idx ∧
    maskAt false mc proj idx = foldMask proj (ctorMask mc proj fun _ => false) idx ∧
    foldMask proj m idx
      = (m idx || m (mirror proj idx) || decide (natSum proj / 2 < natSum idx) || (foldRemasksCorners && isCorner proj idx)) :=
  ⟨rfl, rfl, rfl⟩

/-- **which entries of `from_data_dict(…, mask_corners, polarized)` are masked**, any number of populations, any projections:
    polarised output — the two corner entries iff `mask_corners`, nothing else; unpolarised (folded) output — the folded-out half
    (more than ⌊T/2⌋ copies of the counted allele, T = Σ projections) and the two corner entries iff `mask_corners` or `fold`
    builds its result with corner masking on (generated `foldRemasksCorners`) -/
theorem C13_mask (mc : Bool) (proj idx : List ℕ) (h : InBox idx (shapeOf proj)) :
    (maskAt true mc proj idx = true ↔ mc = true ∧ ((∀ i ∈ idx, i = 0) ∨ idx = proj)) ∧
    (maskAt false mc proj idx = true ↔
      natSum proj / 2 < natSum idx ∨ ((mc = true ∨ foldRemasksCorners = true) ∧ ((∀ i ∈ idx, i = 0) ∨ idx = proj))) := by
  constructor
  · rw [maskAt_polarised, Bool.and_eq_true, isCorner_iff]
  · rw [maskAt_folded mc proj idx h]
    simp only [Bool.or_eq_true, Bool.and_eq_true, decide_eq_true_eq, isCorner_iff]

/-- with the source as it is (`Spectrum.fold` builds its result with the constructor default `mask_corners=True`) a folded spectrum
    from `from_data_dict` has the folded-out half and the "observed in none" entry masked whatever `mask_corners` says (the
    "observed in all" entry lies in the folded-out half) -/
theorem C13_mask_folded (mc : Bool) (proj idx : List ℕ) (h : InBox idx (shapeOf proj)) :
    maskAt false mc proj idx = true ↔ natSum proj / 2 < natSum idx ∨ ∀ i ∈ idx, i = 0 := by
  have hf : foldRemasksCorners = true := rfl
  rw [(C13_mask mc proj idx h).2, hf]
  constructor
  · rintro (a | ⟨_, a | a⟩)
    · exact Or.inl a
    · exact Or.inr a
    · subst a
      by_cases hT : natSum idx = 0
      · right
        have : ∀ l : List ℕ, natSum l = 0 → ∀ i ∈ l, i = 0 := by
          intro l
          induction l with
          | nil => simp
          | cons a t ih =>
            intro hl i hi
            simp only [natSum] at hl
            rcases List.mem_cons.mp hi with e | e
            · omega
            · exact ih (by omega) i e
        exact this idx hT
      · left; omega
  · rintro (a | a)
    · exact Or.inl a
    · exact Or.inr ⟨Or.inr rfl, Or.inl a⟩

example : InBox [0, 0] (shapeOf [2, 3]) ∧ maskAt false false [2, 3] [0, 0] = true ∧ maskAt false false [2, 3] [1, 1] = false ∧
    maskAt false false [2, 3] [2, 1] = true ∧ maskAt true false [2, 3] [0, 0] = false ∧ maskAt true true [2, 3] [2, 3] = true := by
  refine ⟨by simp [InBox, shapeOf], by decide, by decide, by decide, by decide, by decide⟩

/-- **the mask hides nothing but the corners**: a masked entry that is not one of the two corners holds no SNP -/
theorem C13_mask_hides_nothing (pol mc : Bool) (proj : List ℕ) (snps : List Snp) (idx : List ℕ) (h : InBox idx (shapeOf proj))
    (hm : maskAt pol mc proj idx = true) (hc : isCorner proj idx = false) : spectrumAt pol proj snps idx = 0 := by
  cases pol with
  | true => rw [maskAt_polarised, hc] at hm; simp at hm
  | false =>
    rw [maskAt_folded mc proj idx h, hc] at hm
    have hfo : natSum proj / 2 < natSum idx := by simpa using hm
    have hf : foldIffUnpolarized = true := rfl
    simp only [spectrumAt, specAt, Bool.false_eq_true, if_false, hf, if_true]
    exact foldAt_folded_out proj _ idx hfo

/-- **the total the user sees** (`fs.sum()`, masked entries left out) is the number of usable SNPs minus what sits in the masked
    corner entries — the corners are masked iff `mask_corners`, or the output is folded and `fold` re-masks them -/
theorem C13_visible_total (pol mc : Bool) (proj : List ℕ) (snps : List Snp) (hlen : ∀ s ∈ snps, s.calls.length = proj.length) :
    boxSum (shapeOf proj) (fun idx => if maskAt pol mc proj idx then 0 else spectrumAt pol proj snps idx)
      = (countUsable pol proj snps : ℚ)
        - boxSum (shapeOf proj) (fun idx =>
            if (mc || (!pol && foldRemasksCorners)) && isCorner proj idx then spectrumAt pol proj snps idx else 0) := by
  have h1 : (fun idx => if maskAt pol mc proj idx then (0 : ℚ) else spectrumAt pol proj snps idx)
      = fun idx => spectrumAt pol proj snps idx - (if maskAt pol mc proj idx then spectrumAt pol proj snps idx else 0) := by
    funext idx; split_ifs <;> ring
  rw [h1, boxSum_sub, C13_total pol proj snps hlen]
  congr 1
  apply boxSum_congr
  intro idx hidx
  cases pol with
  | true => simp [maskAt_polarised]
  | false =>
    rw [maskAt_folded mc proj idx hidx]
    by_cases hfo : natSum proj / 2 < natSum idx
    · have h0 : spectrumAt false proj snps idx = 0 := by
        have hf : foldIffUnpolarized = true := rfl
        simp only [spectrumAt, specAt, Bool.false_eq_true, if_false, hf, if_true]
        exact foldAt_folded_out proj _ idx hfo
      simp [h0]
    · simp [hfo]

/-! ## chunks and bootstraps -/

/-- **splitting the genome into chunks partitions the SNPs**: for any additive quantity the chunk values add up to
    the value of the whole dictionary (every SNP is in exactly one chunk), for every chunk size -/
theorem C13_chunks_partition (size : ℕ) (snps : List Snp) (f : Snp → ℚ) :
    sumMap (fragment size snps) (fun c => sumMap c f) = sumMap snps f :=
  sumMap_fragment size snps f

/-- chunk spectra add up to the spectrum of the whole data set -/
theorem C13_chunks (size : ℕ) (pol : Bool) (proj : List ℕ) (snps : List Snp) (idx : List ℕ) :
    sumMap (fragment size snps) (fun c => spectrumAt pol proj c idx) = spectrumAt pol proj snps idx := by
  simp only [C13_sum_of_snps]
  exact sumMap_fragment size snps _

/-- the chunk loop `while p > end` puts position `p` into chunk `k` with `k·size < p ≤ (k+1)·size` -/
theorem C13_chunk_geometry (size p : ℕ) (hs : 0 < size) :
    p ≤ (chunkIdx size p + 1) * size ∧ (chunkIdx size p = 0 ∨ chunkIdx size p * size < p) :=
  chunkIdx_spec size p hs

example : chunkIdx 10 20 = 1 ∧ chunkIdx 10 21 = 2 ∧ chunkIdx 10 1 = 0 := by decide

/-- a bootstrap replicate (chunks drawn with replacement, `choice` arbitrary) is the spectrum of the resampled data set -/
theorem C13_boot (pol : Bool) (proj : List ℕ) (chunks : List (List Snp)) (choice : List ℕ) (idx : List ℕ) :
    bootAt pol proj chunks choice idx = spectrumAt pol proj (choice.flatMap fun c => chunks.getD c []) idx := by
  have hget : ∀ c, (chunks.map countDict).getD c [] = countDict (chunks.getD c []) := by
    intro c
    by_cases h : c < chunks.length
    · simp [List.getD, List.getElem?_eq_getElem h]
    · simp [List.getD, List.getElem?_eq_none (Nat.le_of_not_lt h), countDict]
  unfold bootAt bootAtCd
  induction choice with
  | nil => simp [C13_sum_of_snps]
  | cons c t ih =>
    rw [sumMap_cons, ih, List.flatMap_cons, C13_additive, hget c]
    rfl

/-- … so its total is the number of usable SNPs in the chosen chunks, with multiplicity -/
theorem C13_boot_total (pol : Bool) (proj : List ℕ) (chunks : List (List Snp)) (choice : List ℕ)
    (hlen : ∀ c ∈ chunks, ∀ s ∈ c, s.calls.length = proj.length) :
    boxSum (shapeOf proj) (bootAt pol proj chunks choice)
      = sumMap choice (fun c => (countUsable pol proj (chunks.getD c []) : ℚ)) := by
  have h1 : bootAt pol proj chunks choice
      = fun idx => sumMap choice (fun c => spectrumAt pol proj (chunks.getD c []) idx) := by
    funext idx
    rw [C13_boot]
    induction choice with
    | nil => simp [C13_sum_of_snps]
    | cons c t ih => rw [List.flatMap_cons, C13_additive, ih, sumMap_cons]
  rw [h1, boxSum_sumMap]
  apply sumMap_congr
  intro c _
  apply C13_total
  intro s hs
  by_cases h : c < chunks.length
  · have e : chunks.getD c [] = chunks[c] := by simp [List.getD, List.getElem?_eq_getElem h]
    rw [e] at hs
    exact hlen _ (List.getElem_mem h) s hs
  · have e : chunks.getD c [] = [] := by simp [List.getD, List.getElem?_eq_none (Nat.le_of_not_lt h)]
    rw [e] at hs; cases hs

/-! ## sub-sampling -/

/-- sub-sampling `k` individuals of ploidy `p` with complete biallelic genotypes uses exactly `p·k` chromosomes -/
theorem C13_subsample (gts : List Indiv) (ploidy : ℕ)
    (hg : ∀ x ∈ gts, x.alleles.length = ploidy ∧ ∀ a ∈ x.alleles, a = 0 ∨ a = 1)
    (idx : List ℕ) (hidx : ∀ ii ∈ idx, ii < gts.length) :
    (chosenCalls gts idx).1 + (chosenCalls gts idx).2 = ploidy * idx.length := by
  have := chosenCalls_total gts ploidy hg idx hidx (0, 0)
  simpa [chosenCalls] using this

example : chosenCalls [⟨some 0, [0, 1], false⟩, ⟨some 0, [1, 1], false⟩, ⟨some 0, [0, 0], false⟩] [2, 0] = (3, 1) := by decide

/-- the per-line loop of the sub-sampling branch: a line is kept only if every requested population has at least the
    requested number of complete genotypes; then exactly one draw per population is consumed, in order, and the calls of a
    population are those of its drawn individuals -/
theorem C13_subsample_loop (inds : List Indiv) (want : List (ℕ × ℕ)) (pops : List ℕ) (draws : List (List ℕ))
    (acc res : List (ℕ × (ℕ × ℕ))) (left : List (List ℕ))
    (h : subsampleLoop inds want pops draws acc = (some res, left)) :
    ∃ used, draws = used ++ left ∧ used.length = pops.length ∧
      res = acc ++ List.zipWith (fun p d => (p, chosenCalls (completeOfPop inds p) d)) pops used ∧
      ∀ p ∈ pops, wanted want p ≤ (completeOfPop inds p).length :=
  subsampleLoop_spec inds want pops draws acc res left h

/-- … and a line for which some requested population has too few complete genotypes is dropped -/
theorem C13_subsample_drop (inds : List Indiv) (want : List (ℕ × ℕ)) (pops : List ℕ) (draws : List (List ℕ))
    (acc : List (ℕ × (ℕ × ℕ))) (p : ℕ) (hp : p ∈ pops) (hlt : (completeOfPop inds p).length < wanted want p) :
    (subsampleLoop inds want pops draws acc).1 = none := by
  induction pops generalizing draws acc with
  | nil => cases hp
  | cons q qs ih =>
    simp only [subsampleLoop]
    split_ifs with h
    · rfl
    · cases draws with
      | nil => rfl
      | cons d ds =>
        simp only
        rcases List.mem_cons.mp hp with e | e
        · subst e; exact absurd hlt h
        · exact ih ds _ e

example : subsampleLoop [⟨some 0, [0, 1], false⟩, ⟨some 1, [1, 1], false⟩, ⟨some 0, [9, 9], false⟩, ⟨some 0, [0, 0], false⟩]
    [(0, 2), (1, 1)] [0, 1] [[1, 0], [0], [5]] [] = (some [(0, (3, 1)), (1, (0, 2))], [[5]]) := by decide
example : (subsampleLoop [⟨some 0, [0, 1], false⟩, ⟨some 0, [9, 9], false⟩] [(0, 2)] [0] [[1, 0]] []).1 = none := by decide

/-- **the sub-sampled pass over all lines** (`make_data_dict_vcf(subsample=…)`, recorded draws threaded through the lines, repeated
    CHROM_POS included) is: line by line in order — a line that is not a SNP line is skipped and consumes no draw; a SNP line runs the
    per-line loop `subsampleLoop` (`C13_subsample_loop/_drop`) on the draws that are left and is dropped if the loop breaks, kept with
    the calls of the drawn individuals (read in `pop_ids` order) if it completes — and the kept entries are written to the dictionary
    in that order (`mkDict`: last write wins, first position kept, `C13_dict_last_wins/_order`) -/
theorem C13_sub_pass (filt : Bool) (want : List (ℕ × ℕ)) (popIds : List ℕ) (sites : List Site) (draws : List (List ℕ))
    (dd : List Snp) (left : List (List ℕ)) :
    ddSub filt want popIds sites draws [] = some (dd, left) ↔
      ∃ es, SubPass filt want popIds (fun _ _ => True) sites draws es left ∧ dd = mkDict es := by
  constructor
  · intro h
    obtain ⟨es, hp, he⟩ := subPass_of_ddSub filt want popIds sites draws [] dd left h
    exact ⟨es, hp, by simpa using he⟩
  · rintro ⟨es, hp, rfl⟩
    simpa using ddSub_of_subPass hp []

/-- the draws are consumed in order, every line taking a prefix of what is left (at most one draw per sub-sampled population) -/
theorem C13_sub_pass_draws (filt : Bool) (want : List (ℕ × ℕ)) (popIds : List ℕ) (P : Site → List (List ℕ) → Prop)
    (sites : List Site) (draws left : List (List ℕ)) (es : List Snp)
    (h : SubPass filt want popIds P sites draws es left) : ∃ used, draws = used ++ left := h.suffix

/-- every entry of the sub-sampled dictionary was written for a SNP line on which every sub-sampled population has at least the
    requested number of complete genotypes (sub-sampling uses exactly the requested number of individuals: `C13_bsv_calls`) -/
theorem C13_sub_pass_kept (filt : Bool) (want : List (ℕ × ℕ)) (popIds : List ℕ) (P : Site → List (List ℕ) → Prop)
    (sites : List Site) (draws left : List (List ℕ)) (es : List Snp)
    (h : SubPass filt want popIds P sites draws es left) :
    ∀ s ∈ es, ∃ st ∈ sites, siteKept filt st = true ∧
      (∀ p ∈ popOrder st.inds want, wanted want p ≤ (completeOfPop st.inds p).length) ∧ ∃ cl, s = siteSnp st cl := h.kept

/-- two lines with the same CHROM_POS, one sub-sampled population: the first line (two complete genotypes, one asked for) uses the
    first draw, the second one the second draw and replaces the first entry; a third draw is left over -/
example : ddSub true [(0, 1)] [0]
    [⟨0, 10, true, 1, 4, some 1, [⟨some 0, [0, 1], false⟩, ⟨some 0, [1, 1], false⟩]⟩,
     ⟨0, 12, true, 1, 4, some 1, [⟨some 0, [9, 9], false⟩]⟩,
     ⟨0, 10, true, 2, 3, some 3, [⟨some 0, [0, 0], false⟩, ⟨some 0, [0, 1], false⟩]⟩] [[1], [0], [7]] []
    = some ([(⟨0, 10, 0, 2, 2, 3, some 3, [(2, 0)]⟩ : Snp)], [[7]]) := by decide

/-! ## statistics from the spectrum = statistics counted on the genotype matrix
    (fully called data, nothing projected: `cols` = one Boolean column per SNP, `true` = derived) -/

/-- the spectrum entry `i` is the number of columns with `i` derived alleles -/
theorem C13_direct_count (ns : List ℕ) (mcols : List (List (List Bool)))
    (hlen : ∀ cols ∈ mcols, cols.map List.length = ns) (idx : List ℕ) (hidx : InBox idx (shapeOf ns)) :
    spectrumAt true ns (mcols.map snpOfCols) idx
      = ((mcols.filter fun cols => cols.map countTrue == idx).length : ℚ) := by
  rw [spectrumAt_full ns mcols hlen idx hidx, length_filter_eq_sumMap]
  apply sumMap_congr
  intro cols _
  by_cases h : idx = cols.map countTrue
  · simp [h]
  · have : ¬ (cols.map countTrue = idx) := fun e => h e.symm
    simp [h, this]

/-- the one-population spectrum of the columns `cols` -/
def specOfCols (n : ℕ) (cols : List (List Bool)) : ℕ → ℚ :=
  fun i => spectrumAt true [n] (cols.map fun c => snpOfCols [c]) [i]

/-- S = number of segregating columns -/
theorem C13_S (n : ℕ) (cols : List (List Bool)) (hlen : ∀ c ∈ cols, c.length = n) :
    sOf n (specOfCols n cols) = sDirect cols := by
  have h := sumRange_full_mul n cols hlen (fun i => if i = 0 ∨ i = n then 0 else 1)
  unfold sOf sDirect specOfCols
  rw [length_filter_eq_sumMap]
  have e : ∀ i, (if i = 0 ∨ i = n then (0 : ℚ) else spectrumAt true [n] (cols.map fun c => snpOfCols [c]) [i])
      = (if i = 0 ∨ i = n then 0 else 1) * spectrumAt true [n] (cols.map fun c => snpOfCols [c]) [i] := by
    intro i; split_ifs <;> simp
  simp only [e, h]
  apply sumMap_congr
  intro c hc
  have hl := hlen c hc
  have := isSeg_iff c
  by_cases hs : isSeg c = true
  · have := this.mp hs
    have a : ¬ (countTrue c = 0 ∨ countTrue c = n) := by omega
    simp [hs, a]
  · have hs' : ¬ (0 < countTrue c ∧ countTrue c < c.length) := fun x => hs (this.mpr x)
    have hle := countTrue_le c
    have a : countTrue c = 0 ∨ countTrue c = n := by omega
    simp [hs, a]

/-- π̂ (with the n/(n−1) factor) = mean number of pairwise differences = Σ_columns discordant pairs / C(n,2) -/
theorem C13_pi (n : ℕ) (hn : 2 ≤ n) (cols : List (List Bool)) (hlen : ∀ c ∈ cols, c.length = n) :
    piOf n (specOfCols n cols) = piDirect n cols := by
  have h := sumRange_full_mul n cols hlen (fun i => piFreq (i : ℚ) (n : ℚ) * (1 - piFreq (i : ℚ) (n : ℚ)))
  unfold piOf piDirect specOfCols piOuter
  have e : ∀ i : ℕ, piTerm (spectrumAt true [n] (cols.map fun c => snpOfCols [c]) [i]) (piFreq (i : ℚ) (n : ℚ))
      = piFreq (i : ℚ) (n : ℚ) * (1 - piFreq (i : ℚ) (n : ℚ)) * spectrumAt true [n] (cols.map fun c => snpOfCols [c]) [i] := by
    intro i; unfold piTerm; ring
  simp only [e, h]
  rw [← sumMap_div, ← sumMap_mul_left]
  apply sumMap_congr
  intro c hc
  have hl := hlen c hc
  have hsum := countTrue_add_countFalse c
  rw [discordant_eq, choose_eq, Nat.cast_choose_two]
  have hF : (countFalse c : ℚ) = (n : ℚ) - (countTrue c : ℚ) := by
    have : countFalse c = n - countTrue c := by omega
    rw [this, Nat.cast_sub (by omega)]
  have hn0 : (n : ℚ) ≠ 0 := by positivity
  have hn1 : (n : ℚ) - 1 ≠ 0 := by
    have : (2 : ℚ) ≤ n := by exact_mod_cast hn
    linarith
  unfold piFreq
  push_cast
  rw [hF]
  field_simp

/-- **π̂ survives projection**: for completely called data projected from `n` down to any `m ≥ 2` chromosomes, π̂ of the
    projected spectrum is still the mean number of pairwise differences counted on the full genotype matrix
    (Σ_j w(m,n,i,j)·j(m−j) = m(m−1)·i(n−i)/(n(n−1)), two applications of Vandermonde) -/
theorem C13_pi_projection (m n : ℕ) (hm : 2 ≤ m) (hmn : m ≤ n) (cols : List (List Bool)) (hlen : ∀ c ∈ cols, c.length = n) :
    piOf m (fun j => spectrumAt true [m] (cols.map fun c => snpOfCols [c]) [j]) = piDirect n cols := by
  have hn : 2 ≤ n := le_trans hm hmn
  have hspec : ∀ j, spectrumAt true [m] (cols.map fun c => snpOfCols [c]) [j]
      = sumMap cols (fun c => projWeight m n (countTrue c) j) := by
    intro j
    simp only [spectrumAt, specAt, if_true, rawAt_countDict, sumMap_map]
    apply sumMap_congr
    intro c hc
    have h1 : (snpOfCols [c]).nseg = biallelicLen := rfl
    simp only [contribAt, h1, ne_eq, not_true_eq_false, if_false, snpOfCols_polarized, skipEntry,
      Bool.not_true, Bool.and_false, Bool.false_eq_true, snpOfCols_derived, snpOfCols_successful,
      List.map_cons, List.map_nil, prodW, weightArgs, hlen c hc, mul_one]
  unfold piOf piDirect piOuter
  simp only [hspec]
  have hm0 : (m : ℚ) ≠ 0 := by positivity
  have hm1 : (m : ℚ) - 1 ≠ 0 := by
    have : (2 : ℚ) ≤ m := by exact_mod_cast hm
    linarith
  have hn0 : (n : ℚ) ≠ 0 := by positivity
  have hn1 : (n : ℚ) - 1 ≠ 0 := by
    have : (2 : ℚ) ≤ n := by exact_mod_cast hn
    linarith
  -- exchange the sums and use the pair identity column by column
  have e : ∀ j : ℕ, piTerm (sumMap cols fun c => projWeight m n (countTrue c) j) (piFreq (j : ℚ) (m : ℚ))
      = sumMap cols (fun c => projWeight m n (countTrue c) j * ((j : ℚ) * ((m : ℚ) - j)) / ((m : ℚ) * m)) := by
    intro j
    unfold piTerm piFreq
    rw [← sumMap_mul_right, ← sumMap_mul_right]
    apply sumMap_congr
    intro c _
    field_simp
  simp only [e]
  rw [sumRange_sumMap, ← sumMap_div, ← sumMap_mul_left]
  apply sumMap_congr
  intro c hc
  have hl := hlen c hc
  have hsum := countTrue_add_countFalse c
  have hle := countTrue_le c
  rw [sumRange_div, projWeight_pairs m n (countTrue c) hm hmn (by omega)]
  rw [discordant_eq, choose_eq, Nat.cast_choose_two]
  have hF : (countFalse c : ℚ) = (n : ℚ) - (countTrue c : ℚ) := by
    have : countFalse c = n - countTrue c := by omega
    rw [this, Nat.cast_sub (by omega)]
  push_cast
  rw [hF]
  field_simp

example : (2 : ℕ) ≤ 3 ∧ 3 ≤ 4 ∧ ∀ c ∈ [[true, false, false, true], [false, false, false, true]], c.length = 4 := by decide

/-- Watterson's θ = (number of segregating columns) / a_n -/
theorem C13_watterson (n : ℕ) (cols : List (List Bool)) (hlen : ∀ c ∈ cols, c.length = n) :
    wattersonOf n (specOfCols n cols) = wattersonDirect n cols := by
  unfold wattersonOf wattersonDirect
  rw [C13_S n cols hlen]

/-- θ_L = Σ over segregating columns of the derived count / (n−1) -/
theorem C13_thetaL (n : ℕ) (cols : List (List Bool)) (hlen : ∀ c ∈ cols, c.length = n) :
    thetaLOf n (specOfCols n cols) = thetaLDirect n cols := by
  have h := sumRange_full_mul n cols hlen (fun i => if 0 < i ∧ i < n then (i : ℚ) else 0)
  unfold thetaLOf thetaLDirect
  congr 1
  have e2 : sumMap cols (fun c => if isSeg c = true then (countTrue c : ℚ) else 0)
      = sumMap cols (fun c => if 0 < countTrue c ∧ countTrue c < n then (countTrue c : ℚ) else 0) := by
    apply sumMap_congr
    intro c hc
    have hl := hlen c hc
    have := isSeg_iff c
    rw [hl] at this
    by_cases hs : isSeg c = true
    · simp [hs, this.mp hs]
    · have : ¬ (0 < countTrue c ∧ countTrue c < n) := fun x => hs (this.mpr x)
      simp [hs, this]
  rw [e2, ← h]
  cases n with
  | zero => simp [sumRange]
  | succ m =>
    set f : ℕ → ℚ := specOfCols (m + 1) cols with hf
    set w : ℕ → ℚ := fun i => if 0 < i ∧ i < m + 1 then (i : ℚ) else 0 with hw
    have hw0 : w 0 = 0 := by simp [hw]
    have hwn : w (m + 1) = 0 := by simp [hw]
    have hwk : ∀ k, k < m → w (k + 1) = ((k + 1 : ℕ) : ℚ) := by
      intro k hk
      have c1 : 0 < k + 1 ∧ k + 1 < m + 1 := by omega
      simp only [hw, c1, and_self, if_true]
    show sumRange (m + 1 - 1) (fun k => ((k + 1 : ℕ) : ℚ) * f (k + 1)) = sumRange (m + 1 + 1) (fun i => w i * f i)
    rw [Nat.add_sub_cancel, sumRange_eq, sumRange_eq, Finset.sum_range_succ, Finset.sum_range_succ', hw0, hwn]
    simp only [zero_mul, add_zero]
    apply Finset.sum_congr rfl
    intro k hk
    rw [hwk k (Finset.mem_range.mp hk)]

/-- Tajima's D from the spectrum = Tajima's D from the counted S and π̂: equal numerators, equal argument of the
    square root (`sqrt` itself is a parameter: `sqrtC` is whatever the float library returns for that argument) -/
theorem C13_tajima (n : ℕ) (hn : 2 ≤ n) (cols : List (List Bool)) (hlen : ∀ c ∈ cols, c.length = n) (sqrtC : ℚ) :
    tajVarOf n (specOfCols n cols) = tajVarDirect n cols ∧
    tajimaOf sqrtC n (specOfCols n cols) = tajimaDirect sqrtC n cols := by
  unfold tajVarOf tajVarDirect tajimaOf tajimaDirect
  rw [C13_S n cols hlen, C13_pi n hn cols hlen, C13_watterson n cols hlen]
  exact ⟨rfl, rfl⟩

example : (∀ c ∈ [[true, false, false, true], [false, false, false, true]], c.length = 4) ∧
    sDirect [[true, false, false, true], [false, false, false, true]] = 2 ∧
    piDirect 4 [[true, false, false, true], [false, false, false, true]] = 7 / 6 := by
  refine ⟨by decide, by decide, ?_⟩
  norm_num [piDirect, sumMap, discordant, choose, fact]

/-- Fst (Weir–Cockerham, ratio of sums) from the spectrum = the same ratio of sums taken SNP by SNP over the matrix -/
theorem C13_fst (ns : List ℕ) (mcols : List (List (List Bool))) (hlen : ∀ cols ∈ mcols, cols.map List.length = ns) :
    fstOf ns (spectrumAt true ns (mcols.map snpOfCols)) = fstDirect ns mcols := by
  unfold fstOf fstDirect fstASum fstDSum
  rw [boxSum_full_mul ns mcols hlen (fstAAt ns), boxSum_full_mul ns mcols hlen (fstDAt ns)]

example : (∀ cols ∈ [[[true, false], [false, false, true]], [[true, true], [false, false, false]]], cols.map List.length = [2, 3]) ∧
    InBox [1, 1] (shapeOf [2, 3]) := by
  refine ⟨by decide, ?_⟩
  simp [InBox, shapeOf]

/-! ## the statistics of PROJECTED spectra of complete data: what survives projection and what does not

    A column with `i` derived alleles among `n` chromosomes contributes the hypergeometric row `w(m,n,i,·)` to the spectrum
    projected to `m`: a statistic that is linear in the spectrum becomes the sum over the columns of its expectation under drawing
    `m` of the `n` chromosomes.  π̂ is invariant (`C13_pi_projection`).  `S`, Watterson's θ, θ_L, Tajima's D and Fst are NOT: the
    theorems give what they are, the counterexamples show they differ from the full-data value. -/

/-- the one-population spectrum of the columns `cols` projected to `m` chromosomes -/
def projSpecOfCols (m : ℕ) (cols : List (List Bool)) : ℕ → ℚ :=
  fun j => spectrumAt true [m] (cols.map fun c => snpOfCols [c]) [j]

/-- **S of a projected spectrum** = `sProj` = Σ_columns P(the column still segregates among `m` of its `n` chromosomes)
    = Σ_columns (1 − w(m,n,i,0) − w(m,n,i,m)), which is at most the number of segregating columns -/
theorem C13_S_projection (m n : ℕ) (hm1 : 1 ≤ m) (hmn : m ≤ n) (cols : List (List Bool)) (hlen : ∀ c ∈ cols, c.length = n) :
    sOf m (projSpecOfCols m cols) = sProj m n cols ∧
    sOf m (projSpecOfCols m cols) ≤ sDirect cols := by
  have h1 : sOf m (projSpecOfCols m cols) = sProj m n cols := by
    unfold sOf projSpecOfCols sProj
    have e : ∀ i, (if i = 0 ∨ i = m then (0 : ℚ) else spectrumAt true [m] (cols.map fun c => snpOfCols [c]) [i])
        = sumMap cols (fun c => if i = 0 ∨ i = m then 0 else projWeight m n (countTrue c) i) := by
      intro i
      rw [spectrumAt_proj1 m n cols hlen i]
      split_ifs
      · rw [sumMap_zero]
      · rfl
    simp only [e]
    rw [sumRange_sumMap]
    apply sumMap_congr
    intro c hc
    have hle := countTrue_le c
    rw [hlen c hc] at hle
    exact sumRange_interior m n (countTrue c) hm1 hmn hle
  refine ⟨h1, ?_⟩
  rw [h1, sDirect, length_filter_eq_sumMap, sProj]
  apply sumMap_le_sumMap
  intro c hc
  have hl := hlen c hc
  by_cases hs : isSeg c = true
  · simp only [hs, if_true]; exact segProb_le_one m n _
  · have hns : ¬ (0 < countTrue c ∧ countTrue c < c.length) := fun x => hs ((isSeg_iff c).mpr x)
    have hle := countTrue_le c
    have : countTrue c = 0 ∨ countTrue c = n := by omega
    rw [segProb_not_seg m n _ hm1 hmn this]
    simp [hs]

/-- **S is not invariant under projection**: one singleton column among 3 chromosomes, projected to 2 -/
theorem C13_S_not_projection_invariant :
    sOf 2 (projSpecOfCols 2 [[true, false, false]]) = 2 / 3 ∧ sDirect [[true, false, false]] = 1 := by
  refine ⟨?_, by decide⟩
  rw [(C13_S_projection 2 3 (by omega) (by omega) [[true, false, false]] (by decide)).1]
  norm_num [sProj, sumMap, segProb, projWeight, choose, fact, countTrue]

/-- Watterson's θ of a projected spectrum: the projected S over a_m (`wattersonProj`; not the full-data value: S shrinks, so does a) -/
theorem C13_watterson_projection (m n : ℕ) (hm1 : 1 ≤ m) (hmn : m ≤ n) (cols : List (List Bool)) (hlen : ∀ c ∈ cols, c.length = n) :
    wattersonOf m (projSpecOfCols m cols) = wattersonProj m n cols := by
  unfold wattersonOf wattersonProj
  rw [(C13_S_projection m n hm1 hmn cols hlen).1]

/-- **θ_L of a projected spectrum** = `thetaLProj` = Σ_columns (m·i/n − m·w(m,n,i,m)) / (m − 1): Σ_j j·w(m,n,i,j) = m·i/n (the
    derived-allele frequency is unchanged in expectation), minus the "all `m` derived" class that θ_L leaves out -/
theorem C13_thetaL_projection (m n : ℕ) (hm1 : 1 ≤ m) (hmn : m ≤ n) (cols : List (List Bool)) (hlen : ∀ c ∈ cols, c.length = n) :
    thetaLOf m (projSpecOfCols m cols) = thetaLProj m n cols := by
  unfold thetaLOf thetaLProj
  congr 1
  obtain ⟨M, rfl⟩ : ∃ M, m = M + 1 := ⟨m - 1, by omega⟩
  set f := projSpecOfCols (M + 1) cols with hf
  have hall : sumRange (M + 1 + 1) (fun j => f j * (j : ℚ)) = sumMap cols (fun c => ((M + 1 : ℕ) : ℚ) * (countTrue c : ℚ) / (n : ℚ)) := by
    have e : ∀ j : ℕ, f j * (j : ℚ) = sumMap cols (fun c => projWeight (M + 1) n (countTrue c) j * (j : ℚ)) := by
      intro j
      rw [hf]; unfold projSpecOfCols
      rw [spectrumAt_proj1 (M + 1) n cols hlen j, ← sumMap_mul_right]
    simp only [e]
    rw [sumRange_sumMap]
    apply sumMap_congr
    intro c hc
    have hle := countTrue_le c
    rw [hlen c hc] at hle
    exact projWeight_mean (M + 1) n (countTrue c) hm1 hmn hle
  have hsplit : sumRange (M + 1 + 1) (fun j => f j * (j : ℚ))
      = sumRange (M + 1 - 1) (fun k => ((k + 1 : ℕ) : ℚ) * f (k + 1)) + ((M + 1 : ℕ) : ℚ) * f (M + 1) := by
    rw [Nat.add_sub_cancel, sumRange_eq, sumRange_eq, Finset.sum_range_succ, Finset.sum_range_succ']
    simp only [Nat.cast_zero, mul_zero, add_zero]
    congr 1
    · apply Finset.sum_congr rfl; intro k _; ring
    · ring
  have hfm : f (M + 1) = sumMap cols (fun c => projWeight (M + 1) n (countTrue c) (M + 1)) := by
    rw [hf]; unfold projSpecOfCols; exact spectrumAt_proj1 (M + 1) n cols hlen (M + 1)
  have : sumRange (M + 1 - 1) (fun k => ((k + 1 : ℕ) : ℚ) * f (k + 1))
      = sumMap cols (fun c => ((M + 1 : ℕ) : ℚ) * (countTrue c : ℚ) / (n : ℚ)) - ((M + 1 : ℕ) : ℚ) * f (M + 1) := by
    rw [← hall, hsplit]; ring
  rw [this, hfm, ← sumMap_mul_left]
  have hsub : ∀ (l : List (List Bool)) (a b : List Bool → ℚ), sumMap l a - sumMap l b = sumMap l (fun c => a c - b c) := by
    intro l a b
    induction l with
    | nil => simp
    | cons x t ih => simp only [sumMap_cons, ← ih]; ring
  rw [hsub]

/-- **θ_L is not invariant under projection**: the same column, 1/2 on the full data and 2/3 after projection to 2 -/
theorem C13_thetaL_not_projection_invariant :
    thetaLOf 2 (projSpecOfCols 2 [[true, false, false]]) = 2 / 3 ∧ thetaLDirect 3 [[true, false, false]] = 1 / 2 := by
  constructor
  · rw [C13_thetaL_projection 2 3 (by omega) (by omega) [[true, false, false]] (by decide)]
    norm_num [thetaLProj, sumMap, projWeight, choose, fact, countTrue, thetaLOuter]
  · norm_num [thetaLDirect, sumMap, isSeg, countTrue, thetaLOuter]

/-- **Tajima's D of a projected spectrum**: the π̂ part is the full-data π̂ (invariant), the θ_W part and the variance use the
    projected S -/
theorem C13_tajima_projection (m n : ℕ) (hm : 2 ≤ m) (hmn : m ≤ n) (cols : List (List Bool)) (hlen : ∀ c ∈ cols, c.length = n) (sqrtC : ℚ) :
    tajimaOf sqrtC m (projSpecOfCols m cols) = tajimaProj sqrtC m n cols ∧
    tajVarOf m (projSpecOfCols m cols) = tajVarProj m n cols := by
  have hS := (C13_S_projection m n (by omega) hmn cols hlen).1
  have hW := C13_watterson_projection m n (by omega) hmn cols hlen
  have hpi : piOf m (projSpecOfCols m cols) = piDirect n cols := C13_pi_projection m n hm hmn cols hlen
  unfold tajimaOf tajVarOf tajimaProj tajVarProj
  rw [hS, hW, hpi]
  exact ⟨rfl, rfl⟩

/-- **Watterson's θ and Tajima's D are not invariant under projection**: one singleton column among 4 chromosomes projected to 2 —
    θ_W goes from 6/11 to 1/2 and the numerator π̂ − θ_W of D from −1/22 to 0 (square root set to 1) -/
theorem C13_watterson_tajima_not_projection_invariant :
    wattersonOf 2 (projSpecOfCols 2 [[true, false, false, false]]) = 1 / 2 ∧ wattersonDirect 4 [[true, false, false, false]] = 6 / 11 ∧
    tajimaOf 1 2 (projSpecOfCols 2 [[true, false, false, false]]) = 0 ∧ tajimaDirect 1 4 [[true, false, false, false]] = -1 / 22 := by
  have hl : ∀ c ∈ [[true, false, false, false]], c.length = 4 := by decide
  refine ⟨?_, by decide +kernel, ?_, by decide +kernel⟩
  · rw [C13_watterson_projection 2 4 (by omega) (by omega) _ hl]; decide +kernel
  · rw [(C13_tajima_projection 2 4 (by omega) (by omega) _ hl 1).1]; decide +kernel

example : (1 : ℕ) ≤ 2 ∧ 2 ≤ 3 ∧ ∀ c ∈ [[true, false, false]], c.length = 3 := by decide

/-- **any statistic that is linear in the spectrum** (weights `g`), for any data, any projections: it is the sum over the SNPs of
    the expectation of `g` under the SNP's own product of hypergeometric rows -/
theorem C13_linear_projection (proj : List ℕ) (snps : List Snp) (g : List ℕ → ℚ) :
    boxSum (shapeOf proj) (fun idx => spectrumAt true proj snps idx * g idx)
      = sumMap snps (fun s => boxSum (shapeOf proj) fun idx => contribAt true proj s idx * g idx) := by
  have : (fun idx => spectrumAt true proj snps idx * g idx)
      = fun idx => sumMap snps (fun s => contribAt true proj s idx * g idx) := by
    funext idx
    rw [C13_sum_of_snps, ← sumMap_mul_right]
    rfl
  rw [this, boxSum_sumMap]

/-- Fst of a projected spectrum: the ratio of the summed expectations of the Weir–Cockerham components at the projected sizes -/
theorem C13_fst_projection (proj : List ℕ) (snps : List Snp) :
    fstOf proj (spectrumAt true proj snps)
      = fstRatio (sumMap snps fun s => boxSum (shapeOf proj) fun idx => contribAt true proj s idx * fstAAt proj idx)
                 (sumMap snps fun s => boxSum (shapeOf proj) fun idx => contribAt true proj s idx * fstDAt proj idx) := by
  unfold fstOf fstASum fstDSum
  rw [C13_linear_projection, C13_linear_projection]

/-- **Fst is not invariant under projection**: one SNP, two populations of 2 chromosomes with derived counts (1, 0): 1/3 on the
    full data, 1 after projecting the first population to 1 chromosome -/
theorem C13_fst_not_projection_invariant :
    fstOf [1, 2] (spectrumAt true [1, 2] [snpOfCols [[true, false], [false, false]]]) = 1 ∧
    fstDirect [2, 2] [[[true, false], [false, false]]] = 1 / 3 := by
  constructor <;> decide +kernel

/-! ## Fst is Weir & Cockerham's estimator — any number of populations, any (unequal) sample sizes -/

/-- **the generated formulas of `Spectrum.Fst` are Weir & Cockerham (1984) eqs. 2–4 under random mating**: for `r ≥ 2` populations
    with sample sizes `n_i ≥ 2` (unequal sizes included) and any entry `idx` of the spectrum, if `h̄` is the heterozygosity for which
    the within-population component `b` (eq. 3) vanishes, then dadi's `a` (`fstAAt`: `fstA` of the generated `nbar, nc, pbar, s2`)
    is the paper's `a` (eq. 2, with n̄, n_c, the n_i-WEIGHTED mean frequency p̄ and the variance s² of p. 1360) and dadi's `d`
    (`fstDAt`) is the paper's `c = h̄/2` (eq. 4) -/
theorem C13_fst_wc (ns idx : List ℕ) (hr : 2 ≤ ns.length) (h2 : ∀ n ∈ ns, 2 ≤ n) (hbar : ℚ)
    (hb : wcB ns idx hbar = 0) :
    fstAAt ns idx = wcA ns idx hbar ∧ fstDAt ns idx = wcC hbar := by
  have hne : ns ≠ [] := by intro e; rw [e] at hr; simp at hr
  have hr0 : wcR ns ≠ 0 := by
    unfold wcR
    have : 0 < ns.length := by omega
    positivity
  have hnb2 := wcNbar_ge ns hne h2
  have hnb0 : wcNbar ns ≠ 0 := by linarith
  have hnb1 : wcNbar ns - 1 ≠ 0 := by linarith
  have hnb21 : 2 * wcNbar ns - 1 ≠ 0 := by linarith
  have hnb21' : wcNbar ns * 2 - 1 ≠ 0 := by linarith
  -- the model's constants are the paper's
  have hR : (fstConsts ns).r = wcR ns := rfl
  have hNbar : (fstConsts ns).nbar = wcNbar ns := rfl
  have hNsum : (fstConsts ns).nsum = wcR ns * wcNbar ns := by
    show ratSumNat ns = _
    unfold wcNbar ratSumNat
    field_simp
  have hNc : (fstConsts ns).nc = wcNc ns := by
    show fstNc (ratSumNat ns) _ _ = _
    have : ratSumNat ns = wcR ns * wcNbar ns := hNsum
    unfold fstNc wcNc
    rw [this]; rfl
  -- the mean frequency is weighted by the sample sizes, the variance is taken around it
  have hP : fstPbar ns idx = wcPbar ns idx := by
    unfold fstPbar wcPbar
    rw [hNsum, hR, sumPops_eq]
    unfold fstPbarOuter fstPbarTerm fstPtw
    congr 1
    apply sumMap_congr
    intro nc _
    ring
  have hS : fstS2 ns idx = wcS2 ns idx := by
    unfold fstS2 wcS2
    simp only [hP, hR, hNbar, sumPops_eq]
    unfold fstS2Outer fstS2Term fstPtw
    congr 1
    apply sumMap_congr
    intro nc _
    ring
  -- random mating: b = 0 fixes h̄
  have hH : hbar = 4 * wcNbar ns / (2 * wcNbar ns - 1) * wcH ns idx := by
    unfold wcB at hb
    have h1 : wcNbar ns / (wcNbar ns - 1) ≠ 0 := div_ne_zero hnb0 hnb1
    have h3 := (mul_eq_zero.mp hb).resolve_left h1
    field_simp at h3 ⊢
    linarith
  have key : 1 / (wcNbar ns - 1) * (wcH ns idx - 4 * wcNbar ns / (2 * wcNbar ns - 1) * wcH ns idx / 4)
      = 1 / (2 * wcNbar ns - 1) * wcH ns idx := by
    field_simp
    ring
  constructor
  · unfold fstAAt wcA
    simp only [hR, hNbar, hNc, hP, hS]
    rw [hH, key]
    unfold fstA wcH
    ring
  · unfold fstDAt wcC
    simp only [hR, hNbar, hP, hS]
    rw [hH]
    unfold fstD wcH
    ring

/-- the hypothesis is satisfiable for every entry: `wcHbar` is the h̄ random mating determines; three populations of unequal sizes -/
example : (2 ≤ [4, 6, 10].length ∧ ∀ n ∈ [4, 6, 10], 2 ≤ n) ∧ wcB [4, 6, 10] [1, 2, 3] (wcHbar [4, 6, 10] [1, 2, 3]) = 0 :=
  ⟨by decide, wcB_wcHbar _ _ (by simp) (by decide)⟩

/-- **Fst from the spectrum of complete data = θ̂ of Weir & Cockerham's eq. 10 over the SNPs of the matrix** (a per SNP from eq. 2,
    b = 0, c from eq. 4), for r ≥ 2 populations of any sizes ≥ 2 -/
theorem C13_fst_wc_theta (ns : List ℕ) (hr : 2 ≤ ns.length) (h2 : ∀ n ∈ ns, 2 ≤ n) (mcols : List (List (List Bool)))
    (hlen : ∀ cols ∈ mcols, cols.map List.length = ns) :
    fstOf ns (spectrumAt true ns (mcols.map snpOfCols)) = wcTheta ns (mcols.map fun cols => cols.map countTrue) := by
  have hne : ns ≠ [] := by intro e; rw [e] at hr; simp at hr
  rw [C13_fst ns mcols hlen]
  unfold fstDirect wcTheta fstRatio
  rw [sumMap_map, sumMap_map]
  have hterm : ∀ c : List ℕ, fstAAt ns c = wcA ns c (wcHbar ns c) ∧ fstDAt ns c = wcC (wcHbar ns c) :=
    fun c => C13_fst_wc ns c hr h2 _ (wcB_wcHbar ns c hne h2)
  have e1 : sumMap mcols (fun cols => fstAAt ns (cols.map countTrue))
      = sumMap mcols (fun cols => wcA ns (cols.map countTrue) (wcHbar ns (cols.map countTrue))) :=
    sumMap_congr fun cols _ => (hterm _).1
  have e2 : sumMap mcols (fun cols => wcA ns (cols.map countTrue) (wcHbar ns (cols.map countTrue))
        + wcB ns (cols.map countTrue) (wcHbar ns (cols.map countTrue)) + wcC (wcHbar ns (cols.map countTrue)))
      = sumMap mcols (fun cols => fstAAt ns (cols.map countTrue)) + sumMap mcols (fun cols => fstDAt ns (cols.map countTrue)) := by
    rw [← sumMap_add]
    apply sumMap_congr
    intro cols _
    rw [wcB_wcHbar ns _ hne h2, (hterm _).1, (hterm _).2]
    ring
  rw [e2, ← e1]

/-! ## computing a statistic leaves the spectrum as it was -/

/-- **`S` is pure**: after `fs.S()` (the generated statement list `sBody`, run by `sRun` with the aliasing semantics of the
    saved mask) the mask of the spectrum is the mask it had before, whatever the data, the shape and the mask: the corner
    entries masked for the sum are visible again iff they were before.  (Data, folded flag and labels are not written by any
    statement of the translated language.) -/
theorem C13_S_pure (proj : List ℕ) (f : List ℕ → ℚ) (m : List ℕ → Bool) : (sRun proj f m).live = m := by rfl

/-- … and the value returned is the sum of the entries visible under `m` outside the two corners -/
theorem C13_S_value (proj : List ℕ) (f : List ℕ → ℚ) (m : List ℕ → Bool) :
    (sRun proj f m).s = boxSum (shapeOf proj) fun idx => if m idx || isCorner proj idx then 0 else f idx := by rfl

/-- for a one-population spectrum without masked entries this is the `sOf` the statistics theorems are about -/
theorem C13_S_run (n : ℕ) (f : ℕ → ℚ) :
    (sRun [n] (fun idx => f idx.headI) (fun _ => false)).s = sOf n f := by
  rw [C13_S_value]
  unfold sOf
  show sumRange (n + 1) _ = _
  apply sumRange_congr
  intro i _
  show (if (false || isCorner [n] [i]) = true then (0 : ℚ) else f i) = _
  have h : isCorner [n] [i] = true ↔ (i = 0 ∨ i = n) := by simp [isCorner]
  by_cases hc : i = 0 ∨ i = n
  · rw [if_pos hc, if_pos (by simpa using h.mpr hc)]
  · rw [if_neg hc, if_neg (by simpa using fun hh => hc (h.mp hh))]

/-- the theorem discriminates: were the saved mask the live mask itself (`oldmask = self.mask`), the corner entries would
    stay masked, here on a 3-entry spectrum without masked entries, and a total taken afterwards would miss them -/
example : (sRunWith [.saveAlias, .maskCorners, .sumVisible, .restore] [2] (fun _ => 1) (fun _ => false)).live [0] = true ∧
    (sRunWith [.saveAlias, .maskCorners, .sumVisible, .restore] [2] (fun _ => 1) (fun _ => false)).live [2] = true ∧
    (sRunWith [.saveCopy, .maskCorners, .sumVisible, .restore] [2] (fun _ => 1) (fun _ => false)).live [0] = false ∧
    (sRunWith [.saveCopy, .maskCorners, .sumVisible, .restore] [2] (fun _ => 1) (fun _ => false)).s = 1 := by
  refine ⟨rfl, rfl, rfl, ?_⟩
  simp [sRunWith, sStep, boxSum, shapeOf, sumRange, isCorner]

/-- no other statistic (`Watterson_theta`, `theta_L`, `pi`, `Tajima_D`, `Fst`, `Zengs_E`) contains a statement that assigns to
    the receiver or calls one of its methods other than the read-only ones and `S` (syntactic scan of the source, T) -/
theorem C13_stats_read_only : statsSelfWrites = [] := by rfl

/-! ## the composition: bootstraps of a sub-sampled VCF (`Misc.bootstraps_subsample_vcf`) -/

/-- **the projections are listed in `pop_ids` order**: entry `i` of the `projections` the glue hands to
    `bootstraps_from_dd_chunks` is two chromosomes per individual requested for population `pop_ids[i]`, whatever the order
    in which the `subsample` dictionary was written (`want` = its items in insertion order) -/
theorem C13_bsv_projections (want : List (ℕ × ℕ)) (popIds : List ℕ) :
    bsvProjections want popIds = popIds.map (fun p => 2 * wanted want p) := by
  unfold bsvProjections
  apply List.map_congr_left
  intro p _
  show dictGet want p * 2 = 2 * wanted want p
  rw [dictGet_eq_wanted, Nat.mul_comm]

/-- the theorem discriminates: with the dictionary written B, A and `pop_ids` = A, B the sizes are (10, 6); taking them in
    dictionary order would give (6, 10) -/
example : bsvProjections [(1, 3), (0, 5)] [0, 1] = [10, 6] ∧ ([(1, 3), (0, 5)].map fun kv => 2 * kv.2) = [6, 10] := by decide

/-- every argument is handed on unchanged: `filter` and `subsample` to `make_data_dict_vcf`, `chunk_size` to
    `fragment_data_dict`, `pop_ids`, `mask_corners`, `polarized` to `bootstraps_from_dd_chunks`, which is asked for one
    bootstrap of which the first is taken, `Nboot` times; nothing else happens in the function -/
theorem C13_bsv_forwarding :
    (∀ f m p, bsvDictFilter f m p = f) ∧ (∀ w, bsvDictSubsample w = some w) ∧ (∀ n c, bsvFragSize n c = c) ∧
    (∀ n c, bsvLoopCount n c = n) ∧ (∀ n c, bsvBootN n c = 1) ∧ bsvPick = 0 ∧ (∀ l, bsvBootPopIds l = l) ∧
    (∀ f m p, bsvBootMaskCorners f m p = m) ∧ (∀ f m p, bsvBootPolarized f m p = p) ∧ bsvShapeOk = true :=
  ⟨fun _ _ _ => rfl, fun _ => rfl, fun _ _ => rfl, fun _ _ => rfl, fun _ _ => rfl, rfl, fun _ => rfl,
   fun _ _ _ => rfl, fun _ _ _ => rfl, rfl⟩

/-- a dictionary entry whose calls are those of the requested individuals, in `pop_ids` order, has exactly
    `projections` successful calls: it is never dropped for "too few calls" — it is usable iff it is biallelic and,
    when a polarised spectrum is asked for, polarisable -/
theorem C13_bsv_usable (pol : Bool) (want : List (ℕ × ℕ)) (popIds : List ℕ) (s : Snp)
    (h : SubsampledCalls want popIds s.calls) :
    s.successful = bsvProjections want popIds ∧
    usable pol (bsvProjections want popIds) s = (s.nseg == biallelicLen && !skipEntry pol s.polarized) := by
  have h1 : s.successful = bsvProjections want popIds := by
    rw [C13_bsv_projections]
    unfold Snp.successful
    unfold SubsampledCalls at h
    generalize s.calls = cl at h
    induction h with
    | nil => rfl
    | cons hc _ ih =>
      simp only [List.map_cons, ih]
      congr 1
  refine ⟨h1, ?_⟩
  unfold usable
  rw [h1, enoughCalls_self, Bool.and_true]


/-- **total of a replicate** = the number of biallelic (polarisable, if required) SNPs of the sub-sampled dictionary in
    the chosen chunks, with multiplicity — every SNP the sub-sampling kept counts, none is lost to the projection -/
theorem C13_bsv_total (filt mc pol : Bool) (nboot size : ℕ) (want : List (ℕ × ℕ)) (popIds : List ℕ) (dd : List Snp)
    (choice : List ℕ) (h : ∀ s ∈ dd, SubsampledCalls want popIds s.calls) :
    boxSum (shapeOf (bsvProjections want popIds)) (bsvReplicateAt filt mc pol nboot size want popIds dd choice)
      = sumMap choice fun c =>
          ((((fragment size dd).getD c []).filter fun s => s.nseg == biallelicLen && !skipEntry pol s.polarized).length : ℚ) := by
  have hmem : ∀ c ∈ fragment size dd, ∀ s ∈ c, SubsampledCalls want popIds s.calls :=
    fun c hc s hs => h s (mem_of_mem_fragment size dd c hc s hs)
  have hlen : ∀ c ∈ fragment size dd, ∀ s ∈ c, s.calls.length = (bsvProjections want popIds).length := by
    intro c hc s hs
    rw [C13_bsv_projections, List.length_map]
    exact (List.Forall₂.length_eq (hmem c hc s hs)).symm
  show boxSum _ (bootAt pol (bsvProjections want popIds) (fragment size dd) choice) = _
  rw [C13_boot_total pol _ _ choice hlen]
  apply sumMap_congr
  intro c _
  unfold countUsable
  congr 2
  apply List.filter_congr
  intro s hs
  have hs' : SubsampledCalls want popIds s.calls := by
    by_cases hc : c < (fragment size dd).length
    · have e : (fragment size dd).getD c [] = (fragment size dd)[c] := by simp [List.getD, List.getElem?_eq_getElem hc]
      rw [e] at hs
      exact hmem _ (List.getElem_mem hc) s hs
    · have e : (fragment size dd).getD c [] = [] := by simp [List.getD, List.getElem?_eq_none (Nat.le_of_not_lt hc)]
      rw [e] at hs; cases hs
  exact (C13_bsv_usable pol want popIds s hs').2

/-- per line: the calls the sub-sampling loop writes for a population add up to two chromosomes per requested individual -/
theorem C13_bsv_calls (inds : List Indiv) (want : List (ℕ × ℕ)) (pops : List ℕ) (draws : List (List ℕ))
    (res : List (ℕ × (ℕ × ℕ))) (left : List (List ℕ))
    (h : subsampleLoop inds want pops draws [] = (some res, left))
    (hg : ∀ x ∈ inds, complete x = true → x.alleles.length = 2 ∧ ∀ a ∈ x.alleles, a = 0 ∨ a = 1)
    (hd : ∀ pd ∈ pops.zip draws, pd.2.length = wanted want pd.1 ∧ ∀ ii ∈ pd.2, ii < (completeOfPop inds pd.1).length) :
    ∀ pc ∈ res, pc.2.1 + pc.2.2 = 2 * wanted want pc.1 := by
  obtain ⟨used, h1, h2, h3, _⟩ := C13_subsample_loop inds want pops draws [] res left h
  have hz : pops.zip draws = pops.zip used := by
    rw [h1]
    have := List.zip_append (l₁ := pops) (r₁ := []) (l₂ := used) (r₂ := left) h2.symm
    simpa using this
  intro pc hpc
  have e : List.zipWith (fun p d => (p, chosenCalls (completeOfPop inds p) d)) pops used
      = (pops.zip used).map (fun pd => (pd.1, chosenCalls (completeOfPop inds pd.1) pd.2)) := by
    rw [List.map_zip_eq_zipWith]; rfl
  rw [h3, List.nil_append, e] at hpc
  obtain ⟨pd, hpd, rfl⟩ := List.mem_map.mp hpc
  obtain ⟨hl, hi⟩ := hd pd (hz ▸ hpd)
  have hg' : ∀ x ∈ completeOfPop inds pd.1, x.alleles.length = 2 ∧ ∀ a ∈ x.alleles, a = 0 ∨ a = 1 := by
    intro x hx
    have := List.mem_filter.mp hx
    exact hg x this.1 (by simpa using (Bool.and_eq_true _ _ ▸ this.2).2)
  have := C13_subsample (completeOfPop inds pd.1) 2 hg' pd.2 hi
  simpa [hl] using this


/-- **one line of one replicate**: the entry `make_data_dict_vcf(subsample=…)` writes for a line it keeps, read by
    `count_data_dict` in `pop_ids` order, has exactly the calls the generated `projections` ask for -/
theorem C13_bsv_line (st : Site) (want : List (ℕ × ℕ)) (draws : List (List ℕ)) (res : List (ℕ × (ℕ × ℕ))) (left : List (List ℕ))
    (popIds : List ℕ) (cl : List (ℕ × ℕ)) (pol : Bool)
    (h : subsampleLoop st.inds want (popOrder st.inds want) draws [] = (some res, left))
    (hg : ∀ x ∈ st.inds, complete x = true → x.alleles.length = 2 ∧ ∀ a ∈ x.alleles, a = 0 ∨ a = 1)
    (hd : ∀ pd ∈ (popOrder st.inds want).zip draws,
        pd.2.length = wanted want pd.1 ∧ ∀ ii ∈ pd.2, ii < (completeOfPop st.inds pd.1).length)
    (hcl : popIds.mapM (fun p => (res.find? (·.1 == p)).map (·.2)) = some cl) :
    (siteSnp st cl).successful = bsvProjections want popIds ∧
    usable pol (bsvProjections want popIds) (siteSnp st cl) = !skipEntry pol (siteSnp st cl).polarized := by
  have hc := lookup_forall₂ want res (C13_bsv_calls st.inds want _ draws res left h hg hd) popIds cl hcl
  have := C13_bsv_usable pol want popIds (siteSnp st cl) hc
  refine ⟨this.1, ?_⟩
  rw [this.2]
  have : (siteSnp st cl).nseg = biallelicLen := rfl
  simp [this]

/-- hypotheses satisfiable, dictionary written in the other order than `pop_ids`: population 1 listed first with 1
    individual, population 0 with 2; the line's columns start with population 1 -/
example : subsampleLoop [⟨some 1, [1, 1], false⟩, ⟨some 0, [0, 1], false⟩, ⟨some 0, [9, 9], false⟩, ⟨some 0, [0, 0], false⟩]
      [(1, 1), (0, 2)] (popOrder [⟨some 1, [1, 1], false⟩, ⟨some 0, [0, 1], false⟩, ⟨some 0, [9, 9], false⟩, ⟨some 0, [0, 0], false⟩] [(1, 1), (0, 2)])
      [[0], [1, 0]] [] = (some [(1, (0, 2)), (0, (3, 1))], []) ∧
    [0, 1].mapM (fun p => (([(1, (0, 2)), (0, (3, 1))] : List (ℕ × (ℕ × ℕ))).find? (·.1 == p)).map (·.2)) = some [(3, 1), (0, 2)] ∧
    bsvProjections [(1, 1), (0, 2)] [0, 1] = [4, 2] := by decide

/-! ### the whole pass over the lines, dictionary semantics included -/

/-- **total of the sub-sampled spectrum, whole pass**: for diploid 0/1 genotypes and draws of the requested sizes, the spectrum of
    the sub-sampled dictionary at the projections `2 × requested individuals` (in `pop_ids` order) totals the number of CHROM_POS
    keys whose LAST kept line is polarisable (when a polarised spectrum is asked for) — every kept line has exactly the projected
    number of calls, none is lost to the projection -/
theorem C13_sub_total (filt pol : Bool) (want : List (ℕ × ℕ)) (popIds : List ℕ) (sites : List Site) (draws left : List (List ℕ))
    (es : List Snp) (hp : SubPass filt want popIds (DrawsValid want) sites draws es left)
    (hg : ∀ st ∈ sites, ∀ x ∈ st.inds, complete x = true → x.alleles.length = 2 ∧ ∀ a ∈ x.alleles, a = 0 ∨ a = 1) :
    ddSub filt want popIds sites draws [] = some (mkDict es, left) ∧
    boxSum (shapeOf (bsvProjections want popIds)) (spectrumAt pol (bsvProjections want popIds) (mkDict es))
      = (((lastEntries es).filter fun s => !skipEntry pol s.polarized).length : ℚ) := by
  have hcalls := hp.calls hg
  refine ⟨by simpa using ddSub_of_subPass hp [], ?_⟩
  have hlen : ∀ s ∈ es, s.calls.length = (bsvProjections want popIds).length := by
    intro s hs
    rw [C13_bsv_projections, List.length_map]
    exact (List.Forall₂.length_eq (hcalls s hs).1).symm
  rw [C13_dict_total pol _ es hlen, countUsable]
  congr 2
  apply List.filter_congr
  intro s hs
  have hs' := hcalls s (mem_lastBy keyT hs)
  rw [(C13_bsv_usable pol want popIds s hs'.1).2, hs'.2]
  simp

/-- **`bootstraps_subsample_vcf`, whole pass**: through the generated glue (`bsvDict` = the sub-sampled pass with the arguments
    handed on) the dictionary of a replicate is `mkDict` of the kept lines, and the replicate totals the number of polarisable
    (if required) SNPs of that dictionary in the chosen chunks, with multiplicity — `C13_bsv_total` without its per-entry hypothesis -/
theorem C13_bsv_pass (filt mc pol : Bool) (nboot size : ℕ) (want : List (ℕ × ℕ)) (popIds : List ℕ) (sites : List Site)
    (draws left : List (List ℕ)) (es : List Snp) (choice : List ℕ)
    (hp : SubPass filt want popIds (DrawsValid want) sites draws es left)
    (hg : ∀ st ∈ sites, ∀ x ∈ st.inds, complete x = true → x.alleles.length = 2 ∧ ∀ a ∈ x.alleles, a = 0 ∨ a = 1) :
    bsvDict filt mc pol want popIds sites draws = some (mkDict es, left) ∧
    boxSum (shapeOf (bsvProjections want popIds)) (bsvReplicateAt filt mc pol nboot size want popIds (mkDict es) choice)
      = sumMap choice fun c =>
          ((((fragment size (mkDict es)).getD c []).filter fun s => !skipEntry pol s.polarized).length : ℚ) := by
  have hcalls := hp.calls hg
  refine ⟨?_, ?_⟩
  · show ddSub filt want popIds sites draws [] = _
    simpa using ddSub_of_subPass hp []
  · rw [C13_bsv_total filt mc pol nboot size want popIds (mkDict es) choice fun s hs => (hcalls s (mem_mkDict hs)).1]
    apply sumMap_congr
    intro c _
    congr 2
    apply List.filter_congr
    intro s hs
    have hmem : s ∈ mkDict es := by
      by_cases hc : c < (fragment size (mkDict es)).length
      · have e : (fragment size (mkDict es)).getD c [] = (fragment size (mkDict es))[c] := by
          simp [List.getD, List.getElem?_eq_getElem hc]
        rw [e] at hs
        exact mem_of_mem_fragment size _ _ (List.getElem_mem hc) s hs
      · have e : (fragment size (mkDict es)).getD c [] = [] := by
          simp [List.getD, List.getElem?_eq_none (Nat.le_of_not_lt hc)]
        rw [e] at hs; cases hs
    rw [(hcalls s (mem_mkDict hmem)).2]
    simp

/-- the hypotheses are satisfiable: one kept line, population 0 sub-sampled to 1 of its 2 complete diploid genotypes -/
example : SubPass true [(0, 1)] [0] (DrawsValid [(0, 1)])
    [⟨0, 10, true, 1, 4, some 1, [⟨some 0, [0, 1], false⟩, ⟨some 0, [1, 1], false⟩]⟩] [[1]]
    [⟨0, 10, 0, 2, 1, 4, some 1, [(0, 2)]⟩] [] := by
  refine SubPass.keep (calls := [(0, (0, 2))]) (d' := []) (by decide) (by decide) (by decide) ?_ (SubPass.nil [])
  intro pd hpd
  have : pd = (0, [1]) := by simpa [popOrder] using hpd
  subst this
  decide

/-! ## the spectrum corrected for ancestral misidentification (`Spectrum.from_data_dict_corrected`) -/

/-- **which SNPs the correction applies to**: a SNP `_data_by_tri` keeps (generated `triSkip`) is biallelic, has both contexts with the
    same flanking bases (all four of them A/C/G/T), segregating alleles that are bases, and an outgroup base — the middle base of the
    outgroup context, which is the recorded outgroup allele — that is one of the two alleles; hence it is POLARISED in the sense of
    `count_data_dict` (`C13_polarised_iff`), its class key holds the allele that differs from the outgroup base, and that is the allele
    whose calls `count_data_dict` counts as derived: the class spectra of the correction are sums of polarised contributions -/
theorem C13_corrected_kept (t : TriSnp) (k : TriKey) (h : triClassify t = .keep k) :
    t.snp.nseg = 2 ∧ t.hasCtx = true ∧ t.snp.out = some t.o1 ∧ t.o0 = t.i0 ∧ t.o2 = t.i2 ∧
    isBase t.i0 = true ∧ isBase t.i2 = true ∧ isBase t.snp.a1 = true ∧ isBase t.snp.a2 = true ∧ (t.o1 = t.snp.a1 ∨ t.o1 = t.snp.a2) ∧
    t.snp.polarized = true ∧
    k = ((t.i0, (if t.snp.a1 = t.o1 then t.snp.a2 else t.snp.a1), t.i2), t.o1) ∧
    t.snp.derived = t.snp.calls.map (if t.snp.a1 = t.o1 then Prod.snd else Prod.fst) := by
  unfold triClassify at h
  have hb : triBiallelicLen = 2 := rfl
  by_cases h1 : t.snp.nseg ≠ triBiallelicLen
  · rw [if_pos h1] at h; cases h
  rw [if_neg h1] at h
  by_cases h2 : (!t.hasCtx) = true
  · rw [if_pos h2] at h; cases h
  rw [if_neg h2] at h
  cases ho : t.snp.out with
  | none => rw [ho] at h; cases h
  | some og0 =>
    rw [ho] at h
    simp only at h
    by_cases h3 : t.o1 ≠ og0
    · rw [if_pos h3] at h; cases h
    rw [if_neg h3] at h
    by_cases h4 : triSkip (t.o0 == t.i0) (t.o2 == t.i2) (isBase t.i0) (isBase t.i2) (t.o1 == t.snp.a1 || t.o1 == t.snp.a2)
        (isBase t.snp.a1) (isBase t.snp.a2) = true
    · rw [if_pos h4] at h; cases h
    rw [if_neg h4] at h
    have h3' : t.o1 = og0 := by simpa using h3
    simp only [triSkip, Bool.or_eq_true, Bool.not_eq_true', not_or, Bool.not_eq_false] at h4
    obtain ⟨⟨⟨⟨⟨⟨s0, s2⟩, b0⟩, b2⟩, hin⟩, ba1⟩, ba2⟩ := h4
    have s0' : t.o0 = t.i0 := by simpa using s0
    have s2' : t.o2 = t.i2 := by simpa using s2
    have hin' : t.o1 = t.snp.a1 ∨ t.o1 = t.snp.a2 := by simpa using hin
    have hnd : t.o1 ≠ dash := by
      intro e
      rcases hin' with e' | e'
      · rw [← e', e] at ba1; simp [isBase, dash] at ba1
      · rw [← e', e] at ba2; simp [isBase, dash] at ba2
    have hpol : t.snp.polarized = true := (C13_polarised_iff t.snp).mpr ⟨t.o1, by rw [ho, h3'], hnd, hin'⟩
    have hk : k = ((t.i0, triDerived t, t.i2), t.o1) := by
      injection h with h; exact h.symm
    have hder : triDerived t = if t.snp.a1 = t.o1 then t.snp.a2 else t.snp.a1 := by
      unfold triDerived
      by_cases e : t.snp.a1 = t.o1 <;> simp [e, triDerivedIfA1Outgroup, triDerivedIfA2Outgroup]
    refine ⟨by simpa [hb] using h1, by simpa using h2, by rw [h3'], s0', s2', b0, b2, ba1, ba2, hin', hpol, by rw [hk, hder], ?_⟩
    by_cases e : t.snp.a1 = t.o1
    · rw [if_pos e]
      exact (C13_polarise t.snp).1 hpol (by rw [ho, e, h3'])
    · rw [if_neg e]
      have e2 : t.o1 = t.snp.a2 := hin'.resolve_left fun x => e x.symm
      exact (C13_polarise t.snp).2.1 hpol (by rw [ho, ← e2, h3']) (fun x => e (by rw [x, e2]))

example : triClassify ⟨⟨0, 7, 0, 2, 1, 4, some 4, [(3, 5)]⟩, true, 2, 3, 2, 4, 3⟩ = .keep ((2, 1, 3), 4) ∧
    triClassify ⟨⟨0, 7, 0, 2, 1, 4, some 3, [(3, 5)]⟩, true, 2, 3, 2, 3, 3⟩ = .skip ∧
    triClassify ⟨⟨0, 7, 0, 2, 1, 4, some 4, [(3, 5)]⟩, true, 2, 3, 2, 1, 3⟩ = .valueError := by decide

/-- **one pair of classes** (the generated `corrRux`, `corrRxuInner`, `corrAcc`; eqs. 5 and 6 of Hernandez et al.): whatever the two
    misidentification entries `fux`, `fxu` of the table (as long as `fux + fxu ≠ 1`), the pair's contribution totals the two class
    spectra's totals — the correction moves SNPs between an entry and its mirror image and between the two classes, it creates and
    loses none; and with no misidentification (`fux = fxu = 1`, the file holds 0) it is the sum of the two class spectra, entry by entry -/
theorem C13_corrected_pair (proj : List ℕ) (fux fxu : ℚ) (nomis mis : List Snp) :
    (fux + fxu - 1 ≠ 0 →
      boxSum (shapeOf proj) (corrPairAt proj fux fxu nomis mis)
        = boxSum (shapeOf proj) (spectrumAt true proj nomis) + boxSum (shapeOf proj) (spectrumAt true proj mis)) ∧
    (∀ idx, InBox idx (shapeOf proj) →
      corrPairAt proj 1 1 nomis mis idx = spectrumAt true proj nomis idx + spectrumAt true proj mis idx) := by
  have hp : corrClassPolarized = true := rfl
  constructor
  · intro hD
    set u := spectrumAt true proj nomis with hu
    set v := spectrumAt true proj mis with hv
    have hpt : corrPairAt proj fux fxu nomis mis = fun idx =>
        (fxu / (fux + fxu - 1)) * u idx + (-(1 - fxu) / (fux + fxu - 1)) * (fun i => v (mirror proj i)) idx
        + ((fux / (fux + fxu - 1)) * (fun i => (fun j => v (mirror proj j)) (mirror proj i)) idx
          + (-(1 - fux) / (fux + fxu - 1)) * (fun i => u (mirror proj i)) idx) := by
      funext idx
      simp only [corrPairAt, hp, corrAcc, corrRux, corrRxuInner, ← hu, ← hv]
      field_simp
      ring
    rw [hpt, boxSum_add, boxSum_add, boxSum_add, boxSum_mul_left, boxSum_mul_left, boxSum_mul_left, boxSum_mul_left,
      boxSum_mirror proj (fun j => v (mirror proj j)), boxSum_mirror proj v, boxSum_mirror proj u]
    field_simp
    ring
  · intro idx hidx
    simp only [corrPairAt, hp, corrAcc, corrRux, corrRxuInner, mirror_mirror hidx]
    ring

/-- **`force_pos` conserves the total** (negative entries are removed and added to the mirrored entry) -/
theorem C13_corrected_force_pos (proj : List ℕ) (u : List ℕ → ℚ) :
    boxSum (shapeOf proj) (forcePosAt proj u) = boxSum (shapeOf proj) u := forcePosAt_total proj u

/-- **the corrected spectrum, whole function** (`_data_by_tri` grouping, the `while by_context` loop over pairs of classes, `force_pos`):
    whatever the table (no pair with `fux + fxu = 1`), with or without `force_pos`, its total is the number of usable SNPs among the
    SNPs the correction applies to (`correctable`: `C13_corrected_kept`) — every class is visited exactly once, the correction
    conserves the number of SNPs -/
theorem C13_corrected_total (proj : List ℕ) (F : TriKey → ℚ) (fp : Bool) (ts : List TriSnp) (u : List ℕ → ℚ)
    (h : correctedAt proj F fp ts = some u) (hF : ∀ k, F k + F (misKey k) - 1 ≠ 0)
    (hlen : ∀ t ∈ ts, t.snp.calls.length = proj.length) :
    boxSum (shapeOf proj) u = (countUsable true proj (correctable ts) : ℚ) := by
  unfold correctedAt at h
  cases hg : byContext ts [] with
  | none => simp [hg] at h
  | some g =>
    simp only [hg, Option.map_some, Option.some.injEq] at h
    have hl : ∀ s ∈ correctable ts, s.calls.length = proj.length := by
      intro s hs
      obtain ⟨t, ht, e⟩ := List.mem_filterMap.mp hs
      cases hc : triClassify t <;> simp [hc] at e
      subst e; exact hlen t ht
    obtain ⟨hn, hsum⟩ := byContext_spec ts [] g hg (by simp)
      (fun s => boxSum (shapeOf proj) (snpSpecAt true proj s))
    have hG : ∀ l : List Snp, boxSum (shapeOf proj) (spectrumAt true proj l) = sumMap l fun s => boxSum (shapeOf proj) (snpSpecAt true proj s) := by
      intro l
      have : spectrumAt true proj l = fun idx => sumMap l (fun s => snpSpecAt true proj s idx) := by
        funext idx; exact C13_sum_of_snps true proj l idx
      rw [this, boxSum_sumMap]
    have hloop := corrLoop_additive proj F (boxSum (shapeOf proj)) (fun l => boxSum (shapeOf proj) (spectrumAt true proj l))
      (fun a b => boxSum_add _ a b)
      (by have : spectrumAt true proj [] = fun _ => 0 := funext fun idx => spectrumAt_nil true proj idx
          rw [this, boxSum_zero])
      (fun k nomis mis => (C13_corrected_pair proj (F k) (F (misKey k)) nomis mis).1 (hF k))
      g.length g (fun _ => 0) (le_refl _) hn
    have htot : boxSum (shapeOf proj) (corrLoop proj F g.length g fun _ => 0) = (countUsable true proj (correctable ts) : ℚ) := by
      rw [hloop, boxSum_zero, zero_add]
      simp only [hG]
      rw [hsum]
      simp only [sumMap_nil, zero_add]
      rw [← hG, C13_total true proj _ hl]
    rw [← h]
    cases fp with
    | true => simp only [if_true]; rw [forcePosAt_total, htot]
    | false => simpa using htot

/-- **no misidentification** (the table holds 0 everywhere, `fux = 1`): the corrected spectrum before `force_pos` is, entry by entry, the
    spectrum `from_data_dict` gives for the SNPs the correction applies to -/
theorem C13_corrected_zero (proj : List ℕ) (ts : List TriSnp) (u : List ℕ → ℚ)
    (h : correctedAt proj (fun _ => corrFuxOfFile 0) false ts = some u) (idx : List ℕ) (hidx : InBox idx (shapeOf proj)) :
    u idx = spectrumAt true proj (correctable ts) idx := by
  have hone : corrFuxOfFile 0 = 1 := by norm_num [corrFuxOfFile]
  unfold correctedAt at h
  cases hg : byContext ts [] with
  | none => simp [hg] at h
  | some g =>
    simp only [hg, Option.map_some, Option.some.injEq, Bool.false_eq_true, if_false] at h
    obtain ⟨hn, hsum⟩ := byContext_spec ts [] g hg (by simp) (fun s => snpSpecAt true proj s idx)
    have hloop := corrLoop_additive proj (fun _ => corrFuxOfFile 0) (fun a => a idx) (fun l => spectrumAt true proj l idx)
      (fun _ _ => rfl) (spectrumAt_nil true proj idx)
      (fun k nomis mis => by
        show corrPairAt proj (corrFuxOfFile 0) (corrFuxOfFile 0) nomis mis idx = _
        rw [hone]; exact (C13_corrected_pair proj 1 1 nomis mis).2 idx hidx)
      g.length g (fun _ => 0) (le_refl _) hn
    rw [← h, hloop]
    simp only [C13_sum_of_snps, zero_add]
    rw [hsum]
    simp

example : correctable [⟨⟨0, 7, 0, 2, 1, 4, some 4, [(3, 5)]⟩, true, 2, 3, 2, 4, 3⟩, ⟨⟨0, 9, 0, 2, 1, 4, some 3, [(3, 5)]⟩, true, 2, 3, 2, 3, 3⟩]
    = [⟨0, 7, 0, 2, 1, 4, some 4, [(3, 5)]⟩] := by decide

/-! ## round 6: the token-level decisions of the VCF reader (FILTER, REF/ALT, the ancestral allele in INFO)

The tokens are the generated definitions `vcfFilterAccept`, `vcfSnpBases`, `vcfAllelesUpper`, `vcfAaPrefixes`, `vcfAaExtract`,
`vcfAaBases`, `vcfAaMissing` (regenerated from `Misc.make_data_dict_vcf` on every run); texts are `List Char`. -/

/-- **which INFO fields are read as the ancestral allele**: exactly those that begin with `AA=`, `AA_ensembl=` or `AA_chimp=`,
    i.e. whose key is AA, AA_ensembl or AA_chimp — no other key, whatever it begins with.  (A wider or narrower match in the source
    changes the generated `vcfAaPrefixes` and this no longer proves.) -/
theorem C13_vcf_aa_keys (f : List Char) :
    aaRecognised f = true ↔
      (∃ v, f = "AA=".toList ++ v) ∨ (∃ v, f = "AA_ensembl=".toList ++ v) ∨ (∃ v, f = "AA_chimp=".toList ++ v) := by
  simp only [aaRecognised, vcfAaPrefixes, List.any_cons, List.any_nil, Bool.or_false, Bool.or_eq_true,
    List.isPrefixOf_iff_prefix, List.IsPrefix]
  constructor
  · rintro (⟨v, h⟩ | ⟨v, h⟩ | ⟨v, h⟩)
    · exact Or.inl ⟨v, h.symm⟩
    · exact Or.inr (Or.inl ⟨v, h.symm⟩)
    · exact Or.inr (Or.inr ⟨v, h.symm⟩)
  · rintro (⟨v, h⟩ | ⟨v, h⟩ | ⟨v, h⟩)
    · exact Or.inl ⟨v, h.symm⟩
    · exact Or.inr (Or.inl ⟨v, h.symm⟩)
    · exact Or.inr (Or.inr ⟨v, h.symm⟩)

/-- keys that share a prefix with, extend, contain or are case variants of the recognised ones are not read; flags are not read -/
example : ["AA_AC=12", "AA_AF=0.3", "AA_=G", "AAX=T", "AA", "AA_ensembl", "AA_ensemblX=C", "AA_chimpanzee=G", "AA_CHIMP=A", "aa=C",
    "XAA=T", "AAA=T", "A=T", "AA.=G"].all (fun s => !aaRecognised s.toList) = true := by decide

example : ["AA=T", "AA=", "AA_ensembl=t|||", "AA_chimp=."].all (fun s => aaRecognised s.toList) = true := by decide

/-- **fields that are not recognised have no effect, wherever they stand** (before the ancestral-allele field, after it, or without it) -/
theorem C13_vcf_aa_decoy (a b : List (List Char)) (g : List Char) (hg : aaRecognised g = false) :
    vcfAaOf (a ++ g :: b) = vcfAaOf (a ++ b) := vcfAaOf_decoy a b g hg

/-- **the first recognised field decides** (whatever follows it), and without a recognised field the allele is '-' -/
theorem C13_vcf_aa_first (a b : List (List Char)) (f : List Char) (ha : ∀ g ∈ a, aaRecognised g = false)
    (hf : aaRecognised f = true) : vcfAaOf (a ++ f :: b) = aaOfField f := vcfAaOf_first a b f ha hf

theorem C13_vcf_aa_none (info : List (List Char)) (h : ∀ g ∈ info, aaRecognised g = false) :
    vcfAaOf info = some "-".toList := vcfAaOf_none info h

/-- **the value**: for a recognised field `<key>=<v>` (`v` without '='), the recorded allele is `v` upper-cased and cut at the first
    '|' if that is one of A, C, G, T, and '-' otherwise; the extraction never raises -/
theorem C13_vcf_aa_value (k v : List Char) (hk : k ∈ ["AA".toList, "AA_ensembl".toList, "AA_chimp".toList]) (hv : '=' ∉ v) :
    aaOfField (k ++ '=' :: v) =
      some (let u := (pyUpper v).takeWhile (· != '|')
            if u ∈ ["A".toList, "C".toList, "G".toList, "T".toList] then u else "-".toList) := by
  have hkk : '=' ∉ k := by
    simp only [List.mem_cons, List.not_mem_nil, or_false] at hk
    rcases hk with rfl | rfl | rfl <;> decide
  simp only [aaOfField, vcfAaExtract, Option.bind_some, pySplitIdx_one '=' k v hkk hv, Option.map_some, pySplitIdx_zero,
    vcfAaBases, vcfAaMissing, List.contains_eq_mem, decide_eq_true_eq]

example : vcfAaOf (["NS=9", "AA_AC=12", "AA_AF=0.3", "AA=t|||", "AAX=G"].map String.toList) = some "T".toList := by decide
example : vcfAaOf (["AA_ensembl", "aa=C", "DB"].map String.toList) = some "-".toList := by decide
example : vcfAaOf (["AA_chimp=N", "AA=C"].map String.toList) = some "-".toList := by decide

/-- **FILTER and REF/ALT tokens**: with `filter` a line goes on iff its FILTER column is exactly `PASS` or `.`; it is a SNP line iff
    REF and ALT, upper-cased, are each exactly one of A, C, G, T -/
theorem C13_vcf_line_tokens (filt : Bool) (l : VcfText) :
    lineKept filt l = true ↔
      (filt = true → l.filter = "PASS".toList ∨ l.filter = ".".toList) ∧
      pyUpper l.ref ∈ ["A".toList, "C".toList, "G".toList, "T".toList] ∧
      pyUpper l.alt ∈ ["A".toList, "C".toList, "G".toList, "T".toList] := by
  have hu : vcfAllelesUpper = true := rfl
  simp only [lineKept, alleleText, hu, if_true, vcfFilterAccept, vcfSnpBases, Bool.and_eq_true, Bool.not_eq_true',
    List.contains_eq_mem, decide_eq_true_eq, List.mem_cons, List.not_mem_nil, or_false]
  cases filt <;> simp [and_assoc, or_iff_not_imp_left]

example : ["PASS", "."].all (fun s => lineKept true ⟨s.toList, "a".toList, "T".toList, []⟩) = true := by decide
example : ["pass", "Pass", "PASS;q10", "PAS", "PASSED", "..", "q10", ""].all
    (fun s => !lineKept true ⟨s.toList, "A".toList, "T".toList, []⟩) = true := by decide
example : [("AC", "A"), ("A", "CG"), ("ACGT", "A"), ("N", "A"), ("A", "*"), ("A", "C,G"), ("", "A")].all
    (fun s => !lineKept false ⟨[], s.1.toList, s.2.toList, []⟩) = true := by decide

/-- **text level = abstract level**: the `Site` read off the texts is kept iff the text line is, and the outgroup allele the model
    records for it is the code of the text the reader records — one of A, C, G, T or '-'.  So `C13_vcf_polarised`, `C13_vcf_usable`,
    `C13_vcf_total`, … speak about the lines as written, with the ancestral allele taken from the field `C13_vcf_aa_keys` names. -/
theorem C13_vcf_line_site (filt : Bool) (c p : ℕ) (l : VcfText) (inds : List Indiv) :
    siteKept filt (lineSite c p l inds) = lineKept filt l ∧
    ∀ aa, lineAa l = some aa →
      (aa = "-".toList ∨ aa ∈ ["A".toList, "C".toList, "G".toList, "T".toList]) ∧
      vcfOutgroup (lineSite c p l inds).aa = baseCode aa := by
  have hb : ∀ s : List Char, isBase (baseCode s) = vcfSnpBases.contains s := by
    intro s
    unfold baseCode
    split_ifs with h0 h1 h2 h3 h4 <;> simp_all [isBase, vcfSnpBases]
  refine ⟨by simp [siteKept, lineSite, lineKept, hb], ?_⟩
  intro aa haa
  have hmem : aa = "-".toList ∨ aa ∈ ["A".toList, "C".toList, "G".toList, "T".toList] := by
    unfold lineAa vcfAaOf at haa
    split at haa
    · left; simpa [vcfAaMissing] using (Option.some.inj haa).symm
    · rename_i f _
      simp only [aaOfField, Option.map_eq_some_iff] at haa
      obtain ⟨v, _, hv⟩ := haa
      split_ifs at hv with hc
      · right; subst hv; simpa [vcfAaBases] using hc
      · left; simpa [vcfAaMissing] using hv.symm
  refine ⟨hmem, ?_⟩
  simp only [lineSite, haa, Option.map_some, vcfOutgroup]
  rcases hmem with rfl | hm
  · decide
  · simp only [List.mem_cons, List.not_mem_nil, or_false] at hm
    rcases hm with rfl | rfl | rfl | rfl <;> decide

/-! ## structure of the source as the model assumes it (T) -/

/-- the statement-level shape of the translated functions is the one the model hard-wires: accumulation
    `fs_total += count * fs_proj` of the broadcast product, fold iff unpolarised, `from_data_dict` = count_data_dict ∘
    _from_count_dict, `S` masks the corners and sums, key parsing and chunk loop of `fragment_data_dict`, bootstraps =
    reduce(add, random.choices(spectra, k=len(spectra))); `_cached_projection` receives (projection, successful calls,
    derived calls); a SNP needs exactly two segregating alleles; successful calls = allele1 + allele2 calls -/
theorem C13_source_shape :
    accumulateShapeOk = true ∧ foldIffUnpolarized = true ∧ fromDataDictShapeOk = true ∧ sShapeOk = true ∧
    keyParseShapeOk = true ∧ chunkLoopShapeOk = true ∧ chunkRebuildShapeOk = true ∧ bootstrapShapeOk = true ∧
    foldMaskShapeOk = true ∧ triShapeOk = true ∧ corrLoopShapeOk = true ∧ corrForcePosShapeOk = true ∧
    (∀ p n i, weightArgs p n i = (p, n, i)) ∧ biallelicLen = 2 ∧ (∀ a b, successfulCalls a b = a + b) ∧
    keyBuilt = ["successful_calls", "derived_calls", "this_snp_polarized"] := by
  refine ⟨rfl, rfl, rfl, rfl, rfl, rfl, rfl, rfl, rfl, rfl, rfl, rfl, fun _ _ _ => rfl, rfl, fun _ _ => rfl, rfl⟩

/-! ## round 7: the genotype-token decisions of both branches of `make_data_dict_vcf` (generated tests) -/

/-- **who can be drawn when sub-sampling**: the generated test of the sub-sampling branch (`vcfSubDrawable`, translated from the `if` in
    front of `subsample_dict[pop].append(gt)`) holds of a sample iff NO character of its GT text is the missing allele '.' — wherever
    it stands (`0/.`, `./1`, `.|0`, `.`, `0/./1`), whatever the separator and the ploidy — and its depth is neither `0` nor `.`; on the
    texts of an abstract individual it is the model's `complete` (the predicate every sub-sampling theorem above is about), i.e. an
    individual is drawable iff no allele of its genotype is missing and it has reads.  A test that looks at the first allele only, at
    the whole text only (`gt != './.'`) or at one separator only changes the generated definition and breaks this theorem. -/
theorem C13_vcf_called_individual :
    (∀ (gt : List Char) (dp : Option (List Char)),
      vcfSubDrawable gt dp = true ↔ ('.' ∉ gt ∧ dp ≠ some "0".toList ∧ dp ≠ some ".".toList)) ∧
    (∀ x : Indiv, indivDrawable x = complete x) ∧
    (∀ x : Indiv, indivDrawable x = true ↔ (∀ a ∈ x.alleles, a ≠ 9) ∧ x.nodata = false) :=
  ⟨vcfSubDrawable_iff, indivDrawable_eq_complete, fun x => by rw [indivDrawable_eq_complete, complete_iff]⟩

/-- half calls in either position, a haploid no-call, a polyploid call with one allele missing, a depth of 0 or `.`: not drawable;
    complete diploid / haploid / triploid calls, phased or not, with or without a depth: drawable -/
example : (["0/.", "1|.", "./1", ".|0", "./.", ".", "0/./1", "././."].map fun g => vcfSubDrawable g.toList none) = List.replicate 8 false ∧
    (["0/1", "1|0", "0", "1", "0/1/1", "1|1|0|0"].map fun g => vcfSubDrawable g.toList (some "12".toList)) = List.replicate 6 true ∧
    vcfSubDrawable "0/1".toList (some "0".toList) = false ∧ vcfSubDrawable "0/1".toList (some ".".toList) = false ∧
    vcfSubDrawable "0/1".toList none = true ∧
    indivDrawable ⟨some 0, [0, 9], false⟩ = false ∧ indivDrawable ⟨some 0, [9, 1], false⟩ = false ∧
    indivDrawable ⟨some 0, [0, 1], false⟩ = true ∧ indivDrawable ⟨some 0, [0, 1], true⟩ = false := by
  refine ⟨by decide, by decide, by decide, by decide, by decide, by decide, by decide, by decide, by decide⟩

/-- **which samples the branch without sub-sampling skips**: exactly those whose AD text is `0,0` or whose DP text is `0` or `.`
    (generated `vcfNoSubSkip`); the GT text plays no part — every called chromosome of the others is counted (`gtCalls`) -/
theorem C13_vcf_nosub_skip (ad dp : Option (List Char)) :
    vcfNoSubSkip ad dp = true ↔ (ad = some "0,0".toList ∨ dp = some "0".toList ∨ dp = some ".".toList) :=
  vcfNoSubSkip_iff ad dp

/-- both branches read the alleles at every second character of GT and count `0` as REF, `1` as ALT (generated stride and tokens):
    a half call contributes its one called chromosome, a triploid call three, an allele index ≥ 2 nothing -/
example : vcfGtStride = 2 ∧ vcfGtRefTok = '0' ∧ vcfGtAltTok = '1' ∧
    gtCalls "0/.".toList = (1, 0) ∧ gtCalls ".|1".toList = (0, 1) ∧ gtCalls "0/1/1".toList = (1, 2) ∧ gtCalls "1".toList = (0, 1) ∧
    gtCalls "./.".toList = (0, 0) ∧ gtCalls "0|2".toList = (1, 0) ∧ gtCalls (gtText [0, 1, 9, 1]) = (1, 2) := by
  refine ⟨rfl, rfl, rfl, by decide, by decide, by decide, by decide, by decide, by decide, by decide⟩

end DadiVerif
