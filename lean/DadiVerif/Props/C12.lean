import DadiVerif.Model.Optim
namespace DadiVerif
open Optim Gen.Optim
theorem C12_stub : (1 : Nat) = 1 := rfl
end DadiVerif
