import DadiVerif.Lemmas.OptimGrid
/-!
# C12 — optimisers honour bounds and fixed parameters and report the point they found

Property theorems only (helper lemmas: `Lemmas/Optim.lean`).  They are about the definitions the driver executes:
`projectDown/projectUp`, `objectFunc`, `evalV/evalB`, `wrapperObjective`, `runOpt`, `runWrapper` (through their element-typed forms
`projectUpT`, `objectFuncT`, `runWrapperT`, which `C12_up_dtype` / `C12_objective_dtype` / `C12_run_dtype` prove equal), `objectiveAtFull`,
`perturbEntry` (Model/Optim.lean) and the GENERATED `lowerViolated … objReturn`, `downKeeps`, `upTakesFree`, `upOutDtype`, `wrappers`,
`perturbSteps`, `perturbMutatesBounds`, shape flags (Generated/Optim.lean, rewritten from dadi/Inference.py,
dadi/NLopt_mod.py, dadi/Misc.py on every run).

An optimiser is an ARBITRARY `Opt` (start, bounds ↦ a strategy mapping the history of (query, value) pairs to the next
query or to its answer) run with arbitrary fuel: nothing is assumed about scipy / NLopt except where a hypothesis says so
(`hq`: a local optimiser evaluates its start first; `hmem`: it answers with a point it evaluated and the value it got there;
`hmax`: a maximiser's answer is the best value it saw).  `numpy.exp/log` are arbitrary functions with `expF (logF x) = x`
for `x > 0` where needed.

Statements that depend on what the source currently says are split in two: a semantic theorem about EVERY wrapper row with a
decidable well-formedness flag (`startOk`, `resultOk`, …), and a `decide` over the complete generated table that every row
of the current source has the flag.  On the pinned tree `C12_start_table` (optimize_lbfgsb starts at log(p0), F-12b),
`C12_result_table` (opt(log_opt=True) returns exp(log(p0)), F-12a) and `C12_perturb` (boxes narrower than the 1 % margins) are FALSE
and fail to check; the harness finds the failing calls.  (`C12_perturb_pure` and the negative-bound case of `C12_perturb` were
false until the owner's fix 9e42d50 of `perturb_params`.)
-/
set_option autoImplicit false
namespace DadiVerif
open Optim Gen.Optim

/-! ## projections around fixed parameters are mutually inverse -/

/-- contracting after expanding gives the free vector back (for every pattern of fixed parameters) -/
theorem C12_down_up (fixed : Fixed) (free : List ℚ) (h : free.length = nFree fixed) :
    projectDown (projectUp free fixed) fixed = free :=
  down_up fixed free h

example : projectDown (projectUp [7, 9] [none, some 3, none]) [none, some 3, none] = [7, 9] := by decide

/-- expanding after contracting writes the fixed values over the full vector and changes nothing else … -/
theorem C12_up_down (fixed : Fixed) (full : List ℚ) (h : full.length = fixed.length) :
    projectUp (projectDown full fixed) fixed = overwrite full fixed :=
  up_down fixed full h

/-- … so it is the identity on vectors that carry the fixed values -/
theorem C12_up_down_id (fixed : Fixed) (full : List ℚ) (h : full.length = fixed.length)
    (hag : ∀ (j : ℕ) (v : ℚ), fixed[j]? = some (some v) → full[j]? = some v) :
    projectUp (projectDown full fixed) fixed = full := by
  rw [up_down fixed full h]
  apply List.ext_getElem?
  intro j
  simp only [overwrite, List.getElem?_zipWith]
  cases hp : full[j]? with
  | none => simp
  | some p =>
    cases hf : fixed[j]? with
    | none =>
      have h1 := (List.getElem?_eq_some_iff.mp hp).1
      have h2 := List.getElem?_eq_none_iff.mp hf
      omega
    | some f =>
      cases f with
      | none => simp
      | some v => have := hag j v hf; simp_all

example : projectUp (projectDown [7, 3, 9] [none, some 3, none]) [none, some 3, none] = [7, 3, 9] := by decide

/-- expanding puts every fixed value at its own position, whatever the free vector -/
theorem C12_up_fixed (fixed : Fixed) (free : List ℚ) (j : ℕ) (v : ℚ) (h : fixed[j]? = some (some v)) :
    (projectUp free fixed)[j]? = some v :=
  up_fixed fixed free j v h

theorem C12_up_length (fixed : Fixed) (free : List ℚ) : (projectUp free fixed).length = fixed.length :=
  up_length fixed free

/-! ## … whatever the element type of the vectors (integer arrays, lists of ints, int scalars, float arrays)

`projectUpT dt` / `objectFuncT dt` / `runWrapperT dp dq da` are what the driver executes: `_project_params_up` ALLOCATES its output
(`upOutDtype`, generated from the allocation statement, gives the element type of that array as a function of the element type numpy
infers for the reduced vector) and STORES the free and the fixed values into it.  The theorems say that nothing is lost in the store,
so that every statement of this file about `projectUp` / `objectFunc` / `runWrapper` holds for integer-typed inputs too.  They fail to
check when the output inherits an integer element type (e.g. `numpy.empty_like(pin, shape=…)`): `DType.int.store (1/4) = 0`. -/

/-- the array `_project_params_up` allocates for its output keeps every value stored into it exactly, whatever the element type of
    the reduced vector (read off the allocation statement of the current source: `upOutDtype`) -/
theorem C12_up_store (dt : DType) (x : ℚ) : (upOutDtype dt).store x = x := by
  cases dt <;> simp [upOutDtype, DType.store]

/-- … so the typed projection is `projectUp`, for every element type of the reduced vector -/
theorem C12_up_dtype (dt : DType) (free : List ℚ) (fixed : Fixed) : projectUpT dt free fixed = projectUp free fixed :=
  projectUpT_eq C12_up_store dt free fixed

/-- expand ∘ contract is the identity on INTEGER vectors carrying non-integer fixed values, too -/
theorem C12_up_down_id_typed (dt : DType) (fixed : Fixed) (full : List ℚ) (h : full.length = fixed.length)
    (hag : ∀ (j : ℕ) (v : ℚ), fixed[j]? = some (some v) → full[j]? = some v) :
    projectUpT dt (projectDown full fixed) fixed = full := by
  rw [C12_up_dtype]; exact C12_up_down_id fixed full h hag

/-- contract ∘ expand likewise -/
theorem C12_down_up_typed (dt : DType) (fixed : Fixed) (free : List ℚ) (h : free.length = nFree fixed) :
    projectDown (projectUpT dt free fixed) fixed = free := by
  rw [C12_up_dtype]; exact C12_down_up fixed free h

/-- non-vacuity: an integer reduced vector next to a fixed value that is not an integer; and what an integer-typed output would do to it -/
example : projectUpT .int (projectDown [3, 1/2, 2] [none, some (1/2), none]) [none, some (1/2), none] = [3, 1/2, 2] := by decide +kernel
example : DType.int.store (1/4) = 0 ∧ DType.int.store (-3/2) = -1 ∧ DType.int.store 7 = 7 ∧ DType.float.store (1/4) = 1/4 := by decide +kernel

/-- `_object_func` on a parameter vector of any element type (a grid written with integers hands over integer arrays) -/
theorem C12_objective_dtype (dt : DType) (lower upper : Option Bounds) (fixed : Option Fixed) (s : ℚ) (m : ModelFn) (params : List ℚ) :
    objectFuncT dt lower upper fixed s m params = objectFunc lower upper fixed s m params :=
  objectFuncT_eq C12_up_store dt lower upper fixed s m params

/-- a whole wrapper run, whatever the element types of the caller's `p0`, of the optimiser's queries and of its answer -/
theorem C12_run_dtype (dp dq da : DType) (w : Wrapper) (expF logF : ℚ → ℚ) (pb : Problem) (m : ModelFn) (opt : Opt) (fuel : ℕ) :
    runWrapperT dp dq da w expF logF pb m opt fuel = runWrapper w expF logF pb m opt fuel :=
  runWrapperT_eq C12_up_store dp dq da w expF logF pb m opt fuel

/-! ## `_object_func`: bound check before the model, sentinel outside -/

/-- the model function is called only inside the box, and exactly at the vector with the fixed values folded in -/
theorem C12_objective_eval (lower upper : Option Bounds) (fixed : Option Fixed) (s : ℚ) (m : ModelFn) (params pu : List ℚ)
    (h : (objectFunc lower upper fixed s m params).2 = some pu) :
    pu = projectUpO params fixed ∧ InBoxP lower upper pu :=
  objectFunc_eval lower upper fixed s m params pu h

/-- outside the box the model is not called and `1e8/ll_scale` is returned -/
theorem C12_objective_outside (lower upper : Option Bounds) (fixed : Option Fixed) (s : ℚ) (m : ModelFn) (params : List ℚ)
    (h : ¬ InBoxP lower upper (projectUpO params fixed)) :
    objectFunc lower upper fixed s m params = (100000000 / s, none) :=
  objectFunc_outside lower upper fixed s m params h

/-- inside: `-ll/ll_scale` at the folded-in point (`-1e8` standing in for a NaN likelihood) -/
theorem C12_objective_inside (lower upper : Option Bounds) (fixed : Option Fixed) (s : ℚ) (m : ModelFn) (params : List ℚ)
    (h : InBoxP lower upper (projectUpO params fixed)) :
    objectFunc lower upper fixed s m params =
      (- ((m (projectUpO params fixed)).getD (-100000000)) / s, some (projectUpO params fixed)) := by
  rw [objectFunc_inside lower upper fixed s m params h]
  simp [objReturn, nanResult, outOfBoundsVal]

example : objectFunc (some [some 1, none]) (some [some 5, some 2]) (some [none, some 2]) 1 (fun _ => some (-3)) [4] = (3, some [4, 2]) := by
  norm_num [objectFunc, projectUpO, projectUp, upTakesFree, anyViolated, lowerViolated, upperViolated, objReturn]
example : (objectFunc (some [some 1, none]) (some [some 5, some 2]) (some [none, some 2]) 10 (fun _ => some (-3)) [6]) = (10000000, none) := by
  norm_num [objectFunc, projectUpO, projectUp, upTakesFree, anyViolated, lowerViolated, upperViolated, oobReturnUpper, outOfBoundsVal]

/-- the statement order the model assumes (fixed values folded in first, both bound loops before the model call, the model
    called with the folded-in vector, NaN guard after the likelihood; the `func_kwargs` dict is COPIED before `pts` is written into it
    and no caller-owned argument is written to, so nothing leaks from one call into the next through the shared mutable
    defaults), the shape of `_object_func_log` and of the projection loops, as found in the current source -/
theorem C12_source_shape :
    objectFuncShapeOk = true ∧ objectFuncLogShapeOk = true ∧ projectShapeOk = true ∧ optReexported = true := by decide

/-! ## wrappers around an arbitrary optimiser -/

theorem C12_wrappers_present :
    ∀ n ∈ ["optimize", "optimize_log", "optimize_lbfgsb", "optimize_log_lbfgsb", "optimize_log_fmin", "optimize_log_powell",
           "optimize_cons", "optimize_grid", "opt[log_opt=False]", "opt[log_opt=True]"], n ∈ wrappers.map (·.name) := by decide

private theorem toOpt_ofOpt (x : Option ℚ) : BV.toOpt (BV.ofOpt x) = x := by cases x <;> rfl

private theorem evalBObj_lower (expF logF : ℚ → ℚ) (pb : Problem) (b : Bool) : evalBObj expF logF pb b .lower = pb.lower := by
  cases h : pb.lower <;> simp [evalBObj, evalB, h, Function.comp_def, toOpt_ofOpt]

private theorem evalBObj_upper (expF logF : ℚ → ℚ) (pb : Problem) (b : Bool) : evalBObj expF logF pb b .upper = pb.upper := by
  cases h : pb.upper <;> simp [evalBObj, evalB, h, Function.comp_def, toOpt_ofOpt]


/-- in the current source: every wrapper passes `fixed_params` on; its objective bounds are the caller's or `None`; and every
    wrapper that gives its optimiser NO bounds (and is not the grid search, which has no bounds argument) has
    `_object_func` test the caller's bounds -/
theorem C12_bounds_table : ∀ w ∈ wrappers, w.objFixed = true ∧ w.objBoundsOk = true ∧
    (w.optLower = none → w.optimizer ≠ "scipy.optimize.brute" → w.objLower = some .lower ∧ w.objUpper = some .upper) := by decide

/-- in the current source the bounds a wrapper hands to its optimiser have been contracted with `_project_params_down`, like
    the start vector they belong to -/
theorem C12_optbounds_table : ∀ w ∈ wrappers,
    (w.optLower.map VE.isProjected).getD true = true ∧ (w.optUpper.map VE.isProjected).getD true = true := by decide

/-- in the current source a wrapper negates `_object_func` exactly when it asks its optimiser to MAXIMISE: every optimiser
    maximises the likelihood (`objectiveAtFull` is `-ll/ll_scale` for the minimisers and `ll` for `opt`) -/
theorem C12_sign_table : ∀ w ∈ wrappers, w.negated = w.maximize := by decide

/-- **every wrapper forwards each of its own options to the parameter of the same name** — the arguments of each wrapper's call of
    `_object_func` (the positional `args=(…)` tuple of the scipy wrappers, the keywords of the closure in `NLopt_mod.opt`) bound against
    `_object_func`'s own signature as found in the source: one call per wrapper row; only parameters `_object_func` has, none twice, the
    required ones given; an own option that `_object_func` also has (`multinom`, `flush_delay`, `verbose`, `fixed_params`, `ll_scale`, …) is
    never handed to a parameter of another name and is handed to the one of its own name (the two bound lists may be withheld when
    the optimiser gets them); and the model row takes `fixed_params` / `ll_scale` / the bounds from the binding BY NAME.
    (Seed C12-7 — `multinom` and `flush_delay` swapped in one tuple — changes one `binding` and this theorem fails.) -/
theorem C12_objective_args_table :
    wrappers.map (·.name) = objCalls.map (·.wrapper) ∧
    (∀ c ∈ objCalls, c.forwardsOk objectFuncParams objectFuncRequired = true) ∧
    (∀ wc ∈ wrappers.zip objCalls, rowMatchesCall wc.1 wc.2 = true) := by decide +kernel

/-- non-vacuity: the flag rejects a swapped pair and a dropped option -/
example : ObjCall.forwardsOk ["a", "b", "c"] ["a"] ⟨"w", ["a", "b", "c", "z"], [("a", "a"), ("b", "b"), ("c", "c")]⟩ = true ∧
          ObjCall.forwardsOk ["a", "b", "c"] ["a"] ⟨"w", ["a", "b", "c", "z"], [("a", "a"), ("b", "c"), ("c", "b")]⟩ = false ∧
          ObjCall.forwardsOk ["a", "b", "c"] ["a"] ⟨"w", ["a", "b", "c", "z"], [("a", "a"), ("b", "b")]⟩ = false := by decide +kernel

/-- **never evaluated outside the bounds** — for every wrapper that hands the caller's bounds to `_object_func`, every
    optimiser behaviour, every fuel: each point at which the model function is called lies inside the caller's box -/
theorem C12_no_oob_eval (w : Wrapper) (hlo : w.objLower = some .lower) (hup : w.objUpper = some .upper)
    (expF logF : ℚ → ℚ) (pb : Problem) (m : ModelFn) (opt : Opt) (fuel : ℕ) :
    ∀ e ∈ (runWrapper w expF logF pb m opt fuel).run.evals, InBoxP pb.lower pb.upper e := by
  simp only [runWrapper]
  apply runOpt_evals _ _ (InBoxP pb.lower pb.upper)
  intro x e he
  simp only [wrapperObjective, hlo, hup, Option.bind_some, evalBObj_lower, evalBObj_upper] at he
  exact (objectFunc_eval _ _ _ _ _ _ _ he).2

/-- for the wrappers that leave the bounds to the optimiser (L-BFGS-B, SLSQP, NLopt): in log parameterisation a query inside
    the log-box is evaluated inside the box (`exp` monotone, `exp ∘ log = id` on positives) -/
theorem C12_log_box (expF logF : ℚ → ℚ) (hmono : ∀ a b, a ≤ b → expF a ≤ expF b) (hexp : ∀ x, 0 < x → expF (logF x) = x)
    (lb ub x : ℚ) (hlb : 0 < lb) (hub : 0 < ub) (h1 : logF lb ≤ x) (h2 : x ≤ logF ub) : lb ≤ expF x ∧ expF x ≤ ub := by
  constructor
  · have := hmono _ _ h1; rwa [hexp lb hlb] at this
  · have := hmono _ _ h2; rwa [hexp ub hub] at this

/-- **fixed parameters**: every evaluation carries every fixed value at its position -/
theorem C12_fixed_const (w : Wrapper) (hfix : w.objFixed = true) (expF logF : ℚ → ℚ) (pb : Problem) (m : ModelFn) (opt : Opt)
    (fuel : ℕ) (fx : Fixed) (hfx : pb.fixed = some fx) :
    ∀ e ∈ (runWrapper w expF logF pb m opt fuel).run.evals, ∀ (j : ℕ) (v : ℚ), fx[j]? = some (some v) → e[j]? = some v := by
  simp only [runWrapper]
  apply runOpt_evals _ _ (fun e => ∀ (j : ℕ) (v : ℚ), fx[j]? = some (some v) → e[j]? = some v)
  intro x e he j v hj
  simp only [wrapperObjective, hfix, if_true] at he
  have := (objectFunc_eval _ _ _ _ _ _ _ he).1
  rw [this, hfx]
  exact up_fixed fx _ j v hj


theorem C12_result_up_table : ∀ w ∈ wrappers, w.resultIsUp = true := by decide

/-- a result assembled by `_project_params_up` LAST carries every fixed value, whatever the optimiser answered -/
theorem fixed_result_of_up (w : Wrapper) (hup : w.resultIsUp = true) (expF logF : ℚ → ℚ) (pb : Problem) (m : ModelFn) (opt : Opt)
    (fuel : ℕ) (fx : Fixed) (hfx : pb.fixed = some fx) (r : List ℚ)
    (hr : (runWrapper w expF logF pb m opt fuel).result = some r) :
    ∀ (j : ℕ) (v : ℚ), fx[j]? = some (some v) → r[j]? = some v := by
  intro j v hj
  simp only [runWrapper] at hr
  cases hfin : (runOpt (wrapperObjective w expF logF pb m)
      (opt (w.start.bind (evalV expF logF pb [])) (w.optLower.bind (evalB expF logF pb true))
        (w.optUpper.bind (evalB expF logF pb false))) fuel []).final with
  | none => simp [hfin] at hr
  | some xf =>
    simp only [hfin, Option.bind_some] at hr
    cases hres : w.result with
    | up e =>
      simp only [hres, evalV, hfx, projectUpO] at hr
      cases he : evalV expF logF pb xf.1 e with
      | none => simp [he] at hr
      | some u =>
        simp only [he, Option.map_some, Option.some.injEq] at hr
        rw [← hr]; exact up_fixed fx u j v hj
    | _ => simp [Wrapper.resultIsUp, hres] at hup

/-- **returns fixed parameters unchanged** — every wrapper of the current source, every optimiser behaviour, every fuel: the returned
    vector carries every fixed value at its position.  (The table fact is decided HERE: a wrapper that transforms the vector AFTER
    expanding it — `numpy.exp(_project_params_up(x))`, seed C12-8: the fixed values come back exponentiated — has the result term
    `exp (up xopt)` instead of `up (exp xopt)` and this theorem fails to check.) -/
theorem C12_fixed_result : ∀ w ∈ wrappers, ∀ (expF logF : ℚ → ℚ) (pb : Problem) (m : ModelFn) (opt : Opt) (fuel : ℕ) (fx : Fixed),
    pb.fixed = some fx → ∀ r, (runWrapper w expF logF pb m opt fuel).result = some r →
    ∀ (j : ℕ) (v : ℚ), fx[j]? = some (some v) → r[j]? = some v := by
  intro w hw expF logF pb m opt fuel fx hfx r hr
  exact fixed_result_of_up w ((by decide : ∀ w ∈ wrappers, w.resultIsUp = true) w hw) expF logF pb m opt fuel fx hfx r hr

/-- non-vacuity, and what the other order does: expanding last keeps the fixed value 1/4; transforming after expanding does not -/
example : evalV (fun x => 2 * x) (fun x => x / 2) ⟨[1, 1], none, none, some [none, some (1/4)], 1⟩ [3] (.up (.exp .xopt)) = some [6, 1/4] ∧
          evalV (fun x => 2 * x) (fun x => x / 2) ⟨[1, 1], none, none, some [none, some (1/4)], 1⟩ [3] (.exp (.up .xopt)) = some [6, 1/2] := by
  decide +kernel

/-! ### first evaluation = the user's start -/


/-- every wrapper of the current source that has a start vector hands over the right one (FALSE on the pinned tree:
    `optimize_lbfgsb` passes `numpy.log(p0)` to an objective in natural parameters, F-12b) -/
theorem C12_start_table : ∀ w ∈ wrappers, w.start.isSome = true → w.startOk = true := by decide

private theorem untr_start (w : Wrapper) (expF logF : ℚ → ℚ) (hexp : ∀ x, 0 < x → expF (logF x) = x) (l : List ℚ)
    (hpos : w.objLog = true → ∀ x ∈ l, 0 < x) :
    (if w.objLog then (if w.objLog then l.map logF else l).map expF else (if w.objLog then l.map logF else l)) = l := by
  cases h : w.objLog with
  | false => simp
  | true =>
    simp only [if_true, List.map_map]
    conv_rhs => rw [← List.map_id l]
    apply List.map_congr_left
    intro x hx
    simp [Function.comp, hexp x (hpos h x hx)]

private theorem inBox_objBounds (w : Wrapper) (hb : w.objBoundsOk = true) (expF logF : ℚ → ℚ) (pb : Problem) (v : List ℚ)
    (hin : InBoxP pb.lower pb.upper v) :
    InBoxP (w.objLower.bind (evalBObj expF logF pb true)) (w.objUpper.bind (evalBObj expF logF pb false)) v := by
  simp only [Wrapper.objBoundsOk, Bool.and_eq_true, Bool.or_eq_true, beq_iff_eq] at hb
  obtain ⟨hl, hu⟩ := hb
  constructor
  · rcases hl with hl | hl
    · rw [hl]; intro bs hbs; simp at hbs
    · rw [hl]; simpa [evalBObj_lower] using hin.1
  · rcases hu with hu | hu
    · rw [hu]; intro bs hbs; simp at hbs
    · rw [hu]; simpa [evalBObj_upper] using hin.2

private theorem start_eval (w : Wrapper) (hs : w.startOk = true) :
    ∀ (expF logF : ℚ → ℚ) (pb : Problem),
    w.start.bind (evalV expF logF pb []) =
      some (if w.objLog then (projectDownO pb.p0 pb.fixed).map logF else projectDownO pb.p0 pb.fixed) := by
  intro expF logF pb
  simp only [Wrapper.startOk, beq_iff_eq] at hs
  rw [hs]
  cases h : w.objLog <;> simp [evalV]

/-- **the first evaluation is the user's starting point** — for every wrapper row with a well-formed start, every optimiser
    that queries its start first (`hq`), a start inside the box, positive free start values in log parameterisation:
    the first point at which the model function is called is `p0` with the fixed values written over it -/
theorem C12_first_eval (w : Wrapper) (hs : w.startOk = true) (hfix : w.objFixed = true) (hb : w.objBoundsOk = true)
    (expF logF : ℚ → ℚ) (hexp : ∀ x, 0 < x → expF (logF x) = x) (pb : Problem) (m : ModelFn)
    (hpos : w.objLog = true → ∀ x ∈ projectDownO pb.p0 pb.fixed, 0 < x)
    (hin : InBoxP pb.lower pb.upper (startFull pb))
    (opt : Opt) (hq : ∀ s lo up, opt (some s) lo up [] = .query s) (fuel : ℕ) :
    (runWrapper w expF logF pb m opt (fuel + 1)).run.evals.head? = some (startFull pb) := by
  simp only [runWrapper, start_eval w hs]
  refine (runOpt_first _ _ fuel [] _ (hq _ _ _)).2 _ ?_
  simp only [wrapperObjective, hfix, if_true]
  rw [untr_start w expF logF hexp _ hpos]
  rw [objectFunc_inside _ _ _ _ _ _ (inBox_objBounds w hb expF logF pb _ hin)]
  rfl

/-! ### the returned vector and the reported optimum -/


/-- every wrapper of the current source assembles its result from the optimiser's answer (FALSE on the pinned tree:
    `opt(log_opt=True)` returns `exp(log(p0))`, the start, F-12a) -/
theorem C12_result_table : ∀ w ∈ wrappers, w.resultOk = true := by decide

/-- **result assembly** — returned vector = `projectUp (untransform xopt)`, reported value = the optimiser's `fopt` -/
theorem C12_result (w : Wrapper) (hr : w.resultOk = true) (expF logF : ℚ → ℚ) (pb : Problem) (m : ModelFn) (opt : Opt)
    (fuel : ℕ) (x : List ℚ) (f : ℚ) (hfin : (runWrapper w expF logF pb m opt fuel).run.final = some (x, f)) :
    (runWrapper w expF logF pb m opt fuel).result = some (projectUpO (if w.objLog then x.map expF else x) pb.fixed) ∧
    (runWrapper w expF logF pb m opt fuel).reported = some f := by
  simp only [Wrapper.resultOk, Bool.and_eq_true, beq_iff_eq] at hr
  obtain ⟨hres, hrep⟩ := hr
  simp only [runWrapper] at hfin ⊢
  rw [hfin]
  simp only [Option.bind_some, hres, hrep, if_true]
  cases h : w.objLog <;> simp [evalV]

private theorem objectFunc_full (lo up : Option Bounds) (fixed : Option Fixed) (s : ℚ) (m : ModelFn) (params : List ℚ) :
    (objectFunc lo up none s m (projectUpO params fixed)).1 = (objectFunc lo up fixed s m params).1 := by
  have h0 : projectUpO (projectUpO params fixed) none = projectUpO params fixed := rfl
  unfold objectFunc
  simp only [h0]
  first
    | done
    | (split_ifs <;> rfl)

/-- the wrapper's objective at a free vector is its objective at the expanded, un-transformed full vector -/
theorem C12_objective_at_full (w : Wrapper) (hfix : w.objFixed = true) (expF logF : ℚ → ℚ) (pb : Problem) (m : ModelFn)
    (x : List ℚ) :
    objectiveAtFull w expF logF pb m (projectUpO (if w.objLog then x.map expF else x) pb.fixed) =
      (wrapperObjective w expF logF pb m x).1 := by
  simp only [objectiveAtFull, wrapperObjective, hfix, if_true, objectFunc_full]

/-- **the reported optimum is the likelihood of the returned parameters** — if the optimiser answers with a point it
    evaluated and the value it got there (`hmem`), the objective (−ll/ll_scale, or ll for `opt`) recomputed at the
    RETURNED full vector equals the REPORTED value, in natural and in log parameterisation alike -/
theorem C12_reported_is_ll_of_result (w : Wrapper) (hr : w.resultOk = true) (hfix : w.objFixed = true)
    (expF logF : ℚ → ℚ) (pb : Problem) (m : ModelFn) (opt : Opt) (fuel : ℕ) (x : List ℚ) (f : ℚ)
    (hfin : (runWrapper w expF logF pb m opt fuel).run.final = some (x, f))
    (hmem : (x, f) ∈ (runWrapper w expF logF pb m opt fuel).run.history) :
    ∃ r, (runWrapper w expF logF pb m opt fuel).result = some r ∧
         (runWrapper w expF logF pb m opt fuel).reported = some f ∧
         objectiveAtFull w expF logF pb m r = f := by
  obtain ⟨h1, h2⟩ := C12_result w hr expF logF pb m opt fuel x f hfin
  refine ⟨_, h1, h2, ?_⟩
  rw [C12_objective_at_full w hfix]
  simp only [runWrapper] at hmem
  exact (runOpt_history _ _ _ _ _ hmem).symm

/-- **`opt` is no worse than its start** — a maximiser that answers with the best value it saw (`hmax`) and queries its start
    first returns parameters whose objective is at least the objective at the user's starting point -/
theorem C12_no_worse (w : Wrapper) (hs : w.startOk = true) (hr : w.resultOk = true) (hfix : w.objFixed = true)
    (expF logF : ℚ → ℚ) (hexp : ∀ x, 0 < x → expF (logF x) = x) (pb : Problem) (m : ModelFn)
    (hpos : w.objLog = true → ∀ x ∈ projectDownO pb.p0 pb.fixed, 0 < x)
    (opt : Opt) (hq : ∀ s lo up, opt (some s) lo up [] = .query s) (fuel : ℕ) (x : List ℚ) (f : ℚ)
    (hfin : (runWrapper w expF logF pb m opt (fuel + 1)).run.final = some (x, f))
    (hmem : (x, f) ∈ (runWrapper w expF logF pb m opt (fuel + 1)).run.history)
    (hmax : ∀ q ∈ (runWrapper w expF logF pb m opt (fuel + 1)).run.history, q.2 ≤ f) :
    ∃ r, (runWrapper w expF logF pb m opt (fuel + 1)).result = some r ∧
         objectiveAtFull w expF logF pb m (startFull pb) ≤ objectiveAtFull w expF logF pb m r := by
  obtain ⟨r, h1, _, h3⟩ := C12_reported_is_ll_of_result w hr hfix expF logF pb m opt (fuel + 1) x f hfin hmem
  refine ⟨r, h1, ?_⟩
  rw [h3]
  -- the first history entry is the start, answered with the objective at the start
  have hfirst := (runOpt_first (wrapperObjective w expF logF pb m)
      (opt (w.start.bind (evalV expF logF pb [])) (w.optLower.bind (evalB expF logF pb true))
        (w.optUpper.bind (evalB expF logF pb false))) fuel []
      (if w.objLog then (projectDownO pb.p0 pb.fixed).map logF else projectDownO pb.p0 pb.fixed)
      (by rw [start_eval w hs]; exact hq _ _ _)).1
  have hin : ((if w.objLog then (projectDownO pb.p0 pb.fixed).map logF else projectDownO pb.p0 pb.fixed),
      (wrapperObjective w expF logF pb m
        (if w.objLog then (projectDownO pb.p0 pb.fixed).map logF else projectDownO pb.p0 pb.fixed)).1) ∈
      (runWrapper w expF logF pb m opt (fuel + 1)).run.history := by
    simp only [runWrapper]
    exact List.mem_of_mem_head? hfirst
  have hle := hmax _ hin
  simp only at hle
  rw [← C12_objective_at_full w hfix, untr_start w expF logF hexp _ hpos] at hle
  exact hle

/-! ## the clause tests executed on every recorded trace mean what the theorems say -/

/-- `checkTrace`'s box test (tolerance 0) is the pointwise box `InBoxP` of `C12_no_oob_eval` -/
theorem C12_checked_box (pb : Problem) (v : List ℚ) : inBox 0 pb v = true ↔ InBoxP pb.lower pb.upper v :=
  inBox_zero_iff pb v

/-- `checkTrace`'s fixed-value test is the statement of `C12_fixed_const` / `C12_fixed_result` (plus: full length) -/
theorem C12_checked_fixed (fx : Fixed) (v : List ℚ) :
    fixedOk (some fx) v = true ↔ v.length = fx.length ∧ ∀ (j : ℕ) (c : ℚ), fx[j]? = some (some c) → v[j]? = some c :=
  fixedOk_iff fx v

/-! ## `Misc.perturb_params` -/

/-- **perturbed starting points stay within the bounds** — for every draw, every entry, every sign of the bounds, every box
    however narrow (`lb ≤ ub`), absent bounds included.  FALSE on the current tree for a box narrower than the two 1 % margins
    (`ub - 0.01|ub| < lb`: the second clamp pushes the value below the lower bound); before the owner's fix 9e42d50 also for
    negative bounds (`1.01*lb < lb`, F-12d). -/
theorem C12_perturb (p : ℚ) (lb ub : Option ℚ) (h : ∀ l u, lb = some l → ub = some u → l ≤ u) :
    (∀ l, lb = some l → l ≤ perturbEntry perturbSteps p lb ub) ∧ (∀ u, ub = some u → perturbEntry perturbSteps p lb ub ≤ u) := by
  cases lb with
  | none =>
    cases ub with
    | none => simp
    | some u =>
      simp [perturbEntry, perturbSteps, ratMax, ratMin, ratAbs]
      try (split_ifs <;> nlinarith)
  | some l =>
    cases ub with
    | none =>
      simp [perturbEntry, perturbSteps, ratMax, ratMin, ratAbs]
      try (split_ifs <;> nlinarith)
    | some u =>
      have hlu := h l u rfl rfl
      simp [perturbEntry, perturbSteps, ratMax, ratMin, ratAbs]
      try (constructor <;> split_ifs <;> nlinarith)

/-- what holds on the current tree as well: any sign of the bounds, a box at least as wide as the two 1 % margins -/
theorem C12_perturb_partial (p l u : ℚ) (hwide : l + 1 / 100 * ratAbs l ≤ u - 1 / 100 * ratAbs u) :
    l ≤ perturbEntry perturbSteps p (some l) (some u) ∧ perturbEntry perturbSteps p (some l) (some u) ≤ u := by
  simp only [ratAbs] at hwide
  simp [perturbEntry, perturbSteps, ratMax, ratMin, ratAbs]
  constructor <;> split_ifs at hwide ⊢ <;> nlinarith

example : (-4 : ℚ) + 1 / 100 * ratAbs (-4) ≤ -1 - 1 / 100 * ratAbs (-1) := by norm_num [ratAbs]

/-- `perturb_params` does not write into the bound lists of its caller (was FALSE before the owner's fix 9e42d50, F-20b) -/
theorem C12_perturb_pure : perturbMutatesBounds = false := by decide

/-- `None` entries of the bound lists are turned into ∓inf before use; the draw has the documented shape -/
theorem C12_perturb_shape : perturbNoneIsInf = true ∧ perturbDrawShapeOk = true := by decide

end DadiVerif
