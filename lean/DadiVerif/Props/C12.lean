import DadiVerif.Lemmas.OptimGrid
import DadiVerif.Lemmas.OptimReal
/-!
# C12 — optimisers honour bounds and fixed parameters and report the point they found

Property theorems only (helper lemmas: `Lemmas/Optim.lean`).  They are about the definitions the driver executes:
`projectDown/projectUp`, `objectFunc`, `evalV/evalB`, `wrapperObjective`, `runOpt`, `runWrapper` (through their element-typed forms
`projectUpT`, `objectFuncT`, `runWrapperT`, which `C12_up_dtype` / `C12_objective_dtype` / `C12_run_dtype` prove equal), `objectiveAtFull`,
`perturbEntry` (Model/Optim.lean) and the GENERATED `lowerViolated … objReturn`, `downKeeps`, `upTakesFree`, `upOutDtype`, `wrappers`,
`perturbSteps`, `perturbMutatesBounds`, shape flags (Generated/Optim.lean, rewritten from dadi/Inference.py,
dadi/NLopt_mod.py, dadi/Misc.py on every run).

An optimiser is an ARBITRARY `Opt` (start, bounds ↦ a strategy mapping the history of (query, value) pairs to the next
query or to its answer) run with arbitrary fuel: nothing is assumed about scipy / NLopt except where a hypothesis says so
(`hq`: a local optimiser evaluates its start first; `hmem`: it answers with a point it evaluated and the value it got there;
`hmax`: a maximiser's answer is the best value it saw).  `numpy.exp/log` are arbitrary functions with `expF (logF x) = x`
for `x > 0` where needed.

Statements that depend on what the source currently says are split in two: a semantic theorem about EVERY wrapper row with a
decidable well-formedness flag (`startOk`, `resultOk`, …), and a `decide` over the complete generated table that every row
of the current source has the flag.  On the pinned tree `C12_start_table` (optimize_lbfgsb starts at log(p0), F-12b),
`C12_result_table` (opt(log_opt=True) returns exp(log(p0)), F-12a) and `C12_perturb` (boxes narrower than the 1 % margins) are FALSE
and fail to check; the harness finds the failing calls.  (`C12_perturb_pure` and the negative-bound case of `C12_perturb` were
false until the owner's fix 9e42d50 of `perturb_params`.)
-/
set_option autoImplicit false
namespace DadiVerif
open Optim Gen.Optim

/-! ## projections around fixed parameters are mutually inverse -/

/-- contracting after expanding gives the free vector back (for every pattern of fixed parameters) -/
theorem C12_down_up (fixed : Fixed) (free : List ℚ) (h : free.length = nFree fixed) :
    projectDown (projectUp free fixed) fixed = free :=
  down_up fixed free h

example : projectDown (projectUp [7, 9] [none, some 3, none]) [none, some 3, none] = [7, 9] := by decide

/-- expanding after contracting writes the fixed values over the full vector and changes nothing else … -/
theorem C12_up_down (fixed : Fixed) (full : List ℚ) (h : full.length = fixed.length) :
    projectUp (projectDown full fixed) fixed = overwrite full fixed :=
  up_down fixed full h

/-- … so it is the identity on vectors that carry the fixed values -/
theorem C12_up_down_id (fixed : Fixed) (full : List ℚ) (h : full.length = fixed.length)
    (hag : ∀ (j : ℕ) (v : ℚ), fixed[j]? = some (some v) → full[j]? = some v) :
    projectUp (projectDown full fixed) fixed = full := by
  rw [up_down fixed full h]
  apply List.ext_getElem?
  intro j
  simp only [overwrite, List.getElem?_zipWith]
  cases hp : full[j]? with
  | none => simp
  | some p =>
    cases hf : fixed[j]? with
    | none =>
      have h1 := (List.getElem?_eq_some_iff.mp hp).1
      have h2 := List.getElem?_eq_none_iff.mp hf
      omega
    | some f =>
      cases f with
      | none => simp
      | some v => have := hag j v hf; simp_all

example : projectUp (projectDown [7, 3, 9] [none, some 3, none]) [none, some 3, none] = [7, 3, 9] := by decide

/-- expanding puts every fixed value at its own position, whatever the free vector -/
theorem C12_up_fixed (fixed : Fixed) (free : List ℚ) (j : ℕ) (v : ℚ) (h : fixed[j]? = some (some v)) :
    (projectUp free fixed)[j]? = some v :=
  up_fixed fixed free j v h

theorem C12_up_length (fixed : Fixed) (free : List ℚ) : (projectUp free fixed).length = fixed.length :=
  up_length fixed free

/-! ## … whatever the element type of the vectors (integer arrays, lists of ints, int scalars, float arrays)

`projectUpT dt` / `objectFuncT dt` / `runWrapperT dp dq da` are what the driver executes: `_project_params_up` ALLOCATES its output
(`upOutDtype`, generated from the allocation statement, gives the element type of that array as a function of the element type numpy
infers for the reduced vector) and STORES the free and the fixed values into it.  The theorems say that nothing is lost in the store,
so that every statement of this file about `projectUp` / `objectFunc` / `runWrapper` holds for integer-typed inputs too.  They fail to
check when the output inherits an integer element type (e.g. `numpy.empty_like(pin, shape=…)`): `DType.int.store (1/4) = 0`. -/

/-- the array `_project_params_up` allocates for its output keeps every value stored into it exactly, whatever the element type of
    the reduced vector (read off the allocation statement of the current source: `upOutDtype`) -/
theorem C12_up_store (dt : DType) (x : ℚ) : (upOutDtype dt).store x = x := by
  cases dt <;> simp [upOutDtype, DType.store]

/-- … so the typed projection is `projectUp`, for every element type of the reduced vector -/
theorem C12_up_dtype (dt : DType) (free : List ℚ) (fixed : Fixed) : projectUpT dt free fixed = projectUp free fixed :=
  projectUpT_eq C12_up_store dt free fixed

/-- expand ∘ contract is the identity on INTEGER vectors carrying non-integer fixed values, too -/
theorem C12_up_down_id_typed (dt : DType) (fixed : Fixed) (full : List ℚ) (h : full.length = fixed.length)
    (hag : ∀ (j : ℕ) (v : ℚ), fixed[j]? = some (some v) → full[j]? = some v) :
    projectUpT dt (projectDown full fixed) fixed = full := by
  rw [C12_up_dtype]; exact C12_up_down_id fixed full h hag

/-- contract ∘ expand likewise -/
theorem C12_down_up_typed (dt : DType) (fixed : Fixed) (free : List ℚ) (h : free.length = nFree fixed) :
    projectDown (projectUpT dt free fixed) fixed = free := by
  rw [C12_up_dtype]; exact C12_down_up fixed free h

/-- non-vacuity: an integer reduced vector next to a fixed value that is not an integer; and what an integer-typed output would do to it -/
example : projectUpT .int (projectDown [3, 1/2, 2] [none, some (1/2), none]) [none, some (1/2), none] = [3, 1/2, 2] := by decide +kernel
example : DType.int.store (1/4) = 0 ∧ DType.int.store (-3/2) = -1 ∧ DType.int.store 7 = 7 ∧ DType.float.store (1/4) = 1/4 := by decide +kernel

/-- `_object_func` on a parameter vector of any element type (a grid written with integers hands over integer arrays) -/
theorem C12_objective_dtype (dt : DType) (lower upper : Option Bounds) (fixed : Option Fixed) (s : ℚ) (m : ModelFn) (params : List ℚ) :
    objectFuncT dt lower upper fixed s m params = objectFunc lower upper fixed s m params :=
  objectFuncT_eq C12_up_store dt lower upper fixed s m params

/-- a whole wrapper run, whatever the element types of the caller's `p0`, of the optimiser's queries and of its answer -/
theorem C12_run_dtype (dp dq da : DType) (w : Wrapper) (expF logF : ℚ → ℚ) (pb : Problem) (m : ModelFn) (opt : Opt) (fuel : ℕ) :
    runWrapperT dp dq da w expF logF pb m opt fuel = runWrapper w expF logF pb m opt fuel :=
  runWrapperT_eq C12_up_store dp dq da w expF logF pb m opt fuel

/-! ## `_object_func`: bound check before the model, sentinel outside -/

/-- the model function is called only inside the box, and exactly at the vector with the fixed values folded in -/
theorem C12_objective_eval (lower upper : Option Bounds) (fixed : Option Fixed) (s : ℚ) (m : ModelFn) (params pu : List ℚ)
    (h : (objectFunc lower upper fixed s m params).2 = some pu) :
    pu = projectUpO params fixed ∧ InBoxP lower upper pu :=
  objectFunc_eval lower upper fixed s m params pu h

/-- outside the box the model is not called and `1e8/ll_scale` is returned -/
theorem C12_objective_outside (lower upper : Option Bounds) (fixed : Option Fixed) (s : ℚ) (m : ModelFn) (params : List ℚ)
    (h : ¬ InBoxP lower upper (projectUpO params fixed)) :
    objectFunc lower upper fixed s m params = (100000000 / s, none) :=
  objectFunc_outside lower upper fixed s m params h

/-- inside: `-ll/ll_scale` at the folded-in point (`-1e8` standing in for a NaN likelihood) -/
theorem C12_objective_inside (lower upper : Option Bounds) (fixed : Option Fixed) (s : ℚ) (m : ModelFn) (params : List ℚ)
    (h : InBoxP lower upper (projectUpO params fixed)) :
    objectFunc lower upper fixed s m params =
      (- ((m (projectUpO params fixed)).getD (-100000000)) / s, some (projectUpO params fixed)) := by
  rw [objectFunc_inside lower upper fixed s m params h]
  simp [objReturn, nanResult, outOfBoundsVal]

example : objectFunc (some [some 1, none]) (some [some 5, some 2]) (some [none, some 2]) 1 (fun _ => some (-3)) [4] = (3, some [4, 2]) := by
  norm_num [objectFunc, projectUpO, projectUp, upTakesFree, anyViolated, lowerViolated, upperViolated, objReturn]
example : (objectFunc (some [some 1, none]) (some [some 5, some 2]) (some [none, some 2]) 10 (fun _ => some (-3)) [6]) = (10000000, none) := by
  norm_num [objectFunc, projectUpO, projectUp, upTakesFree, anyViolated, lowerViolated, upperViolated, oobReturnUpper, outOfBoundsVal]

/-- the statement order the model assumes (fixed values folded in first, both bound loops before the model call, the model
    called with the folded-in vector, NaN guard after the likelihood; the `func_kwargs` dict is COPIED before `pts` is written into it
    and no caller-owned argument is written to, so nothing leaks from one call into the next through the shared mutable
    defaults), the shape of `_object_func_log` and of the projection loops, as found in the current source -/
theorem C12_source_shape :
    objectFuncShapeOk = true ∧ objectFuncLogShapeOk = true ∧ projectShapeOk = true ∧ optReexported = true := by decide

/-! ## wrappers around an arbitrary optimiser -/

theorem C12_wrappers_present :
    ∀ n ∈ ["optimize", "optimize_log", "optimize_lbfgsb", "optimize_log_lbfgsb", "optimize_log_fmin", "optimize_log_powell",
           "optimize_cons", "optimize_grid", "opt[log_opt=False]", "opt[log_opt=True]"], n ∈ wrappers.map (·.name) := by decide

private theorem toOpt_ofOpt (x : Option ℚ) : BV.toOpt (BV.ofOpt x) = x := by cases x <;> rfl

private theorem evalBObj_lower (expF logF : ℚ → ℚ) (pb : Problem) (b : Bool) : evalBObj expF logF pb b .lower = pb.lower := by
  cases h : pb.lower <;> simp [evalBObj, evalB, h, Function.comp_def, toOpt_ofOpt]

private theorem evalBObj_upper (expF logF : ℚ → ℚ) (pb : Problem) (b : Bool) : evalBObj expF logF pb b .upper = pb.upper := by
  cases h : pb.upper <;> simp [evalBObj, evalB, h, Function.comp_def, toOpt_ofOpt]


/-- in the current source: every wrapper passes `fixed_params` on; its objective bounds are the caller's or `None`; and every
    wrapper that gives its optimiser NO bounds (and is not the grid search, which has no bounds argument) has
    `_object_func` test the caller's bounds -/
theorem C12_bounds_table : ∀ w ∈ wrappers, w.objFixed = true ∧ w.objBoundsOk = true ∧
    (w.optLower = none → w.optimizer ≠ "scipy.optimize.brute" → w.objLower = some .lower ∧ w.objUpper = some .upper) := by decide

/-- in the current source the bounds a wrapper hands to its optimiser have been contracted with `_project_params_down`, like
    the start vector they belong to -/
theorem C12_optbounds_table : ∀ w ∈ wrappers,
    (w.optLower.map VE.isProjected).getD true = true ∧ (w.optUpper.map VE.isProjected).getD true = true := by decide

/-- in the current source a wrapper negates `_object_func` exactly when it asks its optimiser to MAXIMISE: every optimiser
    maximises the likelihood (`objectiveAtFull` is `-ll/ll_scale` for the minimisers and `ll` for `opt`) -/
theorem C12_sign_table : ∀ w ∈ wrappers, w.negated = w.maximize := by decide

/-- **every wrapper forwards each of its own options to the parameter of the same name** — the arguments of each wrapper's call of
    `_object_func` (the positional `args=(…)` tuple of the scipy wrappers, the keywords of the closure in `NLopt_mod.opt`) bound against
    `_object_func`'s own signature as found in the source: one call per wrapper row; only parameters `_object_func` has, none twice, the
    required ones given; an own option that `_object_func` also has (`multinom`, `flush_delay`, `verbose`, `fixed_params`, `ll_scale`, …) is
    never handed to a parameter of another name and is handed to the one of its own name (the two bound lists may be withheld when
    the optimiser gets them); and the model row takes `fixed_params` / `ll_scale` / the bounds from the binding BY NAME.
    (Seed C12-7 — `multinom` and `flush_delay` swapped in one tuple — changes one `binding` and this theorem fails.) -/
theorem C12_objective_args_table :
    wrappers.map (·.name) = objCalls.map (·.wrapper) ∧
    (∀ c ∈ objCalls, c.forwardsOk objectFuncParams objectFuncRequired = true) ∧
    (∀ wc ∈ wrappers.zip objCalls, rowMatchesCall wc.1 wc.2 = true) := by decide +kernel

/-- non-vacuity: the flag rejects a swapped pair and a dropped option -/
example : ObjCall.forwardsOk ["a", "b", "c"] ["a"] ⟨"w", ["a", "b", "c", "z"], [("a", "a"), ("b", "b"), ("c", "c")]⟩ = true ∧
          ObjCall.forwardsOk ["a", "b", "c"] ["a"] ⟨"w", ["a", "b", "c", "z"], [("a", "a"), ("b", "c"), ("c", "b")]⟩ = false ∧
          ObjCall.forwardsOk ["a", "b", "c"] ["a"] ⟨"w", ["a", "b", "c", "z"], [("a", "a"), ("b", "b")]⟩ = false := by decide +kernel

/-- **never evaluated outside the bounds** — for every wrapper that hands the caller's bounds to `_object_func`, every
    optimiser behaviour, every fuel: each point at which the model function is called lies inside the caller's box -/
theorem C12_no_oob_eval (w : Wrapper) (hlo : w.objLower = some .lower) (hup : w.objUpper = some .upper)
    (expF logF : ℚ → ℚ) (pb : Problem) (m : ModelFn) (opt : Opt) (fuel : ℕ) :
    ∀ e ∈ (runWrapper w expF logF pb m opt fuel).run.evals, InBoxP pb.lower pb.upper e := by
  simp only [runWrapper]
  apply runOpt_evals _ _ (InBoxP pb.lower pb.upper)
  intro x e he
  simp only [wrapperObjective, hlo, hup, Option.bind_some, evalBObj_lower, evalBObj_upper] at he
  exact (objectFunc_eval _ _ _ _ _ _ _ he).2

/-- for the wrappers that leave the bounds to the optimiser (L-BFGS-B, SLSQP, NLopt): in log parameterisation a query inside
    the log-box is evaluated inside the box (`exp` monotone, `exp ∘ log = id` on positives) -/
theorem C12_log_box (expF logF : ℚ → ℚ) (hmono : ∀ a b, a ≤ b → expF a ≤ expF b) (hexp : ∀ x, 0 < x → expF (logF x) = x)
    (lb ub x : ℚ) (hlb : 0 < lb) (hub : 0 < ub) (h1 : logF lb ≤ x) (h2 : x ≤ logF ub) : lb ≤ expF x ∧ expF x ≤ ub := by
  constructor
  · have := hmono _ _ h1; rwa [hexp lb hlb] at this
  · have := hmono _ _ h2; rwa [hexp ub hub] at this

/-- **fixed parameters**: every evaluation carries every fixed value at its position -/
theorem C12_fixed_const (w : Wrapper) (hfix : w.objFixed = true) (expF logF : ℚ → ℚ) (pb : Problem) (m : ModelFn) (opt : Opt)
    (fuel : ℕ) (fx : Fixed) (hfx : pb.fixed = some fx) :
    ∀ e ∈ (runWrapper w expF logF pb m opt fuel).run.evals, ∀ (j : ℕ) (v : ℚ), fx[j]? = some (some v) → e[j]? = some v := by
  simp only [runWrapper]
  apply runOpt_evals _ _ (fun e => ∀ (j : ℕ) (v : ℚ), fx[j]? = some (some v) → e[j]? = some v)
  intro x e he j v hj
  simp only [wrapperObjective, hfix, if_true] at he
  have := (objectFunc_eval _ _ _ _ _ _ _ he).1
  rw [this, hfx]
  exact up_fixed fx _ j v hj


theorem C12_result_up_table : ∀ w ∈ wrappers, w.resultIsUp = true := by decide

/-- a result assembled by `_project_params_up` LAST carries every fixed value, whatever the optimiser answered -/
theorem fixed_result_of_up (w : Wrapper) (hup : w.resultIsUp = true) (expF logF : ℚ → ℚ) (pb : Problem) (m : ModelFn) (opt : Opt)
    (fuel : ℕ) (fx : Fixed) (hfx : pb.fixed = some fx) (r : List ℚ)
    (hr : (runWrapper w expF logF pb m opt fuel).result = some r) :
    ∀ (j : ℕ) (v : ℚ), fx[j]? = some (some v) → r[j]? = some v := by
  intro j v hj
  simp only [runWrapper] at hr
  cases hfin : (runOpt (wrapperObjective w expF logF pb m)
      (opt (w.start.bind (evalV expF logF pb [])) (w.optLower.bind (evalB expF logF pb true))
        (w.optUpper.bind (evalB expF logF pb false))) fuel []).final with
  | none => simp [hfin] at hr
  | some xf =>
    simp only [hfin, Option.bind_some] at hr
    cases hres : w.result with
    | up e =>
      simp only [hres, evalV, hfx, projectUpO] at hr
      cases he : evalV expF logF pb xf.1 e with
      | none => simp [he] at hr
      | some u =>
        simp only [he, Option.map_some, Option.some.injEq] at hr
        rw [← hr]; exact up_fixed fx u j v hj
    | _ => simp [Wrapper.resultIsUp, hres] at hup

/-- **returns fixed parameters unchanged** — every wrapper of the current source, every optimiser behaviour, every fuel: the returned
    vector carries every fixed value at its position.  (The table fact is decided HERE: a wrapper that transforms the vector AFTER
    expanding it — `numpy.exp(_project_params_up(x))`, seed C12-8: the fixed values come back exponentiated — has the result term
    `exp (up xopt)` instead of `up (exp xopt)` and this theorem fails to check.) -/
theorem C12_fixed_result : ∀ w ∈ wrappers, ∀ (expF logF : ℚ → ℚ) (pb : Problem) (m : ModelFn) (opt : Opt) (fuel : ℕ) (fx : Fixed),
    pb.fixed = some fx → ∀ r, (runWrapper w expF logF pb m opt fuel).result = some r →
    ∀ (j : ℕ) (v : ℚ), fx[j]? = some (some v) → r[j]? = some v := by
  intro w hw expF logF pb m opt fuel fx hfx r hr
  exact fixed_result_of_up w ((by decide : ∀ w ∈ wrappers, w.resultIsUp = true) w hw) expF logF pb m opt fuel fx hfx r hr

/-- non-vacuity, and what the other order does: expanding last keeps the fixed value 1/4; transforming after expanding does not -/
example : evalV (fun x => 2 * x) (fun x => x / 2) ⟨[1, 1], none, none, some [none, some (1/4)], 1⟩ [3] (.up (.exp .xopt)) = some [6, 1/4] ∧
          evalV (fun x => 2 * x) (fun x => x / 2) ⟨[1, 1], none, none, some [none, some (1/4)], 1⟩ [3] (.exp (.up .xopt)) = some [6, 1/2] := by
  decide +kernel

/-! ### first evaluation = the user's start -/


/-- every wrapper of the current source that has a start vector hands over the right one (FALSE on the pinned tree:
    `optimize_lbfgsb` passes `numpy.log(p0)` to an objective in natural parameters, F-12b) -/
theorem C12_start_table : ∀ w ∈ wrappers, w.start.isSome = true → w.startOk = true := by decide

private theorem untr_start (w : Wrapper) (expF logF : ℚ → ℚ) (hexp : ∀ x, 0 < x → expF (logF x) = x) (l : List ℚ)
    (hpos : w.objLog = true → ∀ x ∈ l, 0 < x) :
    (if w.objLog then (if w.objLog then l.map logF else l).map expF else (if w.objLog then l.map logF else l)) = l := by
  cases h : w.objLog with
  | false => simp
  | true =>
    simp only [if_true, List.map_map]
    conv_rhs => rw [← List.map_id l]
    apply List.map_congr_left
    intro x hx
    simp [Function.comp, hexp x (hpos h x hx)]

private theorem inBox_objBounds (w : Wrapper) (hb : w.objBoundsOk = true) (expF logF : ℚ → ℚ) (pb : Problem) (v : List ℚ)
    (hin : InBoxP pb.lower pb.upper v) :
    InBoxP (w.objLower.bind (evalBObj expF logF pb true)) (w.objUpper.bind (evalBObj expF logF pb false)) v := by
  simp only [Wrapper.objBoundsOk, Bool.and_eq_true, Bool.or_eq_true, beq_iff_eq] at hb
  obtain ⟨hl, hu⟩ := hb
  constructor
  · rcases hl with hl | hl
    · rw [hl]; intro bs hbs; simp at hbs
    · rw [hl]; simpa [evalBObj_lower] using hin.1
  · rcases hu with hu | hu
    · rw [hu]; intro bs hbs; simp at hbs
    · rw [hu]; simpa [evalBObj_upper] using hin.2

private theorem start_eval (w : Wrapper) (hs : w.startOk = true) :
    ∀ (expF logF : ℚ → ℚ) (pb : Problem),
    w.start.bind (evalV expF logF pb []) =
      some (if w.objLog then (projectDownO pb.p0 pb.fixed).map logF else projectDownO pb.p0 pb.fixed) := by
  intro expF logF pb
  simp only [Wrapper.startOk, beq_iff_eq] at hs
  rw [hs]
  cases h : w.objLog <;> simp [evalV]

/-- **the first evaluation is the user's starting point** — for every wrapper row with a well-formed start, every optimiser
    that queries its start first (`hq`), a start inside the box, positive free start values in log parameterisation:
    the first point at which the model function is called is `p0` with the fixed values written over it -/
theorem C12_first_eval (w : Wrapper) (hs : w.startOk = true) (hfix : w.objFixed = true) (hb : w.objBoundsOk = true)
    (expF logF : ℚ → ℚ) (hexp : ∀ x, 0 < x → expF (logF x) = x) (pb : Problem) (m : ModelFn)
    (hpos : w.objLog = true → ∀ x ∈ projectDownO pb.p0 pb.fixed, 0 < x)
    (hin : InBoxP pb.lower pb.upper (startFull pb))
    (opt : Opt) (hq : ∀ s lo up, opt (some s) lo up [] = .query s) (fuel : ℕ) :
    (runWrapper w expF logF pb m opt (fuel + 1)).run.evals.head? = some (startFull pb) := by
  simp only [runWrapper, start_eval w hs]
  refine (runOpt_first _ _ fuel [] _ (hq _ _ _)).2 _ ?_
  simp only [wrapperObjective, hfix, if_true]
  rw [untr_start w expF logF hexp _ hpos]
  rw [objectFunc_inside _ _ _ _ _ _ (inBox_objBounds w hb expF logF pb _ hin)]
  rfl

/-- the nine optimisers that take a start (`optimize_cons`, `optimize_log_powell`, `optimize_lbfgsb`, `optimize_log_lbfgsb` included) are rows
    of the table, each with a start term of the well-formed shape, `fixed_params` handed on, objective bounds the caller's or absent -/
theorem C12_start_coverage :
    ∀ n ∈ ["optimize", "optimize_log", "optimize_lbfgsb", "optimize_log_lbfgsb", "optimize_log_fmin", "optimize_log_powell",
           "optimize_cons", "opt[log_opt=False]", "opt[log_opt=True]"],
      ∃ w ∈ wrappers, w.name = n ∧ w.start.isSome = true ∧ w.startOk = true ∧ w.objFixed = true ∧ w.objBoundsOk = true := by decide

/-- **the start handed to the optimiser maps back to the user's `p0` on the free coordinates** — for EVERY wrapper row of the current
    source that has a start, the generated start term evaluates (for every problem) to a vector `x0` which is the contracted `p0`
    itself in natural parameterisation (exactly, no hypothesis), and `log` of it in log parameterisation, so that what the objective
    does with it (`exp`) gives the contracted `p0` back wherever `exp ∘ log = id` (positive free start values) -/
theorem C12_start_maps_back : ∀ w ∈ wrappers, ∀ s, w.start = some s → ∀ (expF logF : ℚ → ℚ) (pb : Problem),
    ∃ x0, evalV expF logF pb [] s = some x0 ∧
      (w.objLog = false → x0 = projectDownO pb.p0 pb.fixed) ∧
      (w.objLog = true → x0 = (projectDownO pb.p0 pb.fixed).map logF ∧
        ((∀ x, 0 < x → expF (logF x) = x) → (∀ x ∈ projectDownO pb.p0 pb.fixed, 0 < x) →
          x0.map expF = projectDownO pb.p0 pb.fixed)) := by
  intro w hw s hs expF logF pb
  have hok := C12_start_table w hw (by simp [hs])
  have he := start_eval w hok expF logF pb
  rw [hs, Option.bind_some] at he
  refine ⟨_, he, ?_, ?_⟩
  · intro hl; simp [hl]
  · intro hl
    refine ⟨by simp [hl], ?_⟩
    intro hexp hpos
    have := untr_start w expF logF hexp (projectDownO pb.p0 pb.fixed) (fun _ => hpos)
    simpa [hl] using this

/-- … and over the REAL numbers, with the real `exp` and `log`: for every wrapper row of the current source with a start, the generated start
    term evaluates to a vector that the objective's own transformation (`exp` in log parameterisation, nothing otherwise) maps back to
    the free coordinates of `p0` — exactly, under positivity of the free start values where logs are taken (`Real.exp_log`) -/
theorem C12_start_real : ∀ w ∈ wrappers, w.start.isSome = true → ∀ (p0 : List ℝ) (fixed : Option Fixed),
    (w.objLog = true → ∀ x ∈ projectDownO p0 fixed, 0 < x) →
    ∃ x0, w.start.bind (evalVR p0 fixed) = some x0 ∧ (if w.objLog then x0.map Real.exp else x0) = projectDownO p0 fixed :=
  fun w hw hs p0 fixed hpos => start_real w (C12_start_table w hw hs) p0 fixed hpos

example : (∃ w ∈ wrappers, w.start.isSome = true ∧ w.objLog = true) ∧ ∀ x ∈ projectDownO [(2 : ℝ), 3] (some [none, some 1]), 0 < x := by
  refine ⟨by decide, ?_⟩
  intro x hx
  simp [projectDownO, projectDown, downKeeps] at hx
  subst hx; norm_num

/-- … and expanding that again is the user's starting point: `p0` on the free coordinates, the fixed values on the others -/
theorem C12_start_free_coords (pb : Problem) (fx : Fixed) (hfx : pb.fixed = some fx) (hlen : pb.p0.length = fx.length) :
    projectDownO (startFull pb) pb.fixed = projectDownO pb.p0 pb.fixed ∧
    ∀ (j : ℕ) (v : ℚ), fx[j]? = some (some v) → (startFull pb)[j]? = some v := by
  simp only [startFull, hfx, projectDownO, projectUpO]
  exact ⟨down_up fx _ (down_length fx pb.p0 hlen), fun j v hj => up_fixed fx _ j v hj⟩

/-- **every local optimiser first evaluates the model at the user's starting point** — for every wrapper row of the current source
    with a start (`C12_start_coverage` lists them), every optimiser that queries its start first (`hq`): the first model evaluation
    is `p0` with the fixed values written over it.  Only hypotheses about the INPUT remain: the start lies in the box, and the free
    start values are positive where the wrapper works in log parameters. -/
theorem C12_first_eval_all : ∀ w ∈ wrappers, w.start.isSome = true →
    ∀ (expF logF : ℚ → ℚ), (∀ x, 0 < x → expF (logF x) = x) → ∀ (pb : Problem) (m : ModelFn),
    (w.objLog = true → ∀ x ∈ projectDownO pb.p0 pb.fixed, 0 < x) → InBoxP pb.lower pb.upper (startFull pb) →
    ∀ (opt : Opt), (∀ s lo up, opt (some s) lo up [] = .query s) → ∀ (fuel : ℕ),
    (runWrapper w expF logF pb m opt (fuel + 1)).run.evals.head? = some (startFull pb) := by
  intro w hw hs expF logF hexp pb m hpos hin opt hq fuel
  have hb := C12_bounds_table w hw
  exact C12_first_eval w (C12_start_table w hw hs) hb.1 hb.2.1 expF logF hexp pb m hpos hin opt hq fuel

example : ∃ w ∈ wrappers, w.name = "optimize_log_lbfgsb" ∧ w.start = some (.log (.down .p0)) := by decide

/-! ### the returned vector and the reported optimum -/


/-- every wrapper of the current source assembles its result from the optimiser's answer (FALSE on the pinned tree:
    `opt(log_opt=True)` returns `exp(log(p0))`, the start, F-12a) -/
theorem C12_result_table : ∀ w ∈ wrappers, w.resultOk = true := by decide

/-- **result assembly** — returned vector = `projectUp (untransform xopt)`, reported value = the optimiser's `fopt` -/
theorem C12_result (w : Wrapper) (hr : w.resultOk = true) (expF logF : ℚ → ℚ) (pb : Problem) (m : ModelFn) (opt : Opt)
    (fuel : ℕ) (x : List ℚ) (f : ℚ) (hfin : (runWrapper w expF logF pb m opt fuel).run.final = some (x, f)) :
    (runWrapper w expF logF pb m opt fuel).result = some (projectUpO (if w.objLog then x.map expF else x) pb.fixed) ∧
    (runWrapper w expF logF pb m opt fuel).reported = some f := by
  simp only [Wrapper.resultOk, Bool.and_eq_true, beq_iff_eq] at hr
  obtain ⟨hres, hrep⟩ := hr
  simp only [runWrapper] at hfin ⊢
  rw [hfin]
  simp only [Option.bind_some, hres, hrep, if_true]
  cases h : w.objLog <;> simp [evalV]

private theorem objectFunc_full (lo up : Option Bounds) (fixed : Option Fixed) (s : ℚ) (m : ModelFn) (params : List ℚ) :
    (objectFunc lo up none s m (projectUpO params fixed)).1 = (objectFunc lo up fixed s m params).1 := by
  have h0 : projectUpO (projectUpO params fixed) none = projectUpO params fixed := rfl
  unfold objectFunc
  simp only [h0]
  first
    | done
    | (split_ifs <;> rfl)

/-- the wrapper's objective at a free vector is its objective at the expanded, un-transformed full vector -/
theorem C12_objective_at_full (w : Wrapper) (hfix : w.objFixed = true) (expF logF : ℚ → ℚ) (pb : Problem) (m : ModelFn)
    (x : List ℚ) :
    objectiveAtFull w expF logF pb m (projectUpO (if w.objLog then x.map expF else x) pb.fixed) =
      (wrapperObjective w expF logF pb m x).1 := by
  simp only [objectiveAtFull, wrapperObjective, hfix, if_true, objectFunc_full]

/-- **the reported optimum is the likelihood of the returned parameters** — if the optimiser answers with a point it
    evaluated and the value it got there (`hmem`), the objective (−ll/ll_scale, or ll for `opt`) recomputed at the
    RETURNED full vector equals the REPORTED value, in natural and in log parameterisation alike -/
theorem C12_reported_is_ll_of_result (w : Wrapper) (hr : w.resultOk = true) (hfix : w.objFixed = true)
    (expF logF : ℚ → ℚ) (pb : Problem) (m : ModelFn) (opt : Opt) (fuel : ℕ) (x : List ℚ) (f : ℚ)
    (hfin : (runWrapper w expF logF pb m opt fuel).run.final = some (x, f))
    (hmem : (x, f) ∈ (runWrapper w expF logF pb m opt fuel).run.history) :
    ∃ r, (runWrapper w expF logF pb m opt fuel).result = some r ∧
         (runWrapper w expF logF pb m opt fuel).reported = some f ∧
         objectiveAtFull w expF logF pb m r = f := by
  obtain ⟨h1, h2⟩ := C12_result w hr expF logF pb m opt fuel x f hfin
  refine ⟨_, h1, h2, ?_⟩
  rw [C12_objective_at_full w hfix]
  simp only [runWrapper] at hmem
  exact (runOpt_history _ _ _ _ _ hmem).symm

/-- **`opt` is no worse than its start** — a maximiser that answers with the best value it saw (`hmax`) and queries its start
    first returns parameters whose objective is at least the objective at the user's starting point -/
theorem C12_no_worse (w : Wrapper) (hs : w.startOk = true) (hr : w.resultOk = true) (hfix : w.objFixed = true)
    (expF logF : ℚ → ℚ) (hexp : ∀ x, 0 < x → expF (logF x) = x) (pb : Problem) (m : ModelFn)
    (hpos : w.objLog = true → ∀ x ∈ projectDownO pb.p0 pb.fixed, 0 < x)
    (opt : Opt) (hq : ∀ s lo up, opt (some s) lo up [] = .query s) (fuel : ℕ) (x : List ℚ) (f : ℚ)
    (hfin : (runWrapper w expF logF pb m opt (fuel + 1)).run.final = some (x, f))
    (hmem : (x, f) ∈ (runWrapper w expF logF pb m opt (fuel + 1)).run.history)
    (hmax : ∀ q ∈ (runWrapper w expF logF pb m opt (fuel + 1)).run.history, q.2 ≤ f) :
    ∃ r, (runWrapper w expF logF pb m opt (fuel + 1)).result = some r ∧
         objectiveAtFull w expF logF pb m (startFull pb) ≤ objectiveAtFull w expF logF pb m r := by
  obtain ⟨r, h1, _, h3⟩ := C12_reported_is_ll_of_result w hr hfix expF logF pb m opt (fuel + 1) x f hfin hmem
  refine ⟨r, h1, ?_⟩
  rw [h3]
  -- the first history entry is the start, answered with the objective at the start
  have hfirst := (runOpt_first (wrapperObjective w expF logF pb m)
      (opt (w.start.bind (evalV expF logF pb [])) (w.optLower.bind (evalB expF logF pb true))
        (w.optUpper.bind (evalB expF logF pb false))) fuel []
      (if w.objLog then (projectDownO pb.p0 pb.fixed).map logF else projectDownO pb.p0 pb.fixed)
      (by rw [start_eval w hs]; exact hq _ _ _)).1
  have hin : ((if w.objLog then (projectDownO pb.p0 pb.fixed).map logF else projectDownO pb.p0 pb.fixed),
      (wrapperObjective w expF logF pb m
        (if w.objLog then (projectDownO pb.p0 pb.fixed).map logF else projectDownO pb.p0 pb.fixed)).1) ∈
      (runWrapper w expF logF pb m opt (fuel + 1)).run.history := by
    simp only [runWrapper]
    exact List.mem_of_mem_head? hfirst
  have hle := hmax _ hin
  simp only at hle
  rw [← C12_objective_at_full w hfix, untr_start w expF logF hexp _ hpos] at hle
  exact hle

/-! ## the clause tests executed on every recorded trace mean what the theorems say -/

/-- `checkTrace`'s box test (tolerance 0) is the pointwise box `InBoxP` of `C12_no_oob_eval` -/
theorem C12_checked_box (pb : Problem) (v : List ℚ) : inBox 0 pb v = true ↔ InBoxP pb.lower pb.upper v :=
  inBox_zero_iff pb v

/-- `checkTrace`'s fixed-value test is the statement of `C12_fixed_const` / `C12_fixed_result` (plus: full length) -/
theorem C12_checked_fixed (fx : Fixed) (v : List ℚ) :
    fixedOk (some fx) v = true ↔ v.length = fx.length ∧ ∀ (j : ℕ) (c : ℚ), fx[j]? = some (some c) → v[j]? = some c :=
  fixedOk_iff fx v

/-! ## `Misc.perturb_params` -/

/-- **perturbed starting points stay within the bounds** — for every draw, every entry, every sign of the bounds, every box
    however narrow (`lb ≤ ub`), absent bounds included.  FALSE on the current tree for a box narrower than the two 1 % margins
    (`ub - 0.01|ub| < lb`: the second clamp pushes the value below the lower bound); before the owner's fix 9e42d50 also for
    negative bounds (`1.01*lb < lb`, F-12d). -/
theorem C12_perturb_entry (p : ℚ) (lb ub : Option ℚ) (h : ∀ l u, lb = some l → ub = some u → l ≤ u) :
    (∀ l, lb = some l → l ≤ perturbEntry perturbSteps p lb ub) ∧ (∀ u, ub = some u → perturbEntry perturbSteps p lb ub ≤ u) := by
  cases lb with
  | none =>
    cases ub with
    | none => simp
    | some u =>
      simp [perturbEntry, perturbSteps, ratMax, ratMin, ratAbs]
      try (split_ifs <;> nlinarith)
  | some l =>
    cases ub with
    | none =>
      simp [perturbEntry, perturbSteps, ratMax, ratMin, ratAbs]
      try (split_ifs <;> nlinarith)
    | some u =>
      have hlu := h l u rfl rfl
      simp [perturbEntry, perturbSteps, ratMax, ratMin, ratAbs]
      try (constructor <;> split_ifs <;> nlinarith)

/-- what holds on the current tree as well: any sign of the bounds, a box at least as wide as the two 1 % margins -/
theorem C12_perturb_partial (p l u : ℚ) (hwide : l + 1 / 100 * ratAbs l ≤ u - 1 / 100 * ratAbs u) :
    l ≤ perturbEntry perturbSteps p (some l) (some u) ∧ perturbEntry perturbSteps p (some l) (some u) ≤ u := by
  simp only [ratAbs] at hwide
  simp [perturbEntry, perturbSteps, ratMax, ratMin, ratAbs]
  constructor <;> split_ifs at hwide ⊢ <;> nlinarith

example : (-4 : ℚ) + 1 / 100 * ratAbs (-4) ≤ -1 - 1 / 100 * ratAbs (-1) := by norm_num [ratAbs]

/-- `perturb_params` does not write into the bound lists of its caller (was FALSE before the owner's fix 9e42d50, F-20b) -/
theorem C12_perturb_pure : perturbMutatesBounds = false := by decide

/-- `None` entries of the bound lists are turned into ∓inf before use; the draw has the documented shape -/
theorem C12_perturb_shape : perturbNoneIsInf = true ∧ perturbDrawShapeOk = true := by decide

/-- **perturbed starting points stay within the bounds — the whole call, every `fold`**: `perturbFold` is what the driver runs (the draw
    `params * 2**(<generated exponent of fold and u>)`, then the generated clamp statements on every entry).  For every `fold`, every
    vector of uniform variates, every function standing for `2**·`, every parameter vector, bound lists absent (`None`), with `None`
    entries, negative, zero or positive, boxes however narrow (`lb ≤ ub` where both are present): every returned entry lies in its box. -/
theorem C12_perturb (pow2 : ℚ → ℚ) (params us : List ℚ) (fold : ℚ) (lower upper : Option Bounds)
    (hbox : ∀ i l u, optAt lower i = some l → optAt upper i = some u → l ≤ u) (i : ℕ) (v : ℚ)
    (hv : (perturbFold pow2 params fold us lower upper)[i]? = some v) :
    (∀ l, optAt lower i = some l → l ≤ v) ∧ (∀ u, optAt upper i = some u → v ≤ u) := by
  obtain ⟨p, rfl⟩ := perturb_getElem? _ _ _ _ i v hv
  exact C12_perturb_entry p _ _ (hbox i)

/-- one value per parameter comes back -/
theorem C12_perturb_length (pow2 : ℚ → ℚ) (params us : List ℚ) (fold : ℚ) (lower upper : Option Bounds) (h : us.length = params.length) :
    (perturbFold pow2 params fold us lower upper).length = params.length := by
  simp [perturbFold, perturb, h]

/-- the exponent of 2 in the draw (generated from the source) stays within ±fold for a variate in [0, 1]: every entry is scaled by a
    factor between 2^-fold and 2^fold before the clamps -/
theorem C12_perturb_factor (fold u : ℚ) (hf : 0 ≤ fold) (h0 : 0 ≤ u) (h1 : u ≤ 1) :
    -fold ≤ perturbExponent fold u ∧ perturbExponent fold u ≤ fold := by
  simp only [perturbExponent]
  constructor <;> nlinarith

/-- non-vacuity: `None` list, `None` entry, negative bounds, a box narrower than the two 1 % margins, fold = 3 -/
example : perturbFold (fun x => 1 + x * x) [2, -3, 1, 5] 3 [1/4, 3/4, 1/2, 0] none (some [some 4, some (-2), none, some 6])
            = [4 * 99 / 100, -3 * (1 + 9/4), 1, 6 * 99 / 100] := by decide +kernel
example : perturbFold (fun x => 1 + x * x) [1, -7] 3 [1, 0] (some [some (999/1000), some (-5)]) (some [some (1004/1000), some (-4)])
            = [999/1000, -99/20] := by decide +kernel

/-! ## `numpy.clip` in a result term -/

/-- what `numpy.clip(x, lo, hi)` does to one entry: the result lies in `[lo, hi]`, and an entry already inside is unchanged — so a
    clip against the box the optimiser was given changes nothing when the optimiser answers inside it, and a clip of a
    natural-scale vector against LOG-transformed bounds (seed C12-5) is visible in the generated result term -/
theorem C12_clip (x l u : ℚ) (hlu : l ≤ u) :
    (∀ y, clipEntry x (.val l) (.val u) = some y → l ≤ y ∧ y ≤ u) ∧ (l ≤ x → x ≤ u → clipEntry x (.val l) (.val u) = some x) :=
  ⟨fun y h => clipEntry_box x l u y hlu h, clipEntry_inside x l u⟩

example : clipVec [1, 5, 3] (some [.val 2, .absent, .val 0]) (some [.val 4, .val 4, .absent]) = some [2, 4, 3] := by decide +kernel

/-! ## grid search: nothing is assumed, `scipy.optimize.brute` is the enumeration `bruteOpt`

`runGrid w … sl` (Model/Optim.lean) = the generated `optimize_grid` row around `bruteOpt (gridPoints sl)`: the grid is built from the
slices as `numpy.mgrid` builds it, visited in C order (last axis fastest), the answer is the FIRST point with the smallest objective
value.  The driver runs `runGridT` (element types: integer queries for a grid written with integers) on the caller's slices and K
compares the order of the evaluations, every value, the answer and the returned pair with the real `optimize_grid`. -/

/-- the grid-search row of the current source: no start, no bounds handed anywhere, natural parameters, `fixed_params` passed on,
    result = `_project_params_up(xopt)`, second value = brute's optimum -/
theorem C12_grid_table : ∀ w ∈ wrappers, w.optimizer = "scipy.optimize.brute" → w.gridOk = true := by decide

/-- element types do not matter -/
theorem C12_grid_dtype (w : Wrapper) (expF logF : ℚ → ℚ) (pb : Problem) (m : ModelFn) (sl : List GridSlice) :
    runGridT w expF logF pb m sl = runGrid w expF logF pb m sl :=
  C12_run_dtype _ _ _ w expF logF pb m _ _

/-- **the model is evaluated exactly on the grid** — at every point of the product of the axes, in product order, each with the fixed
    values folded in, and nowhere else -/
theorem C12_grid_evals (w : Wrapper) (hg : w.gridOk = true) (expF logF : ℚ → ℚ) (pb : Problem) (m : ModelFn) (sl : List GridSlice) :
    (runGrid w expF logF pb m sl).run.evals = (gridPoints sl).map (projectUpO · pb.fixed) := by
  simp only [runGrid, runWrapper, runOpt_brute_all, wrapperObjective_grid w hg, Option.toList]
  induction gridPoints sl with
  | nil => rfl
  | cons q qs ih => rw [List.flatMap_cons, ih]; rfl

/-- **never outside the bounds** — the bounds of a grid search are its ranges: the free coordinates of every model evaluation lie in the
    ranges of their slices (`a:b:mj` in [a, b], `a:b:s` in [a, b)), the other coordinates are the fixed values -/
theorem C12_grid_in_range (w : Wrapper) (hg : w.gridOk = true) (expF logF : ℚ → ℚ) (pb : Problem) (m : ModelFn) (sl : List GridSlice)
    (hwf : ∀ s ∈ sl, s.WF) (fx : Fixed) (hfx : pb.fixed = some fx) (hn : sl.length = nFree fx) :
    ∀ e ∈ (runGrid w expF logF pb m sl).run.evals,
      List.Forall₂ (fun x s => GridSlice.InRange s x) (projectDown e fx) sl ∧
      ∀ (j : ℕ) (v : ℚ), fx[j]? = some (some v) → e[j]? = some v := by
  intro e he
  rw [C12_grid_evals w hg, List.mem_map] at he
  obtain ⟨q, hq, rfl⟩ := he
  have hq2 := gridPoints_inRange sl hwf q hq
  have hlen : q.length = nFree fx := by rw [← hn, List.Forall₂.length_eq hq2]
  simp only [hfx, projectUpO]
  refine ⟨?_, fun j v hj => up_fixed fx q j v hj⟩
  rw [down_up fx q hlen]
  exact hq2

/-- … and without fixed parameters the evaluation points themselves -/
theorem C12_grid_in_range_free (w : Wrapper) (hg : w.gridOk = true) (expF logF : ℚ → ℚ) (pb : Problem) (m : ModelFn) (sl : List GridSlice)
    (hwf : ∀ s ∈ sl, s.WF) (hfx : pb.fixed = none) :
    ∀ e ∈ (runGrid w expF logF pb m sl).run.evals, List.Forall₂ (fun x s => GridSlice.InRange s x) e sl := by
  intro e he
  rw [C12_grid_evals w hg, List.mem_map] at he
  obtain ⟨q, hq, rfl⟩ := he
  simp only [hfx, projectUpO]
  exact gridPoints_inRange sl hwf q hq

/-- **returns parameters whose likelihood equals the reported optimum, and the best of the grid** — unconditionally (the search is
    modelled, there is no optimiser hypothesis): for every grid with at least one point the run ends with a grid point `q` and its
    own objective value `f`; the returned vector is `q` with the fixed values folded in; the objective recomputed at the RETURNED
    vector is the REPORTED `f`; no grid point has a smaller objective; and every grid point visited BEFORE `q` has a strictly larger one
    (`numpy.argmin`: the first minimum wins a tie) -/
theorem C12_grid_optimum (w : Wrapper) (hg : w.gridOk = true) (expF logF : ℚ → ℚ) (pb : Problem) (m : ModelFn) (sl : List GridSlice)
    (hne : gridPoints sl ≠ []) :
    ∃ q ∈ gridPoints sl, ∃ f,
      (runGrid w expF logF pb m sl).run.final = some (q, f) ∧
      (runGrid w expF logF pb m sl).result = some (projectUpO q pb.fixed) ∧
      (runGrid w expF logF pb m sl).reported = some f ∧
      objectiveAtFull w expF logF pb m (projectUpO q pb.fixed) = f ∧
      (∀ q' ∈ gridPoints sl, f ≤ objectiveAtFull w expF logF pb m (projectUpO q' pb.fixed)) ∧
      ∃ pre post, gridPoints sl = pre ++ q :: post ∧
        ∀ q' ∈ pre, f < objectiveAtFull w expF logF pb m (projectUpO q' pb.fixed) := by
  have hg' := hg
  simp only [Wrapper.gridOk, Bool.and_eq_true, beq_iff_eq, Bool.not_eq_true'] at hg'
  obtain ⟨⟨⟨⟨⟨⟨⟨⟨_, _⟩, _⟩, _⟩, _⟩, hfix⟩, hlog⟩, _⟩, hres⟩ := hg'
  obtain ⟨q, hq, hans, hmin, pre, post, hsplit, hpre⟩ := brute_spec (wrapperObjective w expF logF pb m) (gridPoints sl) hne
  have hfin : (runGrid w expF logF pb m sl).run.final = some (q, (wrapperObjective w expF logF pb m q).1) := by
    simp only [runGrid, runWrapper, runOpt_brute_all, hans]
  have hat : ∀ x, objectiveAtFull w expF logF pb m (projectUpO x pb.fixed) = (wrapperObjective w expF logF pb m x).1 := by
    intro x
    have := C12_objective_at_full w hfix expF logF pb m x
    simpa [hlog] using this
  obtain ⟨h1, h2⟩ := C12_result w hres expF logF pb m _ _ q _ hfin
  simp only [hlog, Bool.false_eq_true, if_false] at h1
  refine ⟨q, hq, _, hfin, h1, h2, hat q, ?_, pre, post, hsplit, ?_⟩
  · intro q' hq'; rw [hat]; exact hmin q' hq'
  · intro q' hq'; rw [hat]; exact hpre q' hq'

/-- non-vacuity of the grid theorems, on the generated row: a 2 × 3 grid (one axis written `0:1:2j`, one `1:4:1` with integers), a fixed
    value in the middle, a likelihood with a tie — the first of the two best points comes back -/
example : (wrappers.find? (·.optimizer == "scipy.optimize.brute")).map (fun w =>
      let r := runGrid w id id ⟨[], none, none, some [none, some (1/2), none], 1⟩ (fun v => some (-(v.getD 2 0 - 2) * (v.getD 2 0 - 2)))
                 [.count 0 1 2, .step 1 4 1 true]
      (r.run.evals, r.result, r.reported)) =
    some ([[0, 1/2, 1], [0, 1/2, 2], [0, 1/2, 3], [1, 1/2, 1], [1, 1/2, 2], [1, 1/2, 3]], some [0, 1/2, 2], some 0) := by decide +kernel

end DadiVerif
