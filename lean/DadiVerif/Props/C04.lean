import DadiVerif.Lemmas.Mass
import DadiVerif.Lemmas.Marginal2
import DadiVerif.Lemmas.Pivots
import DadiVerif.Lemmas.Marginal3
import DadiVerif.Lemmas.Positivity
import DadiVerif.Lemmas.DriverProgram
/-!
# C04 — mass leaves only via fixation/loss; frozen marginals exact; frozen+migration rejected

Statements are about `stepFam`/`stepAxisFn`/`injectFn`/`sweepFn` (the definitions the driver runs, built from
generated coefficient formulas) and about the generated guard expressions of `two_pops…five_pops`.
All grid sizes, all dimensions, all rational parameters, both delj settings.
-/
namespace DadiVerif
open Gen Finset

/-- Mass balance of one line of one kernel sweep, any dimension/axis: the trapezoid mass changes only by
    dt × (absorbing coefficient × new density) — terms that exist only at the two ends of the line. -/
theorem C04_line_mass (xs : Array ℚ) (hg : GridOk xs) (P : AxisParams) (ys : List ℚ) (use : Bool) (eps : ℕ → ℚ)
    (dt : ℚ) (hdt : dt ≠ 0) (φ : ℕ → ℚ)
    (hp : PivotsOk 1 0 ((axisLine xs P ys use eps dt).rows φ)) :
    let L := axisLine xs P ys use eps dt
    ∑ j ∈ range L.N, L.w j * listGetD (L.step φ) j
      = ∑ j ∈ range L.N, L.w j * φ j - dt * ∑ j ∈ range L.N, L.w j * L.bc j * listGetD (L.step φ) j := by
  intro L
  exact stepFam_line_mass (ι := Unit) (fun _ => L) (fun _ => φ) () hdt (weights_ne_zero xs hg P ys use eps dt) hp

/-- …and the absorbing terms are zero unless *all* other populations' frequencies are 0, or all are 1:
    on every other line the trapezoid mass is conserved exactly. -/
theorem C04_noncorner_line_conserved (xs : Array ℚ) (hg : GridOk xs) (P : AxisParams) (ys : List ℚ) (use : Bool)
    (eps : ℕ → ℚ) (dt : ℚ) (hdt : dt ≠ 0) (φ : ℕ → ℚ)
    (h0 : ys.all (· == 0) = false) (h1 : ys.all (· == 1) = false)
    (hp : PivotsOk 1 0 ((axisLine xs P ys use eps dt).rows φ)) :
    let L := axisLine xs P ys use eps dt
    ∑ j ∈ range L.N, L.w j * listGetD (L.step φ) j = ∑ j ∈ range L.N, L.w j * φ j := by
  intro L
  exact stepFam_line_conserved (ι := Unit) (fun _ => L) (fun _ => φ) () hdt
    (weights_ne_zero xs hg P ys use eps dt) hp (axisLine_bc_noncorner xs P ys use eps dt h0 h1)

/-- Frozen / isolated marginals: for ANY set S of lines none of which is an all-zero or all-one line, with ANY
    weights W on the lines (e.g. the trapezoid weights of the other axes, restricted to a fixed interior
    frequency of a frozen population), the weighted mass over S is unchanged by a sweep along the axis.
    (A line on which a frozen population has an interior frequency is never a corner line.) -/
theorem C04_marginal_conserved {ι : Type} (S : Finset ι) (W : ι → ℚ) (xs : Array ℚ) (hg : GridOk xs)
    (P : AxisParams) (coords : ι → List ℚ) (use : Bool) (eps : ι → ℕ → ℚ) (dt : ℚ) (hdt : dt ≠ 0)
    (φ : ι → ℕ → ℚ)
    (hnc : ∀ i ∈ S, (coords i).all (· == 0) = false ∧ (coords i).all (· == 1) = false)
    (hp : ∀ i ∈ S, PivotsOk 1 0 ((axisLine xs P (coords i) use (eps i) dt).rows (φ i))) :
    ∑ i ∈ S, W i * ∑ j ∈ range xs.size,
        (axisLine xs P (coords i) use (eps i) dt).w j
          * stepFam (fun i => axisLine xs P (coords i) use (eps i) dt) φ i j
      = ∑ i ∈ S, W i * ∑ j ∈ range xs.size, (axisLine xs P (coords i) use (eps i) dt).w j * φ i j := by
  refine Finset.sum_congr rfl (fun i hi => ?_)
  congr 1
  exact stepFam_line_conserved (fun i => axisLine xs P (coords i) use (eps i) dt) φ i hdt
    (weights_ne_zero xs hg P (coords i) use (eps i) dt) (hp i hi)
    (axisLine_bc_noncorner xs P (coords i) use (eps i) dt (hnc i hi).1 (hnc i hi).2)

/-- **Total mass of one kernel sweep** (any dimension, any axis; `S` = all lines, `W` = product of the other axes' trapezoid
    weights): the total trapezoid mass changes exactly by −dt × Σ over lines of (weight × absorbing coefficient × new density) —
    and by `C02_bc_corners_only` those coefficients are non-zero only at node 0 of the all-zero line and node N−1 of the all-one
    line, i.e. at the two corners where a variant is lost or fixed everywhere. -/
theorem C04_total_mass_sweep {ι : Type} (S : Finset ι) (W : ι → ℚ) (xs : Array ℚ) (hg : GridOk xs)
    (P : AxisParams) (coords : ι → List ℚ) (use : Bool) (eps : ι → ℕ → ℚ) (dt : ℚ) (hdt : dt ≠ 0) (φ : ι → ℕ → ℚ)
    (hp : ∀ i ∈ S, PivotsOk 1 0 ((axisLine xs P (coords i) use (eps i) dt).rows (φ i))) :
    ∑ i ∈ S, W i * ∑ j ∈ range xs.size, (axisLine xs P (coords i) use (eps i) dt).w j
          * stepFam (fun i => axisLine xs P (coords i) use (eps i) dt) φ i j
      = ∑ i ∈ S, W i * ∑ j ∈ range xs.size, (axisLine xs P (coords i) use (eps i) dt).w j * φ i j
        - dt * ∑ i ∈ S, W i * ∑ j ∈ range xs.size,
            (axisLine xs P (coords i) use (eps i) dt).w j * (axisLine xs P (coords i) use (eps i) dt).bc j
              * stepFam (fun i => axisLine xs P (coords i) use (eps i) dt) φ i j := by
  rw [Finset.mul_sum, ← Finset.sum_sub_distrib]
  refine Finset.sum_congr rfl (fun i hi => ?_)
  have h := stepFam_line_mass (fun i => axisLine xs P (coords i) use (eps i) dt) φ i hdt
    (weights_ne_zero xs hg P (coords i) use (eps i) dt) (hp i hi)
  simp only [axisLine_N, axisLine_dt] at h
  rw [h]; ring

/-- a line on which some other population sits at an interior frequency (≠ 0 and ≠ 1) is not a corner line -/
theorem C04_interior_not_corner (ys : List ℚ) (y : ℚ) (hy : y ∈ ys) (h0 : y ≠ 0) (h1 : y ≠ 1) :
    ys.all (· == 0) = false ∧ ys.all (· == 1) = false := by
  constructor
  · rw [Bool.eq_false_iff]; intro h
    rw [List.all_eq_true] at h
    exact h0 (by simpa using h y hy)
  · rw [Bool.eq_false_iff]; intro h
    rw [List.all_eq_true] at h
    exact h1 (by simpa using h y hy)

/-- where the C kernels place their absorbing terms (table regenerated from integration{1..5}D.c): kernel (d, ax) guards the
    term at node 0 by *every* other grid coordinate being 0, the term at node N−1 by every other coordinate being 1, each
    coordinate read with its own loop index, and loads/stores the line with the same row-major index -/
theorem C04_corner_guard_wiring :
    C.kernels.map (fun k => (k.d, k.ax)) = (List.range 5).flatMap (fun d => (List.range (d+1)).map (fun ax => (d+1, ax)))
    ∧ C.kernels.all (fun k =>
        let others := (List.range k.d).filter (· ≠ k.ax)
        k.zeroGuardAxes == others && k.oneGuardAxes == others && k.nGuard0 == k.d - 1 && k.nGuard1 == k.d - 1
          && k.stridesOk) = true
    ∧ C.dfactorShapeOk = true ∧ C.dxShapeOk = true ∧ C.xIntShapeOk = true ∧ C.abcShapeOk = true := by
  decide

/-- a frozen axis is not integrated at all -/
theorem C04_frozen_axis_skipped (grids : List (Array ℚ)) (fr : List Bool) (use : Bool) (eps : ℕ → List ℕ → ℕ → ℚ)
    (pops : List PopParams) (β : Option ℚ) (dt : ℚ) (T : List ℕ → ℚ) (k : ℕ) (hk : fr.getD k false = true) :
    sweepAxisFn grids fr use eps pops β dt T k = T := by
  rw [sweepAxisFn, if_pos hk]

/-- new mutations enter only at the unit multi-indices e_k of populations that are neither frozen nor (in 2-D) nomut -/
theorem C04_inject_support (grids : List (Array ℚ)) (fr nm : List Bool) (dt θ : ℚ) (T : List ℕ → ℚ) (idx : List ℕ)
    (h : ∀ k < grids.length, idx = unitIdx grids.length k → injectOn grids.length k fr nm = false) :
    injectFn grids fr nm dt θ T idx = T idx := by
  unfold injectFn
  have : ∀ k ∈ List.range grids.length,
      (if idx = unitIdx grids.length k ∧ injectOn grids.length k fr nm = true
        then (injectAmt grids.length k dt θ fun l j => (grids.getD l #[]).getD j 0).getD 0 else 0) = (0:ℚ) := by
    intro k hk
    rw [if_neg]
    rintro ⟨h1, h2⟩
    have := h k (List.mem_range.mp hk) h1
    rw [this] at h2; exact Bool.false_ne_true h2
  rw [List.map_congr_left this]
  have hz : ∀ n : ℕ, sumL ((List.range n).map fun _ => (0:ℚ)) = 0 := by
    intro n
    induction n with
    | zero => simp
    | succ n ih => rw [List.range_succ, List.map_append, sumL]; simp [List.foldl_append]; unfold sumL at ih; simpa using ih
  rw [hz]; ring

/-- frozen populations and nomut populations receive no new mutations -/
theorem C04_no_influx_frozen_nomut (d k : ℕ) (fr nm : List Bool) :
    (fr.getD k false = true → injectOn d k fr nm = false) ∧
    (d = 2 → nm.getD k false = true → injectOn d k fr nm = false) := by
  constructor
  · intro h; simp only [injectOn, h, Bool.not_true, Bool.false_and]
  · intro hd h; subst hd; simp only [injectOn, h, beq_self_eq_true, Bool.and_self, Bool.not_true, Bool.and_false]

/-- the generated injection table agrees with the model's `injectOn`: guards are exactly `frozen_k` (and `nomut_k` in 2-D),
    targets are exactly the unit multi-indices -/
theorem C04_inject_table :
    Py.injectTerms.map (fun t => (t.d, t.pop, t.target, t.guards))
      = (List.range 5).flatMap (fun d => (List.range (d+1)).map (fun k =>
          (d+1, k, unitIdx (d+1) k,
           (if d + 1 == 1 then [] else ["frozen" ++ toString (k+1)]) ++ (if d + 1 == 2 then ["nomut" ++ toString (k+1)] else [])))) := by
  decide

/-- **flags, sizes and steps as every driver passes them** (time loops translated statement by statement; each call bound by NAME
    against the callee's signature, so a re-ordered signature with a call site left behind shows here): `_inject_mutations_<d>D`
    receives `this_dt`, θ0 and, for its parameter `frozen<k>` (`nomut<k>` in 2-D), the caller's flag of population k; the sweep along
    axis k is guarded by `if not frozen<k>` — its own flag —, gets `this_dt` and the size slot of population k; and every parameter
    (in particular every size) is re-evaluated at `next_t`, so that the same sizes and the same time steps are used whatever the
    other populations do. -/
theorem C04_driver_flags :
    Py.driverPrograms.map (fun P => Prog.flagView (Prog.resolve P)) = Prog.expectedAll.map Prog.flagView := by
  decide +kernel

/-- …what the statement `inject` then does in the semantics: exactly `injectFn` with those flag lists, i.e. (`C04_inject_table`,
    `C04_no_influx_frozen_nomut`) no influx into frozen / nomut populations; and a frozen axis is skipped (`C04_frozen_axis_skipped`):
    one pass through the expected loop body is `sweepFn` with the flags of the environment -/
theorem C04_driver_pass (grids : List (Array ℚ)) (use : Bool) (eps : ℕ → List ℕ → ℕ → ℚ) (E : Prog.PEnv) (c n : ℚ) (dt : Option ℚ)
    (td : ℚ) (v : Py.Param → ℚ) (φ : List ℕ → ℚ) :
    let d := grids.length
    ((Prog.expectedConstBody d).foldl (Prog.exec (Prog.semFn grids use eps) E) ⟨c, n, dt, td, v, φ⟩).phi
      = sweepFn grids (Prog.frList d E) (Prog.nmList d E) use eps (Prog.toStep d v) (thisDt dt (E.T - c)) φ := by
  intro d
  rw [Prog.constBody_pass, ← Prog.sweepOf_semFn]

/-- non-vacuity: the translated `two_pops` loop passes four flags to the injection -/
example : (Py.driverPrograms.map Prog.resolve)[1]?.map (fun R => R.body.filterMap
    (fun s => match s with | .inject i => some (i.frozen.length + i.nomut.length) | _ => none)) = some [4] := by decide +kernel

/-- without migration and selection the first and last interior rows decouple from the boundary values:
    a₁ = 0 and c_{N−2} = 0 (because V(0) = V(1) = 0), for every grid from 0 to 1 -/
theorem C04_decoupled (xs : Array ℚ) (P : AxisParams) (ys : List ℚ) (use : Bool) (eps : ℕ → ℚ) (dt : ℚ)
    (hN : 3 ≤ xs.size) (hx0 : xs.getD 0 0 = 0) (hx1 : xs.getD (xs.size - 1) 0 = 1)
    (hg : P.gamma = 0) (hm : ∀ m ∈ P.ms, m = 0) :
    (axisLine xs P ys use eps dt).a 1 = 0 ∧ (axisLine xs P ys use eps dt).c (xs.size - 2) = 0 := by
  have hM : ∀ u, (Mkernel u P.ms ys P.gamma P.h).getD (Mgen u P.ms ys P.gamma P.h) = 0 := by
    intro u
    rw [Mkernel_getD, Mgen, hg]
    have : ∀ (ms ys : List ℚ), (∀ m ∈ ms, m = 0) → sumL (List.zipWith (fun m y => m * (y - u)) ms ys) = 0 := by
      intro ms
      induction ms with
      | nil => intro ys _; simp
      | cons m ms ih =>
        intro ys h
        cases ys with
        | nil => simp
        | cons y ys =>
          simp only [List.zipWith_cons_cons, sumL_cons]
          rw [h m (List.mem_cons_self), ih ys (fun m' hm' => h m' (List.mem_cons_of_mem _ hm'))]; ring
    rw [this P.ms ys hm]; ring
  have hV0 : P.V 0 = 0 := by
    unfold AxisParams.V; cases P.beta <;> simp [C.Vfunc, C.Vfunc_beta]
  have hV1 : P.V 1 = 0 := by
    unfold AxisParams.V; cases P.beta <;> simp [C.Vfunc, C.Vfunc_beta]
  constructor
  · simp only [Line.a, axisLine, mkLine, hM, C.atemp]
    simp [hx0, hV0]
  · have h2 : xs.size - 2 + 1 < xs.size := by omega
    have e : xs.size - 2 + 1 = xs.size - 1 := by omega
    simp only [Line.c, axisLine, mkLine, hM, C.ctemp, if_pos h2, e, hx1, hV1]
    simp

/-- specification of the frozen/migration guard: some frozen population has a non-zero migration rate in or out -/
def guardSpec (d : ℕ) (fr : ℕ → Bool) (m : ℕ → ℕ → ℚ) : Bool :=
  (List.range d).any fun k => fr k && (List.range d).any fun l => l != k && (m k l != 0 || m l k != 0)

/-- the guard expressions actually evaluated by `two_pops … five_pops` (generated) are exactly that specification -/
theorem C04_frozen_mig_rejected (fr : ℕ → Bool) (m : ℕ → ℕ → ℚ) :
    Py.frozenMigGuard2 fr m = guardSpec 2 fr m ∧ Py.frozenMigGuard3 fr m = guardSpec 3 fr m ∧
    Py.frozenMigGuard4 fr m = guardSpec 4 fr m ∧ Py.frozenMigGuard5 fr m = guardSpec 5 fr m := by
  refine ⟨?_, ?_, ?_, ?_⟩
  · simp only [Py.frozenMigGuard2, guardSpec, List.range, List.range.loop, List.any]
    cases fr 0 <;> cases fr 1 <;> simp <;> grind
  · simp only [Py.frozenMigGuard3, guardSpec, List.range, List.range.loop, List.any]
    cases fr 0 <;> cases fr 1 <;> cases fr 2 <;> simp <;> grind
  · simp only [Py.frozenMigGuard4, guardSpec, List.range, List.range.loop, List.any]
    cases fr 0 <;> cases fr 1 <;> cases fr 2 <;> cases fr 3 <;> simp <;> grind
  · simp only [Py.frozenMigGuard5, guardSpec, List.range, List.range.loop, List.any]
    cases fr 0 <;> cases fr 1 <;> cases fr 2 <;> cases fr 3 <;> cases fr 4 <;> simp <;> grind

/-! ### Isolated marginals (no migration, no selection)

The marginal density of a subset S of populations evolves, at every point of the S-grid except its all-zero and all-one corners,
exactly as if S were integrated alone with the same time step.  `σ` indexes the other S-coordinates of a line, `κ` the coordinates of
the populations outside S (weights `W` = product of their trapezoid weights), `others s k` the other-coordinates list of the
d-dimensional line (any interleaving of `cs s` and the complement's coordinates: only "all zero ⇒ S-part all zero" and the same for
one are needed).  `MargAgree N cs μ ψ` = μ and ψ agree at every node of every S-line except node 0 of an all-zero S-line and node
N−1 of an all-one S-line.  (Lemmas/Marginal.lean, Marginal2.lean; non-vacuity examples there.) -/

/-- **sweep along an axis in S**: if the W-weighted marginal of the d-dimensional density agrees with the S-density off the corners,
    it still does after both systems take one kernel sweep (decoupling a₁ = c_{N−2} = 0 + uniqueness of the interior system +
    linearity of the solve) -/
theorem C04_isolated_marginal_sweep {σ κ : Type} [Fintype κ] (W : κ → ℚ) (xs : Array ℚ) (Pd Ps : AxisParams)
    (cs : σ → List ℚ) (others : σ → κ → List ℚ) (used uses : Bool) (epsd : σ → κ → ℕ → ℚ) (epss : σ → ℕ → ℚ) (dt : ℚ)
    (φ : σ → κ → ℕ → ℚ) (ψ : σ → ℕ → ℚ)
    (hN : 3 ≤ xs.size) (hx0 : xs.getD 0 0 = 0) (hx1 : xs.getD (xs.size-1) 0 = 1)
    (hgd : Pd.gamma = 0) (hmd : ∀ m ∈ Pd.ms, m = 0) (hgs : Ps.gamma = 0) (hms : ∀ m ∈ Ps.ms, m = 0)
    (hnu : Pd.nu = Ps.nu) (hV : ∀ u, Pd.V u = Ps.V u)
    (hZ : ∀ s k, (others s k).all (· == 0) = true → (cs s).all (· == 0) = true)
    (hO : ∀ s k, (others s k).all (· == 1) = true → (cs s).all (· == 1) = true)
    (hpd : ∀ s k, PivotsOk 1 0 ((axisLine xs Pd (others s k) used (epsd s k) dt).rows (φ s k)))
    (hps : ∀ s, PivotsOk 1 0 ((axisLine xs Ps (cs s) uses (epss s) dt).rows (ψ s)))
    (hinv : MargAgree xs.size cs (fun s j => ∑ k, W k * φ s k j) ψ) :
    MargAgree xs.size cs
      (fun s j => ∑ k, W k * stepFam (fun i : σ × κ => axisLine xs Pd (others i.1 i.2) used (epsd i.1 i.2) dt)
        (fun i => φ i.1 i.2) (s, k) j)
      (stepFam (fun s => axisLine xs Ps (cs s) uses (epss s) dt) ψ) :=
  marginal_sweep_in_S W xs Pd Ps cs others used uses epsd epss dt φ ψ hN hx0 hx1 hgd hmd hgs hms hnu hV hZ hO hpd hps hinv

/-- **sweep along an axis outside S** (arbitrary parameters of that population): above a non-corner S-index no line is a corner
    line, so every line keeps its trapezoid mass and the marginal is unchanged -/
theorem C04_isolated_marginal_outside : type_of% @marginal_sweep_outside_S := @marginal_sweep_outside_S

/-- **injection**: dropping population p from a (d+1)-dimensional system turns the generated increment of every remaining
    population into the d-dimensional one once multiplied by p's trapezoid weight at its zero index (all d ≤ 4, all k, all p) -/
theorem C04_isolated_marginal_inject (d k p : ℕ) (hd : d ≤ 4) (hk : k < d) (hp : p ≤ d) (dt θ : ℚ) (g : ℕ → ℕ → ℚ)
    (hg : g p 1 ≠ 0) :
    (injectAmt (d+1) (skipAx p k) dt θ g).getD 0 * (g p 1 / 2) = (injectAmt d k dt θ (fun l => g (skipAx p l))).getD 0 :=
  injectAmt_drop d k p hd hk hp dt θ g hg

/-- **composition**: any invariant preserved by injection, by the sweeps along S-axes (paired with the S-system's sweeps) and by the
    sweeps along the other axes is preserved by one full time step of both systems -/
theorem C04_isolated_marginal_step : type_of% @marginal_invariant_step := @marginal_invariant_step

/-- …and by whole integrations taken with the same time-step rule (constant-parameter driver; `marginal_invariant_integrateFn`
    is the time-dependent one) -/
theorem C04_isolated_marginal_integrate : type_of% @marginal_invariant_integrate := @marginal_invariant_integrate

/-- **end-to-end instance** (two populations, S = {population 1 of 2}): for every grid from 0 to 1 and every number of steps, the
    trapezoid marginal over population 2 of `integrateConst (sweepFn [xs, xs] …)` equals `integrateConst (sweepFn [xs] …)` at every
    interior frequency, population 2 having arbitrary size, selection and dominance -/
theorem C04_isolated_marginal_2D : type_of% @marginal_2D_pop0_integrate := @marginal_2D_pop0_integrate

/-- the same without any pivot hypothesis for the isolated population and the 1-D system (ν > 0, dt > 0 suffice: the neutral
    scheme is an M-matrix); only population 2, whose parameters are arbitrary, keeps its hypothesis -/
theorem C04_isolated_marginal_2D_nopiv : type_of% @marginal_2D_pop0_integrate_nopiv := @marginal_2D_pop0_integrate_nopiv

/-! ### The general instance: any number of populations d ≤ 5, any subset S (Lemmas/Marginal3.lean)

`GIdx d xs = Fin d → Fin xs.size` is a valid d-dimensional multi-index, `idxL f` its list form (what `sweepFn`/`ND.get` take),
`idxS inS f` its restriction to the axes in S (renumbered in order).  `MargInv xs inS d T U` says: for every S-index that is
neither all-zero nor all-one, the trapezoid sum of T over the populations outside S equals U there. -/

/-- the invariant, unfolded (so that the statement below can be read without the lemma file) -/
theorem C04_isolated_marginal_invariant_def (xs : Array ℚ) (inS : ℕ → Bool) (d : ℕ) (T U : List ℕ → ℚ) :
    MargInv xs inS d T U ↔
      ∀ f0 : GIdx d xs, NonCornerS inS f0 → ∑ f : GIdx d xs, wS inS f0 f * T (idxL f) = U (idxS inS f0) := Iff.rfl

/-- **one full time step, any d ≤ 5 and any S**: with the S-populations neutral, without immigration, with the same sizes, frozen
    flags and injection switches in both systems, and the other populations arbitrary (selection, dominance, migration *from* S,
    only their pivots assumed), the isolated-marginal invariant survives `sweepFn` of the d-system paired with `sweepFn` of the
    |S|-system -/
theorem C04_isolated_marginal_general_step : type_of% @margInv_step := @margInv_step

/-- …whole integrations with constant parameters (same step rule in both systems) -/
theorem C04_isolated_marginal_general_integrate : type_of% @margInv_integrate := @margInv_integrate

/-- …with time-dependent parameters -/
theorem C04_isolated_marginal_general_integrateFn : type_of% @margInv_integrateFn := @margInv_integrateFn

/-- …and at the array level (`ND` densities, the tabulated `sweep` the correspondence runs) -/
theorem C04_isolated_marginal_general_nd : type_of% @margInv_integrate_nd := @margInv_integrate_nd

/-- non-vacuity: a strictly increasing 4-point grid is `GridOk`; a line with one interior other-coordinate is non-corner -/
example : GridOk #[0, 1/4, 1/2, 1] := by
  refine ⟨by decide, ?_⟩
  intro j hj
  have h4 : j + 1 < 4 := hj
  have : j = 0 ∨ j = 1 ∨ j = 2 := by omega
  rcases this with rfl | rfl | rfl <;> norm_num [Array.getD]
example : ([0, 1/3] : List ℚ).all (· == 0) = false ∧ ([0, 1/3] : List ℚ).all (· == 1) = false :=
  C04_interior_not_corner [0, 1/3] (1/3) (by simp) (by norm_num) (by norm_num)

/-- **The mutation influx is the documented amount.**  For every dimension 1–5 and every population k the increment the generated
    `_inject_mutations_{d}D` adds at the unit index e_k is  dt/x_k[1] · θ0/2 · 2^d / ((x_k[2] − x_k[0]) · Π_{l≠k} x_l[1])  — i.e. a point
    mass dt·θ0/2 of new mutations at frequency x_k[1] in population k and frequency 0 elsewhere, divided by the trapezoid cell volume
    (x_k[2]−x_k[0])/2 · Π_{l≠k} x_l[1]/2 and by x_k[1]. -/
theorem C04_inject_canonical (d k : ℕ) (hd1 : 1 ≤ d) (hd : d ≤ 5) (hk : k < d) (dt θ : ℚ) (g : ℕ → ℕ → ℚ) :
    injectAmt d k dt θ g = some (injectCanon d k dt θ g) :=
  injectAmt_eq_canon d k hd1 hd hk dt θ g

/-- …and it is non-negative for dt ≥ 0, θ0 ≥ 0 on grids whose second point is positive: injection never removes mass -/
theorem C04_inject_nonneg : type_of% @injectFn_nonneg := @injectFn_nonneg

end DadiVerif
