import DadiVerif.Lemmas.Het
import DadiVerif.Lemmas.MeanFreq
import DadiVerif.Lemmas.Consistency
import DadiVerif.Generated.Phi1D
import DadiVerif.Lemmas.Theory
import DadiVerif.Lemmas.Theory2
import DadiVerif.Generated.Phi1DReal
import DadiVerif.Lemmas.Demog1D
import DadiVerif.Generated.Demog1DReal
/-!
# C01 — one-population scheme: exact discrete moment laws (the provable core of the convergence property)

Convergence of the scheme to the diffusion and of the diffusion to coalescent theory is *not* proved (it is checked
numerically by the harness against an independent coalescent / equilibrium oracle).  What is proved — for every grid
from 0 to 1, every step size, every number of steps — are the discrete laws that pin how drift (1/ν), the breeding
ratio β, the mutation influx θ0/2 and time enter the one-population scheme, and how the equilibrium constructors
scale: exactly the "units" errors the property worries about.
-/
namespace DadiVerif
open Gen Finset

/-- drift coefficient of the one-population kernel: V(x) = κ·x(1−x), κ = (β+1)²/(4β)/ν (κ = 1/ν without β) -/
def kappa (P : AxisParams) : ℚ :=
  match P.beta with
  | some β => (β + 1)^2 / (4 * β) / P.nu
  | none => 1 / P.nu

theorem V_eq_kappa (P : AxisParams) (u : ℚ) : P.V u = kappa P * (u * (1 - u)) := by
  unfold AxisParams.V kappa
  cases P.beta with
  | none => simp only [C.Vfunc]; ring
  | some β => simp only [C.Vfunc_beta]; ring

theorem neutral_line (xs : Array ℚ) (P : AxisParams) (use : Bool) (eps : ℕ → ℚ) (dt : ℚ)
    (hg : P.gamma = 0) (hm : P.ms = []) :
    (axisLine xs P [] use eps dt).NeutralDrift (kappa P) := by
  intro k hk1 hk2
  obtain ⟨m, rfl⟩ : ∃ m, k = m + 1 := ⟨k - 1, by omega⟩
  have hM : ∀ u, (Mkernel u P.ms [] P.gamma P.h).getD (Mgen u P.ms [] P.gamma P.h) = 0 := by
    intro u; rw [Mkernel_getD, hm, hg]; simp [Mgen]
  simp only [axisLine, mkLine, hM, C.atemp, C.ctemp, V_eq_kappa, Nat.add_sub_cancel]
  constructor <;> ring

/-- **Heterozygosity law of one implicit step** (neutral, one population, any β): with
    H(φ) = Σ_j w_j x_j(1−x_j) φ_j,   H(φ') · (1/dt + κ) = H(φ)/dt,  κ = (β+1)²/(4βν),
    on every grid from 0 to 1 and for every dt — so drift acts on heterozygosity at rate exactly κ per unit time. -/
theorem C01_het_step (xs : Array ℚ) (N : ℕ) (hN : xs.size = N + 2) (hgrid : GridOk xs)
    (hx0 : xs.getD 0 0 = 0) (hx1 : xs.getD (N+1) 0 = 1)
    (P : AxisParams) (hg : P.gamma = 0) (hm : P.ms = []) (use : Bool) (eps : ℕ → ℚ) (dt : ℚ)
    (φ : ℕ → ℚ) (hp : PivotsOk 1 0 ((axisLine xs P [] use eps dt).rows φ)) :
    let L := axisLine xs P [] use eps dt
    L.het (fun j => listGetD (L.step φ) j) * (1 / dt + kappa P) = L.het φ / dt := by
  intro L
  have hbc : ∀ j, 0 < j → j + 1 < L.N → L.bc j = 0 := by
    intro j h0 h1
    have h1' : j + 1 < xs.size := h1
    simp only [L, axisLine, mkLine]
    rw [if_neg (by omega), if_neg (by omega)]; simp
  exact L.het_step N hN (kappa P) (neutral_line xs P use eps dt hg hm) hx0 hx1 hgrid.2 hbc φ
    (L.stepFn φ) (L.step_solves φ hp)

/-- **Mean-frequency (martingale) law of one implicit step** (neutral, one population, any β): with
    m(φ) = Σ_j w_j x_j φ_j,   m(φ')/dt + w_last·bc_last·φ'_last = m(φ)/dt
    on every grid from 0 to 1 and for every dt: pure drift moves no mean allele frequency — the first moment of the density
    changes only through the absorbing term at x = 1 (fixation), never through the interior or the loss boundary. -/
theorem C01_mean_step (xs : Array ℚ) (N : ℕ) (hN : xs.size = N + 2) (hgrid : GridOk xs)
    (hx0 : xs.getD 0 0 = 0) (hx1 : xs.getD (N+1) 0 = 1)
    (P : AxisParams) (hg : P.gamma = 0) (hm : P.ms = []) (use : Bool) (eps : ℕ → ℚ) (dt : ℚ)
    (φ : ℕ → ℚ) (hp : PivotsOk 1 0 ((axisLine xs P [] use eps dt).rows φ)) :
    let L := axisLine xs P [] use eps dt
    L.mean (fun j => listGetD (L.step φ) j) / dt + L.w (N+1) * L.bc (N+1) * listGetD (L.step φ) (N+1) = L.mean φ / dt := by
  intro L
  have hbc : ∀ j, 0 < j → j + 1 < L.N → L.bc j = 0 := by
    intro j h0 h1
    have h1' : j + 1 < xs.size := h1
    simp only [L, axisLine, mkLine]
    rw [if_neg (by omega), if_neg (by omega)]; simp
  exact L.mean_step N hN (kappa P) (neutral_line xs P use eps dt hg hm) hx0 hx1 hgrid.2 hbc φ
    (L.stepFn φ) (L.step_solves φ hp)

/-- the absorbing coefficient in that law is the documented one: bc_last = (1/(2ν))·2/dx_last for the neutral one-population
    line (generated `bcLast`), so the mean frequency lost per step is dt·w_last·φ'_last/(ν·dx_last) -/
theorem C01_mean_step_bc (xs : Array ℚ) (N : ℕ) (hN : xs.size = N + 2)
    (P : AxisParams) (hg : P.gamma = 0) (hm : P.ms = []) (use : Bool) (eps : ℕ → ℚ) (dt : ℚ) :
    (axisLine xs P [] use eps dt).bc (N+1) = 1 / P.nu / (xs.getD (N+1) 0 - xs.getD N 0) := by
  have hM : ∀ u, (Mkernel u P.ms [] P.gamma P.h).getD (Mgen u P.ms [] P.gamma P.h) = 0 := by
    intro u; rw [Mkernel_getD, hm, hg]; simp [Mgen]
  simp only [axisLine, mkLine, hM, hN]
  rw [if_neg (by omega), if_pos ⟨trivial, by simp, le_refl _⟩]
  simp only [C.bcLast, show N + 2 - 2 = N by omega, zero_add]
  ring

/-! ### The two halves of the convergence argument that ARE provable: stability and consistency -/

/-- **ℓ¹-stability of one implicit step**: for the line of any kernel under the M-matrix condition (non-negative flux coefficients —
    unconditional for the neutral one-population step, `C01_stability_neutral`) the step is a contraction in the trapezoid-weighted
    ℓ¹ norm Σ_j w_j |φ_j|, for densities of any sign: errors are never amplified, whatever dt. -/
theorem C01_stability_l1 : type_of% @Line.step_l1_contraction := @Line.step_l1_contraction

/-- …instantiated for the neutral one-population kernel line (any ν > 0, β > 0, dt > 0, grid inside [0,1], either delj setting) -/
theorem C01_stability_neutral (xs : Array ℚ) (hg : GridOk xs) (hx0 : 0 ≤ xs.getD 0 0) (hx1 : xs.getD (xs.size - 1) 0 ≤ 1)
    (P : AxisParams) (hgam : P.gamma = 0) (hm : P.ms = []) (hnu : 0 < P.nu) (hβ : ∀ β, P.beta = some β → 0 < β)
    (use : Bool) (eps : ℕ → ℚ) (dt : ℚ) (hdt : 0 < dt) (φ : ℕ → ℚ) :
    let L := axisLine xs P [] use eps dt
    L.l1 (L.stepFn φ) ≤ L.l1 φ := by
  intro L
  have hm' : ∀ m ∈ P.ms, m = 0 := by rw [hm]; intro m h; cases h
  have hL : L = mkLine xs P.V (fun _ => 0) (fun _ => 1/2) P.nu (([] : List ℚ).all (· == 0)) (([] : List ℚ).all (· == 1)) dt :=
    axisLine_nomig xs P [] use eps dt hgam hm'
  have hV : ∀ i, i < xs.size → 0 ≤ P.V (xs.getD i 0) := by
    intro i hi
    have := hg.bounds i hi
    exact P.V_nonneg hnu hβ _ (by linarith) (by linarith)
  have hpe : ∀ i, i + 1 < xs.size →
      0 ≤ (fun _ : ℚ => (0:ℚ)) (1/2 * (xs.getD (i+1) 0 + xs.getD i 0)) * (fun _ : ℕ => (1/2 : ℚ)) i
            + P.V (xs.getD i 0) / (2 * (xs.getD (i+1) 0 - xs.getD i 0))
      ∧ 0 ≤ -(fun _ : ℚ => (0:ℚ)) (1/2 * (xs.getD (i+1) 0 + xs.getD i 0)) * (1 - (fun _ : ℕ => (1/2 : ℚ)) i)
            + P.V (xs.getD (i+1) 0) / (2 * (xs.getD (i+1) 0 - xs.getD i 0)) := by
    intro i hi
    have hdx : 0 < xs.getD (i+1) 0 - xs.getD i 0 := by have := hg.2 i hi; linarith
    have h1 := hV i (by omega)
    have h2 := hV (i+1) hi
    constructor
    · have : 0 ≤ P.V (xs.getD i 0) / (2 * (xs.getD (i+1) 0 - xs.getD i 0)) := div_nonneg h1 (by linarith)
      simp only []; linarith
    · have : 0 ≤ P.V (xs.getD (i+1) 0) / (2 * (xs.getD (i+1) 0 - xs.getD i 0)) := div_nonneg h2 (by linarith)
      simp only []; linarith
  obtain ⟨hA, hC, hbc⟩ := mkLine_mmatrix xs hg P.V (fun _ => 0) (fun _ => 1/2) P.nu hnu _ _ dt hpe
  rw [hL]
  exact Line.step_l1_contraction _ hg.1 (fun j hj => hg.2 j hj) hdt hA hC hbc φ

/-- **Consistency, part 1 — what the scheme discretises**: at every interior node of an arbitrary increasing grid, with δ = ½, the
    discrete operator of the line the kernels build (generated `atemp`, `ctemp`) is the centred flux difference of Mφ minus the second
    divided difference of Vφ:  D_j φ = Adv_j φ − [x_{j−1},x_j,x_{j+1}](Vφ). -/
theorem C01_consistency_operator : type_of% @mkLine_operator := @mkLine_operator

/-- **Consistency, part 2 — the drift term is exact on quadratics**: if Vφ coincides with a quadratic polynomial a + bx + cx² at the
    three nodes, its second divided difference is c = ½(Vφ)″, on every non-uniform grid (zero truncation error). -/
theorem C01_consistency_drift : type_of% @divDiff2_quadratic := @divDiff2_quadratic

/-- **Consistency, part 3 — the advective term is exact** for constant M and linear φ, and for linear M and constant φ: it equals
    (Mφ)′ on every non-uniform grid. -/
theorem C01_consistency_advection :
    (∀ (x0 x1 x2 m α β : ℚ), x0 ≠ x2 →
      (m * ((α + β*x1) + (α + β*x2)) - m * ((α + β*x0) + (α + β*x1))) / (x2 - x0) = m * β)
    ∧ (∀ (x0 x1 x2 m0 m1 c : ℚ), x0 ≠ x2 →
      ((m0 + m1 * ((1/2 : ℚ) * (x2 + x1))) * (c + c) - (m0 + m1 * ((1/2 : ℚ) * (x1 + x0))) * (c + c)) / (x2 - x0) = m1 * c) :=
  ⟨adv_exact_const_lin, adv_exact_lin_const⟩

/-- non-vacuity of `C01_stability_neutral`: the grid {0, 1/4, 1/2, 1}, ν = 2, β = 3 -/
example : GridOk #[0, 1/4, 1/2, 1] ∧ (0:ℚ) ≤ (#[0, 1/4, 1/2, 1] : Array ℚ).getD 0 0
    ∧ (#[0, 1/4, 1/2, 1] : Array ℚ).getD ((#[0, 1/4, 1/2, 1] : Array ℚ).size - 1) 0 ≤ 1 := by
  refine ⟨⟨by decide, ?_⟩, by norm_num, by norm_num⟩
  intro j hj
  have : j = 0 ∨ j = 1 ∨ j = 2 := by simp at hj; omega
  rcases this with rfl | rfl | rfl <;> norm_num

/-- **Mutation influx**: injecting for a time dt adds exactly dt·θ0·(1−x₁)/2 to the heterozygosity
    (generated increment `_inject_mutations_1D`), for every grid. -/
theorem C01_inject_het (L : Line) (hN : 3 ≤ L.N) (hx0 : L.x 0 = 0) (hx1 : L.x 1 ≠ 0) (hx2 : L.x 2 ≠ L.x 0)
    (dt θ0 : ℚ) (φ : ℕ → ℚ) :
    L.het (fun j => φ j + if j = 1 then Py.inject1D_0 dt θ0 L.x else 0)
      = L.het φ + dt * θ0 * (1 - L.x 1) / 2 := by
  unfold Line.het
  have hsplit : ∀ j ∈ range L.N, L.w j * (L.x j * (1 - L.x j)) * (φ j + if j = 1 then Py.inject1D_0 dt θ0 L.x else 0)
      = L.w j * (L.x j * (1 - L.x j)) * φ j + (if j = 1 then L.w 1 * (L.x 1 * (1 - L.x 1)) * Py.inject1D_0 dt θ0 L.x else 0) := by
    intro j _
    by_cases h : j = 1
    · subst h; simp only [if_true]; ring
    · simp only [h, if_false]; ring
  rw [Finset.sum_congr rfl hsplit, Finset.sum_add_distrib, Finset.sum_ite_eq' (range L.N) 1]
  rw [if_pos (mem_range.mpr (by omega))]
  congr 1
  have hw : L.w 1 = (L.x 2 - L.x 0) / 2 := by
    unfold Line.w Line.dxL Line.dxR
    rw [if_neg (by omega), if_pos (by omega)]; ring
  rw [hw]
  simp only [Py.inject1D_0]
  have h20 : L.x 2 - L.x 0 ≠ 0 := sub_ne_zero.mpr hx2
  field_simp

/-- closed form of a recursion H_{n+1} = (H_n + b)·r (one inject-and-step per n), any number of steps -/
theorem C01_het_closed (H : ℕ → ℚ) (r b : ℚ) (hr : r ≠ 1) (hrec : ∀ n, H (n+1) = (H n + b) * r) (n : ℕ) :
    H n = b * r / (1 - r) + (H 0 - b * r / (1 - r)) * r ^ n := by
  have h1 : (1 - r) ≠ 0 := sub_ne_zero.mpr (Ne.symm hr)
  induction n with
  | zero => simp
  | succ k ih =>
    rw [hrec k, ih]
    field_simp
    ring

/-- the fixed point of that recursion for the scheme (r = 1/(1+κ dt), b = dt·θ0(1−x₁)/2): the stationary
    heterozygosity of the discrete scheme is the continuum value θ0/(2κ) = νθ0·4β/(β+1)²/2 times exactly (1 − x₁),
    for every grid and every dt — the grid error that vanishes under refinement, made explicit. -/
theorem C01_het_limit (κ dt θ0 x1 : ℚ) (hκ : κ ≠ 0) (hdt : dt ≠ 0) (h1 : 1 + κ * dt ≠ 0) :
    let r := 1 / (1 + κ * dt)
    let b := dt * θ0 * (1 - x1) / 2
    b * r / (1 - r) = θ0 / (2 * κ) * (1 - x1) := by
  intro r b
  have : (1 - r) = κ * dt / (1 + κ * dt) := by
    simp only [r]; field_simp; ring
  rw [this]
  simp only [r, b]
  have h1' : 1 + dt * κ ≠ 0 := by rw [mul_comm]; exact h1
  field_simp

/-- the neutral equilibrium density of the code (generated from `phi_1D_snm`) is νθ0/x · 4β/(β+1)² = θ0/(κ x):
    its κ-weighted form is the classical θ0/x -/
theorem C01_snm_closed (x nu theta0 beta : ℚ) (hx : x ≠ 0) (hb : beta ≠ 0) (hb1 : beta + 1 ≠ 0) (hnu : nu ≠ 0) :
    Phi1D.snm_interior x nu theta0 * Phi1D.snm_prefactor beta
      = theta0 / x / ((beta + 1)^2 / (4 * beta) / nu) := by
  simp only [Phi1D.snm_interior, Phi1D.snm_prefactor]
  field_simp

/-- the equilibrium constructors depend on (ν, γ) only through γ·ν and on (ν, θ0) only through ν·θ0: they are
    invariant under the reference-size re-scaling (ν, θ0, γ) ↦ (cν, θ0/c, γ/c), and the selection coefficient
    that enters is the one relative to the population's own size (needed for stationarity under `one_pop(ν, γ)`). -/
theorem C01_equilibrium_scale (gamma nu theta0 beta c : ℚ) (hc : c ≠ 0) :
    Phi1D.dom_gammaEff (gamma / c) (c * nu) beta = Phi1D.dom_gammaEff gamma nu beta ∧
    Phi1D.genic_gammaEff (gamma / c) (c * nu) beta = Phi1D.genic_gammaEff gamma nu beta ∧
    Phi1D.dom_prefactor (c * nu) (theta0 / c) beta = Phi1D.dom_prefactor nu theta0 beta ∧
    Phi1D.genic_prefactor (c * nu) (theta0 / c) beta = Phi1D.genic_prefactor nu theta0 beta ∧
    Phi1D.snm_interior 1 (c * nu) (theta0 / c) = Phi1D.snm_interior 1 nu theta0 ∧
    Phi1D.dispatchOk = true := by
  have e1 : gamma / c * (c * nu) = gamma * nu := by field_simp
  have e2 : c * nu * (theta0 / c) = nu * theta0 := by field_simp
  refine ⟨?_, ?_, ?_, ?_, ?_, by decide⟩
  · simp only [Phi1D.dom_gammaEff, e1]
  · simp only [Phi1D.genic_gammaEff, e1]
  · simp only [Phi1D.dom_prefactor, e2]
  · simp only [Phi1D.genic_prefactor, e2]
  · simp only [Phi1D.snm_interior, e2]

/-- the effective selection coefficient is γ·ν·4β/(β+1)² (relative to the population's own size and breeding ratio) -/
theorem C01_gamma_eff (gamma nu beta : ℚ) :
    Phi1D.dom_gammaEff gamma nu beta = gamma * nu * (4 * beta / (beta + 1)^2) ∧
    Phi1D.genic_gammaEff gamma nu beta = gamma * nu * (4 * beta / (beta + 1)^2) := by
  constructor <;> simp only [Phi1D.dom_gammaEff, Phi1D.genic_gammaEff] <;> ring

/-! ### Theory side (continuum): what the scheme is aiming at -/

/-- **Neutral theory**: under the equilibrium density θ/x, the expected number of sites at which i of n sampled chromosomes carry
    the derived allele is θ/i — binomial sampling integrated over [0,1] (elementary Beta-integral by induction, over ℝ). -/
theorem C01_theory_neutral_sfs (n i : ℕ) (hi : 1 ≤ i) (hin : i ≤ n) (θ : ℝ) :
    ∫ x in (0:ℝ)..1, (n.choose i : ℝ) * x ^ i * (1 - x) ^ (n - i) * (θ / x) = θ / i :=
  theory_neutral_sfs n i hi hin θ

/-- …hence the density returned by `phi_1D_snm` (ν·θ0/x · 4β/(β+1)², cf. `C01_snm_closed`) gives ν·θ0·4β/(β+1)²/i -/
theorem C01_theory_snm_sfs (n i : ℕ) (hi : 1 ≤ i) (hin : i ≤ n) (nu θ0 β : ℝ) :
    ∫ x in (0:ℝ)..1, (n.choose i : ℝ) * x ^ i * (1 - x) ^ (n - i) * (nu * θ0 / x * (4 * β / (β + 1) ^ 2))
      = nu * θ0 * (4 * β / (β + 1) ^ 2) / i :=
  theory_snm_sfs n i hi hin nu θ0 β

/-- the continuum heterozygosity of θ0/(κx) is θ0/(2κ): the value whose (1 − x₁) multiple is the scheme's exact fixed point
    (`C01_het_limit`), so the scheme's stationary heterozygosity converges to theory as the first grid point goes to 0 -/
theorem C01_theory_heterozygosity (θ0 κ : ℝ) : ∫ x in (0:ℝ)..1, x * (1 - x) * (θ0 / (κ * x)) = θ0 / (2 * κ) :=
  theory_heterozygosity θ0 κ

/-! ### The equilibrium constructors are the stationary solutions of the diffusion (theory over ℝ)
`Generated/Phi1DReal.lean` holds the transcendental expressions of `phi_1D_genic` and `phi_1D` as the source writes them
(`exp = Real.exp`); `Lemmas/Theory2.lean` proves, for g(x) = x(1−x)φ(x), that the probability flux −½g′ + (Q′/2)g of the
Wright–Fisher diffusion with genic selection / dominance is constant in x with g(0) = 1 (mutation influx), g(1) = 0 (absorption). -/
section TheoryStationary
open Theory2 Filter Topology

/-- what the source computes on the interior is g/(x(1−x)) for the closed forms the theory lemmas are about -/
theorem C01_theory_genic_form (x γ : ℝ) :
    Phi1DReal.genic_interior x γ = gG γ x / (x * (1 - x))
    ∧ Phi1DReal.genic_interior_neg x γ = Real.exp (2 * γ * x) / (x * (1 - x))
    ∧ Phi1DReal.genic_branch_tests = ["gamma<300", "gamma==0", "gamma>-300"] := by
  refine ⟨?_, ?_, by decide⟩
  · unfold Phi1DReal.genic_interior gG; ring_nf
  · unfold Phi1DReal.genic_interior_neg; ring_nf

/-- `phi_1D` (dominance): the integrand is e^{−Q}, the prefactor e^{Q}, the γ ≥ 0 variant is the same quotient with the prefactor
    pulled inside the integral, the quadratures run over [0,1] and [x,1], the interior is divided by x(1−x), 1/int0 is stored at 1 -/
theorem C01_theory_dom_form (γ h x ξ q : ℝ) :
    Phi1DReal.dom_integrand γ h 0 ξ = Real.exp (-Q γ h ξ)
    ∧ Phi1DReal.dom_prefactor_exp γ h x = Real.exp (Q γ h x)
    ∧ Phi1DReal.dom_integrand_pos γ h ξ q = Real.exp (Q γ h q) * Real.exp (-Q γ h ξ)
    ∧ Phi1DReal.dom_pos_is_ratio = true
    ∧ Phi1DReal.dom_shape.all (·.2) = true := by
  refine ⟨?_, ?_, ?_, rfl, by decide⟩
  · unfold Phi1DReal.dom_integrand Q; ring_nf
  · unfold Phi1DReal.dom_prefactor_exp Q; ring_nf
  · unfold Phi1DReal.dom_integrand_pos Q; rw [← Real.exp_add]; congr 1; ring

/-- genic selection: constant flux γ/(1−e^{−2γ}), boundary values, and the second-order (stationary Kolmogorov) form -/
theorem C01_theory_genic_stationary : type_of% @theory_genic_stationary := @theory_genic_stationary

/-- any dominance h and any γ: gH = e^{Q}·∫ₓ¹e^{−Q}/∫₀¹e^{−Q} has derivative Q′·gH − 1/int0, constant flux 1/(2·int0), gH(0)=1, gH(1)=0 -/
theorem C01_theory_general_stationary : type_of% @theory_general_stationary := @theory_general_stationary

/-- …restated for φ = gH/(x(1−x)) and the drift term M(x) = 2γ(h+(1−2h)x)x(1−x) at interior points -/
theorem C01_theory_general_stationary_phi : type_of% @theory_general_stationary_phi := @theory_general_stationary_phi

/-- h = ½ of the general formula is the genic closed form (the dispatch `if h == 0.5: return phi_1D_genic(…)` changes nothing) -/
theorem C01_theory_genic_is_general_half : type_of% @theory_genic_is_general_half := @theory_genic_is_general_half

/-- the values stored at x = 1 are the limits of the interior formulas: 1/int0 in general, and the `limit` expression of
    `phi_1D_genic` (as the source writes it) for h = ½ -/
theorem C01_theory_limit_at_one (γ h : ℝ) :
    Tendsto (fun x => gH γ h x / (x * (1 - x))) (𝓝[<] 1) (𝓝 (1 / I γ h 0))
    ∧ (γ ≠ 0 → Tendsto (fun x => Phi1DReal.genic_interior x γ) (𝓝[<] 1) (𝓝 (Phi1DReal.genic_limit γ)))
    ∧ (γ ≠ 0 → Phi1DReal.genic_limit γ = 1 / I γ (1 / 2) 0) := by
  obtain ⟨h1, _, h3, h4⟩ := theory_limit_at_one γ h
  refine ⟨h1, fun hγ => ?_, fun hγ => ?_⟩
  · have e : (fun x => Phi1DReal.genic_interior x γ) = fun x => gG γ x / (x * (1 - x)) := by
      funext x; exact (C01_theory_genic_form x γ).1
    rw [e]; exact h4 hγ
  · rw [h3 hγ]; rfl

/-- continuity across γ = 0: the genic closed form tends to the neutral one, g → 1 − x (φ → 1/x), for every x -/
theorem C01_theory_neutral_limit : type_of% @theory_neutral_limit := @theory_neutral_limit

/-- the overflow branch (γ ≤ −300 uses e^{2γx}): it differs from the exact closed form by at most e^{2γ} ≤ e^{−600} on [0,1] -/
theorem C01_theory_genic_large_negative : type_of% @theory_genic_large_negative := @theory_genic_large_negative

end TheoryStationary

/-! ### The library's one-population models (round 6)
`Generated/Demog1D.lean` holds, for every one-population model function of `dadi/Demographics1D.py` and `dadi/DFE/DemogSelModels.py`,
the `Integration.one_pop` calls it makes (the translator refuses a call that is not unconditional); `Model/Demog1D.lean` turns a
parameter vector into the size history and the history into the heterozygosity of the density handed to the sampler (the driver op
`c01.het`, compared with the real models by the harness). -/
section Library
open Demog1D Gen.Demog1D

/-- **the models integrate the history their documentation states, for every parameter vector**: one `one_pop` call per epoch, in
    order, with the documented (size, length) pair — whatever the values (a size equal to 1 or to the previous size, a zero length) -/
theorem C01_models_histories (nu T nuB nuF TB TF F : ℚ) :
    models.map (·.name) = ["snm_1d", "two_epoch", "growth", "bottlegrowth_1d", "three_epoch", "three_epoch_inbreeding",
                           "equil", "two_epoch_sel", "three_epoch_sel", "growth_sel", "bottlegrowth_1d_sel"]
    ∧ (lookup "snm_1d").bind (history · []) = some []
    ∧ (lookup "two_epoch").bind (history · [nu, T]) = some [(nu, T)]
    ∧ (lookup "three_epoch").bind (history · [nuB, nuF, TB, TF]) = some [(nuB, TB), (nuF, TF)]
    ∧ (lookup "three_epoch_inbreeding").bind (history · [nuB, nuF, TB, TF, F]) = some [(nuB, TB), (nuF, TF)]
    ∧ (lookup "equil").bind (history · [0]) = some []
    ∧ (lookup "two_epoch_sel").bind (history · [nu, T, 0]) = some [(nu, T)]
    ∧ (lookup "three_epoch_sel").bind (history · [nuB, nuF, TB, TF, 0]) = some [(nuB, TB), (nuF, TF)]
    ∧ ((lookup "growth").bind (calls · [nu, T])).map (·.map fun c => (c.T, c.nu, c.gamma)) = some [(T, .inr "nu_func", 0)]
    ∧ ((lookup "bottlegrowth_1d").bind (calls · [nuB, nuF, T])).map (·.map fun c => (c.T, c.nu, c.gamma)) = some [(T, .inr "nu_func", 0)]
    ∧ ((lookup "growth_sel").bind (calls · [nu, T, F])).map (·.map fun c => (c.T, c.nu, c.gamma)) = some [(T, .inr "nu_func", F)]
    ∧ ((lookup "bottlegrowth_1d_sel").bind (calls · [nuB, nuF, T, F])).map (·.map fun c => (c.T, c.nu, c.gamma)) = some [(T, .inr "nu_func", F)] := by
  refine ⟨by decide, ?_, ?_, ?_, ?_, ?_, ?_, ?_, ?_, ?_, ?_, ?_⟩ <;>
    simp [lookup, models, history, calls, callOf, argVal]

/-- the time step of a neutral one-population epoch (generated `_compute_dt`, no migration, no selection) is 4·ν·timescale_factor -/
theorem C01_dt_neutral : type_of% @computeDt_neutral := @computeDt_neutral

/-- **the time steps of an epoch cover it exactly**: the lengths `while current_t < T: this_dt = min(dt, T − current_t)` takes add up
    to T, each is positive and at most dt — T time units are integrated, whatever the size -/
theorem C01_epoch_steps_cover (T dt : ℚ) (hT : 0 ≤ T) (hdt : 0 < dt) :
    (stepList T dt).sum = T ∧ ∀ d ∈ stepList T dt, 0 < d ∧ d ≤ dt :=
  ⟨stepList_sum T dt hT hdt, stepList_pos T dt hT hdt⟩

/-- the closed form the driver evaluates for an epoch is the step-by-step recursion of `C01_het_step` ∘ `C01_inject_het` -/
theorem C01_het_epoch_closed : type_of% @hetEpochClosed_eq := @hetEpochClosed_eq

/-- **only an epoch at its own equilibrium is a no-op**: steps of positive length (at least one) leave the heterozygosity unchanged
    iff it already is the stationary value b/κ of the epoch -/
theorem C01_epoch_noop_iff : type_of% @hetEpoch_noop_iff := @hetEpoch_noop_iff

theorem hetHistory_append (tf b : ℚ) (ep : ℚ × ℚ) : ∀ (h : List (ℚ × ℚ)) (H0 H1 : ℚ), hetHistory tf b h H0 = .ok H1 →
    hetHistory tf b (h ++ [ep]) H0 = hetOnePop tf b ep H1 := by
  intro h
  induction h with
  | nil =>
    intro H0 H1 h1
    simp only [hetHistory] at h1
    injection h1 with h1; subst h1
    simp only [List.nil_append, hetHistory]
    cases hetOnePop tf b ep H0 <;> rfl
  | cons e es ih =>
    intro H0 H1 h1
    simp only [List.cons_append, hetHistory] at h1 ⊢
    cases hr : hetOnePop tf b e H0 with
    | ok H' => rw [hr] at h1; simp only [] at h1 ⊢; exact ih H' H1 h1
    | raises w => rw [hr] at h1; simp only [] at h1; cases h1
    | outside => rw [hr] at h1; simp only [] at h1; cases h1

/-- **the last epoch of a history matters unless the population is at that epoch's equilibrium**: appending an epoch (ν > 0, T > 0) to
    any history changes the heterozygosity H₁ reached so far — for ν = 1 as for any other size — except when H₁ = b·ν exactly.  In
    particular the recovery epoch of `three_epoch` at ν_F = 1 after a bottleneck cannot be skipped. -/
theorem C01_last_epoch_matters (tf b : ℚ) (htf : 0 < tf) (h : List (ℚ × ℚ)) (nu T : ℚ) (hnu : 0 < nu) (hT : 0 < T)
    (H0 H1 : ℚ) (h1 : hetHistory tf b h H0 = .ok H1) :
    ∃ H2, hetHistory tf b (h ++ [(nu, T)]) H0 = .ok H2 ∧ (H2 = H1 ↔ H1 = b * nu) := by
  rw [hetHistory_append tf b (nu, T) h H0 H1 h1]
  exact hetOnePop_noop_iff tf b nu T H1 htf hnu hT

/-- non-vacuity: after the bottleneck epoch (ν = 1/2 for T = 1/2, one step with timescale_factor 1/4) the heterozygosity 3/8·… is not
    the equilibrium value b·1 of the recovery epoch -/
example : hetHistory (1/4) (1/2) [((1:ℚ)/2, (1:ℚ)/2)] (1/2) = .ok (3/8) ∧ (3/8 : ℚ) ≠ 1/2 * 1 := by
  refine ⟨?_, by norm_num⟩
  have hdt : Gen.Py.computeDt (1/4) (1/2) 0 0 (1/2) = some (1/2) := by
    rw [computeDt_neutral (1/4) (1/2) (1/2) (by norm_num)]; norm_num
  have hn : fullSteps (1/2) (1/2) = 1 := by decide +kernel
  simp only [hetHistory, hetOnePop, hdt, hetEpochClosed, hn]
  norm_num

/-- **the exponential models start and end where their documentation says** (generated from the local functions of time of
    `growth`, `bottlegrowth_1d` and their `*_sel` variants, exp = Real.exp, log = Real.log): growth runs from the ancestral size 1 to
    ν, bottlegrowth from ν_B to ν_F, over [0, T], and the trajectory is exponential (multiplicative in time) -/
theorem C01_models_growth_trajectories (nu nuB nuF T s t γ : ℝ) (hnu : 0 < nu) (hB : 0 < nuB) (hF : 0 < nuF) (hT : T ≠ 0) :
    Demog1DReal.growth_nu_func nu T 0 = 1 ∧ Demog1DReal.growth_nu_func nu T T = nu
    ∧ Demog1DReal.bottlegrowth_1d_nu_func nuB nuF T 0 = nuB ∧ Demog1DReal.bottlegrowth_1d_nu_func nuB nuF T T = nuF
    ∧ Demog1DReal.growth_sel_nu_func nu T γ t = Demog1DReal.growth_nu_func nu T t
    ∧ Demog1DReal.bottlegrowth_1d_sel_nu_func nuB nuF T γ t = Demog1DReal.bottlegrowth_1d_nu_func nuB nuF T t
    ∧ Demog1DReal.growth_nu_func nu T (s + t) = Demog1DReal.growth_nu_func nu T s * Demog1DReal.growth_nu_func nu T t
    ∧ Demog1DReal.bottlegrowth_1d_nu_func nuB nuF T (s + t) * nuB
        = Demog1DReal.bottlegrowth_1d_nu_func nuB nuF T s * Demog1DReal.bottlegrowth_1d_nu_func nuB nuF T t
    ∧ Demog1DReal.count = 4 := by
  have hq : 0 < nuF / nuB := div_pos hF hB
  refine ⟨?_, ?_, ?_, ?_, rfl, rfl, ?_, ?_, rfl⟩
  · simp [Demog1DReal.growth_nu_func]
  · simp only [Demog1DReal.growth_nu_func]
    rw [mul_div_assoc, div_self hT, mul_one, Real.exp_log hnu]
  · simp [Demog1DReal.bottlegrowth_1d_nu_func]
  · simp only [Demog1DReal.bottlegrowth_1d_nu_func]
    rw [mul_div_assoc, div_self hT, mul_one, Real.exp_log hq]
    field_simp
  · simp only [Demog1DReal.growth_nu_func]
    rw [← Real.exp_add]; congr 1; ring
  · simp only [Demog1DReal.bottlegrowth_1d_nu_func]
    have : Real.exp (Real.log (nuF / nuB) * (s + t) / T) = Real.exp (Real.log (nuF / nuB) * s / T) * Real.exp (Real.log (nuF / nuB) * t / T) := by
      rw [← Real.exp_add]; congr 1; ring
    rw [this]; ring

/-- non-vacuity: growth to twice the ancestral size over T = 1/2 -/
example : (0:ℝ) < 2 ∧ (0:ℝ) < 1/2 ∧ (0:ℝ) < 3 ∧ (1/2 : ℝ) ≠ 0 := by norm_num

end Library

/-- non-vacuity: a 4-point grid from 0 to 1 satisfies the hypotheses of `C01_het_step` -/
example : GridOk #[0, 1/4, 1/2, 1] ∧ (#[0, 1/4, 1/2, (1:ℚ)]).getD 0 0 = 0 ∧ (#[0, 1/4, 1/2, (1:ℚ)]).getD 3 0 = 1 := by
  refine ⟨⟨by decide, ?_⟩, by norm_num [Array.getD], by norm_num [Array.getD]⟩
  intro j hj
  have h4 : j + 1 < 4 := hj
  have : j = 0 ∨ j = 1 ∨ j = 2 := by omega
  rcases this with rfl | rfl | rfl <;> norm_num [Array.getD]

end DadiVerif
