import DadiVerif.Lemmas.Godambe
import DadiVerif.Lemmas.GodambeJOrder
import DadiVerif.Lemmas.GodambeRound5
/-!
# C19 — the uncertainty machinery differentiates exactly and its statistics do not depend on bootstrap order or call history

Property theorems only (helper lemmas: `Lemmas/Godambe.lean`).  `hessDiagC, hessDiag1, hessOffC, hessOff1, gradC, grad1`, the branch
conditions, `hessStep/hessOneSided/gradStep/gradOneSided`, `godambe, lrtAdjust, waldAdj, waldOrg, scoreOrg, scoreAdj`,
`augParams/augModel`, `cacheKeyHoldsRef`, `chi2FlagWhenScalar/chi2FlagWhenArray`, `chi2WeightsBad`, `llBin`, `llMaskModel/llMaskModelLogDomain/llMaskData` (from
`dadi/Inference.py`) and all `…ShapeOk` tables are *generated from the current `dadi/Godambe.py`* by tools/gen_Godambe.py on every run; `hessElem, getHessEntry, getGradEntry, jEntry,
cuEntry, statsOf, runCache, implKey, chi2Mix` are the hand-written rest of the executable model (Model/Godambe.lean) that the driver
runs.  The stencils are polymorphic: statements are over an arbitrary field `K` (ℚ for the driver), all points, all step sizes ≠ 0.
`quadForm` (Lemmas/Godambe.lean) is the class of test functions "every quadratic in n parameters", not code.  §3b instantiates the
generated matrix expressions at Mathlib's matrices; §3c is real analysis (the closed forms of linear Poisson models that the L3 oracle
uses).  §3e (round 5) proves the order statement over ℝ for the class the property names – Poisson log-likelihoods whose means are AFFINE
in the parameters: the generated stencils `gradC/hessDiagC/hessOffC` (and `getGradEntry/getHessEntry`, the definitions the driver runs,
instantiated at ℝ) applied to `Σ llBin(mᵢ, dᵢ, log mᵢ, ·)` (the generated per-entry expression with the true logarithm) differ from the exact
derivatives by at most C·h² / C·eps² with explicit constants (helper analysis: Lemmas/GodambeOrder.lean – Taylor remainders of log from
Mathlib's `abs_log_sub_add_sum_range_le`; GodambeStencilOrder.lean – per entry, linearity of the stencils in the function;
GodambeModelOrder.lean – sums, n-parameter affine models; GodambeJOrder.lean – J and cU); first order for the one-sided stencils.  What
remains numerical: the propagation through the matrix inverses (GIM, uncertainties, LRT, adjusted Wald, score) and multinom/log.
§3f: folded data (the model is folded by `ll_per_bin`; folding is linear, so linear models stay linear) and P-population corners.

Two statements were *false of the originally pinned tree* (findings F-19a, F-19b, since repaired): `C19_chi2_scalar_array`
(`sum_chi2_ppf` left `scalar_input` unbound for array input) and `C19_cache_transparent` (the cache key contained only
`func_ex.__hash__()`, so a freed function's identity could be reused).  One statement is false of the current tree (finding F-19c):
`C19_boot_mask_kept` (`get_godambe` re-wraps every bootstrap with `Spectrum(boot)`, which masks its corner entries whatever mask the
bootstrap was given); it checks once `mask_corners=False` is passed (pending_fixes/C19_bootstrap_corners_remasked.diff).
-/
set_option autoImplicit false
set_option linter.unusedTactic false
set_option linter.unusedVariables false
set_option linter.unusedSectionVars false
namespace DadiVerif
open Gen.Godambe Godambe Godambe.Order

/-! ## 1. the stencils are exact (every quadratic; every step ≠ 0) -/
section Field
variable {K : Type} [Field K]

/-- `hessian_elem`, `ii == jj`, central branch: exact second derivative `2·c₂` of every quadratic along the coordinate -/
theorem C19_hess_diag_c (f : K → K) (c0 c1 c2 : K) (hf : ∀ a, f a = c0 + c1 * a + c2 * a ^ 2) (x h : K) (hh : h ≠ 0) :
    hessDiagC f (f x) x h = 2 * c2 := by
  simp only [hessDiagC, hf, Nat.cast_ofNat]
  field_simp
  ring

/-- `ii == jj`, one-sided branch (`p0[ii] == 0` or tiny): also exact for every quadratic -/
theorem C19_hess_diag_1s (f : K → K) (c0 c1 c2 : K) (hf : ∀ a, f a = c0 + c1 * a + c2 * a ^ 2) (x h : K) (hh : h ≠ 0) :
    hessDiag1 f (f x) x h = 2 * c2 := by
  simp only [hessDiag1, hf, Nat.cast_ofNat]
  field_simp
  ring

example : hessDiagC (fun a : ℚ => 3 + 2 * a + 5 * a ^ 2) (3 + 2 * 7 + 5 * 7 ^ 2) 7 (1 / 100) = 10 := by
  norm_num [hessDiagC]
example : hessDiag1 (fun a : ℚ => 3 + 2 * a + 5 * a ^ 2) 3 0 (1 / 100) = 10 := by
  norm_num [hessDiag1]

/-- `ii != jj`, central branch: the mixed partial `c` of every `f(a,b) = u(a) + v(b) + c·a·b` (u, v arbitrary — in particular of
    every quadratic in the two coordinates), for all points and all steps ≠ 0 (the stencil divides by 4: any field where 4 ≠ 0) -/
theorem C19_hess_off_c (f : K → K → K) (u v : K → K) (c : K) (hf : ∀ a b, f a b = u a + v b + c * a * b)
    (x y h k : K) (hh : h ≠ 0) (hk : k ≠ 0) (h4 : (4 : K) ≠ 0) :
    hessOffC f (f x y) x y h k = c := by
  simp only [hessOffC, hf, Nat.cast_ofNat]
  field_simp
  ring

/-- `ii != jj`, forward branch (a parameter is 0 or tiny): same exactness -/
theorem C19_hess_off_1s (f : K → K → K) (u v : K → K) (c : K) (hf : ∀ a b, f a b = u a + v b + c * a * b)
    (x y h k : K) (hh : h ≠ 0) (hk : k ≠ 0) :
    hessOff1 f (f x y) x y h k = c := by
  simp only [hessOff1, hf]
  field_simp
  ring

/-- the quadratic instance of the two theorems above, as in the property statement -/
theorem C19_hess_off_quadratic (f : K → K → K) (c0 c1 c2 c11 c12 c22 : K)
    (hf : ∀ a b, f a b = c0 + c1 * a + c2 * b + c11 * a ^ 2 + c12 * a * b + c22 * b ^ 2) (x y h k : K) (hh : h ≠ 0) (hk : k ≠ 0)
    (h4 : (4 : K) ≠ 0) :
    hessOffC f (f x y) x y h k = c12 ∧ hessOff1 f (f x y) x y h k = c12 := by
  have hf' : ∀ a b, f a b = (fun a => c0 + c1 * a + c11 * a ^ 2) a + (fun b => c2 * b + c22 * b ^ 2) b + c12 * a * b := by
    intro a b; rw [hf]; ring
  exact ⟨C19_hess_off_c f _ _ c12 hf' x y h k hh hk h4, C19_hess_off_1s f _ _ c12 hf' x y h k hh hk⟩

example : hessOffC (fun a b : ℚ => 1 + a ^ 2 + 7 * a * b - b ^ 2) (1 + 2 ^ 2 + 7 * 2 * 3 - 3 ^ 2) 2 3 (1 / 10) (1 / 5) = 7 := by
  norm_num [hessOffC]
example : hessOff1 (fun a b : ℚ => 1 + a ^ 2 + 7 * a * b - b ^ 2) 1 0 0 (1 / 10) (1 / 5) = 7 := by
  norm_num [hessOff1]

/-- `get_grad`, central difference: exact derivative `c₁ + 2c₂x` of every quadratic -/
theorem C19_grad_c (f : K → K) (c0 c1 c2 : K) (hf : ∀ a, f a = c0 + c1 * a + c2 * a ^ 2) (x h : K) (hh : h ≠ 0)
    (h2 : (2 : K) ≠ 0) :
    gradC f x h = c1 + 2 * c2 * x := by
  simp only [gradC, hf, Nat.cast_ofNat]
  field_simp
  ring

/-- `get_grad`, one-sided difference: exact for every linear function (whatever the value of `two_pt_deriv_test`) -/
theorem C19_grad_1s (f : K → K) (c0 c1 : K) (hf : ∀ a, f a = c0 + c1 * a) (x h : K) (hh : h ≠ 0) (h2 : (2 : K) ≠ 0) :
    grad1 f x h = c1 := by
  simp only [grad1, hf, Nat.cast_ofNat]
  split
  · field_simp; ring
  · field_simp; ring

example : gradC (fun a : ℚ => 3 + 2 * a + 5 * a ^ 2) 7 (1 / 100) = 72 := by norm_num [gradC]
example : grad1 (fun a : ℚ => 3 + 2 * a) 0 (1 / 100) = 2 := by norm_num [grad1, twoPtDerivTest]

/-- beyond quadratics the central second difference has the *exact* error `2·c₄·h²` on quartics (in particular it is still
    exact on cubics): the algebraic content of "O(eps²)" -/
theorem C19_hess_diag_c_quartic (f : K → K) (c0 c1 c2 c3 c4 : K)
    (hf : ∀ a, f a = c0 + c1 * a + c2 * a ^ 2 + c3 * a ^ 3 + c4 * a ^ 4) (x h : K) (hh : h ≠ 0) :
    hessDiagC f (f x) x h = (2 * c2 + 6 * c3 * x + 12 * c4 * x ^ 2) + 2 * c4 * h ^ 2 := by
  simp only [hessDiagC, hf, Nat.cast_ofNat]
  field_simp
  ring

/-- the central gradient has the exact error `c₃·h²` on cubics -/
theorem C19_grad_c_cubic (f : K → K) (c0 c1 c2 c3 : K) (hf : ∀ a, f a = c0 + c1 * a + c2 * a ^ 2 + c3 * a ^ 3) (x h : K)
    (hh : h ≠ 0) (h2 : (2 : K) ≠ 0) :
    gradC f x h = (c1 + 2 * c2 * x + 3 * c3 * x ^ 2) + c3 * h ^ 2 := by
  simp only [gradC, hf, Nat.cast_ofNat]
  field_simp
  ring

/-- the one-sided second difference is only first-order accurate beyond quadratics: exact error `6·c₃·h` on cubics (so
    parameters at 0 or below 1e-6/eps get O(eps), not O(eps²), accuracy — as the code's comments accept) -/
theorem C19_hess_diag_1s_cubic (f : K → K) (c0 c1 c2 c3 : K) (hf : ∀ a, f a = c0 + c1 * a + c2 * a ^ 2 + c3 * a ^ 3) (x h : K)
    (hh : h ≠ 0) :
    hessDiag1 f (f x) x h = (2 * c2 + 6 * c3 * x) + 6 * c3 * h := by
  simp only [hessDiag1, hf, Nat.cast_ofNat]
  field_simp
  ring

end Field

/-! ## 2. `hessian_elem` / `get_hess` / `get_grad` on functions of the whole parameter vector -/
section Vec
variable {K : Type} [Field K] [LinearOrder K] [IsStrictOrderedRing K]

/-- the step rule of `get_hess` and of `get_grad` (both loops are translated): step = eps·p unless p = 0 or eps·p < 1e-6,
    then eps; one-sided stencils are forced exactly in the tiny case -/
theorem C19_eps_rule (p e : K) :
    hessStep p e = (if p = 0 then e else if p * e < 1 / 1000000 then e else e * p)
    ∧ hessOneSided p e = decide (p ≠ 0 ∧ p * e < 1 / 1000000)
    ∧ gradStep p e = hessStep p e ∧ gradOneSided p e = hessOneSided p e := by
  refine ⟨?_, ?_, rfl, rfl⟩
  · unfold hessStep
    by_cases hp : p = 0
    · simp [hp]
    · simp [hp]
  · unfold hessOneSided
    by_cases hp : p = 0
    · simp [hp]
    · simp [hp]

example : hessStep (2 : ℚ) (1 / 100) = 1 / 50 ∧ hessOneSided (2 : ℚ) (1 / 100) = false := by
  constructor <;> norm_num [hessStep, hessOneSided]
example : hessStep (1 / 100000 : ℚ) (1 / 100) = 1 / 100 ∧ hessOneSided (1 / 100000 : ℚ) (1 / 100) = true := by
  constructor <;> norm_num [hessStep, hessOneSided]

/-- the absolute step is never 0 when eps ≠ 0: the hypothesis `h ≠ 0` of the stencil theorems always holds inside
    `get_hess`/`get_grad` -/
theorem C19_step_ne_zero (p e : K) (he : e ≠ 0) : hessStep p e ≠ 0 ∧ gradStep p e ≠ 0 := by
  have h : hessStep p e ≠ 0 := by
    rw [(C19_eps_rule p e).1]
    split_ifs with hp hl
    · exact he
    · exact he
    · exact mul_ne_zero he hp
  exact ⟨h, by rw [(C19_eps_rule p e).2.2.1]; exact h⟩

/-- which stencil `get_hess` uses on the diagonal: central iff the parameter is non-zero and eps·p ≥ 1e-6 -/
theorem C19_stencil_choice (p e : K) :
    (hessDiagCentralCond p (hessOneSided p e) = true ↔ p ≠ 0 ∧ ¬ p * e < 1 / 1000000)
    ∧ (gradCentralCond p (gradOneSided p e) = true ↔ p ≠ 0 ∧ ¬ p * e < 1 / 1000000) := by
  rw [(C19_eps_rule p e).2.2.2, (C19_eps_rule p e).2.1]
  unfold hessDiagCentralCond gradCentralCond
  by_cases hp : p = 0
  · simp [hp]
  · simp [hp]

/-- `hessian_elem` on the diagonal, either branch: exact for every `F` that is quadratic along coordinate `ii` through `p0` -/
theorem C19_hessElem_diag (F : (ℕ → K) → K) (p0 eps : ℕ → K) (os : ℕ → Bool) (ii : ℕ) (c0 c1 c2 : K)
    (hF : ∀ a, F (upd p0 ii a) = c0 + c1 * a + c2 * a ^ 2) (he : eps ii ≠ 0) :
    hessElem F (F p0) p0 eps os ii ii = 2 * c2 := by
  have h0 : F p0 = (fun a => F (upd p0 ii a)) (p0 ii) := by simp [upd_self]
  unfold hessElem
  rw [if_pos rfl, h0]
  split
  · exact C19_hess_diag_c _ c0 c1 c2 hF _ _ he
  · exact C19_hess_diag_1s _ c0 c1 c2 hF _ _ he

/-- `hessian_elem` off the diagonal, either branch: the exact mixed partial of every `F` whose restriction to the coordinate plane
    (ii, jj) through `p0` is `u(a) + v(b) + c·a·b` (every quadratic is) -/
theorem C19_hessElem_off (F : (ℕ → K) → K) (p0 eps : ℕ → K) (os : ℕ → Bool) (ii jj : ℕ) (hij : ii ≠ jj) (u v : K → K) (c : K)
    (hF : ∀ a b, F (upd (upd p0 ii a) jj b) = u a + v b + c * a * b) (hi : eps ii ≠ 0) (hj : eps jj ≠ 0) :
    hessElem F (F p0) p0 eps os ii jj = c := by
  have h0 : F p0 = (fun a b => F (upd (upd p0 ii a) jj b)) (p0 ii) (p0 jj) := by simp [upd_self]
  unfold hessElem
  rw [if_neg hij, h0]
  split
  · exact C19_hess_off_c _ u v c hF _ _ _ _ hi hj four_ne_zero
  · exact C19_hess_off_1s _ u v c hF _ _ _ _ hi hj

/-- `get_hess(F, p0, eps)[i][j]` for every eps ≠ 0, every point (zeros and tiny values included): exact second partials -/
theorem C19_get_hess_exact (F : (ℕ → K) → K) (p0 : ℕ → K) (e : K) (he : e ≠ 0) (i j : ℕ) (hij : i < j) (u v : K → K) (c : K)
    (hF : ∀ a b, F (upd (upd p0 i a) j b) = u a + v b + c * a * b) :
    getHessEntry F p0 e i j = c ∧ getHessEntry F p0 e j i = c := by
  have hne : i ≠ j := ne_of_lt hij
  have key : hessElem F (F p0) p0 (fun k => hessStep (p0 k) e) (fun k => hessOneSided (p0 k) e) i j = c :=
    C19_hessElem_off F p0 _ _ i j hne u v c hF (C19_step_ne_zero _ e he).1 (C19_step_ne_zero _ e he).1
  constructor
  · unfold getHessEntry; rw [min_eq_left hij.le, max_eq_right hij.le]; exact key
  · unfold getHessEntry; rw [min_eq_right hij.le, max_eq_left hij.le]; exact key

theorem C19_get_hess_exact_diag (F : (ℕ → K) → K) (p0 : ℕ → K) (e : K) (he : e ≠ 0) (i : ℕ) (c0 c1 c2 : K)
    (hF : ∀ a, F (upd p0 i a) = c0 + c1 * a + c2 * a ^ 2) :
    getHessEntry F p0 e i i = 2 * c2 := by
  unfold getHessEntry; rw [min_self, max_self]
  exact C19_hessElem_diag F p0 _ _ i c0 c1 c2 hF (C19_step_ne_zero _ e he).1

/-- `get_grad(F, p0, eps)[i]`: exact for quadratics where the central difference is used, exact for linear functions always -/
theorem C19_get_grad_exact (F : (ℕ → K) → K) (p0 : ℕ → K) (e : K) (he : e ≠ 0) (i : ℕ) (c0 c1 c2 : K)
    (hF : ∀ a, F (upd p0 i a) = c0 + c1 * a + c2 * a ^ 2)
    (hcase : c2 = 0 ∨ (p0 i ≠ 0 ∧ ¬ p0 i * e < 1 / 1000000)) :
    getGradEntry F p0 e i = c1 + 2 * c2 * p0 i := by
  have h2 : (2 : K) ≠ 0 := two_ne_zero
  have hs := (C19_step_ne_zero (p0 i) e he).2
  unfold getGradEntry
  split
  · exact C19_grad_c _ c0 c1 c2 hF _ _ hs h2
  · rename_i hc
    rcases hcase with h0 | hcen
    · subst h0
      have hF' : ∀ a, F (upd p0 i a) = c0 + c1 * a := by intro a; rw [hF]; ring
      rw [C19_grad_1s _ c0 c1 hF' _ _ hs h2]; ring
    · exact absurd ((C19_stencil_choice (p0 i) e).2.mpr hcen) hc

/-- **every quadratic function of n parameters** `c + Σ bₖpₖ + Σ Aₖₗpₖpₗ`: `get_hess` returns exactly its Hessian `A + Aᵀ`, entry by
    entry, at every point (zeros, tiny and negative values included) and for every eps ≠ 0 -/
theorem C19_get_hess_quadratic (n : ℕ) (c : K) (b : ℕ → K) (A : ℕ → ℕ → K) (p0 : ℕ → K) (e : K) (he : e ≠ 0) (i j : ℕ)
    (hi : i < n) (hj : j < n) :
    getHessEntry (quadForm n c b A) p0 e i j = A i j + A j i := by
  rcases lt_trichotomy i j with hlt | heq | hgt
  · obtain ⟨u, v, huv⟩ := quadForm_plane n c b A p0 i j (ne_of_lt hlt) hi hj
    exact (C19_get_hess_exact _ p0 e he i j hlt u v _ huv).1
  · subst heq
    obtain ⟨c0, c1, hc⟩ := quadForm_line n c b A p0 i hi
    rw [C19_get_hess_exact_diag _ p0 e he i c0 c1 (A i i) hc]; ring
  · obtain ⟨u, v, huv⟩ := quadForm_plane n c b A p0 j i (ne_of_lt hgt) hj hi
    rw [(C19_get_hess_exact _ p0 e he j i hgt u v _ huv).2]; ring

example : getHessEntry (quadForm 3 (1 : ℚ) (fun k => k) (fun k l => k + 2 * l)) (fun k => if k = 1 then 0 else 1 / 1000000) (1 / 100) 2 1
    = (2 + 2 * 1) + (1 + 2 * 2) := by
  rw [C19_get_hess_quadratic 3 _ _ _ _ _ (by norm_num) 2 1 (by norm_num) (by norm_num)]; norm_num

/-- the matrix `get_hess` returns is symmetric (the loop mirrors the upper triangle) … -/
theorem C19_hess_symm (F : (ℕ → K) → K) (p0 : ℕ → K) (e : K) (i j : ℕ) :
    getHessEntry F p0 e i j = getHessEntry F p0 e j i := by
  unfold getHessEntry; rw [min_comm, max_comm]

/-- … and nothing is lost by mirroring: `hessian_elem` itself is symmetric in (ii, jj) for every function, point, step vector and
    one-sided pattern (conditions and both off-diagonal stencils are invariant under exchanging the two coordinates) -/
theorem C19_hess_elem_symm (F : (ℕ → K) → K) (f0 : K) (p0 eps : ℕ → K) (os : ℕ → Bool) (ii jj : ℕ) :
    hessElem F f0 p0 eps os ii jj = hessElem F f0 p0 eps os jj ii := by
  by_cases h : ii = jj
  · subst h; rfl
  · have h' : jj ≠ ii := fun q => h q.symm
    unfold hessElem
    rw [if_neg h, if_neg h']
    have hc : hessOffCentralCond (p0 ii) (p0 jj) (os ii) (os jj) = hessOffCentralCond (p0 jj) (p0 ii) (os jj) (os ii) := by
      unfold hessOffCentralCond
      generalize (p0 ii != ((0 : ℕ) : K)) = a
      generalize (p0 jj != ((0 : ℕ) : K)) = b
      cases a <;> cases b <;> cases os ii <;> cases os jj <;> rfl
    have hu : ∀ a b, upd (upd p0 ii a) jj b = upd (upd p0 jj b) ii a := fun a b => upd_comm p0 ii jj a b h
    rw [hc]
    split
    · simp only [hessOffC, hu]; ring
    · simp only [hessOff1, hu]; ring

example : getHessEntry (fun p : ℕ → ℚ => 3 + 2 * p 0 + 5 * p 0 ^ 2 + 7 * p 0 * p 1 + 11 * p 1 ^ 2) (fun k => if k = 0 then 1 / 2 else 0)
    (1 / 100) 0 1 = 7 := by
  norm_num [getHessEntry, hessElem, hessOffCentralCond, hessOffC, hessOff1, hessStep, hessOneSided, upd]

end Vec

/-! ## 3. bootstrap order -/

/-- J and cU do not depend on the order of the bootstrap list … -/
theorem C19_boot_perm_J (g g' : List (List ℚ)) (hp : g.Perm g') (i j : ℕ) :
    jEntry g i j = jEntry g' i j ∧ cuEntry g i = cuEntry g' i := by
  unfold jEntry cuEntry
  rw [(hp.map _).sum_eq, hp.length_eq]
  refine ⟨rfl, ?_⟩
  rw [(hp.map (fun g : List ℚ => g.getD i 0)).sum_eq]

/-- … hence neither do the Godambe matrix, the GIM/FIM variances, the LRT adjustment, the Wald and the score statistics (all
    of them, as the generated matrix expressions evaluate them) -/
theorem C19_boot_perm (n : ℕ) (H : Mat) (g g' : List (List ℚ)) (hp : g.Perm g') (d : List ℚ) :
    statsOf n H g d = statsOf n H g' d := by
  have hJ : assembleJ n g = assembleJ n g' := by
    unfold assembleJ tabulate
    simp only [(C19_boot_perm_J g g' hp _ _).1]
  have hU : assembleCU n g = assembleCU n g' := by
    unfold assembleCU tabulate
    simp only [(C19_boot_perm_J g g' hp _ 0).2]
  unfold statsOf
  rw [hJ, hU]

example : statsOf 2 [[2, 1], [1, 3]] [[1, 2], [3, 1], [0, 1]] [1, 1] = statsOf 2 [[2, 1], [1, 3]] [[0, 1], [1, 2], [3, 1]] [1, 1] :=
  C19_boot_perm 2 _ _ _ (by decide) _

/-- … and under permuting the (bootstrap, theta_adjust) PAIRS together: `get_godambe` zips the two lists, so what matters is the multiset of
    pairs -/
theorem C19_boot_perm_pairs {β θ : Type} (n : ℕ) (H : Mat) (score : β → θ → List ℚ) (boots boots' : List β) (adjs adjs' : List θ)
    (hp : (boots.zip adjs).Perm (boots'.zip adjs')) (d : List ℚ) :
    statsOf n H (bootGrads score boots adjs) d = statsOf n H (bootGrads score boots' adjs') d :=
  C19_boot_perm n H _ _ (hp.map _) d

/-- the same, for a list of pairs and any permutation of it -/
theorem C19_boot_perm_pairs_list {β θ : Type} (n : ℕ) (H : Mat) (score : β → θ → List ℚ) (l l' : List (β × θ)) (hp : l.Perm l') (d : List ℚ) :
    statsOf n H (bootGrads score (l.map Prod.fst) (l.map Prod.snd)) d = statsOf n H (bootGrads score (l'.map Prod.fst) (l'.map Prod.snd)) d := by
  apply C19_boot_perm_pairs
  have e : ∀ q : List (β × θ), (q.map Prod.fst).zip (q.map Prod.snd) = q := by
    intro q; induction q with
    | nil => rfl
    | cons a t ih => simp [ih]
  rw [e, e]; exact hp

example : statsOf 1 [[2]] (bootGrads (fun b a : ℚ => [b - a]) [1, 2, 5] [1, 3, 2]) [1]
    = statsOf 1 [[2]] (bootGrads (fun b a : ℚ => [b - a]) [5, 1, 2] [2, 1, 3]) [1] :=
  C19_boot_perm_pairs 1 _ _ _ _ _ _ (by decide) _

/-- … but NOT under permuting the bootstraps and the adjustments separately: with the exact score `b/M·B − a·B` of a one-entry linear
    Poisson model (M = B = 1) the bootstraps (1, 2) with adjustments (1, 2) give J = 0, the bootstraps (2, 1) with the same adjustments J = 1 -/
theorem C19_boot_perm_separate_counterexample :
    ([2, 1] : List ℚ).Perm [1, 2]
    ∧ jEntry (bootGrads (fun b a : ℚ => [b - a]) [1, 2] [1, 2]) 0 0 = 0
    ∧ jEntry (bootGrads (fun b a : ℚ => [b - a]) [2, 1] [1, 2]) 0 0 = 1 := by
  refine ⟨by decide, ?_, ?_⟩ <;> norm_num [bootGrads, jEntry]


/-! ## 3b. information equality: the closed form the adjusted statistics reduce to when J = H -/
section InfoEq
open Matrix
variable {m : ℕ}

/-- the generated matrix expressions over Mathlib's matrices -/
noncomputable def matOps (m : ℕ) : MatOps (Matrix (Fin m) (Fin m) ℚ) ℚ where
  dot := fun a b => a * b
  inv := fun a => a⁻¹
  transpose := Matrix.transpose
  trace := Matrix.trace
  entry00 := fun _ => 0

/-- when the bootstrap variability of the score equals the observed information (J = H, the well-specified case) the Godambe
    matrix H·J⁻¹·H is H itself and the LRT adjustment `len(nested)/trace(J·H⁻¹)` is 1: adjusted and unadjusted statistics coincide -/
theorem C19_info_equality (H : Matrix (Fin m) (Fin m) ℚ) (hH : IsUnit H.det) (hm : m ≠ 0) :
    godambe (matOps m) H H = H ∧ lrtAdjust (matOps m) (m : ℚ) H H = 1 := by
  constructor
  · simp only [godambe, matOps]
    rw [Matrix.mul_nonsing_inv H hH, Matrix.one_mul]
  · simp only [lrtAdjust, matOps]
    rw [Matrix.mul_nonsing_inv H hH, Matrix.trace_one, Fintype.card_fin]
    exact div_self (by exact_mod_cast hm)

example : godambe (matOps 2) !![2, 1; 1, 3] !![2, 1; 1, 3] = !![2, 1; 1, 3] :=
  (C19_info_equality _ (by simp [Matrix.det_fin_two]; norm_num) (by norm_num)).1

/-- the same operations on (m+1)×(m+1) matrices with `[0,0]` read off (a column vector = a matrix whose other columns are 0) -/
noncomputable def matOps1 (m : ℕ) : MatOps (Matrix (Fin (m + 1)) (Fin (m + 1)) ℚ) ℚ where
  dot := fun a b => a * b
  inv := fun a => a⁻¹
  transpose := Matrix.transpose
  trace := Matrix.trace
  entry00 := fun a => a 0 0

/-- the statistics *as written in the current source* are the closed forms of the property, with all cross terms: the Godambe matrix is
    H·J⁻¹·H; the LRT adjustment is k / trace(J·H⁻¹) = k / Σᵢ Σⱼ Jᵢⱼ·(H⁻¹)ⱼᵢ (off-diagonal products included, J first); the Wald
    statistics are dᵀ·G·d and dᵀ·H·d; the score statistics are cUᵀ·H⁻¹·cU (unadjusted) and cUᵀ·J⁻¹·cU (adjusted) -/
theorem C19_stat_closed_forms (k : ℚ) (J H G d cU : Matrix (Fin (m + 1)) (Fin (m + 1)) ℚ) :
    godambe (matOps1 m) H J = H * J⁻¹ * H
    ∧ lrtAdjust (matOps1 m) k J H = k / ∑ i, ∑ j, J i j * H⁻¹ j i
    ∧ waldAdj (matOps1 m) d G H = dᵀ * G * d ∧ waldOrg (matOps1 m) d G H = dᵀ * H * d
    ∧ scoreOrg (matOps1 m) cU H J = (cUᵀ * H⁻¹ * cU) 0 0 ∧ scoreAdj (matOps1 m) cU H J = (cUᵀ * J⁻¹ * cU) 0 0 := by
  refine ⟨rfl, ?_, rfl, rfl, rfl, rfl⟩
  simp only [lrtAdjust, matOps1, Matrix.trace, Matrix.diag, Matrix.mul_apply]

end InfoEq

/-! ## 3c. the closed forms the finite differences are compared with (linear Poisson models) -/

/-- For a model whose expected spectrum is affine in its parameters (`M + t·B` along any parameter direction `B`), the exact
    derivative of the Poisson log-likelihood `Σ (−M + d·log M)` (the `−log d!` term does not depend on the parameters) along `Bk` is the
    score `Σ (−Bk + d·Bk/M)`, and the exact derivative of that score along `Bl` is `−Σ d·Bk·Bl/M²`: the observed information of
    `get_godambe` is `H_kl = Σ d·Bk·Bl/M²`, its bootstrap scores are `g_k = Σ (boot/M − 1)·Bk`.  These are the closed forms L3 uses;
    that the *finite-difference* values agree with them within O(eps²) is numerical (see `chk.unproved`). -/
theorem C19_linear_poisson_exact_parts {ι : Type} (cells : Finset ι) (M Bk Bl d : ι → ℝ) (hM : ∀ i ∈ cells, M i ≠ 0) :
    HasDerivAt (fun t : ℝ => ∑ i ∈ cells, (-(M i + t * Bk i) + d i * Real.log (M i + t * Bk i)))
      (∑ i ∈ cells, (-(Bk i) + d i * Bk i / M i)) 0
    ∧ HasDerivAt (fun t : ℝ => ∑ i ∈ cells, (-(Bk i) + d i * Bk i / (M i + t * Bl i)))
      (-(∑ i ∈ cells, d i * Bk i * Bl i / M i ^ 2)) 0 :=
  ⟨poisson_score cells M Bk d hM, poisson_info cells M Bk Bl d hM⟩

example : HasDerivAt (fun t : ℝ => ∑ i ∈ Finset.range 2, (-((2 : ℝ) + t * 3) + 5 * Real.log (2 + t * 3)))
    (∑ i ∈ Finset.range 2, (-(3 : ℝ) + 5 * 3 / 2)) 0 :=
  (C19_linear_poisson_exact_parts (Finset.range 2) (fun _ => 2) (fun _ => 3) (fun _ => 3) (fun _ => 5) (by intro i _; norm_num)).1

/-! ## 3d. which entries enter the likelihood that `get_godambe` differentiates (`Inference.ll`) -/

/-- an entry is left out of `ll(model, data)` exactly when it is masked in the model **or** in the data (or the model is not
    positive there: masked logarithm) — `Inference.ll`'s documented rule.  About the generated mask analysis of the expression
    `ll_per_bin` evaluates: if some operand that carried the data's (or the model's) mask is replaced by its raw `.data`, the
    corresponding generated flag is `false` and this does not check. -/
theorem C19_ll_joint_mask (c : LLCell) : llCellMasked c = (c.mm || c.dm || decide (c.m ≤ 0)) := by
  have h1 : llMaskModel = true := by decide
  have h2 : llMaskModelLogDomain = true := by decide
  have h3 : llMaskData = true := by decide
  unfold llCellMasked
  rw [h1, h2, h3]
  cases c.mm <;> cases c.dm <;> simp

/-- `ll` is the sum of `−M + d·log M − log d!` over the entries that are masked in **neither** the model **nor** the data (and where
    the model is positive): the index set `cells` of the closed forms of §3c (`C19_linear_poisson_exact_parts`) is the set of jointly
    unmasked entries, for the data (observed information H) and for every bootstrap separately (its score) -/
theorem C19_ll_sum_joint (cells : List LLCell) :
    llSum cells = ((cells.filter fun c => !c.mm && !c.dm && decide (0 < c.m)).map fun c => -c.m + c.d * c.logm - c.lgam).sum
    ∧ llCount cells = (cells.filter fun c => !c.mm && !c.dm && decide (0 < c.m)).length
    ∧ llShapeOk = true := by
  have hf : (fun c : LLCell => !llCellMasked c) = (fun c => !c.mm && !c.dm && decide (0 < c.m)) := by
    funext c
    rw [C19_ll_joint_mask]
    by_cases hpos : 0 < c.m
    · have hle : ¬ c.m ≤ 0 := not_le.mpr hpos
      cases c.mm <;> cases c.dm <;> simp [hpos, hle]
    · have hle : c.m ≤ 0 := not_lt.mp hpos
      cases c.mm <;> cases c.dm <;> simp [hpos, hle]
  refine ⟨?_, ?_, by decide⟩
  · unfold llSum
    rw [hf]
    simp only [llBin]
  · unfold llCount
    rw [hf]

/-- hence whatever stands in an entry that the data (or a bootstrap) masks — and whatever the model predicts there — has no influence
    on the likelihood, for every parameter value: not on its Hessian, not on the bootstrap scores, not on anything derived from them -/
theorem C19_ll_ignores_masked (pre post : List LLCell) (c : LLCell) (h : c.mm = true ∨ c.dm = true) :
    llSum (pre ++ c :: post) = llSum (pre ++ post) := by
  have hm : llCellMasked c = true := by
    rw [C19_ll_joint_mask]
    rcases h with h | h <;> simp [h]
  unfold llSum
  simp [List.filter_append, hm]

/-- every bootstrap's likelihood is taken on the bootstrap with exactly the mask it was given — as the data's is, so that H (from the
    data) and J (from the bootstraps) sum over the same kind of entry set.  About the generated `bootMaskKept`; on the pinned tree
    `boot = Spectrum(boot)` masks the corner entries in addition and this statement does not check (finding F-19c). -/
theorem C19_boot_mask_kept (given : List Bool) : bootSeenMask given = given := by
  have h : bootMaskKept = true := by decide
  simp [bootSeenMask, h]

/-- the part of `C19_boot_mask_kept` that holds whatever the constructor call: a bootstrap whose two corner entries are masked anyway
    (the ordinary case) is seen with exactly the mask it was given, so that bootstraps masking other entries than the data — or than
    each other — contribute their score over their own jointly unmasked entries.  Missing from the full statement on the current
    tree: bootstraps with a visible corner (finding F-19c). -/
theorem C19_boot_mask_kept_partial (given : List Bool) (h0 : given.head? = some true) (hl : given.getLast? = some true) :
    bootSeenMask given = given := by
  unfold bootSeenMask
  split
  · rfl
  · apply List.ext_getElem
    · simp
    · intro i h1 h2
      simp only [List.getElem_map, List.getElem_range]
      have hi : i < given.length := h2
      have hg : given.getD i false = given[i] := by simp [List.getD_eq_getElem?_getD, List.getElem?_eq_getElem hi]
      rw [hg]
      by_cases hz : i = 0
      · subst hz
        have : given[0] = true := by
          rw [List.head?_eq_getElem?] at h0
          rw [List.getElem?_eq_getElem hi] at h0
          exact Option.some.inj h0
        rw [this]; simp
      · by_cases hL : i + 1 = given.length
        · have : given[i] = true := by
            rw [List.getLast?_eq_getElem?] at hl
            have hidx : given.length - 1 = i := by omega
            rw [hidx, List.getElem?_eq_getElem hi] at hl
            exact Option.some.inj hl
          rw [this]; simp
        · have e1 : (i == 0) = false := beq_eq_false_iff_ne.mpr hz
          have e2 : (i + 1 == given.length) = false := beq_eq_false_iff_ne.mpr hL
          rw [e1, e2, Bool.or_false, Bool.or_false]

example : bootSeenMask [true, false, true, false, false, true] = [true, false, true, false, false, true] :=
  C19_boot_mask_kept_partial _ rfl rfl

example : llSum [⟨true, false, 0, 0, 0, 0⟩, ⟨false, true, 4, 7, 3 / 2, 9⟩, ⟨false, false, 2, 3, 1 / 2, 2⟩, ⟨true, true, 0, 0, 0, 0⟩]
    = -2 + 3 * (1 / 2) - 2 := by
  rw [(C19_ll_sum_joint _).1]; decide +kernel

/-! ## 3e. order of accuracy on linear Poisson models (real analysis; explicit constants) -/
section OrderOfAccuracy
variable {ι : Type} (s : Finset ι)

/-- the closed forms are the derivatives, at every point of the coordinate line (not only at 0): `scoreLine` is the derivative of the
    log-likelihood `llLine` (generated `llBin` summed over the entries, true logarithm) and `d2Line` the derivative of `scoreLine` -/
theorem C19_ll_derivatives (A β d lg : ι → ℝ) (x : ℝ) (hm : ∀ i ∈ s, A i + x * β i ≠ 0) :
    HasDerivAt (llLine s A β d lg) (scoreLine s A β d x) x ∧ HasDerivAt (scoreLine s A β d) (d2Line s A β d x) x :=
  ⟨llLine_hasDerivAt s A β d lg x hm, scoreLine_hasDerivAt s A β d x hm⟩

example : HasDerivAt (llLine (Finset.range 2) (fun _ => 2) (fun _ => 1) (fun _ => 3) (fun _ => 0))
    (scoreLine (Finset.range 2) (fun _ => 2) (fun _ => 1) (fun _ => 3) 1) 1 :=
  (C19_ll_derivatives (Finset.range 2) (fun _ => 2) (fun _ => 1) (fun _ => 3) (fun _ => 0) 1 (by intro i _; norm_num)).1

/-- **central stencils are second order on every Poisson log-likelihood with affine means**, with explicit constants: for every step
    `h ≠ 0` and every `μ > 0` that bounds the means from below over the stencil's interval (`μ ≤ mᵢ(x) − |h·βᵢ|`),
    `|gradC − ll'| ≤ (Σ|dᵢ||βᵢ|³/μ³)·h²` and `|hessDiagC − ll''| ≤ (Σ|dᵢ|βᵢ⁴/μ⁴)·h²` -/
theorem C19_central_order (A β d lg : ι → ℝ) (x h μ : ℝ) (hh : h ≠ 0) (hμ : 0 < μ) (hb : ∀ i ∈ s, μ ≤ A i + x * β i - |h * β i|) :
    |gradC (llLine s A β d lg) x h - scoreLine s A β d x| ≤ (∑ i ∈ s, |d i| * |β i| ^ 3) / μ ^ 3 * h ^ 2
    ∧ |hessDiagC (llLine s A β d lg) (llLine s A β d lg x) x h - d2Line s A β d x| ≤ (∑ i ∈ s, |d i| * β i ^ 4) / μ ^ 4 * h ^ 2 :=
  ⟨gradC_order s A β d lg x h μ hh hμ hb, hessDiagC_order s A β d lg x h μ hh hμ hb⟩

/-- the central mixed stencil: `|hessOffC − ∂²ll/∂a∂b| ≤ Σ|dᵢ|(|hβᵢ|+|kγᵢ|)⁴ / (2|h||k|μ⁴)` – fourth order in the steps over `h·k`, hence
    second order in eps when both steps are proportional to eps (`C19_get_hess_order`) -/
theorem C19_central_mixed_order (A β γ d lg : ι → ℝ) (x y h k μ : ℝ) (hh : h ≠ 0) (hk : k ≠ 0) (hμ : 0 < μ)
    (hb : ∀ i ∈ s, μ ≤ A i + x * β i + y * γ i - (|h * β i| + |k * γ i|)) :
    |hessOffC (llPlane s A β γ d lg) (llPlane s A β γ d lg x y) x y h k - d2Plane s A β γ d x y|
      ≤ (∑ i ∈ s, |d i| * (|h * β i| + |k * γ i|) ^ 4) / (2 * |h| * |k| * μ ^ 4) :=
  hessOffC_order s A β γ d lg x y h k μ hh hk hμ hb

example : |hessOffC (llPlane (Finset.range 2) (fun _ => 4) (fun _ => 1) (fun _ => 2) (fun _ => 3) (fun _ => 0))
      (llPlane (Finset.range 2) (fun _ => 4) (fun _ => 1) (fun _ => 2) (fun _ => 3) (fun _ => 0) 1 1) 1 1 (1 / 10) (1 / 10)
      - d2Plane (Finset.range 2) (fun _ => 4) (fun _ => 1) (fun _ => 2) (fun _ => 3) 1 1|
    ≤ (∑ i ∈ Finset.range 2, |(3 : ℝ)| * (|(1 / 10 : ℝ) * 1| + |(1 / 10 : ℝ) * 2|) ^ 4) / (2 * |(1 / 10 : ℝ)| * |(1 / 10 : ℝ)| * 1 ^ 4) :=
  C19_central_mixed_order (Finset.range 2) (fun _ => 4) (fun _ => 1) (fun _ => 2) (fun _ => 3) (fun _ => 0) 1 1 (1 / 10) (1 / 10) 1
    (by norm_num) (by norm_num) (by norm_num) (by intro i _; norm_num [abs_of_pos])

/-- **one-sided stencils are first order** (parameters at 0 or below 1e-6/eps): explicit constants; the three-point gradient formula of
    `two_pt_deriv_test` would be second order -/
theorem C19_one_sided_order (A β γ d lg : ι → ℝ) (x y h k μ : ℝ) (hh : h ≠ 0) (hk : k ≠ 0) (hμ : 0 < μ)
    (hb : ∀ i ∈ s, μ ≤ A i + x * β i - 2 * |h * β i|)
    (hb2 : ∀ i ∈ s, μ ≤ A i + x * β i + y * γ i - (|h * β i| + |k * γ i|)) :
    |grad1 (llLine s A β d lg) x h - scoreLine s A β d x|
        ≤ (if twoPtDerivTest then 6 * (∑ i ∈ s, |d i| * |β i| ^ 3) / μ ^ 3 * h ^ 2 else (∑ i ∈ s, |d i| * β i ^ 2) / μ ^ 2 * |h|)
    ∧ |hessDiag1 (llLine s A β d lg) (llLine s A β d lg x) x h - d2Line s A β d x| ≤ 10 * (∑ i ∈ s, |d i| * |β i| ^ 3) / μ ^ 3 * |h|
    ∧ |hessOff1 (llPlane s A β γ d lg) (llPlane s A β γ d lg x y) x y h k - d2Plane s A β γ d x y|
        ≤ 3 * (∑ i ∈ s, |d i| * (|h * β i| + |k * γ i|) ^ 3) / (|h| * |k| * μ ^ 3) :=
  ⟨grad1_order s A β d lg x h μ hh hμ hb, hessDiag1_order s A β d lg x h μ hh hμ hb, hessOff1_order s A β γ d lg x y h k μ hh hk hμ hb2⟩

example : |hessDiag1 (llLine (Finset.range 2) (fun _ => 2) (fun _ => 1) (fun _ => 3) (fun _ => 0))
      (llLine (Finset.range 2) (fun _ => 2) (fun _ => 1) (fun _ => 3) (fun _ => 0) 0) 0 (1 / 100)
      - d2Line (Finset.range 2) (fun _ => 2) (fun _ => 1) (fun _ => 3) 0|
    ≤ 10 * (∑ i ∈ Finset.range 2, |(3 : ℝ)| * |(1 : ℝ)| ^ 3) / 1 ^ 3 * |(1 / 100 : ℝ)| :=
  (C19_one_sided_order (Finset.range 2) (fun _ => 2) (fun _ => 1) (fun _ => 1) (fun _ => 3) (fun _ => 0) 0 0 (1 / 100) (1 / 100) 1
    (by norm_num) (by norm_num) (by norm_num) (by intro i _; norm_num [abs_of_pos]) (by intro i _; norm_num [abs_of_pos])).2.1

example : |gradC (llLine (Finset.range 2) (fun _ => 2) (fun _ => 1) (fun _ => 3) (fun _ => 0)) 1 (1 / 10)
      - scoreLine (Finset.range 2) (fun _ => 2) (fun _ => 1) (fun _ => 3) 1|
    ≤ (∑ i ∈ Finset.range 2, |(3 : ℝ)| * |(1 : ℝ)| ^ 3) / 1 ^ 3 * (1 / 10) ^ 2 :=
  (C19_central_order (Finset.range 2) (fun _ => 2) (fun _ => 1) (fun _ => 3) (fun _ => 0) 1 (1 / 10) 1 (by norm_num) (by norm_num)
    (by intro i _; norm_num [abs_of_pos])).1

/-- **`get_grad` and `get_hess` applied to the log-likelihood of a model LINEAR in its n parameters** (`affModel`: entry c is
    `B0 c + Σₖ pₖ·Bₖ c`; `poissonLL` = Σ over the entries that enter of the generated `llBin` with the true logarithm), parameters in the
    central regime (`p ≠ 0`, `p·eps ≥ 1e-6`): the values the model's `getGradEntry`/`getHessEntry` return differ from the closed forms
    `scoreExact`, `d2Exact` (= −H) by at most `C·eps²`, C explicit in |d|, the slopes B, the parameter values and a lower bound μ of the
    model over the stencil's box -/
theorem C19_get_grad_order (n : ℕ) (B0 : ι → ℝ) (B : ℕ → ι → ℝ) (d lg : ι → ℝ) (p0 : ℕ → ℝ) (e μ : ℝ) (i : ℕ) (hi : i < n) (he : e ≠ 0)
    (hc : Central (p0 i) e) (hμ : 0 < μ) (hb : ∀ c ∈ s, μ ≤ affModel n B0 B p0 c - |e * p0 i * B i c|) :
    |getGradEntry (poissonLL s n B0 B d lg) p0 e i - scoreExact s n B0 B d p0 i|
      ≤ (∑ c ∈ s, |d c| * |B i c| ^ 3) * p0 i ^ 2 / μ ^ 3 * e ^ 2 :=
  getGrad_order s n B0 B d lg p0 e μ i hi he hc hμ hb

example : |getGradEntry (poissonLL (Finset.range 2) 1 (fun _ => 5) (fun _ _ => 1) (fun _ => 3) (fun _ => 0)) (fun _ => 1) (1 / 100) 0
      - scoreExact (Finset.range 2) 1 (fun _ => 5) (fun _ _ => 1) (fun _ => 3) (fun _ => 1) 0|
    ≤ (∑ c ∈ Finset.range 2, |(3 : ℝ)| * |(1 : ℝ)| ^ 3) * (1 : ℝ) ^ 2 / 1 ^ 3 * (1 / 100) ^ 2 :=
  C19_get_grad_order (Finset.range 2) 1 (fun _ => 5) (fun _ _ => 1) (fun _ => 3) (fun _ => 0) (fun _ => 1) (1 / 100) 1 0 (by norm_num)
    (by norm_num) ⟨by norm_num, by norm_num⟩ (by norm_num) (by intro c _; norm_num [affModel, Finset.sum_range_succ, abs_of_pos])

theorem C19_get_hess_order (n : ℕ) (B0 : ι → ℝ) (B : ℕ → ι → ℝ) (d lg : ι → ℝ) (p0 : ℕ → ℝ) (e μ : ℝ) (i j : ℕ) (hij : i ≤ j) (hj : j < n)
    (he : e ≠ 0) (hci : Central (p0 i) e) (hcj : Central (p0 j) e) (hμ : 0 < μ)
    (hb : ∀ c ∈ s, μ ≤ affModel n B0 B p0 c - (|e * p0 i * B i c| + |e * p0 j * B j c|)) :
    |getHessEntry (poissonLL s n B0 B d lg) p0 e i j - d2Exact s n B0 B d p0 i j|
      ≤ (if i = j then (∑ c ∈ s, |d c| * B i c ^ 4) * p0 i ^ 2 / μ ^ 4
         else (∑ c ∈ s, |d c| * (|p0 i * B i c| + |p0 j * B j c|) ^ 4) / (2 * |p0 i| * |p0 j| * μ ^ 4)) * e ^ 2
    ∧ getHessEntry (poissonLL s n B0 B d lg) p0 e j i = getHessEntry (poissonLL s n B0 B d lg) p0 e i j := by
  refine ⟨?_, C19_hess_symm _ _ _ _ _⟩
  split
  · rename_i h; subst h
    exact getHess_diag_order s n B0 B d lg p0 e μ i hj he hci hμ
      (fun c hc => (hb c hc).trans (by have := abs_nonneg (e * p0 i * B i c); linarith))
  · rename_i h
    exact getHess_off_order s n B0 B d lg p0 e μ i j (lt_of_le_of_ne hij h) hj he hci hcj hμ hb


example : |getHessEntry (poissonLL (Finset.range 2) 2 (fun _ => 5) (fun _ _ => 1) (fun _ => 3) (fun _ => 0)) (fun _ => 1) (1 / 100) 0 1
      - d2Exact (Finset.range 2) 2 (fun _ => 5) (fun _ _ => 1) (fun _ => 3) (fun _ => 1) 0 1|
    ≤ (if (0 : ℕ) = 1 then (∑ c ∈ Finset.range 2, |(3 : ℝ)| * (1 : ℝ) ^ 4) * (1 : ℝ) ^ 2 / 1 ^ 4
       else (∑ c ∈ Finset.range 2, |(3 : ℝ)| * (|(1 : ℝ) * 1| + |(1 : ℝ) * 1|) ^ 4) / (2 * |(1 : ℝ)| * |(1 : ℝ)| * 1 ^ 4)) * (1 / 100) ^ 2 :=
  (C19_get_hess_order (Finset.range 2) 2 (fun _ => 5) (fun _ _ => 1) (fun _ => 3) (fun _ => 0) (fun _ => 1) (1 / 100) 1 0 1 (by norm_num)
    (by norm_num) (by norm_num) ⟨by norm_num, by norm_num⟩ ⟨by norm_num, by norm_num⟩ (by norm_num)
    (by intro c _; norm_num [affModel, Finset.sum_range_succ, abs_of_pos])).1

/-- J and cU (the model's `jEntry`, `cuEntry`, over any ordered field: ℚ as the driver runs them) are Lipschitz in the bootstrap
    gradients -/
theorem C19_J_cU_lipschitz {K : Type} [Field K] [LinearOrder K] [IsStrictOrderedRing K] (i j : ℕ) (δi δj Γi Γj : K)
    (gh g : List (List K)) (hne : g ≠ []) (h : GradClose i j δi δj Γi Γj gh g) :
    |jEntry gh i j - jEntry g i j| ≤ δi * Γj + Γi * δj + δi * δj ∧ |cuEntry gh i - cuEntry g i| ≤ δi :=
  jEntry_perturb i j δi δj Γi Γj gh g hne h

example : |jEntry [[(1 : ℚ), 2], [3, 5]] 0 1 - jEntry [[1, 2], [3, 4]] 0 1| ≤ 0 * 4 + 3 * 1 + 0 * 1 :=
  (C19_J_cU_lipschitz 0 1 0 1 3 4 _ _ (by simp) (by
    unfold GradClose
    refine List.Forall₂.cons ?_ (List.Forall₂.cons ?_ List.Forall₂.nil) <;> norm_num [abs_of_pos])).1

/-- **J and cU within O(eps²) of their closed forms**: N bootstraps, bootstrap b with its own data `d b` and its own (theta_adjust-scaled)
    linear model `B0 b`, `B b`; `get_grad` of every bootstrap's log-likelihood in the central regime.  With `Dᵢ` bounding the constants of
    `C19_get_grad_order` over the bootstraps and `Γᵢ` bounding the exact scores:
    `|Ĵᵢⱼ − Jᵢⱼ| ≤ (DᵢΓⱼ + ΓᵢDⱼ)·eps² + DᵢDⱼ·eps⁴`, `|cÛᵢ − cUᵢ| ≤ Dᵢ·eps²` -/
theorem C19_J_cU_order (N n : ℕ) (hN : 0 < N) (B0 : ℕ → ι → ℝ) (B : ℕ → ℕ → ι → ℝ) (d lg : ℕ → ι → ℝ) (p0 : ℕ → ℝ) (e μ : ℝ)
    (i j : ℕ) (hi : i < n) (hj : j < n) (he : e ≠ 0) (hci : Central (p0 i) e) (hcj : Central (p0 j) e) (hμ : 0 < μ)
    (hbi : ∀ b < N, ∀ c ∈ s, μ ≤ affModel n (B0 b) (B b) p0 c - |e * p0 i * B b i c|)
    (hbj : ∀ b < N, ∀ c ∈ s, μ ≤ affModel n (B0 b) (B b) p0 c - |e * p0 j * B b j c|)
    (Di Dj Γi Γj : ℝ)
    (hDi : ∀ b < N, (∑ c ∈ s, |d b c| * |B b i c| ^ 3) * p0 i ^ 2 / μ ^ 3 ≤ Di)
    (hDj : ∀ b < N, (∑ c ∈ s, |d b c| * |B b j c| ^ 3) * p0 j ^ 2 / μ ^ 3 ≤ Dj)
    (hΓi : ∀ b < N, |scoreExact s n (B0 b) (B b) (d b) p0 i| ≤ Γi)
    (hΓj : ∀ b < N, |scoreExact s n (B0 b) (B b) (d b) p0 j| ≤ Γj) :
    |jEntry (gradTable N n fun b k => getGradEntry (poissonLL s n (B0 b) (B b) (d b) (lg b)) p0 e k) i j
        - jEntry (gradTable N n fun b k => scoreExact s n (B0 b) (B b) (d b) p0 k) i j|
      ≤ (Di * Γj + Γi * Dj) * e ^ 2 + Di * Dj * e ^ 4
    ∧ |cuEntry (gradTable N n fun b k => getGradEntry (poissonLL s n (B0 b) (B b) (d b) (lg b)) p0 e k) i
        - cuEntry (gradTable N n fun b k => scoreExact s n (B0 b) (B b) (d b) p0 k) i| ≤ Di * e ^ 2 := by
  have hne : gradTable N n (fun b k => scoreExact s n (B0 b) (B b) (d b) p0 k) ≠ [] := by
    unfold gradTable
    intro h
    have := congrArg List.length h
    simp at this; omega
  have hcl := gradClose_table N n (fun b k => getGradEntry (poissonLL s n (B0 b) (B b) (d b) (lg b)) p0 e k)
    (fun b k => scoreExact s n (B0 b) (B b) (d b) p0 k) i j hi hj (Di * e ^ 2) (Dj * e ^ 2) Γi Γj (fun b hb => ⟨
      (getGrad_order s n (B0 b) (B b) (d b) (lg b) p0 e μ i hi he hci hμ (hbi b hb)).trans
        (mul_le_mul_of_nonneg_right (hDi b hb) (sq_nonneg e)),
      hΓi b hb,
      (getGrad_order s n (B0 b) (B b) (d b) (lg b) p0 e μ j hj he hcj hμ (hbj b hb)).trans
        (mul_le_mul_of_nonneg_right (hDj b hb) (sq_nonneg e)),
      hΓj b hb⟩)
  obtain ⟨h1, h2⟩ := jEntry_perturb i j _ _ _ _ _ _ hne hcl
  refine ⟨h1.trans (le_of_eq ?_), h2⟩
  ring

example : |cuEntry (gradTable 2 1 fun b k => getGradEntry (poissonLL (Finset.range 2) 1 (fun _ => 5) (fun _ _ => 1) (fun _ => 3) (fun _ => 0)) (fun _ => 1) (1 / 100) k) 0
      - cuEntry (gradTable 2 1 fun b k => scoreExact (Finset.range 2) 1 (fun _ => 5) (fun _ _ => 1) (fun _ => 3) (fun _ => 1) k) 0| ≤ 6 * (1 / 100) ^ 2 :=
  (C19_J_cU_order (Finset.range 2) 2 1 (by norm_num) (fun _ _ => 5) (fun _ _ _ => 1) (fun _ _ => 3) (fun _ _ => 0) (fun _ => 1) (1 / 100) 1 0 0
    (by norm_num) (by norm_num) (by norm_num) ⟨by norm_num, by norm_num⟩ ⟨by norm_num, by norm_num⟩ (by norm_num)
    (by intro b _ c _; norm_num [affModel, Finset.sum_range_succ, abs_of_pos])
    (by intro b _ c _; norm_num [affModel, Finset.sum_range_succ, abs_of_pos]) 6 6 1 1
    (by intro b _; norm_num [Finset.sum_range_succ]) (by intro b _; norm_num [Finset.sum_range_succ])
    (by intro b _; norm_num [scoreExact, affModel, Finset.sum_range_succ, abs_le]) (by intro b _; norm_num [scoreExact, affModel, Finset.sum_range_succ, abs_le])).2

/-- the constants in terms of uniform bounds: `|d c| ≤ D`, slopes `|B i c| ≤ S` on the `card s` entries that enter -/
theorem C19_order_constants_uniform (dd β γ : ι → ℝ) (D S a b : ℝ) (hd : ∀ c ∈ s, |dd c| ≤ D) (hβ : ∀ c ∈ s, |β c| ≤ S) (hγ : ∀ c ∈ s, |γ c| ≤ S) :
    (∑ c ∈ s, |dd c| * |β c| ^ 3) ≤ s.card * (D * S ^ 3) ∧ (∑ c ∈ s, |dd c| * β c ^ 4) ≤ s.card * (D * S ^ 4)
    ∧ (∑ c ∈ s, |dd c| * (|a * β c| + |b * γ c|) ^ 4) ≤ s.card * (D * ((|a| + |b|) * S) ^ 4) := by
  refine ⟨?_, ?_, ?_⟩
  · rw [← nsmul_eq_mul]
    refine Finset.sum_le_card_nsmul _ _ _ (fun c hc => ?_)
    exact mul_le_mul (hd c hc) (pow_le_pow_left₀ (abs_nonneg _) (hβ c hc) 3) (by positivity) ((abs_nonneg _).trans (hd c hc))
  · rw [← nsmul_eq_mul]
    refine Finset.sum_le_card_nsmul _ _ _ (fun c hc => ?_)
    have : β c ^ 4 = |β c| ^ 4 := by rw [← abs_pow]; exact (abs_of_nonneg (by positivity)).symm
    rw [this]
    exact mul_le_mul (hd c hc) (pow_le_pow_left₀ (abs_nonneg _) (hβ c hc) 4) (by positivity) ((abs_nonneg _).trans (hd c hc))
  · rw [← nsmul_eq_mul]
    refine Finset.sum_le_card_nsmul _ _ _ (fun c hc => ?_)
    have h1 : |a * β c| + |b * γ c| ≤ (|a| + |b|) * S := by
      rw [abs_mul, abs_mul, add_mul]
      exact add_le_add (mul_le_mul_of_nonneg_left (hβ c hc) (abs_nonneg _)) (mul_le_mul_of_nonneg_left (hγ c hc) (abs_nonneg _))
    exact mul_le_mul (hd c hc) (pow_le_pow_left₀ (by positivity) h1 4) (by positivity) ((abs_nonneg _).trans (hd c hc))

example : (∑ c ∈ Finset.range 3, |(2 : ℝ)| * |(1 : ℝ)| ^ 3) ≤ (Finset.range 3).card * (2 * 1 ^ 3) :=
  (C19_order_constants_uniform (Finset.range 3) (fun _ => 2) (fun _ => 1) (fun _ => 1) 2 1 1 1 (by intro c _; norm_num) (by intro c _; norm_num)
    (by intro c _; norm_num)).1

end OrderOfAccuracy

section WaldOrg
open Matrix
variable {m : ℕ}

/-- the generated matrix expressions over real matrices ((m+1)×(m+1), `[0,0]` read off; a column vector = a matrix whose other columns are 0) -/
noncomputable def matOpsR (m : ℕ) : MatOps (Matrix (Fin (m + 1)) (Fin (m + 1)) ℝ) ℝ where
  dot := fun a b => a * b
  inv := fun a => a⁻¹
  transpose := Matrix.transpose
  trace := Matrix.trace
  entry00 := fun a => a 0 0

/-- a derived quantity that needs no matrix inverse: the unadjusted Wald statistic `dᵀ·H·d` (generated `waldOrg`) is linear in H, so an
    entrywise error δ of H (δ = C·eps² by `C19_get_hess_order`) gives an error of at most `(Σ|dᵢ|)²·δ` -/
theorem C19_wald_org_order (D G H H' : Matrix (Fin (m + 1)) (Fin (m + 1)) ℝ) (δ : ℝ) (h : ∀ i j, |H' i j - H i j| ≤ δ) :
    |(waldOrg (matOpsR m) D G H') 0 0 - (waldOrg (matOpsR m) D G H) 0 0| ≤ (∑ i, |D i 0|) ^ 2 * δ := by
  have e : (waldOrg (matOpsR m) D G H') 0 0 - (waldOrg (matOpsR m) D G H) 0 0 = ∑ j, ∑ i, D i 0 * (H' i j - H i j) * D j 0 := by
    simp only [waldOrg, matOpsR, Matrix.mul_apply, Matrix.transpose_apply, ← Finset.sum_sub_distrib, Finset.sum_mul]
    refine Finset.sum_congr rfl (fun j _ => ?_)
    refine Finset.sum_congr rfl (fun i _ => ?_)
    ring
  rw [e]
  calc |∑ j, ∑ i, D i 0 * (H' i j - H i j) * D j 0| ≤ ∑ j, ∑ i, |D i 0| * δ * |D j 0| := by
        refine (Finset.abs_sum_le_sum_abs _ _).trans (Finset.sum_le_sum fun j _ => ?_)
        refine (Finset.abs_sum_le_sum_abs _ _).trans (Finset.sum_le_sum fun i _ => ?_)
        rw [abs_mul, abs_mul]
        exact mul_le_mul_of_nonneg_right (mul_le_mul_of_nonneg_left (h i j) (abs_nonneg _)) (abs_nonneg _)
    _ = (∑ i, |D i 0|) ^ 2 * δ := by
        rw [sq, Finset.sum_mul_sum, Finset.sum_mul, Finset.sum_comm]
        refine Finset.sum_congr rfl (fun i _ => ?_)
        rw [Finset.sum_mul]
        refine Finset.sum_congr rfl (fun j _ => ?_)
        ring

example : |(waldOrg (matOpsR 1) !![1, 0; 2, 0] 0 !![3, 1; 1, 5]) 0 0 - (waldOrg (matOpsR 1) !![1, 0; 2, 0] 0 !![3, 1; 1, 4]) 0 0|
    ≤ (∑ i, |(!![1, 0; 2, 0] : Matrix (Fin 2) (Fin 2) ℝ) i 0|) ^ 2 * 1 :=
  C19_wald_org_order _ _ _ _ 1 (by intro i j; fin_cases i <;> fin_cases j <;> norm_num)
end WaldOrg

/-! ## 3f. folded data, P-population spectra -/

/-- **folded data**: `ll_per_bin` folds the model exactly when the data is folded and the model is not (generated `llFoldsModel`: the
    prologue is in the source); the model it then uses has, per flat entry, the value and mask of `Spectrum.fold` (`foldVal`/`foldMask`: the
    pointwise programs generated from `Spectrum.fold`, corners masked by the constructor); otherwise the model is used as given -/
theorem C19_ll_folded (shape : List ℕ) (m : List ℚ) (mm : List Bool) :
    llModelSeen shape true false m mm = (List.range m.length).map (fun k => (foldVal shape m mm k, foldMask shape m mm k))
    ∧ (∀ mf, llModelSeen shape false mf m mm = (List.range m.length).map fun k => (m.getD k 0, mm.getD k false))
    ∧ llModelSeen shape true true m mm = (List.range m.length).map fun k => (m.getD k 0, mm.getD k false) := by
  have h : llFoldsModel = true := by decide
  refine ⟨?_, ?_, ?_⟩
  · simp [llModelSeen, h]
  · intro mf; simp [llModelSeen]
  · simp [llModelSeen]

/-- … and the likelihood of folded data is the Poisson sum over the entries that are masked in neither the FOLDED model nor the data
    (`C19_ll_sum_joint` on these cells): entry k of the cell list carries the folded model value and mask -/
theorem C19_ll_folded_cells (shape : List ℕ) (m : List ℚ) (mm dm : List Bool) (d logm lgam : List ℚ) (k : ℕ) (hk : k < m.length) :
    (llCellsND shape true false m mm dm d logm lgam)[k]? =
      some { mm := foldMask shape m mm k, dm := dm.getD k false, m := foldVal shape m mm k, d := d.getD k 0, logm := logm.getD k 0,
             lgam := lgam.getD k 0 } := by
  unfold llCellsND
  rw [(C19_ll_folded shape m mm).1]
  simp [hk, List.getD_eq_getElem?_getD]

example : (llCellsND [5] true false [1, 2, 3, 4, 5] [true, false, false, false, true] [true, false, false, true, true] [0, 7, 8, 0, 0]
      [0, 0, 0, 0, 0] [0, 0, 0, 0, 0])[1]? = some { mm := false, dm := false, m := 6, d := 7, logm := 0, lgam := 0 } := by
  rw [C19_ll_folded_cells _ _ _ _ _ _ _ 1 (by decide)]; decide +kernel

/-- **folding is linear in the entries and its mask does not depend on them**: a model whose expected spectrum is affine in its parameters
    (`z = x + c·y` entry by entry) has a folded spectrum that is affine in them too, with folded offset and basis spectra – the closed
    forms and the order theorems of §3e apply to folded data with `B0`, `B` replaced by their folds -/
theorem C19_fold_linear (shape : List ℕ) (x y z : List ℚ) (mm : List Bool) (c : ℚ) (hlen : x.length = y.length) (hz : z.length = x.length)
    (hzv : ∀ k, z.getD k 0 = x.getD k 0 + c * y.getD k 0) (k : ℕ) :
    foldVal shape z mm k = foldVal shape x mm k + c * foldVal shape y mm k ∧ foldMask shape z mm k = foldMask shape x mm k :=
  ⟨foldVal_linear shape x y mm c hlen z hz hzv k, foldMask_indep shape z x mm hz k⟩

example : foldVal [5] [1, 2, 3, 4, 5] [true, false, false, false, true] 1 = 2 + 4
    ∧ foldMask [5] [1, 2, 3, 4, 5] [true, false, false, false, true] 3 = true
    ∧ foldVal [5] [1, 2, 3, 4, 5] [true, false, false, false, true] 2 = 3 := by
  decide +kernel

/-- **P populations**: the two corner entries `[0,…,0]` and `[n₁,…,n_P]` that `Spectrum(boot)` would mask are the first and the last
    entry of the flat (C-ordered) array, whatever the number of populations – so `bootSeenMask` (stated on the flat mask) and
    `C19_boot_mask_kept(_partial)` are statements about spectra of any dimension -/
theorem C19_boot_corners_nd (shape : List ℕ) (hpos : ∀ n ∈ shape, 0 < n) :
    flatIdx shape (shape.map fun _ => 0) = 0 ∧ flatIdx shape (shape.map (· - 1)) + 1 = shape.prod := by
  constructor
  · unfold flatIdx; rw [flatIdx_go_zero]; simp
  · unfold flatIdx; rw [flatIdx_go_last 0 shape hpos]; simp

example : flatIdx [3, 4, 5] [0, 0, 0] = 0 ∧ flatIdx [3, 4, 5] [2, 3, 4] + 1 = 60 :=
  C19_boot_corners_nd [3, 4, 5] (by decide)

/-! ## 4. multinomial fits: θ is appended as the last parameter -/

/-- `p0 = list(p0) + [theta_opt]` has one more entry, its last entry is θ, and the wrapped model
    `lambda p: p[-1]*func_multi(p[:-1])` evaluated there is `θ · func_multi(p0)` — in every one of the five entry points
    (`multinomAug`, generated, lists them) -/
theorem C19_multinom_aug {β : Type} [HMul ℚ β β] (fm : List ℚ → β) (p0 : List ℚ) (θ : ℚ) :
    (augParams p0 θ).length = p0.length + 1 ∧ (augParams p0 θ).getLast? = some θ
    ∧ augModel fm (augParams p0 θ) = some (θ * fm p0)
    ∧ multinomAug.map Prod.fst = ["GIM_uncert", "FIM_uncert", "LRT_adjust", "Wald_stat", "score_stat"]
    ∧ multinomAug.all (·.2) = true := by
  refine ⟨by simp [augParams], by simp [augParams], ?_, by decide, by decide⟩
  simp [augModel, augParams]

/-- evaluating `diff_func` at `p_nested` is evaluating the complex model at `p0` -/
theorem C19_nested_at_p0 (p0 : List ℚ) (idx : List ℕ) : scatter p0 idx (gather p0 idx) = p0 :=
  scatter_gather p0 idx

/-! ## 5. the module-level spectrum cache -/
section Cache
variable {ω π ν κ : Type} [DecidableEq κ] [DecidableEq π] [DecidableEq ω]

/-- the cache is transparent for every call history **iff** the key component standing for the function determines the function -/
theorem C19_cache_key (keyOf : ω → κ) (sem : ω → π → ν) :
    (∀ ops : List (ω × π), (runCache keyOf sem [] ops).2 = ops.map (fun op => sem op.1 op.2))
    ↔ (∀ o o' k, keyOf o = keyOf o' → sem o k = sem o' k) :=
  cache_transparent_iff keyOf sem

/-- with the key of the pinned source (`func_ex.__hash__()`, i.e. the identity number only): transparent whenever the interpreter
    never hands the same identity to two of the functions used … -/
theorem C19_cache_sound_if_ids_fresh (ident : ω → ℕ) (hinj : Function.Injective ident) (sem : ω → π → ν) (ops : List (ω × π)) :
    (runCache (fun o => (Sum.inr (ident o) : Sum ω ℕ)) sem [] ops).2 = ops.map (fun op => sem op.1 op.2) :=
  (cache_transparent_iff _ sem).mpr (fun o o' k h => by rw [hinj (Sum.inr.inj h)]) ops

/-- … and a counter-model when an identity is reused (a freed closure's address given to the next closure): the second function
    is answered with the first function's spectrum -/
theorem C19_cache_stale_if_id_reused :
    (runCache (fun o : ℕ => (Sum.inr ((fun _ => 7) o) : Sum ℕ ℕ)) (fun o (k : ℕ) => 10 * o + k) [] [(0, 1), (1, 1)]).2 = [1, 1]
    ∧ [(0, 1), (1, 1)].map (fun op : ℕ × ℕ => 10 * op.1 + op.2) = [1, 11] := by
  decide

/-- the cache *as keyed in the current source* is transparent for every identity assignment and every history.  Holds iff the
    key contains the function object itself (`cacheKeyHoldsRef`); on the pinned tree it does not (finding F-19b) -/
theorem C19_cache_transparent (ident : ω → ℕ) (sem : ω → π → ν) (ops : List (ω × π)) :
    (runCache (implKey ident) sem [] ops).2 = ops.map (fun op => sem op.1 op.2) := by
  refine (cache_transparent_iff _ sem).mpr (fun o o' k h => ?_) ops
  have hk : cacheKeyHoldsRef = true := by decide
  simp only [implKey, hk, if_true] at h
  rw [Sum.inl.inj h]

/-- **forming `fs` never writes to the module-level cache**: for every identity assignment, every history of evaluations with arbitrary
    `theta_adjust`s, the spectrum whose likelihood is taken is `theta_adjust · func_ex(params)` and every spectrum the cache holds afterwards
    is an unscaled `func_ex(params)`.  About the generated effect flag `fsFreshProduct` (`fs = theta_adjust*cache[key]` builds a new array);
    with `fs = cache[key]; fs *= theta_adjust` the flag is `false` and this does not check (seeded change C19-8) -/
theorem C19_cache_value_not_mutated (smul : ℚ → ν → ν) (ident : ω → ℕ) (sem : ω → π → ν) (ops : List (ω × π × ℚ)) :
    (runCacheAdj smul (implKey ident) sem [] ops).2 = ops.map (fun op => smul op.2.2 (sem op.1 op.2.1))
    ∧ ∀ e ∈ (runCacheAdj smul (implKey ident) sem [] ops).1, ∃ o, e.2 = sem o e.1.2 := by
  have hf : fsFreshProduct = true := by decide
  have hk : cacheKeyHoldsRef = true := by decide
  have hdet : ∀ o o' k, implKey ident o = implKey ident o' → sem o k = sem o' k := by
    intro o o' k h
    simp only [implKey, hk, if_true] at h
    rw [Sum.inl.inj h]
  unfold runCacheAdj
  rw [hf]
  obtain ⟨h1, h2⟩ := runCacheAdj_fresh_sound fsSkipsUnitAdjust smul (implKey ident) sem hdet ops [] (by intro e he; simp at he)
  refine ⟨h1, fun e he => ?_⟩
  obtain ⟨o, _, ho⟩ := h2 e he
  exact ⟨o, ho⟩

/-- counter-model for the in-place variant: the adjustments of successive evaluations compound (2, then 2·3, and an evaluation with
    theta_adjust = 1 afterwards still sees 6), and the cache is left holding the rescaled spectrum -/
theorem C19_cache_inplace_compounds :
    (runCacheAdjWith false true (fun a (v : ℚ) => a * v) (fun o : ℕ => o) (fun _ (_ : ℕ) => (10 : ℚ)) [] [(0, 1, 2), (0, 1, 3), (0, 1, 1)]).2
      = [20, 60, 60]
    ∧ (runCacheAdjWith true true (fun a (v : ℚ) => a * v) (fun o : ℕ => o) (fun _ (_ : ℕ) => (10 : ℚ)) [] [(0, 1, 2), (0, 1, 3), (0, 1, 1)]).2
      = [20, 30, 10] := by
  decide +kernel

end Cache

/-! ## 6. `sum_chi2_ppf` accepts scalars and arrays alike -/

/-- for valid weights an array argument returns the array of mixture tail probabilities, a scalar argument returns the scalar,
    and the two agree entry by entry.  On the pinned tree the array case raises UnboundLocalError (finding F-19a): the generated
    `chi2FlagWhenArray` is `none` and this statement does not check. -/
theorem C19_chi2_scalar_array (w : List ℚ) (hw : chi2WeightsBad w.sum = false) (hl : 2 ≤ w.length) (xs : List ℚ)
    (cdfs : List (List ℚ)) :
    chi2Mix w false xs cdfs = .ok (.array ((List.range xs.length).map fun i => mixVal w (xs.getD i 0) (cdfs.getD i [])))
    ∧ ∀ x cs, chi2Mix w true [x] [cs] = .ok (.scalar (mixVal w x cs)) := by
  have hA : chi2FlagWhenArray = some false := by decide
  have hS : chi2FlagWhenScalar = some true := by decide
  have hl' : ¬ w.length < 2 := by omega
  constructor
  · simp [chi2Mix, hw, hl', hA]
  · intro x cs
    simp [chi2Mix, hw, hl', hS]

/-- **the mixture formula for ANY weight vector** (zeros anywhere included): `sum_chi2_ppf` pairs the weight at index `k+1` with the
    chi-square cdf of `k+1` degrees of freedom (`cs[k]`), for every k – about the generated pairing `chi2Pairs` (`enumerate` over
    `weights[1:]`, d.o.f. `d+1`).  A filter placed before `enumerate` renumbers the components after a zero weight and this does not
    check (seeded change C19-7) -/
theorem C19_chi2_mixture (w : List ℚ) (x : ℚ) (cs : List ℚ) :
    mixVal w x cs = 1 - (((List.range (w.length - 1)).map fun k => w.getD (k + 1) 0 * cs.getD k 0).sum + (if x > 0 then w.getD 0 0 else 0)) := by
  unfold mixVal chi2Pairs
  simp only [List.map_map, Function.comp_def]
  have h := zipIdx_map_sum (w.drop 1) 0 (fun d wd => wd * cs.getD (d + 1 - 1) 0) (0 : ℚ)
  beta_reduce at h
  rw [h]
  have e1 : (w.drop 1).length = w.length - 1 := by simp
  have e2 : ∀ k, (w.drop 1).getD k 0 = w.getD (k + 1) 0 := by
    intro k; simp [List.getD_eq_getElem?_getD]
  have e3 : w.headD 0 = w.getD 0 0 := by cases w <;> simp
  simp only [e1, e2, e3, Nat.zero_add, Nat.add_sub_cancel]

/-- interior zeros: `(0, 0, 1)` is the plain chi-square with 2 d.o.f., `(1/2, 0, 1/2)` is ½χ²₀ + ½χ²₂ -/
example (c1 c2 : ℚ) : mixVal [0, 0, 1] 3 [c1, c2] = 1 - c2 ∧ mixVal [1 / 2, 0, 1 / 2] 3 [c1, c2] = 1 - (1 / 2 * c2 + 1 / 2) := by
  rw [C19_chi2_mixture, C19_chi2_mixture]; constructor <;> norm_num [List.range_succ]


/-! ## 7. source shapes the model hard-wires (tables generated from the source, complete, decided) -/
theorem C19_shapes :
    getHessShapeOk = true ∧ getGradShapeOk = true ∧ cacheIsModuleLevel = true ∧ cacheKeyComplete = true ∧ cachePatternOk = true
    ∧ godambeShape.all (·.2) = true ∧ statsShape.all (·.2) = true ∧ chi2ShapeOk = true := by
  decide

end DadiVerif
