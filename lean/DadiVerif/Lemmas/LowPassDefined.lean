import DadiVerif.Lemmas.LowPassCov
/-! C18 helper lemmas, part 8: *definedness* of the generated formulas — under the guards the code uses no power of a zero
    base with a negative exponent and no division by zero is ever evaluated (Python's `0.0 ** -1` is `inf`/an error and
    `0 * inf = nan`, while the model's totalised `zpowR 0 (-1)` is `0`, so this is what makes the exact model faithful at
    coverage distributions with exactly zero mass at depth 0). -/
namespace DadiVerif.LowPass
open Finset

theorem zpowOk_natCast (x : ℚ) (k : ℕ) : zpowOk x ((k : ℕ) : ℤ) = true := by
  simp [zpowOk]

theorem zpowOk_of_ne (x : ℚ) (k : ℤ) (h : x ≠ 0) : zpowOk x k = true := by
  simp [zpowOk, h]

theorem zpowOk_pred (x : ℚ) (k : ℕ) (hk : 0 < k) : zpowOk x (((k : ℕ) : ℤ) - 1) = true := by
  have : (0 : ℤ) ≤ ((k : ℕ) : ℤ) - 1 := by omega
  unfold zpowOk
  rw [decide_eq_true this]
  rfl

/-- some probability mass anywhere makes Σ_d c_d 2^{-d} positive -/
theorem covA_pos (c : List ℚ) (hc : ∀ v ∈ c, 0 ≤ v) (hpos : 0 < lsum c) : 0 < covA c := by
  have hle : (1 / 2 : ℚ) ^ c.length * lsum c ≤ covA c := by
    rw [lsum_eq_covAt, covA, Finset.mul_sum]
    apply Finset.sum_le_sum
    intro d hd
    have hd' : d ≤ c.length := by simp at hd; omega
    have h0 := covAt_nonneg c hc d
    have hp : (1 / 2 : ℚ) ^ c.length ≤ (1 / 2) ^ d :=
      pow_le_pow_of_le_one (by norm_num) (by norm_num) hd'
    nlinarith
  have : 0 < (1 / 2 : ℚ) ^ c.length * lsum c := by positivity
  linarith

/-- **the guards of `probability_of_no_call_1D_GATK_multisample` are sufficient**: with the guard the code uses on
    `P_case1a`, every power evaluated for any genotype configuration has a non-negative exponent or a non-zero base —
    *whatever* the mass at depths 0 and 1 (in particular for P(depth 0) = 0 exactly) -/
theorem nocallDefinedAt_true (c : List ℚ) (hA : covA c ≠ 0) (af : ℕ) (g : List ℕ) :
    nocallDefinedAt c af g = true := by
  have hA' : (sumTo c.length fun d => covAt c d * zpowR ((1 : ℚ) / 2) ((d : ℕ) : ℤ)) ≠ 0 := by
    rw [sumTo_eq]
    simp only [zpowR_natCast]
    exact hA
  unfold nocallDefinedAt Gen.LowPass.nocallDefined Gen.LowPass.P_case0Defined Gen.LowPass.P_case1aDefined
    Gen.LowPass.P_case1bDefined Gen.LowPass.P_case1aGuard
  rw [show Gen.LowPass.hetValue = 1 from rfl, show Gen.LowPass.homAltValue = 2 from rfl]
  simp only [Bool.and_eq_true]
  refine ⟨⟨⟨zpowOk_natCast _ _, zpowOk_natCast _ _⟩, ?_⟩, ⟨zpowOk_natCast _ _, zpowOk_of_ne _ _ hA'⟩⟩
  split_ifs with hguard
  · simp only [Bool.and_eq_true]
    refine ⟨?_, zpowOk_natCast _ _⟩
    have : 0 < g.count 2 := by
      have := of_decide_eq_true hguard
      omega
    exact zpowOk_pred _ _ this
  · rfl

theorem nocallOk_true (c : List ℚ) (hc : ∀ v ∈ c, 0 ≤ v) (hpos : 0 < lsum c) (nseq : ℕ) : nocallOk c nseq = true := by
  unfold nocallOk
  simp only [List.all_eq_true]
  intro af _ g _
  exact nocallDefinedAt_true c (covA_pos c hc hpos).ne' af g

/-- the only division of `prob_het_err` is by the mass of the depths ≥ 1 -/
theorem hetErrOk_true (c : List ℚ) (ht : covTail c ≠ 0) : hetErrOk c = true := by
  unfold hetErrOk Gen.LowPass.covNormDefined Gen.LowPass.probHetErrDefined
  simp [divOk, ht]

/-- every exponent in the loop of `probability_enough_individuals_covered` is non-negative -/
theorem probEnoughOk_true (c : List ℚ) (N m : ℕ) (hm1 : 1 ≤ m) : probEnoughOk c (2 * N) (2 * m) = true := by
  unfold probEnoughOk
  have hlo : Gen.LowPass.enoughLo ((2 * N : ℕ) : ℤ) ((2 * m : ℕ) : ℤ) = ((m - 1 : ℕ) : ℤ) := by
    unfold Gen.LowPass.enoughLo; push_cast; omega
  have hhi : Gen.LowPass.enoughHi ((2 * N : ℕ) : ℤ) ((2 * m : ℕ) : ℤ) = ((N : ℕ) : ℤ) := by
    unfold Gen.LowPass.enoughHi; push_cast; omega
  simp only [hlo, hhi, List.all_eq_true, List.mem_range]
  intro t ht
  have ht' : t < N - (m - 1) := by omega
  unfold Gen.LowPass.enoughSummandDefined
  have e1 : (((2 * N : ℕ) : ℤ) / 2 - 1 - (((m - 1 : ℕ) : ℤ) + ((t : ℕ) : ℤ))) = ((N - 1 - (m - 1 + t) : ℕ) : ℤ) := by
    push_cast; omega
  have e2 : (((m - 1 : ℕ) : ℤ) + ((t : ℕ) : ℤ)) = ((m - 1 + t : ℕ) : ℤ) := by push_cast; ring
  rw [e1, e2, zpowOk_natCast, zpowOk_natCast]
  rfl

end DadiVerif.LowPass
