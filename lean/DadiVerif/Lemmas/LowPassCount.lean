import DadiVerif.Lemmas.LowPassMat
/-! C18 helper lemmas, part 14: counting the combinations of `projection_inbreeding` — the number of ways to draw k of the
    individuals of a genotype vector with a given allele-count sum, in closed form for the sorted vectors
    `0…0 1…1 2…2` that `Numerics.part` produces (every genotype configuration is one of them: `part_eq_rep`). -/
set_option linter.unusedSimpArgs false
namespace DadiVerif.LowPass
open Finset

/-- number of k-subsets (by position) of `g` whose entries sum to `s`: `result[s]` of `projection_inbreeding` before
    normalisation -/
def cntS (k : ℕ) (g : List ℕ) (s : ℕ) : ℕ := (combSums k g).countP (· == s)

theorem combs_length : ∀ (k : ℕ) (l : List ℕ), (combs k l).length = l.length.choose k
  | 0, l => by simp [combs]
  | k+1, [] => by simp [combs]
  | k+1, a :: l => by
    simp only [combs, List.length_append, List.length_map, List.length_cons, Nat.choose_succ_succ]
    rw [combs_length k l, combs_length (k+1) l]

theorem cntS_zero (g : List ℕ) (s : ℕ) : cntS 0 g s = if s = 0 then 1 else 0 := by
  cases g <;> simp [cntS, combSums, combs] <;> split_ifs <;> simp_all [eq_comm]

theorem cntS_nil_succ (k s : ℕ) : cntS (k+1) [] s = 0 := by simp [cntS, combSums, combs]

theorem cntS_nil (k s : ℕ) : cntS k [] s = if k = 0 ∧ s = 0 then 1 else 0 := by
  cases k with
  | zero => rw [cntS_zero]; simp
  | succ k => rw [cntS_nil_succ]; simp

theorem cntS_cons (k : ℕ) (b : ℕ) (l : List ℕ) (s : ℕ) :
    cntS (k+1) (b :: l) s = (if b ≤ s then cntS k l (s - b) else 0) + cntS (k+1) l s := by
  simp only [cntS, combSums, combs, List.map_append, List.map_map, List.countP_append]
  congr 1
  rw [List.countP_map, List.countP_map]
  split_ifs with h
  · apply List.countP_congr
    intro c _
    simp only [Function.comp_apply, List.sum_cons, beq_iff_eq]
    omega
  · rw [List.countP_eq_zero]
    intro c _
    simp only [Function.comp_apply, List.sum_cons, beq_iff_eq]
    omega

/-- a block of `c` equal genotypes `v` alone -/
theorem cntS_replicate (v : ℕ) : ∀ (c k s : ℕ),
    cntS k (List.replicate c v) s = if s = k * v then c.choose k else 0 := by
  intro c
  induction c with
  | zero =>
    intro k s
    rw [List.replicate_zero, cntS_nil]
    cases k with
    | zero => simp
    | succ k => simp
  | succ c ih =>
    intro k s
    cases k with
    | zero => rw [cntS_zero]; simp
    | succ k =>
      rw [List.replicate_succ, cntS_cons, ih, ih, Nat.choose_succ_succ]
      by_cases hs : s = (k + 1) * v
      · have h1 : v ≤ s := by rw [hs, Nat.succ_mul]; omega
        have h2 : s - v = k * v := by rw [hs, Nat.succ_mul]; omega
        rw [if_pos h1, if_pos h2, if_pos hs, if_pos hs]
      · by_cases h1 : v ≤ s
        · have : ¬ s - v = k * v := by
            intro e; apply hs; rw [Nat.succ_mul]; omega
          simp [hs, h1, this]
        · simp [hs, h1]

theorem sum_single_block (c v k s : ℕ) :
    (∑ i ∈ range (c + 1), if i ≤ k ∧ i * v ≤ s then c.choose i * (if k - i = 0 ∧ s - i * v = 0 then 1 else 0) else 0)
      = if s = k * v then c.choose k else 0 := by
  by_cases hK : k ≤ c
  · rw [Finset.sum_eq_single k]
    · by_cases hS : s = k * v
      · simp [hS]
      · by_cases h1 : k * v ≤ s
        · have h2 : ¬ s - k * v = 0 := by omega
          simp [h1, h2, hS]
        · simp [h1, hS]
    · intro b _ hb
      split_ifs with h1 h2
      · omega
      · simp
      · rfl
    · intro h; simp at h; omega
  · rw [Nat.choose_eq_zero_of_lt (by omega), Finset.sum_eq_zero]
    · simp
    · intro b hb
      simp only [mem_range] at hb
      split_ifs with h1 h2
      · omega
      · simp
      · rfl

/-- drawing from a block of `c` equal genotypes `v` at the end of the vector: choose how many of them -/
theorem cntS_append_replicate (c v : ℕ) : ∀ (l : List ℕ) (k s : ℕ),
    cntS k (l ++ List.replicate c v) s
      = ∑ i ∈ range (c + 1), if i ≤ k ∧ i * v ≤ s then c.choose i * cntS (k - i) l (s - i * v) else 0 := by
  intro l
  induction l with
  | nil =>
    intro k s
    simp only [List.nil_append, cntS_nil]
    rw [cntS_replicate, sum_single_block]
  | cons b l ih =>
    intro k s
    cases k with
    | zero =>
      rw [cntS_zero, Finset.sum_eq_single 0]
      · simp [cntS_zero]
      · intro i _ hi; simp [hi]
      · simp
    | succ k =>
      rw [List.cons_append, cntS_cons, ih, ih]
      by_cases hb : b ≤ s
      · rw [if_pos hb, ← Finset.sum_add_distrib]
        refine Finset.sum_congr rfl (fun i _ => ?_)
        by_cases hi : i ≤ k
        · have e : k + 1 - i = (k - i) + 1 := by omega
          rw [e, cntS_cons]
          by_cases h1 : i * v ≤ s
          · by_cases h2 : i * v ≤ s - b
            · have h3 : b ≤ s - i * v := by omega
              have e2 : s - b - i * v = s - i * v - b := by omega
              simp only [hi, h1, h2, h3, and_self, if_true, e2, show i ≤ k + 1 by omega, true_and]
              ring
            · have h3 : ¬ b ≤ s - i * v := by omega
              simp only [hi, h1, h2, h3, and_false, and_true, if_false, if_true, show i ≤ k + 1 by omega, true_and]
              ring
          · have h2 : ¬ i * v ≤ s - b := by omega
            simp [h1, h2]
        · by_cases hi' : i = k + 1
          · subst hi'
            have : ¬ (k + 1 ≤ k) := by omega
            simp [this, cntS_zero]
          · have h1 : ¬ i ≤ k + 1 := by omega
            simp [hi, h1]
      · rw [if_neg hb, zero_add]
        refine Finset.sum_congr rfl (fun i _ => ?_)
        by_cases hi : i ≤ k
        · have e : k + 1 - i = (k - i) + 1 := by omega
          rw [e, cntS_cons]
          have h3 : ¬ b ≤ s - i * v := by omega
          simp [h3]
        · by_cases hi' : i = k + 1
          · subst hi'; simp [cntS_zero]
          · have h1 : ¬ i ≤ k + 1 := by omega
            simp [h1]

end DadiVerif.LowPass
