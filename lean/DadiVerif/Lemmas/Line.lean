import DadiVerif.Model.Line
import DadiVerif.Lemmas.Tridiag
import Mathlib.Algebra.BigOperators.Ring.Finset
import Mathlib.Algebra.BigOperators.Field
import Mathlib.Algebra.BigOperators.Intervals
/-! Helper lemmas for M4: flux form, telescoping mass balance, and the bridge from the
    list-level Thomas solve to the pointwise operator `Line.apply`. -/
namespace DadiVerif
open Finset
namespace Line
variable (L : Line)

theorem flux_form (φ : ℕ → ℚ) (j : ℕ) (hj : j < L.N) :
    L.apply φ j = φ j / L.dt + L.df j * (L.G φ (j+1) - L.G φ j) + L.bc j * φ j := by
  unfold apply a b c G
  simp only [Nat.add_sub_cancel]
  split_ifs <;> first | (exfalso; omega) | ring

theorem G_zero (φ : ℕ → ℚ) : L.G φ 0 = 0 := by simp [G]
theorem G_N (φ : ℕ → ℚ) : L.G φ L.N = 0 := by simp [G]

theorem w_mul_df (j : ℕ) (hne : L.dxL j + L.dxR j ≠ 0) : L.w j * L.df j = 1 := by
  unfold w df; field_simp

theorem weighted_apply (φ : ℕ → ℚ) (hw : ∀ j < L.N, L.dxL j + L.dxR j ≠ 0) :
    ∑ j ∈ range L.N, L.w j * L.apply φ j
      = (∑ j ∈ range L.N, L.w j * φ j) / L.dt + ∑ j ∈ range L.N, L.w j * L.bc j * φ j := by
  have h1 : ∀ j ∈ range L.N, L.w j * L.apply φ j
      = L.w j * φ j / L.dt + (L.G φ (j+1) - L.G φ j) + L.w j * L.bc j * φ j := by
    intro j hj
    have hjN := mem_range.mp hj
    rw [L.flux_form φ j hjN]
    have := L.w_mul_df j (hw j hjN)
    calc L.w j * (φ j / L.dt + L.df j * (L.G φ (j+1) - L.G φ j) + L.bc j * φ j)
        = L.w j * φ j / L.dt + (L.w j * L.df j) * (L.G φ (j+1) - L.G φ j) + L.w j * L.bc j * φ j := by ring
      _ = _ := by rw [this, one_mul]
  rw [Finset.sum_congr rfl h1, Finset.sum_add_distrib, Finset.sum_add_distrib,
      Finset.sum_range_sub (L.G φ), L.G_zero, L.G_N, Finset.sum_div]
  ring

theorem line_mass (φ φ' : ℕ → ℚ) (hdt : L.dt ≠ 0) (hw : ∀ j < L.N, L.dxL j + L.dxR j ≠ 0)
    (hsolve : ∀ j < L.N, L.apply φ' j = φ j / L.dt) :
    ∑ j ∈ range L.N, L.w j * φ' j
      = ∑ j ∈ range L.N, L.w j * φ j - L.dt * ∑ j ∈ range L.N, L.w j * L.bc j * φ' j := by
  have h := L.weighted_apply φ' hw
  have h2 : ∑ j ∈ range L.N, L.w j * L.apply φ' j = (∑ j ∈ range L.N, L.w j * φ j) / L.dt := by
    rw [Finset.sum_div]
    refine Finset.sum_congr rfl (fun j hj => ?_)
    rw [hsolve j (mem_range.mp hj)]; ring
  rw [h2] at h
  field_simp at h ⊢
  linarith

/-- the step, read as a function of the node index (0 outside the line) -/
def stepFn (φ : ℕ → ℚ) : ℕ → ℚ := fun j => (L.step φ).getD j 0

theorem rows_length (φ : ℕ → ℚ) : (L.rows φ).length = L.N := by simp [rows]

theorem rows_get (φ : ℕ → ℚ) (j : ℕ) (hj : j < (L.rows φ).length) :
    (L.rows φ)[j] = ⟨L.a j, L.b j, L.c j, φ j / L.dt⟩ := by
  simp [rows]

/-- Bridge: if no pivot vanishes, the computed step satisfies the pointwise system `A φ' = φ/dt`. -/
theorem step_solves (φ : ℕ → ℚ) (hp : PivotsOk 1 0 (L.rows φ)) :
    ∀ j < L.N, L.apply (L.stepFn φ) j = φ j / L.dt := by
  have h := thomas_solves (L.rows φ) hp
  rw [solves_iff_idx] at h
  obtain ⟨hlen, hall⟩ := h
  intro j hj
  have hj' : j < (L.rows φ).length := by rw [L.rows_length]; exact hj
  have := hall j hj'
  rw [L.rows_get φ j hj'] at this
  simp only at this
  unfold apply stepFn step
  by_cases h0 : j = 0
  · subst h0
    simp only [if_true] at this
    have ha : L.a 0 = 0 := by simp [a]
    rw [ha] at this ⊢
    simpa using this
  · simp only [h0, if_false] at this
    exact this

theorem step_length (φ : ℕ → ℚ) : (L.step φ).length = L.N := by
  unfold step thomas
  rw [solveAux_length, L.rows_length]

end Line
end DadiVerif
