import DadiVerif.Lemmas.FileReaders
import DadiVerif.Lemmas.FileConstruct
/-!
# C14: the written text seen as lines, and what the readers make of each line

`C14_writer_lines` / `C14_array_writer_lines` (in Props/C14.lean) rewrite the GENERATED writers (Generated/FileIO.lean, translated statement by
statement from `Spectrum.to_file` / `Numerics.array_to_file`) as a list of `\n`-terminated lines; the remaining lemmas
evaluate the reader normal forms `fromFileSpec` / `arrayFromFileSpec` on these lines (Lemmas/FileReaders.lean proves the
TRANSLATED readers `Gen.FileIO.fromFile` / `arrayFromFile` equal to these normal forms).
-/
set_option linter.unusedVariables false
set_option linter.unusedSimpArgs false
namespace DadiVerif.FileFormat
open Gen.FileIO

/-! ## well-formedness (the domain of the round trip) -/

/-- no line break inside -/
def Clean (l : Str) : Prop := ∀ c ∈ l, c ≠ NL ∧ c ≠ CR

structure WellFormed (fs : Spec) : Prop where
  shape_ne : fs.shape ≠ []
  data_len : fs.data.length = prodL fs.shape
  mask_len : fs.mask.length = fs.data.length
  toks : ∀ t ∈ fs.data, Tok t
  labels : ∀ l, fs.popIds = some l → l.length = fs.shape.length ∧ ∀ x ∈ l, QUOTE ∉ x ∧ Clean x

theorem clean_of_noWs {t : Str} (h : NoWs t) : Clean t := by
  intro c hc
  have := h c hc
  constructor
  · intro e; subst e; rw [ws_NL] at this; cases this
  · intro e; subst e; rw [ws_CR] at this; cases this

theorem clean_digits {t : Str} (h : ∀ c ∈ t, c ∈ digits10) : Clean t :=
  fun c hc => ⟨(digit_ne (h c hc)).1, (digit_ne (h c hc)).2.1⟩

theorem clean_append {a b : Str} (ha : Clean a) (hb : Clean b) : Clean (a ++ b) := by
  intro c hc
  rcases List.mem_append.mp hc with h | h
  · exact ha c h
  · exact hb c h

theorem clean_flatMap {α : Type} (l : List α) (f : α → Str) (h : ∀ x ∈ l, Clean (f x)) : Clean (l.flatMap f) := by
  intro c hc
  obtain ⟨x, hx, hcx⟩ := List.mem_flatMap.mp hc
  exact h x hx c hcx

theorem clean_strip {c : Str} (h : Clean c) : Clean (strip c) := fun x hx => h x (mem_strip hx)

theorem mem_joinWith (sep : Char) (toks : List Str) (c : Char) (h : c ∈ joinWith sep toks) :
    c = sep ∨ ∃ t ∈ toks, c ∈ t := by
  induction toks with
  | nil => simp [joinWith] at h
  | cons t ts ih =>
    cases ts with
    | nil => simp only [joinWith] at h; exact Or.inr ⟨t, List.mem_cons_self, h⟩
    | cons u us =>
      simp only [joinWith, List.mem_append, List.mem_cons] at h
      rcases h with h | h | h
      · exact Or.inr ⟨t, List.mem_cons_self, h⟩
      · exact Or.inl h
      · rcases ih h with e | ⟨x, hx, hcx⟩
        · exact Or.inl e
        · exact Or.inr ⟨x, List.mem_cons_of_mem _ hx, hcx⟩

theorem clean_join (toks : List Str) (h : ∀ t ∈ toks, Clean t) : Clean (joinWith SP toks) := by
  intro c hc
  rcases mem_joinWith SP toks c hc with e | ⟨t, ht, hct⟩
  · subst e; exact ⟨by decide, by decide⟩
  · exact h t ht c hct

theorem tok_fmtI (n : Nat) : Tok (fmtI n) :=
  ⟨fmtI_ne_nil n, fun c hc => digit_not_ws (fmtI_digits n c hc)⟩

theorem tok_fmtD (b : Bool) : Tok (fmtD b) := by
  cases b <;> exact ⟨by simp [fmtD], by intro c hc; simp [fmtD] at hc; subst hc; decide⟩

theorem parseBit_fmtD (b : Bool) : parseBit (fmtD b) = some b := by cases b <;> decide

theorem noWs_of_all (t : Str) (h : t.all (fun c => !isWs c) = true) : NoWs t := by
  intro c hc
  have := List.all_eq_true.mp h c hc
  simpa using this

theorem tok_flag_f : Tok FOLDED := ⟨by simp [FOLDED], noWs_of_all _ (by decide)⟩
theorem tok_flag_u : Tok UNFOLDED := ⟨by simp [UNFOLDED], noWs_of_all _ (by decide)⟩
theorem tok_nan : Tok NANTOK := ⟨by simp [NANTOK], noWs_of_all _ (by decide)⟩

/-! ## the written text as lines -/

def flagWord (folded : Bool) : Str := if !folded then UNFOLDED else FOLDED

def labelsPart (p : Option (List Str)) : Str :=
  match p with
  | none => []
  | some l => l.flatMap (fun label => [' ', '"'] ++ label ++ ['"'])

def dimsPart (shape : List Nat) : Str := shape.flatMap (fun elem => fmtI elem ++ [' '])

def headerLine (shape : List Nat) (folded : Bool) (popIds : Option (List Str)) (fmi : Bool) : Str :=
  dimsPart shape ++ (if fmi then flagWord folded ++ labelsPart popIds else [])

def commentLine (c : Str) : Str := HASH :: SP :: strip c

def toFileLines (comments : List Str) (shape : List Nat) (folded : Bool) (popIds : Option (List Str)) (fmi : Bool)
    (dataRow : List Str) (maskBits : List Bool) : List Str :=
  comments.map commentLine ++ [headerLine shape folded popIds fmi, joinWith SP dataRow]
    ++ (if fmi then [joinWith SP (maskBits.map fmtD)] else [])

def term (l : Str) : Str := l ++ [NL]

theorem comments_flat (comments : List Str) :
    (comments.flatMap fun line => ['#', ' '] ++ strip line ++ [Char.ofNat 10]) = (comments.map commentLine).flatMap term := by
  induction comments with
  | nil => rfl
  | cons c cs ih =>
    simp only [List.flatMap_cons, List.map_cons, ih]
    rfl

def arrayToFileLines (comments : List Str) (shape : List Nat) (dataRow : List Str) : List Str :=
  comments.map commentLine ++ [dimsPart shape, joinWith SP dataRow]

/-! ## cleanliness of the written lines -/

theorem clean_commentLine {c : Str} (h : Clean c) : Clean (commentLine c) := by
  intro x hx
  simp only [commentLine, List.mem_cons] at hx
  rcases hx with e | e | e
  · subst e; exact ⟨by decide, by decide⟩
  · subst e; exact ⟨by decide, by decide⟩
  · exact clean_strip h x e

theorem clean_dimsPart (shape : List Nat) : Clean (dimsPart shape) := by
  apply clean_flatMap
  intro d _
  apply clean_append (clean_digits (fmtI_digits d))
  intro c hc; simp at hc; subst hc; exact ⟨by decide, by decide⟩

theorem clean_flagWord (f : Bool) : Clean (flagWord f) := by
  cases f <;> exact clean_of_noWs (by first | exact tok_flag_u.2 | exact tok_flag_f.2)

theorem clean_labelsPart (p : Option (List Str)) (h : ∀ l, p = some l → ∀ x ∈ l, Clean x) : Clean (labelsPart p) := by
  cases p with
  | none => intro c hc; simp [labelsPart] at hc
  | some l =>
    apply clean_flatMap
    intro x hx
    have := h l rfl x hx
    intro c hc
    simp only [List.cons_append, List.nil_append, List.mem_cons, List.mem_append, List.mem_nil_iff, or_false] at hc
    rcases hc with e | e | e | e
    · subst e; exact ⟨by decide, by decide⟩
    · subst e; exact ⟨by decide, by decide⟩
    · exact this c e
    · subst e; exact ⟨by decide, by decide⟩

theorem clean_headerLine (shape : List Nat) (f : Bool) (p : Option (List Str)) (fmi : Bool)
    (h : ∀ l, p = some l → ∀ x ∈ l, Clean x) : Clean (headerLine shape f p fmi) := by
  unfold headerLine
  apply clean_append (clean_dimsPart shape)
  cases fmi
  · intro c hc; simp at hc
  · exact clean_append (clean_flagWord f) (clean_labelsPart p h)

theorem clean_maskLine (m : List Bool) : Clean (joinWith SP (m.map fmtD)) := by
  apply clean_join
  intro t ht
  obtain ⟨b, _, rfl⟩ := List.mem_map.mp ht
  exact clean_of_noWs (tok_fmtD b).2

theorem text_no_CR (ls : List Str) (h : ∀ l ∈ ls, Clean l) : CR ∉ ls.flatMap term := by
  intro hc
  obtain ⟨l, hl, hcl⟩ := List.mem_flatMap.mp hc
  simp only [term, List.mem_append, List.mem_singleton] at hcl
  rcases hcl with e | e
  · exact (h l hl CR e).2 rfl
  · exact absurd e (by decide)

theorem lines_of_text (ls : List Str) (h : ∀ l ∈ ls, Clean l) :
    linesOf (univNL (ls.flatMap term)) = ls.map term := by
  rw [univNL_id _ (text_no_CR ls h)]
  exact linesOf_flat ls (fun l hl hc => (h l hl NL hc).1 rfl)

/-! ## comment block -/

theorem startsHash_comment (c : Str) : startsHash (term (commentLine c)) = true := by
  simp [startsHash, term, commentLine]

theorem takeWhile_comments (cs : List Str) (rest : List Str) (h : ∀ l, rest.head? = some l → startsHash l = false) :
    ((cs.map commentLine).map term ++ rest).takeWhile startsHash = (cs.map commentLine).map term
    ∧ ((cs.map commentLine).map term ++ rest).dropWhile startsHash = rest := by
  induction cs with
  | nil =>
    cases rest with
    | nil => simp
    | cons l r =>
      have := h l rfl
      simp [List.takeWhile, List.dropWhile, this]
  | cons c cs ih =>
    simp only [List.map_cons, List.cons_append, List.takeWhile, List.dropWhile, startsHash_comment]
    exact ⟨by rw [ih.1], ih.2⟩

theorem comments_back (cs : List Str) : ((cs.map commentLine).map term).map commentOf = cs.map strip := by
  induction cs with
  | nil => rfl
  | cons c cs ih =>
    simp only [List.map_cons, ih, List.cons.injEq, and_true]
    have := commentOf_line c
    simpa [term, commentLine] using this

theorem startsHash_dims (shape : List Nat) (hs : shape ≠ []) (rest : Str) :
    startsHash (dimsPart shape ++ rest) = false := by
  cases shape with
  | nil => exact absurd rfl hs
  | cons d ds =>
    have hne := fmtI_ne_nil d
    have hd := fmtI_digits d
    cases h : fmtI d with
    | nil => exact absurd h hne
    | cons c r =>
      rw [h] at hd
      have hc : c ≠ HASH := (digit_ne (hd c (List.mem_cons_self))).2.2.2.1
      simp [dimsPart, List.flatMap_cons, h, startsHash, hc]

/-! ## header line -/

theorem splitWs_ws_cons (w : Char) (hw : isWs w = true) (r : Str) : splitWs (w :: r) = splitWs r := by
  simp [splitWs, splitAux, hw]

theorem splitWs_dims (shape : List Nat) (rest : Str) :
    splitWs (dimsPart shape ++ rest) = shape.map fmtI ++ splitWs rest := by
  induction shape with
  | nil => simp [dimsPart]
  | cons d ds ih =>
    have : dimsPart (d :: ds) ++ rest = fmtI d ++ SP :: (dimsPart ds ++ rest) := by
      simp [dimsPart, List.flatMap_cons, SP]
    rw [this, splitWs_tok_ws _ (tok_fmtI d) SP ws_SP, ih]
    simp

theorem tok_flagWord (f : Bool) : Tok (flagWord f) := by
  cases f
  · exact tok_flag_u
  · exact tok_flag_f

/-- tokens after the flag word -/
def afterToks (p : Option (List Str)) : List Str := splitWs (labelsPart p ++ [NL])

theorem labelsPart_head_ws (p : Option (List Str)) :
    ∃ w r, labelsPart p ++ [NL] = w :: r ∧ isWs w = true := by
  cases p with
  | none => exact ⟨NL, [], rfl, ws_NL⟩
  | some l =>
    cases l with
    | nil => exact ⟨NL, [], rfl, ws_NL⟩
    | cons x xs =>
      simp only [labelsPart, List.flatMap_cons, List.cons_append, List.nil_append]
      exact ⟨_, _, rfl, by decide⟩

theorem splitWs_header (shape : List Nat) (f : Bool) (p : Option (List Str)) :
    splitWs (headerLine shape f p true ++ [NL]) = shape.map fmtI ++ flagWord f :: afterToks p := by
  unfold headerLine
  simp only [if_true, List.append_assoc]
  rw [splitWs_dims]
  congr 1
  obtain ⟨w, r, hwr, hw⟩ := labelsPart_head_ws p
  unfold afterToks
  rw [hwr, splitWs_tok_ws _ (tok_flagWord f) w hw, splitWs_ws_cons w hw]

theorem afterToks_none : afterToks none = [] := by
  simp [afterToks, labelsPart]
  exact splitWs_allws [NL] (by intro c hc; simp at hc; subst hc; exact ws_NL)

theorem afterToks_some (l : List Str) (hl : l ≠ []) : afterToks (some l) ≠ [] := by
  unfold afterToks splitWs
  apply splitAux_ne_nil
  right
  cases l with
  | nil => exact absurd rfl hl
  | cons x xs =>
    refine ⟨'"', ?_, by decide⟩
    simp [labelsPart, List.flatMap_cons]

theorem scanDims_ok (ds : List Nat) (f : Bool) (after : List Str) :
    scanDims (ds.map fmtI ++ flagWord f :: after) = some (ds, f, after) := by
  induction ds with
  | nil =>
    cases f <;> simp [scanDims, flagWord, FOLDED, UNFOLDED]
  | cons d ds ih =>
    simp only [List.map_cons, List.cons_append, scanDims, if_neg (fmtI_ne_flag d).1, if_neg (fmtI_ne_flag d).2,
      parseInt_fmtI, ih]

theorem quote_not_in_prefix (shape : List Nat) (f : Bool) : QUOTE ∉ dimsPart shape ++ flagWord f := by
  intro h
  rcases List.mem_append.mp h with h | h
  · obtain ⟨d, _, hd⟩ := List.mem_flatMap.mp h
    rcases List.mem_append.mp hd with e | e
    · exact (digit_ne (fmtI_digits d _ e)).2.2.1 rfl
    · simp at e; exact absurd e (by decide)
  · cases f <;> simp [flagWord, FOLDED, UNFOLDED] at h <;> revert h <;> decide

theorem labels_back (shape : List Nat) (f : Bool) (l : List Str) (hq : ∀ x ∈ l, QUOTE ∉ x) :
    odds (splitOnC QUOTE (headerLine shape f (some l) true ++ [NL])) = l := by
  unfold headerLine splitOnC
  simp only [if_true]
  have : dimsPart shape ++ (flagWord f ++ labelsPart (some l)) ++ [NL]
      = (dimsPart shape ++ flagWord f) ++ (labelsPart (some l) ++ [NL]) := by simp
  rw [this, splitOnAux_token QUOTE _ (quote_not_in_prefix shape f)]
  exact odds_labels l hq [NL] (by simp; decide) _

theorem contains_flag (shape : List Nat) (f : Bool) (after : List Str) :
    (!(shape.map fmtI ++ flagWord f :: after).contains FOLDED && !(shape.map fmtI ++ flagWord f :: after).contains UNFOLDED) = false := by
  cases f
  · have : (shape.map fmtI ++ flagWord false :: after).contains UNFOLDED = true := by
      rw [List.contains_iff_mem]; simp [flagWord]
    rw [this]; simp
  · have : (shape.map fmtI ++ flagWord true :: after).contains FOLDED = true := by
      rw [List.contains_iff_mem]; simp [flagWord]
    rw [this]; simp

/-- header of the current format: shape, folded flag and labels come back -/
theorem parseHeader_new (shape : List Nat) (hs : shape ≠ []) (f : Bool) (p : Option (List Str))
    (hp : ∀ l, p = some l → l ≠ [] ∧ ∀ x ∈ l, QUOTE ∉ x) :
    parseHeader (term (headerLine shape f p true)) = some (shape, f, p) := by
  unfold parseHeader term
  rw [splitWs_header]
  simp only [contains_flag, Bool.false_eq_true, if_false]
  cases shape with
  | nil => exact absurd rfl hs
  | cons d ds =>
    simp only [List.map_cons, List.cons_append, parseInt_fmtI, scanDims_ok]
    cases p with
    | none => simp [afterToks_none]
    | some l =>
      have h := hp l rfl
      have hne : (afterToks (some l)).isEmpty = false := by
        cases hh : afterToks (some l) with
        | nil => exact absurd hh (afterToks_some l h.1)
        | cons _ _ => rfl
      simp only [hne, Bool.false_eq_true, if_false]
      rw [labels_back (d :: ds) f l h.2]

theorem mapM_parseInt (shape : List Nat) : (shape.map fmtI).mapM parseInt = some shape := by
  induction shape with
  | nil => rfl
  | cons d ds ih => simp [List.mapM_cons, parseInt_fmtI, ih]

theorem not_contains_flag (shape : List Nat) :
    (!(shape.map fmtI).contains FOLDED && !(shape.map fmtI).contains UNFOLDED) = true := by
  have h1 : (shape.map fmtI).contains FOLDED = false := by
    apply Bool.eq_false_iff.mpr
    intro h
    rw [List.contains_iff_mem] at h
    obtain ⟨d, _, hd⟩ := List.mem_map.mp h
    exact (fmtI_ne_flag d).1 hd
  have h2 : (shape.map fmtI).contains UNFOLDED = false := by
    apply Bool.eq_false_iff.mpr
    intro h
    rw [List.contains_iff_mem] at h
    obtain ⟨d, _, hd⟩ := List.mem_map.mp h
    exact (fmtI_ne_flag d).2 hd
  rw [h1, h2]; rfl

theorem splitWs_dimsLine (shape : List Nat) : splitWs (term (dimsPart shape)) = shape.map fmtI := by
  unfold term
  rw [splitWs_dims, splitWs_allws [NL] (by intro c hc; simp at hc; subst hc; exact ws_NL)]
  simp

/-- header of the pre-1.3 format (dimensions only): unfolded, no labels -/
theorem parseHeader_old (shape : List Nat) (f : Bool) (p : Option (List Str)) :
    parseHeader (term (headerLine shape f p false)) = some (shape, false, none) := by
  have : headerLine shape f p false = dimsPart shape := by simp [headerLine]
  rw [this]
  unfold parseHeader
  rw [splitWs_dimsLine]
  simp only [not_contains_flag, if_true, mapM_parseInt]

/-! ## data and mask lines -/

theorem splitWs_row (toks : List Str) (h : ∀ t ∈ toks, Tok t) : splitWs (term (joinWith SP toks)) = toks :=
  splitWs_join_tail toks h [NL] (by intro c hc; simp at hc; subst hc; exact ws_NL)

theorem readCount_exact (toks : List Str) (n : Nat) (h : toks.length = n) : readCount n toks = some toks := by
  subst h; simp [readCount]

theorem mapM_parseBit (m : List Bool) : (m.map fmtD).mapM parseBit = some m := by
  induction m with
  | nil => rfl
  | cons b bs ih => simp [List.mapM_cons, parseBit_fmtD, ih]

theorem splitWs_maskLine (m : List Bool) : splitWs (term (joinWith SP (m.map fmtD))) = m.map fmtD :=
  splitWs_row _ (by intro t ht; obtain ⟨b, _, rfl⟩ := List.mem_map.mp ht; exact tok_fmtD b)

/-! ## constructor step -/

theorem construct_marr (shape : List Nat) (data : List Str) (mask : List Bool) (mc folded cf : Bool) (p : Option (List Str))
    (hd : data.length = prodL shape) (hm : mask.length = data.length) (hp : ∀ l, p = some l → l.length = shape.length)
    (hne : mc = true → data ≠ []) :
    construct (.arr shape data) (.marr mask) (.bool mc) (.bool folded) (.bool cf) (labelsVal p) .none
      = some { shape := shape, data := data, mask := if mc then maskCorners mask else mask, folded := folded,
               popIds := p, extrapX := none } := by
  have hz := zipWith_or_false_right' data.length mask hm
  have hc : ctorCorners mc mask = some (if mc then maskCorners mask else mask) := by
    cases mc with
    | false => rfl
    | true =>
      have hmne : mask ≠ [] := by
        intro e; rw [e] at hm; exact hne rfl (List.length_eq_zero_iff.mp hm.symm)
      simp [ctorCorners, hmne]
  have hpp : ctorPopIds (labelsVal p) none shape.length = some p := by
    cases p with
    | none => rfl
    | some l => simp [ctorPopIds, labelsVal, hp l rfl]
  rw [hd] at hz
  simp [construct, baseOf, hd, ctorMask, hm, ownMaskOf, hz, ctorFolded, hpp, ctorExtrap, asNum, hc]

theorem construct_nomask (shape : List Nat) (data : List Str) (mc folded cf : Bool) (p : Option (List Str))
    (hd : data.length = prodL shape) (hp : ∀ l, p = some l → l.length = shape.length) (hne : mc = true → data ≠ []) :
    construct (.arr shape data) .none (.bool mc) (.bool folded) (.bool cf) (labelsVal p) .none
      = some { shape := shape, data := data,
               mask := if mc then maskCorners (List.replicate data.length false) else List.replicate data.length false,
               folded := folded, popIds := p, extrapX := none } := by
  have hc : ctorCorners mc (List.replicate data.length false)
      = some (if mc then maskCorners (List.replicate data.length false) else List.replicate data.length false) := by
    cases mc with
    | false => rfl
    | true =>
      have hl : data.length ≠ 0 := fun e => hne rfl (List.length_eq_zero_iff.mp e)
      simp [ctorCorners, hl]
  have hpp : ctorPopIds (labelsVal p) none shape.length = some p := by
    cases p with
    | none => rfl
    | some l => simp [ctorPopIds, labelsVal, hp l rfl]
  rw [hd] at hc
  simp [construct, baseOf, hd, ctorMask, ownMaskOf, ctorFolded, hpp, ctorExtrap, asNum, hc]

/-- what `from_file` makes of the mask line the writer produced -/
theorem mask_step (n : Nat) (mask : List Bool) (hm : mask.length = n) :
    (if mask.map fmtD = [] then some PyVal.none
     else match readCount n (mask.map fmtD) with
       | Option.none => Option.none
       | some ts => (ts.mapM parseBit).map PyVal.marr)
      = some (if mask = [] then PyVal.none else PyVal.marr mask) := by
  cases mask with
  | nil => simp
  | cons b bs =>
    have : readCount n ((b :: bs).map fmtD) = some ((b :: bs).map fmtD) := readCount_exact _ _ (by simpa using hm)
    rw [this]
    simp only [mapM_parseBit]
    simp

/-! ## the array reader on a current-format header -/

theorem parseInt_flagWord (f : Bool) : parseInt (flagWord f) = none := by cases f <;> decide

/-- `[int(d) for d in toks]` raises as soon as the flag word is among the tokens -/
theorem mapM_parseInt_flag (pre post : List Str) (f : Bool) : (pre ++ flagWord f :: post).mapM parseInt = none := by
  induction pre with
  | nil => simp [List.mapM_cons, parseInt_flagWord]
  | cons t ts ih =>
    simp only [List.cons_append, List.mapM_cons, ih]
    cases parseInt t <;> rfl

end DadiVerif.FileFormat
