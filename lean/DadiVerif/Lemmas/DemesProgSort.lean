import DadiVerif.Model.DemesProg
import Mathlib.Order.WithBot
import Mathlib.Data.Rat.Init
import Mathlib.Algebra.Order.Ring.Rat
import Mathlib.Data.List.Basic
import Mathlib.Data.Prod.Lex
/-! C16 (round 5) — the Python `sorted(...)` calls of the importer: times (`none` = `inf`) form a linear order, `sortDesc` returns the distinct
    elements in strictly descending order, `sortDescBy` of a list with distinct keys is THE descending arrangement of that list. -/
namespace DadiVerif.DemesConv

/-- a time as an element of the linear order `ℚ ∪ {∞}` -/
def tw (a : ETime) : WithTop ℚ := a

theorem tge_iff (a b : ETime) : tge a b = true ↔ tw b ≤ tw a := by
  cases a with
  | none => simp [tge, tw]; exact le_top
  | some x =>
    cases b with
    | none => simp [tge, tw]; exact fun h => by simpa using (top_le_iff.1 h)
    | some y =>
      simp only [tge, tw, decide_eq_true_eq]
      exact (WithTop.coe_le_coe).symm

theorem tle_iff (a b : ETime) : tle a b = true ↔ tw a ≤ tw b := tge_iff b a

theorem tgt_iff (a b : ETime) : tgt a b = true ↔ tw b < tw a := by
  unfold tgt
  rw [Bool.not_eq_true', ← Bool.not_eq_true, tle_iff, not_le]

theorem teq_iff (a b : ETime) : teq a b = true ↔ a = b := by
  cases a <;> cases b <;> simp [teq]

theorem tw_inj {a b : ETime} (h : tw a = tw b) : a = b := h

/-! ### `sortDesc` -/

def DescT (l : List ETime) : Prop := l.Pairwise fun a b => tw b < tw a

theorem mem_insDesc (x y : ETime) (l : List ETime) : y ∈ insDesc x l ↔ y = x ∨ y ∈ l := by
  induction l with
  | nil => simp [insDesc]
  | cons z zs ih =>
    unfold insDesc
    by_cases h1 : teq x z = true
    · have : x = z := (teq_iff x z).1 h1
      simp only [h1, if_true, List.mem_cons]
      subst this
      tauto
    · simp only [h1, Bool.false_eq_true, if_false]
      by_cases h2 : tge x z = true
      · simp [h2]
      · simp only [h2, Bool.false_eq_true, if_false, List.mem_cons, ih]
        tauto

theorem insDesc_desc (x : ETime) (l : List ETime) (h : DescT l) : DescT (insDesc x l) := by
  induction l with
  | nil => simp [insDesc, DescT]
  | cons z zs ih =>
    unfold insDesc
    have hz := List.pairwise_cons.1 h
    by_cases h1 : teq x z = true
    · simp only [h1, if_true]; exact h
    · simp only [h1, Bool.false_eq_true, if_false]
      have hne : x ≠ z := fun e => h1 ((teq_iff x z).2 e)
      by_cases h2 : tge x z = true
      · simp only [h2, if_true]
        have hlt : tw z < tw x := lt_of_le_of_ne ((tge_iff x z).1 h2) (fun e => hne (tw_inj e).symm)
        refine List.pairwise_cons.2 ⟨?_, h⟩
        intro b hb
        rcases List.mem_cons.1 hb with rfl | hb
        · exact hlt
        · exact lt_trans (hz.1 b hb) hlt
      · simp only [h2, Bool.false_eq_true, if_false]
        have hlt : tw x < tw z := by
          have : ¬ tw z ≤ tw x := fun e => h2 ((tge_iff x z).2 e)
          exact not_le.1 this
        refine List.pairwise_cons.2 ⟨?_, ih hz.2⟩
        intro b hb
        rcases (mem_insDesc x b zs).1 hb with rfl | hb
        · exact hlt
        · exact hz.1 b hb

theorem sortDesc_desc (l : List ETime) : DescT (sortDesc l) := by
  unfold sortDesc
  induction l with
  | nil => simp [DescT]
  | cons x xs ih => exact insDesc_desc x _ ih

theorem mem_sortDesc (y : ETime) (l : List ETime) : y ∈ sortDesc l ↔ y ∈ l := by
  unfold sortDesc
  induction l with
  | nil => simp
  | cons x xs ih => simp only [List.foldr_cons, mem_insDesc, ih, List.mem_cons]

theorem DescT.nodup {l : List ETime} (h : DescT l) : l.Nodup :=
  List.Pairwise.imp (fun hab e => by rw [e] at hab; exact lt_irrefl _ hab) h

/-- two strictly descending lists of times with the same members are equal -/
theorem DescT.unique {l₁ l₂ : List ETime} (h₁ : DescT l₁) (h₂ : DescT l₂) (hm : ∀ x, x ∈ l₁ ↔ x ∈ l₂) : l₁ = l₂ := by
  apply List.Perm.eq_of_pairwise (le := fun a b => tw b < tw a) ?_ h₁ h₂ ((List.perm_ext_iff_of_nodup h₁.nodup h₂.nodup).2 hm)
  intro a b _ _ hab hba
  exact absurd (lt_trans hab hba) (lt_irrefl _)

/-! ### `sortDescBy` with a key into a linear order -/

section
variable {α K : Type} [LinearOrder K] (key : α → K) (gt : α → α → Bool)

def DescK (l : List α) : Prop := l.Pairwise fun a b => key b < key a

theorem perm_insDescBy (x : α) (l : List α) : (insDescBy gt x l).Perm (x :: l) := by
  induction l with
  | nil => simp [insDescBy]
  | cons y ys ih =>
    unfold insDescBy
    split_ifs
    · exact List.Perm.refl _
    · exact (List.Perm.cons y ih).trans (List.Perm.swap x y ys)

theorem perm_sortDescBy (l : List α) : (sortDescBy gt l).Perm l := by
  unfold sortDescBy
  induction l with
  | nil => simp
  | cons x xs ih => exact (perm_insDescBy gt x _).trans (List.Perm.cons x ih)

theorem insDescBy_desc (hgt : ∀ a b, gt a b = true ↔ key b < key a) (x : α) (l : List α) (h : DescK key l) (hx : ∀ y ∈ l, key y ≠ key x) :
    DescK key (insDescBy gt x l) := by
  induction l with
  | nil => simp [insDescBy, DescK]
  | cons z zs ih =>
    unfold insDescBy
    have hz := List.pairwise_cons.1 h
    by_cases h1 : gt x z = true
    · simp only [h1, if_true]
      have hlt := (hgt x z).1 h1
      refine List.pairwise_cons.2 ⟨?_, h⟩
      intro b hb
      rcases List.mem_cons.1 hb with rfl | hb
      · exact hlt
      · exact lt_trans (hz.1 b hb) hlt
    · simp only [h1, Bool.false_eq_true, if_false]
      have hlt : key x < key z := by
        have : ¬ key z < key x := fun e => h1 ((hgt x z).2 e)
        exact lt_of_le_of_ne (not_lt.1 this) (fun e => hx z List.mem_cons_self e.symm)
      refine List.pairwise_cons.2 ⟨?_, ih hz.2 (fun y hy => hx y (List.mem_cons_of_mem _ hy))⟩
      intro b hb
      rcases List.mem_cons.1 ((perm_insDescBy gt x zs).subset hb) with rfl | hb
      · exact hlt
      · exact hz.1 b hb

theorem sortDescBy_desc (hgt : ∀ a b, gt a b = true ↔ key b < key a) (l : List α) (hnd : (l.map key).Nodup) : DescK key (sortDescBy gt l) := by
  unfold sortDescBy
  induction l with
  | nil => simp [DescK]
  | cons x xs ih =>
    simp only [List.map_cons, List.nodup_cons] at hnd
    refine insDescBy_desc key gt hgt x _ (ih hnd.2) ?_
    intro y hy e
    apply hnd.1
    rw [← e]
    exact List.mem_map_of_mem ((perm_sortDescBy gt xs).subset hy)

/-- a list with distinct keys has ONE arrangement that is strictly descending in the key: `sortDescBy` is that arrangement -/
theorem sortDescBy_unique (hgt : ∀ a b, gt a b = true ↔ key b < key a) (l l' : List α) (hnd : (l.map key).Nodup) (hp : l'.Perm l) (hd : DescK key l') :
    sortDescBy gt l = l' := by
  apply List.Perm.eq_of_pairwise (le := fun a b => key b < key a) ?_ (sortDescBy_desc key gt hgt l hnd) hd ((perm_sortDescBy gt l).trans hp.symm)
  intro a b _ _ hab hba
  exact absurd (lt_trans hab hba) (lt_irrefl _)
end

/-- an interval as an element of the lexicographic order -/
def ivw (a : ETime × ETime) : WithTop ℚ ×ₗ WithTop ℚ := toLex (tw a.1, tw a.2)

theorem ivGt_iff (a b : ETime × ETime) : ivGt a b = true ↔ ivw b < ivw a := by
  unfold ivGt ivw
  rw [Prod.Lex.toLex_lt_toLex]
  simp only [Bool.or_eq_true, Bool.and_eq_true, tgt_iff, decide_eq_true_eq]
  constructor
  · rintro (h | ⟨h1, h2⟩)
    · exact Or.inl h
    · exact Or.inr ⟨by rw [h1], h2⟩
  · rintro (h | ⟨h1, h2⟩)
    · exact Or.inl h
    · exact Or.inr ⟨(tw_inj h1).symm, h2⟩

theorem ivw_inj {a b : ETime × ETime} (h : ivw a = ivw b) : a = b := by
  unfold ivw at h
  have := toLex.injective h
  exact Prod.ext (tw_inj (Prod.mk.inj this).1) (tw_inj (Prod.mk.inj this).2)

end DadiVerif.DemesConv
