import DadiVerif.Lemmas.PopOpsKernel
import DadiVerif.Lemmas.PopOpsSplit
/-! C10 (round 5): the scalar kernel identity behind "projecting the merged population = hypergeometric mixture over the splits",
    in the form in which it appears when the two sides are written out on an n-D spectrum: the inner sums run over the boxes of
    the split-projected spectrum (extents ma+1 and M−ma+1, different for every split) with the indicator of the merge fibre. -/
namespace DadiVerif.PopOps
open Finset

/-- a double sum over a box with the indicator of an antidiagonal = a single sum along the antidiagonal, for a summand that
    vanishes outside the box -/
theorem sum_antidiag_box (A B s R : ℕ) (hA : A ≤ R) (hs : s < R) (g : ℕ → ℕ → ℚ)
    (hgA : ∀ x y, A ≤ x → g x y = 0) (hgB : ∀ x y, B ≤ y → g x y = 0) :
    ∑ x ∈ range A, ∑ y ∈ range B, (if x + y = s then g x y else 0) = ∑ x ∈ range (s + 1), g x (s - x) := by
  have inner : ∀ x, ∑ y ∈ range B, (if x + y = s then g x y else 0) = if x ≤ s then g x (s - x) else 0 := by
    intro x
    by_cases hx : x ≤ s
    · rw [if_pos hx]
      by_cases hy : s - x < B
      · rw [Finset.sum_eq_single_of_mem (s - x) (by simpa using hy)]
        · rw [if_pos (by omega)]
        · intro y _ hne; rw [if_neg (by omega)]
      · rw [hgB x (s - x) (by omega)]
        apply Finset.sum_eq_zero
        intro y hy'; rw [mem_range] at hy'; rw [if_neg (by omega)]
    · rw [if_neg hx]
      apply Finset.sum_eq_zero
      intro y _; rw [if_neg (by omega)]
  simp_rw [inner]
  have e1 : ∑ x ∈ range A, (if x ≤ s then g x (s - x) else 0) = ∑ x ∈ range R, (if x ≤ s then g x (s - x) else 0) := by
    apply Finset.sum_subset
    · intro x hx; simp at hx ⊢; omega
    · intro x _ hx; simp at hx; rw [hgA x _ hx]; simp
  have e2 : ∑ x ∈ range (s + 1), g x (s - x) = ∑ x ∈ range R, (if x ≤ s then g x (s - x) else 0) := by
    rw [← Finset.sum_subset (s₁ := range (s + 1)) (s₂ := range R)]
    · apply Finset.sum_congr rfl
      intro x hx; simp at hx; rw [if_pos (by omega)]
    · intro x hx; simp at hx ⊢; omega
    · intro x _ hx; simp at hx; rw [if_neg (by omega)]
  rw [e1, e2]

/-- **kernel of the mixture**: for a source entry with (ia, ib) derived alleles in the two populations, the weight with which it
    reaches merged count `s` through "project to (ma, M−ma), merge", mixed over the splits with the hypergeometric split
    probabilities, is the weight of projecting the merged population (n_a+n_b chromosomes) to M. -/
theorem mix_kernel (na nb M ia ib s : ℕ) (hia : ia ≤ na) (hib : ib ≤ nb) (hM : M ≤ na + nb) (hs : s ≤ M) :
    ∑ ma ∈ range (M + 1), hyp na (na + nb) M ma *
        (∑ sa ∈ range (ma + 1), ∑ sb ∈ range (M - ma + 1),
          (if sa + sb = s then projW na ma ia sa * projW nb (M - ma) ib sb else 0))
      = projW (na + nb) M (ia + ib) s := by
  rw [projW_eq_hyp (na + nb) M (ia + ib) s hM (by omega), hyp_split na nb M ia ib s hia hib hM hs]
  apply Finset.sum_congr rfl
  intro ma hma
  rw [mem_range] at hma
  by_cases hv : ma ≤ na ∧ M - ma ≤ nb
  · congr 1
    have hg : ∀ sa sb, projW na ma ia sa * projW nb (M - ma) ib sb = hyp ma na ia sa * hyp (M - ma) nb ib sb := by
      intro sa sb
      rw [projW_eq_hyp na ma ia sa hv.1 hia, projW_eq_hyp nb (M - ma) ib sb hv.2 hib]
    simp_rw [hg]
    exact sum_antidiag_box (ma + 1) (M - ma + 1) s (M + 1) (by omega) (by omega)
      (fun x y => hyp ma na ia x * hyp (M - ma) nb ib y)
      (fun x y hx => by rw [hyp_of_gt_m (by omega : ma < x)]; simp)
      (fun x y hy => by rw [hyp_of_gt_m (by omega : M - ma < y)]; simp)
  · have hz : hyp na (na + nb) M ma = 0 := by
      by_cases h1 : ma ≤ na
      · have h2 : nb < M - ma := by omega
        rw [hyp_of_le (by omega : ma ≤ M), show na + nb - na = nb by omega, Nat.choose_eq_zero_of_lt h2]; simp
      · exact hyp_of_gt_m (by omega)
    rw [hz, zero_mul, zero_mul]

end DadiVerif.PopOps
