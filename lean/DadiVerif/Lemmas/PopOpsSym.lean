import DadiVerif.Lemmas.PopOpsObsF
/-! C10 (round 5): mirror-symmetric spectra.  `unfold` produces a spectrum whose data and mask are invariant under the mirror
    `i ↦ n − i` and whose two corners are masked; one-axis sums, one-axis projections (hypergeometric weights are mirror-invariant,
    `hyp_mirror`) and corner masking preserve that; on such a spectrum `unfold ∘ fold` is observationally the identity.  This is
    what makes the commutations with `project` go through on FOLDED input. -/
namespace DadiVerif.PopOps
open Finset

/-- no empty axis; mask and data invariant under the mirror, on the box -/
def Sym (Z : FS) : Prop :=
  (∀ s ∈ Z.shape, 1 ≤ s) ∧ ∀ i ∈ Z.box, Z.msk (mirror Z.shape i) = Z.msk i ∧ Z.dat (mirror Z.shape i) = Z.dat i

/-- both corners are masked -/
def CornersMasked (Z : FS) : Prop := ∀ i ∈ Z.box, isCorner Z.shape i = true → Z.msk i = true

theorem not_both_foldedOut (sh : List Nat) (i : Idx) (hi : i ∈ boxIdx sh) :
    ¬ (foldedOut sh i = true ∧ foldedOut sh (mirror sh i) = true) := by
  obtain ⟨h1, h2⟩ := mirror_sum sh i hi
  simp only [foldedOut, decide_eq_true_eq, h2]
  omega

/-- **`unfold ∘ fold` is observationally the identity on a mirror-symmetric spectrum with masked corners** -/
theorem unfold_fold_sym (Z : FS) (hs : Sym Z) (hcm : CornersMasked Z) : Obs (unfoldCore (foldCore Z)) Z := by
  refine ⟨rfl, fun i hi => ?_⟩
  have hi' : i ∈ Z.box := hi
  have hmi := mirror_mem_box Z.shape i hi'
  obtain ⟨hm, hd⟩ := hs.2 i hi'
  have h3 : mirror Z.shape (mirror Z.shape i) = i := mirror_mirror Z.shape i hi'
  have h4 := isCorner_mirror Z.shape i hi'
  have hnb := not_both_foldedOut Z.shape i hi'
  have hc := hcm i hi'
  refine ⟨?_, fun _ => ?_⟩
  · show (Bool.xor (Z.msk i || Z.msk (mirror Z.shape i) || foldedOut Z.shape i || isCorner Z.shape i) (foldedOut Z.shape i)
          || Bool.xor (Z.msk (mirror Z.shape i) || Z.msk (mirror Z.shape (mirror Z.shape i)) || foldedOut Z.shape (mirror Z.shape i)
                || isCorner Z.shape (mirror Z.shape i)) (foldedOut Z.shape (mirror Z.shape i))
          || isCorner Z.shape i) = Z.msk i
    rw [h3, hm, h4]
    revert hnb hc
    cases Z.msk i <;> cases foldedOut Z.shape i <;> cases foldedOut Z.shape (mirror Z.shape i) <;> cases isCorner Z.shape i <;> simp
  · rw [unfold_fold_dat Z i hi']
    unfold symDat
    rw [hd]; ring

/-- what `unfold` returns is mirror-symmetric with masked corners -/
theorem sym_unfoldCore (F : FS) (hpos : ∀ s ∈ F.shape, 1 ≤ s) : Sym (unfoldCore F) ∧ CornersMasked (unfoldCore F) := by
  refine ⟨⟨hpos, fun i hi => ?_⟩, fun i _ hc => ?_⟩
  · have hi' : i ∈ boxIdx F.shape := hi
    have h3 : mirror F.shape (mirror F.shape i) = i := mirror_mirror F.shape i hi'
    have h4 := isCorner_mirror F.shape i hi'
    constructor
    · show (Bool.xor (F.msk (mirror F.shape i)) (foldedOut F.shape (mirror F.shape i))
            || Bool.xor (F.msk (mirror F.shape (mirror F.shape i))) (foldedOut F.shape (mirror F.shape (mirror F.shape i)))
            || isCorner F.shape (mirror F.shape i))
          = (Bool.xor (F.msk i) (foldedOut F.shape i) || Bool.xor (F.msk (mirror F.shape i)) (foldedOut F.shape (mirror F.shape i))
            || isCorner F.shape i)
      rw [h3, h4]
      cases Bool.xor (F.msk i) (foldedOut F.shape i) <;> cases Bool.xor (F.msk (mirror F.shape i)) (foldedOut F.shape (mirror F.shape i)) <;> rfl
    · show (F.dat (mirror F.shape i) + F.dat (mirror F.shape (mirror F.shape i))) / 2 = (F.dat i + F.dat (mirror F.shape i)) / 2
      rw [h3]; ring
  · have hc' : isCorner F.shape i = true := hc
    show (_ || isCorner F.shape i) = true
    rw [hc']; simp

theorem sym_maskCorners {Z : FS} (hs : Sym Z) : Sym (maskCorners Z) ∧ CornersMasked (maskCorners Z) := by
  refine ⟨⟨hs.1, fun i hi => ?_⟩, fun i _ hc => ?_⟩
  · have hi' : i ∈ Z.box := hi
    obtain ⟨hm, hd⟩ := hs.2 i hi'
    refine ⟨?_, hd⟩
    show (Z.msk (mirror Z.shape i) || isCorner Z.shape (mirror Z.shape i)) = (Z.msk i || isCorner Z.shape i)
    rw [hm, isCorner_mirror Z.shape i hi']
  · have hc' : isCorner Z.shape i = true := hc
    show (Z.msk i || isCorner Z.shape i) = true
    rw [hc']; simp

theorem sym_update {Z : FS} (f : Bool) (l : Option (List String)) (hs : Sym Z) : Sym { Z with folded := f, labels := l } := hs

theorem cm_update {Z : FS} (f : Bool) (l : Option (List String)) (hs : CornersMasked Z) : CornersMasked { Z with folded := f, labels := l } := hs

/-- a one-axis masked sum of a mirror-symmetric spectrum is mirror-symmetric -/
theorem sym_sumAxis {Z : FS} (k : Nat) (hs : Sym Z) : Sym (sumAxis k Z) := by
  refine ⟨fun s h => hs.1 s (List.mem_of_mem_eraseIdx h), fun j hj => ?_⟩
  have hj' : j ∈ boxIdx (Z.shape.eraseIdx k) := hj
  have hbox : ∀ i ∈ boxIdx Z.shape, i.eraseIdx k ∈ boxIdx (Z.shape.eraseIdx k) := fun i hi => eraseIdx_mem_box Z.shape k i hi
  have hmir : ∀ i ∈ boxIdx Z.shape, (mirror Z.shape i).eraseIdx k = mirror (Z.shape.eraseIdx k) (i.eraseIdx k) :=
    fun i _ => dropAxes_mirror [k] Z.shape i
  have hmj := mirror_mem_box _ j hj'
  have hmm := mirror_mirror _ j hj'
  constructor
  · show allL Z.box (fun i => i.eraseIdx k) Z.msk (mirror (Z.shape.eraseIdx k) j) = allL Z.box (fun i => i.eraseIdx k) Z.msk j
    rw [Bool.eq_iff_iff]
    simp only [allL, List.all_eq_true, List.mem_filter, beq_iff_eq, and_imp]
    constructor
    · intro h i hi hij
      have := h (mirror Z.shape i) (mirror_mem_box _ i hi) (by rw [hmir i hi, hij])
      rwa [(hs.2 i hi).1] at this
    · intro h i hi hij
      have := h (mirror Z.shape i) (mirror_mem_box _ i hi) (by rw [hmir i hi, hij, hmm])
      rwa [(hs.2 i hi).1] at this
  · show pushL (boxIdx Z.shape) (fun i => i.eraseIdx k) Z.val (mirror (Z.shape.eraseIdx k) j)
        = pushL (boxIdx Z.shape) (fun i => i.eraseIdx k) Z.val j
    rw [← pushL_mirror Z.shape (Z.shape.eraseIdx k) (fun i => i.eraseIdx k) Z.val hbox hmir j hj']
    apply pushL_congr
    intro i hi _
    obtain ⟨hm, hd⟩ := hs.2 i hi
    simp only [FS.val, hm, hd]

theorem sym_marginalizeCore {Z : FS} (ks : List Nat) (hs : Sym Z) : Sym (marginalizeCore ks Z) := by
  induction ks generalizing Z with
  | nil => exact hs
  | cons k ks ih => rw [marginalizeCore_cons]; exact ih (sym_sumAxis k hs)

theorem zipWith_set' {α β γ : Type} (f : α → β → γ) (l : List α) (j : List β) (k : Nat) (a : α) (b : β) :
    List.zipWith f (l.set k a) (j.set k b) = (List.zipWith f l j).set k (f a b) := by
  induction l generalizing j k with
  | nil => simp
  | cons x xs ih =>
    cases j with
    | nil => simp
    | cons y ys =>
      cases k with
      | zero => simp
      | succ k => simp only [List.set_cons_succ, List.zipWith_cons_cons]; rw [ih]

theorem mirror_set (sh : List Nat) (j : Idx) (k s v : Nat) : mirror (sh.set k s) (j.set k v) = (mirror sh j).set k (s - 1 - v) :=
  zipWith_set' _ sh j k s v

/-- a one-axis projection of a mirror-symmetric spectrum is mirror-symmetric (the hypergeometric weights are, `hyp_mirror`) -/
theorem sym_projectAxis {Z : FS} (k m : Nat) (hk : k < Z.ndim) (hm : m + 1 ≤ Z.shape.getD k 0) (hs : Sym Z) :
    Sym (projectAxis k m Z) := by
  have hk0 : k < Z.shape.length := hk
  refine ⟨pos_set hs.1 k (m + 1) (by omega), fun j hj => ?_⟩
  have hj' : j ∈ boxIdx (Z.shape.set k (m + 1)) := hj
  have hjl : k < j.length := by rw [mem_box_length _ _ hj', List.length_set]; exact hk0
  have hjk : j.getD k 0 < m + 1 := by
    have := getD_lt_of_mem_box _ j hj' k (by simpa using hk0)
    rwa [getD_set_self _ _ _ _ hk0] at this
  set n1 := Z.shape.getD k 0 with hn1
  have hmk : (mirror (Z.shape.set k (m + 1)) j).getD k 0 = m - j.getD k 0 := by
    rw [getD_mirror ((mem_boxIdx _ _).1 hj') k, getD_set_self _ _ _ _ hk0]; omega
  have key : ∀ h, h < n1 → (mirror (Z.shape.set k (m + 1)) j).set k h = mirror Z.shape (j.set k (n1 - 1 - h)) := by
    intro h hh
    have e1 : mirror Z.shape (j.set k (n1 - 1 - h)) = (mirror Z.shape j).set k h := by
      conv_lhs => rw [← set_getD_self Z.shape k 0]
      rw [mirror_set, ← hn1]
      congr 1; omega
    have e2 : mirror (Z.shape.set k (m + 1)) j = (mirror Z.shape j).set k (m + 1 - 1 - j.getD k 0) := by
      conv_lhs => rw [← set_getD_self j k 0]
      rw [mirror_set]
    rw [e1, e2, List.set_set]
  have hbox : ∀ h, h < n1 → j.set k h ∈ boxIdx Z.shape := fun h hh => set_mem_box' Z.shape k (m + 1) h j hj' hh
  constructor
  · -- mask
    show (projectAxis k m Z).msk (mirror (Z.shape.set k (m + 1)) j) = (projectAxis k m Z).msk j
    rw [projectAxis_msk, ← hn1, Bool.eq_iff_iff, projMsk_iff, projMsk_iff, hmk]
    constructor
    · rintro ⟨h, hh, hw, hb⟩
      refine ⟨n1 - 1 - h, by omega, by omega, ?_⟩
      rw [key h hh, (hs.2 _ (hbox _ (by omega))).1] at hb
      exact hb
    · rintro ⟨h, hh, hw, hb⟩
      refine ⟨n1 - 1 - h, by omega, by omega, ?_⟩
      rw [key _ (by omega), (hs.2 _ (hbox _ (by omega))).1, show n1 - 1 - (n1 - 1 - h) = h by omega]
      exact hb
  · -- data
    show (projectAxis k m Z).dat (mirror (Z.shape.set k (m + 1)) j) = (projectAxis k m Z).dat j
    rw [projectAxis_dat, ← hn1]
    unfold projDat
    rw [sum_range_eq, sum_range_eq, hmk, ← Finset.sum_range_reflect (fun h => projW (n1 - 1) m h (j.getD k 0) * Z.dat (j.set k h)) n1]
    apply Finset.sum_congr rfl
    intro h hh
    rw [Finset.mem_range] at hh
    rw [key h hh, (hs.2 _ (hbox _ (by omega))).2]
    congr 1
    rw [projW_eq_hyp _ _ _ _ (by omega) (by omega), projW_eq_hyp _ _ _ _ (by omega) (by omega)]
    have := hyp_mirror m (n1 - 1) (n1 - 1 - h) (j.getD k 0) (by omega) (by omega) (by omega)
    rw [show n1 - 1 - (n1 - 1 - h) = h by omega] at this
    exact this

theorem cm_projectAxis {Z : FS} (k m : Nat) (hk : k < Z.ndim) (hm : m + 1 ≤ Z.shape.getD k 0) (hcm : CornersMasked Z) :
    CornersMasked (projectAxis k m Z) := by
  intro j hj hc
  have hj' : j ∈ boxIdx (Z.shape.set k (m + 1)) := hj
  have hc' : isCorner (Z.shape.set k (m + 1)) j = true := hc
  rw [← projMsk_isCorner Z.shape k m hk hm j hj', projMsk_iff] at hc'
  obtain ⟨h, hh, hw, hb⟩ := hc'
  rw [projectAxis_msk, projMsk_iff]
  exact ⟨h, hh, hw, hcm _ (set_mem_box' Z.shape k (m + 1) h j hj' hh) hb⟩

theorem sym_projSteps {Z : FS} (ps : List (Nat × Nat)) (ha : Adm Z ps) (hs : Sym Z) (hcm : CornersMasked Z) :
    Sym (projSteps ps Z) ∧ CornersMasked (projSteps ps Z) := by
  induction ps generalizing Z with
  | nil => exact ⟨hs, hcm⟩
  | cons p ps ih =>
    rw [projSteps_cons]
    obtain ⟨h1, h2⟩ := ha.2 p (by simp)
    exact ih ha.tail (sym_projectAxis p.1 p.2 h1 h2 hs) (cm_projectAxis p.1 p.2 h1 h2 hcm)

theorem sym_projectCore {Z : FS} (ms : List Nat) (hadm : AdmSizes ms Z.shape) (hs : Sym Z) (hcm : CornersMasked Z) :
    Sym (projectCore ms Z) ∧ CornersMasked (projectCore ms Z) := by
  rw [projectCore_eq_steps]
  exact sym_projSteps _ (adm_stepsF Z ms hadm) hs hcm

end DadiVerif.PopOps
