import DadiVerif.Model.Memo
import Mathlib.Data.List.Basic
/-! memo transparency: if the key determines the value, every call history returns the pure function's values -/
namespace DadiVerif
section
variable {κ ν α : Type} [DecidableEq κ]

/-- every stored pair is (key a, f a) for some argument a -/
def Memo.SoundFor (key : α → κ) (f : α → ν) (c : Memo κ ν) : Prop := ∀ p ∈ c, ∃ a, key a = p.1 ∧ f a = p.2

/-- the cached function depends on its argument only through the key -/
def KeySufficient (key : α → κ) (f : α → ν) : Prop := ∀ a b, key a = key b → f a = f b

theorem Memo.lookup_sound (key : α → κ) (f : α → ν) (hk : KeySufficient key f) (c : Memo κ ν)
    (h : Memo.SoundFor key f c) (a : α) (v : ν) (hv : c.lookup (key a) = some v) : v = f a := by
  unfold Memo.lookup at hv
  cases hfind : c.find? (fun p => p.1 = key a) with
  | none => simp [hfind] at hv
  | some p =>
    simp [hfind] at hv
    have hmem := List.mem_of_find?_eq_some hfind
    have hkey : p.1 = key a := by simpa using List.find?_some hfind
    obtain ⟨b, hb1, hb2⟩ := h p hmem
    rw [← hv, ← hb2]
    exact hk b a (by rw [hb1, hkey])

theorem Memo.call_spec (key : α → κ) (f : α → ν) (hk : KeySufficient key f) (c : Memo κ ν)
    (h : Memo.SoundFor key f c) (a : α) :
    (Memo.call key f c a).2 = f a ∧ Memo.SoundFor key f (Memo.call key f c a).1 := by
  unfold Memo.call
  cases hl : c.lookup (key a) with
  | some v => exact ⟨Memo.lookup_sound key f hk c h a v hl, h⟩
  | none =>
    refine ⟨rfl, ?_⟩
    intro p hp
    rcases List.mem_cons.mp hp with rfl | hp'
    · exact ⟨a, rfl, rfl⟩
    · exact h p hp'

theorem Memo.transparent (key : α → κ) (f : α → ν) (hk : KeySufficient key f) (ops : List α) :
    ∀ (c : Memo κ ν), Memo.SoundFor key f c →
      (Memo.runOps key f c ops).2 = ops.map f ∧ Memo.SoundFor key f (Memo.runOps key f c ops).1 := by
  induction ops with
  | nil => intro c h; exact ⟨rfl, h⟩
  | cons a as ih =>
    intro c h
    obtain ⟨hv, hs⟩ := Memo.call_spec key f hk c h a
    obtain ⟨h1, h2⟩ := ih (Memo.call key f c a).1 hs
    simp only [Memo.runOps, List.map_cons]
    exact ⟨by rw [hv, h1], h2⟩

/-- a history of two calls whose arguments share a key returns the FIRST value twice: the stale value of the memo pattern -/
theorem Memo.two_calls_same_key (key : α → κ) (f : α → ν) (a b : α) (h : key a = key b) :
    (Memo.runOps key f [] [a, b]).2 = [f a, f a] := by
  simp [Memo.runOps, Memo.call, Memo.lookup, h]

/-- converse of `Memo.transparent`: if every history (it suffices: every history of two calls) returns the function's own values,
    the key determines the value.  So an insufficient key is always exposed by two otherwise arbitrary calls that agree on the key. -/
theorem Memo.key_sufficient_of_transparent (key : α → κ) (f : α → ν)
    (h : ∀ a b : α, (Memo.runOps key f [] [a, b]).2 = [a, b].map f) : KeySufficient key f := by
  intro a b hk
  have h2 := h a b
  rw [Memo.two_calls_same_key key f a b hk] at h2
  simpa using h2

/-! ### the same on a set of admissible arguments (arguments of the right arity for the table) -/

/-- key sufficiency among the arguments satisfying `P` -/
def KeySufficientOn (P : α → Prop) (key : α → κ) (f : α → ν) : Prop := ∀ a b, P a → P b → key a = key b → f a = f b

def Memo.SoundOn (P : α → Prop) (key : α → κ) (f : α → ν) (c : Memo κ ν) : Prop :=
  ∀ p ∈ c, ∃ a, P a ∧ key a = p.1 ∧ f a = p.2

theorem Memo.call_spec_on (P : α → Prop) (key : α → κ) (f : α → ν) (hk : KeySufficientOn P key f) (c : Memo κ ν)
    (h : Memo.SoundOn P key f c) (a : α) (ha : P a) :
    (Memo.call key f c a).2 = f a ∧ Memo.SoundOn P key f (Memo.call key f c a).1 := by
  unfold Memo.call
  cases hl : c.lookup (key a) with
  | some v =>
    refine ⟨?_, h⟩
    unfold Memo.lookup at hl
    cases hfind : c.find? (fun p => p.1 = key a) with
    | none => simp [hfind] at hl
    | some p =>
      simp [hfind] at hl
      have hmem := List.mem_of_find?_eq_some hfind
      have hkey : p.1 = key a := by simpa using List.find?_some hfind
      obtain ⟨b, hPb, hb1, hb2⟩ := h p hmem
      show v = f a
      rw [← hl, ← hb2]
      exact hk b a hPb ha (by rw [hb1, hkey])
  | none =>
    refine ⟨rfl, ?_⟩
    intro p hp
    rcases List.mem_cons.mp hp with rfl | hp'
    · exact ⟨a, ha, rfl, rfl⟩
    · exact h p hp'

theorem Memo.transparent_on (P : α → Prop) (key : α → κ) (f : α → ν) (hk : KeySufficientOn P key f) (ops : List α) :
    ∀ (c : Memo κ ν), Memo.SoundOn P key f c → (∀ a ∈ ops, P a) →
      (Memo.runOps key f c ops).2 = ops.map f ∧ Memo.SoundOn P key f (Memo.runOps key f c ops).1 := by
  induction ops with
  | nil => intro c h _; exact ⟨rfl, h⟩
  | cons a as ih =>
    intro c h hP
    obtain ⟨hv, hs⟩ := Memo.call_spec_on P key f hk c h a (hP a (List.mem_cons_self ..))
    obtain ⟨h1, h2⟩ := ih (Memo.call key f c a).1 hs (fun x hx => hP x (List.mem_cons_of_mem _ hx))
    simp only [Memo.runOps, List.map_cons]
    exact ⟨by rw [hv, h1], h2⟩

end
end DadiVerif
