import DadiVerif.Model.Memo
import Mathlib.Data.List.Basic
/-! memo transparency: if the key determines the value, every call history returns the pure function's values -/
namespace DadiVerif
section
variable {κ ν α : Type} [DecidableEq κ]

/-- every stored pair is (key a, f a) for some argument a -/
def Memo.SoundFor (key : α → κ) (f : α → ν) (c : Memo κ ν) : Prop := ∀ p ∈ c, ∃ a, key a = p.1 ∧ f a = p.2

/-- the cached function depends on its argument only through the key -/
def KeySufficient (key : α → κ) (f : α → ν) : Prop := ∀ a b, key a = key b → f a = f b

theorem Memo.lookup_sound (key : α → κ) (f : α → ν) (hk : KeySufficient key f) (c : Memo κ ν)
    (h : Memo.SoundFor key f c) (a : α) (v : ν) (hv : c.lookup (key a) = some v) : v = f a := by
  unfold Memo.lookup at hv
  cases hfind : c.find? (fun p => p.1 = key a) with
  | none => simp [hfind] at hv
  | some p =>
    simp [hfind] at hv
    have hmem := List.mem_of_find?_eq_some hfind
    have hkey : p.1 = key a := by simpa using List.find?_some hfind
    obtain ⟨b, hb1, hb2⟩ := h p hmem
    rw [← hv, ← hb2]
    exact hk b a (by rw [hb1, hkey])

theorem Memo.call_spec (key : α → κ) (f : α → ν) (hk : KeySufficient key f) (c : Memo κ ν)
    (h : Memo.SoundFor key f c) (a : α) :
    (Memo.call key f c a).2 = f a ∧ Memo.SoundFor key f (Memo.call key f c a).1 := by
  unfold Memo.call
  cases hl : c.lookup (key a) with
  | some v => exact ⟨Memo.lookup_sound key f hk c h a v hl, h⟩
  | none =>
    refine ⟨rfl, ?_⟩
    intro p hp
    rcases List.mem_cons.mp hp with rfl | hp'
    · exact ⟨a, rfl, rfl⟩
    · exact h p hp'

theorem Memo.transparent (key : α → κ) (f : α → ν) (hk : KeySufficient key f) (ops : List α) :
    ∀ (c : Memo κ ν), Memo.SoundFor key f c →
      (Memo.runOps key f c ops).2 = ops.map f ∧ Memo.SoundFor key f (Memo.runOps key f c ops).1 := by
  induction ops with
  | nil => intro c h; exact ⟨rfl, h⟩
  | cons a as ih =>
    intro c h
    obtain ⟨hv, hs⟩ := Memo.call_spec key f hk c h a
    obtain ⟨h1, h2⟩ := ih (Memo.call key f c a).1 hs
    simp only [Memo.runOps, List.map_cons]
    exact ⟨by rw [hv, h1], h2⟩

end
end DadiVerif
