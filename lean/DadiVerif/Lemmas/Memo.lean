import DadiVerif.Model.Memo
import DadiVerif.Driver.Memo
import Mathlib.Data.List.Basic
import Mathlib.Data.List.Nodup
/-! memo transparency: if the key determines the value, every call history returns the pure function's values -/
namespace DadiVerif
section
variable {κ ν α : Type} [DecidableEq κ]

/-- every stored pair is (key a, f a) for some argument a -/
def Memo.SoundFor (key : α → κ) (f : α → ν) (c : Memo κ ν) : Prop := ∀ p ∈ c, ∃ a, key a = p.1 ∧ f a = p.2

/-- the cached function depends on its argument only through the key -/
def KeySufficient (key : α → κ) (f : α → ν) : Prop := ∀ a b, key a = key b → f a = f b

theorem Memo.lookup_sound (key : α → κ) (f : α → ν) (hk : KeySufficient key f) (c : Memo κ ν)
    (h : Memo.SoundFor key f c) (a : α) (v : ν) (hv : c.lookup (key a) = some v) : v = f a := by
  unfold Memo.lookup at hv
  cases hfind : c.find? (fun p => p.1 = key a) with
  | none => simp [hfind] at hv
  | some p =>
    simp [hfind] at hv
    have hmem := List.mem_of_find?_eq_some hfind
    have hkey : p.1 = key a := by simpa using List.find?_some hfind
    obtain ⟨b, hb1, hb2⟩ := h p hmem
    rw [← hv, ← hb2]
    exact hk b a (by rw [hb1, hkey])

theorem Memo.call_spec (key : α → κ) (f : α → ν) (hk : KeySufficient key f) (c : Memo κ ν)
    (h : Memo.SoundFor key f c) (a : α) :
    (Memo.call key f c a).2 = f a ∧ Memo.SoundFor key f (Memo.call key f c a).1 := by
  unfold Memo.call
  cases hl : c.lookup (key a) with
  | some v => exact ⟨Memo.lookup_sound key f hk c h a v hl, h⟩
  | none =>
    refine ⟨rfl, ?_⟩
    intro p hp
    rcases List.mem_cons.mp hp with rfl | hp'
    · exact ⟨a, rfl, rfl⟩
    · exact h p hp'

theorem Memo.transparent (key : α → κ) (f : α → ν) (hk : KeySufficient key f) (ops : List α) :
    ∀ (c : Memo κ ν), Memo.SoundFor key f c →
      (Memo.runOps key f c ops).2 = ops.map f ∧ Memo.SoundFor key f (Memo.runOps key f c ops).1 := by
  induction ops with
  | nil => intro c h; exact ⟨rfl, h⟩
  | cons a as ih =>
    intro c h
    obtain ⟨hv, hs⟩ := Memo.call_spec key f hk c h a
    obtain ⟨h1, h2⟩ := ih (Memo.call key f c a).1 hs
    simp only [Memo.runOps, List.map_cons]
    exact ⟨by rw [hv, h1], h2⟩

/-- a history of two calls whose arguments share a key returns the FIRST value twice: the stale value of the memo pattern -/
theorem Memo.two_calls_same_key (key : α → κ) (f : α → ν) (a b : α) (h : key a = key b) :
    (Memo.runOps key f [] [a, b]).2 = [f a, f a] := by
  simp [Memo.runOps, Memo.call, Memo.lookup, h]

/-- converse of `Memo.transparent`: if every history (it suffices: every history of two calls) returns the function's own values,
    the key determines the value.  So an insufficient key is always exposed by two otherwise arbitrary calls that agree on the key. -/
theorem Memo.key_sufficient_of_transparent (key : α → κ) (f : α → ν)
    (h : ∀ a b : α, (Memo.runOps key f [] [a, b]).2 = [a, b].map f) : KeySufficient key f := by
  intro a b hk
  have h2 := h a b
  rw [Memo.two_calls_same_key key f a b hk] at h2
  simpa using h2

/-! ### the same on a set of admissible arguments (arguments of the right arity for the table) -/

/-- key sufficiency among the arguments satisfying `P` -/
def KeySufficientOn (P : α → Prop) (key : α → κ) (f : α → ν) : Prop := ∀ a b, P a → P b → key a = key b → f a = f b

def Memo.SoundOn (P : α → Prop) (key : α → κ) (f : α → ν) (c : Memo κ ν) : Prop :=
  ∀ p ∈ c, ∃ a, P a ∧ key a = p.1 ∧ f a = p.2

theorem Memo.call_spec_on (P : α → Prop) (key : α → κ) (f : α → ν) (hk : KeySufficientOn P key f) (c : Memo κ ν)
    (h : Memo.SoundOn P key f c) (a : α) (ha : P a) :
    (Memo.call key f c a).2 = f a ∧ Memo.SoundOn P key f (Memo.call key f c a).1 := by
  unfold Memo.call
  cases hl : c.lookup (key a) with
  | some v =>
    refine ⟨?_, h⟩
    unfold Memo.lookup at hl
    cases hfind : c.find? (fun p => p.1 = key a) with
    | none => simp [hfind] at hl
    | some p =>
      simp [hfind] at hl
      have hmem := List.mem_of_find?_eq_some hfind
      have hkey : p.1 = key a := by simpa using List.find?_some hfind
      obtain ⟨b, hPb, hb1, hb2⟩ := h p hmem
      show v = f a
      rw [← hl, ← hb2]
      exact hk b a hPb ha (by rw [hb1, hkey])
  | none =>
    refine ⟨rfl, ?_⟩
    intro p hp
    rcases List.mem_cons.mp hp with rfl | hp'
    · exact ⟨a, ha, rfl, rfl⟩
    · exact h p hp'

theorem Memo.transparent_on (P : α → Prop) (key : α → κ) (f : α → ν) (hk : KeySufficientOn P key f) (ops : List α) :
    ∀ (c : Memo κ ν), Memo.SoundOn P key f c → (∀ a ∈ ops, P a) →
      (Memo.runOps key f c ops).2 = ops.map f ∧ Memo.SoundOn P key f (Memo.runOps key f c ops).1 := by
  induction ops with
  | nil => intro c h _; exact ⟨rfl, h⟩
  | cons a as ih =>
    intro c h hP
    obtain ⟨hv, hs⟩ := Memo.call_spec_on P key f hk c h a (hP a (List.mem_cons_self ..))
    obtain ⟨h1, h2⟩ := ih (Memo.call key f c a).1 hs (fun x hx => hP x (List.mem_cons_of_mem _ hx))
    simp only [Memo.runOps, List.map_cons]
    exact ⟨by rw [hv, h1], h2⟩

end

/-! ### alias flow: the may-alias analysis `Driver.Memo.arun` is sound for the path semantics of a skeleton -/
section
open Gen.Effects Driver.Memo

/-- outcome of running a skeleton: normal exit with a state, or the function has returned / raised -/
inductive Flow.Out where
  | normal (c : Nat → Bool)
  | stopped

/-- path semantics of a skeleton with respect to one tracked object: `c x = true` iff name `x` holds the object;
    `Exec f c m o`: some execution of `f` from `c` writes to the object iff `m`, and ends in `o` -/
inductive Flow.Exec : Flow → (Nat → Bool) → Bool → Flow.Out → Prop where
  | fresh (x c) : Exec (.fresh x) c false (.normal (fun y => if y = x then false else c y))
  | aliasPick (x ys c y) : y ∈ ys → Exec (.alias x ys) c false (.normal (fun z => if z = x then c y else c z))
  | aliasCopy (x ys c) : Exec (.alias x ys) c false (.normal (fun z => if z = x then false else c z))
  | mutate (x c) : Exec (.mutate x) c (c x) (.normal c)
  | skip (c) : Exec .skip c false (.normal c)
  | stop (c) : Exec .stop c false .stopped
  | seqNormal {a b c m1 c1 m2 o} : Exec a c m1 (.normal c1) → Exec b c1 m2 o → Exec (.seq a b) c (m1 || m2) o
  | seqStop {a b c m1} : Exec a c m1 .stopped → Exec (.seq a b) c m1 .stopped
  | iteL {a b c m o} : Exec a c m o → Exec (.ite a b) c m o
  | iteR {a b c m o} : Exec b c m o → Exec (.ite a b) c m o
  | loopZero (a c) : Exec (.loop a) c false (.normal c)
  | loopStep {a c m1 c1 m2 o} : Exec a c m1 (.normal c1) → Exec (.loop a) c1 m2 o → Exec (.loop a) c (m1 || m2) o
  | loopStop {a c m1} : Exec a c m1 .stopped → Exec (.loop a) c m1 .stopped

/-- the abstract state covers the concrete one -/
def Flow.Covers (S : List Nat) (c : Nat → Bool) : Prop := ∀ x, c x = true → x ∈ S

theorem Flow.arun_seq (fuel : Nat) (a b : Flow) (S : List Nat) :
    arun fuel (.seq a b) S = ((arun fuel b (arun fuel a S).1).1, (arun fuel a S).2 || (arun fuel b (arun fuel a S).1).2) := by
  simp only [arun]

theorem Flow.arun_ite (fuel : Nat) (a b : Flow) (S : List Nat) :
    arun fuel (.ite a b) S = (junion (arun fuel a S).1 (arun fuel b S).1, (arun fuel a S).2 || (arun fuel b S).2) := by
  simp only [arun]

theorem Flow.arun_loop (fuel : Nat) (a : Flow) (S : List Nat) :
    arun fuel (.loop a) S =
      if (arun fuel a (iterJoin (fun acc => (arun fuel a acc).1) fuel S)).1.all ((iterJoin (fun acc => (arun fuel a acc).1) fuel S).contains ·)
      then (iterJoin (fun acc => (arun fuel a acc).1) fuel S, (arun fuel a (iterJoin (fun acc => (arun fuel a acc).1) fuel S)).2)
      else ([], true) := by
  simp only [arun]

theorem Flow.mem_junion (S T : List Nat) (x : Nat) : x ∈ junion S T ↔ x ∈ S ∨ x ∈ T := by
  unfold junion
  by_cases h : x ∈ S <;> simp [h]

theorem Flow.iterJoin_mono (step : List Nat → List Nat) (k : Nat) : ∀ S x, x ∈ S → x ∈ iterJoin step k S := by
  induction k with
  | zero => intro S x h; simpa [iterJoin] using h
  | succ k ih => intro S x h; simp only [iterJoin]; exact ih _ _ ((Flow.mem_junion _ _ _).mpr (Or.inl h))

/-- soundness of the body at a post-fixpoint gives soundness of the loop -/
theorem Flow.loop_inv (a : Flow) (H Hout : List Nat)
    (hbody : ∀ c, Flow.Covers H c → ∀ m o, Flow.Exec a c m o → m = false ∧ ∀ c', o = .normal c' → Flow.Covers Hout c')
    (hpost : ∀ x, x ∈ Hout → x ∈ H) :
    ∀ f c m o, Flow.Exec f c m o → f = .loop a → Flow.Covers H c → m = false ∧ ∀ c', o = .normal c' → Flow.Covers H c' := by
  intro f c m o h
  induction h with
  | loopZero a' c =>
    intro _ hc
    exact ⟨rfl, fun c' hc' => by cases hc'; exact hc⟩
  | loopStep h1 h2 _ ih2 =>
    intro hf hc
    cases hf
    obtain ⟨hm1, hn1⟩ := hbody _ hc _ _ h1
    have hc1 : Flow.Covers H _ := fun x hx => hpost x (hn1 _ rfl x hx)
    obtain ⟨hm2, hn2⟩ := ih2 rfl hc1
    exact ⟨by simp [hm1, hm2], hn2⟩
  | loopStop h1 _ =>
    intro hf hc
    cases hf
    obtain ⟨hm1, _⟩ := hbody _ hc _ _ h1
    exact ⟨hm1, fun c' hc' => by cases hc'⟩
  | _ => intro hf; cases hf

theorem Flow.sound (fuel : Nat) (f : Flow) : ∀ (S : List Nat) (c : Nat → Bool), Flow.Covers S c → (arun fuel f S).2 = false →
    ∀ m o, Flow.Exec f c m o → m = false ∧ ∀ c', o = .normal c' → Flow.Covers (arun fuel f S).1 c' := by
  induction f with
  | fresh x =>
    intro S c hc _ m o h
    cases h
    refine ⟨rfl, fun c' hc' => ?_⟩
    cases hc'
    intro y hy
    by_cases hyx : y = x
    · simp [hyx] at hy
    · simp [hyx] at hy
      simp [arun, hc y hy, hyx]
  | «alias» x ys =>
    intro S c hc _ m o h
    cases h with
    | aliasPick _ _ _ y hy =>
      refine ⟨rfl, fun c' hc' => ?_⟩
      cases hc'
      intro z hz
      by_cases hzx : z = x
      · subst hzx
        simp at hz
        have : ys.any (S.contains ·) = true := List.any_eq_true.mpr ⟨y, hy, by simpa using hc y hz⟩
        simp only [arun]
        rw [if_pos this]
        exact List.mem_cons_self
      · simp [hzx] at hz
        have := hc z hz
        simp only [arun]
        split <;> simp [this, hzx]
    | aliasCopy =>
      refine ⟨rfl, fun c' hc' => ?_⟩
      cases hc'
      intro z hz
      by_cases hzx : z = x
      · simp [hzx] at hz
      · simp [hzx] at hz
        have := hc z hz
        simp only [arun]
        split <;> simp [this, hzx]
  | mutate x =>
    intro S c hc hflag m o h
    cases h
    refine ⟨?_, fun c' hc' => by cases hc'; simpa [arun] using hc⟩
    simp [arun] at hflag
    by_contra hne
    have : c x = true := by simpa using hne
    exact hflag (hc x this)
  | skip =>
    intro S c hc _ m o h
    cases h
    exact ⟨rfl, fun c' hc' => by cases hc'; simpa [arun] using hc⟩
  | stop =>
    intro S c hc _ m o h
    cases h
    exact ⟨rfl, fun c' hc' => by cases hc'⟩
  | seq a b iha ihb =>
    intro S c hc hflag m o h
    rw [Flow.arun_seq] at hflag ⊢
    simp only [Bool.or_eq_false_iff] at hflag
    cases h with
    | seqNormal h1 h2 =>
      obtain ⟨hm1, hn1⟩ := iha S c hc hflag.1 _ _ h1
      obtain ⟨hm2, hn2⟩ := ihb _ _ (hn1 _ rfl) hflag.2 _ _ h2
      exact ⟨by simp [hm1, hm2], fun c' hc' => hn2 c' hc'⟩
    | seqStop h1 =>
      obtain ⟨hm1, _⟩ := iha S c hc hflag.1 _ _ h1
      exact ⟨hm1, fun c' hc' => by cases hc'⟩
  | ite a b iha ihb =>
    intro S c hc hflag m o h
    rw [Flow.arun_ite] at hflag ⊢
    simp only [Bool.or_eq_false_iff] at hflag
    cases h with
    | iteL h1 =>
      obtain ⟨hm, hn⟩ := iha S c hc hflag.1 _ _ h1
      exact ⟨hm, fun c' hc' x hx => (Flow.mem_junion _ _ _).mpr (Or.inl (hn c' hc' x hx))⟩
    | iteR h1 =>
      obtain ⟨hm, hn⟩ := ihb S c hc hflag.2 _ _ h1
      exact ⟨hm, fun c' hc' x hx => (Flow.mem_junion _ _ _).mpr (Or.inr (hn c' hc' x hx))⟩
  | loop a iha =>
    intro S c hc hflag m o h
    rw [Flow.arun_loop] at hflag ⊢
    split at hflag
    · rename_i hpost
      rw [if_pos hpost]
      have hpost' : ∀ x, x ∈ (arun fuel a (iterJoin (fun acc => (arun fuel a acc).1) fuel S)).1 →
          x ∈ iterJoin (fun acc => (arun fuel a acc).1) fuel S := by
        intro x hx
        have := List.all_eq_true.mp hpost x hx
        simpa using this
      have hcH : Flow.Covers (iterJoin (fun acc => (arun fuel a acc).1) fuel S) c :=
        fun x hx => Flow.iterJoin_mono _ _ _ _ (hc x hx)
      exact Flow.loop_inv a _ _ (fun c hc m o h => iha _ c hc hflag m o h) hpost' _ _ _ _ h rfl hcH
    · simp at hflag

end
end DadiVerif

/-! ### in-place writes into a strided array: `flat` / direct stores act on the logical content, whatever the layout -/
namespace DadiVerif.Driver.Memo
open Gen.Effects

/-- a well-formed strided array: distinct logical elements live at distinct positions inside the block -/
def Arr.Valid (a : Arr) : Prop := a.pos.Nodup ∧ ∀ p ∈ a.pos, p < a.buf.length

theorem Arr.getD_set (buf : List Bool) (p q : Nat) (v : Bool) (hq : q < buf.length) :
    (buf.set p v).getD q false = if p = q then v else buf.getD q false := by
  simp only [List.getD_eq_getElem?_getD, List.getElem?_set]
  by_cases h : p = q
  · subst h; simp [hq]
  · simp [h]

/-- `x.flat[k] = v` on any layout: the logical content changes at `k` and nowhere else -/
theorem Arr.logical_setLogical (a : Arr) (hv : a.Valid) (k : Nat) (hk : k < a.pos.length) (v : Bool) :
    (a.setLogical k v).logical = a.logical.set k v := by
  have hpk : a.pos.getD k 0 = a.pos[k] := by simp [List.getD_eq_getElem?_getD, hk]
  unfold Arr.logical Arr.setLogical
  rw [hpk]
  apply List.ext_getElem
  · simp
  · intro j h1 h2
    have hj : j < a.pos.length := by simpa using h1
    simp only [List.getElem_map, List.getElem_set]
    rw [Arr.getD_set _ _ _ _ (hv.2 _ (List.getElem_mem hj))]
    have : (a.pos[k] = a.pos[j]) ↔ k = j := hv.1.getElem_inj_iff
    by_cases hkj : k = j
    · subst hkj; simp
    · simp [hkj, this]

theorem Arr.valid_setLogical (a : Arr) (hv : a.Valid) (k : Nat) (v : Bool) : (a.setLogical k v).Valid := by
  refine ⟨hv.1, fun p hp => ?_⟩
  simpa [Arr.setLogical] using hv.2 p hp

theorem Arr.foldl_set_length (ps : List Nat) (buf : List Bool) (v : Bool) :
    (ps.foldl (fun b p => b.set p v) buf).length = buf.length := by
  induction ps generalizing buf with
  | nil => rfl
  | cons p ps ih => simp [List.foldl_cons, ih]

theorem Arr.foldl_set_getD (ps : List Nat) (buf : List Bool) (v : Bool) (q : Nat) (hq : q < buf.length) :
    (ps.foldl (fun b p => b.set p v) buf).getD q false = if q ∈ ps then v else buf.getD q false := by
  induction ps generalizing buf with
  | nil => simp
  | cons p ps ih =>
    rw [List.foldl_cons, ih _ (by simpa using hq), Arr.getD_set _ _ _ _ hq]
    by_cases h1 : q ∈ ps
    · simp [h1]
    · by_cases h2 : p = q
      · subst h2; simp
      · have : q ≠ p := fun h => h2 h.symm
        simp [h1, h2, this]

/-- `x[...] = v` on any layout: every logical element becomes `v` -/
theorem Arr.logical_setAll (a : Arr) (hv : a.Valid) (v : Bool) : (a.setAll v).logical = a.logical.map (fun _ => v) := by
  unfold Arr.logical Arr.setAll
  apply List.ext_getElem
  · simp
  · intro j h1 h2
    have hj : j < a.pos.length := by simpa using h1
    simp only [List.getElem_map]
    rw [Arr.foldl_set_getD _ _ _ _ (hv.2 _ (List.getElem_mem hj))]
    simp [List.getElem_mem hj]

theorem Arr.valid_setAll (a : Arr) (hv : a.Valid) (v : Bool) : (a.setAll v).Valid := by
  refine ⟨hv.1, fun p hp => ?_⟩
  simpa [Arr.setAll, Arr.foldl_set_length] using hv.2 p hp

/-- a row that writes through the array itself or its `flat` iterator -/
def layoutFree (w : MaskWrite) : Bool :=
  match w.index, w.handle with
  | .all, .direct => true
  | _, .flat => true
  | _, _ => false

/-- **one layout-free store**: on every valid layout it does to the logical content what it does to a plain list, and leaves the
    layout valid -/
theorem applyWrite_logical (w : MaskWrite) (hw : layoutFree w = true) (a : Arr) (hv : a.Valid) :
    (applyWrite w a).map Arr.logical = writeLogical w a.logical ∧ ∀ a', applyWrite w a = some a' → a'.Valid := by
  have hlen : a.logical.length = a.size := by simp [Arr.logical, Arr.size]
  obtain ⟨fn, attr, handle, index, value⟩ := w
  cases index with
  | all =>
    cases handle <;> simp [layoutFree] at hw <;>
      simp [applyWrite, writeLogical, Arr.logical_setAll a hv] <;> exact Arr.valid_setAll a hv _
  | idx i =>
    cases handle <;> simp [layoutFree] at hw
    simp only [applyWrite, writeLogical, hlen]
    cases hp : pyIndex a.size i with
    | none => simp
    | some k =>
      have hk : k < a.pos.length := by
        unfold pyIndex at hp
        unfold Arr.size at hp
        split at hp
        · split at hp <;> simp at hp; omega
        · split at hp <;> simp at hp; omega
      simp only [Option.map_some, Option.some.injEq]
      refine ⟨Arr.logical_setLogical a hv k hk _, ?_⟩
      intro a' ha'
      rw [← ha']
      exact Arr.valid_setLogical a hv k _

/-- **a method whose stores are all layout-free**: the logical content after the method is a function of the logical content
    before it — whatever the layout -/
theorem applyWrites_logical (ws : List MaskWrite) (hws : ws.all layoutFree = true) (a : Arr) (hv : a.Valid) :
    (applyWrites ws a).map Arr.logical = writesLogical ws a.logical := by
  induction ws generalizing a with
  | nil => simp [applyWrites, writesLogical]
  | cons w ws ih =>
    simp only [List.all_cons, Bool.and_eq_true] at hws
    obtain ⟨h1, h2⟩ := applyWrite_logical w hws.1 a hv
    simp only [applyWrites, writesLogical]
    cases hw : applyWrite w a with
    | none => rw [hw] at h1; simp at h1; rw [← h1]; rfl
    | some a' =>
      rw [hw] at h1
      simp only [Option.map_some] at h1
      rw [← h1]
      exact ih hws.2 a' (h2 a' hw)
end DadiVerif.Driver.Memo
