import DadiVerif.Lemmas.ProjArray
import DadiVerif.Lemmas.FoldAlg
/-! C08, whole arrays, part 3: `fold`, `unfold`, `mirror` of the C08 model (Model/Spectrum.lean) on the index box.
    `fold`/`unfold` are shown to be the pointwise programs that C09's translator regenerates from `Spectrum.fold` /
    `Spectrum.unfold` (Generated/ProjFold.lean, C08's copy of that part of the translation), instantiated at
    multi-indices; from there C09's fold algebra (part A of Lemmas/Fold.lean, restated for this copy in
    Lemmas/FoldAlg.lean: `sfold`, `Loc`, `fo`, `coef`) gives fold∘project = fold∘project∘mirror =
    fold∘project∘unfold∘fold and the conservation of totals. -/
namespace DadiVerif
namespace PBox
open Finset Gen.ProjFold

/-! ### the multi-index instance of C09's local hypotheses -/

theorem sumNat_eq (l : List ℕ) : sumNat l = l.sum := by
  have gen : ∀ (l : List ℕ) (a : ℕ), l.foldl (· + ·) a = a + l.sum := by
    intro l
    induction l with
    | nil => intro a; simp
    | cons x xs ih => intro a; simp only [List.foldl_cons, List.sum_cons, ih]; omega
  unfold sumNat
  rw [gen, Nat.zero_add]

theorem sumNat_cons (a : ℕ) (l : List ℕ) : sumNat (a :: l) = a + sumNat l := by
  rw [sumNat_eq, sumNat_eq, List.sum_cons]

theorem _root_.DadiVerif.InBox.rev {sh idx : List ℕ} (h : InBox sh idx) : InBox sh (Spec.revIdx sh idx) :=
  (inBox_iff _ _).mp (inBox_rev ((inBox_iff _ _).mpr h))

theorem _root_.DadiVerif.InBox.invol {sh idx : List ℕ} (h : InBox sh idx) : Spec.revIdx sh (Spec.revIdx sh idx) = idx :=
  revIdx_invol ((inBox_iff _ _).mpr h)

/-- total of the mirror entry + total of the entry = total sample size -/
theorem total_rev {sh idx : List ℕ} (h : InBox sh idx) :
    Spec.totalPerEntry (Spec.revIdx sh idx) + Spec.totalPerEntry idx = Spec.totalSamples sh := by
  unfold InBox at h
  unfold Spec.totalPerEntry Spec.totalSamples
  induction h with
  | nil => rfl
  | @cons i s is ss h0 _ ih =>
    rw [revIdx_cons, List.map_cons, sumNat_cons, sumNat_cons, sumNat_cons]
    omega

theorem loc_box {sh idx : List ℕ} (h : InBox sh idx) :
    Fold.Loc (Spec.revIdx sh) Spec.totalPerEntry (Spec.totalSamples sh) idx := by
  have key := total_rev h
  exact ⟨InBox.invol h, by omega, by omega⟩

theorem foldedOut_eq_fo (sh idx : List ℕ) : Spec.foldedOut sh idx = Fold.fo Spec.totalPerEntry (Spec.totalSamples sh) idx := by
  unfold Spec.foldedOut Fold.fo
  congr 1
  apply propext
  constructor <;> intro h <;> omega

/-! ### tabulated spectra -/

theorem Spec.ofFn_congr (sh : List ℕ) (f f' : List ℕ → ℚ) (g g' : List ℕ → Bool) (fl : Bool)
    (h : ∀ idx, InBox sh idx → f idx = f' idx ∧ g idx = g' idx) : Spec.ofFn sh f g fl = Spec.ofFn sh f' g' fl := by
  unfold Spec.ofFn
  have hd : (Array.ofFn (n := prodL sh) fun k => f (unflat sh k.val)) = Array.ofFn (n := prodL sh) fun k => f' (unflat sh k.val) := by
    congr 1; funext k
    exact (h _ (Fold.unflat_lt sh k.val k.isLt)).1
  have hm : (Array.ofFn (n := prodL sh) fun k => g (unflat sh k.val)) = Array.ofFn (n := prodL sh) fun k => g' (unflat sh k.val) := by
    congr 1; funext k
    exact (h _ (Fold.unflat_lt sh k.val k.isLt)).2
  rw [hd, hm]

/-! ### `fold` / `unfold` of the C08 model are the programs regenerated from the source (tie T through C09's translator) -/

theorem fold_getD_gen (S : Spec) (idx : List ℕ) (h : InBox S.shape idx) :
    S.fold.getD idx = fold_outData (Spec.revIdx S.shape) Spec.totalPerEntry (Spec.totalSamples S.shape) S.getD S.getM idx := by
  unfold Spec.fold
  simp only
  rw [Spec.ofFn_getD _ _ _ _ idx h]
  unfold fold_outData fold_folded_3 fold_folded_2 fold_folded_1 fold_reversed_1 fold_ambiguous_1
  simp only [Fold.whereAmbiguous_eq, fold_where_folded_out_1, Spec.foldedOut, Spec.ambiguous, beq_eq_decide]
  rfl

theorem fold_getM_gen (S : Spec) (idx : List ℕ) (h : InBox S.shape idx) :
    S.fold.getM idx = (fold_outMask (Spec.revIdx S.shape) Spec.totalPerEntry (Spec.totalSamples S.shape) S.getD S.getM idx
      || (fold_maskCorners && Spec.isCorner S.shape idx)) := by
  unfold Spec.fold
  simp only
  rw [Spec.ofFn_getM _ _ _ _ idx h]
  simp [fold_outMask, fold_final_mask_2, fold_final_mask_1, fold_where_folded_out_1, Spec.foldedOut, fold_maskCorners]

theorem unfold_getD_gen (S : Spec) (idx : List ℕ) (h : InBox S.shape idx) :
    S.unfold.getD idx = unfold_outData (Spec.revIdx S.shape) Spec.totalPerEntry (Spec.totalSamples S.shape) S.getD S.getM idx := by
  unfold Spec.unfold
  simp only
  rw [Spec.ofFn_getD _ _ _ _ idx h]
  rfl

theorem unfold_getM_gen (S : Spec) (idx : List ℕ) (h : InBox S.shape idx) :
    S.unfold.getM idx = (unfold_outMask (Spec.revIdx S.shape) Spec.totalPerEntry (Spec.totalSamples S.shape) S.getD S.getM idx
      || (unfold_maskCorners && Spec.isCorner S.shape idx)) := by
  unfold Spec.unfold
  simp only
  rw [Spec.ofFn_getM _ _ _ _ idx h]
  simp [unfold_outMask, unfold_newmask_2, unfold_newmask_1, unfold_where_folded_out_1, Spec.foldedOut, unfold_maskCorners]

theorem fold_shape (S : Spec) : S.fold.shape = S.shape := rfl
theorem fold_folded (S : Spec) : S.fold.folded = true := rfl
theorem unfold_shape (S : Spec) : S.unfold.shape = S.shape := rfl
theorem unfold_folded (S : Spec) : S.unfold.folded = false := rfl
theorem mirror_shape (S : Spec) : S.mirror.shape = S.shape := rfl
theorem mirror_folded (S : Spec) : S.mirror.folded = S.folded := rfl

/-- data of `fold` in closed form -/
theorem fold_getD (S : Spec) (idx : List ℕ) (h : InBox S.shape idx) :
    S.fold.getD idx = Fold.sfold (Spec.revIdx S.shape) Spec.totalPerEntry (Spec.totalSamples S.shape) S.getD idx := by
  rw [fold_getD_gen S idx h]
  exact Fold.fold_outData_eq S.getD S.getM (loc_box h)

/-- mask of `fold` in closed form -/
theorem fold_getM (S : Spec) (idx : List ℕ) (h : InBox S.shape idx) :
    S.fold.getM idx = (S.getM idx || S.getM (Spec.revIdx S.shape idx) || Spec.foldedOut S.shape idx
      || Spec.isCorner S.shape idx) := by
  rw [fold_getM_gen S idx h, Fold.fold_outMask_eq, foldedOut_eq_fo]
  simp [fold_maskCorners]

theorem unfold_getD (S : Spec) (idx : List ℕ) (h : InBox S.shape idx) :
    S.unfold.getD idx = (S.getD idx + S.getD (Spec.revIdx S.shape idx)) / 2 := by
  rw [unfold_getD_gen S idx h, Fold.unfold_outData_eq]

theorem unfold_getM (S : Spec) (idx : List ℕ) (h : InBox S.shape idx) :
    S.unfold.getM idx = ((S.getM idx ^^ Spec.foldedOut S.shape idx)
      || (S.getM (Spec.revIdx S.shape idx) ^^ Spec.foldedOut S.shape (Spec.revIdx S.shape idx))
      || Spec.isCorner S.shape idx) := by
  rw [unfold_getM_gen S idx h, Fold.unfold_outMask_eq, foldedOut_eq_fo, foldedOut_eq_fo]
  simp [unfold_maskCorners]

/-! ### corners -/

def AllZero (l : List ℕ) : Prop := ∀ x ∈ l, x = 0

theorem isCorner_iff (sh idx : List ℕ) :
    Spec.isCorner sh idx = true ↔ (AllZero idx ∨ idx = sh.map (· - 1)) := by
  simp [Spec.isCorner, AllZero, List.all_eq_true]

theorem rev_allZero {sh idx : List ℕ} (h : InBox sh idx) :
    (AllZero (Spec.revIdx sh idx) ↔ idx = sh.map (· - 1)) ∧ (Spec.revIdx sh idx = sh.map (· - 1) ↔ AllZero idx) := by
  unfold InBox at h
  induction h with
  | nil => simp [AllZero, Spec.revIdx]
  | @cons i s is ss h0 _ ih =>
    rw [revIdx_cons]
    simp only [AllZero, List.mem_cons, forall_eq_or_imp, List.map_cons, List.cons.injEq] at ih ⊢
    rw [ih.1, ih.2]
    constructor
    · constructor
      · rintro ⟨a, b⟩; exact ⟨by omega, b⟩
      · rintro ⟨a, b⟩; exact ⟨by omega, b⟩
    · constructor
      · rintro ⟨a, b⟩; exact ⟨by omega, b⟩
      · rintro ⟨a, b⟩; exact ⟨by omega, b⟩

theorem isCorner_rev {sh idx : List ℕ} (h : InBox sh idx) :
    Spec.isCorner sh (Spec.revIdx sh idx) = Spec.isCorner sh idx := by
  rw [Bool.eq_iff_iff, isCorner_iff, isCorner_iff, (rev_allZero h).1, (rev_allZero h).2]
  exact Or.comm

theorem box1_pred (ns : List ℕ) : (box1 ns).map (· - 1) = ns := by
  induction ns with
  | nil => rfl
  | cons n ns ih => simp only [box1_cons, List.map_cons, ih, Nat.add_sub_cancel]

/-- a corner of the source reaches exactly the same corner of the target -/
theorem corner_reach {ms ns : List ℕ} (h : LeL ms ns) : ∀ tgt, inBox (box1 ms) tgt →
    ((∃ src, inBox (box1 ns) src ∧ AllZero src ∧ Reach ms ns src tgt) ↔ AllZero tgt) ∧
    (Reach ms ns ns tgt ↔ tgt = ms) ∧ inBox (box1 ns) ns := by
  induction h with
  | nil =>
    intro tgt ht
    cases tgt with
    | nil =>
      refine ⟨⟨fun _ => by simp [AllZero], fun _ => ⟨[], trivial, by simp [AllZero], trivial⟩⟩, by simp [Reach], trivial⟩
    | cons _ _ => exact ht.elim
  | @cons m n ms ns hmn _ ih =>
    intro tgt ht
    cases tgt with
    | nil => exact ht.elim
    | cons j js =>
      simp only [box1_cons, inBox] at ht
      obtain ⟨ih1, ih2, ih3⟩ := ih js ht.2
      refine ⟨⟨?_, ?_⟩, ?_, (show inBox ((n + 1) :: box1 ns) (n :: ns) from ⟨by omega, ih3⟩)⟩
      · rintro ⟨src, hs, hz, hr⟩
        cases src with
        | nil => exact hs.elim
        | cons i is =>
          simp only [Reach] at hr
          simp only [AllZero, List.mem_cons, forall_eq_or_imp] at hz ⊢
          have := ih1.mp ⟨is, hs.2, hz.2, hr.2⟩
          exact ⟨by omega, this⟩
      · intro hz
        simp only [AllZero, List.mem_cons, forall_eq_or_imp] at hz
        obtain ⟨is, hs, hzs, hr⟩ := ih1.mpr hz.2
        refine ⟨0 :: is, (show inBox ((n + 1) :: box1 ns) (0 :: is) from ⟨by omega, hs⟩), ?_, ?_⟩
        · simp only [AllZero, List.mem_cons, forall_eq_or_imp]; exact ⟨trivial, hzs⟩
        · simp only [Reach]; exact ⟨by omega, hr⟩
      · simp only [Reach, ih2, List.cons.injEq]
        constructor
        · rintro ⟨a, b⟩; exact ⟨by omega, b⟩
        · rintro ⟨a, b⟩; exact ⟨by omega, b⟩

/-- the masked corners of the source mask exactly the corners of the projection -/
theorem closedM_corner {ms ns : List ℕ} (h : LeL ms ns) (tgt : List ℕ) (ht : inBox (box1 ms) tgt) :
    closedM ms ns (fun src => Spec.isCorner (box1 ns) src = true) tgt ↔ Spec.isCorner (box1 ms) tgt = true := by
  obtain ⟨c1, c2, c3⟩ := corner_reach h tgt ht
  rw [isCorner_iff, box1_pred]
  unfold closedM
  constructor
  · rintro ⟨src, hs, hc, hk⟩
    rw [isCorner_iff, box1_pred] at hc
    have hr := (kerL_ne_zero_iff h src tgt hs ht).mp hk
    rcases hc with hz | rfl
    · exact Or.inl (c1.mp ⟨src, hs, hz, hr⟩)
    · exact Or.inr (c2.mp hr)
  · rintro (hz | rfl)
    · obtain ⟨src, hs, hzs, hr⟩ := c1.mpr hz
      exact ⟨src, hs, (isCorner_iff _ _).mpr (Or.inl hzs), (kerL_ne_zero_iff h src tgt hs ht).mpr hr⟩
    · exact ⟨ns, c3, (isCorner_iff _ _).mpr (Or.inr (box1_pred ns).symm), (kerL_ne_zero_iff h ns tgt c3 ht).mpr (c2.mpr rfl)⟩

/-! ### descriptions of `fold`, `mirror`, `unfold ∘ fold` on the box -/

/-- the mask of a folded spectrum, as a proposition -/
def foldG (sh : List ℕ) (G : List ℕ → Prop) : List ℕ → Prop :=
  fun idx => G idx ∨ G (Spec.revIdx sh idx) ∨ Spec.foldedOut sh idx = true ∨ Spec.isCorner sh idx = true

theorem fold_rel {O : Spec} {sh : List ℕ} {f : List ℕ → ℚ} {G : List ℕ → Prop} (hR : Rel O sh f G) :
    Rel O.fold sh (Fold.sfold (Spec.revIdx sh) Spec.totalPerEntry (Spec.totalSamples sh) f) (foldG sh G) := by
  refine ⟨by rw [fold_shape, hR.shape], ?_, ?_⟩
  · intro idx hbox
    have hb : InBox O.shape idx := by rw [hR.shape]; exact hbox
    rw [fold_getD O idx hb, hR.shape]
    exact Fold.sfold_congr (hR.data idx hbox) (hR.data _ hbox.rev)
  · intro idx hbox
    have hb : InBox O.shape idx := by rw [hR.shape]; exact hbox
    rw [fold_getM O idx hb, hR.shape]
    simp only [Bool.or_eq_true, hR.mask idx hbox, hR.mask _ hbox.rev, foldG]
    tauto

/-- folding only looks at the box: equal descriptions, equal folds -/
theorem fold_eq_of_rel {A B : Spec} {sh : List ℕ} {f : List ℕ → ℚ} {G : List ℕ → Prop} (hA : Rel A sh f G) (hB : Rel B sh f G) :
    A.fold = B.fold := by
  obtain ⟨hs, hall⟩ := hA.agree hB
  unfold Spec.fold
  simp only [hs]
  apply Spec.ofFn_congr
  intro idx hbox
  have hbx : InBox sh idx := by rw [← hB.shape]; exact hbox
  obtain ⟨d1, m1⟩ := hall idx hbx
  have hr : InBox sh (Spec.revIdx B.shape idx) := by rw [hB.shape]; exact hbx.rev
  obtain ⟨d2, m2⟩ := hall _ hr
  rw [d1, d2, m1, m2]
  exact ⟨rfl, rfl⟩

theorem mirror_rel {O : Spec} {sh : List ℕ} {f : List ℕ → ℚ} {G : List ℕ → Prop} (hR : Rel O sh f G) :
    Rel O.mirror sh (fun idx => f (Spec.revIdx sh idx)) (fun idx => G (Spec.revIdx sh idx)) := by
  refine ⟨by rw [mirror_shape, hR.shape], ?_, ?_⟩
  · intro idx hbox
    have hb : InBox O.shape idx := by rw [hR.shape]; exact hbox
    unfold Spec.mirror
    simp only
    rw [Spec.ofFn_getD _ _ _ _ idx hb, hR.shape]
    exact hR.data _ hbox.rev
  · intro idx hbox
    have hb : InBox O.shape idx := by rw [hR.shape]; exact hbox
    unfold Spec.mirror
    simp only
    rw [Spec.ofFn_getM _ _ _ _ idx hb, hR.shape]
    exact hR.mask _ hbox.rev

theorem sfold_pair {ι : Type} {mirror : ι → ι} {total : ι → ℕ} {T : ℕ} (x : ι → ℚ) {i : ι}
    (h : Fold.Loc mirror total T i) :
    (Fold.sfold mirror total T x i + Fold.sfold mirror total T x (mirror i)) / 2 = (x i + x (mirror i)) / 2 := by
  have hm := h.invol; have h1 := h.tot; have h2 := h.le
  unfold Fold.sfold
  simp only [hm]
  split_ifs <;> first | (exfalso; omega) | ring

theorem sfold_of_sym {ι : Type} {mirror : ι → ι} {total : ι → ℕ} {T : ℕ} (x : ι → ℚ) {i : ι}
    (h : Fold.Loc mirror total T i) :
    Fold.sfold mirror total T (fun j => (x j + x (mirror j)) / 2) i = Fold.sfold mirror total T x i := by
  unfold Fold.sfold
  simp only [h.invol]
  split_ifs <;> ring

/-- `unfold(fold X)`: the data are symmetrised, the mask is the symmetrised mask plus the corners -/
theorem unfold_fold_rel {O : Spec} {sh : List ℕ} {f : List ℕ → ℚ} {G : List ℕ → Prop} (hR : Rel O sh f G) :
    Rel O.fold.unfold sh (fun idx => (f idx + f (Spec.revIdx sh idx)) / 2)
      (fun idx => G idx ∨ G (Spec.revIdx sh idx) ∨ Spec.isCorner sh idx = true) := by
  have hF := fold_rel hR
  refine ⟨by rw [unfold_shape, fold_shape, hR.shape], ?_, ?_⟩
  · intro idx hbox
    have hb : InBox O.fold.shape idx := by rw [fold_shape, hR.shape]; exact hbox
    rw [unfold_getD _ idx hb, fold_shape, hR.shape, hF.data idx hbox, hF.data _ hbox.rev]
    exact sfold_pair f (loc_box hbox)
  · intro idx hbox
    have hb : InBox O.fold.shape idx := by rw [fold_shape, hR.shape]; exact hbox
    have hnb := Fold.fo_not_both (loc_box hbox)
    rw [← foldedOut_eq_fo, ← foldedOut_eq_fo] at hnb
    have m1 := hF.mask idx hbox
    have m2 := hF.mask _ hbox.rev
    simp only [foldG, hbox.invol, isCorner_rev hbox] at m1 m2
    rw [unfold_getM _ idx hb, fold_shape, hR.shape]
    cases ha : O.fold.getM idx <;> cases hb' : O.fold.getM (Spec.revIdx sh idx) <;>
      cases hc : Spec.isCorner sh idx <;> cases hf : Spec.foldedOut sh idx <;>
      cases hg : Spec.foldedOut sh (Spec.revIdx sh idx) <;> (simp_all; try tauto)

/-! ### linearity of the closed form -/

theorem closedF_sym {ms ns : List ℕ} (h : LeL ms ns) (f : List ℕ → ℚ) (tgt : List ℕ) (ht : inBox (box1 ms) tgt) :
    closedF ms ns (fun src => (f src + f (Spec.revIdx (box1 ns) src)) / 2) tgt
      = (closedF ms ns f tgt + closedF ms ns f (Spec.revIdx (box1 ms) tgt)) / 2 := by
  rw [← closedF_mirror h f tgt ht]
  unfold closedF
  rw [← sumBox_add, div_eq_mul_inv, mul_comm, ← sumBox_mul_left]
  exact sumBox_congr _ _ _ (fun src _ => by ring)

theorem closedM_or (ms ns : List ℕ) (G H : List ℕ → Prop) (tgt : List ℕ) :
    closedM ms ns (fun src => G src ∨ H src) tgt ↔ closedM ms ns G tgt ∨ closedM ms ns H tgt := by
  unfold closedM
  constructor
  · rintro ⟨src, hs, hg | hh, hk⟩
    · exact Or.inl ⟨src, hs, hg, hk⟩
    · exact Or.inr ⟨src, hs, hh, hk⟩
  · rintro (⟨src, hs, hg, hk⟩ | ⟨src, hs, hh, hk⟩)
    · exact ⟨src, hs, Or.inl hg, hk⟩
    · exact ⟨src, hs, Or.inr hh, hk⟩

/-! ### totals under fold / unfold -/

theorem sumBox_sfold (sh : List ℕ) (f : List ℕ → ℚ) :
    sumBox sh (Fold.sfold (Spec.revIdx sh) Spec.totalPerEntry (Spec.totalSamples sh) f) = sumBox sh f := by
  have e0 : Fold.sfold (Spec.revIdx sh) Spec.totalPerEntry (Spec.totalSamples sh) f
      = fun i => Fold.coef Spec.totalPerEntry (Spec.totalSamples sh) i * f i
          + Fold.coef Spec.totalPerEntry (Spec.totalSamples sh) i * f (Spec.revIdx sh i) :=
    funext (fun i => Fold.sfold_coef (x := f) i)
  rw [e0, sumBox_add]
  have e : sumBox sh (fun i => Fold.coef Spec.totalPerEntry (Spec.totalSamples sh) i * f (Spec.revIdx sh i))
      = sumBox sh (fun i => Fold.coef Spec.totalPerEntry (Spec.totalSamples sh) (Spec.revIdx sh i) * f i) := by
    rw [← sumBox_reflect sh (fun i => Fold.coef Spec.totalPerEntry (Spec.totalSamples sh) (Spec.revIdx sh i) * f i)]
    exact sumBox_congr _ _ _ (fun i hi => by rw [revIdx_invol hi])
  rw [e, ← sumBox_add]
  refine sumBox_congr _ _ _ (fun i hi => ?_)
  rw [← add_mul, Fold.coef_add (loc_box ((inBox_iff _ _).mp hi)), one_mul]

theorem sumBox_symm (sh : List ℕ) (f : List ℕ → ℚ) :
    sumBox sh (fun idx => (f idx + f (Spec.revIdx sh idx)) / 2) = sumBox sh f := by
  have e : (fun idx => (f idx + f (Spec.revIdx sh idx)) / 2) = fun idx => (1/2 : ℚ) * (f idx + f (Spec.revIdx sh idx)) := by
    funext idx; ring
  rw [e, sumBox_mul_left, sumBox_add, sumBox_reflect sh f]
  ring

theorem fold_total (S : Spec) : S.fold.total = S.total := by
  rw [(fold_rel (Rel.self S)).total, sumBox_sfold, total_eq_sumBox]

theorem unfold_total (S : Spec) : S.unfold.total = S.total := by
  rw [total_eq_sumBox, unfold_shape, total_eq_sumBox]
  rw [sumBox_congr_InBox S.shape _ _ (fun idx h => unfold_getD S idx h)]
  exact sumBox_symm S.shape S.getD

end PBox
end DadiVerif
