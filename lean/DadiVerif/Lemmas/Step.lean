import DadiVerif.Model.Step
import DadiVerif.Lemmas.Line
/-! Helper lemmas for M2/M4: generated coefficient functions vs canonical forms. -/
namespace DadiVerif
open Gen

@[simp] theorem sumL_nil : sumL [] = 0 := rfl
theorem foldl_add_init (l : List ℚ) (a : ℚ) : l.foldl (· + ·) a = a + l.foldl (· + ·) 0 := by
  induction l generalizing a with
  | nil => simp
  | cons x xs ih => simp only [List.foldl_cons]; rw [ih (a + x), ih (0 + x)]; ring
@[simp] theorem sumL_cons (x : ℚ) (l : List ℚ) : sumL (x :: l) = x + sumL l := by
  unfold sumL; simp only [List.foldl_cons]; rw [foldl_add_init]; ring

/-- the selection part of M -/
def selTerm (x gamma h : ℚ) : ℚ := gamma * 2 * (h + (1 - 2*h) * x) * x * (1 - x)

theorem Mgen_eq (x : ℚ) (ms ys : List ℚ) (gamma h : ℚ) :
    Mgen x ms ys gamma h = sumL (List.zipWith (fun m y => m * (y - x)) ms ys) + selTerm x gamma h := rfl

/-- every C `Mfunc{d}D` (generated) is the canonical Σ m_k (y_k − x) + selection term -/
theorem Mkernel_eq_Mgen (x : ℚ) (ms ys : List ℚ) (gamma h r : ℚ)
    (hk : Mkernel x ms ys gamma h = some r) : r = Mgen x ms ys gamma h := by
  unfold Mkernel at hk
  split at hk <;> simp at hk <;> subst hk <;>
    simp [Mgen, C.Mfunc1D, C.Mfunc2D, C.Mfunc3D, C.Mfunc4D, C.Mfunc5D] <;> ring

theorem Mkernel_isSome (x : ℚ) (ms ys : List ℚ) (gamma h : ℚ)
    (hl : ms.length = ys.length) (h4 : ms.length ≤ 4) : (Mkernel x ms ys gamma h).isSome := by
  match ms, ys, hl, h4 with
  | [], [], _, _ => rfl
  | [_], [_], _, _ => rfl
  | [_, _], [_, _], _, _ => rfl
  | [_, _, _], [_, _, _], _, _ => rfl
  | [_, _, _, _], [_, _, _, _], _, _ => rfl
  | _ :: _ :: _ :: _ :: _ :: _, _, _, h4 => simp at h4; omega

/-- Python `_Mfunc*` agree with the C ones -/
theorem Py_Mfunc1D_eq (x g h : ℚ) : Py.Mfunc1D x g h = C.Mfunc1D x g h := by
  simp [Py.Mfunc1D, C.Mfunc1D]
theorem Py_Mfunc2D_eq (x y m g h : ℚ) : Py.Mfunc2D x y m g h = C.Mfunc2D x y m g h := by
  simp [Py.Mfunc2D, C.Mfunc2D]
theorem Py_Mfunc3D_eq (x y z m1 m2 g h : ℚ) : Py.Mfunc3D x y z m1 m2 g h = C.Mfunc3D x y z m1 m2 g h := by
  simp [Py.Mfunc3D, C.Mfunc3D]
theorem Py_Vfunc_eq_beta (x nu β : ℚ) : Py.Vfunc x nu β = C.Vfunc_beta x nu β := by
  simp [Py.Vfunc, C.Vfunc_beta]
theorem Py_Vfunc_one (x nu : ℚ) : Py.Vfunc x nu 1 = C.Vfunc x nu := by
  simp [Py.Vfunc, C.Vfunc]; ring

theorem Vfunc_drift (x nu : ℚ) : C.Vfunc x nu = x * (1 - x) / nu := by
  simp [C.Vfunc]; ring
theorem Vfunc_beta_drift (x nu β : ℚ) : C.Vfunc_beta x nu β = x * (1 - x) / nu * ((β + 1)^2 / (4*β)) := by
  simp [C.Vfunc_beta]; ring
theorem Vfunc_zero (nu : ℚ) : C.Vfunc 0 nu = 0 := by simp [C.Vfunc]
theorem Vfunc_one (nu : ℚ) : C.Vfunc 1 nu = 0 := by simp [C.Vfunc]
theorem Vfunc_beta_zero (nu β : ℚ) : C.Vfunc_beta 0 nu β = 0 := by simp [C.Vfunc_beta]
theorem Vfunc_beta_one (nu β : ℚ) : C.Vfunc_beta 1 nu β = 0 := by simp [C.Vfunc_beta]

end DadiVerif
