import Mathlib.Algebra.Polynomial.Coeff
import Mathlib.Algebra.Polynomial.Eval.Degree
import Mathlib.Data.Nat.Choose.Sum
import Mathlib.Data.Nat.Choose.Cast
import Mathlib.Tactic.Ring
import Mathlib.Tactic.FieldSimp
import Mathlib.Tactic.Linarith
/-! C18 helper lemmas, part 16 (pure arithmetic, no model definitions): the Hardy–Weinberg weights.

`hwW n x a` = number of ways to give `n` diploid individuals genotypes with `a` alternative homozygotes and `x − 2a`
heterozygotes, each heterozygote counted twice (which chromosome carries the allele):
`n!/(r! h! a!)·2^h` with `h = x − 2a`, `r = n − (x − a)`.

* `hwT_eq`: Σ_a hwW n x a = C(2n, x)  — coefficient of t^x in ((1 + t)²)^n = (t² + (2t + 1))^n.
* `hw_split`: the weight of a configuration times the number of ways to pick a sub-configuration factorises
  (`C(n'+n'', n')`·weight(sub)·weight(rest)).
* `hw_convolution`: Σ_a hwW N x a · Σ_{a'} C(a,a')·C(h,h')·C(r,r') = C(N,m)·C(2m,s)·C(2N−2m, x−s). -/
namespace DadiVerif.LowPass
open Finset Polynomial

/-- Hardy–Weinberg weight of the configuration with `a` alternative homozygotes among `n` individuals of total allele count
    `x` (zero when there is no such configuration) -/
def hwW (n x a : ℕ) : ℕ := if 2 * a ≤ x then n.choose a * (n - a).choose (x - 2 * a) * 2 ^ (x - 2 * a) else 0

def hwT (n x : ℕ) : ℕ := ∑ a ∈ range (x / 2 + 1), hwW n x a

theorem hwW_eq_zero_of_lt {n x a : ℕ} (h : x < 2 * a ∨ n < a ∨ n < x - a) : hwW n x a = 0 := by
  unfold hwW
  split_ifs with h1
  · rcases h with h | h | h
    · omega
    · rw [Nat.choose_eq_zero_of_lt h]; simp
    · by_cases ha : n < a
      · rw [Nat.choose_eq_zero_of_lt ha]; simp
      · rw [Nat.choose_eq_zero_of_lt (by omega : n - a < x - 2 * a)]; simp
  · rfl

theorem sum_range_eq_of_zero (f : ℕ → ℕ) (A B : ℕ) (hA : ∀ a, A ≤ a → f a = 0) (hB : ∀ a, B ≤ a → f a = 0) :
    ∑ a ∈ range A, f a = ∑ a ∈ range B, f a := by
  have h1 : ∑ a ∈ range A, f a = ∑ a ∈ range (A + B), f a :=
    Finset.sum_subset (by intro a; simp; omega) (fun a _ h => hA a (by simpa using h))
  have h2 : ∑ a ∈ range B, f a = ∑ a ∈ range (A + B), f a :=
    Finset.sum_subset (by intro a; simp; omega) (fun a _ h => hB a (by simpa using h))
  rw [h1, h2]

theorem coeff_two_X_add_one_pow (j k : ℕ) : ((C 2 * X + 1 : ℕ[X]) ^ j).coeff k = j.choose k * 2 ^ k := by
  have h : (C 2 * X + 1 : ℕ[X]) ^ j = ((X + 1) ^ j).comp (C 2 * X) := by simp
  rw [h, comp_C_mul_X_coeff, coeff_X_add_one_pow]
  simp

/-- **Σ_a n!/(r! h! a!)·2^h = C(2n, x)**: the genotype configurations, each heterozygote counted twice, are the placements of
    x alleles on 2n chromosomes -/
theorem hwT_eq (n x : ℕ) : hwT n x = (2 * n).choose x := by
  have key : ((X + 1 : ℕ[X]) ^ (2 * n)).coeff x = ∑ a ∈ range (n + 1), hwW n x a := by
    have h2 : (X + 1 : ℕ[X]) ^ 2 = X ^ 2 + (C 2 * X + 1) := by
      have : (C 2 : ℕ[X]) = 2 := rfl
      rw [this]; ring
    rw [pow_mul, h2, add_pow, finsetSum_coeff]
    refine Finset.sum_congr rfl (fun a _ => ?_)
    rw [coeff_mul_natCast, ← pow_mul, coeff_X_pow_mul', hwW]
    split_ifs with h
    · rw [coeff_two_X_add_one_pow]; simp; ring
    · simp
  rw [coeff_X_add_one_pow] at key
  have key' : (2 * n).choose x = ∑ a ∈ range (n + 1), hwW n x a := by exact_mod_cast key
  rw [key', hwT]
  exact sum_range_eq_of_zero _ _ _ (fun a ha => hwW_eq_zero_of_lt (Or.inl (by omega)))
    (fun a ha => hwW_eq_zero_of_lt (Or.inr (Or.inl (by omega))))

/-- the multinomial splitting identity, additive form -/
theorem hw_split_add (r' h' a' r'' h'' a'' : ℕ) :
    ((r' + h' + a') + (r'' + h'' + a'')).choose (a' + a'') * ((r' + h') + (r'' + h'')).choose (h' + h'')
        * ((a' + a'').choose a' * ((h' + h'').choose h' * (r' + r'').choose r'))
      = ((r' + h' + a') + (r'' + h'' + a'')).choose (r' + h' + a')
        * ((r' + h' + a').choose a' * (r' + h').choose h') * ((r'' + h'' + a'').choose a'' * (r'' + h'').choose h'') := by
  have key : ∀ (p q : ℕ), ((p + q).choose p : ℚ) = ((p + q).factorial : ℚ) / ((p.factorial : ℚ) * (q.factorial : ℚ)) :=
    fun p q => Nat.cast_add_choose ℚ
  have c1 : ((r' + h' + a') + (r'' + h'' + a'')).choose (a' + a'') = ((a' + a'') + ((r' + h') + (r'' + h''))).choose (a' + a'') := by
    congr 1; ring
  have c2 : ((r' + h') + (r'' + h'')).choose (h' + h'') = ((h' + h'') + (r' + r'')).choose (h' + h'') := by congr 1; ring
  have c3 : (r' + h' + a').choose a' = (a' + (r' + h')).choose a' := by congr 1; ring
  have c4 : (r' + h').choose h' = (h' + r').choose h' := by congr 1; ring
  have c5 : (r'' + h'' + a'').choose a'' = (a'' + (r'' + h'')).choose a'' := by congr 1; ring
  have c6 : (r'' + h'').choose h'' = (h'' + r'').choose h'' := by congr 1; ring
  rw [c1, c2, c3, c4, c5, c6]
  apply Nat.cast_injective (R := ℚ)
  push_cast [key]
  have e1 : (a' + a'' + (r' + h' + (r'' + h''))) = (r' + h' + a' + (r'' + h'' + a'')) := by ring
  have e2 : (h' + h'' + (r' + r'')) = (r' + h' + (r'' + h'')) := by ring
  have e3 : a' + (r' + h') = r' + h' + a' := by ring
  have e4 : a'' + (r'' + h'') = r'' + h'' + a'' := by ring
  have e5 : h' + r' = r' + h' := by ring
  have e6 : h'' + r'' = r'' + h'' := by ring
  rw [e1, e2, e3, e4, e5, e6]
  have := fun k : ℕ => (Nat.cast_ne_zero (R := ℚ)).mpr (Nat.factorial_ne_zero k)
  field_simp

/-- number of ways to pick, from the configuration (r, h, a), `m` individuals carrying `s` alleles (by genotype class) -/
def hwQ (r h a m s : ℕ) : ℕ :=
  ∑ a' ∈ range (a + 1), if a' ≤ m ∧ 2 * a' ≤ s ∧ s - 2 * a' ≤ m - a' then
    a.choose a' * (h.choose (s - 2 * a') * r.choose (m - a' - (s - 2 * a'))) else 0

/-- one term: weight of the configuration with `a' + a''` alternative homozygotes × ways to pick a sub-configuration with `a'`
    of them = C(N,m) × weight of the sub-configuration × weight of the rest -/
theorem hw_term (N m x s : ℕ) (hm : m ≤ N) (hs : s ≤ x) (a' a'' : ℕ) :
    hwW N x (a' + a'') * (if a' ≤ m ∧ 2 * a' ≤ s ∧ s - 2 * a' ≤ m - a' then
        (a' + a'').choose a' * ((x - 2 * (a' + a'')).choose (s - 2 * a') * (N - (x - (a' + a''))).choose (m - a' - (s - 2 * a'))) else 0)
      = N.choose m * hwW m s a' * hwW (N - m) (x - s) a'' := by
  by_cases hv1 : 2 * a' ≤ s ∧ s - a' ≤ m
  · by_cases hv2 : 2 * a'' ≤ x - s ∧ (x - s) - a'' ≤ N - m
    · -- everything is a genuine configuration: write all sizes additively
      obtain ⟨h', rfl⟩ : ∃ h', s = 2 * a' + h' := ⟨s - 2 * a', by omega⟩
      obtain ⟨r', rfl⟩ : ∃ r', m = r' + h' + a' := ⟨m - (2 * a' + h' - a'), by omega⟩
      obtain ⟨h'', hx⟩ : ∃ h'', x = 2 * a' + h' + (2 * a'' + h'') := ⟨x - (2 * a' + h') - 2 * a'', by omega⟩
      subst hx
      obtain ⟨r'', hN⟩ : ∃ r'', N = (r' + h' + a') + (r'' + h'' + a'') :=
        ⟨N - (r' + h' + a') - (2 * a' + h' + (2 * a'' + h'') - (2 * a' + h') - a''), by omega⟩
      subst hN
      have hc : a' ≤ r' + h' + a' ∧ 2 * a' ≤ 2 * a' + h' ∧ 2 * a' + h' - 2 * a' ≤ r' + h' + a' - a' := by omega
      rw [if_pos hc]
      unfold hwW
      rw [if_pos (by omega), if_pos (by omega), if_pos (by omega)]
      have e1 : r' + h' + a' + (r'' + h'' + a'') - (a' + a'') = (r' + h') + (r'' + h'') := by omega
      have e2 : 2 * a' + h' + (2 * a'' + h'') - 2 * (a' + a'') = h' + h'' := by omega
      have e3 : 2 * a' + h' - 2 * a' = h' := by omega
      have e4 : r' + h' + a' + (r'' + h'' + a'') - (2 * a' + h' + (2 * a'' + h'') - (a' + a'')) = r' + r'' := by omega
      have e6 : r' + h' + a' - a' = r' + h' := by omega
      have e7 : r' + h' + a' + (r'' + h'' + a'') - (r' + h' + a') = r'' + h'' + a'' := by omega
      have e8 : 2 * a' + h' + (2 * a'' + h'') - (2 * a' + h') = 2 * a'' + h'' := by omega
      have e9 : r'' + h'' + a'' - a'' = r'' + h'' := by omega
      have e10 : 2 * a'' + h'' - 2 * a'' = h'' := by omega
      simp only [e1, e2, e3, e4, e6, e7, e8, e9, e10, Nat.add_sub_cancel]
      have key := hw_split_add r' h' a' r'' h'' a''
      calc _ = ((r' + h' + a') + (r'' + h'' + a'')).choose (a' + a'') * ((r' + h') + (r'' + h'')).choose (h' + h'')
                * ((a' + a'').choose a' * ((h' + h'').choose h' * (r' + r'').choose r')) * (2 ^ h' * 2 ^ h'') := by
              rw [pow_add]; ring
        _ = _ := by rw [key]; ring
    · -- the rest is not a configuration: the right-hand side vanishes, and so does the left
      have hR : hwW (N - m) (x - s) a'' = 0 := hwW_eq_zero_of_lt (by omega)
      rw [hR, mul_zero]
      by_cases h2a : 2 * (a' + a'') ≤ x
      · by_cases hb : 2 * a'' ≤ x - s
        · -- too many non-reference individuals in the rest
          by_cases hxa : x - (a' + a'') ≤ N
          · have : N - (x - (a' + a'')) < m - a' - (s - 2 * a') := by omega
            rw [Nat.choose_eq_zero_of_lt this]; simp
          · rw [hwW_eq_zero_of_lt (Or.inr (Or.inr (by omega)))]; simp
        · have : x - 2 * (a' + a'') < s - 2 * a' := by omega
          rw [Nat.choose_eq_zero_of_lt this]; simp
      · rw [hwW_eq_zero_of_lt (Or.inl (by omega))]; simp
  · have hR : hwW m s a' = 0 := hwW_eq_zero_of_lt (by omega)
    rw [hR, mul_zero, zero_mul, if_neg (by omega), mul_zero]

/-- **the double-counting identity behind `projMix0 = hypW`**: Σ over the configurations of (N, x) of weight × ways to pick m
    individuals with s alleles = C(N,m)·C(2m,s)·C(2N−2m, x−s) -/
theorem hw_convolution (N m x s : ℕ) (hm : m ≤ N) (hs : s ≤ x) :
    ∑ a ∈ range (x / 2 + 1), hwW N x a * hwQ (N - (x - a)) (x - 2 * a) a m s
      = N.choose m * (2 * m).choose s * (2 * (N - m)).choose (x - s) := by
  rw [← hwT_eq, ← hwT_eq]
  set A := x / 2 + 1 with hA
  -- the triangular sum, columns first
  have h1 : ∑ a ∈ range A, hwW N x a * hwQ (N - (x - a)) (x - 2 * a) a m s
      = ∑ a' ∈ Ico 0 A, ∑ a ∈ Ico a' A, hwW N x a * (if a' ≤ m ∧ 2 * a' ≤ s ∧ s - 2 * a' ≤ m - a' then
          a.choose a' * ((x - 2 * a).choose (s - 2 * a') * (N - (x - a)).choose (m - a' - (s - 2 * a'))) else 0) := by
    rw [Finset.sum_Ico_Ico_comm, Finset.range_eq_Ico]
    refine Finset.sum_congr rfl (fun a _ => ?_)
    rw [hwQ, Finset.mul_sum, Finset.range_eq_Ico]
  rw [h1]
  -- each column: shift a = a' + a''
  have h2 : ∀ a' ∈ Ico 0 A, ∑ a ∈ Ico a' A, hwW N x a * (if a' ≤ m ∧ 2 * a' ≤ s ∧ s - 2 * a' ≤ m - a' then
          a.choose a' * ((x - 2 * a).choose (s - 2 * a') * (N - (x - a)).choose (m - a' - (s - 2 * a'))) else 0)
      = N.choose m * hwW m s a' * hwT (N - m) (x - s) := by
    intro a' ha'
    rw [Finset.sum_Ico_eq_sum_range]
    simp only [hw_term N m x s hm hs a']
    rw [← Finset.mul_sum]
    by_cases hz : 2 * a' ≤ s
    · congr 1
      rw [hwT]
      refine sum_range_eq_of_zero _ _ _ (fun a ha => hwW_eq_zero_of_lt (Or.inl ?_)) (fun a ha => hwW_eq_zero_of_lt (Or.inl ?_))
      · simp only [mem_Ico] at ha'; omega
      · omega
    · rw [hwW_eq_zero_of_lt (Or.inl (by omega))]; simp
  rw [Finset.sum_congr rfl h2, ← Finset.sum_mul, ← Finset.mul_sum]
  congr 2
  rw [hwT, ← Finset.range_eq_Ico]
  exact sum_range_eq_of_zero _ _ _ (fun a ha => hwW_eq_zero_of_lt (Or.inl (by omega))) (fun a ha => hwW_eq_zero_of_lt (Or.inl (by omega)))

end DadiVerif.LowPass
