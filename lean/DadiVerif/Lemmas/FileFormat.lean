import DadiVerif.Generated.FileIO
import Mathlib.Data.List.Basic
import Mathlib.Tactic.IntervalCases
/-!
# Helper lemmas for C14 (file formats): Python string primitives of Model/FileFormat.lean

`split()` ∘ `' '.join`, `split('"')[1::2]` on quoted labels, `strip`, `readline` on `\n`-terminated lines, universal
newlines, `'%i'`/`int`.  All statements are for arbitrary lengths.
-/
set_option linter.unusedVariables false
set_option linter.unusedSimpArgs false
namespace DadiVerif.FileFormat

/-! ## characters -/

def digits10 : List Char := ['0', '1', '2', '3', '4', '5', '6', '7', '8', '9']

theorem digitChar_mem (d : Nat) (h : d < 10) : digitChar d ∈ digits10 := by
  interval_cases d <;> decide

theorem digitVal_digitChar (d : Nat) (h : d < 10) : digitVal (digitChar d) = some d := by
  interval_cases d <;> decide

theorem digit_not_ws {c : Char} (h : c ∈ digits10) : isWs c = false := by
  simp only [digits10, List.mem_cons, List.mem_nil_iff, or_false] at h
  rcases h with h | h | h | h | h | h | h | h | h | h <;> subst h <;> decide

theorem digit_ne {c : Char} (h : c ∈ digits10) :
    c ≠ NL ∧ c ≠ CR ∧ c ≠ QUOTE ∧ c ≠ HASH ∧ c ≠ PLUS ∧ c ≠ 'f' ∧ c ≠ 'u' := by
  simp only [digits10, List.mem_cons, List.mem_nil_iff, or_false] at h
  rcases h with h | h | h | h | h | h | h | h | h | h <;> subst h <;> decide

theorem ws_NL : isWs NL = true := by decide
theorem ws_SP : isWs SP = true := by decide
theorem ws_CR : isWs CR = true := by decide
theorem nws_QUOTE : isWs QUOTE = false := by decide
theorem nws_HASH : isWs HASH = false := by decide

/-! ## `'%i'` and `int` -/

theorem fmtIAux_fuel : ∀ (n fuel : Nat), n ≤ fuel → fmtIAux fuel n = fmtIAux n n := by
  intro n
  induction n using Nat.strong_induction_on with
  | _ n ih =>
    intro fuel hf
    cases fuel with
    | zero =>
      have : n = 0 := by omega
      subst this; rfl
    | succ f =>
      cases n with
      | zero => simp [fmtIAux]
      | succ m =>
        simp only [fmtIAux]
        split
        · rfl
        · rw [ih ((m + 1) / 10) (by omega) f (by omega), ih ((m + 1) / 10) (by omega) m (by omega)]

/-- the defining equation of `'%i'` -/
theorem fmtI_eq (n : Nat) : fmtI n = if n < 10 then [digitChar n] else fmtI (n / 10) ++ [digitChar (n % 10)] := by
  unfold fmtI
  cases n with
  | zero => simp [fmtIAux]
  | succ m =>
    simp only [fmtIAux]
    split
    · rfl
    · rw [fmtIAux_fuel ((m + 1) / 10) m (by omega)]

theorem fmtI_digits : ∀ (n : Nat), ∀ c ∈ fmtI n, c ∈ digits10 := by
  intro n
  induction n using Nat.strong_induction_on with
  | _ n ih =>
    intro c hc
    rw [fmtI_eq] at hc
    split at hc
    · rename_i h
      simp only [List.mem_singleton] at hc
      subst hc; exact digitChar_mem n h
    · rename_i h
      rw [List.mem_append] at hc
      rcases hc with hc | hc
      · exact ih (n / 10) (by omega) c hc
      · simp only [List.mem_singleton] at hc
        subst hc; exact digitChar_mem _ (by omega)

theorem fmtI_ne_nil (n : Nat) : fmtI n ≠ [] := by
  rw [fmtI_eq]; split <;> simp

theorem parseDigits_snoc (s : Str) (c : Char) : ∀ acc,
    parseDigits (s ++ [c]) acc = (parseDigits s acc).bind (fun a => (digitVal c).map (fun d => a * 10 + d)) := by
  induction s with
  | nil =>
    intro acc
    simp only [List.nil_append, parseDigits]
    cases digitVal c <;> simp [parseDigits]
  | cons x xs ih =>
    intro acc
    simp only [List.cons_append, parseDigits]
    cases digitVal x with
    | none => simp
    | some d => simp only []; exact ih _

theorem parseDigits_fmtI (n : Nat) : parseDigits (fmtI n) 0 = some n := by
  induction n using Nat.strong_induction_on with
  | _ n ih =>
    rw [fmtI_eq]
    split
    · rename_i h
      simp [parseDigits, digitVal_digitChar n h]
    · rename_i h
      rw [parseDigits_snoc, ih (n / 10) (by omega), digitVal_digitChar _ (by omega : n % 10 < 10)]
      simp only [Option.bind_some, Option.map_some, Option.some.injEq]
      omega

theorem parseInt_fmtI (n : Nat) : parseInt (fmtI n) = some n := by
  have hne := fmtI_ne_nil n
  have hd := fmtI_digits n
  have hp := parseDigits_fmtI n
  cases h : fmtI n with
  | nil => exact absurd h hne
  | cons c r =>
    rw [h] at hd hp
    have hc : c ≠ PLUS := (digit_ne (hd c (List.mem_cons_self))).2.2.2.2.1
    simp only [parseInt, if_neg hc]
    exact hp

theorem fmtI_ne_flag (n : Nat) : fmtI n ≠ FOLDED ∧ fmtI n ≠ UNFOLDED := by
  have hne := fmtI_ne_nil n
  have hd := fmtI_digits n
  cases h : fmtI n with
  | nil => exact absurd h hne
  | cons c r =>
    rw [h] at hd
    have := digit_ne (hd c (List.mem_cons_self))
    constructor
    · intro e; simp only [FOLDED, List.cons.injEq] at e; exact this.2.2.2.2.2.1 e.1
    · intro e; simp only [UNFOLDED, List.cons.injEq] at e; exact this.2.2.2.2.2.2 e.1

/-! ## `split()` -/

/-- whitespace-free -/
def NoWs (t : Str) : Prop := ∀ c ∈ t, isWs c = false
/-- all whitespace -/
def AllWs (t : Str) : Prop := ∀ c ∈ t, isWs c = true
/-- a token as `split()` returns it -/
def Tok (t : Str) : Prop := t ≠ [] ∧ NoWs t

theorem splitAux_token (t : Str) (ht : NoWs t) : ∀ (rest cur : Str),
    splitAux (t ++ rest) cur = splitAux rest (t.reverse ++ cur) := by
  induction t with
  | nil => intro rest cur; simp
  | cons c cs ih =>
    intro rest cur
    have hc : isWs c = false := ht c (List.mem_cons_self)
    have hcs : NoWs cs := fun x hx => ht x (List.mem_cons_of_mem _ hx)
    simp only [List.cons_append, splitAux, hc]
    rw [ih hcs rest (c :: cur)]
    simp

theorem splitWs_tok_ws (t : Str) (ht : Tok t) (w : Char) (hw : isWs w = true) (rest : Str) :
    splitWs (t ++ w :: rest) = t :: splitWs rest := by
  unfold splitWs
  rw [splitAux_token t ht.2]
  have hne : t.reverse ≠ [] := by simpa using ht.1
  simp [splitAux, hw, hne]

theorem splitAux_allws (tail : Str) (h : AllWs tail) : ∀ cur : Str,
    splitAux tail cur = if cur = [] then [] else [cur.reverse] := by
  induction tail with
  | nil => intro cur; simp [splitAux]
  | cons c cs ih =>
    intro cur
    have hc : isWs c = true := h c (List.mem_cons_self)
    have hcs : AllWs cs := fun x hx => h x (List.mem_cons_of_mem _ hx)
    simp only [splitAux, hc, if_true]
    by_cases hcur : cur = []
    · simp [hcur, ih hcs]
    · simp [hcur, ih hcs]

theorem splitWs_allws (tail : Str) (h : AllWs tail) : splitWs tail = [] := by
  unfold splitWs; rw [splitAux_allws tail h]; simp

/-- `(' '.join(toks) + tail).split() == toks` for tokens and a whitespace tail -/
theorem splitWs_join_tail (toks : List Str) (h : ∀ t ∈ toks, Tok t) (tail : Str) (htail : AllWs tail) :
    splitWs (joinWith SP toks ++ tail) = toks := by
  induction toks with
  | nil => simpa [joinWith] using splitWs_allws tail htail
  | cons t ts ih =>
    have ht := h t (List.mem_cons_self)
    have hts : ∀ u ∈ ts, Tok u := fun u hu => h u (List.mem_cons_of_mem _ hu)
    cases ts with
    | nil =>
      simp only [joinWith]
      unfold splitWs
      rw [splitAux_token t ht.2, splitAux_allws tail htail]
      have hne : t.reverse ≠ [] := by simpa using ht.1
      simp [hne]
    | cons u us =>
      simp only [joinWith, List.append_assoc, List.cons_append]
      rw [splitWs_tok_ws t ht SP ws_SP]
      rw [ih hts]

theorem splitAux_ne_nil (s : Str) : ∀ cur : Str, (cur ≠ [] ∨ ∃ c ∈ s, isWs c = false) → splitAux s cur ≠ [] := by
  induction s with
  | nil =>
    intro cur h
    rcases h with h | ⟨c, hc, _⟩
    · simp [splitAux, h]
    · simp at hc
  | cons x xs ih =>
    intro cur h
    simp only [splitAux]
    by_cases hx : isWs x = true
    · simp only [hx, if_true]
      by_cases hcur : cur = []
      · simp only [hcur, if_true]
        apply ih
        right
        rcases h with h | ⟨c, hc, hcw⟩
        · exact absurd hcur h
        · rcases List.mem_cons.mp hc with e | e
          · subst e; rw [hx] at hcw; cases hcw
          · exact ⟨c, e, hcw⟩
      · simp [hcur]
    · simp only [hx]
      apply ih
      left; simp

/-! ## `split('"')[1::2]` -/

theorem splitOnAux_token (sep : Char) (t : Str) (ht : sep ∉ t) : ∀ (rest cur : Str),
    splitOnAux sep (t ++ rest) cur = splitOnAux sep rest (t.reverse ++ cur) := by
  induction t with
  | nil => intro rest cur; simp
  | cons c cs ih =>
    intro rest cur
    have hc : c ≠ sep := fun e => ht (by simp [e])
    have hcs : sep ∉ cs := fun h => ht (List.mem_cons_of_mem _ h)
    simp only [List.cons_append, splitOnAux, if_neg hc]
    rw [ih hcs rest (c :: cur)]
    simp

/-- ` "l1" "l2" … ` followed by a quote-free tail: the odd pieces of the split on `"` are the labels -/
theorem odds_labels (ls : List Str) (h : ∀ l ∈ ls, QUOTE ∉ l) (tail : Str) (htail : QUOTE ∉ tail) : ∀ cur : Str,
    odds (splitOnAux QUOTE (ls.flatMap (fun label => [' ', '"'] ++ label ++ ['"']) ++ tail) cur) = ls := by
  induction ls with
  | nil =>
    intro cur
    simp only [List.flatMap_nil, List.nil_append]
    have := splitOnAux_token QUOTE tail htail [] cur
    simp only [List.append_nil] at this
    rw [this]
    simp [splitOnAux, odds]
  | cons l ls ih =>
    intro cur
    have hl := h l (List.mem_cons_self)
    have hls : ∀ x ∈ ls, QUOTE ∉ x := fun x hx => h x (List.mem_cons_of_mem _ hx)
    simp only [List.flatMap_cons, List.append_assoc, List.cons_append, List.nil_append]
    have h1 : (' ' : Char) ≠ QUOTE := by decide
    have h2 : ('"' : Char) = QUOTE := by decide
    simp only [splitOnAux, if_neg h1, h2, if_true]
    rw [splitOnAux_token QUOTE l hl]
    simp only [splitOnAux, if_true, odds, List.append_nil, List.reverse_reverse]
    have := ih hls []
    simp only [List.append_assoc, List.cons_append, List.nil_append, h2] at this
    rw [this]

/-! ## `strip()` -/

theorem dropWhile_allws_append (a x : Str) (ha : AllWs a) : (a ++ x).dropWhile isWs = x.dropWhile isWs := by
  induction a with
  | nil => rfl
  | cons c cs ih =>
    have hc : isWs c = true := ha c (List.mem_cons_self)
    have hcs : AllWs cs := fun y hy => ha y (List.mem_cons_of_mem _ hy)
    simp [List.dropWhile, hc, ih hcs]

theorem dropWhile_allws (a : Str) (ha : AllWs a) : a.dropWhile isWs = [] := by
  have := dropWhile_allws_append a [] ha
  simpa using this

theorem allws_of_dropWhile_nil (l : Str) (h : l.dropWhile isWs = []) : AllWs l := by
  induction l with
  | nil => intro c hc; simp at hc
  | cons c cs ih =>
    by_cases hc : isWs c = true
    · simp only [List.dropWhile, hc] at h
      intro x hx
      rcases List.mem_cons.mp hx with e | e
      · subst e; exact hc
      · exact ih h x e
    · simp [List.dropWhile, hc] at h

theorem dropWhile_head (l : Str) : ∀ x ∈ (l.dropWhile isWs).head?, isWs x = false := by
  induction l with
  | nil => simp
  | cons c cs ih =>
    by_cases hc : isWs c = true
    · simpa [List.dropWhile, hc] using ih
    · simp [List.dropWhile, hc]

theorem dropWhile_self_of_head (l : Str) (h : ∀ x ∈ l.head?, isWs x = false) : l.dropWhile isWs = l := by
  cases l with
  | nil => rfl
  | cons c cs =>
    have : isWs c = false := h c (by simp)
    simp [List.dropWhile, this]

theorem dropWhile_idem (l : Str) : (l.dropWhile isWs).dropWhile isWs = l.dropWhile isWs :=
  dropWhile_self_of_head _ (dropWhile_head l)

/-- `strip` ignores whitespace added on either side -/
theorem strip_pad (a s b : Str) (ha : AllWs a) (hb : AllWs b) : strip (a ++ s ++ b) = strip s := by
  unfold strip lstrip
  rw [List.append_assoc, dropWhile_allws_append a _ ha]
  by_cases hs : s.dropWhile isWs = []
  · have hall : AllWs s := allws_of_dropWhile_nil s hs
    have : AllWs (s ++ b) := by
      intro c hc
      rcases List.mem_append.mp hc with h | h
      · exact hall c h
      · exact hb c h
    rw [dropWhile_allws _ this, hs]
  · have : (s ++ b).dropWhile isWs = s.dropWhile isWs ++ b := by
      rw [List.dropWhile_append]
      simp [hs]
    rw [this, List.reverse_append]
    have hbr : AllWs b.reverse := fun c hc => hb c (List.mem_reverse.mp hc)
    rw [dropWhile_allws_append _ _ hbr]

theorem strip_idem (s : Str) : strip (strip s) = strip s := by
  unfold strip lstrip
  set m := s.dropWhile isWs with hm
  set r := m.reverse.dropWhile isWs with hr
  -- r.reverse is a prefix of m, whose head (if any) is not whitespace
  have hsuf : r <:+ m.reverse := List.dropWhile_suffix _
  have hpre : r.reverse <+: m := by
    have := List.reverse_prefix.mpr hsuf
    simpa using this
  have hhead : ∀ x ∈ r.reverse.head?, isWs x = false := by
    intro x hx
    obtain ⟨t, ht⟩ := hpre
    cases hrr : r.reverse with
    | nil => rw [hrr] at hx; simp at hx
    | cons y ys =>
      rw [hrr] at hx ht
      simp only [List.head?_cons, Option.mem_def, Option.some.injEq] at hx
      subst hx
      have := dropWhile_head s
      rw [← hm, ← ht] at this
      exact this y (by simp)
  rw [dropWhile_self_of_head _ hhead, List.reverse_reverse, hr, dropWhile_idem]

/-- the comment written as `'# ' + c.strip() + '\n'` is read back (`line[1:].strip()`) as `c.strip()` -/
theorem commentOf_line (c : Str) : commentOf (HASH :: SP :: strip c ++ [NL]) = strip c := by
  unfold commentOf
  simp only [List.drop_succ_cons, List.drop_zero, List.cons_append]
  have := strip_pad [SP] (strip c) [NL] (by intro x hx; simp at hx; subst hx; exact ws_SP)
    (by intro x hx; simp at hx; subst hx; exact ws_NL)
  simp only [List.cons_append, List.nil_append] at this
  rw [this, strip_idem]

theorem mem_strip {s : Str} {c : Char} (h : c ∈ strip s) : c ∈ s := by
  unfold strip lstrip at h
  have h1 := List.mem_reverse.mp h
  have h2 := (List.dropWhile_suffix isWs).subset h1
  have h3 := List.mem_reverse.mp h2
  exact (List.dropWhile_suffix isWs).subset h3

/-! ## universal newlines and `readline` -/

theorem univNLAux_id (s : Str) (h : CR ∉ s) : univNLAux false s = s := by
  induction s with
  | nil => rfl
  | cons c cs ih =>
    have hc : c ≠ CR := fun e => h (by simp [e])
    have hcs : CR ∉ cs := fun hh => h (List.mem_cons_of_mem _ hh)
    simp [univNLAux, hc, ih hcs]

theorem univNL_id (s : Str) (h : CR ∉ s) : univNL s = s := univNLAux_id s h

theorem linesAux_line (l : Str) (hl : NL ∉ l) : ∀ (rest cur : Str),
    linesAux (l ++ NL :: rest) cur = (cur.reverse ++ l ++ [NL]) :: linesAux rest [] := by
  induction l with
  | nil => intro rest cur; simp [linesAux]
  | cons c cs ih =>
    intro rest cur
    have hc : c ≠ NL := fun e => hl (by simp [e])
    have hcs : NL ∉ cs := fun h => hl (List.mem_cons_of_mem _ h)
    simp only [List.cons_append, linesAux, if_neg hc]
    rw [ih hcs rest (c :: cur)]
    simp

/-- reading line by line a text made of `\n`-terminated, `\n`-free lines returns these lines -/
theorem linesOf_flat (ls : List Str) (h : ∀ l ∈ ls, NL ∉ l) :
    linesOf (ls.flatMap (fun l => l ++ [NL])) = ls.map (fun l => l ++ [NL]) := by
  unfold linesOf
  induction ls with
  | nil => simp [linesAux]
  | cons l ls ih =>
    have hl := h l (List.mem_cons_self)
    have hls : ∀ x ∈ ls, NL ∉ x := fun x hx => h x (List.mem_cons_of_mem _ hx)
    simp only [List.flatMap_cons, List.append_assoc, List.cons_append, List.nil_append, List.map_cons]
    rw [linesAux_line l hl, ih hls]
    simp

end DadiVerif.FileFormat
