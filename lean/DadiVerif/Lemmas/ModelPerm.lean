import DadiVerif.Model.ModelPerm
import DadiVerif.Lemmas.ModelDSL
/-!
# Lemmas for C15: relabelling by an arbitrary permutation is sound in every permutation-lawful interpretation
(core Lean only)
-/
namespace DadiVerif.ModelDSL

/-- **permutation-lawful interpretation**: `τ π` relabels a density, `τOut π` a spectrum, `nsPerm π` the requested sample
    sizes; every listed law holds:
    * `start_eq`: the primitive that creates the density (`pin = []`);
    * `step_eq`: `fn'` on the `pin`-relabelled density with the renamed arguments = the `pout`-relabelled result of `fn`;
    * `pair_eq`: the composite of two primitives with unchanged arguments;
    * `finish_eq`: sampling the relabelled density at the requested sizes = relabelling the sample of the density taken
      at the relabelled sizes. -/
structure PermLawful (I : Interp) (rules : List PermRule) (pairs : List PairRule) (fin : List PermRule)
    (τ : List Nat → I.Φ → I.Φ) (τOut : List Nat → I.Out → I.Out)
    (nsPerm : List Nat → List (Name × Val I.S) → List (Name × Val I.S)) : Prop where
  start_eq : ∀ r ∈ rules, r.pin = [] → ∀ args args', reorder r.ren (args.map (·.1)) args = some args' →
      I.start r.fn' args' = (I.start r.fn args).map (τ r.pout)
  step_eq : ∀ r ∈ rules, ∀ φ args args', reorder r.ren (args.map (·.1)) args = some args' →
      I.step r.fn' (τ r.pin φ) args' = (I.step r.fn φ args).map (τ r.pout)
  pair_eq : ∀ p ∈ pairs, ∀ φ a1 a2,
      (I.step p.fn1 (τ p.pin φ) a1).bind (fun ψ => I.step p.fn2 ψ a2)
        = ((I.step p.fn1 φ a1).bind (fun ψ => I.step p.fn2 ψ a2)).map (τ p.pout)
  finish_eq : ∀ r ∈ fin, ∀ φ args args', reorder r.ren (args.map (·.1)) args = some args' →
      I.finish r.fn' (τ r.pin φ) args' = (I.finish r.fn φ (nsPerm r.pin args)).map (τOut r.pin)

section Perm
variable {I : Interp} (ρ : Name → I.S)

theorem permCall_spec {r : PermRule} {c c' : Call} (h : permCall r c = some c') :
    r.fn = c.fn ∧ c'.fn = r.fn' ∧
      reorder r.ren ((evalArgs I ρ c.args).map (·.1)) (evalArgs I ρ c.args) = some (evalArgs I ρ c'.args) := by
  unfold permCall at h
  split at h
  · next hfn =>
      simp only [Option.map_eq_some_iff] at h
      obtain ⟨as, has, rfl⟩ := h
      refine ⟨by simpa using hfn, rfl, ?_⟩
      rw [keys_evalArgs]
      exact reorder_evalArgs ρ r.ren _ c.args as has
  · cases h

variable {rules : List PermRule} {pairs : List PairRule} {fin : List PermRule}
  {τ : List Nat → I.Φ → I.Φ} {τOut : List Nat → I.Out → I.Out}
  {f : List Nat → List (Name × Val I.S) → List (Name × Val I.S)}
  (hP : PermLawful I rules pairs fin τ τOut f)

theorem runSteps_cons2 (φ : I.Φ) (c c2 : Call) (rest : List Call) :
    runSteps I ρ φ (c :: c2 :: rest)
      = ((I.step c.fn φ (evalArgs I ρ c.args)).bind (fun ψ => I.step c2.fn ψ (evalArgs I ρ c2.args))).bind
          (fun ψ => runSteps I ρ ψ rest) := by
  conv => lhs; unfold runSteps
  cases I.step c.fn φ (evalArgs I ρ c.args) with
  | none => rfl
  | some ψ =>
      simp only [Option.bind_some]
      conv => lhs; unfold runSteps
      cases I.step c2.fn ψ (evalArgs I ρ c2.args) with
      | none => rfl
      | some ψ' => rfl

/-- the statement proved about the relabelling of a list of steps -/
def StepsSound (I : Interp) (ρ : Name → I.S) (rules : List PermRule) (pairs : List PairRule) (τ : List Nat → I.Φ → I.Φ)
    (cs : List Call) : Prop :=
  ∀ (πf π : List Nat) (cs' : List Call), permSteps rules pairs πf π cs cs' = true →
    ∀ φ, runSteps I ρ (τ π φ) cs' = (runSteps I ρ φ cs).map (τ πf)

include hP in
theorem permSteps_sound_aux (cs : List Call) :
    StepsSound I ρ rules pairs τ cs ∧ ∀ c, StepsSound I ρ rules pairs τ (c :: cs) := by
  induction cs with
  | nil =>
      have h0 : StepsSound I ρ rules pairs τ [] := by
        intro πf π cs' h φ
        cases cs' with
        | nil =>
            simp only [permSteps, beq_iff_eq] at h
            subst h; rfl
        | cons c' r' => simp [permSteps] at h
      refine ⟨h0, ?_⟩
      intro c πf π cs' h φ
      cases cs' with
      | nil => simp [permSteps] at h
      | cons c' rest' =>
          simp only [permSteps, Bool.or_eq_true, List.any_eq_true, Bool.and_eq_true, beq_iff_eq] at h
          rcases h with ⟨r, hr, ⟨hpin, hcall⟩, hrest⟩ | h
          · obtain ⟨hfn, hfn', hre⟩ := permCall_spec ρ hcall
            conv => lhs; unfold runSteps
            conv => rhs; unfold runSteps
            rw [hfn', ← hpin, hP.step_eq r hr φ _ _ hre, hfn]
            cases I.step c.fn φ (evalArgs I ρ c.args) with
            | none => rfl
            | some φ' => exact h0 πf r.pout rest' hrest φ'
          · cases rest' <;> simp at h
  | cons c2 rest ih =>
      refine ⟨ih.2 c2, ?_⟩
      intro c πf π cs' h φ
      cases cs' with
      | nil => simp [permSteps] at h
      | cons c' rest' =>
          unfold permSteps at h
          simp only [Bool.or_eq_true, List.any_eq_true, Bool.and_eq_true, beq_iff_eq] at h
          rcases h with ⟨r, hr, ⟨hpin, hcall⟩, hrest⟩ | h
          · obtain ⟨hfn, hfn', hre⟩ := permCall_spec ρ hcall
            conv => lhs; unfold runSteps
            conv => rhs; unfold runSteps
            rw [hfn', ← hpin, hP.step_eq r hr φ _ _ hre, hfn]
            cases I.step c.fn φ (evalArgs I ρ c.args) with
            | none => rfl
            | some φ' => exact ih.2 c2 πf r.pout rest' hrest φ'
          · cases rest' with
            | nil => simp at h
            | cons c2' rest2' =>
                simp only [Bool.and_eq_true, beq_iff_eq, List.any_eq_true] at h
                obtain ⟨⟨hc, hc2⟩, p, hp, ⟨⟨hf1, hf2⟩, hpin⟩, hrest⟩ := h
                subst hc hc2
                rw [runSteps_cons2, runSteps_cons2, ← hf1, ← hf2, ← hpin, hP.pair_eq p hp]
                cases (I.step p.fn1 φ (evalArgs I ρ c'.args)).bind (fun ψ => I.step p.fn2 ψ (evalArgs I ρ c2'.args)) with
                | none => rfl
                | some ψ => exact ih.1 πf p.pout rest2' hrest ψ

include hP in
theorem permSteps_sound (cs : List Call) : StepsSound I ρ rules pairs τ cs := (permSteps_sound_aux ρ hP cs).1

include hP in
theorem runRun_perm (π : List Nat) (x x' : Run) (h : permRun rules pairs fin π x x' = true) :
    runRun I ρ x' = (runRun (I.withFinishArgs (f π)) ρ x).map (τOut π) := by
  simp only [permRun, Bool.and_eq_true, List.any_eq_true, beq_iff_eq] at h
  obtain ⟨⟨rs, hrs, ⟨hpin, hstart⟩, hsteps⟩, rf, hrf, hfpin, hfin⟩ := h
  obtain ⟨hfns, hfns', hres⟩ := permCall_spec ρ hstart
  obtain ⟨hfnf, hfnf', hrefin⟩ := permCall_spec ρ hfin
  unfold runRun
  simp only [evalArgs_withFinishArgs, runSteps_withFinishArgs]
  rw [hfns', hP.start_eq rs hrs hpin _ _ hres, hfns]
  cases I.start x.start.fn (evalArgs I ρ x.start.args) with
  | none => rfl
  | some φ =>
      simp only [Option.map_some]
      rw [permSteps_sound ρ hP x.steps π rs.pout x'.steps hsteps φ]
      cases runSteps I ρ φ x.steps with
      | none => rfl
      | some φ' =>
          simp only [Option.map_some]
          rw [hfnf', ← hfpin, hP.finish_eq rf hrf φ' _ _ hrefin, hfnf]

include hP in
theorem runTr_perm (π : List Nat) (t t' : Tr) (h : permTr rules pairs fin π t t' = true) :
    runTr I ρ t' = (runTr (I.withFinishArgs (f π)) ρ t).map (τOut π) := by
  induction t generalizing t' with
  | leaf x =>
      cases t' with
      | leaf x' => exact runRun_perm ρ hP π x x' h
      | ite c a b => simp [permTr] at h
  | ite c a b iha ihb =>
      cases t' with
      | leaf x' => simp [permTr] at h
      | ite c' a' b' =>
          simp only [permTr, Bool.and_eq_true, beq_iff_eq] at h
          obtain ⟨⟨hc, ha⟩, hb⟩ := h
          subst hc
          unfold runTr
          simp only [evalS_withFinishArgs]
          split
          · exact iha a' ha
          · exact ihb b' hb

end Perm

/-- moving a comparison to the root does not change the meaning of a trace (no law needed) -/
theorem runTr_mkIte {I : Interp} (ρ : Name → I.S) (c : Cond) (a b : Tr) :
    runTr I ρ (mkIte c a b) = runTr I ρ (.ite c a b) := by
  induction a generalizing b with
  | leaf r => cases b <;> rfl
  | ite c1 x1 y1 ihx ihy =>
      cases b with
      | leaf r => rfl
      | ite c2 x2 y2 =>
          unfold mkIte
          split
          · next h =>
              obtain ⟨rfl, _⟩ := h
              simp only [runTr, ihx, ihy]
              split <;> split <;> rfl
          · rfl

theorem runTr_sortTr {I : Interp} (ρ : Name → I.S) (t : Tr) : runTr I ρ (sortTr t) = runTr I ρ t := by
  induction t with
  | leaf r => rfl
  | ite c a b iha ihb =>
      simp only [sortTr]
      rw [runTr_mkIte]
      simp only [runTr, iha, ihb]

/-- `permOK` is a sound test: the model at the permuted parameter expressions `args` is the `π`-relabelled model (evaluated
    at the relabelled sample sizes) -/
theorem permOK_sound {I : Interp} {tbl : List Model} {sigs : List Sig} {rules : List PermRule} {pairs : List PairRule}
    {fin : List PermRule} (hI : Lawful I (integrators sigs)) {τ : List Nat → I.Φ → I.Φ} {τOut : List Nat → I.Out → I.Out}
    {f : List Nat → List (Name × Val I.S) → List (Name × Val I.S)} (hP : PermLawful I rules pairs fin τ τOut f)
    (ρ : Name → I.S) {name : Name} {π : List Nat} {args : List Expr}
    (h : permOK tbl sigs rules pairs fin name π args = true) :
    ∃ m, findModel tbl name = some m ∧
      sem I ρ tbl sigs name args
        = (sem (I.withFinishArgs (f π)) ρ tbl sigs name (m.paramNames.map .param)).map (τOut π) := by
  unfold permOK at h
  cases hm : findModel tbl name with
  | none => rw [hm] at h; cases h
  | some m =>
    rw [hm] at h
    simp only at h
    refine ⟨m, rfl, ?_⟩
    cases hna : normalForm tbl sigs name args with
    | none => rw [hna] at h; cases h
    | some ta =>
      cases hnb : normalForm tbl sigs name (m.paramNames.map .param) with
      | none => rw [hna, hnb] at h; cases h
      | some tb =>
        rw [hna, hnb] at h
        simp only at h
        unfold normalForm at hna hnb
        unfold sem
        cases hsa : symbolicRun tbl sigs name args with
        | none => rw [hsa] at hna; cases hna
        | some ta0 =>
          cases hsb : symbolicRun tbl sigs name (m.paramNames.map .param) with
          | none => rw [hsb] at hnb; cases hnb
          | some tb0 =>
            rw [hsa] at hna; rw [hsb] at hnb
            simp only [Option.map_some, Option.some.injEq] at hna hnb
            show runTr I ρ ta0 = (runTr (I.withFinishArgs (f π)) ρ tb0).map (τOut π)
            rw [← runTr_norm hI ρ ta0, ← runTr_norm (hI.withFinishArgs (f π)) ρ tb0, hna, hnb,
              ← runTr_sortTr ρ ta, ← runTr_sortTr (I := I.withFinishArgs (f π)) ρ tb]
            exact runTr_perm ρ hP π (sortTr tb) (sortTr ta) h

end DadiVerif.ModelDSL
