import DadiVerif.Lemmas.KernelSweep
import Mathlib.Tactic.IntervalCases
/-!
Kernel programs, part 3 — index arithmetic of the expected programs, for every kernel (d, ax), d ≤ 5:
* `evalIdx_expIdx`: the flat index `Σ_p var_p · Π_{q>p} extent_q` of the expected program IS the row-major index `flatIdx`
  of the multi-index that has the line variable in position ax and the variables of the loop nest in the other positions;
* `coordArgs_eval`: the coordinate arguments handed to `Mfunc{d}D` (and tested by the corner guards) are the grid values of
  the OTHER axes at the loop variables, in axis order (`otherCoords`);
* `nest_extents`: the extents of the loop nest are the shape with axis ax erased.
-/
namespace DadiVerif
open Gen
namespace KProg

theorem evalIdx_expIdx (d ax : ℕ) (hd : d ≤ 5) (hax : ax < d) (env : KEnv) (hs : env.shape.length = d)
    (vals : List ℕ) (hv : vals.length = d - 1) (j : ℕ) :
    evalIdx env vals j (expIdx d ax) = lineIx env.shape ax vals j := by
  obtain ⟨shape, grids, coefs, P, use, dt, eps⟩ := env
  simp only at hs
  unfold lineIx
  interval_cases d
  · omega
  all_goals
    rcases shape with _ | ⟨L, _ | ⟨M, _ | ⟨N, _ | ⟨O, _ | ⟨Q, _ | ⟨R, tl⟩⟩⟩⟩⟩⟩ <;> simp at hs
    rcases vals with _ | ⟨u, _ | ⟨v, _ | ⟨w, _ | ⟨y, _ | ⟨z, tl'⟩⟩⟩⟩⟩ <;> simp at hv
    interval_cases ax <;>
      simp [evalIdx, expIdx, axVar, evalVar, strideProd, flatIdx, prodL, List.range_succ, List.insertIdx]

theorem coordArgs_eval (d ax : ℕ) (hd : d ≤ 5) (hax : ax < d) (env : KEnv) (hg : env.grids.length = d)
    (vals : List ℕ) (hv : vals.length = d - 1) (s : WState) (j : ℕ) :
    (coordArgs d ax).map (evalExpr env vals s j) = otherCoords env.grids ax vals := by
  obtain ⟨shape, grids, coefs, P, use, dt, eps⟩ := env
  simp only at hg
  interval_cases d
  · omega
  all_goals
    rcases grids with _ | ⟨L, _ | ⟨M, _ | ⟨N, _ | ⟨O, _ | ⟨Q, _ | ⟨R, tl⟩⟩⟩⟩⟩⟩ <;> simp at hg
    rcases vals with _ | ⟨u, _ | ⟨v, _ | ⟨w, _ | ⟨y, _ | ⟨z, tl'⟩⟩⟩⟩⟩ <;> simp at hv
    interval_cases ax <;>
      simp [coordArgs, others, List.range_succ, List.filter, evalExpr, lookRef, evalIx, evalVar, axVar, otherCoords, List.eraseIdx]

/-- the wrapper hands the C function the extent of the loop's own axis as end of the outermost loop (see `wrapperEndAxis`, F-02) -/
def WrapperExtentsOk (d ax : ℕ) (pre : Bool) (shape : List ℕ) : Prop :=
  2 ≤ d → d ≤ 3 → shape.getD (wrapperEndAxis d ax pre) 0 = shape.getD ((others d ax).headD 0) 0

theorem nest_extents (d ax : ℕ) (pre : Bool) (hd : d ≤ 5) (hax : ax < d) (env : KEnv) (hs : env.shape.length = d)
    (hw : WrapperExtentsOk d ax pre env.shape) :
    (expNest d ax pre).map (fun b => (evalBound env b.1, evalBound env b.2)) = (env.shape.eraseIdx ax).map (fun e => (0, e)) := by
  obtain ⟨shape, grids, coefs, P, use, dt, eps⟩ := env
  simp only at hs hw
  unfold WrapperExtentsOk at hw
  interval_cases d
  · omega
  all_goals
    rcases shape with _ | ⟨L, _ | ⟨M, _ | ⟨N, _ | ⟨O, _ | ⟨Q, _ | ⟨R, tl⟩⟩⟩⟩⟩⟩ <;> simp at hs
    interval_cases ax <;>
      simp [expNest, others, List.range_succ, List.filter, nestEndAxis, wrapperEndAxis, List.zipIdx, evalBound, List.eraseIdx] at hw ⊢
  all_goals (try (cases pre <;> simp_all))

end KProg
end DadiVerif
