import Mathlib.Tactic.FieldSimp
import Mathlib.Tactic.Positivity
import Mathlib.Data.List.Forall2
import DadiVerif.Lemmas.Optim
/-! Helper lemmas for C12, round 5: the grid search (`scipy.optimize.brute` modelled as the finite enumeration it is — Model/Optim.lean
    `GridSlice.axis`, `gridProduct`, `argminFirst`, `bruteOpt`, `runGrid`), `numpy.clip`, and the list-level `perturb`.
    Nothing here unfolds a GENERATED definition: what depends on the current source is a hypothesis, discharged in Props/C12.lean. -/
namespace DadiVerif.Optim
open Gen.Optim

/-! ## first minimum -/

theorem argminFirst_isSome : ∀ (h : History), h ≠ [] → ∃ xf, argminFirst h = some xf := by
  intro h hne
  cases h with
  | nil => exact absurd rfl hne
  | cons q rest =>
    simp only [argminFirst]
    cases argminFirst rest with
    | none => exact ⟨q, rfl⟩
    | some r => by_cases hlt : r.2 < q.2 <;> simp [hlt]

/-- the answer is one of the pairs, no pair has a smaller value, and every pair BEFORE it has a strictly larger one (ties go to the
    first: `numpy.argmin`) -/
theorem argminFirst_spec : ∀ (h : History) (xf : List ℚ × ℚ), argminFirst h = some xf →
    (∀ q ∈ h, xf.2 ≤ q.2) ∧ ∃ pre post, h = pre ++ xf :: post ∧ ∀ q ∈ pre, xf.2 < q.2 := by
  intro h
  induction h with
  | nil => intro xf hx; simp [argminFirst] at hx
  | cons q rest ih =>
    intro xf hx
    simp only [argminFirst] at hx
    cases hr : argminFirst rest with
    | none =>
      simp only [hr, Option.some.injEq] at hx
      subst hx
      cases rest with
      | nil => exact ⟨by simp, [], [], rfl, by simp⟩
      | cons a as =>
        obtain ⟨y, hy⟩ := argminFirst_isSome (a :: as) (by simp)
        rw [hy] at hr; cases hr
    | some r =>
      obtain ⟨hle, pre, post, hsplit, hpre⟩ := ih r hr
      simp only [hr] at hx
      by_cases hlt : r.2 < q.2
      · simp only [hlt, if_true, Option.some.injEq] at hx
        subst hx
        refine ⟨?_, q :: pre, post, by rw [hsplit]; rfl, ?_⟩
        · intro p hp
          rcases List.mem_cons.mp hp with hp | hp
          · subst hp; exact le_of_lt hlt
          · exact hle p hp
        · intro p hp
          rcases List.mem_cons.mp hp with hp | hp
          · subst hp; exact hlt
          · exact hpre p hp
      · simp only [hlt, if_false, Option.some.injEq] at hx
        subst hx
        refine ⟨?_, [], rest, rfl, by simp⟩
        intro p hp
        rcases List.mem_cons.mp hp with hp | hp
        · subst hp; exact le_refl _
        · exact le_trans (not_lt.mp hlt) (hle p hp)

theorem argminFirst_mem (h : History) (xf : List ℚ × ℚ) (hx : argminFirst h = some xf) : xf ∈ h := by
  obtain ⟨_, pre, post, hs, _⟩ := argminFirst_spec h xf hx
  rw [hs]; simp

/-! ## the run of the enumeration -/

/-- the answer `brute` gives after the pairs `h` -/
def bruteAnswer (h : History) : Option (List ℚ × ℚ) :=
  match argminFirst h with
  | some xf => some (xf.1, xf.2)
  | none => some ([], 0)

theorem runOpt_brute (obj : List ℚ → ℚ × Option (List ℚ)) (s : Option (List ℚ)) (lo up : Option (List BV)) :
    ∀ (rest done : List (List ℚ)),
      runOpt obj (bruteOpt (done ++ rest) s lo up) rest.length (done.map fun x => (x, (obj x).1)) =
        ⟨rest.map (fun x => (x, (obj x).1)), rest.flatMap (fun x => (obj x).2.toList),
         bruteAnswer ((done ++ rest).map fun x => (x, (obj x).1))⟩ := by
  intro rest
  induction rest with
  | nil =>
    intro done
    have hd : done.drop (done.map fun x => (x, (obj x).1)).length = [] := by simp
    simp only [List.length_nil, runOpt, bruteOpt, List.append_nil, hd, List.map_nil, List.flatMap_nil, bruteAnswer]
    cases argminFirst (done.map fun x => (x, (obj x).1)) <;> rfl
  | cons q rest ih =>
    intro done
    have hd : (done ++ q :: rest).drop (done.map fun x => (x, (obj x).1)).length = q :: rest := by simp
    have hstep : bruteOpt (done ++ q :: rest) s lo up (done.map fun x => (x, (obj x).1)) = .query q := by
      simp only [bruteOpt, hd]
    have hh : (done.map fun x => (x, (obj x).1)) ++ [(q, (obj q).1)] = (done ++ [q]).map fun x => (x, (obj x).1) := by simp
    have hpts : done ++ q :: rest = (done ++ [q]) ++ rest := by simp
    simp only [List.length_cons, runOpt, hstep, hh]
    rw [hpts, ih (done ++ [q])]
    simp

/-- the whole run from the empty history -/
theorem runOpt_brute_all (obj : List ℚ → ℚ × Option (List ℚ)) (s : Option (List ℚ)) (lo up : Option (List BV)) (pts : List (List ℚ)) :
    runOpt obj (bruteOpt pts s lo up) pts.length [] =
      ⟨pts.map (fun x => (x, (obj x).1)), pts.flatMap (fun x => (obj x).2.toList), bruteAnswer (pts.map fun x => (x, (obj x).1))⟩ := by
  have := runOpt_brute obj s lo up pts []
  simpa using this

/-- what the enumeration answers: a grid point with its own value, no grid point has a smaller value, every EARLIER grid point has a
    strictly larger one -/
theorem brute_spec (obj : List ℚ → ℚ × Option (List ℚ)) (pts : List (List ℚ)) (hne : pts ≠ []) :
    ∃ q ∈ pts, bruteAnswer (pts.map fun x => (x, (obj x).1)) = some (q, (obj q).1) ∧
      (∀ q' ∈ pts, (obj q).1 ≤ (obj q').1) ∧
      ∃ pre post, pts = pre ++ q :: post ∧ ∀ q' ∈ pre, (obj q).1 < (obj q').1 := by
  have hne' : (pts.map fun x => (x, (obj x).1)) ≠ [] := by simpa using hne
  obtain ⟨xf, hxf⟩ := argminFirst_isSome _ hne'
  obtain ⟨hle, pre, post, hsplit, hpre⟩ := argminFirst_spec _ xf hxf
  obtain ⟨l₁, l₂, hpts, h1, h2⟩ := List.map_eq_append_iff.mp hsplit
  obtain ⟨q, l₃, hl2, hq, h3⟩ := List.map_eq_cons_iff.mp h2
  subst hq
  refine ⟨q, by rw [hpts, hl2]; simp, by simp [bruteAnswer, hxf], ?_, l₁, l₃, by rw [hpts, hl2], ?_⟩
  · intro q' hq'
    exact hle (q', (obj q').1) (List.mem_map.mpr ⟨q', hq', rfl⟩)
  · intro q' hq'
    have : (q', (obj q').1) ∈ pre := by rw [← h1]; exact List.mem_map.mpr ⟨q', hq', rfl⟩
    exact hpre _ this

/-! ## the grid -/

theorem mem_gridProduct : ∀ (axes : List (List ℚ)) (q : List ℚ),
    q ∈ gridProduct axes ↔ List.Forall₂ (fun x ax => x ∈ ax) q axes := by
  intro axes
  induction axes with
  | nil =>
    intro q
    simp only [gridProduct, List.mem_singleton]
    constructor
    · rintro rfl; exact List.Forall₂.nil
    · intro h; cases h; rfl
  | cons ax rest ih =>
    intro q
    simp only [gridProduct, List.mem_flatMap, List.mem_map]
    constructor
    · rintro ⟨x, hx, r, hr, rfl⟩
      exact List.Forall₂.cons hx ((ih r).mp hr)
    · intro h
      cases h with
      | cons hx hr => exact ⟨_, hx, _, (ih _).mpr hr, rfl⟩

/-- where the values of one axis lie: `a:b:mj` within [a, b], `a:b:s` within [a, b) -/
def GridSlice.InRange : GridSlice → ℚ → Prop
  | .count a b _, x => a ≤ x ∧ x ≤ b
  | .step a b _ _, x => a ≤ x ∧ x < b

/-- `a:b:mj` is written with a ≤ b -/
def GridSlice.WF : GridSlice → Prop
  | .count a b _ => a ≤ b
  | .step _ _ _ _ => True

theorem axis_inRange (sl : GridSlice) (hwf : sl.WF) : ∀ x ∈ sl.axis, sl.InRange x := by
  cases sl with
  | count a b m =>
    intro x hx
    simp only [GridSlice.axis, List.mem_map, List.mem_range] at hx
    obtain ⟨i, hi, rfl⟩ := hx
    have hab : a ≤ b := hwf
    by_cases hm : m = 1
    · subst hm
      have : i = 0 := by omega
      subst this
      simp [GridSlice.InRange, hab]
    · simp only [hm, if_false, GridSlice.InRange]
      have hm2 : (2 : ℚ) ≤ m := by
        have : 2 ≤ m := by omega
        exact_mod_cast this
      have hpos : (0 : ℚ) < (m : ℚ) - 1 := by linarith
      have hi' : (i : ℚ) ≤ (m : ℚ) - 1 := by
        have : i + 1 ≤ m := hi
        have : ((i + 1 : ℕ) : ℚ) ≤ (m : ℚ) := by exact_mod_cast this
        push_cast at this; linarith
      have hi0 : (0 : ℚ) ≤ i := by positivity
      have hd : 0 ≤ (b - a) / ((m : ℚ) - 1) := div_nonneg (by linarith) (le_of_lt hpos)
      constructor
      · have := mul_nonneg hi0 hd; linarith
      · have h1 : (i : ℚ) * ((b - a) / ((m : ℚ) - 1)) ≤ ((m : ℚ) - 1) * ((b - a) / ((m : ℚ) - 1)) :=
          mul_le_mul_of_nonneg_right hi' hd
        have h2 : ((m : ℚ) - 1) * ((b - a) / ((m : ℚ) - 1)) = b - a := by field_simp
        linarith
  | step a b s lit =>
    intro x hx
    simp only [GridSlice.axis, List.mem_map, List.mem_range, stepCount] at hx
    obtain ⟨i, hi, rfl⟩ := hx
    by_cases hs : 0 < s
    · simp only [hs, if_true] at hi
      have hi0 : (0 : ℚ) ≤ i := by positivity
      have hlt : ((i : ℤ) : ℚ) < (b - a) / s := by
        apply Rat.lt_ceil_iff.mp
        have : ((i : ℕ) : ℤ) < (((b - a) / s).ceil.toNat : ℤ) := by exact_mod_cast hi
        have h0 : (0 : ℤ) ≤ ((b - a) / s).ceil := by
          by_contra hneg
          have : ((b - a) / s).ceil.toNat = 0 := Int.toNat_eq_zero.mpr (by omega)
          rw [this] at hi; omega
        rwa [Int.toNat_of_nonneg h0] at this
      have hlt' : (i : ℚ) < (b - a) / s := by simpa using hlt
      have : (i : ℚ) * s < b - a := by rwa [lt_div_iff₀ hs] at hlt'
      constructor
      · have := mul_nonneg hi0 (le_of_lt hs); linarith
      · linarith
    · simp [hs] at hi

theorem forall₂_inRange : ∀ (sl : List GridSlice) (q : List ℚ), (∀ s ∈ sl, s.WF) →
    List.Forall₂ (fun x ax => x ∈ ax) q (sl.map GridSlice.axis) → List.Forall₂ (fun x s => GridSlice.InRange s x) q sl := by
  intro sl
  induction sl with
  | nil => intro q _ h; simp only [List.map_nil] at h; cases h; exact List.Forall₂.nil
  | cons s rest ih =>
    intro q hwf h
    simp only [List.map_cons] at h
    cases h with
    | cons hx hr =>
      exact List.Forall₂.cons (axis_inRange s (hwf s (by simp)) _ hx) (ih _ (fun t ht => hwf t (by simp [ht])) hr)

/-- every point of the grid has one coordinate per slice, each in the range of its slice -/
theorem gridPoints_inRange (sl : List GridSlice) (hwf : ∀ s ∈ sl, s.WF) (q : List ℚ) (hq : q ∈ gridPoints sl) :
    List.Forall₂ (fun x s => GridSlice.InRange s x) q sl :=
  forall₂_inRange sl q hwf ((mem_gridProduct _ q).mp hq)

/-! ## a grid row evaluates every query, at the folded-in point -/

theorem wrapperObjective_grid (w : Wrapper) (hg : w.gridOk = true) (expF logF : ℚ → ℚ) (pb : Problem) (m : ModelFn) (x : List ℚ) :
    (wrapperObjective w expF logF pb m x).2 = some (projectUpO x pb.fixed) := by
  simp only [Wrapper.gridOk, Bool.and_eq_true, beq_iff_eq, Bool.not_eq_true'] at hg
  obtain ⟨⟨⟨⟨⟨⟨⟨⟨_, _⟩, _⟩, hlo⟩, hup⟩, hfix⟩, hlog⟩, _⟩, _⟩ := hg
  simp only [wrapperObjective, hlo, hup, hfix, hlog, Option.bind_none, if_true]
  rw [objectFunc_inside]
  · simp
  · constructor <;> intro bs hbs <;> simp at hbs

theorem down_length (fixed : Fixed) : ∀ (full : List ℚ), full.length = fixed.length → (projectDown full fixed).length = nFree fixed := by
  induction fixed with
  | nil => intro full h; cases full <;> simp_all [projectDown, nFree]
  | cons f fs ih =>
    intro full h
    cases full with
    | nil => simp at h
    | cons p ps =>
      have h' : ps.length = fs.length := by simpa using h
      cases f with
      | some v => simpa [projectDown, downKeeps, nFree] using ih ps h'
      | none => simpa [projectDown, downKeeps, nFree] using ih ps h'

/-! ## `numpy.clip` -/

theorem clipEntry_box (x l u y : ℚ) (hlu : l ≤ u) (h : clipEntry x (.val l) (.val u) = some y) : l ≤ y ∧ y ≤ u := by
  simp only [clipEntry, Option.bind_some, Option.some.injEq] at h
  subst h
  simp only [ratMax, ratMin]
  split_ifs <;> constructor <;> linarith

theorem clipEntry_inside (x l u : ℚ) (h1 : l ≤ x) (h2 : x ≤ u) : clipEntry x (.val l) (.val u) = some x := by
  simp only [clipEntry, Option.bind_some, ratMax, ratMin]
  split_ifs <;> first | rfl | (congr 1; linarith)

/-! ## `perturb_params`, the whole list -/

theorem perturb_getElem? (params factors : List ℚ) (lower upper : Option Bounds) (i : ℕ) (v : ℚ)
    (h : (perturb params factors lower upper)[i]? = some v) :
    ∃ p, v = perturbEntry perturbSteps p (optAt lower i) (optAt upper i) := by
  simp only [perturb, List.getElem?_map, Option.map_eq_some_iff] at h
  obtain ⟨⟨p, j⟩, hj, rfl⟩ := h
  have hji : j = i := by
    have := List.getElem?_zipIdx (l := List.zipWith (· * ·) params factors) (i := 0) (j := i)
    rw [this] at hj
    cases hz : (List.zipWith (· * ·) params factors)[i]? with
    | none => simp [hz] at hj
    | some a => simp [hz] at hj; omega
  subst hji
  exact ⟨p, rfl⟩

end DadiVerif.Optim
