import DadiVerif.Model.FromPhi
import Mathlib.RingTheory.Polynomial.Bernstein
import Mathlib.Algebra.Polynomial.Derivative
import Mathlib.Algebra.BigOperators.Ring.Finset
import Mathlib.Algebra.BigOperators.Field
import Mathlib.Algebra.BigOperators.Intervals
import Mathlib.Algebra.Order.Field.Rat
import Mathlib.Data.Nat.Choose.Basic
import Mathlib.Data.Nat.Factorial.Basic
import Mathlib.Tactic.FieldSimp
import Mathlib.Tactic.Ring
import Mathlib.Tactic.Linarith
/-! C05 — bridge between the executable model (Model/FromPhi.lean, generated formulas of Generated/FromPhi.lean) and
    Mathlib's Bernstein polynomials; the polynomial facts behind exactness, mass and projection consistency. -/
namespace DadiVerif.FromPhi
open Finset Polynomial Gen.FromPhi

/-! ### core sums / binomials = Mathlib's -/

theorem sumRange_eq (n : ℕ) (f : ℕ → ℚ) : sumRange n f = ∑ i ∈ range n, f i := by
  induction n with
  | zero => simp [sumRange]
  | succ n ih => rw [sumRange, ih, Finset.sum_range_succ]

theorem fact_eq (n : ℕ) : fact n = n.factorial := by
  induction n with
  | zero => rfl
  | succ n ih => simp [fact, ih, Nat.factorial_succ]

theorem choose_eq (n k : ℕ) : choose n k = n.choose k := by
  unfold choose
  split_ifs with h
  · rw [fact_eq, fact_eq, fact_eq, Nat.choose_eq_factorial_div_factorial h]
  · exact (Nat.choose_eq_zero_of_lt (by omega)).symm

/-! ### Bernstein polynomials -/

/-- the model's sampling probability is the value of Mathlib's Bernstein polynomial -/
theorem bern_eq_eval (n d : ℕ) (x : ℚ) : bern n d x = (bernsteinPolynomial ℚ n d).eval x := by
  simp [bern, bernsteinPolynomial, choose_eq]

/-- polynomial whose value is `betainc(a, b, ·)` at integer a, b -/
noncomputable def Ipoly (a b : ℕ) : ℚ[X] := ∑ t ∈ range b, bernsteinPolynomial ℚ (a + b - 1) (a + t)

theorem betaI_eq_eval (a b : ℕ) (x : ℚ) : betaI a b x = (Ipoly a b).eval x := by
  unfold betaI Ipoly
  rw [sumRange_eq, Polynomial.eval_finsetSum]
  exact Finset.sum_congr rfl fun t _ => bern_eq_eval _ _ _

theorem Ipoly_eval_zero (a b : ℕ) : (Ipoly (a + 1) b).eval 0 = 0 := by
  unfold Ipoly
  rw [Polynomial.eval_finsetSum]
  refine Finset.sum_eq_zero fun t _ => ?_
  rw [bernsteinPolynomial.eval_at_0]
  simp

/-- d/dx I_x(a+1, b+1) = (a+b+1) · C(a+b, a) x^a (1-x)^b -/
theorem Ipoly_derivative (a b : ℕ) :
    derivative (Ipoly (a + 1) (b + 1)) = ((a + b + 1 : ℕ) : ℚ[X]) * bernsteinPolynomial ℚ (a + b) a := by
  unfold Ipoly
  rw [derivative_sum]
  have e : a + 1 + (b + 1) - 1 = a + b + 1 := by omega
  rw [e]
  have h : ∀ t ∈ range (b + 1), derivative (bernsteinPolynomial ℚ (a + b + 1) (a + 1 + t))
      = ((a + b + 1 : ℕ) : ℚ[X]) * (bernsteinPolynomial ℚ (a + b) (a + t) - bernsteinPolynomial ℚ (a + b) (a + (t + 1))) := by
    intro t _
    have e2 : a + 1 + t = (a + t) + 1 := by omega
    rw [e2, bernsteinPolynomial.derivative_succ]
    simp only [Nat.add_sub_cancel]
    congr 2
  rw [Finset.sum_congr rfl h, ← Finset.mul_sum, Finset.sum_range_sub' (fun t => bernsteinPolynomial ℚ (a + b) (a + t))]
  simp only [add_zero]
  rw [bernsteinPolynomial.eq_zero_of_lt ℚ (show a + b < a + (b + 1) by omega), sub_zero]

/-- x · B_{n,i} = (i+1)/(n+1) · B_{n+1,i+1} -/
theorem X_mul_bernstein (n i : ℕ) :
    X * bernsteinPolynomial ℚ n i = C (((i : ℚ) + 1) / ((n : ℚ) + 1)) * bernsteinPolynomial ℚ (n + 1) (i + 1) := by
  unfold bernsteinPolynomial
  have hn : ((n : ℚ) + 1) ≠ 0 := by positivity
  have key : ((i : ℚ) + 1) / ((n : ℚ) + 1) * ((n + 1).choose (i + 1) : ℚ) = (n.choose i : ℚ) := by
    have := Nat.add_one_mul_choose_eq n i
    have h2 : (((n + 1) * n.choose i : ℕ) : ℚ) = (((n + 1).choose (i + 1) * (i + 1) : ℕ) : ℚ) := by rw [this]
    push_cast at h2
    field_simp
    linarith
  have e : n + 1 - (i + 1) = n - i := by omega
  rw [e]
  have : C (((i : ℚ) + 1) / ((n : ℚ) + 1)) * ((((n + 1).choose (i + 1) : ℕ) : ℚ[X]) * X ^ (i + 1) * (1 - X) ^ (n - i))
      = C (((i : ℚ) + 1) / ((n : ℚ) + 1) * ((n + 1).choose (i + 1) : ℚ)) * (X ^ (i + 1) * (1 - X) ^ (n - i)) := by
    simp only [map_mul, map_natCast]
    ring
  rw [this, key]
  simp only [map_natCast]
  ring

/-- antiderivative (vanishing at 0) of B_{n,d} -/
noncomputable def Apoly (n d : ℕ) : ℚ[X] := C (1 / ((n : ℚ) + 1)) * Ipoly (d + 1) (n - d + 1)

/-- antiderivative (vanishing at 0) of x · B_{n,d} -/
noncomputable def Apoly' (n d : ℕ) : ℚ[X] :=
  C (((d : ℚ) + 1) / (((n : ℚ) + 1) * ((n : ℚ) + 2))) * Ipoly (d + 2) (n - d + 1)

theorem Apoly_derivative (n d : ℕ) (hd : d ≤ n) : derivative (Apoly n d) = bernsteinPolynomial ℚ n d := by
  unfold Apoly
  rw [derivative_C_mul, Ipoly_derivative]
  have e : d + (n - d) = n := by omega
  rw [e]
  have hn : ((n : ℚ) + 1) ≠ 0 := by positivity
  rw [← mul_assoc]
  have : C (1 / ((n : ℚ) + 1)) * ((n + 1 : ℕ) : ℚ[X]) = 1 := by
    rw [← map_natCast (C : ℚ →+* ℚ[X]), ← map_mul]
    push_cast
    rw [one_div, inv_mul_cancel₀ hn, map_one]
  rw [this, one_mul]

theorem Apoly'_derivative (n d : ℕ) (hd : d ≤ n) : derivative (Apoly' n d) = X * bernsteinPolynomial ℚ n d := by
  unfold Apoly'
  rw [derivative_C_mul, show d + 2 = (d + 1) + 1 by rfl, Ipoly_derivative, X_mul_bernstein]
  have e : d + 1 + (n - d) = n + 1 := by omega
  rw [e, ← mul_assoc]
  congr 1
  have hn : ((n : ℚ) + 1) ≠ 0 := by positivity
  have hn2 : ((n : ℚ) + 2) ≠ 0 := by positivity
  rw [← map_natCast (C : ℚ →+* ℚ[X]), ← map_mul]
  congr 1
  push_cast
  field_simp
  ring

theorem Apoly_eval_zero (n d : ℕ) : (Apoly n d).eval 0 = 0 := by
  simp [Apoly, Ipoly_eval_zero]

theorem Apoly'_eval_zero (n d : ℕ) : (Apoly' n d).eval 0 = 0 := by
  have := Ipoly_eval_zero (d + 1) (n - d + 1)
  simp [Apoly', this]

/-- two rational polynomials with the same derivative and the same value at 0 are equal -/
theorem eq_of_derivative_eq {P Q : ℚ[X]} (hd : derivative P = derivative Q) (h0 : P.eval 0 = Q.eval 0) : P = Q := by
  have h : derivative (P - Q) = 0 := by rw [derivative_sub, hd, sub_self]
  have hc := eq_C_of_derivative_eq_zero h
  rw [coeff_zero_eq_eval_zero, eval_sub, h0, sub_self, map_zero] at hc
  exact sub_eq_zero.mp hc

/-! ### the interval antiderivative and the transfer principle -/

/-- antiderivative (vanishing at 0) of B_{n,d}(x) · (a + s·x) -/
noncomputable def Fpoly (n d : ℕ) (a s : ℚ) : ℚ[X] := C a * Apoly n d + C s * Apoly' n d

theorem Fpoly_derivative (n d : ℕ) (hd : d ≤ n) (a s : ℚ) :
    derivative (Fpoly n d a s) = bernsteinPolynomial ℚ n d * (C a + C s * X) := by
  unfold Fpoly
  rw [derivative_add, derivative_C_mul, derivative_C_mul, Apoly_derivative n d hd, Apoly'_derivative n d hd]
  ring

theorem Fpoly_eval_zero (n d : ℕ) (a s : ℚ) : (Fpoly n d a s).eval 0 = 0 := by
  simp [Fpoly, Apoly_eval_zero, Apoly'_eval_zero]

/-- general interval term: slope and `c1` from the grid `xs`, incomplete-beta differences on the grid `xb`
    (`xs = xb` = clamped grid in `_from_phi_1D_analytic`; `xs` = caller's grid, `xb` = clamped grid in the linalg versions) -/
def entryG (n d : ℕ) (xs xb φ : ℕ → ℚ) (k : ℕ) : ℚ :=
  c1 (φ k) (s (φ k) (φ (k+1)) (xs k) (xs (k+1))) (xs k) n
      * (betaI (d + 1) (n - d + 1) (xb (k+1)) - betaI (d + 1) (n - d + 1) (xb k))
    + c2 (s (φ k) (φ (k+1)) (xs k) (xs (k+1))) d n
      * (betaI (d + 2) (n - d + 1) (xb (k+1)) - betaI (d + 2) (n - d + 1) (xb k))

theorem entry1D_eq_entryG (n d : ℕ) (xc φ : ℕ → ℚ) (k : ℕ) : entry1D n d xc φ k = entryG n d xc xc φ k := by
  simp only [entry1D, entry1Dt, entryG, entry, beta1A, beta2A]

/-- every statement of `_from_phi_1D_analytic` reads the clamped copy of the grid (the generated flags `anGrid*` are all
    `true`): the function is the sum of the interval terms on the clamped grid -/
theorem fromPhi1D_def (n N : ℕ) (x φ : ℕ → ℚ) (d : ℕ) :
    fromPhi1D n N x φ d = sumRange (N - 1) (entry1D n d (fun k => clamp (x k)) φ) := by
  have e : ∀ f : ℕ → ℚ, gridCopy true clamp f = fun k => clamp (f k) := fun f => by funext k; simp [gridCopy]
  simp only [fromPhi1D, anGridS, anGridC1, anGridB1, anGridB2, e]
  rfl

/-- one interval of the semi-analytic path is a difference of values of the antiderivative -/
theorem entryG_eq (n d : ℕ) (xs xb φ : ℕ → ℚ) (k : ℕ) :
    entryG n d xs xb φ k
      = (Fpoly n d (φ k - s (φ k) (φ (k+1)) (xs k) (xs (k+1)) * xs k) (s (φ k) (φ (k+1)) (xs k) (xs (k+1)))).eval (xb (k+1))
        - (Fpoly n d (φ k - s (φ k) (φ (k+1)) (xs k) (xs (k+1)) * xs k) (s (φ k) (φ (k+1)) (xs k) (xs (k+1)))).eval (xb k) := by
  simp only [entryG, c1, c2, betaI_eq_eval, Fpoly, Apoly, Apoly', eval_add, eval_mul, eval_C]
  ring

/-- **transfer principle**: a linear relation between sampling probabilities of two sample sizes (as polynomials in the
    allele frequency) carries over to the antiderivatives, hence to every interval of the semi-analytic path -/
theorem transfer (n m : ℕ) (w v : ℕ → ℚ)
    (h : ∑ i ∈ range (n+1), C (w i) * bernsteinPolynomial ℚ n i = ∑ j ∈ range (m+1), C (v j) * bernsteinPolynomial ℚ m j)
    (a s : ℚ) :
    ∑ i ∈ range (n+1), C (w i) * Fpoly n i a s = ∑ j ∈ range (m+1), C (v j) * Fpoly m j a s := by
  apply eq_of_derivative_eq
  · rw [derivative_sum, derivative_sum]
    have h1 : ∀ i ∈ range (n+1), derivative (C (w i) * Fpoly n i a s)
        = (C (w i) * bernsteinPolynomial ℚ n i) * (C a + C s * X) := by
      intro i hi
      rw [derivative_C_mul, Fpoly_derivative n i (by have := mem_range.mp hi; omega)]
      ring
    have h2 : ∀ j ∈ range (m+1), derivative (C (v j) * Fpoly m j a s)
        = (C (v j) * bernsteinPolynomial ℚ m j) * (C a + C s * X) := by
      intro j hj
      rw [derivative_C_mul, Fpoly_derivative m j (by have := mem_range.mp hj; omega)]
      ring
    rw [Finset.sum_congr rfl h1, Finset.sum_congr rfl h2, ← Finset.sum_mul, ← Finset.sum_mul, h]
  · rw [eval_finsetSum, eval_finsetSum]
    simp [Fpoly_eval_zero]

theorem transfer_entry (n m : ℕ) (w v : ℕ → ℚ)
    (h : ∑ i ∈ range (n+1), C (w i) * bernsteinPolynomial ℚ n i = ∑ j ∈ range (m+1), C (v j) * bernsteinPolynomial ℚ m j)
    (xs xb φ : ℕ → ℚ) (k : ℕ) :
    ∑ i ∈ range (n+1), w i * entryG n i xs xb φ k = ∑ j ∈ range (m+1), v j * entryG m j xs xb φ k := by
  have t := transfer n m w v h (φ k - s (φ k) (φ (k+1)) (xs k) (xs (k+1)) * xs k) (s (φ k) (φ (k+1)) (xs k) (xs (k+1)))
  have t1 := congrArg (fun P => P.eval (xb (k+1))) t
  have t0 := congrArg (fun P => P.eval (xb k)) t
  simp only [eval_finsetSum, eval_mul, eval_C] at t1 t0
  simp only [entryG_eq, mul_sub, Finset.sum_sub_distrib]
  rw [t1, t0]

theorem transfer_fromPhi1D (n m : ℕ) (w v : ℕ → ℚ)
    (h : ∑ i ∈ range (n+1), C (w i) * bernsteinPolynomial ℚ n i = ∑ j ∈ range (m+1), C (v j) * bernsteinPolynomial ℚ m j)
    (N : ℕ) (x φ : ℕ → ℚ) :
    ∑ i ∈ range (n+1), w i * fromPhi1D n N x φ i = ∑ j ∈ range (m+1), v j * fromPhi1D m N x φ j := by
  simp only [fromPhi1D_def, sumRange_eq, Finset.mul_sum, entry1D_eq_entryG]
  rw [Finset.sum_comm, Finset.sum_comm (s := range (m+1))]
  exact Finset.sum_congr rfl fun k _ => transfer_entry n m w v h _ _ φ k

/-! ### hypergeometric weights and the projection identity of Bernstein polynomials -/

/-- C(m,j)·C(n−m,i−j)/C(n,i): probability of j derived alleles in a subsample of m out of n chromosomes with i derived
    (the same formula as `hyp` of Lemmas/Hypergeom.lean, which C08 proves to be dadi's projection weight) -/
def hypW (m n i j : ℕ) : ℚ :=
  if j ≤ i then ((m.choose j * (n - m).choose (i - j) : ℕ) : ℚ) / (n.choose i : ℕ) else 0

/-- Σ_i hyp(m,n,i,j) · B_{n,i} = B_{m,j}: sampling n and sub-sampling m is sampling m -/
theorem bernstein_project (m n j : ℕ) (hm : m ≤ n) (hj : j ≤ m) :
    ∑ i ∈ range (n+1), C (hypW m n i j) * bernsteinPolynomial ℚ n i = bernsteinPolynomial ℚ m j := by
  -- right-hand side through the binomial theorem
  have hR : bernsteinPolynomial ℚ m j
      = ∑ l ∈ range (n - m + 1), ((m.choose j * (n - m).choose l : ℕ) : ℚ[X]) * X ^ (j + l) * (1 - X) ^ (n - (j + l)) := by
    have one : (X + (1 - X) : ℚ[X]) ^ (n - m) = 1 := by simp
    calc bernsteinPolynomial ℚ m j = bernsteinPolynomial ℚ m j * (X + (1 - X)) ^ (n - m) := by rw [one, mul_one]
      _ = _ := by
        rw [add_pow, Finset.mul_sum]
        refine Finset.sum_congr rfl fun l hl => ?_
        have hl' : l ≤ n - m := by have := mem_range.mp hl; omega
        have hnm : n - m + m = n := Nat.sub_add_cancel hm
        have e : n - (j + l) = (m - j) + (n - m - l) := by omega
        unfold bernsteinPolynomial
        rw [e, pow_add, pow_add]
        push_cast
        ring
  -- left-hand side: only j ≤ i contributes, and C(n,i) cancels
  have hL : ∀ i ∈ range (n+1), C (hypW m n i j) * bernsteinPolynomial ℚ n i
      = if j ≤ i then ((m.choose j * (n - m).choose (i - j) : ℕ) : ℚ[X]) * X ^ i * (1 - X) ^ (n - i) else 0 := by
    intro i hi
    have hin : i ≤ n := by have := mem_range.mp hi; omega
    unfold hypW
    split_ifs with hji
    · have hc : ((n.choose i : ℕ) : ℚ) ≠ 0 := by exact_mod_cast (Nat.choose_pos hin).ne'
      unfold bernsteinPolynomial
      rw [← map_natCast (C : ℚ →+* ℚ[X]) (n.choose i), ← map_natCast (C : ℚ →+* ℚ[X]) (m.choose j * (n - m).choose (i - j))]
      rw [← mul_assoc, ← mul_assoc, ← map_mul, div_mul_cancel₀ _ hc]
    · simp
  rw [Finset.sum_congr rfl hL, hR]
  -- re-index i = j + l
  rw [Finset.range_eq_Ico, ← Finset.sum_Ico_consecutive _ (Nat.zero_le j) (by omega : j ≤ n + 1)]
  have hz : ∑ i ∈ Ico 0 j, (if j ≤ i then ((m.choose j * (n - m).choose (i - j) : ℕ) : ℚ[X]) * X ^ i * (1 - X) ^ (n - i) else 0) = 0 := by
    refine Finset.sum_eq_zero fun i hi => ?_
    have : ¬ j ≤ i := by have := (mem_Ico.mp hi).2; omega
    simp [this]
  rw [hz, zero_add, Finset.sum_Ico_eq_sum_range]
  have hsub : range (n - m + 1) ⊆ range (n + 1 - j) := by
    intro l hl; have := mem_range.mp hl; exact mem_range.mpr (by omega)
  rw [← Finset.sum_subset hsub]
  · refine Finset.sum_congr rfl fun l _ => ?_
    simp
  · intro l _ hl
    have hlt : n - m < l := by
      have : ¬ l < n - m + 1 := fun h => hl (mem_range.mpr h)
      omega
    simp [Nat.choose_eq_zero_of_lt hlt]

/-! ### tables are transparent -/

theorem tabGetF_memoTab (R C : ℕ) (f : ℕ → ℕ → ℚ) : tabGetF (memoTab R C f) R C f = f := by
  funext i k
  unfold tabGetF
  split_ifs with h
  · simp [memoTab, Array.getD, h.1, h.2]
  · rfl

theorem fromPhi1DFast_getD (n N : ℕ) (x φ : ℕ → ℚ) (d : ℕ) (hd : d ≤ n) :
    (fromPhi1DFast n N x φ).getD d 0 = fromPhi1D n N x φ d := by
  have hlt : d < dCount n := by unfold dCount; omega
  have e : ∀ f : ℕ → ℚ, gridCopy true clamp f = fun k => clamp (f k) := fun f => by funext k; simp [gridCopy]
  rw [fromPhi1D_def]
  unfold fromPhi1DFast
  simp only [tabGetF_memoTab, anGridS, anGridC1, anGridB1, anGridB2, e]
  simp [Array.getD, hlt]
  rfl

/-! ### the stages of the linear-algebra versions are the 1-D formulas -/

theorem dbClamp_eq (x : ℚ) : dbClamp x = clamp x := rfl

theorem linalgLine_eq (a n N : ℕ) (ha : a < 5) (x φ : ℕ → ℚ) (d : ℕ) :
    linalgLine a n N x (dbeta1 n x) (dbeta2 n x) φ d
      = ∑ k ∈ range (N - 1), entryG n d x (fun k => clamp (x k)) φ k := by
  have ha' : a = 0 ∨ a = 1 ∨ a = 2 ∨ a = 3 ∨ a = 4 := by omega
  have hS : linS a = s := by
    rcases ha' with rfl | rfl | rfl | rfl | rfl <;> rfl
  have hC : linC1 a = c1 := by
    rcases ha' with rfl | rfl | rfl | rfl | rfl <;> rfl
  have hSc : ∀ sk : ℚ, sk * linScale a d n = c2 sk d n := by
    intro sk
    rcases ha' with rfl | rfl | rfl | rfl | rfl <;> simp only [linScale, c2] <;> ring
  unfold linalgLine
  rw [sumRange_eq, sumRange_eq, Finset.sum_mul, ← Finset.sum_add_distrib, hS, hC]
  refine Finset.sum_congr rfl fun k _ => ?_
  rw [mul_assoc, hSc]
  simp only [entryG, dbeta1, dbeta2, db1A, db2A, dbDiff, dbGridB1, dbGridB2, gridCopy, if_true, dbClamp_eq]
  ring

/-! ### mass of one interval -/

theorem bern_sum_poly (n : ℕ) :
    ∑ i ∈ range (n+1), C (1 : ℚ) * bernsteinPolynomial ℚ n i = ∑ j ∈ range (0+1), C (1 : ℚ) * bernsteinPolynomial ℚ 0 j := by
  simp only [map_one, one_mul, bernsteinPolynomial.sum]

theorem betaI_one_one (x : ℚ) : betaI 1 1 x = x := by
  simp [betaI, sumRange, bern, choose, fact]

theorem betaI_two_one (x : ℚ) : betaI 2 1 x = x ^ 2 := by
  simp [betaI, sumRange, bern, choose, fact]

/-- Σ_d (interval term) = ∫ of the linear piece, whatever the two grids are -/
theorem entryG_sum (n : ℕ) (xs xb φ : ℕ → ℚ) (k : ℕ) :
    ∑ d ∈ range (n+1), entryG n d xs xb φ k
      = (φ k - s (φ k) (φ (k+1)) (xs k) (xs (k+1)) * xs k) * (xb (k+1) - xb k)
        + s (φ k) (φ (k+1)) (xs k) (xs (k+1)) / 2 * (xb (k+1) ^ 2 - xb k ^ 2) := by
  have t := transfer_entry n 0 (fun _ => 1) (fun _ => 1) (bern_sum_poly n) xs xb φ k
  simp only [one_mul, zero_add, Finset.sum_range_one] at t
  rw [t]
  simp only [entryG, c1, c2]
  norm_num
  simp only [betaI_one_one, betaI_two_one]

/-- … and with one grid of distinct nodes it is the trapezoid -/
theorem entryG_sum_trapz (n : ℕ) (xc φ : ℕ → ℚ) (k : ℕ) (hk : xc (k+1) ≠ xc k) :
    ∑ d ∈ range (n+1), entryG n d xc xc φ k = (xc (k+1) - xc k) * (φ (k+1) + φ k) / 2 := by
  rw [entryG_sum]
  have h : xc (k+1) - xc k ≠ 0 := sub_ne_zero.mpr hk
  simp only [s]
  field_simp
  ring

end DadiVerif.FromPhi
