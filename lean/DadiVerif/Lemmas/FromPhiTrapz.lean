import DadiVerif.Lemmas.FromPhiIntegral
import DadiVerif.Lemmas.FromPhiLimit
import DadiVerif.Lemmas.FromPhiND
import Mathlib.MeasureTheory.Integral.IntervalIntegral.Basic
import Mathlib.Tactic.Positivity
import Mathlib.Tactic.GCongr
/-! C05, round 5 — the direct (trapezoid) path against the semi-analytic path, and the clamp in d ≥ 2, through the Riemann
    integral over ℝ.

On one interval [u,v] ⊂ [0,1] the semi-analytic path integrates B·ℓ exactly (B = binomial sampling probability, ℓ = linear
interpolant of the density), the direct path applies the trapezoid rule to the same polynomial B·ℓ (ℓ takes the node values at
the nodes).  With B Lipschitz (constant C(n,d)·n) the two differ by at most C(n,d)·n·(v−u)·(v−u)(|f₀|+|f₁|). -/
namespace DadiVerif.FromPhi
open Polynomial Finset

/-! ### Bernstein polynomials over ℝ -/

theorem bernR_eval (n d : ℕ) (t : ℝ) :
    (bernsteinPolynomial ℝ n d).eval t = (n.choose d : ℝ) * (t ^ d * (1 - t) ^ (n - d)) := by
  simp [bernsteinPolynomial]; ring

theorem bernR_nonneg (n d : ℕ) (t : ℝ) (h0 : 0 ≤ t) (h1 : t ≤ 1) : 0 ≤ (bernsteinPolynomial ℝ n d).eval t := by
  rw [bernR_eval]
  have : 0 ≤ 1 - t := by linarith
  positivity

theorem bernR_le_one (n d : ℕ) (t : ℝ) (h0 : 0 ≤ t) (h1 : t ≤ 1) : (bernsteinPolynomial ℝ n d).eval t ≤ 1 := by
  by_cases hd : d ≤ n
  · have hs := congrArg (fun P : ℝ[X] => P.eval t) (bernsteinPolynomial.sum ℝ n)
    simp only [eval_finsetSum, eval_one] at hs
    rw [← hs]
    exact single_le_sum (f := fun ν => (bernsteinPolynomial ℝ n ν).eval t) (fun ν _ => bernR_nonneg n ν t h0 h1)
      (mem_range.mpr (by omega))
  · rw [bernsteinPolynomial.eq_zero_of_lt ℝ (by omega)]
    simp

theorem bernR_lip (n d : ℕ) (hd : d ≤ n) (y z : ℝ) (hy0 : 0 ≤ y) (hy1 : y ≤ 1) (hz0 : 0 ≤ z) (hz1 : z ≤ 1) :
    |(bernsteinPolynomial ℝ n d).eval y - (bernsteinPolynomial ℝ n d).eval z| ≤ (n.choose d : ℝ) * n * |y - z| := by
  rw [bernR_eval, bernR_eval, ← mul_sub, abs_mul, abs_of_nonneg (Nat.cast_nonneg _), mul_assoc]
  exact mul_le_mul_of_nonneg_left (abs_monomial_sub_le n d hd y z hy0 hy1 hz0 hz1) (Nat.cast_nonneg _)

theorem bern_cast (n d : ℕ) (x : ℚ) : ((bern n d x : ℚ) : ℝ) = (bernsteinPolynomial ℝ n d).eval (x : ℝ) := by
  rw [bernR_eval, bern, choose_eq]
  push_cast
  ring

/-! ### trapezoid rule against the exact integral on one interval -/

/-- antiderivative of the linear function through (u, a) and (v, b) -/
noncomputable def linAnti (u v a b : ℝ) : ℝ[X] :=
  C (a / (v - u)) * (C v * X - C (1 / 2) * X ^ 2) + C (b / (v - u)) * (C (1 / 2) * X ^ 2 - C u * X)

theorem linAnti_derivative_eval (u v a b t : ℝ) :
    (derivative (linAnti u v a b)).eval t = a / (v - u) * (v - t) + b / (v - u) * (t - u) := by
  simp [linAnti, derivative_mul, derivative_sub]
  ring

theorem linAnti_diff (u v a b : ℝ) (h : u ≠ v) :
    (linAnti u v a b).eval v - (linAnti u v a b).eval u = (v - u) * (b + a) / 2 := by
  have hne : v - u ≠ 0 := sub_ne_zero.mpr (Ne.symm h)
  simp [linAnti]
  field_simp
  ring

theorem trapz_interval_err (n d : ℕ) (hd : d ≤ n) (u v f0 f1 : ℝ) (hu : 0 ≤ u) (huv : u < v) (hv : v ≤ 1) :
    |(∫ t in u..v, (bernsteinPolynomial ℝ n d).eval t * (f0 + (f1 - f0) / (v - u) * (t - u)))
        - (v - u) * ((bernsteinPolynomial ℝ n d).eval v * f1 + (bernsteinPolynomial ℝ n d).eval u * f0) / 2|
      ≤ (n.choose d : ℝ) * n * (v - u) * ((v - u) * (|f0| + |f1|)) := by
  set B : ℝ → ℝ := fun t => (bernsteinPolynomial ℝ n d).eval t with hB
  have hh : 0 < v - u := by linarith
  set Q := linAnti u v (B u * f0) (B v * f1) with hQ
  have hT : (v - u) * (B v * f1 + B u * f0) / 2 = ∫ t in u..v, (derivative Q).eval t := by
    rw [integral_derivative_poly, hQ, linAnti_diff _ _ _ _ huv.ne]
  have hcont1 : Continuous fun t => B t * (f0 + (f1 - f0) / (v - u) * (t - u)) := by
    have : Continuous B := (bernsteinPolynomial ℝ n d).continuous
    fun_prop
  have hcont2 : Continuous fun t => (derivative Q).eval t := (derivative Q).continuous
  show |(∫ t in u..v, B t * (f0 + (f1 - f0) / (v - u) * (t - u))) - (v - u) * (B v * f1 + B u * f0) / 2| ≤ _
  rw [hT, ← intervalIntegral.integral_sub (hcont1.intervalIntegrable u v) (hcont2.intervalIntegrable u v)]
  have hbound : ∀ t ∈ Set.uIoc u v, ‖B t * (f0 + (f1 - f0) / (v - u) * (t - u)) - (derivative Q).eval t‖
      ≤ (n.choose d : ℝ) * n * (v - u) * (|f0| + |f1|) := by
    intro t ht
    rw [Set.uIoc_of_le huv.le] at ht
    obtain ⟨ht1, ht2⟩ := ht
    have ht0 : 0 ≤ t := by linarith
    have ht1' : t ≤ 1 := by linarith
    rw [hQ, linAnti_derivative_eval, Real.norm_eq_abs]
    set lam := (t - u) / (v - u) with hlam
    have hl0 : 0 ≤ lam := div_nonneg (by linarith) hh.le
    have hl1 : lam ≤ 1 := by rw [hlam, div_le_one hh]; linarith
    have e : B t * (f0 + (f1 - f0) / (v - u) * (t - u)) - (B u * f0 / (v - u) * (v - t) + B v * f1 / (v - u) * (t - u))
        = (B t - B u) * f0 * (1 - lam) + (B t - B v) * f1 * lam := by
      rw [hlam]; field_simp; ring
    rw [e]
    set Lp := (n.choose d : ℝ) * n with hLp
    have hLp0 : 0 ≤ Lp := by positivity
    have hBu : |B t - B u| ≤ Lp * (v - u) := by
      refine (bernR_lip n d hd t u ht0 ht1' hu (by linarith)).trans ?_
      refine mul_le_mul_of_nonneg_left ?_ hLp0
      rw [abs_of_nonneg (by linarith)]; linarith
    have hBv : |B t - B v| ≤ Lp * (v - u) := by
      refine (bernR_lip n d hd t v ht0 ht1' (by linarith) hv).trans ?_
      refine mul_le_mul_of_nonneg_left ?_ hLp0
      rw [abs_of_nonpos (by linarith)]; linarith
    have hK0 : 0 ≤ Lp * (v - u) := mul_nonneg hLp0 hh.le
    have h1 : |(B t - B u) * f0 * (1 - lam)| ≤ Lp * (v - u) * |f0| := by
      rw [abs_mul, abs_mul, abs_of_nonneg (by linarith : 0 ≤ 1 - lam)]
      calc |B t - B u| * |f0| * (1 - lam) ≤ (Lp * (v - u)) * |f0| * 1 := by
            refine mul_le_mul (mul_le_mul_of_nonneg_right hBu (abs_nonneg _)) (by linarith) (by linarith) ?_
            exact mul_nonneg hK0 (abs_nonneg _)
        _ = _ := by ring
    have h2 : |(B t - B v) * f1 * lam| ≤ Lp * (v - u) * |f1| := by
      rw [abs_mul, abs_mul, abs_of_nonneg hl0]
      calc |B t - B v| * |f1| * lam ≤ (Lp * (v - u)) * |f1| * 1 := by
            refine mul_le_mul (mul_le_mul_of_nonneg_right hBv (abs_nonneg _)) hl1 hl0 ?_
            exact mul_nonneg hK0 (abs_nonneg _)
        _ = _ := by ring
    calc _ ≤ |(B t - B u) * f0 * (1 - lam)| + |(B t - B v) * f1 * lam| := abs_add_le _ _
      _ ≤ Lp * (v - u) * |f0| + Lp * (v - u) * |f1| := add_le_add h1 h2
      _ = _ := by ring
  have := intervalIntegral.norm_integral_le_of_norm_le_const hbound
  rw [Real.norm_eq_abs, abs_of_nonneg hh.le] at this
  refine this.trans (le_of_eq ?_)
  ring

/-! ### one interval of the model: semi-analytic term against the trapezoid term of the direct path -/

/-- **one interval, direct vs semi-analytic**: nodes 0 ≤ x_k < x_{k+1} ≤ 1.  The semi-analytic term is the exact integral of
    B·(interpolant), the direct term the trapezoid rule for the same polynomial; they differ by at most
    C(n,d)·n·h·(h(|φ_k|+|φ_{k+1}|)), h = x_{k+1} − x_k. -/
theorem direct_vs_analytic_interval (n d : ℕ) (hd : d ≤ n) (x φ : ℕ → ℚ) (k : ℕ)
    (h0 : 0 ≤ x k) (hlt : x k < x (k+1)) (h1 : x (k+1) ≤ 1) :
    |entryG n d x x φ k - (x (k+1) - x k) * (bern n d (x (k+1)) * φ (k+1) + bern n d (x k) * φ k) / 2|
      ≤ (n.choose d : ℚ) * n * (x (k+1) - x k) * ((x (k+1) - x k) * (|φ k| + |φ (k+1)|)) := by
  have hne : x (k+1) - x k ≠ 0 := by linarith
  have key := trapz_interval_err n d hd (x k : ℝ) (x (k+1) : ℝ) (φ k : ℝ) (φ (k+1) : ℝ)
    (by exact_mod_cast h0) (by exact_mod_cast hlt) (by exact_mod_cast h1)
  have hint := entryG_integral n d hd x x φ k
  have hfun : (fun t : ℝ => (bernsteinPolynomial ℝ n d).eval t
        * (((φ k - Gen.FromPhi.s (φ k) (φ (k+1)) (x k) (x (k+1)) * x k : ℚ) : ℝ)
            + ((Gen.FromPhi.s (φ k) (φ (k+1)) (x k) (x (k+1)) : ℚ) : ℝ) * t))
      = fun t : ℝ => (bernsteinPolynomial ℝ n d).eval t
        * ((φ k : ℝ) + ((φ (k+1) : ℝ) - (φ k : ℝ)) / ((x (k+1) : ℝ) - (x k : ℝ)) * (t - (x k : ℝ))) := by
    funext t
    simp only [Gen.FromPhi.s]
    push_cast
    ring
  rw [hfun] at hint
  rw [← hint, ← bern_cast, ← bern_cast] at key
  have : ((|entryG n d x x φ k - (x (k+1) - x k) * (bern n d (x (k+1)) * φ (k+1) + bern n d (x k) * φ k) / 2| : ℚ) : ℝ)
      ≤ (((n.choose d : ℚ) * n * (x (k+1) - x k) * ((x (k+1) - x k) * (|φ k| + |φ (k+1)|)) : ℚ) : ℝ) := by
    push_cast
    exact key
  exact_mod_cast this

/-! ### the clamp in d ≥ 2: slopes from the caller's grid, incomplete-beta differences from the clamped one -/

/-- **one interval, over-shooting grid**: `xs` the caller's nodes, `xc` their clamped copies with
    xs_k ≤ xc_k < xc_{k+1} ≤ xs_{k+1} inside [0,1].  The stage of the 2-D…5-D versions (slope from `xs`, betainc on `xc`) differs
    from the computation entirely on the clamped grid by at most |φ_{k+1} − φ_k| · max(xc_k − xs_k, xs_{k+1} − xc_{k+1}). -/
theorem overshoot_interval (n d : ℕ) (hd : d ≤ n) (xs xc φ : ℕ → ℚ) (k : ℕ) (δ : ℚ)
    (ha : xs k ≤ xc k) (hb : xc (k+1) ≤ xs (k+1)) (hlt : xc k < xc (k+1)) (h0 : 0 ≤ xc k) (h1 : xc (k+1) ≤ 1)
    (hδ0 : xc k - xs k ≤ δ) (hδ1 : xs (k+1) - xc (k+1) ≤ δ) :
    |entryG n d xs xc φ k - entryG n d xc xc φ k| ≤ |φ (k+1) - φ k| * δ := by
  have hδ : 0 ≤ δ := le_trans (by linarith) hδ0
  have hhs : 0 < xs (k+1) - xs k := by linarith
  have hhc : 0 < xc (k+1) - xc k := by linarith
  have i1 := entryG_integral n d hd xs xc φ k
  have i2 := entryG_integral n d hd xc xc φ k
  set B : ℝ → ℝ := fun t => (bernsteinPolynomial ℝ n d).eval t with hB
  set u : ℝ := (xc k : ℝ) with hu
  set v : ℝ := (xc (k+1) : ℝ) with hv
  have huv : u < v := by rw [hu, hv]; exact_mod_cast hlt
  have hu0 : 0 ≤ u := by rw [hu]; exact_mod_cast h0
  have hv1 : v ≤ 1 := by rw [hv]; exact_mod_cast h1
  set Δ : ℝ := (φ (k+1) : ℝ) - (φ k : ℝ) with hΔ
  set Hs : ℝ := (xs (k+1) : ℝ) - (xs k : ℝ) with hHs
  have hHs0 : 0 < Hs := by rw [hHs]; exact_mod_cast hhs
  have hHc0 : 0 < v - u := by linarith
  have hHcs : v - u ≤ Hs := by
    have : xc (k+1) - xc k ≤ xs (k+1) - xs k := by linarith
    rw [hHs, hu, hv]; exact_mod_cast this
  have hd0 : (0 : ℝ) ≤ u - (xs k : ℝ) := by
    have : (0 : ℚ) ≤ xc k - xs k := by linarith
    rw [hu]; exact_mod_cast this
  have hd1 : (0 : ℝ) ≤ (xs (k+1) : ℝ) - v := by
    have : (0 : ℚ) ≤ xs (k+1) - xc (k+1) := by linarith
    rw [hv]; exact_mod_cast this
  have hd0' : u - (xs k : ℝ) ≤ (δ : ℝ) := by rw [hu]; exact_mod_cast hδ0
  have hd1' : (xs (k+1) : ℝ) - v ≤ (δ : ℝ) := by rw [hv]; exact_mod_cast hδ1
  have hδR : (0 : ℝ) ≤ (δ : ℝ) := by exact_mod_cast hδ
  -- the two integrands
  have hc1 : Continuous fun t : ℝ => B t * (((φ k - Gen.FromPhi.s (φ k) (φ (k+1)) (xs k) (xs (k+1)) * xs k : ℚ) : ℝ)
      + ((Gen.FromPhi.s (φ k) (φ (k+1)) (xs k) (xs (k+1)) : ℚ) : ℝ) * t) := by
    have : Continuous B := (bernsteinPolynomial ℝ n d).continuous
    fun_prop
  have hc2 : Continuous fun t : ℝ => B t * (((φ k - Gen.FromPhi.s (φ k) (φ (k+1)) (xc k) (xc (k+1)) * xc k : ℚ) : ℝ)
      + ((Gen.FromPhi.s (φ k) (φ (k+1)) (xc k) (xc (k+1)) : ℚ) : ℝ) * t) := by
    have : Continuous B := (bernsteinPolynomial ℝ n d).continuous
    fun_prop
  have hsub : ((entryG n d xs xc φ k - entryG n d xc xc φ k : ℚ) : ℝ)
      = ∫ t in u..v, (B t * (((φ k - Gen.FromPhi.s (φ k) (φ (k+1)) (xs k) (xs (k+1)) * xs k : ℚ) : ℝ)
            + ((Gen.FromPhi.s (φ k) (φ (k+1)) (xs k) (xs (k+1)) : ℚ) : ℝ) * t)
          - B t * (((φ k - Gen.FromPhi.s (φ k) (φ (k+1)) (xc k) (xc (k+1)) * xc k : ℚ) : ℝ)
            + ((Gen.FromPhi.s (φ k) (φ (k+1)) (xc k) (xc (k+1)) : ℚ) : ℝ) * t)) := by
    rw [intervalIntegral.integral_sub (hc1.intervalIntegrable u v) (hc2.intervalIntegrable u v), Rat.cast_sub, i1, i2]
  have hbound : ∀ t ∈ Set.uIoc u v,
      ‖B t * (((φ k - Gen.FromPhi.s (φ k) (φ (k+1)) (xs k) (xs (k+1)) * xs k : ℚ) : ℝ)
            + ((Gen.FromPhi.s (φ k) (φ (k+1)) (xs k) (xs (k+1)) : ℚ) : ℝ) * t)
          - B t * (((φ k - Gen.FromPhi.s (φ k) (φ (k+1)) (xc k) (xc (k+1)) * xc k : ℚ) : ℝ)
            + ((Gen.FromPhi.s (φ k) (φ (k+1)) (xc k) (xc (k+1)) : ℚ) : ℝ) * t)‖ ≤ |Δ| / Hs * (δ : ℝ) := by
    intro t ht
    rw [Set.uIoc_of_le huv.le] at ht
    obtain ⟨ht1, ht2⟩ := ht
    have hB0 : 0 ≤ B t := bernR_nonneg n d t (by linarith) (by linarith)
    have hB1 : B t ≤ 1 := bernR_le_one n d t (by linarith) (by linarith)
    set lam := (t - u) / (v - u) with hlam
    have hl0 : 0 ≤ lam := div_nonneg (by linarith) hHc0.le
    have hl1 : lam ≤ 1 := by rw [hlam, div_le_one hHc0]; linarith
    have e : B t * (((φ k - Gen.FromPhi.s (φ k) (φ (k+1)) (xs k) (xs (k+1)) * xs k : ℚ) : ℝ)
            + ((Gen.FromPhi.s (φ k) (φ (k+1)) (xs k) (xs (k+1)) : ℚ) : ℝ) * t)
          - B t * (((φ k - Gen.FromPhi.s (φ k) (φ (k+1)) (xc k) (xc (k+1)) * xc k : ℚ) : ℝ)
            + ((Gen.FromPhi.s (φ k) (φ (k+1)) (xc k) (xc (k+1)) : ℚ) : ℝ) * t)
        = B t * (Δ / Hs * ((1 - lam) * (u - (xs k : ℝ)) - lam * ((xs (k+1) : ℝ) - v))) := by
      simp only [Gen.FromPhi.s]
      push_cast
      rw [hlam, hΔ, hHs, hu, hv]
      have e1 : ((xs (k+1) : ℝ) - (xs k : ℝ)) ≠ 0 := by rw [← hHs]; exact hHs0.ne'
      have e2 : ((xc (k+1) : ℝ) - (xc k : ℝ)) ≠ 0 := by rw [← hu, ← hv]; exact hHc0.ne'
      field_simp
      ring
    rw [e, Real.norm_eq_abs, abs_mul, abs_of_nonneg hB0, abs_mul, abs_div, abs_of_pos hHs0]
    have hmid : |(1 - lam) * (u - (xs k : ℝ)) - lam * ((xs (k+1) : ℝ) - v)| ≤ (δ : ℝ) := by
      rw [abs_le]
      constructor
      · nlinarith [mul_nonneg hl0 hd1, mul_nonneg (by linarith : 0 ≤ 1 - lam) hd0, mul_le_mul_of_nonneg_left hd1' hl0]
      · nlinarith [mul_nonneg hl0 hd1, mul_nonneg (by linarith : 0 ≤ 1 - lam) hd0,
          mul_le_mul_of_nonneg_left hd0' (by linarith : 0 ≤ 1 - lam)]
    have hq : 0 ≤ |Δ| / Hs := div_nonneg (abs_nonneg _) hHs0.le
    calc B t * (|Δ| / Hs * |(1 - lam) * (u - (xs k : ℝ)) - lam * ((xs (k+1) : ℝ) - v)|)
        ≤ 1 * (|Δ| / Hs * (δ : ℝ)) :=
          mul_le_mul hB1 (mul_le_mul_of_nonneg_left hmid hq) (mul_nonneg hq (abs_nonneg _)) zero_le_one
      _ = _ := one_mul _
  have hI := intervalIntegral.norm_integral_le_of_norm_le_const hbound
  rw [← hsub, Real.norm_eq_abs, abs_of_nonneg hHc0.le] at hI
  have hfin : |Δ| / Hs * (δ : ℝ) * (v - u) ≤ |Δ| * (δ : ℝ) := by
    have : |Δ| / Hs * (v - u) ≤ |Δ| := by
      rw [div_mul_eq_mul_div, div_le_iff₀ hHs0]
      exact mul_le_mul_of_nonneg_left hHcs (abs_nonneg _)
    calc |Δ| / Hs * (δ : ℝ) * (v - u) = (|Δ| / Hs * (v - u)) * (δ : ℝ) := by ring
      _ ≤ |Δ| * (δ : ℝ) := mul_le_mul_of_nonneg_right this hδR
  have hR := hI.trans hfin
  have : ((|entryG n d xs xc φ k - entryG n d xc xc φ k| : ℚ) : ℝ) ≤ ((|φ (k+1) - φ k| * δ : ℚ) : ℝ) := by
    push_cast
    rw [hΔ] at hR
    push_cast at hR
    exact hR
  exact_mod_cast this

end DadiVerif.FromPhi
