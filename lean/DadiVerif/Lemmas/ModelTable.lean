import DadiVerif.Generated.Models
import DadiVerif.Model.ModelPairs
/-!
# C15 — the finite checks over the generated model table (`decide +kernel` over complete tables)
Each statement evaluates a decision procedure of Model/ModelDSL.lean on `Gen.Models.table` / `Gen.Models.sigs` (regenerated
from the source on every run) in the kernel.  Props/C15.lean turns them into semantic statements.
-/
namespace DadiVerif.ModelDSL.TableFacts
open DadiVerif DadiVerif.ModelDSL Gen.Models

set_option maxRecDepth 100000

theorem table_wellFormed : table.all (wellFormed table sigs) = true := by decide +kernel
theorem ms_wellFormed : msTable.all msWellFormed = true := by decide +kernel
theorem table_names_unique : table.all (fun m => findModel table m.name == some m) = true := by decide +kernel
theorem sigs_names_unique : sigs.all (fun s => findSig sigs s.fn == some s) = true := by decide +kernel
theorem integrators_eq : integrators sigs =
    [nm! "Integration.one_pop", nm! "Integration.two_pops", nm! "Integration.three_pops", nm! "Integration.four_pops",
     nm! "Integration.five_pops"] := by decide +kernel

theorem nest_zeroMigration : Pairs.zeroMigration.all (fun p => nestOK table sigs p.a p.b p.args) = true := by decide +kernel
theorem nest_zeroEpoch : Pairs.zeroEpoch.all (fun p => nestOK table sigs p.a p.b p.args) = true := by decide +kernel
theorem nest_equalRates : Pairs.equalRates.all (fun p => nestOK table sigs p.a p.b p.args) = true := by decide +kernel
theorem nest_zeroSelection : Pairs.zeroSelection.all (fun p => nestOK table sigs p.a p.b p.args) = true := by decide +kernel
theorem nest_equalSelection : Pairs.equalSelection.all (fun p => nestOK table sigs p.a p.b p.args) = true := by decide +kernel
theorem nest_composite : Pairs.composite.all (fun p => nestOK table sigs p.a p.b p.args) = true := by decide +kernel
theorem swap_symmetric : Pairs.symmetric.all (fun p => swapOK table sigs swapRules12 p.name p.args) = true := by
  decide +kernel

end DadiVerif.ModelDSL.TableFacts
