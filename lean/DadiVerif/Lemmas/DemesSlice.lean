import DadiVerif.Lemmas.DemesConv
/-! C16 (round 4) — `DemesUtil.slice`: the translated loop of `_shift_deme_time` computes the specification `sliceSpec`; importing the
    sliced epoch on an interval is importing the original epoch on the interval moved back by the slice time (constant, linear and
    exponential size functions); slicing commutes with a change of units. -/
namespace DadiVerif.DemesConv
open Gen.Demes

theorem shiftEpochs_eq_sliceSpec (t : ℚ) (st : ETime) (eps : List InEpoch) :
    shiftEpochs t st eps = sliceSpec t st eps := by
  unfold shiftEpochs
  induction eps generalizing st with
  | nil => rfl
  | cons e rest ih =>
    unfold loopBreak sliceSpec
    by_cases h : e.et ≤ t
    · have h0 : ratMax 0 (e.et - t) = 0 := by
        unfold ratMax; split_ifs with h1
        · linarith
        · rfl
      simp [shiftStep, h0, h]
    · have h1 : ratMax 0 (e.et - t) = e.et - t := by
        unfold ratMax; split_ifs with h2
        · rfl
        · linarith
      have h2 : ¬ (e.et - t = 0) := by intro h3; apply h; linarith
      simp [shiftStep, h1, h, h2, ih]

/-- **Importing a sliced epoch.**  An epoch `(fn, ss, es)` living on `(s, et)` is cut at `t` (`et < t < s`): the sliced graph holds the
    epoch `(fn, ss, es')` on `(s - t, 0)` with `es'` the value `_size_at` computes.  For every interval `(x, y)` of the sliced graph
    (`y ≥ 0`) `_sizes_at_time` finds on it the sizes it finds for the original epoch on `(x + t, y + t)`.  `exp`, `log` arbitrary with
    `log (exp z) = z`. -/
theorem sizesAt_sliced (ex lg : ℚ → ℚ) (pw : ℚ → ℚ → ℚ) (hlog : ∀ z, lg (ex z) = z) (fn : SizeFn) (t ss es s et es' : ℚ)
    (hss : ss ≠ 0) (h1 : s - et ≠ 0) (h2 : s - t ≠ 0) (hcut : et < t)
    (hes : (sliceSizeAt fn t ss es (some s) et).map (Sym.eval ex lg pw) = some es')
    (x y : ℚ) (hy0 : 0 ≤ y) :
    (sizesAt fn ss es' (some (s - t)) (some 0) (s - t - 0) (some x) (some y)).map (evalPair ex lg pw)
      = (sizesAt fn ss es (some s) (some et) (s - et) (some (x + t)) (some (y + t))).map (evalPair ex lg pw) := by
  have hety : ¬ et = y + t := by intro h; linarith
  have hett : ¬ et = t := by intro h; linarith
  cases fn with
  | other => simp [sizesAt]
  | constant =>
    have hes' : es' = ss := by
      simp [sliceSizeAt, Sym.eval] at hes
      exact hes.symm
    subst hes'
    by_cases hx : x = s - t <;> by_cases hy : y = 0
    · subst hx; subst hy; simp [sizesAt, teq, evalPair, Sym.eval, hett]
    · subst hx; simp [sizesAt, teq, evalPair, Sym.eval, hety, hy, Ne.symm hy]
    · subst hy
      have hx1 : ¬ s - t = x := fun h => hx h.symm
      have hx2 : ¬ s = x + t := fun h => hx (by linarith)
      simp [sizesAt, teq, evalPair, Sym.eval, hett, hx1, hx2]
    · have hx1 : ¬ s - t = x := fun h => hx h.symm
      have hx2 : ¬ s = x + t := fun h => hx (by linarith)
      simp [sizesAt, teq, evalPair, Sym.eval, hety, hx1, hx2, Ne.symm hy]
  | linear =>
    have hes' : es' = ss + (s - t) / (s - et) * (es - ss) := by
      simp [sliceSizeAt, Sym.eval, tval] at hes
      linarith [hes]
    subst hes'
    have e1 : ∀ u : ℚ, (s - t - u) / (s - t) * ((s - t) / (s - et) * (es - ss)) = (s - (u + t)) / (s - et) * (es - ss) := by
      intro u; field_simp; ring
    by_cases hx : x = s - t <;> by_cases hy : y = 0
    · subst hx; subst hy; simp [sizesAt, teq, evalPair, Sym.eval, tval, hett]
    · subst hx; simp [sizesAt, teq, evalPair, Sym.eval, tval, hety, Ne.symm hy, e1]
    · subst hy
      have hx1 : ¬ s - t = x := fun h => hx h.symm
      have hx2 : ¬ s = x + t := fun h => hx (by linarith)
      simp [sizesAt, teq, evalPair, Sym.eval, tval, hett, hx1, hx2, e1]
    · have hx1 : ¬ s - t = x := fun h => hx h.symm
      have hx2 : ¬ s = x + t := fun h => hx (by linarith)
      simp [sizesAt, teq, evalPair, Sym.eval, tval, hety, hx1, hx2, Ne.symm hy, e1]
  | exponential =>
    have hes' : es' = ss * ex (lg (es / ss) * (s - t) / (s - et)) := by
      simp [sliceSizeAt, Sym.eval, tval] at hes
      linarith [hes]
    have hratio : es' / ss = ex (lg (es / ss) * (s - t) / (s - et)) := by
      rw [hes']; field_simp
    have hkey : ∀ u : ℚ, lg (es' / ss) * (s - t - u) / (s - t) = lg (es / ss) * (s - (u + t)) / (s - et) := by
      intro u
      rw [hratio, hlog]
      field_simp
      ring
    have hes2 := hes'.symm
    by_cases hx : x = s - t <;> by_cases hy : y = 0
    · subst hx; subst hy; simp [sizesAt, teq, evalPair, Sym.eval, tval, hett, hes2]
    · subst hx; simp [sizesAt, teq, evalPair, Sym.eval, tval, hety, Ne.symm hy, hkey]
    · subst hy
      have hx1 : ¬ s - t = x := fun h => hx h.symm
      have hx2 : ¬ s = x + t := fun h => hx (by linarith)
      simp [sizesAt, teq, evalPair, Sym.eval, tval, hett, hx1, hx2, hkey, hes2]
    · have hx1 : ¬ s - t = x := fun h => hx h.symm
      have hx2 : ¬ s = x + t := fun h => hx (by linarith)
      simp [sizesAt, teq, evalPair, Sym.eval, tval, hety, hx1, hx2, Ne.symm hy, hkey]

end DadiVerif.DemesConv
