import DadiVerif.Lemmas.DemesConv
/-! C16 (round 4) — which proportion reaches which parameter of the constructor / pulse function: `_make_sorted_proportions_list`
    read through the generated tables `admixNewRows`, `pulseRows`, for every arity and every order of the graph's ancestors. -/
namespace DadiVerif.DemesConv
open Gen.Demes

theorem axisProp_cons (s : ℕ) (p : ℚ) (src : List ℕ) (props : List ℚ) (j : ℕ) :
    axisProp (s :: src) (p :: props) j = if s = j then p else axisProp src props j := by
  unfold axisProp
  simp only [List.zip_cons_cons, List.find?_cons]
  by_cases h : s = j
  · simp [h]
  · have : (s == j) = false := by simpa using h
    simp [this, h]

theorem axisProp_not_mem (src : List ℕ) (props : List ℚ) (k : ℕ) (hk : k ∉ src) : axisProp src props k = 0 := by
  induction src generalizing props with
  | nil => simp [axisProp]
  | cons s rest ih =>
    cases props with
    | nil => simp [axisProp]
    | cons p ps =>
      rw [axisProp_cons]
      have h1 : s ≠ k := fun h => hk (h ▸ List.mem_cons_self)
      rw [if_neg h1]
      exact ih ps (fun h => hk (List.mem_cons_of_mem _ h))

theorem axisProp_getElem (src : List ℕ) (props : List ℚ) (hnd : src.Nodup) (hlen : src.length = props.length) (i : ℕ)
    (hi : i < src.length) : axisProp src props (src[i]) = props[i]'(hlen ▸ hi) := by
  induction src generalizing props i with
  | nil => cases hi
  | cons s rest ih =>
    cases props with
    | nil => simp at hlen
    | cons p ps =>
      rw [axisProp_cons]
      cases i with
      | zero => simp
      | succ j =>
        have hj : j < rest.length := by simpa using hi
        have hne : s ≠ rest[j] := by
          intro h
          have := (List.nodup_cons.1 hnd).1
          exact this (h ▸ List.getElem_mem hj)
        simp only [List.getElem_cons_succ, if_neg hne]
        exact ih ps (List.nodup_cons.1 hnd).2 (by simpa using hlen) j hj

/-- the list `_make_sorted_proportions_list` builds (before the destination is removed) holds, at every axis, the proportion of the
    ancestor that sits on that axis -/
theorem placeProps_getD (n : ℕ) (src : List ℕ) (props : List ℚ) (hnd : src.Nodup) (hlen : src.length = props.length)
    (hlt : ∀ s ∈ src, s < n) (k : ℕ) : (placeProps n src props).getD k 0 = axisProp src props k := by
  obtain ⟨_, h1, h2⟩ := placeProps_spec n src props hnd hlen hlt
  by_cases hk : k ∈ src
  · obtain ⟨i, hi, rfl⟩ := List.getElem_of_mem hk
    rw [h1 i hi, axisProp_getElem src props hnd hlen i hi]
  · rw [h2 k hk, axisProp_not_mem src props k hk]

theorem sum_ite_range (f : ℕ → ℚ) (s : ℕ) (p : ℚ) (n : ℕ) :
    ((List.range n).map fun j => if s = j then p else f j).sum
      = if s < n then ((List.range n).map f).sum - f s + p else ((List.range n).map f).sum := by
  induction n with
  | zero => simp
  | succ m ih =>
    rw [List.range_succ, List.map_append, List.sum_append, List.map_append, List.sum_append, ih]
    simp only [List.map_cons, List.map_nil, List.sum_cons, List.sum_nil, add_zero]
    by_cases h1 : s < m
    · have h2 : s < m + 1 := by omega
      have h3 : s ≠ m := by omega
      simp only [h1, h2, if_true, if_neg h3]
      ring
    · by_cases h4 : s = m
      · subst h4
        simp only [lt_irrefl, if_false, Nat.lt_succ_self, if_true]
        ring
      · have h2 : ¬ s < m + 1 := by omega
        simp only [h1, h2, if_false, if_neg h4]

theorem sum_axisProp (n : ℕ) (src : List ℕ) (props : List ℚ) (hnd : src.Nodup) (hlen : src.length = props.length)
    (hlt : ∀ s ∈ src, s < n) : ((List.range n).map (axisProp src props)).sum = props.sum := by
  induction src generalizing props with
  | nil =>
    cases props with
    | nil =>
      have : axisProp [] [] = fun _ => (0 : ℚ) := by funext j; rfl
      rw [this]
      simp
    | cons p ps => simp at hlen
  | cons s rest ih =>
    cases props with
    | nil => simp at hlen
    | cons p ps =>
      have hfun : axisProp (s :: rest) (p :: ps) = fun j => if s = j then p else axisProp rest ps j := funext (axisProp_cons s p rest ps)
      rw [hfun, sum_ite_range, if_pos (hlt s List.mem_cons_self),
        ih ps (List.nodup_cons.1 hnd).2 (by simpa using hlen) (fun x hx => hlt x (List.mem_cons_of_mem _ hx)),
        axisProp_not_mem rest ps s (List.nodup_cons.1 hnd).1]
      simp [add_comm]

/-- a row that passes the sorted list in order hands axis `k`'s proportion to the k-th proportion parameter -/
theorem admixArgs_sorted (r : AdmixNewRow) (hs : r.sorted = true) (hsl : r.slots = List.range (r.npop - 1))
    (src : List ℕ) (props : List ℚ) (hnd : src.Nodup) (hlen : src.length = props.length) (hlt : ∀ s ∈ src, s < r.npop) :
    admixArgs r src props = (List.range (r.npop - 1)).map (axisProp src props) := by
  unfold admixArgs
  rw [hsl, hs]
  apply List.map_congr_left
  intro k _
  simp only [if_true, sortedProps]
  exact placeProps_getD r.npop src props hnd hlen hlt k

theorem fullProps_axis (n : ℕ) (hn : 1 ≤ n) (src : List ℕ) (props : List ℚ) (hnd : src.Nodup) (hlen : src.length = props.length)
    (hlt : ∀ s ∈ src, s < n) (hsum : props.sum = 1) :
    fullProps ((List.range (n - 1)).map (axisProp src props)) = (List.range n).map (axisProp src props) := by
  obtain ⟨m, rfl⟩ : ∃ m, n = m + 1 := ⟨n - 1, by omega⟩
  have h := sum_axisProp (m + 1) src props hnd hlen hlt
  rw [List.range_succ, List.map_append, List.sum_append] at h
  simp only [List.map_cons, List.map_nil, List.sum_cons, List.sum_nil, add_zero] at h
  unfold fullProps
  simp only [Nat.add_sub_cancel]
  rw [List.range_succ, List.map_append]
  congr 1
  simp only [List.map_cons, List.map_nil, List.cons.injEq, and_true]
  rw [hsum] at h
  linarith

theorem pulseArgs_sorted (r : PulseRow) (hs : r.sorted = true) (hsl : r.slots = List.range (r.npop - 1))
    (src : List ℕ) (props : List ℚ) (hnd : src.Nodup) (hlen : src.length = props.length) (hlt : ∀ s ∈ src, s < r.npop) :
    pulseArgs r src props = (List.range (r.npop - 1)).map (fun k => axisProp src props (if k < r.dest then k else k + 1)) := by
  unfold pulseArgs
  rw [hsl, hs]
  apply List.map_congr_left
  intro k _
  simp only [if_true, sortedProps, eraseIdx_getD]
  split_ifs <;> exact placeProps_getD r.npop src props hnd hlen hlt _

/-- two populations: the only possible source is the other population, so the raw list is the sorted one -/
theorem pulseArgs_two (r : PulseRow) (hn : r.npop = 2) (hd : r.dest < 2) (hsl : r.slots = [0])
    (src : List ℕ) (props : List ℚ) (hnd : src.Nodup) (hlen : src.length = props.length) (hlt : ∀ s ∈ src, s < r.npop ∧ s ≠ r.dest) :
    pulseArgs r src props = (List.range (r.npop - 1)).map (fun k => axisProp src props (if k < r.dest then k else k + 1)) := by
  by_cases hs : r.sorted = true
  · exact pulseArgs_sorted r hs (by rw [hsl, hn]; rfl) src props hnd hlen (fun s h => (hlt s h).1)
  · have hs' : r.sorted = false := by simpa using hs
    unfold pulseArgs
    rw [hsl, hs', hn]
    simp only [Bool.false_eq_true, if_false, List.map_cons, List.map_nil]
    have hrange : List.range (2 - 1) = [0] := rfl
    rw [hrange]
    simp only [List.map_cons, List.map_nil, List.cons.injEq, and_true]
    -- the other population
    set o := (if 0 < r.dest then 0 else 0 + 1) with ho
    have hmem : ∀ s ∈ src, s = o := by
      intro s h
      have := hlt s h
      rw [hn] at this
      rw [ho]
      split_ifs <;> omega
    cases src with
    | nil =>
      cases props with
      | nil => simp [axisProp]
      | cons p ps => simp at hlen
    | cons s rest =>
      cases props with
      | nil => simp at hlen
      | cons p ps =>
        have h1 : s = o := hmem s List.mem_cons_self
        rw [axisProp_cons, if_pos h1]
        simp

end DadiVerif.DemesConv
