import DadiVerif.Lemmas.ModelUnits
import Mathlib.Tactic.Ring
import Mathlib.Tactic.Positivity
import Mathlib.Algebra.Order.Field.Power
/-!
# C15 (units): the rescaling interpretation over ℚ satisfies the hypotheses of the homogeneity theorems

Scalars are rationals with the usual arithmetic.  For positive factors `cS cT cR cG cθ` (one per base family) the map
`sc u x = cS^u.size · cT^u.time · cR^u.rate · cG^u.sel · cθ^u.theta · x` is a `UnitAction`.  The rescaling of property C03 —
sizes and times `× c`, migration rates, selection coefficients and θ0 `÷ c` — is the case `(c, c, c⁻¹, c⁻¹, c⁻¹)`, for which
`sc u x = c ^ deg u · x` (`pw_c03`).
-/
namespace DadiVerif.ModelDSL

/-- rationals with the usual arithmetic; `**`, `exp`, `log` are arbitrary functions (they only meet dimensionless
    operands); primitives supplied by the caller -/
@[reducible] def ratInterp (Φ Out : Type) (start : Name → List (Name × Val ℚ) → Option Φ)
    (step : Name → Φ → List (Name × Val ℚ) → Option Φ) (finish : Name → Φ → List (Name × Val ℚ) → Option Out)
    (pow : ℚ → ℚ → ℚ) (call1 : Name → ℚ → ℚ) : Interp where
  S := ℚ
  Φ := Φ
  Out := Out
  lit a b := (a : ℚ) / (b : ℚ)
  sym _ := 0
  neg x := -x
  add x y := x + y
  sub x y := x - y
  mul x y := x * y
  div x y := x / y
  pow := pow
  call1 := call1
  cmp op x y :=
    if op = nm! ">=" then decide (x ≥ y) else if op = nm! ">" then decide (x > y)
    else if op = nm! "<=" then decide (x ≤ y) else if op = nm! "<" then decide (x < y)
    else if op = nm! "!=" then decide (x ≠ y) else decide (x = y)
  start := start
  step := step
  finish := finish

structure Factors where
  cS : ℚ
  cT : ℚ
  cR : ℚ
  cG : ℚ
  cθ : ℚ
  hS : 0 < cS
  hT : 0 < cT
  hR : 0 < cR
  hG : 0 < cG
  hθ : 0 < cθ

/-- the factor a quantity of unit `u` is multiplied by -/
def pw (c : Factors) (u : U) : ℚ := c.cS ^ u.size * c.cT ^ u.time * c.cR ^ u.rate * c.cG ^ u.sel * c.cθ ^ u.theta

theorem pw_pos (c : Factors) (u : U) : 0 < pw c u := by
  have := c.hS; have := c.hT; have := c.hR; have := c.hG; have := c.hθ
  unfold pw; positivity

theorem pw_one (c : Factors) : pw c U.one = 1 := by simp [pw, U.one]

theorem pw_mul (c : Factors) (a b : U) : pw c (a.mul b) = pw c a * pw c b := by
  simp only [pw, U.mul, zpow_add₀ c.hS.ne', zpow_add₀ c.hT.ne', zpow_add₀ c.hR.ne', zpow_add₀ c.hG.ne', zpow_add₀ c.hθ.ne']
  ring

theorem pw_div (c : Factors) (a b : U) : pw c (a.div b) = pw c a / pw c b := by
  have h : a = (a.div b).mul b := (U.div_mul_cancel a b).symm
  have hb := (pw_pos c b).ne'
  rw [eq_div_iff hb, ← pw_mul, ← h]

/-- the C03 rescaling: `(c, c, 1/c, 1/c, 1/c)` -/
def c03 (c : ℚ) (hc : 0 < c) : Factors :=
  ⟨c, c, c⁻¹, c⁻¹, c⁻¹, hc, hc, inv_pos.mpr hc, inv_pos.mpr hc, inv_pos.mpr hc⟩

theorem pw_c03 (c : ℚ) (hc : 0 < c) (u : U) : pw (c03 c hc) u = c ^ u.deg := by
  simp only [pw, c03, U.deg, inv_zpow', ← zpow_add₀ hc.ne']
  congr 1

/-- **the rescaling interpretation is a unit action** -/
def ratAction (Φ Out : Type) (start step finish pow call1) (c : Factors) :
    UnitAction (ratInterp Φ Out start step finish pow call1) where
  sc u x := pw c u * x
  sc_one x := by show pw c U.one * x = x; rw [pw_one, one_mul]
  sc_mul a b x y := by show (pw c a * x) * (pw c b * y) = pw c (a.mul b) * (x * y); rw [pw_mul]; ring
  sc_div a b x y := by
    show (pw c a * x) / (pw c b * y) = pw c (a.div b) * (x / y)
    rw [pw_div, div_mul_div_comm]
  sc_add a x y := by show pw c a * x + pw c a * y = pw c a * (x + y); ring
  sc_sub a x y := by show pw c a * x - pw c a * y = pw c a * (x - y); ring
  sc_neg a x := by show -(pw c a * x) = pw c a * (-x); ring
  sc_zero a d := by show pw c a * (((0 : ℕ) : ℚ) / (d : ℚ)) = ((0 : ℕ) : ℚ) / (d : ℚ); simp
  sc_cmp op a x y := by
    have hp := pw_pos c a
    show (if op = nm! ">=" then decide (pw c a * x ≥ pw c a * y) else if op = nm! ">" then decide (pw c a * x > pw c a * y)
          else if op = nm! "<=" then decide (pw c a * x ≤ pw c a * y) else if op = nm! "<" then decide (pw c a * x < pw c a * y)
          else if op = nm! "!=" then decide (pw c a * x ≠ pw c a * y) else decide (pw c a * x = pw c a * y))
        = (if op = nm! ">=" then decide (x ≥ y) else if op = nm! ">" then decide (x > y)
          else if op = nm! "<=" then decide (x ≤ y) else if op = nm! "<" then decide (x < y)
          else if op = nm! "!=" then decide (x ≠ y) else decide (x = y))
    simp only [ge_iff_le, gt_iff_lt, mul_le_mul_iff_right₀ hp, mul_lt_mul_iff_right₀ hp, ne_eq, mul_right_inj' hp.ne']

end DadiVerif.ModelDSL
