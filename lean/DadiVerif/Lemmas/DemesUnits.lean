import DadiVerif.Lemmas.DemesGraph
import DadiVerif.Lemmas.DemesAugment
/-! C16 (round 4) — `DemesUtil.slice` and `_augment_with_ancient_samples` commute with a change of units (times × a, sizes × b, rates / b):
    slicing / augmenting the graph written in other units at the correspondingly scaled times gives the sliced / augmented graph written
    in those units.  Sizes of cut exponential epochs are terms with `exp` / `log`: equality is stated after evaluation, for arbitrary
    `exp`, `log`. -/
namespace DadiVerif.DemesConv
open Gen.Demes

/-- an epoch of a sliced graph with its end size evaluated -/
structure EvEpoch where
  fn : SizeFn
  ss : ℚ
  es : Option ℚ
  et : ℚ
deriving DecidableEq

def OutEpoch.ev (ex lg : ℚ → ℚ) (pw : ℚ → ℚ → ℚ) (o : OutEpoch) : EvEpoch :=
  { fn := o.fn, ss := o.ss, es := o.es.map (Sym.eval ex lg pw), et := o.et }

def EvEpoch.rescale (a b : ℚ) (e : EvEpoch) : EvEpoch := { fn := e.fn, ss := b * e.ss, es := e.es.map (b * ·), et := a * e.et }

/-- a deme of a sliced graph, sizes evaluated -/
def GDeme.ev (ex lg : ℚ → ℚ) (pw : ℚ → ℚ → ℚ) (d : GDeme OutEpoch) : GDeme EvEpoch :=
  { name := d.name, start := d.start, ancestors := d.ancestors, proportions := d.proportions, epochs := d.epochs.map (OutEpoch.ev ex lg pw) }

def GDeme.rescaleEv (a b : ℚ) (d : GDeme EvEpoch) : GDeme EvEpoch :=
  { name := d.name, start := tscale a d.start, ancestors := d.ancestors, proportions := d.proportions, epochs := d.epochs.map (EvEpoch.rescale a b) }

theorem ratMax_scale {a : ℚ} (ha : 0 < a) (x : ℚ) : ratMax 0 (a * x) = a * ratMax 0 x := by
  unfold ratMax
  by_cases h : 0 ≤ x
  · have : 0 ≤ a * x := mul_nonneg (le_of_lt ha) h
    simp [h, this]
  · have h' : x < 0 := not_le.1 h
    have : ¬ 0 ≤ a * x := not_le.2 (mul_neg_of_pos_of_neg ha h')
    simp [h, this]

theorem sliceSizeAt_rescale (ex lg : ℚ → ℚ) (pw : ℚ → ℚ → ℚ) {a b : ℚ} (ha : a ≠ 0) (hb : b ≠ 0) (fn : SizeFn) (t ss es : ℚ)
    (st : ETime) (et : ℚ) :
    (sliceSizeAt fn (a * t) (b * ss) (b * es) (tscale a st) (a * et)).map (Sym.eval ex lg pw)
      = ((sliceSizeAt fn t ss es st et).map (Sym.eval ex lg pw)).map (b * ·) := by
  have h1 : b * es / (b * ss) = es / ss := mul_div_mul_left _ _ hb
  have h2 : ∀ x y z : ℚ, (a * x - a * y) / (a * x - a * z) = (x - y) / (x - z) := by
    intro x y z
    rw [← mul_sub, ← mul_sub, mul_div_mul_left _ _ ha]
  have h3 : ∀ w x y z : ℚ, w * (a * x - a * y) / (a * x - a * z) = w * (x - y) / (x - z) := by
    intro w x y z
    rw [mul_div_assoc, h2, ← mul_div_assoc]
  cases fn <;> simp [sliceSizeAt, Sym.eval, tval_tscale, h1, h2, h3] <;> ring

theorem shiftStep_rescale (ex lg : ℚ → ℚ) (pw : ℚ → ℚ → ℚ) {a b : ℚ} (ha : 0 < a) (hb : b ≠ 0) (t : ℚ) (st : ETime) (e : InEpoch) :
    (shiftStep (a * t) (tscale a st) (e.rescale a b)).1.ev ex lg pw = ((shiftStep t st e).1.ev ex lg pw).rescale a b
    ∧ (shiftStep (a * t) (tscale a st) (e.rescale a b)).2.1 = tscale a (shiftStep t st e).2.1
    ∧ (shiftStep (a * t) (tscale a st) (e.rescale a b)).2.2 = (shiftStep t st e).2.2 := by
  have hm : ratMax 0 (a * e.et - a * t) = a * ratMax 0 (e.et - t) := by rw [← mul_sub]; exact ratMax_scale ha _
  have hz : (a * ratMax 0 (e.et - t) == 0) = (ratMax 0 (e.et - t) == 0) := by
    by_cases h : ratMax 0 (e.et - t) = 0
    · simp [h]
    · have : ¬ a * ratMax 0 (e.et - t) = 0 := mul_ne_zero (ne_of_gt ha) h
      simp [h, this]
  have hs := sliceSizeAt_rescale ex lg pw (ne_of_gt ha) hb e.fn t e.ss e.es st e.et
  unfold shiftStep
  simp only [InEpoch.rescale, hm, hz]
  split_ifs
  · refine ⟨?_, rfl, rfl⟩
    simp only [OutEpoch.ev, EvEpoch.rescale, hs]
  · refine ⟨?_, rfl, rfl⟩
    simp [OutEpoch.ev, EvEpoch.rescale, Sym.eval]

theorem shiftEpochs_rescale (ex lg : ℚ → ℚ) (pw : ℚ → ℚ → ℚ) {a b : ℚ} (ha : 0 < a) (hb : b ≠ 0) (t : ℚ) (st : ETime) (eps : List InEpoch) :
    (loopBreak (shiftStep (a * t)) (tscale a st) (eps.map (InEpoch.rescale a b))).map (OutEpoch.ev ex lg pw)
      = ((loopBreak (shiftStep t) st eps).map (OutEpoch.ev ex lg pw)).map (EvEpoch.rescale a b) := by
  induction eps generalizing st with
  | nil => rfl
  | cons e rest ih =>
    obtain ⟨h1, h2, h3⟩ := shiftStep_rescale ex lg pw ha hb t st e
    simp only [List.map_cons, loopBreak, h3]
    split_ifs
    · simp [h1]
    · simp only [List.map_cons, h1, h2, ih]

/-- slicing a deme commutes with the change of units -/
theorem shiftDeme_rescale (ex lg : ℚ → ℚ) (pw : ℚ → ℚ → ℚ) {a b : ℚ} (ha : 0 < a) (hb : b ≠ 0) (t : ℚ) (d : GDeme InEpoch) :
    (shiftDeme (a * t) (d.rescale a b)).ev ex lg pw = ((shiftDeme t d).ev ex lg pw).rescaleEv a b := by
  unfold shiftDeme GDeme.ev GDeme.rescaleEv
  simp only [GDeme.rescale, shiftEpochs_rescale ex lg pw ha hb, GDeme.mk.injEq, true_and, and_true]
  cases d.start <;> simp [shiftStart, tscale, mul_sub]

/-- **`slice` commutes with a change of units**: demes (sizes evaluated), pulses and migrations of the sliced rescaled graph are those of
    the sliced graph, rescaled -/
theorem sliceGraph_rescale (ex lg : ℚ → ℚ) (pw : ℚ → ℚ → ℚ) {a b : ℚ} (ha : 0 < a) (hb : b ≠ 0) (t : ℚ) (g : Graph InEpoch) (ht : t ≠ 0) :
    (sliceGraph (a * t) (g.rescale a b)).demes.map (GDeme.ev ex lg pw) = ((sliceGraph t g).demes.map (GDeme.ev ex lg pw)).map (GDeme.rescaleEv a b)
    ∧ (sliceGraph (a * t) (g.rescale a b)).pulses = (sliceGraph t g).pulses.map (GPulse.rescale a)
    ∧ (sliceGraph (a * t) (g.rescale a b)).migs = (sliceGraph t g).migs.map (GMig.rescale a b) := by
  have h0 : (t == 0) = false := by simpa using ht
  have h1 : (a * t == 0) = false := by
    have : a * t ≠ 0 := mul_ne_zero (ne_of_gt ha) ht
    simpa using this
  have hle : ∀ x : ETime, tle (tscale a x) (some (a * t)) = tle x (some t) := fun x => tle_tscale ha x (some t)
  refine ⟨?_, ?_, ?_⟩
  · simp only [sliceGraph, h0, h1, Bool.false_eq_true, if_false, Graph.rescale]
    induction g.demes with
    | nil => rfl
    | cons d ds ih =>
      simp only [List.map_cons, List.filterMap_cons]
      rw [show (GDeme.rescale a b d).start = tscale a d.start from rfl, hle]
      cases tle d.start (some t)
      · simp only [Bool.false_eq_true, if_false, List.map_cons, shiftDeme_rescale ex lg pw ha hb, ih]
      · simp only [if_true, ih]
  · simp only [sliceGraph, h0, h1, Bool.false_eq_true, if_false, Graph.rescale]
    induction g.pulses with
    | nil => rfl
    | cons p ps ih =>
      simp only [List.map_cons, List.filterMap_cons, GPulse.rescale]
      have : decide (a * p.time ≤ a * t) = decide (p.time ≤ t) := by
        simp [mul_le_mul_iff_right₀ ha]
      rw [this]
      cases decide (p.time ≤ t)
      · simp only [Bool.false_eq_true, if_false, List.map_cons, ih, GPulse.rescale, mul_sub]
      · simp only [if_true, ih]
  · simp only [sliceGraph, h0, h1, Bool.false_eq_true, if_false, Graph.rescale]
    induction g.migs with
    | nil => rfl
    | cons m ms ih =>
      simp only [List.map_cons, List.filterMap_cons]
      rw [show (GMig.rescale a b m).st = tscale a m.st from rfl, hle]
      cases tle m.st (some t)
      · simp only [Bool.false_eq_true, if_false, List.map_cons, ih]
        congr 1
        simp only [GMig.rescale, GMig.mk.injEq, true_and]
        refine ⟨?_, ?_⟩
        · cases m.st <;> simp [tsub, tscale, mul_sub]
        · rw [← mul_sub]; exact ratMax_scale ha _
      · simp only [if_true, ih]

/-! ### `_augment_with_ancient_samples` in other time units -/

/-- the stamps of a name in the other unit (`X_sampled_<time>` carries the sample time) -/
def DName.smap (a : ℚ) (n : DName) : DName := { base := n.base, stamps := n.stamps.map (a * ·) }

theorem smap_base (a : ℚ) (n : DName) (h : n.stamps = []) : n.smap a = n := by
  obtain ⟨b, st⟩ := n
  simp only at h
  subst h
  rfl

theorem smap_sampledAt (a x : ℚ) (n : DName) (h : n.stamps = []) : (n.sampledAt x).smap a = n.sampledAt (a * x) := by
  obtain ⟨b, st⟩ := n
  simp only at h
  subst h
  rfl

theorem renameOf_smap {a : ℚ} (t : ℚ) (R : List DName) (n : DName) (h : n.stamps = []) :
    renameOf (a * t) R n = (renameOf t R n).smap a := by
  unfold renameOf
  split_ifs
  · rw [smap_sampledAt a t n h]
  · rw [smap_base a n h]

/-- every name of the graph is a plain name (no `_sampled_` stamp) -/
def Graph.namesBase {ε : Type} (g : Graph ε) : Prop :=
  (∀ d ∈ g.demes, d.name.stamps = [] ∧ ∀ x ∈ d.ancestors, x.stamps = [])
  ∧ (∀ m ∈ g.migs, m.source.stamps = [] ∧ m.dest.stamps = [])
  ∧ (∀ p ∈ g.pulses, p.dest.stamps = [] ∧ ∀ x ∈ p.sources, x.stamps = [])

theorem sliceGraph_namesBase (t : ℚ) (g : Graph InEpoch) (h : g.namesBase) : (sliceGraph t g).namesBase := by
  obtain ⟨hd, hm, hp⟩ := h
  unfold sliceGraph
  by_cases h0 : (t == 0) = true
  · simp only [h0, if_true]
    refine ⟨?_, hm, hp⟩
    intro d hdm
    obtain ⟨d0, hd0, rfl⟩ := List.mem_map.1 hdm
    exact hd d0 hd0
  · simp only [h0, if_false]
    refine ⟨?_, ?_, ?_⟩
    · intro d hdm
      obtain ⟨d0, hd0, hx⟩ := List.mem_filterMap.1 hdm
      split_ifs at hx
      simp only [Option.some.injEq] at hx
      subst hx
      exact hd d0 hd0
    · intro m hmm
      obtain ⟨m0, hm0, hx⟩ := List.mem_filterMap.1 hmm
      split_ifs at hx
      simp only [Option.some.injEq] at hx
      subst hx
      exact hm m0 hm0
    · intro p hpm
      obtain ⟨p0, hp0, hx⟩ := List.mem_filterMap.1 hpm
      split_ifs at hx
      simp only [Option.some.injEq] at hx
      subst hx
      exact hp p0 hp0

theorem toOut_rescale (ex lg : ℚ → ℚ) (pw : ℚ → ℚ → ℚ) (a b : ℚ) (g : Graph InEpoch) :
    (g.rescale a b).toOut.demes.map (GDeme.ev ex lg pw) = (g.toOut.demes.map (GDeme.ev ex lg pw)).map (GDeme.rescaleEv a b) := by
  simp only [Graph.toOut, Graph.rescale, List.map_map]
  apply List.map_congr_left
  intro d _
  simp only [Function.comp_def, GDeme.ev, GDeme.rescaleEv, GDeme.toOut, GDeme.rescale, List.map_map, GDeme.mk.injEq, true_and]
  apply List.map_congr_left
  intro e _
  simp [OutEpoch.ev, EvEpoch.rescale, InEpoch.toOut, InEpoch.rescale, Sym.eval]

/-- slicing (at any time, 0 included) commutes with the change of units -/
theorem sliceGraph_rescale' (ex lg : ℚ → ℚ) (pw : ℚ → ℚ → ℚ) {a b : ℚ} (ha : 0 < a) (hb : b ≠ 0) (t : ℚ) (g : Graph InEpoch) :
    (sliceGraph (a * t) (g.rescale a b)).demes.map (GDeme.ev ex lg pw) = ((sliceGraph t g).demes.map (GDeme.ev ex lg pw)).map (GDeme.rescaleEv a b)
    ∧ (sliceGraph (a * t) (g.rescale a b)).pulses = (sliceGraph t g).pulses.map (GPulse.rescale a)
    ∧ (sliceGraph (a * t) (g.rescale a b)).migs = (sliceGraph t g).migs.map (GMig.rescale a b) := by
  by_cases ht : t = 0
  · subst ht
    have h0 : sliceGraph (a * 0) (g.rescale a b) = (g.rescale a b).toOut := by simp [sliceGraph]
    have h1 : sliceGraph 0 g = g.toOut := by simp [sliceGraph]
    rw [h0, h1]
    exact ⟨toOut_rescale ex lg pw a b g, rfl, rfl⟩
  · exact sliceGraph_rescale ex lg pw ha hb t g ht

theorem listMin_scale {a : ℚ} (ha : 0 < a) (l : List ℚ) : listMin (l.map (a * ·)) = a * listMin l := by
  cases l with
  | nil => simp [listMin]
  | cons x xs =>
    simp only [List.map_cons, listMin]
    induction xs generalizing x with
    | nil => rfl
    | cons y ys ih =>
      simp only [List.map_cons, List.foldl_cons]
      have : (if a * y < a * x then a * y else a * x) = a * (if y < x then y else x) := by
        by_cases h : y < x
        · have : a * y < a * x := mul_lt_mul_of_pos_left h ha
          simp [h, this]
        · have : ¬ a * y < a * x := fun h' => h (lt_of_mul_lt_mul_left h' (le_of_lt ha))
          simp [h, this]
      rw [this]
      exact ih _

theorem rename_ev {ex lg : ℚ → ℚ} {pw : ℚ → ℚ → ℚ} (ρ : DName → DName) (d : GDeme OutEpoch) :
    (GDeme.rename ρ d).ev ex lg pw = GDeme.rename ρ (d.ev ex lg pw) := rfl

/-- **Augmentation commutes with the time unit.**  Write the graph and the sample times in another time unit (`a` old units per new
    one… every time multiplied by `a > 0`; sizes and rates untouched): `_augment_with_ancient_samples` returns the augmented graph written
    in that unit — every deme (sliced, renamed and added ones), migration and pulse with its times multiplied by `a`, the same names up to
    the time they carry (`X_sampled_<a·x>` for `X_sampled_<x>`), the same frozen list and list of sampled demes.  In particular the frozen
    branch of a sample taken at `x` starts at `a·x − a·t`: converting before or after the augmentation is the same. -/
theorem augment_rescale {augment : Graph InEpoch → List DName → List ℚ → AugSt} (hclosed : AugClosed augment)
    (ex lg : ℚ → ℚ) (pw : ℚ → ℚ → ℚ) {a : ℚ} (ha : 0 < a) (g : Graph InEpoch) (sampled : List DName) (times : List ℚ)
    (hlen : sampled.length = times.length) (hbase : ∀ n ∈ sampled, n.stamps = []) (hg : g.namesBase) :
    (augment (g.rescale a 1) sampled (times.map (a * ·))).demes.map (GDeme.ev ex lg pw)
        = ((augment g sampled times).demes.map (GDeme.ev ex lg pw)).map (fun d => GDeme.rename (DName.smap a) (GDeme.rescaleEv a 1 d))
    ∧ (augment (g.rescale a 1) sampled (times.map (a * ·))).migs
        = (augment g sampled times).migs.map (fun m => GMig.rename (DName.smap a) (GMig.rescale a 1 m))
    ∧ (augment (g.rescale a 1) sampled (times.map (a * ·))).pulses
        = (augment g sampled times).pulses.map (fun p => GPulse.rename (DName.smap a) (GPulse.rescale a p))
    ∧ (augment (g.rescale a 1) sampled (times.map (a * ·))).frozen = (augment g sampled times).frozen.map (DName.smap a)
    ∧ (augment (g.rescale a 1) sampled (times.map (a * ·))).sampled = (augment g sampled times).sampled.map (DName.smap a) := by
  have hlen' : sampled.length = (times.map (a * ·)).length := by simpa using hlen
  obtain ⟨Y1, Y2, Y3, Y4, Y5⟩ := hclosed (g.rescale a 1) sampled (times.map (a * ·)) hlen' hbase
  obtain ⟨G1, G2, G3, G4, G5⟩ := hclosed g sampled times hlen hbase
  rw [Y1, Y2, Y3, Y4, Y5, G1, G2, G3, G4, G5]
  clear Y1 Y2 Y3 Y4 Y5 G1 G2 G3 G4 G5
  rw [listMin_scale ha]
  set t := listMin times with ht
  have hzip : sampled.zip (times.map (a * ·)) = (sampled.zip times).map (fun p => (p.1, a * p.2)) := by
    rw [List.zip_map_right]
    apply List.map_congr_left
    intro p _; rfl
  have hpos : ∀ x : ℚ, decide (a * x - a * t > 0) = decide (x - t > 0) := by
    intro x
    rw [← mul_sub]
    by_cases h : x - t > 0
    · have : a * (x - t) > 0 := mul_pos ha h
      simp [h, this]
    · have : ¬ a * (x - t) > 0 := not_lt.2 (mul_nonpos_of_nonneg_of_nonpos (le_of_lt ha) (not_lt.1 h))
      simp [h, this]
  have hpost : decide (a * t > 0) = decide (t > 0) := by
    by_cases h : t > 0
    · have : a * t > 0 := mul_pos ha h
      simp [h, this]
    · have : ¬ a * t > 0 := not_lt.2 (mul_nonpos_of_nonneg_of_nonpos (le_of_lt ha) (not_lt.1 h))
      simp [h, this]
  have hR : ((sampled.zip (times.map (a * ·))).filter fun p => !decide (p.2 - a * t > 0) && decide (a * t > 0)).map (·.1)
      = ((sampled.zip times).filter fun p => !decide (p.2 - t > 0) && decide (t > 0)).map (·.1) := by
    rw [hzip, List.filter_map, List.map_map]
    simp only [Function.comp_def, hpos, hpost]
  have hB : (sampled.zip (times.map (a * ·))).filter (fun p => decide (p.2 - a * t > 0))
      = ((sampled.zip times).filter fun p => decide (p.2 - t > 0)).map (fun p => (p.1, a * p.2)) := by
    rw [hzip, List.filter_map]
    simp only [Function.comp_def, hpos]
  rw [hR, hB]
  set R := ((sampled.zip times).filter fun p => !decide (p.2 - t > 0) && decide (t > 0)).map (·.1) with hRdef
  set B := (sampled.zip times).filter (fun p => decide (p.2 - t > 0)) with hBdef
  have hsb : ∀ p ∈ sampled.zip times, p.1.stamps = [] := fun p hp => hbase _ (List.of_mem_zip hp).1
  have hBb : ∀ p ∈ B, p.1.stamps = [] := fun p hp => hsb p (List.mem_of_mem_filter hp)
  obtain ⟨S1, S2, S3⟩ := sliceGraph_rescale' ex lg pw ha (one_ne_zero) t g
  obtain ⟨hnd, hnm, hnp⟩ := sliceGraph_namesBase t g hg
  refine ⟨?_, ?_, ?_, ?_, ?_⟩
  · -- demes
    simp only [List.map_append, List.map_map]
    congr 1
    · -- the sliced part
      have e1 : List.map (GDeme.ev ex lg pw ∘ GDeme.rename (renameOf (a * t) R)) (sliceGraph (a * t) (g.rescale a 1)).demes
          = ((sliceGraph (a * t) (g.rescale a 1)).demes.map (GDeme.ev ex lg pw)).map (GDeme.rename (renameOf (a * t) R)) := by
        rw [List.map_map]; rfl
      rw [e1, S1, List.map_map, List.map_map]
      apply List.map_congr_left
      intro d hd
      obtain ⟨h1, h2⟩ := hnd d hd
      simp only [Function.comp_def, GDeme.rename, GDeme.rescaleEv, GDeme.ev, List.map_map, GDeme.mk.injEq, true_and, and_true]
      refine ⟨renameOf_smap t R d.name h1, ?_⟩
      apply List.map_congr_left
      intro x hx
      exact renameOf_smap t R x (h2 x hx)
    · -- the frozen branches
      apply List.map_congr_left
      intro p hp
      have hb := hBb p hp
      simp only [Function.comp_def, branchDeme, GDeme.ev, GDeme.rename, GDeme.rescaleEv, List.map_cons, List.map_nil, OutEpoch.ev,
        EvEpoch.rescale, Option.map_some, Sym.eval, GDeme.mk.injEq, smap_sampledAt a p.2 p.1 hb, renameOf_smap t R p.1 hb]
      simp [mul_sub]
  · rw [S3, List.map_map, List.map_map]
    apply List.map_congr_left
    intro m hm
    obtain ⟨h1, h2⟩ := hnm m hm
    simp [Function.comp_def, GMig.rename, GMig.rescale, renameOf_smap t R _ h1, renameOf_smap t R _ h2]
  · rw [S2, List.map_map, List.map_map]
    apply List.map_congr_left
    intro p hp
    obtain ⟨h1, h2⟩ := hnp p hp
    simp only [Function.comp_def, GPulse.rename, GPulse.rescale, renameOf_smap t R _ h1, List.map_map, GPulse.mk.injEq, true_and, and_true]
    apply List.map_congr_left
    intro x hx
    exact renameOf_smap t R x (h2 x hx)
  · rw [List.map_map, List.map_map]
    apply List.map_congr_left
    intro p hp
    simp only [Function.comp_def, smap_sampledAt a p.2 p.1 (hBb p hp)]
  · rw [hzip, List.map_map, List.map_map]
    apply List.map_congr_left
    intro p hp
    have hb := hsb p hp
    have hc : (a * p.2 - a * t > 0 ∨ a * t > 0) ↔ (p.2 - t > 0 ∨ t > 0) := by
      have h1 := hpos p.2
      have h2 := hpost
      simp only [decide_eq_decide] at h1 h2
      rw [h1, h2]
    simp only [Function.comp_def]
    by_cases h : p.2 - t > 0 ∨ t > 0
    · rw [if_pos (hc.2 h), if_pos h, smap_sampledAt a p.2 p.1 hb]
    · rw [if_neg (fun h' => h (hc.1 h')), if_neg h, smap_base a p.1 hb]

/-! ### the preparation in `SFS`: augmentation, then conversion to generations -/

instance : TimeScalable EvEpoch := ⟨fun f e => { e with et := f e.et }⟩

theorem tmap_ev (ex lg : ℚ → ℚ) (pw : ℚ → ℚ → ℚ) (f : ℚ → ℚ) (d : GDeme OutEpoch) :
    (GDeme.tmap f d).ev ex lg pw = GDeme.tmap f (d.ev ex lg pw) := by
  simp only [GDeme.tmap, GDeme.ev, List.map_map, GDeme.mk.injEq, true_and]
  apply List.map_congr_left
  intro e _
  rfl

theorem tmap_rescaleEv {a : ℚ} (ha : a ≠ 0) (σ : DName → DName) (d : GDeme EvEpoch) :
    GDeme.tmap (fun x => x / a) (GDeme.rename σ (GDeme.rescaleEv a 1 d)) = GDeme.rename σ d := by
  obtain ⟨n, st, an, pr, ep⟩ := d
  simp only [GDeme.tmap, GDeme.rename, GDeme.rescaleEv, List.map_map, GDeme.mk.injEq, true_and]
  refine ⟨?_, ?_⟩
  · cases st <;> simp [tmapT, tscale, mul_div_cancel_left₀ _ ha]
  · conv_rhs => rw [← List.map_id ep]
    apply List.map_congr_left
    intro e _
    obtain ⟨f, s1, s2, t1⟩ := e
    cases s2 <;> simp [TimeScalable.tmap, EvEpoch.rescale, mul_div_cancel_left₀ _ ha]

theorem rename_base_deme {ε : Type} (a : ℚ) (d : GDeme ε) (h1 : d.name.stamps = []) (h2 : ∀ x ∈ d.ancestors, x.stamps = []) :
    GDeme.rename (DName.smap a) d = d := by
  obtain ⟨n, st, an, pr, ep⟩ := d
  simp only [GDeme.rename, GDeme.mk.injEq, true_and, and_true]
  refine ⟨smap_base a n h1, ?_⟩
  conv_rhs => rw [← List.map_id an]
  apply List.map_congr_left
  intro x hx
  exact smap_base a x (h2 x hx)


end DadiVerif.DemesConv
