import DadiVerif.Lemmas.Marginal2
/-!
# The Thomas pivots never vanish when the scheme is an M-matrix

For a `Line` with non-negative flux coefficients `At`, `Ct`, non-negative absorbing terms `bc`, `0 < dt` and an increasing grid the
pivots of the forward sweep satisfy

  `piv j ≥ 1/dt + [j+1<N]·df j·At (j+1) + bc j  > 0`

(the part `df j·Ct j` of the diagonal is what the elimination of the previous row can eat at most), hence `PivotsOk`.

* `Line.pivotsOk_of_pivSeq`      : pointwise pivots ≠ 0 ⇒ `PivotsOk 1 0 (L.rows φ)` (converse of `Line.pivots_ne_zero`)
* `Line.pivSeq_lower`, `Line.pivotsOk_of_nonneg` : the M-matrix case for an abstract `Line`
* `mkLine_pivotsOk`, `mkLine_pivotsOk_peclet` : `mkLine` when atemp, ctemp ≥ 0 / under the mesh-Péclet condition
* `axisLine_pivotsOk_nomig`      : `axisLine` without migration and selection — unconditional
* `axisLine_pivotsOk_peclet`     : `axisLine` with `use = false` (delj = 1/2) under `−V(x_i) ≤ M·dx ≤ V(x_{i+1})`
* `marginal_2D_pop0_step_nopiv`, `marginal_2D_pop0_integrate_nopiv` : the isolated-marginal theorems with the pivot hypotheses
  for population 0 and for the 1-D system discharged.
-/
namespace DadiVerif
open Gen Finset

/-! ### 1. pointwise pivots ⇒ `PivotsOk` -/

theorem pivotsOk_range'_conv (a b c r : ℕ → ℚ) : ∀ (n s : ℕ),
    (∀ i < n, pivSeq a b c (s+1+i) ≠ 0) →
    PivotsOk (pivSeq a b c s) (c s) ((List.range' (s+1) n).map fun j => (⟨a j, b j, c j, r j⟩ : Row)) := by
  intro n
  induction n with
  | zero => intro s _; exact trivial
  | succ n ih =>
    intro s h
    rw [List.range'_succ, List.map_cons]
    refine ⟨h 0 (by omega), ?_⟩
    exact ih (s+1) (fun i hi => by
      have := h (i+1) (by omega)
      rwa [show s + 1 + (i + 1) = s + 1 + 1 + i by omega] at this)

/-- converse of `Line.pivots_ne_zero` -/
theorem Line.pivotsOk_of_pivSeq (L : Line) (φ : ℕ → ℚ) (h : ∀ j < L.N, pivSeq L.a L.b L.c j ≠ 0) :
    PivotsOk 1 0 (L.rows φ) := by
  unfold Line.rows
  cases hN : L.N with
  | zero => exact trivial
  | succ n =>
    rw [List.range_eq_range', List.range'_succ, List.map_cons]
    have ha : L.a 0 = 0 := by simp [Line.a]
    have e : L.b 0 - L.a 0 * ((0:ℚ) / 1) = pivSeq L.a L.b L.c 0 := by simp [pivSeq, ha]
    refine ⟨?_, ?_⟩
    · show L.b 0 - L.a 0 * ((0:ℚ) / 1) ≠ 0
      rw [e]; exact h 0 (by omega)
    · show PivotsOk (L.b 0 - L.a 0 * ((0:ℚ) / 1)) (L.c 0) _
      rw [e]
      exact pivotsOk_range'_conv L.a L.b L.c (fun j => φ j / L.dt) n 0 (fun i hi => by
        have := h (i+1) (by omega)
        rwa [show 0 + 1 + i = i + 1 by omega])

/-! ### 2. the M-matrix case for an abstract line -/

theorem Line.df_nonneg (L : Line) (hinc : ∀ j, j + 1 < L.N → L.x j < L.x (j+1)) (j : ℕ) (hj : j < L.N) : 0 ≤ L.df j := by
  unfold Line.df Line.dxL Line.dxR
  apply div_nonneg (by norm_num)
  apply add_nonneg
  · split_ifs with h0
    · exact le_refl _
    · have := hinc (j-1) (by omega)
      rw [Nat.sub_add_cancel (by omega)] at this
      linarith
  · split_ifs with h1
    · have := hinc j h1; linarith
    · exact le_refl _

/-- lower bound for the pivots: the previous row can eat at most the `df j · Ct j` part of the diagonal -/
theorem Line.pivSeq_lower (L : Line) (hinc : ∀ j, j + 1 < L.N → L.x j < L.x (j+1)) (hdt : 0 < L.dt)
    (hA : ∀ k, 1 ≤ k → k + 1 ≤ L.N → 0 ≤ L.At k) (hC : ∀ k, 1 ≤ k → k + 1 ≤ L.N → 0 ≤ L.Ct k)
    (hbc : ∀ j, 0 ≤ L.bc j) :
    ∀ j, j < L.N →
      1 / L.dt + (if j + 1 < L.N then L.df j * L.At (j+1) else 0) + L.bc j ≤ pivSeq L.a L.b L.c j := by
  intro j
  induction j with
  | zero =>
    intro _
    show _ ≤ L.b 0
    unfold Line.b
    simp
  | succ j ih =>
    intro hj
    have hj0 : j < L.N := by omega
    have ihj := ih hj0
    rw [if_pos hj] at ihj
    set p := pivSeq L.a L.b L.c j with hp
    set d := L.df j * L.At (j+1) with hd
    set e := L.df (j+1) * L.Ct (j+1) with he
    have hd0 : 0 ≤ d := mul_nonneg (L.df_nonneg hinc j hj0) (hA (j+1) (by omega) (by omega))
    have he0 : 0 ≤ e := mul_nonneg (L.df_nonneg hinc (j+1) hj) (hC (j+1) (by omega) (by omega))
    have hdt' : 0 < 1 / L.dt := one_div_pos.mpr hdt
    have hbj := hbc j
    have hppos : 0 < p := by linarith
    have hdp : d / p ≤ 1 := (div_le_iff₀ hppos).mpr (by linarith)
    have hedp : e * (d / p) ≤ e := mul_le_of_le_one_right he0 hdp
    have key : L.a (j+1) * (L.c j / p) = e * (d / p) := by
      simp only [Line.a, Line.c, if_pos hj, if_neg (Nat.succ_ne_zero j), hd, he]
      ring
    show _ ≤ L.b (j+1) - L.a (j+1) * (L.c j / p)
    rw [key]
    unfold Line.b
    simp only [if_neg (Nat.succ_ne_zero j)]
    linarith

/-- **(1)** non-negative flux and absorbing coefficients, `0 < dt`, increasing grid ⇒ no pivot of the Thomas sweep vanishes -/
theorem Line.pivotsOk_of_nonneg (L : Line) (hinc : ∀ j, j + 1 < L.N → L.x j < L.x (j+1)) (hdt : 0 < L.dt)
    (hA : ∀ k, 1 ≤ k → k + 1 ≤ L.N → 0 ≤ L.At k) (hC : ∀ k, 1 ≤ k → k + 1 ≤ L.N → 0 ≤ L.Ct k)
    (hbc : ∀ j, 0 ≤ L.bc j) : ∀ φ, PivotsOk 1 0 (L.rows φ) := by
  intro φ
  apply L.pivotsOk_of_pivSeq φ
  intro j hj
  have h := L.pivSeq_lower hinc hdt hA hC hbc j hj
  have hdt' : 0 < 1 / L.dt := one_div_pos.mpr hdt
  have h2 : 0 ≤ (if j + 1 < L.N then L.df j * L.At (j+1) else 0) := by
    split_ifs with h1
    · exact mul_nonneg (L.df_nonneg hinc j hj) (hA (j+1) (by omega) (by omega))
    · exact le_refl _
  have := hbc j
  exact ne_of_gt (by linarith)

/-- the pivots are even bounded below by `1/dt` -/
theorem Line.pivSeq_pos (L : Line) (hinc : ∀ j, j + 1 < L.N → L.x j < L.x (j+1)) (hdt : 0 < L.dt)
    (hA : ∀ k, 1 ≤ k → k + 1 ≤ L.N → 0 ≤ L.At k) (hC : ∀ k, 1 ≤ k → k + 1 ≤ L.N → 0 ≤ L.Ct k)
    (hbc : ∀ j, 0 ≤ L.bc j) (j : ℕ) (hj : j < L.N) : 1 / L.dt ≤ pivSeq L.a L.b L.c j := by
  have h := L.pivSeq_lower hinc hdt hA hC hbc j hj
  have h2 : 0 ≤ (if j + 1 < L.N then L.df j * L.At (j+1) else 0) := by
    split_ifs with h1
    · exact mul_nonneg (L.df_nonneg hinc j hj) (hA (j+1) (by omega) (by omega))
    · exact le_refl _
  have := hbc j
  linarith

/-! ### 3. `mkLine` under the mesh-Péclet condition -/

/-- **(3)** `mkLine`: if on every interval the two flux coefficients `atemp = M·delj + V(left)/(2dx)` and
    `ctemp = −M·(1−delj) + V(right)/(2dx)` are non-negative (M-matrix condition), ν > 0, dt > 0, then no pivot vanishes —
    whatever the corner flags, whatever delj. -/
theorem mkLine_pivotsOk (xs : Array ℚ) (hg : GridOk xs) (V M : ℚ → ℚ) (delj : ℕ → ℚ) (nu : ℚ) (hnu : 0 < nu)
    (z o : Bool) (dt : ℚ) (hdt : 0 < dt)
    (hpe : ∀ i, i + 1 < xs.size →
      0 ≤ M (1/2 * (xs.getD (i+1) 0 + xs.getD i 0)) * delj i + V (xs.getD i 0) / (2 * (xs.getD (i+1) 0 - xs.getD i 0))
      ∧ 0 ≤ -M (1/2 * (xs.getD (i+1) 0 + xs.getD i 0)) * (1 - delj i)
            + V (xs.getD (i+1) 0) / (2 * (xs.getD (i+1) 0 - xs.getD i 0))) :
    ∀ φ, PivotsOk 1 0 ((mkLine xs V M delj nu z o dt).rows φ) := by
  intro φ
  refine Line.pivotsOk_of_nonneg (mkLine xs V M delj nu z o dt) (fun j hj => hg.2 j hj) hdt ?_ ?_ ?_ φ
  · intro k hk1 hk2
    obtain ⟨i, rfl⟩ : ∃ i, k = i + 1 := ⟨k - 1, by omega⟩
    have hi : i + 1 < xs.size := hk2
    have h := (hpe i hi).1
    show 0 ≤ C.atemp (M (1/2 * (xs.getD (i+1-1+1) 0 + xs.getD (i+1-1) 0))) (delj (i+1-1)) (V (xs.getD (i+1-1) 0))
      (V (xs.getD (i+1) 0)) (xs.getD (i+1-1+1) 0 - xs.getD (i+1-1) 0)
    simp only [Nat.add_sub_cancel, C.atemp]
    exact h
  · intro k hk1 hk2
    obtain ⟨i, rfl⟩ : ∃ i, k = i + 1 := ⟨k - 1, by omega⟩
    have hi : i + 1 < xs.size := hk2
    have h := (hpe i hi).2
    show 0 ≤ C.ctemp (M (1/2 * (xs.getD (i+1-1+1) 0 + xs.getD (i+1-1) 0))) (delj (i+1-1)) (V (xs.getD (i+1-1) 0))
      (V (xs.getD (i+1) 0)) (xs.getD (i+1-1+1) 0 - xs.getD (i+1-1) 0)
    simp only [Nat.add_sub_cancel, C.ctemp]
    exact h
  · intro j
    have h2 := hg.1
    have hdx0 : 0 < xs.getD (0+1) 0 - xs.getD 0 0 := by have := hg.2 0 (by omega); linarith
    have hdxl : 0 < xs.getD (xs.size - 2 + 1) 0 - xs.getD (xs.size - 2) 0 := by
      have := hg.2 (xs.size - 2) (by omega); linarith
    have hnu' : 0 < 1 / 2 / nu := div_pos (by norm_num) hnu
    show 0 ≤ (if j = 0 ∧ z = true ∧ M (xs.getD 0 0) ≤ 0 then C.bcFirst nu (M (xs.getD 0 0)) (xs.getD (0+1) 0 - xs.getD 0 0) else 0)
      + (if j + 1 = xs.size ∧ o = true ∧ M (xs.getD (xs.size - 1) 0) ≥ 0
          then C.bcLast nu (M (xs.getD (xs.size - 1) 0)) (xs.getD (xs.size - 2 + 1) 0 - xs.getD (xs.size - 2) 0) else 0)
    apply add_nonneg
    · split_ifs with hc
      · simp only [C.bcFirst]
        apply div_nonneg _ (le_of_lt hdx0)
        have := hc.2.2
        nlinarith
      · exact le_refl _
    · split_ifs with hc
      · simp only [C.bcLast]
        apply div_nonneg _ (le_of_lt hdxl)
        have : 0 ≤ M (xs.getD (xs.size - 1) 0) := hc.2.2
        have e : -(-(1 / 2) / nu - M (xs.getD (xs.size - 1) 0)) = 1 / 2 / nu + M (xs.getD (xs.size - 1) 0) := by ring
        rw [e]; nlinarith
      · exact le_refl _

/-- mesh-Péclet form: delj ∈ [0,1] and `|M|·delj·2dx ≤ V(left)`, `|M|·(1−delj)·2dx ≤ V(right)` on every interval
    (with delj = 1/2: `|M|·dx ≤ V`) imply the M-matrix condition of `mkLine_pivotsOk` -/
theorem mkLine_pivotsOk_peclet (xs : Array ℚ) (hg : GridOk xs) (V M : ℚ → ℚ) (delj : ℕ → ℚ) (nu : ℚ) (hnu : 0 < nu)
    (z o : Bool) (dt : ℚ) (hdt : 0 < dt)
    (hd : ∀ i, i + 1 < xs.size → 0 ≤ delj i ∧ delj i ≤ 1)
    (hpe : ∀ i, i + 1 < xs.size →
      |M (1/2 * (xs.getD (i+1) 0 + xs.getD i 0))| * delj i * (2 * (xs.getD (i+1) 0 - xs.getD i 0)) ≤ V (xs.getD i 0)
      ∧ |M (1/2 * (xs.getD (i+1) 0 + xs.getD i 0))| * (1 - delj i) * (2 * (xs.getD (i+1) 0 - xs.getD i 0))
          ≤ V (xs.getD (i+1) 0)) :
    ∀ φ, PivotsOk 1 0 ((mkLine xs V M delj nu z o dt).rows φ) := by
  apply mkLine_pivotsOk xs hg V M delj nu hnu z o dt hdt
  intro i hi
  have hdx : 0 < xs.getD (i+1) 0 - xs.getD i 0 := by have := hg.2 i hi; linarith
  obtain ⟨hd0, hd1⟩ := hd i hi
  obtain ⟨h, h'⟩ := hpe i hi
  set m := M (1/2 * (xs.getD (i+1) 0 + xs.getD i 0))
  constructor
  · have h1 : |m| * delj i ≤ V (xs.getD i 0) / (2 * (xs.getD (i+1) 0 - xs.getD i 0)) := by
      rw [le_div_iff₀ (by linarith)]; exact h
    have h2 : -(|m| * delj i) ≤ m * delj i := by
      have := neg_abs_le m
      nlinarith [mul_nonneg (by linarith : 0 ≤ m + |m|) hd0]
    linarith
  · have h1 : |m| * (1 - delj i) ≤ V (xs.getD (i+1) 0) / (2 * (xs.getD (i+1) 0 - xs.getD i 0)) := by
      rw [le_div_iff₀ (by linarith)]; exact h'
    have h2 : -(|m| * (1 - delj i)) ≤ -m * (1 - delj i) := by
      have := le_abs_self m
      nlinarith [mul_nonneg (by linarith : 0 ≤ |m| - m) (by linarith : 0 ≤ 1 - delj i)]
    linarith

/-! ### 4. `axisLine` -/

/-- the drift coefficient is non-negative on [0,1] -/
theorem AxisParams.V_nonneg (P : AxisParams) (hnu : 0 < P.nu) (hβ : ∀ β, P.beta = some β → 0 < β) (u : ℚ)
    (h0 : 0 ≤ u) (h1 : u ≤ 1) : 0 ≤ P.V u := by
  have hu : 0 ≤ u * (1 - u) := mul_nonneg h0 (by linarith)
  unfold AxisParams.V
  cases hb : P.beta with
  | none =>
    simp only [C.Vfunc]
    have : 0 ≤ 1 / P.nu := le_of_lt (one_div_pos.mpr hnu)
    nlinarith [mul_nonneg this hu]
  | some β =>
    have hβ0 := hβ β hb
    simp only [C.Vfunc_beta]
    apply div_nonneg _ (by linarith)
    have : 0 ≤ 1 / P.nu := le_of_lt (one_div_pos.mpr hnu)
    have h2 : 0 ≤ 1 / P.nu * u * (1 - u) := by nlinarith [mul_nonneg this hu]
    exact mul_nonneg h2 (sq_nonneg _)

/-- all nodes of an increasing grid lie between its first and its last node -/
theorem GridOk.bounds {xs : Array ℚ} (hg : GridOk xs) (i : ℕ) (hi : i < xs.size) :
    xs.getD 0 0 ≤ xs.getD i 0 ∧ xs.getD i 0 ≤ xs.getD (xs.size - 1) 0 := by
  constructor
  · rcases Nat.eq_zero_or_pos i with h | h
    · rw [h]
    · exact le_of_lt (hg.strictMono i 0 h hi)
  · rcases Nat.lt_or_ge i (xs.size - 1) with h | h
    · exact le_of_lt (hg.strictMono (xs.size - 1) i h (by omega))
    · rw [show i = xs.size - 1 by omega]

/-- **(2)** without migration and selection (M ≡ 0) the pivot condition holds unconditionally: ν > 0, β > 0 (if present), dt > 0,
    increasing grid inside [0,1]; any other-coordinates, any `use`/`eps`, any right-hand side. -/
theorem axisLine_pivotsOk_nomig (xs : Array ℚ) (hg : GridOk xs) (hx0 : 0 ≤ xs.getD 0 0) (hx1 : xs.getD (xs.size - 1) 0 ≤ 1)
    (P : AxisParams) (hgam : P.gamma = 0) (hm : ∀ m ∈ P.ms, m = 0) (hnu : 0 < P.nu) (hβ : ∀ β, P.beta = some β → 0 < β)
    (ys : List ℚ) (use : Bool) (eps : ℕ → ℚ) (dt : ℚ) (hdt : 0 < dt) :
    ∀ φ, PivotsOk 1 0 ((axisLine xs P ys use eps dt).rows φ) := by
  rw [axisLine_nomig xs P ys use eps dt hgam hm]
  have hV : ∀ i, i < xs.size → 0 ≤ P.V (xs.getD i 0) := by
    intro i hi
    have := hg.bounds i hi
    exact P.V_nonneg hnu hβ _ (by linarith) (by linarith)
  apply mkLine_pivotsOk xs hg P.V (fun _ => 0) (fun _ => 1/2) P.nu hnu _ _ dt hdt
  intro i hi
  have hdx : 0 < xs.getD (i+1) 0 - xs.getD i 0 := by have := hg.2 i hi; linarith
  have h1 := hV i (by omega)
  have h2 := hV (i+1) hi
  constructor
  · have : 0 ≤ P.V (xs.getD i 0) / (2 * (xs.getD (i+1) 0 - xs.getD i 0)) := div_nonneg h1 (by linarith)
    linarith
  · have : 0 ≤ P.V (xs.getD (i+1) 0) / (2 * (xs.getD (i+1) 0 - xs.getD i 0)) := div_nonneg h2 (by linarith)
    linarith

theorem deljC_false (eps : ℕ → ℚ) (MI VI dx : ℕ → ℚ) : deljC false eps MI VI dx = fun _ => 1/2 := by
  funext i; simp [deljC]

/-- **(3')** `axisLine` with delj = 1/2 (`use = false`) and arbitrary migration/selection, under the M-matrix condition
    `−V(x_i) ≤ M(x_{i+½})·(x_{i+1} − x_i) ≤ V(x_{i+1})` on every interval (implied by `|M|·dx ≤ V` at both ends; note that
    V(0) = V(1) = 0 forces M ≥ 0 on the first and M ≤ 0 on the last interval — true for migration, not for selection) -/
theorem axisLine_pivotsOk_peclet (xs : Array ℚ) (hg : GridOk xs) (P : AxisParams) (hnu : 0 < P.nu)
    (ys : List ℚ) (eps : ℕ → ℚ) (dt : ℚ) (hdt : 0 < dt)
    (hpe : ∀ i, i + 1 < xs.size →
      -(P.V (xs.getD i 0)) ≤ Mgen (1/2 * (xs.getD (i+1) 0 + xs.getD i 0)) P.ms ys P.gamma P.h * (xs.getD (i+1) 0 - xs.getD i 0)
      ∧ Mgen (1/2 * (xs.getD (i+1) 0 + xs.getD i 0)) P.ms ys P.gamma P.h * (xs.getD (i+1) 0 - xs.getD i 0)
          ≤ P.V (xs.getD (i+1) 0)) :
    ∀ φ, PivotsOk 1 0 ((axisLine xs P ys false eps dt).rows φ) := by
  have e : axisLine xs P ys false eps dt
      = mkLine xs P.V (fun u => Mgen u P.ms ys P.gamma P.h) (fun _ => 1/2) P.nu (ys.all (· == 0)) (ys.all (· == 1)) dt := by
    simp only [axisLine, Mkernel_getD, deljC_false]
  rw [e]
  apply mkLine_pivotsOk xs hg P.V _ (fun _ => 1/2) P.nu hnu _ _ dt hdt
  intro i hi
  have hdx : 0 < xs.getD (i+1) 0 - xs.getD i 0 := by have := hg.2 i hi; linarith
  obtain ⟨h1, h2⟩ := hpe i hi
  set m := Mgen (1/2 * (xs.getD (i+1) 0 + xs.getD i 0)) P.ms ys P.gamma P.h
  set dx := xs.getD (i+1) 0 - xs.getD i 0
  have e1 : m * (1/2) + P.V (xs.getD i 0) / (2 * dx) = (m * dx + P.V (xs.getD i 0)) / (2 * dx) := by
    field_simp
  have e2 : -m * (1 - 1/2) + P.V (xs.getD (i+1) 0) / (2 * dx) = (P.V (xs.getD (i+1) 0) - m * dx) / (2 * dx) := by
    field_simp; ring
  constructor
  · show 0 ≤ m * (1/2) + P.V (xs.getD i 0) / (2 * dx)
    rw [e1]; exact div_nonneg (by linarith) (by linarith)
  · show 0 ≤ -m * (1 - 1/2) + P.V (xs.getD (i+1) 0) / (2 * dx)
    rw [e2]; exact div_nonneg (by linarith) (by linarith)

/-! ### 5. the isolated-marginal theorems without pivot hypotheses for population 0 and the 1-D system -/

/-- **(4)** `marginal_2D_pop0_step` with the pivot hypotheses for population 0 and for the 1-population system discharged
    (population 1 of the 2-population system has arbitrary parameters: its hypothesis stays; see `axisLine_pivotsOk_peclet`). -/
theorem marginal_2D_pop0_step_nopiv (xs : Array ℚ) (hg : GridOk xs) (hN : 3 ≤ xs.size) (hx0 : xs.getD 0 0 = 0)
    (hx1 : xs.getD (xs.size - 1) 0 = 1) (frD nmD frS nmS : List Bool)
    (hfr : frD.getD 0 false = frS.getD 0 false) (hnm : nmD.getD 0 false = false)
    (useD useS : Bool) (epsD epsS : ℕ → List ℕ → ℕ → ℚ) (PD PS : StepParams) (p0 p1 q0 : PopParams)
    (hPD : PD.pops = [p0, p1]) (hPS : PS.pops = [q0]) (hθ : PD.theta0 = PS.theta0)
    (hg0 : p0.gamma = 0) (hm0 : ∀ m ∈ p0.ms, m = 0) (hgq : q0.gamma = 0) (hmq : ∀ m ∈ q0.ms, m = 0)
    (hnu : p0.nu = q0.nu) (hnupos : 0 < p0.nu)
    (hβD : ∀ β, PD.beta = some β → 0 < β) (hβS : ∀ β, PS.beta = some β → 0 < β)
    (hV : ∀ u, (p0.axis PD.beta).V u = (q0.axis PS.beta).V u)
    (dt : ℚ) (hdt : 0 < dt)
    (hpiv1 : ∀ ys eps φ, PivotsOk 1 0 ((axisLine xs (p1.axis PD.beta) ys useD eps dt).rows φ)) :
    ∀ T U, Marg2D0 xs T U →
      Marg2D0 xs (sweepFn [xs, xs] frD nmD useD epsD PD dt T) (sweepFn [xs] frS nmS useS epsS PS dt U) :=
  marginal_2D_pop0_step xs hg hN hx0 hx1 frD nmD frS nmS hfr hnm useD useS epsD epsS PD PS p0 p1 q0 hPD hPS hθ
    hg0 hm0 hgq hmq hnu hV dt (ne_of_gt hdt)
    (fun ys eps φ => axisLine_pivotsOk_nomig xs hg (le_of_eq hx0.symm) (le_of_eq hx1) (p0.axis PD.beta) hg0 hm0 hnupos hβD
      ys useD eps dt hdt φ)
    hpiv1
    (fun ys eps φ => axisLine_pivotsOk_nomig xs hg (le_of_eq hx0.symm) (le_of_eq hx1) (q0.axis PS.beta) hgq hmq
      (by show 0 < q0.nu; rw [← hnu]; exact hnupos) hβS ys useS eps dt hdt φ)

theorem marginal_2D_pop0_integrate_nopiv (xs : Array ℚ) (hg : GridOk xs) (hN : 3 ≤ xs.size) (hx0 : xs.getD 0 0 = 0)
    (hx1 : xs.getD (xs.size - 1) 0 = 1) (frD nmD frS nmS : List Bool)
    (hfr : frD.getD 0 false = frS.getD 0 false) (hnm : nmD.getD 0 false = false)
    (useD useS : Bool) (epsD epsS : ℕ → List ℕ → ℕ → ℚ) (PD PS : StepParams) (p0 p1 q0 : PopParams)
    (hPD : PD.pops = [p0, p1]) (hPS : PS.pops = [q0]) (hθ : PD.theta0 = PS.theta0)
    (hg0 : p0.gamma = 0) (hm0 : ∀ m ∈ p0.ms, m = 0) (hgq : q0.gamma = 0) (hmq : ∀ m ∈ q0.ms, m = 0)
    (hnu : p0.nu = q0.nu) (hnupos : 0 < p0.nu)
    (hβD : ∀ β, PD.beta = some β → 0 < β) (hβS : ∀ β, PS.beta = some β → 0 < β)
    (hV : ∀ u, (p0.axis PD.beta).V u = (q0.axis PS.beta).V u)
    (tf Tend : ℚ) (hdtEq : stepDt tf PD = stepDt tf PS) (hpos : ∀ d, stepDt tf PS = some d → 0 < d)
    (hpiv1 : ∀ dt, 0 < dt → ∀ ys eps φ, PivotsOk 1 0 ((axisLine xs (p1.axis PD.beta) ys useD eps dt).rows φ)) :
    ∀ (fuel : ℕ) (t : ℚ) (T U : List ℕ → ℚ), Marg2D0 xs T U →
      Marg2D0 xs (integrateConst (sweepFn [xs, xs] frD nmD useD epsD) tf PD Tend fuel t T)
        (integrateConst (sweepFn [xs] frS nmS useS epsS) tf PS Tend fuel t U) :=
  marginal_invariant_integrate (Marg2D0 xs) _ _ tf PD PS Tend hdtEq hpos
    (fun dt hdt => marginal_2D_pop0_step_nopiv xs hg hN hx0 hx1 frD nmD frS nmS hfr hnm useD useS epsD epsS PD PS p0 p1 q0
      hPD hPS hθ hg0 hm0 hgq hmq hnu hnupos hβD hβS hV dt hdt (hpiv1 dt hdt))

/-! ### 6. non-vacuity -/
namespace MarginalExample

/-- `axisLine_pivotsOk_nomig`: hypotheses satisfiable (corner line, Chang–Cooper switched on with arbitrary eps, dt = 1/3) -/
example : ∀ φ, PivotsOk 1 0 ((axisLine xs3 (P [0, 0]) [0, 0] true (fun _ => 2) (1/3)).rows φ) :=
  axisLine_pivotsOk_nomig xs3 gridOk (by norm_num [xs3, Array.getD]) (by norm_num [xs3, Array.getD]) (P [0, 0]) rfl
    (by simp [P]) (by norm_num [P]) (fun β h => by simp [P] at h) [0, 0] true (fun _ => 2) (1/3) (by norm_num)

/-- `axisLine_pivotsOk_peclet`: hypotheses satisfiable with migration m = 1/10 from a population at frequency 1/2 -/
example : ∀ φ, PivotsOk 1 0
    ((axisLine xs3 { nu := 1, gamma := 0, h := 1/2, ms := [1/10], beta := none } [1/2] false (fun _ => 0) 1).rows φ) := by
  apply axisLine_pivotsOk_peclet xs3 gridOk _ (by norm_num) [1/2] (fun _ => 0) 1 one_pos
  intro i hi
  have h3 : i + 1 < 3 := hi
  rcases (by omega : i = 0 ∨ i = 1) with rfl | rfl <;>
    norm_num [xs3, Array.getD, Mgen, AxisParams.V, C.Vfunc]

/-- `marginal_2D_pop0_step_nopiv`: all hypotheses satisfiable (population 1's pivot hypothesis by `axisLine_pivotsOk_nomig` too) -/
example (epsD epsS : ℕ → List ℕ → ℕ → ℚ) (T U : List ℕ → ℚ) (h : Marg2D0 xs3 T U) (dt : ℚ) (hdt : 0 < dt) :
    Marg2D0 xs3 (sweepFn [xs3, xs3] [false, false] [false, false] true epsD ⟨[pop2, pop2], 1, none⟩ dt T)
      (sweepFn [xs3] [false] [false] false epsS ⟨[pop1], 1, some 1⟩ dt U) :=
  marginal_2D_pop0_step_nopiv xs3 gridOk (by decide) (by norm_num [xs3, Array.getD]) (by norm_num [xs3, Array.getD])
    [false, false] [false, false] [false] [false] rfl rfl true false epsD epsS ⟨[pop2, pop2], 1, none⟩ ⟨[pop1], 1, some 1⟩
    pop2 pop2 pop1 rfl rfl rfl rfl (by simp [pop2]) rfl (by simp [pop1]) rfl (by norm_num [pop2])
    (fun β h => by simp at h) (fun β h => by simp at h; rw [← h]; norm_num)
    (fun u => (AxisParams.V_beta_one (pop1.axis (some 1)) (pop2.axis none) rfl rfl rfl u).symm)
    dt hdt
    (fun ys eps φ => axisLine_pivotsOk_nomig xs3 gridOk (by norm_num [xs3, Array.getD]) (by norm_num [xs3, Array.getD])
      (pop2.axis none) rfl (by simp [pop2, PopParams.axis]) (by norm_num [pop2, PopParams.axis]) (fun β h => by simp [PopParams.axis] at h)
      ys true eps dt hdt φ)
    T U h

end MarginalExample

end DadiVerif
