import DadiVerif.Generated.GridReal
import Mathlib.Tactic.Linarith
import Mathlib.Tactic.FieldSimp
import Mathlib.Tactic.Ring
import Mathlib.Tactic.Positivity
/-! The library's own grid (`Numerics.exponential_grid` = `default_grid`, generated definitions) satisfies the hypotheses of the
    integration theorems: it starts at exactly 0, ends at exactly 1 and is strictly increasing, for every pts ≥ 2 and crwd > 0. -/
namespace DadiVerif
open Gen.GridReal

theorem gridReal_unif_strictMono (pts : ℕ) (hp : 2 ≤ pts) (hlin : linA < linB) (i j : ℕ) (hij : i < j) : unif pts i < unif pts j := by
  unfold unif
  have hp' : (0:ℝ) < (pts : ℝ) - 1 := by
    have : (2:ℝ) ≤ (pts:ℝ) := by exact_mod_cast hp
    linarith
  have hd : 0 < (linB - linA) / ((pts:ℝ) - 1) := div_pos (by linarith) hp'
  have hij' : (i:ℝ) < (j:ℝ) := by exact_mod_cast hij
  have e : ∀ k : ℕ, (k:ℝ) * (linB - linA) / ((pts:ℝ) - 1) = (k:ℝ) * ((linB - linA) / ((pts:ℝ) - 1)) := fun k => by ring
  rw [e i, e j]
  have := mul_lt_mul_of_pos_right hij' hd
  linarith

theorem gridReal_raw_strictMono (crwd : ℝ) (hc : 0 < crwd) (u v : ℝ) (huv : u < v) : raw crwd u < raw crwd v := by
  unfold raw
  have h1 : Real.exp (-crwd * v) < Real.exp (-crwd * u) := by
    apply Real.exp_lt_exp.mpr
    nlinarith
  have hpu : 0 < 1 + Real.exp (-crwd * u) := by positivity
  have hpv : 0 < 1 + Real.exp (-crwd * v) := by positivity
  exact one_div_lt_one_div_of_lt hpv (by linarith)

theorem gridReal_zero (pts : ℕ) (crwd : ℝ) (hne : raw crwd (unif pts (pts - 1)) ≠ raw crwd (unif pts 0)) :
    grid pts crwd 0 = 0 := by
  unfold grid Gen.GridReal.norm
  simp

theorem gridReal_last (pts : ℕ) (crwd : ℝ) (hne : raw crwd (unif pts (pts - 1)) ≠ raw crwd (unif pts 0)) :
    grid pts crwd (pts - 1) = 1 := by
  unfold grid Gen.GridReal.norm
  exact div_self (sub_ne_zero.mpr hne)

/-- **the default grid is strictly increasing from exactly 0 to exactly 1** -/
theorem gridReal_ok (pts : ℕ) (hp : 2 ≤ pts) (crwd : ℝ) (hc : 0 < crwd) :
    grid pts crwd 0 = 0 ∧ grid pts crwd (pts - 1) = 1
    ∧ (∀ i j, i < j → grid pts crwd i < grid pts crwd j)
    ∧ (∀ j, j < pts → 0 ≤ grid pts crwd j ∧ grid pts crwd j ≤ 1) := by
  have hlin : linA < linB := by unfold linA linB; norm_num
  have hmono : ∀ i j, i < j → raw crwd (unif pts i) < raw crwd (unif pts j) := fun i j h =>
    gridReal_raw_strictMono crwd hc _ _ (gridReal_unif_strictMono pts hp hlin i j h)
  have hden : 0 < raw crwd (unif pts (pts - 1)) - raw crwd (unif pts 0) := by
    have := hmono 0 (pts - 1) (by omega); linarith
  have hne : raw crwd (unif pts (pts - 1)) ≠ raw crwd (unif pts 0) := by
    intro h; rw [h] at hden; linarith
  have h0 := gridReal_zero pts crwd hne
  have h1 := gridReal_last pts crwd hne
  have hinc : ∀ i j, i < j → grid pts crwd i < grid pts crwd j := by
    intro i j hij
    unfold grid Gen.GridReal.norm
    apply div_lt_div_of_pos_right _ hden
    have := hmono i j hij
    linarith
  refine ⟨h0, h1, hinc, ?_⟩
  intro j hj
  constructor
  · rcases Nat.eq_zero_or_pos j with h | h
    · rw [h, h0]
    · have := hinc 0 j h; rw [h0] at this; exact le_of_lt this
  · rcases Nat.lt_or_ge j (pts - 1) with h | h
    · have := hinc j (pts - 1) h; rw [h1] at this; exact le_of_lt this
    · have : j = pts - 1 := by omega
      rw [this, h1]

end DadiVerif
