import DadiVerif.Lemmas.FoldCore
/-!
C09's fold lemmas under their original names, for C11's `Lemmas/LikFold.lean` / `LikFoldReal.lean` / `Props/C11.lean`
(`foldOut_x`, `foldOut_m`, `foldSpec_eq`, …).

Everything that does not depend on what tools/gen_Fold.py currently generates lives in `Lemmas/FoldCore.lean`
(closed forms `sfold` / `fo`, the flat C-order instance, sums, the parametrised model lemmas `foldOut_x_of`, …).  This file
only discharges the program hypotheses of those lemmas (`FoldDataOK`, `FoldMaskOK`, `UnfoldDataOK`, `UnfoldMaskOK`, `GuardsOK`)
for the current generated definitions — with the same proof scripts as `C09_fold_program`, `C09_fold_mask_program`, … of
Props/C09.lean: the generated tactics `fold_program_unfold` / `unfold_program_unfold` unfold whatever intermediate definitions
the translator emitted, so no intermediate name occurs here either.  Props/C09.lean does NOT import this file (it proves the
program theorems itself, so that a source edit breaks exactly the theorems it falsifies).
-/
set_option linter.unusedSimpArgs false
set_option linter.unusedTactic false
set_option linter.unreachableTactic false
namespace DadiVerif
namespace Fold
open Gen.Fold Finset

section pointwise
variable {ι : Type} {mirror : ι → ι} {total : ι → ℕ} {T : ℕ} (x : ι → ℚ) (m : ι → Bool)

/-- the generated program of `Spectrum.fold` computes the closed form -/
theorem fold_outData_eq {i : ι} (h : Loc mirror total T i) :
    fold_outData mirror total T x m i = sfold mirror total T x i := by
  have h1 := h.tot; have h2 := h.le; have h3 := h.invol
  fold_program_unfold
  simp only [sfold, decide_eq_true_eq, beq_iff_eq, cast_eq_half_iff, h3]
  split_ifs <;> first | (exfalso; omega) | ring

/-- the generated mask program of `Spectrum.fold` (before corner masking) -/
theorem fold_outMask_eq (i : ι) :
    fold_outMask mirror total T x m i = (m i || m (mirror i) || fo total T i) := by
  fold_program_unfold
  simp only [fo, decide_gt_half]
  first
    | done
    | (cases m i <;> cases m (mirror i) <;> cases decide (2 * total i > T) <;> cases decide (2 * total (mirror i) > T) <;> rfl)

theorem unfold_outData_eq (i : ι) :
    unfold_outData mirror total T x m i = (x i + x (mirror i)) / 2 := by
  unfold_program_unfold
  first | done | ring

theorem unfold_outMask_eq (i : ι) :
    unfold_outMask mirror total T x m i
      = ((m i ^^ fo total T i) || (m (mirror i) ^^ fo total T (mirror i))) := by
  unfold_program_unfold
  simp only [fo, decide_gt_half]
  first
    | done
    | (cases m i <;> cases m (mirror i) <;> cases decide (2 * total i > T) <;> cases decide (2 * total (mirror i) > T) <;> rfl)

end pointwise

theorem foldDataOK : FoldDataOK := fun _ _ _ x m _ h => fold_outData_eq x m h
theorem foldMaskOK : FoldMaskOK := fun _ _ _ x m i _ => fold_outMask_eq x m i
theorem unfoldDataOK : UnfoldDataOK := fun _ _ _ x m i _ => unfold_outData_eq x m i
theorem unfoldMaskOK : UnfoldMaskOK := fun _ _ _ x m i _ => unfold_outMask_eq x m i
theorem guardsOK : GuardsOK := ⟨fun _ => rfl, rfl, fun _ => rfl, rfl⟩

section outs
variable (S : Spec)

theorem foldOut_folded : (foldOut S).folded = true := rfl
theorem foldOut_popIds : (foldOut S).popIds = S.popIds := by simp [foldOut, fold_popIdsFromSelf]

theorem foldOut_x {k : ℕ} (h : k < S.N) :
    (foldOut S).x k = sfold (mirrorFlat S.N) (totalFlat S.shape) (totalSamples S.shape) S.x k :=
  foldOut_x_of S foldDataOK h

theorem foldOut_m {k : ℕ} (h : k < S.N) :
    (foldOut S).m k = (S.m k || S.m (mirrorFlat S.N k) || fo (totalFlat S.shape) (totalSamples S.shape) k || cornerFlat S.N k) :=
  foldOut_m_of S foldMaskOK rfl h

theorem unfoldOut_folded : (unfoldOut S).folded = false := rfl
theorem unfoldOut_popIds : (unfoldOut S).popIds = S.popIds := by simp [unfoldOut, unfold_popIdsFromSelf]

theorem unfoldOut_x {k : ℕ} (h : k < S.N) : (unfoldOut S).x k = (S.x k + S.x (mirrorFlat S.N k)) / 2 :=
  unfoldOut_x_of S unfoldDataOK h

theorem unfoldOut_m {k : ℕ} (h : k < S.N) :
    (unfoldOut S).m k = ((S.m k ^^ fo (totalFlat S.shape) (totalSamples S.shape) k)
      || (S.m (mirrorFlat S.N k) ^^ fo (totalFlat S.shape) (totalSamples S.shape) (mirrorFlat S.N k))
      || cornerFlat S.N k) :=
  unfoldOut_m_of S unfoldMaskOK rfl h

theorem foldSpec_eq : foldSpec S = if S.folded then .raise "ValueError" else .ok (foldOut S) :=
  foldSpec_eq_of S guardsOK
theorem unfoldSpec_eq : unfoldSpec S = if S.folded then .ok (unfoldOut S) else .raise "ValueError" :=
  unfoldSpec_eq_of S guardsOK

end outs

end Fold
end DadiVerif
