import DadiVerif.Model.Fold
import Mathlib.Algebra.BigOperators.Ring.Finset
import Mathlib.Algebra.BigOperators.Intervals
import Mathlib.Algebra.BigOperators.Field
import Mathlib.Algebra.Order.Field.Rat
import Mathlib.Tactic.FieldSimp
import Mathlib.Tactic.Ring
import Mathlib.Tactic.Linarith
import Mathlib.Tactic.Push
/-!
Helper lemmas for C09.

Part A: the *generated* pointwise programs of `Spectrum.fold` / `Spectrum.unfold`
(Generated/Fold.lean) equal the closed forms of the property statement, over an abstract index
type with local hypotheses at one index (`mirror (mirror i) = i`, `total (mirror i) = T − total i`,
`total i ≤ T`).  Part B: the flat C-order instance satisfies these hypotheses (the only place
with index arithmetic).  Part C: sums over `List.range` as `Finset` sums, reflection.
-/
namespace DadiVerif
namespace Fold
open Gen.Fold Finset

/-! ### Part A — generated programs = closed forms -/
section pointwise
variable {ι : Type} (mirror : ι → ι) (total : ι → ℕ) (T : ℕ) (x : ι → ℚ) (m : ι → Bool)

/-- closed form of the folded data -/
def sfold (i : ι) : ℚ :=
  if 2 * total i > T then 0
  else if 2 * total i = T then (x i + x (mirror i)) / 2
  else x i + x (mirror i)

/-- entry is "folded out" (its minor-allele mirror is kept instead) -/
def fo (i : ι) : Bool := decide (2 * total i > T)

theorem whereFoldedOut_eq (i : ι) : fold_where_folded_out_1 mirror total T x m i = fo total T i := by
  unfold fold_where_folded_out_1 fo
  congr 1
  apply propext
  constructor <;> intro h <;> omega

theorem unfold_whereFoldedOut_eq (i : ι) : unfold_where_folded_out_1 mirror total T x m i = fo total T i := by
  unfold unfold_where_folded_out_1 fo
  congr 1
  apply propext
  constructor <;> intro h <;> omega

theorem whereAmbiguous_eq (i : ι) :
    fold_where_ambiguous_1 mirror total T x m i = decide (2 * total i = T) := by
  unfold fold_where_ambiguous_1
  rw [Bool.eq_iff_iff]
  simp only [beq_iff_eq, decide_eq_true_eq]
  constructor
  · intro h
    have h2 : (2 : ℚ) * (total i : ℚ) = (T : ℚ) := by rw [h]; ring
    exact_mod_cast h2
  · intro h
    have h2 : (2 : ℚ) * (total i : ℚ) = (T : ℚ) := by exact_mod_cast h
    rw [← h2]; ring

variable {mirror total T}

/-- local hypotheses at index `i` -/
structure Loc (mirror : ι → ι) (total : ι → ℕ) (T : ℕ) (i : ι) : Prop where
  invol : mirror (mirror i) = i
  tot   : total (mirror i) = T - total i
  le    : total i ≤ T

theorem Loc.mir {i : ι} (h : Loc mirror total T i) : Loc mirror total T (mirror i) where
  invol := by rw [h.invol]
  tot := by rw [h.invol, h.tot]; have := h.le; omega
  le := by rw [h.tot]; omega

/-- the generated program of `Spectrum.fold` computes the closed form -/
theorem fold_outData_eq {i : ι} (h : Loc mirror total T i) :
    fold_outData mirror total T x m i = sfold mirror total T x i := by
  have h1 := h.tot; have h2 := h.le
  unfold fold_outData fold_folded_3 fold_folded_2 fold_folded_1 fold_reversed_1 fold_ambiguous_1 sfold
  simp only [whereFoldedOut_eq, whereAmbiguous_eq, fo, decide_eq_true_eq]
  split_ifs <;> first | (exfalso; omega) | ring

/-- the generated mask program of `Spectrum.fold` (before corner masking) -/
theorem fold_outMask_eq (i : ι) :
    fold_outMask mirror total T x m i = (m i || m (mirror i) || fo total T i) := by
  unfold fold_outMask fold_final_mask_2 fold_final_mask_1
  rw [whereFoldedOut_eq]

theorem unfold_outData_eq (i : ι) :
    unfold_outData mirror total T x m i = (x i + x (mirror i)) / 2 := by
  unfold unfold_outData unfold_newdata_1 unfold_reversed_data_1; rfl

theorem unfold_outMask_eq (i : ι) :
    unfold_outMask mirror total T x m i
      = ((m i ^^ fo total T i) || (m (mirror i) ^^ fo total T (mirror i))) := by
  unfold unfold_outMask unfold_newmask_2 unfold_newmask_1
  simp only [unfold_whereFoldedOut_eq]

/-- an entry and its mirror are never both folded out -/
theorem fo_not_both {i : ι} (h : Loc mirror total T i) : ¬ (fo total T i = true ∧ fo total T (mirror i) = true) := by
  have h1 := h.tot; have h2 := h.le
  unfold fo; simp only [decide_eq_true_eq]; omega

theorem sfold_mirror_arg {i : ι} (h : Loc mirror total T i) :
    sfold mirror total T (fun j => x (mirror j)) i = sfold mirror total T x i := by
  unfold sfold; simp only [h.invol]; split_ifs <;> ring

/-- fold ∘ unfold ∘ fold = fold on the data (closed forms) -/
theorem sfold_unfold_sfold {i : ι} (h : Loc mirror total T i) :
    sfold mirror total T (fun j => (sfold mirror total T x j + sfold mirror total T x (mirror j)) / 2) i
      = sfold mirror total T x i := by
  have hm := h.invol; have h1 := h.tot; have h2 := h.le
  have h3 := h.mir.tot; have h4 := h.mir.le
  unfold sfold
  simp only [hm]
  split_ifs <;> first | (exfalso; omega) | ring

/-- mask algebra of fold ∘ unfold ∘ fold, corner masking included (`c` = corner indicator, mirror-symmetric) -/
theorem mask_fuf {i : ι} (h : Loc mirror total T i) (c : ι → Bool) (hc : c (mirror i) = c i) :
    let M : ι → Bool := fun j => m j || m (mirror j) || fo total T j || c j
    let U : ι → Bool := fun j => (M j ^^ fo total T j) || (M (mirror j) ^^ fo total T (mirror j)) || c j
    (U i || U (mirror i) || fo total T i || c i) = M i := by
  intro M U
  have hnb := fo_not_both h
  simp only [M, U, h.invol, hc]
  cases m i <;> cases m (mirror i) <;> cases c i <;> cases hf : fo total T i <;>
    cases hg : fo total T (mirror i) <;> simp_all

/-- coefficient form used for the total -/
def coef (total : ι → ℕ) (T : ℕ) (i : ι) : ℚ :=
  if 2 * total i > T then 0 else if 2 * total i = T then 1/2 else 1

theorem sfold_coef (i : ι) :
    sfold mirror total T x i = coef total T i * x i + coef total T i * x (mirror i) := by
  unfold sfold coef; split_ifs <;> ring

theorem coef_add {i : ι} (h : Loc mirror total T i) : coef total T i + coef total T (mirror i) = 1 := by
  have h1 := h.tot; have h2 := h.le
  unfold coef
  split_ifs <;> first | (exfalso; omega) | norm_num

end pointwise


/-! ### Part B — the flat C-order instance (the only index arithmetic) -/

theorem mirrorFlat_lt {N k : ℕ} (h : k < N) : mirrorFlat N k < N := by unfold mirrorFlat; omega
theorem mirrorFlat_invol {N k : ℕ} (h : k < N) : mirrorFlat N (mirrorFlat N k) = k := by unfold mirrorFlat; omega

theorem prodL_pos_of_lt {shape : List ℕ} {k : ℕ} (h : k < prodL shape) : 0 < prodL shape := by omega

/-- digits of `N-1-k`: quotient and remainder by the stride `P` -/
theorem reflect_divmod (s P k : ℕ) (hP : 0 < P) (hk : k < s * P) :
    (s * P - 1 - k) / P = s - 1 - k / P ∧ (s * P - 1 - k) % P = P - 1 - k % P := by
  have hq : k / P < s := (Nat.div_lt_iff_lt_mul hP).mpr hk
  have hr : k % P < P := Nat.mod_lt _ hP
  have hk' : P * (k / P) + k % P = k := Nat.div_add_mod k P
  obtain ⟨e, he⟩ : ∃ e, s = k / P + 1 + e := ⟨s - 1 - k / P, by omega⟩
  rw [Nat.div_mod_unique hP]
  refine ⟨?_, by omega⟩
  have e1 : s - 1 - k / P = e := by omega
  rw [e1]
  have e2 : s * P = P * (k / P) + P + P * e := by rw [he]; ring
  omega

/-- reversing the flat array reverses every axis of the multi-index -/
theorem unflat_mirror : ∀ (shape : List ℕ) (k : ℕ), k < prodL shape →
    unflat shape (mirrorFlat (prodL shape) k) = mirrorIdx shape (unflat shape k)
  | [], _, _ => rfl
  | s :: ss, k, h => by
      have hP : 0 < prodL ss := by
        rcases Nat.eq_zero_or_pos (prodL ss) with h0 | h0
        · simp [prodL, h0] at h
        · exact h0
      have hk : k < s * prodL ss := h
      obtain ⟨k1, k2⟩ := reflect_divmod s (prodL ss) k hP hk
      have ih := unflat_mirror ss (k % prodL ss) (Nat.mod_lt _ hP)
      unfold mirrorFlat at ih ⊢
      simp only [unflat, prodL, mirrorIdx]
      rw [k1, k2, ih]

/-- every component of `unflat shape k` is in range -/
theorem unflat_lt : ∀ (shape : List ℕ) (k : ℕ), k < prodL shape →
    List.Forall₂ (fun i s => i < s) (unflat shape k) shape
  | [], _, _ => List.Forall₂.nil
  | s :: ss, k, h => by
      have hP : 0 < prodL ss := by
        rcases Nat.eq_zero_or_pos (prodL ss) with h0 | h0
        · simp [prodL, h0] at h
        · exact h0
      have hk : k < s * prodL ss := h
      simp only [unflat]
      exact List.Forall₂.cons ((Nat.div_lt_iff_lt_mul hP).mpr hk) (unflat_lt ss _ (Nat.mod_lt _ hP))

theorem totalSamples_cons (s : ℕ) (ss : List ℕ) : totalSamples (s :: ss) = (s - 1) + totalSamples ss := by
  simp [totalSamples]

theorem sum_mirrorIdx {idx shape : List ℕ} (h : List.Forall₂ (fun i s => i < s) idx shape) :
    (mirrorIdx shape idx).sum + idx.sum = totalSamples shape := by
  induction h with
  | nil => simp [mirrorIdx, totalSamples]
  | cons hlt _ ih =>
    simp only [mirrorIdx, List.sum_cons, totalSamples_cons]
    omega

/-- total of the mirror entry + total of the entry = total sample size -/
theorem totalFlat_mirror {shape : List ℕ} {k : ℕ} (h : k < prodL shape) :
    totalFlat shape (mirrorFlat (prodL shape) k) + totalFlat shape k = totalSamples shape := by
  unfold totalFlat
  rw [unflat_mirror shape k h]
  exact sum_mirrorIdx (unflat_lt shape k h)

/-- the flat instance satisfies the local hypotheses of Part A at every index in range -/
theorem loc_flat {shape : List ℕ} {k : ℕ} (h : k < prodL shape) :
    Loc (mirrorFlat (prodL shape)) (totalFlat shape) (totalSamples shape) k where
  invol := mirrorFlat_invol h
  tot := by have := totalFlat_mirror h; omega
  le := by have := totalFlat_mirror h; omega

/-! ### arrays built by `tabulate` -/
theorem tabulate_size {α : Type} (N : ℕ) (f : ℕ → α) : (tabulate N f).size = N := by
  simp [tabulate]

theorem tabulate_getD {α : Type} (N : ℕ) (f : ℕ → α) (d : α) {k : ℕ} (h : k < N) :
    (tabulate N f).getD k d = f k := by
  simp [tabulate, Array.getD, h]

theorem tabulate_congr {α : Type} (N : ℕ) (f g : ℕ → α) (h : ∀ k < N, f k = g k) :
    tabulate N f = tabulate N g := by
  unfold tabulate
  congr 1
  funext k
  exact h k.val k.isLt

/-! ### Part C — sums over `range N` with the reflection `k ↦ N-1-k` -/

theorem foldl_add_eq_sum (f : ℕ → ℚ) (n : ℕ) :
    (List.range n).foldl (fun acc k => acc + f k) 0 = ∑ k ∈ range n, f k := by
  induction n with
  | zero => simp
  | succ n ih => rw [List.range_succ, List.foldl_append, ih, Finset.sum_range_succ]; simp

theorem sum_reflect (f : ℕ → ℚ) (N : ℕ) : ∑ k ∈ range N, f (mirrorFlat N k) = ∑ k ∈ range N, f k := by
  unfold mirrorFlat
  exact Finset.sum_range_reflect f N

/-- folding conserves the total over `range N` -/
theorem sfold_total (N : ℕ) (total : ℕ → ℕ) (T : ℕ) (x : ℕ → ℚ)
    (h : ∀ k < N, Loc (mirrorFlat N) total T k) :
    ∑ k ∈ range N, sfold (mirrorFlat N) total T x k = ∑ k ∈ range N, x k := by
  simp only [sfold_coef, Finset.sum_add_distrib]
  have e : ∑ k ∈ range N, coef total T k * x (mirrorFlat N k)
      = ∑ k ∈ range N, coef total T (mirrorFlat N k) * x k := by
    rw [← sum_reflect (fun k => coef total T (mirrorFlat N k) * x k) N]
    refine Finset.sum_congr rfl (fun k hk => ?_)
    rw [(h k (mem_range.mp hk)).invol]
  rw [e, ← Finset.sum_add_distrib]
  refine Finset.sum_congr rfl (fun k hk => ?_)
  rw [← add_mul, coef_add (h k (mem_range.mp hk)), one_mul]


/-! ### Part D — the executable model in closed form -/

theorem sfold_indicator {ι : Type} {mirror : ι → ι} {total : ι → ℕ} {T : ℕ} (x : ι → ℚ) (u : ι → Bool) {i : ι}
    (hu : u (mirror i) = u i) :
    sfold mirror total T (fun j => if u j then x j else 0) i = if u i then sfold mirror total T x i else 0 := by
  unfold sfold
  simp only [hu]
  split_ifs <;> simp

theorem sfold_congr {ι : Type} {mirror : ι → ι} {total : ι → ℕ} {T : ℕ} {x y : ι → ℚ} {i : ι}
    (h1 : x i = y i) (h2 : x (mirror i) = y (mirror i)) :
    sfold mirror total T x i = sfold mirror total T y i := by
  unfold sfold; rw [h1, h2]

theorem cornerFlat_mirror {N k : ℕ} (h : k < N) : cornerFlat N (mirrorFlat N k) = cornerFlat N k := by
  unfold cornerFlat mirrorFlat
  rw [Bool.eq_iff_iff]
  simp only [Bool.or_eq_true, beq_iff_eq]
  omega

theorem spec_eq_of {A B : Spec} (hs : A.shape = B.shape) (hd : A.data = B.data) (hm : A.mask = B.mask)
    (hf : A.folded = B.folded) (hp : A.popIds = B.popIds) : A = B := by
  cases A; cases B; simp_all

/-- abbreviations for statements: mirror index, per-entry total, total sample size of a spectrum -/
abbrev Spec.mir (S : Spec) (k : ℕ) : ℕ := mirrorFlat S.N k
abbrev Spec.tot (S : Spec) (k : ℕ) : ℕ := totalFlat S.shape k
abbrev Spec.T (S : Spec) : ℕ := totalSamples S.shape

theorem Spec.loc (S : Spec) {k : ℕ} (h : k < S.N) : Loc (mirrorFlat S.N) (totalFlat S.shape) (totalSamples S.shape) k :=
  loc_flat h

theorem sumData_eq (S : Spec) : sumData S = ∑ k ∈ range S.N, S.x k := foldl_add_eq_sum _ _
theorem sumUnmasked_eq (S : Spec) : sumUnmasked S = ∑ k ∈ range S.N, (if S.m k then 0 else S.x k) :=
  foldl_add_eq_sum _ _

theorem x_of_data {A : Spec} {N : ℕ} {f : ℕ → ℚ} (hd : A.data = tabulate N f) {k : ℕ} (h : k < N) : A.x k = f k := by
  unfold Spec.x; rw [hd, tabulate_getD _ _ _ h]
theorem m_of_mask {A : Spec} {N : ℕ} {f : ℕ → Bool} (hd : A.mask = tabulate N f) {k : ℕ} (h : k < N) : A.m k = f k := by
  unfold Spec.m; rw [hd, tabulate_getD _ _ _ h]

section outs
variable (S : Spec)

theorem foldOut_N : (foldOut S).N = S.N := rfl
theorem foldOut_data : (foldOut S).data
    = tabulate S.N fun k => fold_outData (mirrorFlat S.N) (totalFlat S.shape) (totalSamples S.shape) S.x S.m k := rfl
theorem foldOut_mask : (foldOut S).mask
    = tabulate S.N fun k => fold_outMask (mirrorFlat S.N) (totalFlat S.shape) (totalSamples S.shape) S.x S.m k
        || (fold_maskCorners && cornerFlat S.N k) := rfl
theorem foldOut_shape : (foldOut S).shape = S.shape := rfl
theorem foldOut_folded : (foldOut S).folded = true := rfl
theorem foldOut_popIds : (foldOut S).popIds = S.popIds := by simp [foldOut, fold_popIdsFromSelf]

theorem foldOut_x {k : ℕ} (h : k < S.N) :
    (foldOut S).x k = sfold (mirrorFlat S.N) (totalFlat S.shape) (totalSamples S.shape) S.x k := by
  show (tabulate S.N _).getD k _ = _
  rw [tabulate_getD _ _ _ h]
  exact fold_outData_eq S.x S.m (S.loc h)

theorem foldOut_m {k : ℕ} (h : k < S.N) :
    (foldOut S).m k = (S.m k || S.m (mirrorFlat S.N k) || fo (totalFlat S.shape) (totalSamples S.shape) k || cornerFlat S.N k) := by
  show (tabulate S.N _).getD k _ = _
  rw [tabulate_getD _ _ _ h, fold_outMask_eq]
  simp [fold_maskCorners]

theorem unfoldOut_N : (unfoldOut S).N = S.N := rfl
theorem unfoldOut_folded : (unfoldOut S).folded = false := rfl
theorem unfoldOut_popIds : (unfoldOut S).popIds = S.popIds := by simp [unfoldOut, unfold_popIdsFromSelf]

theorem unfoldOut_x {k : ℕ} (h : k < S.N) : (unfoldOut S).x k = (S.x k + S.x (mirrorFlat S.N k)) / 2 := by
  show (tabulate S.N _).getD k _ = _
  rw [tabulate_getD _ _ _ h, unfold_outData_eq]

theorem unfoldOut_m {k : ℕ} (h : k < S.N) :
    (unfoldOut S).m k = ((S.m k ^^ fo (totalFlat S.shape) (totalSamples S.shape) k)
      || (S.m (mirrorFlat S.N k) ^^ fo (totalFlat S.shape) (totalSamples S.shape) (mirrorFlat S.N k))
      || cornerFlat S.N k) := by
  show (tabulate S.N _).getD k _ = _
  rw [tabulate_getD _ _ _ h, unfold_outMask_eq]
  simp [unfold_maskCorners]

theorem reverseSpec_N : (reverseSpec S).N = S.N := rfl
theorem reverseSpec_x {k : ℕ} (h : k < S.N) : (reverseSpec S).x k = S.x (mirrorFlat S.N k) := by
  show (tabulate S.N _).getD k _ = _
  rw [tabulate_getD _ _ _ h]
theorem reverseSpec_m {k : ℕ} (h : k < S.N) : (reverseSpec S).m k = S.m (mirrorFlat S.N k) := by
  show (tabulate S.N _).getD k _ = _
  rw [tabulate_getD _ _ _ h]

theorem foldSpec_eq : foldSpec S = if S.folded then .raise "ValueError" else .ok (foldOut S) := by
  unfold foldSpec fold_raises fold_raisesWhat; rfl
theorem unfoldSpec_eq : unfoldSpec S = if S.folded then .ok (unfoldOut S) else .raise "ValueError" := by
  unfold unfoldSpec unfold_raises unfold_raisesWhat
  cases S.folded <;> rfl

end outs

/-! ### arithmetic templates -/

theorem guards_not_ok {ms : List String} {name : String} {S : Spec} {o : Operand} {r : Res}
    (h : guards ms name S o = some r) (R : Spec) : r ≠ .ok R := by
  unfold guards at h
  split_ifs at h <;> (cases h; intro hR; cases hR)

theorem guards_none {ms : List String} {name : String} {S : Spec} {o : Operand}
    (h : guards ms name S o = none) :
    name ∈ ms ∧ foldingRefused o.isSpectrum S.folded o.folded = false ∧ name ∉ ndarrayLacks ∧ o.fits S.N = true := by
  unfold guards at h
  split_ifs at h with h1 h2 h3 h4
  simp_all

theorem arithDefined_iff {M : Method} {S : Spec} {o : Operand} :
    arithDefined M S o = true ↔ ∀ k < S.N, (arith M (S.x k) (o.dataAt k)).isSome = true := by
  unfold arithDefined
  simp [List.all_eq_true]

theorem binop_ok {name : String} {S : Spec} {o : Operand} {R : Spec} (h : binop name S o = .ok R) :
    ∃ M, methodOf name = some M ∧ guards binaryMethods name S o = none ∧ arithDefined M S o = true
      ∧ R = binOut M S o := by
  unfold binop at h
  split at h
  · rename_i r hg; exact absurd h (guards_not_ok hg R)
  · rename_i hg
    split at h
    · cases h
    · rename_i M hM
      split_ifs at h with hd
      injection h with h
      exact ⟨M, hM, hg, by simpa using hd, h.symm⟩

theorem inplace_ok {name : String} {S : Spec} {o : Operand} {R : Spec} (h : inplace name S o = .ok R) :
    ∃ M, methodOf name = some M ∧ guards inplaceMethods name S o = none ∧ arithDefined M S o = true
      ∧ R = inplaceOut M S o := by
  unfold inplace at h
  split at h
  · rename_i r hg; exact absurd h (guards_not_ok hg R)
  · rename_i hg
    split at h
    · cases h
    · rename_i M hM
      split_ifs at h with h0 hd
      injection h with h
      exact ⟨M, hM, hg, by simpa using hd, h.symm⟩

theorem binOut_x {M : Method} {S : Spec} {o : Operand} (hd : arithDefined M S o = true) {k : ℕ} (h : k < S.N) :
    arith M (S.x k) (o.dataAt k) = some ((binOut M S o).x k) := by
  have := (arithDefined_iff.mp hd) k h
  have e : (binOut M S o).x k = (arith M (S.x k) (o.dataAt k)).getD 0 := by
    show (tabulate S.N _).getD k _ = _
    rw [tabulate_getD _ _ _ h]
  obtain ⟨v, hv⟩ := Option.isSome_iff_exists.mp this
  rw [e, hv]; rfl

theorem binOut_m {M : Method} {S : Spec} {o : Operand} {k : ℕ} (h : k < S.N) :
    (binOut M S o).m k = (S.m k || o.maskAt k) := by
  show (tabulate S.N _).getD k _ = _
  rw [tabulate_getD _ _ _ h]
  cases o <;> simp [binopMaskCorners, Operand.isMasked, Operand.maskAt]

theorem inplaceOut_x {M : Method} {S : Spec} {o : Operand} (hd : arithDefined M S o = true) {k : ℕ} (h : k < S.N) :
    arith M (S.x k) (o.dataAt k) = some ((inplaceOut M S o).x k) := by
  have := (arithDefined_iff.mp hd) k h
  have e : (inplaceOut M S o).x k = (arith M (S.x k) (o.dataAt k)).getD 0 := by
    show (tabulate S.N _).getD k _ = _
    rw [tabulate_getD _ _ _ h]
  obtain ⟨v, hv⟩ := Option.isSome_iff_exists.mp this
  rw [e, hv]; rfl

theorem inplaceOut_m {M : Method} {S : Spec} {o : Operand} {k : ℕ} (h : k < S.N) :
    (inplaceOut M S o).m k = (S.m k || o.maskAt k) := by
  show (tabulate S.N _).getD k _ = _
  rw [tabulate_getD _ _ _ h]
  cases o <;> simp [Operand.isMasked, Operand.maskAt]

theorem binopPopIds_eq (a b : Option (List String)) : binopPopIds a b = a.orElse fun _ => b := by
  unfold binopPopIds
  cases a <;> cases b <;> simp


theorem binop_eq_ok {name : String} {S : Spec} {o : Operand} {M : Method} (h1 : name ∈ binaryMethods)
    (h2 : foldingRefused o.isSpectrum S.folded o.folded = false) (h3 : name ∉ ndarrayLacks)
    (h4 : o.fits S.N = true) (h5 : methodOf name = some M) (h6 : arithDefined M S o = true) :
    binop name S o = .ok (binOut M S o) := by
  unfold binop guards
  simp [h1, h2, h3, h4, h5, h6]

theorem inplace_eq_ok {name : String} {S : Spec} {o : Operand} {M : Method} (h1 : name ∈ inplaceMethods)
    (h2 : foldingRefused o.isSpectrum S.folded o.folded = false) (h3 : name ∉ ndarrayLacks)
    (h4 : o.fits S.N = true) (h5 : methodOf name = some M) (h6 : arithDefined M S o = true) :
    inplace name S o = .ok (inplaceOut M S o) := by
  unfold inplace guards
  simp [h1, h2, h3, h4, h5, h6, inplaceShapeOk]

/-- sums, differences and products are always exact -/
theorem arithDefined_ring (M : Method) (A : Spec) (o : Operand) (hM : M.op = .add ∨ M.op = .sub ∨ M.op = .mul) :
    arithDefined M A o = true := by
  rw [arithDefined_iff]
  intro k _
  rcases hM with h | h | h <;> simp [arith, h]

end Fold
end DadiVerif
