import DadiVerif.Lemmas.PopOpsKernel
/-! C10: observational equality of spectra (same shape, same mask, same data at every unmasked entry — data under the
    mask are unspecified in numpy and never compared), and the fact that every operation of the model respects it.
    `Spectrum.project`'s loop as a list of one-axis steps. -/
namespace DadiVerif.PopOps

/-- what anyone can observe of a spectrum: shape, mask on the box, data at the unmasked entries of the box -/
def Obs (S T : FS) : Prop :=
  S.shape = T.shape ∧ ∀ j ∈ boxIdx S.shape, S.msk j = T.msk j ∧ (S.msk j = false → S.dat j = T.dat j)

/-- a spectrum without masked entries (and without empty axes) -/
def Clean (S : FS) : Prop := (∀ s ∈ S.shape, 1 ≤ s) ∧ ∀ i ∈ S.box, S.msk i = false

theorem Obs.refl (S : FS) : Obs S S := ⟨rfl, fun _ _ => ⟨rfl, fun _ => rfl⟩⟩

theorem Obs.symm {S T : FS} (h : Obs S T) : Obs T S := by
  obtain ⟨hs, hb⟩ := h
  refine ⟨hs.symm, fun j hj => ?_⟩
  rw [← hs] at hj
  obtain ⟨h1, h2⟩ := hb j hj
  exact ⟨h1.symm, fun hm => (h2 (by rw [h1]; exact hm)).symm⟩

theorem Obs.trans {S T U : FS} (h : Obs S T) (h' : Obs T U) : Obs S U := by
  obtain ⟨hs, hb⟩ := h
  obtain ⟨hs', hb'⟩ := h'
  refine ⟨hs.trans hs', fun j hj => ?_⟩
  obtain ⟨h1, h2⟩ := hb j hj
  obtain ⟨h1', h2'⟩ := hb' j (by rw [← hs]; exact hj)
  exact ⟨h1.trans h1', fun hm => (h2 hm).trans (h2' (by rw [← h1]; exact hm))⟩

theorem Obs.box_eq {S T : FS} (h : Obs S T) : T.box = S.box := by unfold FS.box; rw [h.1]

theorem Obs.val_eq {S T : FS} (h : Obs S T) (i : Idx) (hi : i ∈ S.box) : S.val i = T.val i := by
  obtain ⟨h1, h2⟩ := h.2 i hi
  unfold FS.val
  rw [← h1]
  cases hm : S.msk i
  · simp [h2 hm]
  · simp

theorem allL_congr (box : List Idx) (f : Idx → Idx) (m m' : Idx → Bool) (j : Idx)
    (h : ∀ i ∈ box, f i = j → m i = m' i) : allL box f m j = allL box f m' j := by
  rw [Bool.eq_iff_iff]
  simp only [allL, List.all_eq_true, List.mem_filter, beq_iff_eq, and_imp]
  constructor
  · intro hh i hi hij; rw [← h i hi hij]; exact hh i hi hij
  · intro hh i hi hij; rw [h i hi hij]; exact hh i hi hij

theorem anyL_congr (box : List Idx) (f : Idx → Idx) (m m' : Idx → Bool) (j : Idx)
    (h : ∀ i ∈ box, f i = j → m i = m' i) : anyL box f m j = anyL box f m' j := by
  rw [Bool.eq_iff_iff, anyL_iff, anyL_iff]
  constructor
  · rintro ⟨i, hi, hij, hm⟩; exact ⟨i, hi, hij, by rw [← h i hi hij]; exact hm⟩
  · rintro ⟨i, hi, hij, hm⟩; exact ⟨i, hi, hij, by rw [h i hi hij]; exact hm⟩

theorem anyL_false_iff (box : List Idx) (f : Idx → Idx) (b : Idx → Bool) (j : Idx) :
    anyL box f b j = false ↔ ∀ i ∈ box, f i = j → b i = false := by
  rw [← Bool.not_eq_true, anyL_iff]
  constructor
  · intro h i hi hij
    by_contra hc
    exact h ⟨i, hi, hij, by simpa using hc⟩
  · rintro h ⟨i, hi, hij, hb⟩
    rw [h i hi hij] at hb; exact absurd hb (by simp)

/-! ### every operation respects observational equality -/

theorem obs_sumAxis {S T : FS} (k : Nat) (h : Obs S T) : Obs (sumAxis k S) (sumAxis k T) := by
  have hbox := h.box_eq
  refine ⟨by show S.shape.eraseIdx k = T.shape.eraseIdx k; rw [h.1], fun j _ => ⟨?_, fun _ => ?_⟩⟩
  · show allL S.box _ S.msk j = allL T.box _ T.msk j
    rw [hbox]
    exact allL_congr _ _ _ _ _ (fun i hi _ => (h.2 i hi).1)
  · show pushL S.box _ S.val j = pushL T.box _ T.val j
    rw [hbox]
    exact pushL_congr _ _ _ _ _ (fun i hi _ => h.val_eq i hi)

theorem obs_projectAxis {S T : FS} (k m : Nat) (h : Obs S T) : Obs (projectAxis k m S) (projectAxis k m T) := by
  obtain ⟨hs, hb⟩ := h
  refine ⟨by show S.shape.set k (m + 1) = T.shape.set k (m + 1); rw [hs], fun j hj => ?_⟩
  have hj' : j ∈ boxIdx (S.shape.set k (m + 1)) := hj
  have hmsk : (projectAxis k m S).msk j = (projectAxis k m T).msk j := by
    rw [projectAxis_msk, projectAxis_msk, ← hs, Bool.eq_iff_iff, projMsk_iff, projMsk_iff]
    constructor
    · rintro ⟨hh, hhm, hw, hb'⟩
      exact ⟨hh, hhm, hw, by rw [← (hb _ (set_mem_box' S.shape k (m + 1) hh j hj' hhm)).1]; exact hb'⟩
    · rintro ⟨hh, hhm, hw, hb'⟩
      exact ⟨hh, hhm, hw, by rw [(hb _ (set_mem_box' S.shape k (m + 1) hh j hj' hhm)).1]; exact hb'⟩
  refine ⟨hmsk, fun hm => ?_⟩
  rw [projectAxis_dat, projectAxis_dat, ← hs]
  unfold projDat
  congr 1
  apply List.map_congr_left
  intro hh hhm
  rw [List.mem_range] at hhm
  by_cases hw : m - (S.shape.getD k 0 - 1 - hh) ≤ j.getD k 0 ∧ j.getD k 0 ≤ min hh m
  · have hmf : S.msk (j.set k hh) = false := by
      rw [projectAxis_msk] at hm
      by_contra hc
      have : projMsk k (S.shape.getD k 0) m S.msk j = true :=
        (projMsk_iff _ _ _ _ _).2 ⟨hh, hhm, hw, by simpa using hc⟩
      rw [this] at hm; exact absurd hm (by simp)
    rw [(hb _ (set_mem_box' S.shape k (m + 1) hh j hj' hhm)).2 hmf]
  · rw [projW_zero_of_not_win _ _ _ _ (by omega) hw]; simp

theorem obs_reorderCore {S T : FS} (axes : List Nat) (h : Obs S T) : Obs (reorderCore axes S) (reorderCore axes T) := by
  have hbox := h.box_eq
  refine ⟨by show permIdx 0 axes S.shape = permIdx 0 axes T.shape; rw [h.1], fun j _ => ?_⟩
  have hmsk : (reorderCore axes S).msk j = (reorderCore axes T).msk j := by
    show anyL S.box _ S.msk j = anyL T.box _ T.msk j
    rw [hbox]
    exact anyL_congr _ _ _ _ _ (fun i hi _ => (h.2 i hi).1)
  refine ⟨hmsk, fun hm => ?_⟩
  show pushL S.box _ S.dat j = pushL T.box _ T.dat j
  rw [hbox]
  apply pushL_congr
  intro i hi hij
  have : anyL S.box (permIdx 0 axes) S.msk j = false := hm
  rw [anyL_false_iff] at this
  exact (h.2 i hi).2 (this i hi hij)

theorem accMask_eq_anyL (box : List Idx) (f : Idx → Idx) (b : Idx → Bool) (j : Idx) :
    accMask ((box.filter fun i => f i == j).map b) = anyL box f b j := by
  rw [accMask_eq_any]; unfold anyL; rw [List.any_map]; rfl

theorem combineTwoCore_msk (a b : Nat) (S : FS) (j : Idx) :
    (combineTwoCore a b S).msk j = (anyL S.box (merge2 a b) S.msk j || isCorner (mergeShape a b S.shape) j) := by
  show (accMask _ || _) = _
  rw [accMask_eq_anyL]

theorem obs_combineTwoCore {S T : FS} (a b : Nat) (h : Obs S T) : Obs (combineTwoCore a b S) (combineTwoCore a b T) := by
  have hbox := h.box_eq
  refine ⟨by show mergeShape a b S.shape = mergeShape a b T.shape; rw [h.1], fun j _ => ⟨?_, fun _ => ?_⟩⟩
  · rw [combineTwoCore_msk, combineTwoCore_msk, hbox, ← h.1]
    congr 1
    exact anyL_congr _ _ _ _ _ (fun i hi _ => (h.2 i hi).1)
  · show pushL S.box _ S.val j = pushL T.box _ T.val j
    rw [hbox]
    exact pushL_congr _ _ _ _ _ (fun i hi _ => h.val_eq i hi)

theorem obs_marginalizeCore {S T : FS} (ks : List Nat) (h : Obs S T) : Obs (marginalizeCore ks S) (marginalizeCore ks T) := by
  induction ks generalizing S T with
  | nil => exact h
  | cons k ks ih => rw [marginalizeCore_cons, marginalizeCore_cons]; exact ih (obs_sumAxis k h)

theorem obs_combineIter {S T : FS} (a : Nat) (rs : List Nat) (h : Obs S T) : Obs (combineIter a rs S) (combineIter a rs T) := by
  induction rs generalizing S T with
  | nil => exact h
  | cons r rs ih => rw [combineIter_cons, combineIter_cons]; exact ih (obs_combineTwoCore a r h)

theorem obs_maskCorners {S T : FS} (h : Obs S T) : Obs (maskCorners S) (maskCorners T) := by
  refine ⟨h.1, fun j hj => ?_⟩
  obtain ⟨h1, h2⟩ := h.2 j hj
  refine ⟨by show (S.msk j || _) = (T.msk j || _); rw [h1, h.1], fun hm => ?_⟩
  have : (S.msk j || isCorner S.shape j) = false := hm
  rw [Bool.or_eq_false_iff] at this
  exact h2 this.1

/-! ### the loop of `Spectrum.project` as a list of steps (axis, target size) -/

def projSteps (ps : List (Nat × Nat)) (S : FS) : FS := ps.foldl (fun acc p => projectAxis p.1 p.2 acc) S

/-- the steps the loop performs: axis `p + i` to `ms[i]` unless that is already its size -/
def stepsF : Nat → List Nat → List Nat → List (Nat × Nat)
  | p, s :: ss, m :: ms => if m + 1 = s then stepsF (p + 1) ss ms else (p, m) :: stepsF (p + 1) ss ms
  | _, _, _ => []

theorem projSteps_cons (p : Nat × Nat) (ps : List (Nat × Nat)) (S : FS) :
    projSteps (p :: ps) S = projSteps ps (projectAxis p.1 p.2 S) := rfl

theorem projFrom_eq_steps (p : Nat) (ss ms : List Nat) (S : FS) :
    projFrom p ss ms S = projSteps (stepsF p ss ms) S := by
  induction ss generalizing p ms S with
  | nil => simp [projFrom, stepsF, projSteps]
  | cons s ss ih =>
    cases ms with
    | nil => simp [projFrom, stepsF, projSteps]
    | cons m ms =>
      simp only [projFrom, stepsF]
      split
      · exact ih _ _ _
      · rw [projSteps_cons]; exact ih _ _ _

theorem projectCore_eq_steps (ms : List Nat) (S : FS) : projectCore ms S = projSteps (stepsF 0 S.shape ms) S :=
  projFrom_eq_steps 0 S.shape ms S

theorem obs_projSteps {S T : FS} (ps : List (Nat × Nat)) (h : Obs S T) : Obs (projSteps ps S) (projSteps ps T) := by
  induction ps generalizing S T with
  | nil => exact h
  | cons p ps ih => rw [projSteps_cons, projSteps_cons]; exact ih (obs_projectAxis p.1 p.2 h)

theorem obs_projectCore {S T : FS} (ms : List Nat) (h : Obs S T) : Obs (projectCore ms S) (projectCore ms T) := by
  rw [projectCore_eq_steps, projectCore_eq_steps, ← h.1]
  exact obs_projSteps _ h

theorem projSteps_shape_length (ps : List (Nat × Nat)) (S : FS) : (projSteps ps S).shape.length = S.shape.length := by
  induction ps generalizing S with
  | nil => rfl
  | cons p ps ih => rw [projSteps_cons, ih]; simp [projectAxis_shape]

/-! ### cleanliness is preserved -/

theorem clean_projectAxis {S : FS} (k m : Nat) (h : Clean S) : Clean (projectAxis k m S) := by
  obtain ⟨h1, h2⟩ := h
  refine ⟨fun s hs => ?_, fun j hj => ?_⟩
  · rw [projectAxis_shape] at hs
    rcases List.mem_or_eq_of_mem_set hs with hs | hs
    · exact h1 s hs
    · omega
  · rw [projectAxis_msk, ← Bool.not_eq_true, projMsk_iff]
    rintro ⟨hh, hhm, _, hb⟩
    rw [h2 _ (set_mem_box' S.shape k (m + 1) hh j hj hhm)] at hb
    exact absurd hb (by simp)

theorem clean_projSteps {S : FS} (ps : List (Nat × Nat)) (h : Clean S) : Clean (projSteps ps S) := by
  induction ps generalizing S with
  | nil => exact h
  | cons p ps ih => rw [projSteps_cons]; exact ih (clean_projectAxis p.1 p.2 h)

theorem forall2_insertIdx {α β : Type} {R : α → β → Prop} {l : List α} {m : List β} (h : List.Forall₂ R l m) (k : Nat)
    {x : α} {y : β} (hxy : R x y) : List.Forall₂ R (l.insertIdx k x) (m.insertIdx k y) := by
  induction h generalizing k with
  | nil => cases k <;> simp [hxy]
  | cons hab hrest ih =>
    cases k with
    | zero => simp only [List.insertIdx_zero]; exact List.Forall₂.cons hxy (List.Forall₂.cons hab hrest)
    | succ k => simp only [List.insertIdx_succ_cons]; exact List.Forall₂.cons hab (ih k)

/-- every cell of the reduced box has a contributor (extents are positive) -/
theorem eraseIdx_fibre_nonempty (sh : List Nat) (k : Nat) (hk : k < sh.length) (hpos : ∀ s ∈ sh, 1 ≤ s)
    (j : Idx) (hj : j ∈ boxIdx (sh.eraseIdx k)) : ∃ i ∈ boxIdx sh, i.eraseIdx k = j := by
  refine ⟨j.insertIdx k 0, ?_, List.eraseIdx_insertIdx_self 0⟩
  rw [mem_boxIdx] at hj ⊢
  have h0 : 0 < sh[k] := hpos _ (List.getElem_mem hk)
  have := forall2_insertIdx hj k h0
  rwa [List.insertIdx_eraseIdx_getElem hk] at this

theorem clean_sumAxis {S : FS} (k : Nat) (hk : k < S.ndim) (h : Clean S) : Clean (sumAxis k S) := by
  obtain ⟨h1, h2⟩ := h
  refine ⟨fun s hs => h1 s (List.mem_of_mem_eraseIdx hs), fun j hj => ?_⟩
  obtain ⟨i, hi, hij⟩ := eraseIdx_fibre_nonempty S.shape k hk h1 j hj
  show allL S.box _ S.msk j = false
  rw [← Bool.not_eq_true]
  simp only [allL, List.all_eq_true, List.mem_filter, beq_iff_eq, and_imp]
  intro hall
  have := hall i hi hij
  rw [h2 i hi] at this; exact absurd this (by simp)

theorem Clean.val_eq {S : FS} (h : Clean S) (i : Idx) (hi : i ∈ S.box) : S.val i = S.dat i := by
  unfold FS.val; rw [h.2 i hi]; simp

end DadiVerif.PopOps
