import Mathlib.Analysis.SpecialFunctions.Log.Basic
import Mathlib.Tactic.FieldSimp
import Mathlib.Tactic.Ring
import Mathlib.Tactic.Linarith
import Mathlib.Tactic.Positivity
/-!
# Analysis behind C11 on lists of (model, data) pairs

`l : List (ℝ × ℝ)` is the list of (model value, data value) of the entries that count.
* `sum_pterm_scaled` : the Poisson log-likelihood of the model scaled by `θ`, as a function of `θ`;
* `multinom_max_list`: it is maximal at `θ = Σ data / Σ model`;
* `gibbs_list`, `gibbs_ll_list`: among all positive models, model ∝ data maximises the optimally scaled likelihood.
-/
namespace DadiVerif.Lik
noncomputable section

/-- Poisson log-probability of `p.2` given mean `p.1`, with `log` and `log Γ` as parameters:
    `−m + d·log m − lgam (d+1)` -/
def pterm (log lgam : ℝ → ℝ) (p : ℝ × ℝ) : ℝ := -p.1 + p.2 * log p.1 - lgam (p.2 + 1)

def sumM (l : List (ℝ × ℝ)) : ℝ := (l.map Prod.fst).sum
def sumD (l : List (ℝ × ℝ)) : ℝ := (l.map Prod.snd).sum

@[simp] theorem sumM_nil : sumM [] = 0 := rfl
@[simp] theorem sumD_nil : sumD [] = 0 := rfl
@[simp] theorem sumM_cons (p : ℝ × ℝ) (l : List (ℝ × ℝ)) : sumM (p :: l) = p.1 + sumM l := by simp [sumM]
@[simp] theorem sumD_cons (p : ℝ × ℝ) (l : List (ℝ × ℝ)) : sumD (p :: l) = p.2 + sumD l := by simp [sumD]

theorem sumM_pos (l : List (ℝ × ℝ)) (hm : ∀ p ∈ l, 0 < p.1) (hne : l ≠ []) : 0 < sumM l := by
  induction l with
  | nil => exact absurd rfl hne
  | cons p l ih =>
    rw [sumM_cons]
    have hp := hm p (by simp)
    by_cases hl : l = []
    · subst hl; simpa using hp
    · have := ih (fun q hq => hm q (by simp [hq])) hl
      linarith

theorem sumD_nonneg (l : List (ℝ × ℝ)) (hd : ∀ p ∈ l, 0 ≤ p.2) : 0 ≤ sumD l := by
  induction l with
  | nil => simp
  | cons p l ih =>
    rw [sumD_cons]
    have := hd p (by simp)
    have := ih (fun q hq => hd q (by simp [hq]))
    linarith

theorem ne_nil_of_sumD_pos (l : List (ℝ × ℝ)) (h : 0 < sumD l) : l ≠ [] := by
  rintro rfl; simp at h

theorem sum_map_le {β : Type} (l : List β) (f g : β → ℝ) (h : ∀ p ∈ l, f p ≤ g p) :
    (l.map f).sum ≤ (l.map g).sum := by
  induction l with
  | nil => simp
  | cons p l ih =>
    simp only [List.map_cons, List.sum_cons]
    have := h p (by simp)
    have := ih (fun q hq => h q (by simp [hq]))
    linarith

theorem sum_filter_of_zero {β : Type} (l : List β) (q : β → Bool) (f : β → ℝ)
    (h : ∀ p ∈ l, q p = false → f p = 0) : ((l.filter q).map f).sum = (l.map f).sum := by
  induction l with
  | nil => simp
  | cons p l ih =>
    have ih' := ih (fun r hr => h r (by simp [hr]))
    cases hq : q p
    · simp [hq, ih', h p (by simp) hq]
    · simp [hq, ih']

theorem sum_map_sub {β : Type} (l : List β) (f g : β → ℝ) :
    (l.map fun p => f p - g p).sum = (l.map f).sum - (l.map g).sum := by
  induction l with
  | nil => simp
  | cons p l ih => simp only [List.map_cons, List.sum_cons, ih]; ring

theorem sum_snd_mul_const (l : List (ℝ × ℝ)) (c : ℝ) : (l.map fun p : ℝ × ℝ => p.2 * c).sum = sumD l * c := by
  induction l with
  | nil => simp
  | cons p l ih => simp only [List.map_cons, List.sum_cons, ih, sumD_cons]; ring

/-- the Poisson log-likelihood of `θ·model`, as a function of `θ > 0` (model entries positive) -/
theorem sum_pterm_scaled (lgam : ℝ → ℝ) (l : List (ℝ × ℝ)) (θ : ℝ) (hθ : 0 < θ) (hm : ∀ p ∈ l, 0 < p.1) :
    (l.map fun p => pterm Real.log lgam (θ * p.1, p.2)).sum
      = sumD l * Real.log θ - θ * sumM l + (l.map fun p => p.2 * Real.log p.1 - lgam (p.2 + 1)).sum := by
  induction l with
  | nil => simp
  | cons p l ih =>
    have hp := hm p (by simp)
    have ih' := ih (fun q hq => hm q (by simp [hq]))
    simp only [List.map_cons, List.sum_cons, sumD_cons, sumM_cons]
    rw [ih']
    simp only [pterm]
    rw [Real.log_mul hθ.ne' hp.ne']
    ring

/-- the optimal scaling maximises the Poisson log-likelihood in θ (D = Σ data > 0, M = Σ model > 0) -/
theorem multinom_max (D M θ : ℝ) (hD : 0 < D) (hM : 0 < M) (hθ : 0 < θ) :
    D * Real.log θ - θ * M ≤ D * Real.log (D / M) - (D / M) * M := by
  have hpos : 0 < θ * M / D := by positivity
  have h := Real.log_le_sub_one_of_pos hpos
  have e : Real.log (θ * M / D) = Real.log θ - Real.log (D / M) := by
    rw [show θ * M / D = θ / (D / M) by field_simp]
    exact Real.log_div hθ.ne' (by positivity)
  rw [e] at h
  have : (D / M) * M = D := by field_simp
  rw [this]
  nlinarith [mul_le_mul_of_nonneg_left h hD.le, mul_div_cancel₀ (θ*M) hD.ne']

theorem multinom_max_list (lgam : ℝ → ℝ) (l : List (ℝ × ℝ)) (θ : ℝ) (hθ : 0 < θ) (hm : ∀ p ∈ l, 0 < p.1)
    (hD : 0 < sumD l) :
    (l.map fun p => pterm Real.log lgam (θ * p.1, p.2)).sum
      ≤ (l.map fun p => pterm Real.log lgam (sumD l / sumM l * p.1, p.2)).sum := by
  have hM : 0 < sumM l := sumM_pos l hm (ne_nil_of_sumD_pos l hD)
  rw [sum_pterm_scaled lgam l θ hθ hm, sum_pterm_scaled lgam l _ (div_pos hD hM) hm]
  have := multinom_max (sumD l) (sumM l) θ hD hM hθ
  linarith

/-- Gibbs' inequality on a list: weights `d ≥ 0` (not all zero), any positive `m` -/
theorem gibbs_list (l : List (ℝ × ℝ)) (hd : ∀ p ∈ l, 0 ≤ p.2) (hm : ∀ p ∈ l, 0 < p.1) (hD : 0 < sumD l) :
    (l.map fun p => p.2 * Real.log (p.1 / sumM l)).sum ≤ (l.map fun p => p.2 * Real.log (p.2 / sumD l)).sum := by
  have hM : 0 < sumM l := sumM_pos l hm (ne_nil_of_sumD_pos l hD)
  set D := sumD l with hDdef
  set M := sumM l with hMdef
  have key : ∀ p ∈ l, p.2 * Real.log (p.1 / M) - p.2 * Real.log (p.2 / D) ≤ p.1 * D / M - p.2 := by
    intro p hp
    have hmi := hm p hp
    rcases (hd p hp).eq_or_lt with h0 | hdi
    · rw [← h0]; simp only [zero_mul, sub_zero]; positivity
    · have hpos : 0 < (p.1 / M) / (p.2 / D) := by positivity
      have h := Real.log_le_sub_one_of_pos hpos
      rw [Real.log_div (by positivity) (by positivity)] at h
      have : p.2 * ((p.1 / M) / (p.2 / D) - 1) = p.1 * D / M - p.2 := by field_simp
      nlinarith [mul_le_mul_of_nonneg_left h hdi.le]
  have hsum := sum_map_le l _ _ key
  have e1 : (l.map fun p : ℝ × ℝ => p.2 * Real.log (p.1 / M) - p.2 * Real.log (p.2 / D)).sum
      = (l.map fun p : ℝ × ℝ => p.2 * Real.log (p.1 / M)).sum - (l.map fun p : ℝ × ℝ => p.2 * Real.log (p.2 / D)).sum :=
    sum_map_sub l _ _
  have e2 : ∀ (c : ℝ) (l : List (ℝ × ℝ)), (l.map fun p : ℝ × ℝ => p.1 * c - p.2).sum = sumM l * c - sumD l := by
    intro c l
    induction l with
    | nil => simp
    | cons p l ih => simp only [List.map_cons, List.sum_cons, ih, sumM_cons, sumD_cons]; ring
  have e3 : (l.map fun p : ℝ × ℝ => p.1 * D / M - p.2).sum = 0 := by
    have := e2 (D / M) l
    have h2 : (fun p : ℝ × ℝ => p.1 * D / M - p.2) = fun p : ℝ × ℝ => p.1 * (D / M) - p.2 := by
      funext p; ring
    rw [h2, this, ← hMdef, ← hDdef]; field_simp; ring
  rw [e1, e3] at hsum
  linarith

theorem pterm_diag_sum (lgam : ℝ → ℝ) (l : List (ℝ × ℝ)) :
    (l.map fun p : ℝ × ℝ => pterm Real.log lgam (p.2, p.2)).sum
      = -sumD l + (l.map fun p : ℝ × ℝ => p.2 * Real.log p.2).sum - (l.map fun p : ℝ × ℝ => lgam (p.2 + 1)).sum := by
  induction l with
  | nil => simp
  | cons p l ih =>
    simp only [List.map_cons, List.sum_cons, sumD_cons]
    rw [ih]; simp only [pterm]; ring

/-- the optimally scaled Poisson log-likelihood of any positive model is at most that of the model equal to the data
    (entries with data = 0 contribute `−lgam 1` there, hence the hypothesis `lgam 1 = 0`, true of `log Γ`) -/
theorem gibbs_ll_list (lgam : ℝ → ℝ) (l : List (ℝ × ℝ)) (hd : ∀ p ∈ l, 0 ≤ p.2) (hm : ∀ p ∈ l, 0 < p.1)
    (hD : 0 < sumD l) :
    (l.map fun p => pterm Real.log lgam (sumD l / sumM l * p.1, p.2)).sum
      ≤ (l.map fun p => pterm Real.log lgam (p.2, p.2)).sum := by
  have hM : 0 < sumM l := sumM_pos l hm (ne_nil_of_sumD_pos l hD)
  rw [sum_pterm_scaled lgam l _ (div_pos hD hM) hm]
  have hg := gibbs_list l hd hm hD
  set D := sumD l with hDdef
  set M := sumM l with hMdef
  -- rewrite both Gibbs sums
  have a1 : (l.map fun p : ℝ × ℝ => p.2 * Real.log (p.1 / M)).sum
      = (l.map fun p : ℝ × ℝ => p.2 * Real.log p.1).sum - D * Real.log M := by
    have : ∀ p ∈ l, p.2 * Real.log (p.1 / M) = p.2 * Real.log p.1 - p.2 * Real.log M := by
      intro p hp; rw [Real.log_div (hm p hp).ne' hM.ne']; ring
    rw [List.map_congr_left this, sum_map_sub, sum_snd_mul_const]
  have a2 : (l.map fun p : ℝ × ℝ => p.2 * Real.log (p.2 / D)).sum
      = (l.map fun p : ℝ × ℝ => p.2 * Real.log p.2).sum - D * Real.log D := by
    have : ∀ p ∈ l, p.2 * Real.log (p.2 / D) = p.2 * Real.log p.2 - p.2 * Real.log D := by
      intro p hp
      rcases (hd p hp).eq_or_lt with h0 | hdi
      · rw [← h0]; simp
      · rw [Real.log_div hdi.ne' hD.ne']; ring
    rw [List.map_congr_left this, sum_map_sub, sum_snd_mul_const]
  have a3 : (l.map fun p : ℝ × ℝ => p.2 * Real.log p.1 - lgam (p.2 + 1)).sum
      = (l.map fun p : ℝ × ℝ => p.2 * Real.log p.1).sum - (l.map fun p : ℝ × ℝ => lgam (p.2 + 1)).sum :=
    sum_map_sub l _ _
  have a4 : (l.map fun p : ℝ × ℝ => pterm Real.log lgam (p.2, p.2)).sum
      = -D + (l.map fun p : ℝ × ℝ => p.2 * Real.log p.2).sum - (l.map fun p : ℝ × ℝ => lgam (p.2 + 1)).sum := by
    exact pterm_diag_sum lgam l
  have hlog : Real.log (D / M) = Real.log D - Real.log M := Real.log_div hD.ne' hM.ne'
  have hDM : D / M * M = D := by field_simp
  rw [a1, a2] at hg
  rw [a3, a4, hlog, hDM]
  nlinarith [hg]

/-- the Poisson log-likelihood of the unscaled model in the same normal form as `sum_pterm_scaled` -/
theorem sum_pterm_unscaled (lgam : ℝ → ℝ) (l : List (ℝ × ℝ)) :
    (l.map (pterm Real.log lgam)).sum
      = - sumM l + (l.map fun p => p.2 * Real.log p.1 - lgam (p.2 + 1)).sum := by
  induction l with
  | nil => simp
  | cons p l ih =>
    simp only [List.map_cons, List.sum_cons, sumM_cons, ih, pterm]
    ring

/-- closed form of the rescaled Poisson log-likelihood: `ll(θ·model) = ll(model) + Σdata·log θ − (θ−1)·Σmodel`, all three
    sums over the same list of entries -/
theorem sum_pterm_scaled_closed (lgam : ℝ → ℝ) (l : List (ℝ × ℝ)) (θ : ℝ) (hθ : 0 < θ) (hm : ∀ p ∈ l, 0 < p.1) :
    (l.map fun p => pterm Real.log lgam (θ * p.1, p.2)).sum
      = (l.map (pterm Real.log lgam)).sum + sumD l * Real.log θ - (θ - 1) * sumM l := by
  rw [sum_pterm_scaled lgam l θ hθ hm, sum_pterm_unscaled]
  ring

end
end DadiVerif.Lik
