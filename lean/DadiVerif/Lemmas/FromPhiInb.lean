import DadiVerif.Lemmas.FromPhi
import Mathlib.Algebra.BigOperators.NatAntidiagonal
import Mathlib.Data.Nat.Choose.Sum
/-! C05 — inbreeding path: rising factorials, the beta-binomial sums to one (Chu–Vandermonde for rising factorials). -/
namespace DadiVerif.FromPhi
open Finset

theorem rising_succ (a : ℚ) (k : ℕ) : rising a (k+1) = rising a k * (a + k) := rfl

theorem rising_pos (a : ℚ) (ha : 0 < a) (k : ℕ) : 0 < rising a k := by
  induction k with
  | zero => simp [rising]
  | succ k ih => rw [rising_succ]; positivity

/-- Chu–Vandermonde for rising factorials: Σ_{i+j=P} C(P,i) a^(i) b^(j) = (a+b)^(P) -/
theorem rising_vandermonde (a b : ℚ) (P : ℕ) :
    ∑ ij ∈ antidiagonal P, (P.choose ij.1 : ℚ) * (rising a ij.1 * rising b ij.2) = rising (a + b) P := by
  induction P with
  | zero => simp [rising]
  | succ P ih =>
    rw [Finset.sum_antidiagonal_choose_succ_mul (fun i j => rising a i * rising b j) P, rising_succ, ← ih,
      Finset.sum_mul, ← Finset.sum_add_distrib]
    refine Finset.sum_congr rfl fun ij hij => ?_
    have hsum : ij.1 + ij.2 = P := mem_antidiagonal.mp hij
    have hsym : (P.choose ij.2 : ℚ) = (P.choose ij.1 : ℚ) := by
      have : P.choose ij.2 = P.choose ij.1 := by
        rw [← hsum, Nat.add_comm, Nat.choose_symm_add]
      rw [this]
    have hP : (P : ℚ) = (ij.1 : ℚ) + (ij.2 : ℚ) := by exact_mod_cast hsum.symm
    rw [hsym, rising_succ, rising_succ, hP]
    ring

/-- **the beta-binomial sampling probabilities of one individual sum to one** (a + b > 0, any ploidy) -/
theorem betaBinom_sum (P : ℕ) (a b : ℚ) (hab : 0 < a + b) : ∑ i ∈ range (P+1), betaBinom P i a b = 1 := by
  have hne : rising (a + b) P ≠ 0 := (rising_pos (a + b) hab P).ne'
  have h := rising_vandermonde a b P
  rw [Finset.Nat.sum_antidiagonal_eq_sum_range_succ (fun i j => (P.choose i : ℚ) * (rising a i * rising b j))] at h
  unfold betaBinom
  rw [← Finset.sum_div, div_eq_one_iff_eq hne, ← h]
  refine Finset.sum_congr rfl fun i _ => ?_
  rw [choose_eq]; ring

end DadiVerif.FromPhi
