import DadiVerif.Model.DataDict
import Mathlib.Tactic.SplitIfs
/-! Infrastructure for C13, round 6: the python text operations of the generated VCF reader (`pySplit`, `pySplitIdx`) and the loop over
    the INFO fields (`vcfAaOf`): a field that is not recognised can stand anywhere without effect, the first recognised field decides. -/
namespace DadiVerif.DataDict
open DadiVerif.Gen.DD

theorem pySplit_cons_sep (c x : Char) (xs : List Char) (h : (x == c) = true) : pySplit c (x :: xs) = [] :: pySplit c xs := by
  rw [pySplit.eq_2]; simp [h]

theorem pySplit_cons_other (c x : Char) (xs : List Char) (h : ¬ (x == c) = true) :
    pySplit c (x :: xs) = match pySplit c xs with
      | [] => [[x]]
      | a :: t => (x :: a) :: t := by
  rw [pySplit.eq_2]; simp only [h]; cases pySplit c xs <;> rfl

theorem pySplit_ne_nil (c : Char) (s : List Char) : pySplit c s ≠ [] := by
  induction s with
  | nil => simp [pySplit]
  | cons x xs ih =>
    by_cases hx : (x == c) = true
    · rw [pySplit_cons_sep c x xs hx]; simp
    · rw [pySplit_cons_other c x xs hx]; cases h : pySplit c xs <;> simp

/-- a text without the separator is its own only piece -/
theorem pySplit_of_not_mem (c : Char) (s : List Char) (h : c ∉ s) : pySplit c s = [s] := by
  induction s with
  | nil => simp [pySplit]
  | cons x xs ih =>
    have hx : ¬ (x == c) = true := by
      intro hxc; exact h (by simp [eq_of_beq hxc])
    have hxs : c ∉ xs := fun hm => h (List.mem_cons_of_mem _ hm)
    rw [pySplit_cons_other c x xs hx, ih hxs]

/-- the first piece is the text up to the first separator -/
theorem pySplitIdx_zero (c : Char) (s : List Char) : pySplitIdx c 0 s = some (s.takeWhile (· != c)) := by
  unfold pySplitIdx
  induction s with
  | nil => simp [pySplit]
  | cons x xs ih =>
    by_cases hx : (x == c) = true
    · have hne : (x != c) = false := by simp [bne, hx]
      rw [pySplit_cons_sep c x xs hx]; simp [List.takeWhile, hne]
    · have hne : (x != c) = true := by simpa [bne] using hx
      rw [pySplit_cons_other c x xs hx]
      cases h : pySplit c xs with
      | nil => exact absurd h (pySplit_ne_nil c xs)
      | cons a t =>
        rw [h] at ih
        simp at ih
        simp [List.takeWhile, hne, ih]

/-- a piece before the first separator, then the separator: the pieces of the rest follow -/
theorem pySplit_prefix (c : Char) (p v : List Char) (hp : c ∉ p) : pySplit c (p ++ c :: v) = p :: pySplit c v := by
  induction p with
  | nil => rw [List.nil_append, pySplit_cons_sep c c v (by simp)]
  | cons x xs ih =>
    have hx : ¬ (x == c) = true := by
      intro hxc; exact hp (by simp [eq_of_beq hxc])
    have hxs : c ∉ xs := fun hm => hp (List.mem_cons_of_mem _ hm)
    rw [List.cons_append, pySplit_cons_other c x _ hx, ih hxs]

/-- `(p ++ "=" ++ v).split('=')[1] = v` when neither `p` nor `v` contains '=' -/
theorem pySplitIdx_one (c : Char) (p v : List Char) (hp : c ∉ p) (hv : c ∉ v) : pySplitIdx c 1 (p ++ c :: v) = some v := by
  simp [pySplitIdx, pySplit_prefix c p v hp, pySplit_of_not_mem c v hv]

/-! ### the loop over the INFO fields -/

theorem vcfAaOf_decoy (a b : List (List Char)) (g : List Char) (hg : aaRecognised g = false) :
    vcfAaOf (a ++ g :: b) = vcfAaOf (a ++ b) := by
  unfold vcfAaOf
  induction a with
  | nil => simp [hg]
  | cons x xs ih =>
    by_cases hx : aaRecognised x = true
    · simp [hx]
    · simp only [List.cons_append, List.find?, hx]
      exact ih

theorem vcfAaOf_first (a b : List (List Char)) (f : List Char) (ha : ∀ g ∈ a, aaRecognised g = false)
    (hf : aaRecognised f = true) : vcfAaOf (a ++ f :: b) = aaOfField f := by
  unfold vcfAaOf
  induction a with
  | nil => simp [hf]
  | cons x xs ih =>
    have hx : aaRecognised x = false := ha x (List.mem_cons_self ..)
    simp only [List.cons_append, List.find?, hx]
    exact ih fun g hgm => ha g (List.mem_cons_of_mem _ hgm)

theorem vcfAaOf_none (info : List (List Char)) (h : ∀ g ∈ info, aaRecognised g = false) : vcfAaOf info = some vcfAaMissing := by
  unfold vcfAaOf
  have : info.find? aaRecognised = none := by
    rw [List.find?_eq_none]; intro g hg; simp [h g hg]
  rw [this]

end DadiVerif.DataDict
