import Mathlib.Analysis.SpecialFunctions.Integrals.Basic
import Mathlib.Analysis.Calculus.Deriv.Slope
/-!
# Theory side of the equilibrium starting densities `phi_1D_genic` / `phi_1D` (PhiManip.py)

dadi solves  ∂φ/∂τ = ½ ∂²/∂x² [x(1−x) φ/ν] − ∂/∂x [M(x) φ],  M(x) = 2γ (h + (1−2h) x) x(1−x).
With γ the *effective* selection coefficient (the code replaces `gamma` by `gamma·nu·4β/(β+1)²`) and without the
constant prefactor `nu·theta0·4β/(β+1)²`, the code computes, on the interior of the grid,

* genic (`phi_1D_genic`):  φ(x) = 1/(x(1−x)) · (1 − e^{−2γ(1−x)}) / (1 − e^{−2γ}),   stored value at x = 1: `2γ e^{2γ}/(e^{2γ} − 1)`;
* general dominance (`phi_1D`):  φ(x) = 1/(x(1−x)) · e^{Q(x)} · (∫_x^1 e^{−Q}) / (∫_0^1 e^{−Q}),  Q(x) = 4γh x + 2γ(1−2h) x²,
  stored value at x = 1: `1/int0`, `int0 = ∫_0^1 e^{−Q}`.

Write g(x) = x(1−x) φ(x).  Stationarity with mutation influx at 0 and absorption at 1 says: the probability flux
J(x) = −½ g'(x) + (Q'(x)/2) g(x) is constant in x (Q'(x)/2 = 2γ(h+(1−2h)x) = M(x)/(x(1−x))), g(0) = 1, g(1) = 0.

Everything below is over ℝ, for the exact closed forms (no floating point, no quadrature error).

* `theory_genic_stationary`      – the genic g solves the stationary equation, flux γ/(1−e^{−2γ}), g(0)=1, g(1)=0
* `theory_general_stationary`    – the general-h g solves it for all γ, h, flux 1/(2·int0), g(0)=1, g(1)=0, int0>0
* `theory_general_stationary_phi`– the same written for φ = g/(x(1−x)) and M, at interior points
* `theory_genic_is_general_half` – genic closed form = general formula at h = ½
* `theory_limit_at_one`          – the value stored at x = 1 is lim_{x→1⁻} φ(x); for h = ½ it is the `limit` expression
* `theory_neutral_limit`         – γ → 0: genic g → 1 − x (φ → 1/x, `phi_1D_snm`); also the general formula at γ = 0 is 1 − x
* `theory_genic_large_negative`  – the γ ≤ −300 branch e^{2γx}/(x(1−x)): |g − e^{2γx}| ≤ e^{2γ}
-/
namespace DadiVerif.Theory2
open Filter Topology intervalIntegral

/-! ## algebra with the exponentials abstracted (E = e^{2γ·}, A = e^{−2γ}, …) -/

theorem alg_half (E B A c : ℝ) (hc : c ≠ 0) (hA : 1 - A ≠ 0) (h : E * B = 1) :
    E * ((B - A) / c) / ((1 - A) / c) = (1 - E * A) / (1 - A) := by
  field_simp
  linear_combination h

theorem alg_limit (E A c : ℝ) (hA : 1 - A ≠ 0) (hE : E - 1 ≠ 0) (h : E * A = 1) :
    1 / ((1 - A) / c) = c * E / (E - 1) := by
  by_cases hc : c = 0
  · subst hc; simp
  field_simp
  linear_combination h

theorem alg_large (E A F : ℝ) (hA : 1 - A ≠ 0) (hE : 1 - E ≠ 0) (h1 : E * A = 1) :
    (1 - F) / (1 - A) - E * F = -(E * (1 - E * F) / (1 - E)) := by
  field_simp
  linear_combination (-(1 - F)) * h1

theorem exp_mul_exp_neg (γ : ℝ) : Real.exp (2 * γ) * Real.exp (-2 * γ) = 1 := by
  rw [← Real.exp_add, show 2 * γ + -2 * γ = 0 by ring, Real.exp_zero]

/-! ## genic case -/

/-- g for `phi_1D_genic` (γ is the effective coefficient): `(1-exp(-2γ(1-x)))/(1-exp(-2γ))` -/
noncomputable def gG (γ x : ℝ) : ℝ := (1 - Real.exp (-2 * γ * (1 - x))) / (1 - Real.exp (-2 * γ))

/-- its derivative in x -/
noncomputable def gG' (γ x : ℝ) : ℝ := -(2 * γ) * Real.exp (-2 * γ * (1 - x)) / (1 - Real.exp (-2 * γ))

/-- its second derivative in x -/
noncomputable def gG'' (γ x : ℝ) : ℝ := -(2 * γ) * (2 * γ) * Real.exp (-2 * γ * (1 - x)) / (1 - Real.exp (-2 * γ))

theorem one_sub_exp_ne_zero {γ : ℝ} (hγ : γ ≠ 0) : 1 - Real.exp (-2 * γ) ≠ 0 := by
  intro h
  have h1 : Real.exp (-2 * γ) = 1 := by linarith
  rw [Real.exp_eq_one_iff] at h1
  apply hγ; linarith

theorem hasDerivAt_exp_genic (γ x : ℝ) :
    HasDerivAt (fun y : ℝ => Real.exp (-2 * γ * (1 - y))) (Real.exp (-2 * γ * (1 - x)) * (2 * γ)) x := by
  have h0 : HasDerivAt (fun y : ℝ => -2 * γ * (1 - y)) (2 * γ) x := by
    have := ((hasDerivAt_id x).const_sub 1).const_mul (-2 * γ)
    refine this.congr_deriv ?_
    ring
  exact h0.exp

theorem gG_hasDerivAt (γ x : ℝ) : HasDerivAt (gG γ) (gG' γ x) x := by
  have h1 := ((hasDerivAt_exp_genic γ x).const_sub 1).div_const (1 - Real.exp (-2 * γ))
  refine h1.congr_deriv ?_
  unfold gG'
  ring

theorem gG'_hasDerivAt (γ x : ℝ) : HasDerivAt (gG' γ) (gG'' γ x) x := by
  have h1 := ((hasDerivAt_exp_genic γ x).const_mul (-(2 * γ))).div_const (1 - Real.exp (-2 * γ))
  refine h1.congr_deriv ?_
  unfold gG''
  ring

/-- the constant probability flux of the genic solution -/
theorem gG_flux {γ : ℝ} (hγ : γ ≠ 0) (x : ℝ) :
    -(1 / 2) * gG' γ x + γ * gG γ x = γ / (1 - Real.exp (-2 * γ)) := by
  have hD := one_sub_exp_ne_zero hγ
  unfold gG gG'
  field_simp
  ring

theorem gG_zero {γ : ℝ} (hγ : γ ≠ 0) : gG γ 0 = 1 := by
  have hD := one_sub_exp_ne_zero hγ
  unfold gG
  rw [sub_zero, mul_one]
  exact div_self hD

theorem gG_one (γ : ℝ) : gG γ 1 = 0 := by
  unfold gG
  simp

/-- **(1)** the genic closed form solves the stationary equation: for γ ≠ 0 and every x,
    `gG γ` is differentiable with derivative `gG' γ x`; the flux `−½ g' + γ g` equals the constant `γ/(1−e^{−2γ})`;
    `g(0) = 1`, `g(1) = 0`; and (second-order form) `g'` has derivative `gG'' γ x`, `½ g'' − γ g' = 0`, i.e. the
    derivative of `x ↦ ½ g'(x) − γ g(x)` is 0. -/
theorem theory_genic_stationary {γ : ℝ} (hγ : γ ≠ 0) :
    (∀ x, HasDerivAt (gG γ) (gG' γ x) x) ∧
    (∀ x, -(1 / 2) * gG' γ x + γ * gG γ x = γ / (1 - Real.exp (-2 * γ))) ∧
    gG γ 0 = 1 ∧ gG γ 1 = 0 ∧
    (∀ x, HasDerivAt (gG' γ) (gG'' γ x) x) ∧
    (∀ x, 1 / 2 * gG'' γ x - γ * gG' γ x = 0) ∧
    (∀ x, HasDerivAt (fun y => 1 / 2 * gG' γ y - γ * gG γ y) 0 x) := by
  have h2 : ∀ x, 1 / 2 * gG'' γ x - γ * gG' γ x = 0 := by
    intro x
    unfold gG'' gG'
    ring
  refine ⟨gG_hasDerivAt γ, gG_flux hγ, gG_zero hγ, gG_one γ, gG'_hasDerivAt γ, h2, ?_⟩
  intro x
  have h := ((gG'_hasDerivAt γ x).const_mul (1 / 2)).sub ((gG_hasDerivAt γ x).const_mul γ)
  exact h.congr_deriv (h2 x)

/-! ## general dominance -/

/-- Q(x) = 4γh x + 2γ(1−2h) x² -/
noncomputable def Q (γ h x : ℝ) : ℝ := 4 * γ * h * x + 2 * γ * (1 - 2 * h) * x ^ 2

/-- Q'(x) = 4γ(h + (1−2h)x);  Q'(x)/2 = M(x)/(x(1−x)) -/
noncomputable def Q' (γ h x : ℝ) : ℝ := 4 * γ * h + 4 * γ * (1 - 2 * h) * x

/-- the selection term of the diffusion equation, M(x) = 2γ (h + (1−2h) x) x(1−x) -/
noncomputable def M (γ h x : ℝ) : ℝ := 2 * γ * (h + (1 - 2 * h) * x) * x * (1 - x)

/-- I(x) = ∫_x^1 e^{−Q};  `int0 = I 0`, `ints[ii] = I xx[ii]` in `phi_1D` -/
noncomputable def I (γ h x : ℝ) : ℝ := ∫ ξ in x..1, Real.exp (-Q γ h ξ)

/-- g for `phi_1D` -/
noncomputable def gH (γ h x : ℝ) : ℝ := Real.exp (Q γ h x) * I γ h x / I γ h 0

/-- φ for `phi_1D` on the interior of the grid -/
noncomputable def phiH (γ h x : ℝ) : ℝ := gH γ h x / (x * (1 - x))

theorem Q_hasDerivAt (γ h x : ℝ) : HasDerivAt (Q γ h) (Q' γ h x) x := by
  have h1 : HasDerivAt (fun y : ℝ => 4 * γ * h * y) (4 * γ * h) x := by
    simpa using (hasDerivAt_id x).const_mul (4 * γ * h)
  have h2 : HasDerivAt (fun y : ℝ => 2 * γ * (1 - 2 * h) * y ^ 2) (2 * γ * (1 - 2 * h) * (2 * x)) x := by
    have := (hasDerivAt_pow 2 x).const_mul (2 * γ * (1 - 2 * h))
    simpa using this
  refine (h1.add h2).congr_deriv ?_
  unfold Q'
  ring

theorem continuous_integrand (γ h : ℝ) : Continuous (fun ξ : ℝ => Real.exp (-Q γ h ξ)) := by
  unfold Q
  fun_prop

/-- fundamental theorem of calculus: I'(x) = −e^{−Q(x)} -/
theorem I_hasDerivAt (γ h x : ℝ) : HasDerivAt (I γ h) (-Real.exp (-Q γ h x)) x := by
  have hc := continuous_integrand γ h
  have h1 := ((hc.integral_hasStrictDerivAt 1 x).hasDerivAt).fun_neg
  have e : (fun u : ℝ => -∫ ξ in (1:ℝ)..u, Real.exp (-Q γ h ξ)) = I γ h := by
    funext u
    unfold I
    rw [integral_symm, neg_neg]
  rw [← e]
  exact h1

/-- int0 > 0 -/
theorem I_zero_pos (γ h : ℝ) : 0 < I γ h 0 := by
  unfold I
  exact intervalIntegral_pos_of_pos ((continuous_integrand γ h).intervalIntegrable _ _)
    (fun x => Real.exp_pos _) zero_lt_one

theorem I_one (γ h : ℝ) : I γ h 1 = 0 := by
  unfold I
  exact integral_same

theorem gH_hasDerivAt (γ h x : ℝ) :
    HasDerivAt (gH γ h) (Q' γ h x * gH γ h x - 1 / I γ h 0) x := by
  have hI0 := (I_zero_pos γ h).ne'
  have hE : HasDerivAt (fun y => Real.exp (Q γ h y)) (Real.exp (Q γ h x) * Q' γ h x) x :=
    (Q_hasDerivAt γ h x).exp
  have h1 := (hE.mul (I_hasDerivAt γ h x)).div_const (I γ h 0)
  refine h1.congr_deriv ?_
  unfold gH
  have hcancel : Real.exp (Q γ h x) * Real.exp (-Q γ h x) = 1 := by
    rw [← Real.exp_add, add_neg_cancel, Real.exp_zero]
  field_simp
  linear_combination (-1 : ℝ) * hcancel

theorem gH_zero (γ h : ℝ) : gH γ h 0 = 1 := by
  have hI0 := (I_zero_pos γ h).ne'
  unfold gH
  have : Q γ h 0 = 0 := by unfold Q; ring
  rw [this, Real.exp_zero, one_mul]
  exact div_self hI0

theorem gH_one (γ h : ℝ) : gH γ h 1 = 0 := by
  unfold gH
  rw [I_one]
  simp

/-- **(2)** the general-dominance closed form solves the stationary equation, for all real γ, h:
    `gH γ h` has derivative `Q'(x)·gH(x) − 1/int0` at every x; hence the flux `−½ g' + (Q'/2) g` equals the
    constant `1/(2·int0)`; `g(0) = 1`, `g(1) = 0`, `int0 > 0`. -/
theorem theory_general_stationary (γ h : ℝ) :
    (∀ x, HasDerivAt (gH γ h) (Q' γ h x * gH γ h x - 1 / I γ h 0) x) ∧
    (∀ x, -(1 / 2) * deriv (gH γ h) x + Q' γ h x / 2 * gH γ h x = 1 / (2 * I γ h 0)) ∧
    gH γ h 0 = 1 ∧ gH γ h 1 = 0 ∧ 0 < I γ h 0 := by
  refine ⟨gH_hasDerivAt γ h, ?_, gH_zero γ h, gH_one γ h, I_zero_pos γ h⟩
  intro x
  rw [(gH_hasDerivAt γ h x).deriv]
  have hI0 := (I_zero_pos γ h).ne'
  field_simp
  ring

/-- the flux as a function is literally the constant function (so its derivative vanishes: the second-order
    stationary equation `(½ g' − (Q'/2) g)' = 0`) -/
theorem gH_flux_const (γ h : ℝ) :
    (fun x => -(1 / 2) * deriv (gH γ h) x + Q' γ h x / 2 * gH γ h x) = fun _ => 1 / (2 * I γ h 0) :=
  funext (theory_general_stationary γ h).2.1

theorem gH_flux_hasDerivAt (γ h x : ℝ) :
    HasDerivAt (fun x => 1 / 2 * deriv (gH γ h) x - Q' γ h x / 2 * gH γ h x) 0 x := by
  have e : (fun x => 1 / 2 * deriv (gH γ h) x - Q' γ h x / 2 * gH γ h x) = fun _ => -(1 / (2 * I γ h 0)) := by
    funext y
    have := (theory_general_stationary γ h).2.1 y
    linarith
  rw [e]
  exact hasDerivAt_const x _

/-- the same in the variables of the diffusion equation, at interior points x ∉ {0, 1}: with φ = `phiH`,
    `x(1−x)φ` has derivative `g'(x)`, `M φ = (Q'/2) g`, and the flux `−½ (x(1−x)φ)' + M φ = 1/(2·int0)`;
    moreover `y ↦ ½ (y(1−y)φ)'(y) − M(y) φ(y)` has derivative 0 at x (stationarity of the PDE, ν = 1 after the
    rescaling of γ). -/
theorem theory_general_stationary_phi (γ h x : ℝ) (hx0 : x ≠ 0) (hx1 : x ≠ 1) :
    x * (1 - x) * phiH γ h x = gH γ h x ∧
    M γ h x * phiH γ h x = Q' γ h x / 2 * gH γ h x ∧
    -(1 / 2) * deriv (fun y => y * (1 - y) * phiH γ h y) x + M γ h x * phiH γ h x = 1 / (2 * I γ h 0) ∧
    HasDerivAt (fun z => 1 / 2 * deriv (fun y => y * (1 - y) * phiH γ h y) z - M γ h z * phiH γ h z) 0 x := by
  have key : ∀ y : ℝ, y ≠ 0 → y ≠ 1 →
      y * (1 - y) * phiH γ h y = gH γ h y ∧ M γ h y * phiH γ h y = Q' γ h y / 2 * gH γ h y := by
    intro y hy0 hy1
    have h1 : 1 - y ≠ 0 := sub_ne_zero.mpr (Ne.symm hy1)
    constructor
    · unfold phiH
      field_simp
    · unfold phiH M Q'
      field_simp
      ring
  -- near an interior point, `y(1−y)φ(y)` coincides with `gH`
  have hne : ∀ z : ℝ, z ≠ 0 → z ≠ 1 → ∀ᶠ y in 𝓝 z, y ≠ 0 ∧ y ≠ 1 := fun z hz0 hz1 =>
    (isOpen_ne.eventually_mem hz0).and (isOpen_ne.eventually_mem hz1)
  have hev : ∀ z : ℝ, z ≠ 0 → z ≠ 1 → (fun y => y * (1 - y) * phiH γ h y) =ᶠ[𝓝 z] gH γ h := fun z hz0 hz1 =>
    (hne z hz0 hz1).mono fun y hy => (key y hy.1 hy.2).1
  have hderiv : ∀ z : ℝ, z ≠ 0 → z ≠ 1 →
      deriv (fun y => y * (1 - y) * phiH γ h y) z = deriv (gH γ h) z := fun z hz0 hz1 =>
    (hev z hz0 hz1).deriv_eq
  refine ⟨(key x hx0 hx1).1, (key x hx0 hx1).2, ?_, ?_⟩
  · rw [hderiv x hx0 hx1, (key x hx0 hx1).2]
    exact (theory_general_stationary γ h).2.1 x
  · have e : (fun z => 1 / 2 * deriv (fun y => y * (1 - y) * phiH γ h y) z - M γ h z * phiH γ h z)
        =ᶠ[𝓝 x] fun z => 1 / 2 * deriv (gH γ h) z - Q' γ h z / 2 * gH γ h z := by
      refine (hne x hx0 hx1).mono fun z hz => ?_
      show 1 / 2 * deriv (fun y => y * (1 - y) * phiH γ h y) z - M γ h z * phiH γ h z
        = 1 / 2 * deriv (gH γ h) z - Q' γ h z / 2 * gH γ h z
      rw [hderiv z hz.1 hz.2, (key z hz.1 hz.2).2]
    exact (gH_flux_hasDerivAt γ h x).congr_of_eventuallyEq e

/-! ## genic = general at h = ½ -/

/-- ∫_x^1 e^{−2γξ} dξ = (e^{−2γx} − e^{−2γ})/(2γ) -/
theorem I_half {γ : ℝ} (hγ : γ ≠ 0) (x : ℝ) :
    I γ (1 / 2) x = (Real.exp (-2 * γ * x) - Real.exp (-2 * γ)) / (2 * γ) := by
  have hQ : ∀ ξ : ℝ, Q γ (1 / 2) ξ = 2 * γ * ξ := by
    intro ξ; unfold Q; ring
  have hderiv : ∀ ξ ∈ Set.uIcc x 1,
      HasDerivAt (fun ξ : ℝ => -Real.exp (-2 * γ * ξ) / (2 * γ)) (Real.exp (-Q γ (1 / 2) ξ)) ξ := by
    intro ξ _
    have h0 : HasDerivAt (fun y : ℝ => -2 * γ * y) (-2 * γ) ξ := by
      simpa using (hasDerivAt_id ξ).const_mul (-2 * γ)
    have h1 := (h0.exp.neg).div_const (2 * γ)
    refine h1.congr_deriv ?_
    rw [hQ]
    have : -(2 * γ * ξ) = -2 * γ * ξ := by ring
    rw [this]
    field_simp
  have hint : IntervalIntegrable (fun ξ : ℝ => Real.exp (-Q γ (1 / 2) ξ)) MeasureTheory.volume x 1 :=
    (continuous_integrand γ (1 / 2)).intervalIntegrable _ _
  have h := integral_eq_sub_of_hasDerivAt hderiv hint
  unfold I
  rw [h, mul_one]
  field_simp
  ring

/-- **(3)** for h = ½ and γ ≠ 0 the general formula is the genic closed form -/
theorem theory_genic_is_general_half {γ : ℝ} (hγ : γ ≠ 0) (x : ℝ) : gH γ (1 / 2) x = gG γ x := by
  have hD := one_sub_exp_ne_zero hγ
  have hQ : Q γ (1 / 2) x = 2 * γ * x := by unfold Q; ring
  unfold gH gG
  rw [I_half hγ x, I_half hγ 0, hQ, mul_zero, Real.exp_zero]
  have e1 : Real.exp (2 * γ * x) * Real.exp (-2 * γ * x) = 1 := by
    rw [← Real.exp_add, show 2 * γ * x + -2 * γ * x = 0 by ring, Real.exp_zero]
  have e2 : Real.exp (2 * γ * x) * Real.exp (-2 * γ) = Real.exp (-2 * γ * (1 - x)) := by
    rw [← Real.exp_add, show 2 * γ * x + -2 * γ = -2 * γ * (1 - x) by ring]
  rw [← e2]
  exact alg_half _ _ _ _ (mul_ne_zero two_ne_zero hγ) hD e1

/-- as functions -/
theorem theory_genic_is_general_half' {γ : ℝ} (hγ : γ ≠ 0) : gH γ (1 / 2) = gG γ :=
  funext (theory_genic_is_general_half hγ)

/-! ## the value stored at x = 1 -/

/-- g(x)/(1−x) → 1/int0 as x → 1 (derivative of g at 1 is −1/int0, g(1) = 0) -/
theorem gH_div_one_sub_tendsto (γ h : ℝ) :
    Tendsto (fun x => gH γ h x / (1 - x)) (𝓝[≠] 1) (𝓝 (1 / I γ h 0)) := by
  have hd := gH_hasDerivAt γ h 1
  rw [gH_one, mul_zero, zero_sub] at hd
  have hs := (hasDerivAt_iff_tendsto_slope.mp hd).neg
  rw [neg_neg] at hs
  refine hs.congr' ?_
  filter_upwards [self_mem_nhdsWithin] with x hx
  have hx1 : x - 1 ≠ 0 := sub_ne_zero.mpr hx
  have hx2 : 1 - x ≠ 0 := sub_ne_zero.mpr (Ne.symm hx)
  rw [slope_def_field, gH_one, sub_zero]
  field_simp
  ring

/-- the genic `limit` expression: 1/int0 at h = ½ equals 2γ e^{2γ}/(e^{2γ} − 1) -/
theorem inv_I_half {γ : ℝ} (hγ : γ ≠ 0) :
    1 / I γ (1 / 2) 0 = 2 * γ * Real.exp (2 * γ) / (Real.exp (2 * γ) - 1) := by
  have hD := one_sub_exp_ne_zero hγ
  have hE : Real.exp (2 * γ) - 1 ≠ 0 := by
    intro h
    have h1 : Real.exp (2 * γ) = 1 := by linarith
    rw [Real.exp_eq_one_iff] at h1
    apply hγ; linarith
  rw [I_half hγ 0, mul_zero, Real.exp_zero]
  exact alg_limit _ _ _ hD hE (exp_mul_exp_neg γ)

/-- φ(x) = g(x)/(x(1−x)) → 1/int0 as x → 1 (two-sided, punctured) -/
theorem phiH_tendsto_one (γ h : ℝ) :
    Tendsto (fun x => gH γ h x / (x * (1 - x))) (𝓝[≠] 1) (𝓝 (1 / I γ h 0)) := by
  have hx : Tendsto (fun x : ℝ => x⁻¹) (𝓝[≠] 1) (𝓝 1) := by
    have : Tendsto (fun x : ℝ => x⁻¹) (𝓝 1) (𝓝 (1:ℝ)⁻¹) := tendsto_inv₀ one_ne_zero
    rw [inv_one] at this
    exact this.mono_left nhdsWithin_le_nhds
  have := (gH_div_one_sub_tendsto γ h).mul hx
  rw [mul_one] at this
  refine this.congr ?_
  intro x
  rw [div_mul_eq_div_div_swap, div_eq_mul_inv (gH γ h x / (1 - x))]

theorem nhdsLT_le_nhdsNE_one : 𝓝[<] (1:ℝ) ≤ 𝓝[≠] 1 :=
  nhdsWithin_mono _ (fun _ hy => ne_of_lt hy)

/-- **(4)** the value the code stores at x = 1 is the limit of φ from the left (indeed the two-sided punctured limit):
    `gH x/(x(1−x)) → 1/int0` (`phi[-1] = 1./int0` in `phi_1D`), and for the genic case (γ ≠ 0)
    `gG x/(x(1−x)) → 2γ e^{2γ}/(e^{2γ} − 1)` (`limit` in `phi_1D_genic`), which is `1/int0` at h = ½. -/
theorem theory_limit_at_one (γ h : ℝ) :
    Tendsto (fun x => gH γ h x / (x * (1 - x))) (𝓝[<] 1) (𝓝 (1 / I γ h 0)) ∧
    Tendsto (fun x => gH γ h x / (x * (1 - x))) (𝓝[≠] 1) (𝓝 (1 / I γ h 0)) ∧
    (γ ≠ 0 → 1 / I γ (1 / 2) 0 = 2 * γ * Real.exp (2 * γ) / (Real.exp (2 * γ) - 1)) ∧
    (γ ≠ 0 → Tendsto (fun x => gG γ x / (x * (1 - x))) (𝓝[<] 1)
      (𝓝 (2 * γ * Real.exp (2 * γ) / (Real.exp (2 * γ) - 1)))) := by
  refine ⟨(phiH_tendsto_one γ h).mono_left nhdsLT_le_nhdsNE_one, phiH_tendsto_one γ h, inv_I_half, ?_⟩
  intro hγ
  have h3 := (phiH_tendsto_one γ (1 / 2)).mono_left nhdsLT_le_nhdsNE_one
  rw [theory_genic_is_general_half' hγ, inv_I_half hγ] at h3
  exact h3

/-! ## neutral limit -/

/-- (1 − e^{−aγ})/γ → a as γ → 0 -/
theorem tendsto_one_sub_exp_div (a : ℝ) :
    Tendsto (fun γ : ℝ => (1 - Real.exp (-2 * γ * a)) / γ) (𝓝[≠] 0) (𝓝 (2 * a)) := by
  have h0 : HasDerivAt (fun γ : ℝ => -2 * γ * a) (-2 * a) 0 := by
    have := ((hasDerivAt_id (0:ℝ)).const_mul (-2 : ℝ)).mul_const a
    simpa using this
  have h1 : HasDerivAt (fun γ : ℝ => 1 - Real.exp (-2 * γ * a)) (2 * a) 0 := by
    have := h0.exp.const_sub 1
    refine this.congr_deriv ?_
    simp
  have hs := hasDerivAt_iff_tendsto_slope.mp h1
  refine hs.congr' ?_
  filter_upwards [self_mem_nhdsWithin] with γ hγ
  rw [slope_def_field]
  simp

/-- **(5)** as γ → 0 the genic g tends to 1 − x for every x (so φ → 1/x, the neutral density of `phi_1D_snm`,
    which is what `phi_1D_genic` returns at gamma == 0) -/
theorem theory_neutral_limit (x : ℝ) : Tendsto (fun γ => gG γ x) (𝓝[≠] 0) (𝓝 (1 - x)) := by
  have hn := tendsto_one_sub_exp_div (1 - x)
  have hd := tendsto_one_sub_exp_div 1
  have h := hn.div hd (by norm_num)
  have e : 2 * (1 - x) / (2 * 1) = 1 - x := by ring
  rw [e] at h
  refine h.congr' ?_
  filter_upwards [self_mem_nhdsWithin] with γ hγ
  have hγ0 : γ ≠ 0 := hγ
  unfold gG
  simp only [Pi.div_apply, mul_one]
  field_simp

/-- the general formula at γ = 0 is exactly 1 − x, for every h (so `phi_1D` with gamma = 0, h ≠ ½ also aims at 1/x) -/
theorem theory_neutral_general (h x : ℝ) : gH 0 h x = 1 - x := by
  have hQ : ∀ ξ : ℝ, Q 0 h ξ = 0 := by intro ξ; unfold Q; ring
  have hI : ∀ y : ℝ, I 0 h y = 1 - y := by
    intro y
    unfold I
    simp only [hQ, neg_zero, Real.exp_zero]
    rw [integral_const]
    simp
  unfold gH
  rw [hI, hI, hQ, Real.exp_zero]
  ring

/-! ## the branch for very negative γ -/

/-- exact remainder: g − e^{2γx} = −e^{2γ}(1 − e^{2γx})/(1 − e^{2γ}) -/
theorem gG_sub_exp {γ : ℝ} (hγ : γ ≠ 0) (x : ℝ) :
    gG γ x - Real.exp (2 * γ * x) = -(Real.exp (2 * γ) * (1 - Real.exp (2 * γ * x)) / (1 - Real.exp (2 * γ))) := by
  have hD := one_sub_exp_ne_zero hγ
  have hE : 1 - Real.exp (2 * γ) ≠ 0 := by
    intro h
    have h1 : Real.exp (2 * γ) = 1 := by linarith
    rw [Real.exp_eq_one_iff] at h1
    apply hγ; linarith
  have e2 : Real.exp (2 * γ) * Real.exp (-2 * γ * (1 - x)) = Real.exp (2 * γ * x) := by
    rw [← Real.exp_add, show 2 * γ + -2 * γ * (1 - x) = 2 * γ * x by ring]
  unfold gG
  rw [← e2]
  exact alg_large _ _ _ hD hE (exp_mul_exp_neg γ)

/-- **(6)** the branch used for gamma ≤ −300, φ ≈ e^{2γx}/(x(1−x)): for γ < 0 and 0 ≤ x ≤ 1,
    `|g(x) − e^{2γx}| ≤ e^{2γ}` (at γ = −300: ≤ e^{−600}); the approximation is from above (g ≤ e^{2γx}). -/
theorem theory_genic_large_negative {γ x : ℝ} (hγ : γ < 0) (hx0 : 0 ≤ x) (hx1 : x ≤ 1) :
    |gG γ x - Real.exp (2 * γ * x)| ≤ Real.exp (2 * γ) ∧ gG γ x ≤ Real.exp (2 * γ * x) := by
  have hε1 : Real.exp (2 * γ) < 1 := by
    rw [Real.exp_lt_one_iff]; linarith
  have hε0 : 0 < Real.exp (2 * γ) := Real.exp_pos _
  have hy1 : Real.exp (2 * γ * x) ≤ 1 := by
    rw [Real.exp_le_one_iff]; nlinarith
  have hyε : Real.exp (2 * γ) ≤ Real.exp (2 * γ * x) := by
    apply Real.exp_le_exp.mpr; nlinarith
  have hD : 0 < 1 - Real.exp (2 * γ) := by linarith
  have hR : 0 ≤ Real.exp (2 * γ) * (1 - Real.exp (2 * γ * x)) / (1 - Real.exp (2 * γ)) :=
    div_nonneg (mul_nonneg hε0.le (by linarith)) hD.le
  have hR1 : Real.exp (2 * γ) * (1 - Real.exp (2 * γ * x)) / (1 - Real.exp (2 * γ)) ≤ Real.exp (2 * γ) := by
    rw [div_le_iff₀ hD]
    nlinarith
  have e := gG_sub_exp (ne_of_lt hγ) x
  constructor
  · rw [e, abs_neg, abs_of_nonneg hR]
    exact hR1
  · linarith

/-! ## the hypotheses are satisfiable / instances -/

example : -(1 / 2) * gG' 1 (1 / 3) + 1 * gG 1 (1 / 3) = 1 / (1 - Real.exp (-2 * 1)) :=
  (theory_genic_stationary (one_ne_zero)).2.1 (1 / 3)

example : gH (-5) (1 / 4) 0 = 1 ∧ gH (-5) (1 / 4) 1 = 0 :=
  ⟨(theory_general_stationary (-5) (1 / 4)).2.2.1, (theory_general_stationary (-5) (1 / 4)).2.2.2.1⟩

example : gH 3 (1 / 2) (1 / 7) = gG 3 (1 / 7) := theory_genic_is_general_half (by norm_num) _

example : |gG (-300) (1 / 2) - Real.exp (2 * (-300) * (1 / 2))| ≤ Real.exp (2 * (-300)) :=
  (theory_genic_large_negative (by norm_num) (by norm_num) (by norm_num)).1

end DadiVerif.Theory2

#print axioms DadiVerif.Theory2.theory_genic_stationary
#print axioms DadiVerif.Theory2.theory_general_stationary
#print axioms DadiVerif.Theory2.theory_general_stationary_phi
#print axioms DadiVerif.Theory2.theory_genic_is_general_half
#print axioms DadiVerif.Theory2.theory_limit_at_one
#print axioms DadiVerif.Theory2.theory_neutral_limit
#print axioms DadiVerif.Theory2.theory_neutral_general
#print axioms DadiVerif.Theory2.theory_genic_large_negative
