import DadiVerif.Model.DFE
import Mathlib.Algebra.Order.Field.Rat
import Mathlib.Algebra.BigOperators.Ring.Finset
import Mathlib.Algebra.BigOperators.Field
import Mathlib.Algebra.BigOperators.Group.Finset.Sigma
import Mathlib.Data.List.Perm.Basic
import Mathlib.Tactic.Ring
import Mathlib.Tactic.Linarith
/-! Infrastructure for C17: algebra of the model's trapezoid rule (`sumTo`, `trapz`), schedule independence of
    `assign`, the error path of `collect`, and the invariants of `merge`.  Everything is about the definitions of
    Model/DFE.lean that the driver executes (and the generated `mergeCell`). -/
namespace DadiVerif.DFE
open Finset DadiVerif.Gen.DFE

/-! ### sums and the trapezoid rule -/

theorem sumTo_eq (n : ℕ) (f : ℕ → ℚ) : sumTo n f = ∑ i ∈ range n, f i := by
  induction n with
  | zero => simp [sumTo]
  | succ n ih => rw [sumTo, ih, Finset.sum_range_succ]

theorem trapz_eq (n : ℕ) (x y : ℕ → ℚ) :
    trapz n x y = ∑ i ∈ range (n - 1), (x (i + 1) - x i) * (y (i + 1) + y i) / 2 := by
  rw [trapz, sumTo_eq]

theorem trapz_congr {n : ℕ} {x y y' : ℕ → ℚ} (h : ∀ i < n, y i = y' i) : trapz n x y = trapz n x y' := by
  rw [trapz_eq, trapz_eq]
  refine Finset.sum_congr rfl fun i hi => ?_
  have hi' : i < n - 1 := mem_range.mp hi
  rw [h i (by omega), h (i + 1) (by omega)]

theorem trapz_mul_left (n : ℕ) (x y : ℕ → ℚ) (c : ℚ) : trapz n x (fun i => c * y i) = c * trapz n x y := by
  rw [trapz_eq, trapz_eq, Finset.mul_sum]
  exact Finset.sum_congr rfl fun i _ => by ring

theorem trapz_mul_right (n : ℕ) (x y : ℕ → ℚ) (c : ℚ) : trapz n x (fun i => y i * c) = trapz n x y * c := by
  rw [trapz_eq, trapz_eq, Finset.sum_mul]
  exact Finset.sum_congr rfl fun i _ => by ring

theorem trapz_add (n : ℕ) (x y z : ℕ → ℚ) : trapz n x (fun i => y i + z i) = trapz n x y + trapz n x z := by
  rw [trapz_eq, trapz_eq, trapz_eq, ← Finset.sum_add_distrib]
  exact Finset.sum_congr rfl fun i _ => by ring

theorem trapz_const_mul (n : ℕ) (x w : ℕ → ℚ) (s : ℚ) : trapz n x (fun i => w i * s) = s * trapz n x w := by
  rw [trapz_mul_right]; ring

/-- Fubini for the double trapezoid rule -/
theorem trapz_comm (n m : ℕ) (x x' : ℕ → ℚ) (f : ℕ → ℕ → ℚ) :
    trapz n x (fun j => trapz m x' (fun i => f i j)) = trapz m x' (fun i => trapz n x (fun j => f i j)) := by
  simp only [trapz_eq]
  have e1 : ∀ j, (x (j + 1) - x j) * ((∑ i ∈ range (m - 1), (x' (i + 1) - x' i) * (f (i + 1) (j + 1) + f i (j + 1)) / 2)
      + ∑ i ∈ range (m - 1), (x' (i + 1) - x' i) * (f (i + 1) j + f i j) / 2) / 2
      = ∑ i ∈ range (m - 1), (x (j + 1) - x j) * (x' (i + 1) - x' i) * (f (i + 1) (j + 1) + f i (j + 1) + f (i + 1) j + f i j) / 4 := by
    intro j
    rw [← Finset.sum_add_distrib, Finset.mul_sum, Finset.sum_div]
    exact Finset.sum_congr rfl fun i _ => by ring
  have e2 : ∀ i, (x' (i + 1) - x' i) * ((∑ j ∈ range (n - 1), (x (j + 1) - x j) * (f (i + 1) (j + 1) + f (i + 1) j) / 2)
      + ∑ j ∈ range (n - 1), (x (j + 1) - x j) * (f i (j + 1) + f i j) / 2) / 2
      = ∑ j ∈ range (n - 1), (x (j + 1) - x j) * (x' (i + 1) - x' i) * (f (i + 1) (j + 1) + f i (j + 1) + f (i + 1) j + f i j) / 4 := by
    intro i
    rw [← Finset.sum_add_distrib, Finset.mul_sum, Finset.sum_div]
    exact Finset.sum_congr rfl fun j _ => by ring
  simp only [e1, e2]
  exact Finset.sum_comm

/-! ### results list → table: schedule independence, error path -/

section schedule
variable {κ ν : Type} [DecidableEq κ]

theorem assign_none_of_not_mem (results : List (κ × ν)) (k : κ)
    (hk : k ∉ results.map Prod.fst) : assign results k = none := by
  induction results with
  | nil => rfl
  | cons p rs ih =>
    simp only [List.map_cons, List.mem_cons, not_or] at hk
    simp only [assign, ih hk.2]
    rw [if_neg (fun e => hk.1 e.symm)]

theorem assign_eq_of_mem (results : List (κ × ν)) (hnd : (results.map Prod.fst).Nodup)
    (k : κ) (v : ν) (hm : (k, v) ∈ results) : assign results k = some v := by
  induction results with
  | nil => cases hm
  | cons p rs ih =>
    rw [List.map_cons, List.nodup_cons] at hnd
    obtain ⟨hp, hnd1⟩ := hnd
    rcases List.mem_cons.mp hm with h | h
    · subst h
      have : assign rs k = none := assign_none_of_not_mem rs k hp
      simp [assign, this]
    · simp [assign, ih hnd1 h]

/-- any two schedules (permutations of the same completed jobs) give the same table -/
theorem assign_perm (r1 r2 : List (κ × ν)) (hp : r1.Perm r2) (hnd : (r1.map Prod.fst).Nodup) (k : κ) :
    assign r1 k = assign r2 k := by
  have hnd2 : (r2.map Prod.fst).Nodup := (hp.map Prod.fst).nodup_iff.mp hnd
  by_cases hk : k ∈ r1.map Prod.fst
  · obtain ⟨p, hpmem, rfl⟩ := List.mem_map.mp hk
    rw [assign_eq_of_mem r1 hnd p.1 p.2 hpmem, assign_eq_of_mem r2 hnd2 p.1 p.2 (hp.mem_iff.mp hpmem)]
  · have hk2 : k ∉ r2.map Prod.fst := fun h => hk ((hp.map Prod.fst).mem_iff.mpr h)
    rw [assign_none_of_not_mem r1 k hk, assign_none_of_not_mem r2 k hk2]

omit [DecidableEq κ] in
theorem collect_ok (l : List (κ × ν)) : collect (l.map (Except.ok (ε := String))) = .ok l := by
  induction l with
  | nil => rfl
  | cons p rs ih => simp [collect, ih]

omit [DecidableEq κ] in
theorem collect_error (results : List (Except String (κ × ν))) (e : String) (h : Except.error e ∈ results) :
    collect results = .error "TypeError:unpack" := by
  induction results with
  | nil => cases h
  | cons r rs ih =>
    cases r with
    | error e' => rfl
    | ok p =>
      have h' : Except.error e ∈ rs := by
        rcases List.mem_cons.mp h with h | h
        · cases h
        · exact h
      simp [collect, ih h']
end schedule

/-! ### merge -/

section merge
variable {V : Type} [DecidableEq V]

theorem mergeCell_none_right (cur : Option V) : mergeCell cur none = .ok cur := by simp [mergeCell]

theorem mergeCell_none_left (v : V) : mergeCell (none : Option V) (some v) = .ok (some v) := by simp [mergeCell]

theorem mergeCell_same (v : V) : mergeCell (some v) (some v) = .ok (some v) := by simp [mergeCell]

theorem mergeCell_diff {u v : V} (h : u ≠ v) : mergeCell (some u) (some v) = .error "ValueError:conflict" := by
  simp [mergeCell, h]

/-- what a successful cell merge returns -/
theorem mergeCell_ok {cur other r : Option V} (h : mergeCell cur other = .ok r) :
    (other = none ∧ r = cur) ∨ (∃ v, other = some v ∧ r = some v ∧ (cur = none ∨ cur = some v)) := by
  cases other with
  | none => left; rw [mergeCell_none_right] at h; cases h; exact ⟨rfl, rfl⟩
  | some v =>
    right
    cases cur with
    | none => rw [mergeCell_none_left] at h; cases h; exact ⟨v, rfl, rfl, Or.inl rfl⟩
    | some u =>
      by_cases huv : u = v
      · subst huv; rw [mergeCell_same] at h; cases h; exact ⟨u, rfl, rfl, Or.inr rfl⟩
      · rw [mergeCell_diff huv] at h; cases h

theorem mergeStep_ok {N : ℕ} {cur other t : ℕ → Option V} (h : mergeStep N cur other = .ok t) :
    ∀ k < N, mergeCell (cur k) (other k) = .ok (t k) := by
  intro k hk
  unfold mergeStep at h
  cases hf : firstError N cur other with
  | some e => rw [hf] at h; cases h
  | none =>
    rw [hf] at h
    injection h with h
    subst h
    have := (List.findSome?_eq_none_iff.mp hf) k (List.mem_range.mpr hk)
    cases hc : mergeCell (cur k) (other k) with
    | error e => rw [hc] at this; cases this
    | ok v => show Except.ok v = Except.ok (match mergeCell (cur k) (other k) with | .ok v => v | .error _ => cur k); rw [hc]

theorem mergeStep_of_ok {N : ℕ} {cur other : ℕ → Option V}
    (h : ∀ k < N, ∃ r, mergeCell (cur k) (other k) = .ok r) : ∃ t, mergeStep N cur other = .ok t := by
  have hf : firstError N cur other = none := by
    apply List.findSome?_eq_none_iff.mpr
    intro k hk
    obtain ⟨r, hr⟩ := h k (List.mem_range.mp hk)
    rw [hr]
  unfold mergeStep
  rw [hf]
  exact ⟨_, rfl⟩

/-- a successful `mergeAll` keeps every defined cell of the start table and of every merged table, and invents nothing -/
theorem mergeAll_sound {N : ℕ} (os : List (ℕ → Option V)) :
    ∀ (cur t : ℕ → Option V), mergeAll N cur os = .ok t →
      (∀ k < N, ∀ v, cur k = some v → t k = some v) ∧
      (∀ o ∈ os, ∀ k < N, ∀ v, o k = some v → t k = some v) ∧
      (∀ k < N, ∀ v, t k = some v → cur k = some v ∨ ∃ o ∈ os, o k = some v) := by
  induction os with
  | nil =>
    intro cur t h
    simp only [mergeAll] at h
    injection h with h
    subst h
    exact ⟨fun _ _ _ h => h, fun o ho => absurd ho List.not_mem_nil, fun _ _ _ h => Or.inl h⟩
  | cons o os ih =>
    intro cur t h
    simp only [mergeAll] at h
    cases hs : mergeStep N cur o with
    | error e => rw [hs] at h; cases h
    | ok c =>
      rw [hs] at h
      obtain ⟨h1, h2, h3⟩ := ih c t h
      have hc := mergeStep_ok hs
      refine ⟨?_, ?_, ?_⟩
      · intro k hk v hv
        apply h1 k hk
        rcases mergeCell_ok (hc k hk) with ⟨_, hr⟩ | ⟨u, _, hr, hcur⟩
        · rw [hr, hv]
        · rcases hcur with hn | hsome
          · rw [hn] at hv; cases hv
          · rw [hsome] at hv; cases hv; exact hr
      · intro o' ho' k hk v hv
        rcases List.mem_cons.mp ho' with he | hin
        · subst he
          apply h1 k hk
          rcases mergeCell_ok (hc k hk) with ⟨hn, _⟩ | ⟨u, hu, hr, _⟩
          · rw [hn] at hv; cases hv
          · rw [hu] at hv; cases hv; exact hr
        · exact h2 o' hin k hk v hv
      · intro k hk v hv
        rcases h3 k hk v hv with hcv | ⟨o', ho', hov⟩
        · rcases mergeCell_ok (hc k hk) with ⟨_, hr⟩ | ⟨u, hu, hr, _⟩
          · left; rw [← hr]; exact hcv
          · right; refine ⟨o, List.mem_cons_self, ?_⟩
            rw [hr] at hcv; cases hcv; exact hu
        · exact Or.inr ⟨o', List.mem_cons_of_mem _ ho', hov⟩

/-- tables that are all restrictions of one total table `T` never conflict -/
theorem mergeAll_consistent {N : ℕ} (T : ℕ → V) (os : List (ℕ → Option V)) :
    ∀ (cur : ℕ → Option V), (∀ k < N, ∀ v, cur k = some v → v = T k) →
      (∀ o ∈ os, ∀ k < N, ∀ v, o k = some v → v = T k) → ∃ t, mergeAll N cur os = .ok t := by
  induction os with
  | nil => intro cur _ _; exact ⟨cur, rfl⟩
  | cons o os ih =>
    intro cur hcur hos
    have ho := hos o List.mem_cons_self
    have hstep : ∀ k < N, ∃ r, mergeCell (cur k) (o k) = .ok r := by
      intro k hk
      cases hok : o k with
      | none => exact ⟨_, mergeCell_none_right _⟩
      | some v =>
        cases hck : cur k with
        | none => exact ⟨_, mergeCell_none_left v⟩
        | some u =>
          have : u = v := by rw [hcur k hk u hck, ho k hk v hok]
          rw [this]
          exact ⟨_, mergeCell_same v⟩
    obtain ⟨c, hc⟩ := mergeStep_of_ok hstep
    have hcs := mergeStep_ok hc
    have hcT : ∀ k < N, ∀ v, c k = some v → v = T k := by
      intro k hk v hv
      rcases mergeCell_ok (hcs k hk) with ⟨_, hr⟩ | ⟨u, hu, hr, _⟩
      · rw [hr] at hv; exact hcur k hk v hv
      · rw [hr] at hv
        have huv : u = v := Option.some.inj hv
        rw [← huv]; exact ho k hk u hu
    obtain ⟨t, ht⟩ := ih c hcT (fun o' ho' => hos o' (List.mem_cons_of_mem _ ho'))
    exact ⟨t, by simp only [mergeAll, hc, ht]⟩

omit [DecidableEq V] in
theorem complete_iff {N : ℕ} (t : ℕ → Option V) : complete N t = true ↔ ∀ k < N, (t k).isSome = true := by
  simp [complete, List.all_eq_true]
end merge

/-! ### Python slicing helpers -/

section slices
variable {α : Type}

theorem pyTakeNeg_append (l t : List α) (k : ℕ) (h : t.length = k) : pyTakeNeg (l ++ t) k = l := by
  subst h; simp [pyTakeNeg]

theorem pyDropNeg_append (l t : List α) (k : ℕ) (h : t.length = k) : pyDropNeg (l ++ t) k = t := by
  subst h; simp [pyDropNeg]

theorem pyIdxNeg_last (l : List α) (a : α) : pyIdxNeg (l ++ [a]) 1 = .ok a := by
  simp [pyIdxNeg]
end slices

end DadiVerif.DFE
