import DadiVerif.Lemmas.Hypergeom
/-! C10 (round 5): scalar identities behind "projecting a re-dealt spectrum = re-dealing the projected pooled spectrum"
    (pure mathematics on the weights `hyp` of Lemmas/Hypergeom.lean, imported only). -/
namespace DadiVerif
open Finset

/-- projecting to the full size is the identity: `hyp n n t s = [t = s]` -/
theorem hyp_full (n t s : ℕ) (hs : s ≤ n) : hyp n n t s = if t = s then 1 else 0 := by
  by_cases hst : s ≤ t
  · rw [hyp_of_le hst, Nat.sub_self]
    by_cases h : t = s
    · subst h
      rw [if_pos rfl, Nat.sub_self, Nat.choose_zero_right, Nat.mul_one]
      exact div_self (choose_pos_q hs)
    · rw [if_neg h, Nat.choose_eq_zero_of_lt (by omega : 0 < t - s)]; simp
  · rw [hyp_of_lt (by omega), if_neg (by omega)]

theorem sum_hyp_full (n s : ℕ) (hs : s ≤ n) (φ : ℕ → ℚ) : ∑ t ∈ range (n + 1), hyp n n t s * φ t = φ s := by
  rw [Finset.sum_eq_single_of_mem s (by rw [mem_range]; omega)]
  · rw [hyp_full n s s hs, if_pos rfl, one_mul]
  · intro t _ hne; rw [hyp_full n t s hs, if_neg hne, zero_mul]

/-- two successive projections of a 1-D spectrum compose -/
theorem sum_hyp_compose (k m n l : ℕ) (hkm : k ≤ m) (hmn : m ≤ n) (hl : l ≤ k) (φ : ℕ → ℚ) :
    ∑ t' ∈ range (m + 1), hyp k m t' l * ∑ t ∈ range (n + 1), hyp m n t t' * φ t = ∑ t ∈ range (n + 1), hyp k n t l * φ t := by
  simp_rw [Finset.mul_sum]
  rw [Finset.sum_comm]
  apply Finset.sum_congr rfl
  intro t ht
  rw [mem_range] at ht
  rw [← hyp_compose k m n t l hkm hmn (by omega) hl, Finset.sum_mul]
  apply Finset.sum_congr rfl
  intro t' _
  ring

/-- **one axis of the re-deal**: resampling `n → m` the count `h` of one population inside a multivariate hypergeometric re-deal
    (the other populations hold `r` derived alleles among `N − n` chromosomes) = re-dealing with the reduced size the pooled
    spectrum resampled `N → N − n + m`.  `C(n,h)/C(N,h+r)` is the `h`-dependent part of the re-deal weight. -/
theorem redeal_scalar (n m N r jk : ℕ) (hm : m ≤ n) (hjk : jk ≤ m) (hr : r + n ≤ N) (φ : ℕ → ℚ) :
    ∑ h ∈ range (n + 1), hyp m n h jk * (((n.choose h : ℕ) : ℚ) / ((N.choose (h + r) : ℕ) : ℚ) * φ (h + r))
      = ((m.choose jk : ℕ) : ℚ) / (((N - n + m).choose (jk + r) : ℕ) : ℚ)
          * ∑ t ∈ range (N + 1), hyp (N - n + m) N t (jk + r) * φ t := by
  set g : ℕ → ℚ := fun h => if jk ≤ h then (((n - m).choose (h - jk) : ℕ) : ℚ) / ((N.choose (h + r) : ℕ) : ℚ) * φ (h + r) else 0 with hg
  have hL : ∀ h ∈ range (n + 1), hyp m n h jk * (((n.choose h : ℕ) : ℚ) / ((N.choose (h + r) : ℕ) : ℚ) * φ (h + r))
      = ((m.choose jk : ℕ) : ℚ) * g h := by
    intro h hh
    rw [mem_range] at hh
    simp only [hg]
    by_cases hjh : jk ≤ h
    · rw [if_pos hjh, hyp_of_le hjh]
      have h1 := choose_pos_q (show h ≤ n by omega)
      push_cast
      field_simp
    · rw [if_neg hjh, hyp_of_lt (by omega)]; simp
  have hR : ∀ t ∈ range (N + 1), ((m.choose jk : ℕ) : ℚ) / (((N - n + m).choose (jk + r) : ℕ) : ℚ) * (hyp (N - n + m) N t (jk + r) * φ t)
      = ((m.choose jk : ℕ) : ℚ) * (if r ≤ t then g (t - r) else 0) := by
    intro t ht
    rw [mem_range] at ht
    simp only [hg]
    by_cases hjt : jk + r ≤ t
    · rw [if_pos (by omega), if_pos (by omega), hyp_of_le hjt]
      have h1 := choose_pos_q (show jk + r ≤ N - n + m by omega)
      rw [show N - (N - n + m) = n - m by omega, show t - (jk + r) = t - r - jk by omega, show t - r + r = t by omega]
      push_cast
      field_simp
    · rw [hyp_of_lt (by omega)]
      by_cases hrt : r ≤ t
      · rw [if_pos hrt, if_neg (by omega)]; simp
      · rw [if_neg hrt]; simp
  rw [Finset.sum_congr rfl hL, Finset.mul_sum, Finset.sum_congr rfl hR, ← Finset.mul_sum, ← Finset.mul_sum]
  congr 1
  -- Σ_{h ≤ n} g h = Σ_{t ≤ N} [r ≤ t] g (t − r)
  have e1 : ∑ t ∈ range (N + 1), (if r ≤ t then g (t - r) else 0) = ∑ t ∈ Ico r (N + 1), g (t - r) := by
    rw [← Finset.sum_filter]
    congr 1
    ext t; simp only [mem_filter, mem_range, mem_Ico]; omega
  rw [e1, Finset.sum_Ico_eq_sum_range]
  have e2 : ∑ h ∈ range (N + 1 - r), g (r + h - r) = ∑ h ∈ range (N + 1 - r), g h := by
    apply Finset.sum_congr rfl; intro h _; rw [Nat.add_sub_cancel_left]
  rw [e2]
  apply Finset.sum_subset
  · intro h hh; simp at hh ⊢; omega
  · intro h _ hh
    simp at hh
    simp only [hg]
    split_ifs
    · rw [Nat.choose_eq_zero_of_lt (by omega : n - m < h - jk)]; simp
    · rfl

end DadiVerif
