import DadiVerif.Lemmas.Het
/-! First-moment (mean allele frequency) law of the neutral implicit step: under pure drift the trapezoid-weighted mean
    frequency Σ_j w_j x_j φ_j is a martingale of the scheme — it changes only through the absorbing term at x = 1 (fixation),
    on every grid from 0 to 1.  One summation by parts; the flux telescopes because V(0) = V(1) = 0. -/
namespace DadiVerif
open Gen Finset

namespace Line

/-- trapezoid-weighted first moment Σ_j w_j x_j φ_j -/
def mean (L : Line) (φ : ℕ → ℚ) : ℚ := ∑ j ∈ range L.N, L.w j * L.x j * φ j

/-- telescoping sum used below -/
theorem sum_telescope (u : ℕ → ℚ) : ∀ M : ℕ, ∑ t ∈ range M, (u t - u (t+1)) = u 0 - u M := by
  intro M
  induction M with
  | zero => simp
  | succ m ih => rw [Finset.sum_range_succ, ih]; ring

/-- **first-moment law**: if φ' solves the implicit neutral step then
    mean(φ')/dt + w_last·bc_last·φ'_last = mean(φ)/dt  (x_0 = 0, x_last = 1, any interior grid, any ν through κ). -/
theorem mean_step (L : Line) (N : ℕ) (hN : L.N = N + 2) (κ : ℚ) (hnd : L.NeutralDrift κ)
    (hx0 : L.x 0 = 0) (hx1 : L.x (N+1) = 1) (hinc : ∀ j, j + 1 < L.N → L.x j < L.x (j+1))
    (hbcint : ∀ j, 0 < j → j + 1 < L.N → L.bc j = 0)
    (φ φ' : ℕ → ℚ) (hsolve : ∀ j < L.N, L.apply φ' j = φ j / L.dt) :
    L.mean φ' / L.dt + L.w (N+1) * L.bc (N+1) * φ' (N+1) = L.mean φ / L.dt := by
  have hpos := L.weights_pos (by omega) hinc
  have hsum : ∑ j ∈ range L.N, L.w j * L.x j * L.apply φ' j = ∑ j ∈ range L.N, L.w j * L.x j * (φ j / L.dt) := by
    refine Finset.sum_congr rfl (fun j hj => ?_)
    rw [hsolve j (mem_range.mp hj)]
  have hexp : ∀ j ∈ range L.N, L.w j * L.x j * L.apply φ' j
      = (L.w j * L.x j * φ' j) / L.dt + L.x j * (L.G φ' (j+1) - L.G φ' j) + L.x j * (L.w j * L.bc j * φ' j) := by
    intro j hj
    have hjN := mem_range.mp hj
    rw [L.flux_form φ' j hjN]
    have hwd := L.w_mul_df j (ne_of_gt (hpos j hjN))
    calc L.w j * L.x j * (φ' j / L.dt + L.df j * (L.G φ' (j+1) - L.G φ' j) + L.bc j * φ' j)
        = (L.w j * L.x j * φ' j) / L.dt + L.x j * ((L.w j * L.df j) * (L.G φ' (j+1) - L.G φ' j))
            + L.x j * (L.w j * L.bc j * φ' j) := by ring
      _ = _ := by rw [hwd, one_mul]
  rw [Finset.sum_congr rfl hexp, Finset.sum_add_distrib, Finset.sum_add_distrib] at hsum
  -- flux part: Abel + telescoping
  set g : ℕ → ℚ := fun j => L.x j * (1 - L.x j) with hg
  have hG0 : L.G φ' 0 = 0 := L.G_zero φ'
  have hGend : L.G φ' (N+2) = 0 := by rw [← hN]; exact L.G_N φ'
  have hflux : ∑ j ∈ range L.N, L.x j * (L.G φ' (j+1) - L.G φ' j) = 0 := by
    rw [hN, abel_closed L.x (L.G φ') (N+1) hG0, hGend, mul_zero, zero_sub]
    have hface : ∀ t ∈ range (N+1), L.G φ' (t+1) * (L.x (t+1) - L.x t)
        = (κ * g t * φ' t - κ * g (t+1) * φ' (t+1)) / 2 := by
      intro t ht
      have htN : t + 1 < L.N := by have := mem_range.mp ht; omega
      have hne : L.x (t+1) - L.x t ≠ 0 := ne_of_gt (by have := hinc t htN; linarith)
      unfold Line.G
      rw [if_pos ⟨by omega, by omega⟩]
      obtain ⟨hA, hC⟩ := hnd (t+1) (by omega) (by omega)
      rw [hA, hC]
      simp only [Nat.add_sub_cancel, hg]
      field_simp
    rw [Finset.sum_congr rfl hface, ← Finset.sum_div,
      sum_telescope (fun t => κ * g t * φ' t) (N+1)]
    simp only [hg, hx0, hx1]
    ring
  have hbc : ∑ j ∈ range L.N, L.x j * (L.w j * L.bc j * φ' j) = L.w (N+1) * L.bc (N+1) * φ' (N+1) := by
    rw [hN, Finset.sum_range_succ]
    have hz : ∑ j ∈ range (N+1), L.x j * (L.w j * L.bc j * φ' j) = 0 := by
      apply Finset.sum_eq_zero
      intro j hj
      have hjN := mem_range.mp hj
      by_cases h0 : j = 0
      · subst h0; rw [hx0]; ring
      · rw [hbcint j (by omega) (by omega)]; ring
    rw [hz, hx1]; ring
  rw [hflux, hbc, add_zero] at hsum
  have hl : ∑ j ∈ range L.N, L.w j * L.x j * φ' j / L.dt = L.mean φ' / L.dt := by
    unfold Line.mean; rw [Finset.sum_div]
  have hr : ∑ j ∈ range L.N, L.w j * L.x j * (φ j / L.dt) = L.mean φ / L.dt := by
    unfold Line.mean; rw [Finset.sum_div]
    refine Finset.sum_congr rfl (fun j _ => ?_); ring
  rw [hl, hr] at hsum
  exact hsum

end Line
end DadiVerif
