import DadiVerif.Lemmas.FileRound
import DadiVerif.Lemmas.FileValues
import Mathlib.Data.Rat.Encodable
/-!
# C14: 17 significant digits identify a double — `exact17` of the `%.{p}g` contract, PROVED for the concrete model

For the exact model `rndModel p = roundBin ∘ roundSig p` (Model/FileFormat.lean) of "write with `'%.{p}g'`, read with `strtod`":
for every p ≥ 17 and every finite double x — normal or denormal, of either sign, or zero — `rndModel p x = x`
(`rndModel_exact17`).  The only numeric fact used is `2^53 < 10^16`.  Consequently the contract `FmtContract` that the value
theorems of Props/C14.lean assume reduces, for this concrete `round_p`, to `PrintfCorrect`: formatted entries are tokens,
`printf`/`strtod` round correctly (parse (format p x) = rndModel p x), and — only for p < 17, i.e. in the property's range only
p = 16 — the composed rounding is idempotent on doubles (validated numerically; not proved).
-/
set_option linter.unusedVariables false
set_option linter.unusedSimpArgs false
namespace DadiVerif.FileFormat

/-- a positive `y` within half a unit (of ITS last kept bit) of a multiple `x` of `2^k` that `y`'s grid refines rounds to `x` -/
theorem roundBin_of_close (x y : ℚ) (n k : ℤ) (hx : x = (n : ℚ) * (2 : ℚ) ^ k) (hy : 0 < y)
    (hE : lastExp 2 53 (some (-1074)) y ≤ k)
    (hc : |y - x| < (2 : ℚ) ^ lastExp 2 53 (some (-1074)) y / 2) : roundBin y = x := by
  unfold roundBin
  rw [roundDig_pos 2 53 _ y hy]
  set E := lastExp 2 53 (some (-1074)) y with hEdef
  have h2 : (0 : ℚ) < (2 : ℚ) ^ E := zpow_pos (by norm_num) E
  obtain ⟨j, hj⟩ : ∃ j : ℕ, k - E = (j : ℤ) := Int.eq_ofNat_of_zero_le (by omega)
  have hk : k = (j : ℤ) + E := by omega
  have hxE : x = ((n * 2 ^ j : ℤ) : ℚ) * (2 : ℚ) ^ E := by
    rw [hx, hk, zpow_add₀ (by norm_num : (2 : ℚ) ≠ 0), zpow_natCast]; push_cast; ring
  have hclose : |y / (2 : ℚ) ^ E - ((n * 2 ^ j : ℤ) : ℚ)| < 1 / 2 := by
    have : y / (2 : ℚ) ^ E - ((n * 2 ^ j : ℤ) : ℚ) = (y - x) / (2 : ℚ) ^ E := by
      rw [hxE]; field_simp
    rw [this, abs_div, abs_of_pos h2, div_lt_iff₀ h2]
    calc |y - x| < (2 : ℚ) ^ E / 2 := hc
      _ = 1 / 2 * (2 : ℚ) ^ E := by ring
  have hcast : ((2 : ℕ) : ℚ) = 2 := by norm_num
  simp only [hcast]
  rw [rhe_of_close _ _ hclose, ← hxE]

/-- the error of `roundSig p` relative to the value: at most x · 10^(1-p) / 2 -/
theorem roundSig_rel_error (p : ℕ) (x : ℚ) (hx : 0 < x) : |roundSig p x - x| ≤ x * (10 : ℚ) ^ (1 - (p : ℤ)) / 2 := by
  have h := roundDig_error 10 p (by norm_num) none x hx
  have hl : lastExp 10 p none x = ilog 10 x + (1 - (p : ℤ)) := by unfold lastExp; dsimp only; omega
  have h10 : ((10 : ℕ) : ℚ) = 10 := by norm_num
  rw [hl, h10, zpow_add₀ (by norm_num : (10 : ℚ) ≠ 0)] at h
  have hlog : (10 : ℚ) ^ ilog 10 x ≤ x := by
    have := ilog_le 10 (by norm_num) x hx; rwa [h10] at this
  have hpos : (0 : ℚ) < (10 : ℚ) ^ (1 - (p : ℤ)) := zpow_pos (by norm_num) _
  unfold roundSig
  calc |roundDig 10 p none x - x| ≤ (10 : ℚ) ^ ilog 10 x * (10 : ℚ) ^ (1 - (p : ℤ)) / 2 := h
    _ ≤ x * (10 : ℚ) ^ (1 - (p : ℤ)) / 2 := by
        apply div_le_div_of_nonneg_right _ (by norm_num)
        exact mul_le_mul_of_nonneg_right hlog (le_of_lt hpos)

/-- **17 significant digits identify a (normal) double**: for `p ≥ 17`, a positive double with a full 53-bit significand
    (`x = n · 2^k`, `2^52 ≤ n < 2^53`, `k ≥ -1074`) written with `'%.{p}g'` and read back is `x` itself.
    The only numeric fact used is `2^53 < 10^16`. -/
theorem rndModel_exact17_normal (p : ℕ) (hp : 17 ≤ p) (x : ℚ) (n k : ℤ) (hx : x = (n : ℚ) * (2 : ℚ) ^ k)
    (hn1 : 2 ^ 52 ≤ n) (hn2 : n < 2 ^ 53) (hk : -1074 ≤ k) : rndModel p x = x := by
  set u : ℚ := (2 : ℚ) ^ k with hu
  have hu0 : 0 < u := zpow_pos (by norm_num) k
  have hn1q : (2 : ℚ) ^ 52 ≤ (n : ℚ) := by exact_mod_cast hn1
  have hn2q : (n : ℚ) ≤ 2 ^ 53 - 1 := by
    have : n ≤ 2 ^ 53 - 1 := by omega
    exact_mod_cast this
  have hxpos : 0 < x := by rw [hx]; exact mul_pos (by linarith [show (0:ℚ) < 2^52 by norm_num]) hu0
  set y := roundSig p x with hy
  -- |y - x| ≤ x / (2·10^16)
  have herr : |y - x| ≤ x / (2 * 10 ^ 16) := by
    have h := roundSig_rel_error p x hxpos
    have hp' : (10 : ℚ) ^ (1 - (p : ℤ)) ≤ (10 : ℚ) ^ (-16 : ℤ) :=
      zpow_le_zpow_right₀ (by norm_num) (by omega)
    calc |y - x| ≤ x * (10 : ℚ) ^ (1 - (p : ℤ)) / 2 := h
      _ ≤ x * (10 : ℚ) ^ (-16 : ℤ) / 2 := by
          apply div_le_div_of_nonneg_right _ (by norm_num)
          exact mul_le_mul_of_nonneg_left hp' (le_of_lt hxpos)
      _ = x / (2 * 10 ^ 16) := by
          rw [zpow_neg]; norm_num; ring
  have herr' := abs_le.mp herr
  -- in units of u
  have hxu : x = (n : ℚ) * u := hx
  have hlt_half : x / (2 * 10 ^ 16) < u / 2 := by
    rw [hxu]
    have : (n : ℚ) * u / (2 * 10 ^ 16) = ((n : ℚ) / 10 ^ 16) * (u / 2) := by ring
    rw [this]
    have hn : (n : ℚ) / 10 ^ 16 < 1 := by
      rw [div_lt_one (by norm_num)]; linarith [show (2:ℚ)^53 - 1 < 10^16 by norm_num]
    nlinarith
  have hypos : 0 < y := by
    have : x - x / (2 * 10 ^ 16) ≤ y := by linarith [herr'.1]
    have h2 : (2:ℚ)^52 * u ≤ x := by rw [hxu]; exact mul_le_mul_of_nonneg_right hn1q (le_of_lt hu0)
    have : u / 2 < x := by nlinarith [show (1:ℚ) ≤ 2^52 by norm_num]
    linarith
  -- bracket of y in base 2
  have hpow53 : (2 : ℚ) ^ (k + 53) = 2 ^ 53 * u := by
    rw [zpow_add₀ (by norm_num : (2:ℚ) ≠ 0)]; norm_num; ring
  have hpow52 : (2 : ℚ) ^ (k + 52) = 2 ^ 52 * u := by
    rw [zpow_add₀ (by norm_num : (2:ℚ) ≠ 0)]; norm_num; ring
  have hpow51 : (2 : ℚ) ^ (k + 51) = 2 ^ 51 * u := by
    rw [zpow_add₀ (by norm_num : (2:ℚ) ≠ 0)]; norm_num; ring
  have hyub : y < (2 : ℚ) ^ (k + 53) := by
    rw [hpow53]
    have : x ≤ (2 ^ 53 - 1) * u := by rw [hxu]; exact mul_le_mul_of_nonneg_right hn2q (le_of_lt hu0)
    linarith [herr'.2]
  have hylb : (2 : ℚ) ^ (k + 51) ≤ y := by
    rw [hpow51]
    have h2 : (2:ℚ)^52 * u ≤ x := by rw [hxu]; exact mul_le_mul_of_nonneg_right hn1q (le_of_lt hu0)
    have : x / (2 * 10 ^ 16) ≤ x / 2 := by
      apply div_le_div_of_nonneg_left (le_of_lt hxpos) (by norm_num) (by norm_num)
    have : x / 2 ≤ y := by linarith [herr'.1]
    nlinarith
  have h2c : ((2 : ℕ) : ℚ) = 2 := by norm_num
  have hlog_ub : ilog 2 y < k + 53 := by
    rw [ilog_eq 2 (by norm_num) y hypos]
    exact (Int.lt_zpow_iff_log_lt (by norm_num) hypos).mp (by rw [h2c]; exact hyub)
  have hlog_lb : k + 51 ≤ ilog 2 y := by
    rw [ilog_eq 2 (by norm_num) y hypos]
    exact (Int.zpow_le_iff_le_log (by norm_num) hypos).mp (by rw [h2c]; exact hylb)
  unfold rndModel
  rw [← hy]
  apply roundBin_of_close x y n k hx hypos
  · unfold lastExp; dsimp only; split_ifs <;> omega
  · by_cases hcase : ilog 2 y = k + 52
    · have hE : lastExp 2 53 (some (-1074)) y = k := by
        unfold lastExp; dsimp only; rw [hcase]; split_ifs <;> omega
      rw [hE, abs_lt]
      constructor <;> linarith [herr'.1, herr'.2]
    · have hcase' : ilog 2 y = k + 51 := by omega
      -- y < 2^(k+52) forces n = 2^52
      have hylt : y < (2 : ℚ) ^ (k + 52) := by
        have := ilog_lt 2 (by norm_num) y hypos
        rw [hcase', h2c] at this
        have e : k + 51 + 1 = k + 52 := by ring
        rwa [e] at this
      rw [hpow52] at hylt
      have hnle : (n : ℚ) < 2 ^ 52 + 1 := by
        by_contra hc
        push Not at hc
        have : (2 ^ 52 + 1) * u ≤ x := by rw [hxu]; exact mul_le_mul_of_nonneg_right hc (le_of_lt hu0)
        linarith [herr'.1]
      have hn_eq : n = 2 ^ 52 := by
        have : n < 2 ^ 52 + 1 := by exact_mod_cast hnle
        omega
      have hxe : x = 2 ^ 52 * u := by rw [hxu, hn_eq]; push_cast; ring
      have hEge : k - 1 ≤ lastExp 2 53 (some (-1074)) y := by
        unfold lastExp; dsimp only; rw [hcase']; split_ifs <;> omega
      have hpowE : (2 : ℚ) ^ (k - 1) ≤ (2 : ℚ) ^ lastExp 2 53 (some (-1074)) y :=
        zpow_le_zpow_right₀ (by norm_num) hEge
      have hk1 : (2 : ℚ) ^ (k - 1) = u / 2 := by
        rw [zpow_sub₀ (by norm_num : (2:ℚ) ≠ 0)]; norm_num; exact hu.symm
      have hsmall : x / (2 * 10 ^ 16) < u / 4 := by
        rw [hxe]
        have : (2:ℚ) ^ 52 * u / (2 * 10 ^ 16) = ((2:ℚ) ^ 53 / 10 ^ 16) * (u / 4) := by ring
        rw [this]
        have : (2:ℚ) ^ 53 / 10 ^ 16 < 1 := by norm_num
        nlinarith
      rw [abs_lt]
      constructor <;> linarith [herr'.1, herr'.2]

/-- a denormal double (`x = n · 2^-1074`, `0 < n < 2^52`) is recovered as well: its last bit is worth far more than the
    decimal rounding error -/
theorem rndModel_exact17_denormal (p : ℕ) (hp : 17 ≤ p) (x : ℚ) (n : ℤ) (hx : x = (n : ℚ) * (2 : ℚ) ^ (-1074 : ℤ))
    (hn1 : 0 < n) (hn2 : n < 2 ^ 52) : rndModel p x = x := by
  set u : ℚ := (2 : ℚ) ^ (-1074 : ℤ) with hu
  have hu0 : 0 < u := zpow_pos (by norm_num) _
  have hn1q : (1 : ℚ) ≤ (n : ℚ) := by exact_mod_cast hn1
  have hn2q : (n : ℚ) ≤ 2 ^ 52 - 1 := by
    have : n ≤ 2 ^ 52 - 1 := by omega
    exact_mod_cast this
  have hxpos : 0 < x := by rw [hx]; exact mul_pos (by linarith) hu0
  set y := roundSig p x with hy
  have herr : |y - x| ≤ x / (2 * 10 ^ 16) := by
    have h := roundSig_rel_error p x hxpos
    have hp' : (10 : ℚ) ^ (1 - (p : ℤ)) ≤ (10 : ℚ) ^ (-16 : ℤ) :=
      zpow_le_zpow_right₀ (by norm_num) (by omega)
    calc |y - x| ≤ x * (10 : ℚ) ^ (1 - (p : ℤ)) / 2 := h
      _ ≤ x * (10 : ℚ) ^ (-16 : ℤ) / 2 := by
          apply div_le_div_of_nonneg_right _ (by norm_num)
          exact mul_le_mul_of_nonneg_left hp' (le_of_lt hxpos)
      _ = x / (2 * 10 ^ 16) := by
          rw [zpow_neg]; norm_num; ring
  have herr' := abs_le.mp herr
  have hxu : x = (n : ℚ) * u := hx
  have hlt_half : x / (2 * 10 ^ 16) < u / 2 := by
    rw [hxu]
    have : (n : ℚ) * u / (2 * 10 ^ 16) = ((n : ℚ) / 10 ^ 16) * (u / 2) := by ring
    rw [this]
    have hn : (n : ℚ) / 10 ^ 16 < 1 := by
      rw [div_lt_one (by norm_num)]; linarith [show (2:ℚ)^52 - 1 < 10^16 by norm_num]
    nlinarith
  have hypos : 0 < y := by
    have h2 : u ≤ x := by rw [hxu]; nlinarith
    linarith [herr'.1]
  have hpow : (2 : ℚ) ^ (-1022 : ℤ) = 2 ^ 52 * u := by
    have : (-1022 : ℤ) = 52 + (-1074) := by norm_num
    rw [this, zpow_add₀ (by norm_num : (2:ℚ) ≠ 0), hu]; norm_num
  have hyub : y < (2 : ℚ) ^ (-1022 : ℤ) := by
    rw [hpow]
    have : x ≤ (2 ^ 52 - 1) * u := by rw [hxu]; exact mul_le_mul_of_nonneg_right hn2q (le_of_lt hu0)
    linarith [herr'.2]
  have h2c : ((2 : ℕ) : ℚ) = 2 := by norm_num
  have hlog_ub : ilog 2 y < -1022 := by
    rw [ilog_eq 2 (by norm_num) y hypos]
    exact (Int.lt_zpow_iff_log_lt (by norm_num) hypos).mp (by rw [h2c]; exact hyub)
  have hE : lastExp 2 53 (some (-1074)) y = -1074 := by
    unfold lastExp; dsimp only; split_ifs <;> omega
  unfold rndModel
  rw [← hy]
  apply roundBin_of_close x y n (-1074) hx hypos
  · rw [hE]
  · rw [hE, abs_lt]
    constructor <;> linarith [herr'.1, herr'.2]

theorem rndModel_neg (p : ℕ) (x : ℚ) : rndModel p (-x) = -rndModel p x := by
  unfold rndModel roundSig roundBin
  rw [roundDig_neg, roundDig_neg]

theorem rndModel_zero (p : ℕ) : rndModel p 0 = 0 := by
  unfold rndModel roundSig roundBin
  rw [roundDig_zero, roundDig_zero]

/-- a finite double in normalised form: a full 53-bit significand, or the smallest exponent -/
def NormDouble (x : ℚ) : Prop :=
  ∃ n k : ℤ, x = (n : ℚ) * (2 : ℚ) ^ k ∧ |n| < 2 ^ 53 ∧ -1074 ≤ k ∧ (2 ^ 52 ≤ |n| ∨ k = -1074)

/-- every double has a normalised form (shift the significand left until it is full or the exponent is minimal) -/
theorem isDouble_norm (x : ℚ) (h : IsDouble x) : NormDouble x := by
  obtain ⟨n, k, hx, hn, hm⟩ := h
  have hk : -1074 ≤ k := hm (-1074) rfl
  have hn' : |n| < 2 ^ 53 := by simpa using hn
  have h2c : ((2 : ℕ) : ℚ) = 2 := by norm_num
  rw [h2c] at hx
  clear hn hm
  obtain ⟨d, hd⟩ : ∃ d : ℕ, k + 1074 = (d : ℤ) := Int.eq_ofNat_of_zero_le (by omega)
  induction d generalizing n k with
  | zero => exact ⟨n, k, hx, hn', hk, Or.inr (by omega)⟩
  | succ d ih =>
    by_cases hbig : 2 ^ 52 ≤ |n|
    · exact ⟨n, k, hx, hn', hk, Or.inl hbig⟩
    · push Not at hbig
      apply ih (2 * n) (k - 1)
      · rw [hx]
        have : (2 : ℚ) ^ k = 2 * (2 : ℚ) ^ (k - 1) := by
          rw [zpow_sub₀ (by norm_num : (2:ℚ) ≠ 0)]; norm_num; field_simp
        rw [this]; push_cast; ring
      · omega
      · have : |2 * n| = 2 * |n| := by rw [abs_mul]; norm_num
        rw [this]; omega
      · push_cast at hd ⊢; omega

/-- **17 significant digits identify a double** — every finite double, normal or denormal, either sign, zero included -/
theorem rndModel_exact17 (p : ℕ) (hp : 17 ≤ p) (x : ℚ) (h : IsDouble x) : rndModel p x = x := by
  obtain ⟨n, k, hx, hn, hk, hnk⟩ := isDouble_norm x h
  rcases lt_trichotomy n 0 with h0 | h0 | h0
  · -- negative: mirror
    have hnn : |n| = -n := abs_of_neg h0
    rw [hnn] at hn hnk
    have hx' : -x = ((-n : ℤ) : ℚ) * (2 : ℚ) ^ k := by rw [hx]; push_cast; ring
    have key : rndModel p (-x) = -x := by
      rcases hnk with hbig | hk'
      · exact rndModel_exact17_normal p hp (-x) (-n) k hx' hbig hn hk
      · subst hk'
        by_cases hbig : 2 ^ 52 ≤ -n
        · exact rndModel_exact17_normal p hp (-x) (-n) (-1074) hx' hbig hn (le_refl _)
        · exact rndModel_exact17_denormal p hp (-x) (-n) hx' (by omega) (by omega)
    rw [rndModel_neg] at key
    linarith
  · subst h0
    have : x = 0 := by rw [hx]; simp
    rw [this]; exact rndModel_zero p
  · have hnn : |n| = n := abs_of_pos h0
    rw [hnn] at hn hnk
    rcases hnk with hbig | hk'
    · exact rndModel_exact17_normal p hp x n k hx hbig hn hk
    · subst hk'
      by_cases hbig : 2 ^ 52 ≤ n
      · exact rndModel_exact17_normal p hp x n (-1074) hx hbig hn (le_refl _)
      · exact rndModel_exact17_denormal p hp x n hx h0 (by omega)

/-! ## the contract `FmtContract`, reduced for the concrete `round_p` -/

/-- finite doubles -/
def Dbl : Type := { x : ℚ // IsDouble x }

/-- `round_p` on doubles: what a double written with `'%.{p}g'` reads back as under correct rounding -/
def rndD (p : ℕ) (x : Dbl) : Dbl := ⟨rndModel p x.1, rndModel_isDouble p x.1⟩

/-- what remains ASSUMED of C `printf` / `strtod`, for finite values (nan / ±inf are written as the tokens `nan` / `inf` /
    `-inf` and read back as themselves: outside this rational model, exercised by L3 / K): formatted entries are tokens, and
    both functions round correctly. -/
structure PrintfCorrect (fmt : ℕ → Dbl → Str) (parse : Str → Option Dbl) : Prop where
  tok : ∀ p x, Tok (fmt p x)
  correct : ∀ p x, parse (fmt p x) = some (rndD p x)

theorem PrintfCorrect.core {fmt : ℕ → Dbl → Str} {parse : Str → Option Dbl} (h : PrintfCorrect fmt parse) :
    FmtCore fmt parse rndD := ⟨h.tok, h.correct⟩

theorem rndD_exact17 (p : ℕ) (hp : 17 ≤ p) (x : Dbl) : rndD p x = x := Subtype.ext (rndModel_exact17 p hp x.1 x.2)

/-- **the full contract of the value theorems follows** once idempotence of the composed rounding below 17 digits (in the
    property's range: only p = 16; validated numerically by `contract_check` and K op `c14.rnd`, not proved) is granted:
    `exact17` and idempotence for p ≥ 17 are theorems of the concrete model -/
theorem fmtContract_of_printfCorrect (fmt : ℕ → Dbl → Str) (parse : Str → Option Dbl) (h : PrintfCorrect fmt parse)
    (hid : ∀ p x, p < 17 → rndD p (rndD p x) = rndD p x) : FmtContract fmt parse rndD where
  tok := h.tok
  parse_fmt := h.correct
  exact17 := fun p x hp => rndD_exact17 p hp x
  rnd_idem := fun p x => by
    by_cases hp : p < 17
    · exact hid p x hp
    · rw [rndD_exact17 p (by omega), rndD_exact17 p (by omega)]

/-- `PrintfCorrect` is satisfiable: a formatter that prints (an injective token code of) the correctly rounded value -/
theorem printfCorrect_exists : ∃ (fmt : ℕ → Dbl → Str) (parse : Str → Option Dbl), PrintfCorrect fmt parse := by
  classical
  refine ⟨fun p x => fmtI (Encodable.encode (rndD p x).1),
          fun s => (parseInt s).bind fun n => (Encodable.decode (α := ℚ) n).bind fun q =>
            if h : IsDouble q then some ⟨q, h⟩ else none, ?_, ?_⟩
  · intro p x; exact tok_fmtI _
  · intro p x
    simp only [parseInt_fmtI, Option.bind_some, Encodable.encodek]
    rw [dif_pos (rndD p x).2]
    rfl

end DadiVerif.FileFormat
