import DadiVerif.Lemmas.DemesConv
/-! C16 (round 4) — `_augment_with_ancient_samples`: the loop translated in `Generated/Demes.lean` (`augStep`, `augLoop`, `augment`)
    computes a closed form: the sliced graph with the demes sampled at the slice time renamed, plus one frozen branch per older sample. -/
namespace DadiVerif.DemesConv
open Gen.Demes

/-! ### renaming -/

def GDeme.rename {ε : Type} (ρ : DName → DName) (d : GDeme ε) : GDeme ε :=
  { name := ρ d.name, start := d.start, ancestors := d.ancestors.map ρ, proportions := d.proportions, epochs := d.epochs }

def GMig.rename (ρ : DName → DName) (m : GMig) : GMig :=
  { source := ρ m.source, dest := ρ m.dest, sym := m.sym, rate := m.rate, st := m.st, et := m.et }

def GPulse.rename (ρ : DName → DName) (p : GPulse) : GPulse :=
  { sources := p.sources.map ρ, dest := ρ p.dest, props := p.props, time := p.time }

/-- the renaming done for one sample taken at the slice time: `sd` becomes `sd'` -/
def sigma (sd sd' : DName) (a : DName) : DName := if a == sd then sd' else a

/-- the demes sampled at the slice time `t` (listed in `R`) get the stamp `t` -/
def renameOf (t : ℚ) (R : List DName) (a : DName) : DName := if R.contains a then a.sampledAt t else a

/-- the frozen branch of a sample of `sd` taken at time `x` (in the units of the unsliced graph): it starts at `x - t` in the sliced
    graph, ends at 0, has size 1 and the (possibly renamed) sampled deme as its only ancestor -/
def branchDeme (ρ : DName → DName) (t : ℚ) (p : DName × ℚ) : GDeme OutEpoch :=
  { name := p.1.sampledAt p.2, start := some (p.2 - t), ancestors := [ρ p.1], proportions := [1],
    epochs := [{ fn := SizeFn.constant, ss := 1, es := some (Sym.r 1), et := 0 }] }

theorem sampledAt_ne_base (a : DName) (x : ℚ) (b : DName) (hb : b.stamps = []) : (a.sampledAt x == b) = false := by
  rw [beq_eq_false_iff_ne]
  intro h
  have := congrArg DName.stamps h
  simp [DName.sampledAt, hb] at this

theorem sigma_of_stamped (sd sd' a : DName) (x : ℚ) (hsd : sd.stamps = []) : sigma sd sd' (a.sampledAt x) = a.sampledAt x := by
  unfold sigma
  rw [sampledAt_ne_base a x sd hsd]
  rfl

/-- the element-wise renaming the generated loop over `b.data["demes"]` performs is `GDeme.rename (sigma sd sd')` -/
theorem renameDeme_eq (sd sd' : DName) (d : GDeme OutEpoch) :
    (let d1 := if (d.name == sd) then ({ d with name := sd' } : GDeme OutEpoch) else d
     if (d1.ancestors.contains sd) then ({ d1 with ancestors := (d1.ancestors.map fun a => (if (a == sd) then sd' else a)) } : GDeme OutEpoch) else d1)
      = GDeme.rename (sigma sd sd') d := by
  have hmap : ∀ l : List DName, l.contains sd = false → l.map (sigma sd sd') = l := by
    intro l hl
    conv_rhs => rw [← List.map_id l]
    apply List.map_congr_left
    intro a ha
    unfold sigma
    have : (a == sd) = false := by
      rw [beq_eq_false_iff_ne]
      intro h
      subst h
      simp [ha] at hl
    simp [this]
  obtain ⟨n, st, an, pr, ep⟩ := d
  have hs : (fun a => if (a == sd) = true then sd' else a) = sigma sd sd' := rfl
  cases hn : (n == sd) <;> cases ha : an.contains sd <;>
    simp only [GDeme.rename, hn, ha, Bool.false_eq_true, if_true, if_false, hs, hmap an, sigma]

theorem renameMig_eq (sd sd' : DName) (m : GMig) :
    (let m1 := if (m.source == sd) then ({ m with source := sd' } : GMig) else m
     if (m1.dest == sd) then ({ m1 with dest := sd' } : GMig) else m1) = GMig.rename (sigma sd sd') m := by
  obtain ⟨a, b, sy, r, st, et⟩ := m
  cases ha : (a == sd) <;> cases hb : (b == sd) <;>
    simp only [GMig.rename, ha, hb, Bool.false_eq_true, if_true, if_false, sigma]

theorem renamePulse_eq (sd sd' : DName) (p : GPulse) :
    (let p1 : GPulse := { p with sources := p.sources.map fun source => if (source == sd) then sd' else source }
     if (p1.dest == sd) then ({ p1 with dest := sd' } : GPulse) else p1) = GPulse.rename (sigma sd sd') p := by
  obtain ⟨so, d, pr, tm⟩ := p
  have hs : (fun a => if (a == sd) = true then sd' else a) = sigma sd sd' := rfl
  cases hd : (d == sd) <;> simp only [GPulse.rename, hd, Bool.false_eq_true, if_true, if_false, sigma, hs]

/-! ### one pass of the loop -/

theorem augStep_branch (t : ℚ) (s : AugSt) (ii : ℕ) (sd : DName) (st : ℚ) (h : st > 0) :
    augStep t s ii sd st =
      { demes := s.demes ++ [{ name := sd.sampledAt (st + t), start := some st, ancestors := [dictGet s.renamed sd sd], proportions := [1],
                               epochs := [{ fn := SizeFn.constant, ss := 1, es := some (Sym.r 1), et := 0 }] }],
        migs := s.migs, pulses := s.pulses, sampled := s.sampled.set ii (sd.sampledAt (st + t)),
        frozen := s.frozen ++ [sd.sampledAt (st + t)], renamed := s.renamed } := by
  unfold augStep
  simp [h]

theorem augStep_rename (t : ℚ) (s : AugSt) (ii : ℕ) (sd : DName) (st : ℚ) (h1 : ¬ st > 0) (h2 : t > 0) :
    augStep t s ii sd st =
      { demes := s.demes.map (GDeme.rename (sigma sd (sd.sampledAt (st + t)))),
        migs := s.migs.map (GMig.rename (sigma sd (sd.sampledAt (st + t)))),
        pulses := s.pulses.map (GPulse.rename (sigma sd (sd.sampledAt (st + t)))),
        sampled := s.sampled.set ii (sd.sampledAt (st + t)),
        frozen := s.frozen, renamed := dictSet s.renamed sd (sd.sampledAt (st + t)) } := by
  have e1 := funext (renameDeme_eq sd (sd.sampledAt (st + t)))
  have e2 := funext (renameMig_eq sd (sd.sampledAt (st + t)))
  have e3 := funext (renamePulse_eq sd (sd.sampledAt (st + t)))
  simp only at e1 e2 e3
  unfold augStep
  simp only [h1, h2, decide_true, decide_false, Bool.or_true, Bool.false_or, if_true, if_false, Bool.false_eq_true, e1, e2, e3]

theorem augStep_none (t : ℚ) (s : AugSt) (ii : ℕ) (sd : DName) (st : ℚ) (h1 : ¬ st > 0) (h2 : ¬ t > 0) :
    augStep t s ii sd st = s := by
  unfold augStep
  simp [h1, h2]

/-! ### the dict `renamed` -/

theorem dictGet_eq (d : List (DName × DName)) (k dflt : DName) :
    dictGet d k dflt = ((d.find? (fun p => p.1 == k)).map (·.2)).getD dflt := by
  unfold dictGet
  cases d.find? (fun p => p.1 == k) <;> rfl

theorem find_repl_ne (d : List (DName × DName)) (k v a : DName) (hka : (k == a) = false) :
    ((d.map (fun p => if p.1 == k then (k, v) else p)).find? (fun p => p.1 == a)).map (·.2)
      = (d.find? (fun p => p.1 == a)).map (·.2) := by
  induction d with
  | nil => rfl
  | cons p ps ih =>
    simp only [List.map_cons, List.find?_cons]
    cases hp : (p.1 == k)
    · simp only [Bool.false_eq_true, if_false]
      cases hpa : (p.1 == a)
      · exact ih
      · rfl
    · have hpk : p.1 = k := by simpa using hp
      have hpa : (p.1 == a) = false := by rw [hpk]; exact hka
      simp only [if_true, hka, hpa]
      exact ih

theorem find_repl_eq (d : List (DName × DName)) (k v : DName) (hany : d.any (fun p => p.1 == k) = true) :
    (d.map (fun p => if p.1 == k then (k, v) else p)).find? (fun p => p.1 == k) = some (k, v) := by
  induction d with
  | nil => simp at hany
  | cons p ps ih =>
    simp only [List.map_cons, List.find?_cons]
    cases hp : (p.1 == k)
    · simp only [Bool.false_eq_true, if_false, hp]
      apply ih
      simpa [List.any_cons, hp] using hany
    · simp only [if_true, beq_self_eq_true]

theorem dictGet_dictSet (d : List (DName × DName)) (k v a dflt : DName) :
    dictGet (dictSet d k v) a dflt = if a == k then v else dictGet d a dflt := by
  rw [dictGet_eq, dictGet_eq]
  unfold dictSet
  cases hany : d.any (fun p => p.1 == k)
  · simp only [Bool.false_eq_true, if_false, List.find?_append]
    have hnone : d.find? (fun p => p.1 == k) = none := by
      rw [List.find?_eq_none]
      intro q hq hc
      have : d.any (fun p => p.1 == k) = true := List.any_eq_true.2 ⟨q, hq, hc⟩
      rw [this] at hany; exact Bool.noConfusion hany
    cases hak : (a == k)
    · have hka : (k == a) = false := by
        rw [beq_eq_false_iff_ne] at hak ⊢
        exact fun h => hak h.symm
      simp only [Bool.false_eq_true, if_false, List.find?_cons, hka, List.find?_nil, Option.or_none]
    · have : a = k := by simpa using hak
      subst this
      simp [hnone]
  · simp only [if_true]
    cases hak : (a == k)
    · have hka : (k == a) = false := by
        rw [beq_eq_false_iff_ne] at hak ⊢
        exact fun h => hak h.symm
      simp only [Bool.false_eq_true, if_false]
      rw [find_repl_ne d k v a hka]
    · have : a = k := by simpa using hak
      subst this
      rw [find_repl_eq d a v hany]
      rfl

/-! ### the whole loop -/

theorem rename_rename {ε : Type} (σ ρ : DName → DName) (d : GDeme ε) : GDeme.rename σ (GDeme.rename ρ d) = GDeme.rename (fun a => σ (ρ a)) d := by
  simp [GDeme.rename, List.map_map, Function.comp_def]

theorem renameMig_rename (σ ρ : DName → DName) (m : GMig) : GMig.rename σ (GMig.rename ρ m) = GMig.rename (fun a => σ (ρ a)) m := rfl

theorem renamePulse_rename (σ ρ : DName → DName) (p : GPulse) : GPulse.rename σ (GPulse.rename ρ p) = GPulse.rename (fun a => σ (ρ a)) p := by
  simp [GPulse.rename, List.map_map, Function.comp_def]

theorem sigma_renameOf (t : ℚ) (R : List DName) (sd : DName) (hR : ∀ a ∈ R, a.stamps = []) (hsd : sd.stamps = []) (a : DName) :
    sigma sd (sd.sampledAt t) (renameOf t R a) = renameOf t (R ++ [sd]) a := by
  unfold renameOf
  by_cases ha : R.contains a = true
  · have h2 : (R ++ [sd]).contains a = true := by
      simp only [List.contains_iff_mem, List.mem_append] at ha ⊢
      exact Or.inl ha
    rw [if_pos ha, if_pos h2, sigma_of_stamped _ _ _ _ hsd]
  · have ha' : R.contains a = false := by simpa using ha
    rw [if_neg ha]
    unfold sigma
    by_cases hs : (a == sd) = true
    · have : a = sd := by simpa using hs
      subst this
      have h2 : (R ++ [a]).contains a = true := by simp
      rw [if_pos hs, if_pos h2]
    · have hs' : (a == sd) = false := by simpa using hs
      have h2 : (R ++ [sd]).contains a = false := by
        have hne : a ≠ sd := by simpa using hs'
        have hnotin : a ∉ R := by
          intro hin
          have : R.contains a = true := by simpa using hin
          rw [this] at ha'; exact Bool.noConfusion ha'
        simp [hne, hnotin]
      rw [if_neg hs, if_neg (by rw [h2]; exact Bool.false_ne_true)]

/-- the frozen branch in the coordinates of the loop (`st` = sample time minus slice time) -/
def brOf (ρ : DName → DName) (t : ℚ) (p : DName × ℚ) : GDeme OutEpoch :=
  { name := p.1.sampledAt (p.2 + t), start := some p.2, ancestors := [ρ p.1], proportions := [1],
    epochs := [{ fn := SizeFn.constant, ss := 1, es := some (Sym.r 1), et := 0 }] }

/-- samples whose branch is added / whose deme is renamed -/
def isOlder (p : DName × ℚ) : Bool := decide (p.2 > 0)
def isRenamed (t : ℚ) (p : DName × ℚ) : Bool := !decide (p.2 > 0) && decide (t > 0)

theorem augLoop_spec (t : ℚ) (D0 : List (GDeme OutEpoch)) (M0 : List GMig) (P0 : List GPulse) (S : List (DName × ℚ))
    (hS : ∀ p ∈ S, p.1.stamps = [] ∧ 0 ≤ p.2) :
    ∀ (R : List DName) (B : List (DName × ℚ)) (s : AugSt) (k : ℕ), (∀ a ∈ R, a.stamps = []) →
      s.demes = D0.map (GDeme.rename (renameOf t R)) ++ B.map (brOf (renameOf t R) t) →
      s.migs = M0.map (GMig.rename (renameOf t R)) → s.pulses = P0.map (GPulse.rename (renameOf t R)) →
      (∀ a, dictGet s.renamed a a = renameOf t R a) →
      let R' := R ++ (S.filter (isRenamed t)).map (·.1)
      let B' := B ++ S.filter isOlder
      (augLoop t s k S).demes = D0.map (GDeme.rename (renameOf t R')) ++ B'.map (brOf (renameOf t R') t)
      ∧ (augLoop t s k S).migs = M0.map (GMig.rename (renameOf t R'))
      ∧ (augLoop t s k S).pulses = P0.map (GPulse.rename (renameOf t R'))
      ∧ (augLoop t s k S).frozen = s.frozen ++ (S.filter isOlder).map (fun p => p.1.sampledAt (p.2 + t)) := by
  induction S with
  | nil =>
    intro R B s k _ hd hm hp _
    simp [augLoop, hd, hm, hp]
  | cons p rest ih =>
    intro R B s k hR hd hm hp hg
    obtain ⟨sd, st⟩ := p
    have hsd := (hS (sd, st) List.mem_cons_self).1
    have hst := (hS (sd, st) List.mem_cons_self).2
    have hS' : ∀ p ∈ rest, p.1.stamps = [] ∧ 0 ≤ p.2 := fun p hp => hS p (List.mem_cons_of_mem _ hp)
    simp only [augLoop]
    by_cases h1 : st > 0
    · -- a frozen branch is added
      have hstep := augStep_branch t s k sd st h1
      have := ih hS' R (B ++ [(sd, st)]) (augStep t s k sd st) (k + 1) hR
        (by rw [hstep]; simp only [hd, List.map_append, List.append_assoc, List.map_cons, List.map_nil, brOf, hg])
        (by rw [hstep]; exact hm) (by rw [hstep]; exact hp) (by rw [hstep]; exact hg)
      have e1 : isOlder (sd, st) = true := by simp [isOlder, h1]
      have e2 : isRenamed t (sd, st) = false := by simp [isRenamed, h1]
      simp only [List.filter_cons, e1, e2, if_true, Bool.false_eq_true, if_false, List.map_cons]
      simp only [List.append_assoc, List.cons_append, List.nil_append] at this
      refine ⟨this.1, this.2.1, this.2.2.1, ?_⟩
      rw [this.2.2.2, hstep]
      simp
    · by_cases h2 : t > 0
      · -- the deme is sampled at the slice time: it is renamed everywhere
        have hst0 : st = 0 := le_antisymm (not_lt.1 h1) hst
        have hstep := augStep_rename t s k sd st h1 h2
        have hname : sd.sampledAt (st + t) = sd.sampledAt t := by rw [hst0, zero_add]
        rw [hname] at hstep
        have hσ : (fun a => sigma sd (sd.sampledAt t) (renameOf t R a)) = renameOf t (R ++ [sd]) :=
          funext (sigma_renameOf t R sd hR hsd)
        have hR' : ∀ a ∈ R ++ [sd], a.stamps = [] := by
          intro a ha
          rcases List.mem_append.1 ha with h | h
          · exact hR a h
          · rw [List.mem_singleton.1 h]; exact hsd
        have hbr : ∀ q : DName × ℚ, q ∈ B → GDeme.rename (sigma sd (sd.sampledAt t)) (brOf (renameOf t R) t q) = brOf (renameOf t (R ++ [sd])) t q := by
          intro q _
          simp only [GDeme.rename, brOf, sigma_of_stamped _ _ _ _ hsd, List.map_cons, List.map_nil, sigma_renameOf t R sd hR hsd]
        have := ih hS' (R ++ [sd]) B (augStep t s k sd st) (k + 1) hR'
          (by
            rw [hstep]
            simp only [hd, List.map_append, List.map_map, Function.comp_def, rename_rename, hσ]
            congr 1
            apply List.map_congr_left
            intro q hq
            exact hbr q hq)
          (by rw [hstep]; simp only [hm, List.map_map, Function.comp_def, renameMig_rename, hσ])
          (by rw [hstep]; simp only [hp, List.map_map, Function.comp_def, renamePulse_rename, hσ])
          (by
            intro a
            rw [hstep]
            simp only [dictGet_dictSet, hg]
            rw [← sigma_renameOf t R sd hR hsd a]
            unfold sigma
            by_cases ha : (a == sd) = true
            · have : a = sd := by simpa using ha
              subst this
              have hnot : renameOf t R a = a ∨ renameOf t R a = a.sampledAt t := by
                unfold renameOf; split_ifs <;> simp
              rcases hnot with h | h
              · rw [h]; simp
              · rw [h, sampledAt_ne_base a t a hsd]; simp [h]
            · have ha' : (a == sd) = false := by simpa using ha
              simp only [ha', Bool.false_eq_true, if_false]
              have hnot : renameOf t R a = a ∨ renameOf t R a = a.sampledAt t := by
                unfold renameOf; split_ifs <;> simp
              rcases hnot with h | h
              · rw [h, ha']; simp
              · rw [h, sampledAt_ne_base a t sd hsd]; simp)
        have e1 : isOlder (sd, st) = false := by simp [isOlder, h1]
        have e2 : isRenamed t (sd, st) = true := by simp [isRenamed, h1, h2]
        simp only [List.filter_cons, e1, e2, if_true, Bool.false_eq_true, if_false, List.map_cons]
        simp only [List.append_assoc, List.cons_append, List.nil_append] at this
        refine ⟨this.1, this.2.1, this.2.2.1, ?_⟩
        rw [this.2.2.2, hstep]
      · -- neither: nothing happens
        have hstep := augStep_none t s k sd st h1 h2
        rw [hstep]
        have := ih hS' R B s (k + 1) hR hd hm hp hg
        have e1 : isOlder (sd, st) = false := by simp [isOlder, h1]
        have e2 : isRenamed t (sd, st) = false := by simp [isRenamed, h1, h2]
        simp only [List.filter_cons, e1, e2, Bool.false_eq_true, if_false]
        exact this

end DadiVerif.DemesConv
