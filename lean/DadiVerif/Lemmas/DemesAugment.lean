import DadiVerif.Lemmas.DemesConv
/-! C16 (round 4) — `_augment_with_ancient_samples`: the loop translated in `Generated/Demes.lean` (`augStep`, `augLoop`, `augment`)
    computes a closed form: the sliced graph with the demes sampled at the slice time renamed, plus one frozen branch per older sample. -/
namespace DadiVerif.DemesConv
open Gen.Demes

/-! ### renaming -/

def GDeme.rename {ε : Type} (ρ : DName → DName) (d : GDeme ε) : GDeme ε :=
  { name := ρ d.name, start := d.start, ancestors := d.ancestors.map ρ, proportions := d.proportions, epochs := d.epochs }

def GMig.rename (ρ : DName → DName) (m : GMig) : GMig :=
  { source := ρ m.source, dest := ρ m.dest, sym := m.sym, rate := m.rate, st := m.st, et := m.et }

def GPulse.rename (ρ : DName → DName) (p : GPulse) : GPulse :=
  { sources := p.sources.map ρ, dest := ρ p.dest, props := p.props, time := p.time }

/-- the renaming done for one sample taken at the slice time: `sd` becomes `sd'` -/
def sigma (sd sd' : DName) (a : DName) : DName := if a == sd then sd' else a

/-- the demes sampled at the slice time `t` (listed in `R`) get the stamp `t` -/
def renameOf (t : ℚ) (R : List DName) (a : DName) : DName := if R.contains a then a.sampledAt t else a

/-- the frozen branch of a sample of `sd` taken at time `x` (in the units of the unsliced graph): it starts at `x - t` in the sliced
    graph, ends at 0, has size 1 and the (possibly renamed) sampled deme as its only ancestor -/
def branchDeme (ρ : DName → DName) (t : ℚ) (p : DName × ℚ) : GDeme OutEpoch :=
  { name := p.1.sampledAt p.2, start := some (p.2 - t), ancestors := [ρ p.1], proportions := [1],
    epochs := [{ fn := SizeFn.constant, ss := 1, es := some (Sym.r 1), et := 0 }] }

theorem sampledAt_ne_base (a : DName) (x : ℚ) (b : DName) (hb : b.stamps = []) : (a.sampledAt x == b) = false := by
  rw [beq_eq_false_iff_ne]
  intro h
  have := congrArg DName.stamps h
  simp [DName.sampledAt, hb] at this

theorem sigma_of_stamped (sd sd' a : DName) (x : ℚ) (hsd : sd.stamps = []) : sigma sd sd' (a.sampledAt x) = a.sampledAt x := by
  unfold sigma
  rw [sampledAt_ne_base a x sd hsd]
  rfl

/-- the element-wise renaming the generated loop over `b.data["demes"]` performs is `GDeme.rename (sigma sd sd')` -/
theorem renameDeme_eq (sd sd' : DName) (d : GDeme OutEpoch) :
    (let d1 := if (d.name == sd) then ({ d with name := sd' } : GDeme OutEpoch) else d
     if (d1.ancestors.contains sd) then ({ d1 with ancestors := (d1.ancestors.map fun a => (if (a == sd) then sd' else a)) } : GDeme OutEpoch) else d1)
      = GDeme.rename (sigma sd sd') d := by
  have hmap : ∀ l : List DName, l.contains sd = false → l.map (sigma sd sd') = l := by
    intro l hl
    conv_rhs => rw [← List.map_id l]
    apply List.map_congr_left
    intro a ha
    unfold sigma
    have : (a == sd) = false := by
      rw [beq_eq_false_iff_ne]
      intro h
      subst h
      simp [ha] at hl
    simp [this]
  obtain ⟨n, st, an, pr, ep⟩ := d
  have hs : (fun a => if (a == sd) = true then sd' else a) = sigma sd sd' := rfl
  cases hn : (n == sd) <;> cases ha : an.contains sd <;>
    simp only [GDeme.rename, hn, ha, Bool.false_eq_true, if_true, if_false, hs, hmap an, sigma]

theorem renameMig_eq (sd sd' : DName) (m : GMig) :
    (let m1 := if (m.source == sd) then ({ m with source := sd' } : GMig) else m
     if (m1.dest == sd) then ({ m1 with dest := sd' } : GMig) else m1) = GMig.rename (sigma sd sd') m := by
  obtain ⟨a, b, sy, r, st, et⟩ := m
  cases ha : (a == sd) <;> cases hb : (b == sd) <;>
    simp only [GMig.rename, ha, hb, Bool.false_eq_true, if_true, if_false, sigma]

theorem renamePulse_eq (sd sd' : DName) (p : GPulse) :
    (let p1 : GPulse := { p with sources := p.sources.map fun source => if (source == sd) then sd' else source }
     if (p1.dest == sd) then ({ p1 with dest := sd' } : GPulse) else p1) = GPulse.rename (sigma sd sd') p := by
  obtain ⟨so, d, pr, tm⟩ := p
  have hs : (fun a => if (a == sd) = true then sd' else a) = sigma sd sd' := rfl
  cases hd : (d == sd) <;> simp only [GPulse.rename, hd, Bool.false_eq_true, if_true, if_false, sigma, hs]

/-! ### one pass of the loop, abstractly

The closed form below is proved for ANY step / loop / augmentation functions with the five behaviours listed in `AugFacts` — `Props/C16.lean`
shows that the functions translated from the source (`Gen.Demes.augStep`, `augLoop`, `augment`) have them, so that a change of the source
breaks that theorem only. -/

structure AugFacts (step : ℚ → AugSt → ℕ → DName → ℚ → AugSt) (loop : ℚ → AugSt → ℕ → List (DName × ℚ) → AugSt) : Prop where
  loop_nil : ∀ t s k, loop t s k [] = s
  loop_cons : ∀ t s k sd st rest, loop t s k ((sd, st) :: rest) = loop t (step t s k sd st) (k + 1) rest
  /-- `st > 0`: a frozen branch is added -/
  branch : ∀ (t : ℚ) (s : AugSt) (ii : ℕ) (sd : DName) (st : ℚ), st > 0 → step t s ii sd st =
      { demes := s.demes ++ [{ name := sd.sampledAt (st + t), start := some st, ancestors := [dictGet s.renamed sd sd], proportions := [1],
                               epochs := [{ fn := SizeFn.constant, ss := 1, es := some (Sym.r 1), et := 0 }] }],
        migs := s.migs, pulses := s.pulses, sampled := s.sampled.set ii (sd.sampledAt (st + t)),
        frozen := s.frozen ++ [sd.sampledAt (st + t)], renamed := s.renamed }
  /-- the sample is taken at the slice time `t > 0`: the deme is renamed everywhere -/
  rename : ∀ (t : ℚ) (s : AugSt) (ii : ℕ) (sd : DName) (st : ℚ), ¬ st > 0 → t > 0 → step t s ii sd st =
      { demes := s.demes.map (GDeme.rename (sigma sd (sd.sampledAt (st + t)))),
        migs := s.migs.map (GMig.rename (sigma sd (sd.sampledAt (st + t)))),
        pulses := s.pulses.map (GPulse.rename (sigma sd (sd.sampledAt (st + t)))),
        sampled := s.sampled.set ii (sd.sampledAt (st + t)),
        frozen := s.frozen, renamed := dictSet s.renamed sd (sd.sampledAt (st + t)) }
  none : ∀ (t : ℚ) (s : AugSt) (ii : ℕ) (sd : DName) (st : ℚ), ¬ st > 0 → ¬ t > 0 → step t s ii sd st = s

/-! ### the dict `renamed` -/

theorem dictGet_eq (d : List (DName × DName)) (k dflt : DName) :
    dictGet d k dflt = ((d.find? (fun p => p.1 == k)).map (·.2)).getD dflt := by
  unfold dictGet
  cases d.find? (fun p => p.1 == k) <;> rfl

theorem find_repl_ne (d : List (DName × DName)) (k v a : DName) (hka : (k == a) = false) :
    ((d.map (fun p => if p.1 == k then (k, v) else p)).find? (fun p => p.1 == a)).map (·.2)
      = (d.find? (fun p => p.1 == a)).map (·.2) := by
  induction d with
  | nil => rfl
  | cons p ps ih =>
    simp only [List.map_cons, List.find?_cons]
    cases hp : (p.1 == k)
    · simp only [Bool.false_eq_true, if_false]
      cases hpa : (p.1 == a)
      · exact ih
      · rfl
    · have hpk : p.1 = k := by simpa using hp
      have hpa : (p.1 == a) = false := by rw [hpk]; exact hka
      simp only [if_true, hka, hpa]
      exact ih

theorem find_repl_eq (d : List (DName × DName)) (k v : DName) (hany : d.any (fun p => p.1 == k) = true) :
    (d.map (fun p => if p.1 == k then (k, v) else p)).find? (fun p => p.1 == k) = some (k, v) := by
  induction d with
  | nil => simp at hany
  | cons p ps ih =>
    simp only [List.map_cons, List.find?_cons]
    cases hp : (p.1 == k)
    · simp only [Bool.false_eq_true, if_false, hp]
      apply ih
      simpa [List.any_cons, hp] using hany
    · simp only [if_true, beq_self_eq_true]

theorem dictGet_dictSet (d : List (DName × DName)) (k v a dflt : DName) :
    dictGet (dictSet d k v) a dflt = if a == k then v else dictGet d a dflt := by
  rw [dictGet_eq, dictGet_eq]
  unfold dictSet
  cases hany : d.any (fun p => p.1 == k)
  · simp only [Bool.false_eq_true, if_false, List.find?_append]
    have hnone : d.find? (fun p => p.1 == k) = none := by
      rw [List.find?_eq_none]
      intro q hq hc
      have : d.any (fun p => p.1 == k) = true := List.any_eq_true.2 ⟨q, hq, hc⟩
      rw [this] at hany; exact Bool.noConfusion hany
    cases hak : (a == k)
    · have hka : (k == a) = false := by
        rw [beq_eq_false_iff_ne] at hak ⊢
        exact fun h => hak h.symm
      simp only [Bool.false_eq_true, if_false, List.find?_cons, hka, List.find?_nil, Option.or_none]
    · have : a = k := by simpa using hak
      subst this
      simp [hnone]
  · simp only [if_true]
    cases hak : (a == k)
    · have hka : (k == a) = false := by
        rw [beq_eq_false_iff_ne] at hak ⊢
        exact fun h => hak h.symm
      simp only [Bool.false_eq_true, if_false]
      rw [find_repl_ne d k v a hka]
    · have : a = k := by simpa using hak
      subst this
      rw [find_repl_eq d a v hany]
      rfl

/-! ### the whole loop -/

theorem rename_rename {ε : Type} (σ ρ : DName → DName) (d : GDeme ε) : GDeme.rename σ (GDeme.rename ρ d) = GDeme.rename (fun a => σ (ρ a)) d := by
  simp [GDeme.rename, List.map_map, Function.comp_def]

theorem renameMig_rename (σ ρ : DName → DName) (m : GMig) : GMig.rename σ (GMig.rename ρ m) = GMig.rename (fun a => σ (ρ a)) m := rfl

theorem renamePulse_rename (σ ρ : DName → DName) (p : GPulse) : GPulse.rename σ (GPulse.rename ρ p) = GPulse.rename (fun a => σ (ρ a)) p := by
  simp [GPulse.rename, List.map_map, Function.comp_def]

theorem sigma_renameOf (t : ℚ) (R : List DName) (sd : DName) (hR : ∀ a ∈ R, a.stamps = []) (hsd : sd.stamps = []) (a : DName) :
    sigma sd (sd.sampledAt t) (renameOf t R a) = renameOf t (R ++ [sd]) a := by
  unfold renameOf
  by_cases ha : R.contains a = true
  · have h2 : (R ++ [sd]).contains a = true := by
      simp only [List.contains_iff_mem, List.mem_append] at ha ⊢
      exact Or.inl ha
    rw [if_pos ha, if_pos h2, sigma_of_stamped _ _ _ _ hsd]
  · have ha' : R.contains a = false := by simpa using ha
    rw [if_neg ha]
    unfold sigma
    by_cases hs : (a == sd) = true
    · have : a = sd := by simpa using hs
      subst this
      have h2 : (R ++ [a]).contains a = true := by simp
      rw [if_pos hs, if_pos h2]
    · have hs' : (a == sd) = false := by simpa using hs
      have h2 : (R ++ [sd]).contains a = false := by
        have hne : a ≠ sd := by simpa using hs'
        have hnotin : a ∉ R := by
          intro hin
          have : R.contains a = true := by simpa using hin
          rw [this] at ha'; exact Bool.noConfusion ha'
        simp [hne, hnotin]
      rw [if_neg hs, if_neg (by rw [h2]; exact Bool.false_ne_true)]

/-- the frozen branch in the coordinates of the loop (`st` = sample time minus slice time) -/
def brOf (ρ : DName → DName) (t : ℚ) (p : DName × ℚ) : GDeme OutEpoch :=
  { name := p.1.sampledAt (p.2 + t), start := some p.2, ancestors := [ρ p.1], proportions := [1],
    epochs := [{ fn := SizeFn.constant, ss := 1, es := some (Sym.r 1), et := 0 }] }

/-- samples whose branch is added / whose deme is renamed -/
def isOlder (p : DName × ℚ) : Bool := decide (p.2 > 0)
def isRenamed (t : ℚ) (p : DName × ℚ) : Bool := !decide (p.2 > 0) && decide (t > 0)

theorem augLoop_spec {step : ℚ → AugSt → ℕ → DName → ℚ → AugSt} {augLoop : ℚ → AugSt → ℕ → List (DName × ℚ) → AugSt} (F : AugFacts step augLoop)
    (t : ℚ) (D0 : List (GDeme OutEpoch)) (M0 : List GMig) (P0 : List GPulse) (S : List (DName × ℚ))
    (hS : ∀ p ∈ S, p.1.stamps = [] ∧ 0 ≤ p.2) :
    ∀ (R : List DName) (B : List (DName × ℚ)) (s : AugSt) (k : ℕ), (∀ a ∈ R, a.stamps = []) →
      s.demes = D0.map (GDeme.rename (renameOf t R)) ++ B.map (brOf (renameOf t R) t) →
      s.migs = M0.map (GMig.rename (renameOf t R)) → s.pulses = P0.map (GPulse.rename (renameOf t R)) →
      (∀ a, dictGet s.renamed a a = renameOf t R a) →
      let R' := R ++ (S.filter (isRenamed t)).map (·.1)
      let B' := B ++ S.filter isOlder
      (augLoop t s k S).demes = D0.map (GDeme.rename (renameOf t R')) ++ B'.map (brOf (renameOf t R') t)
      ∧ (augLoop t s k S).migs = M0.map (GMig.rename (renameOf t R'))
      ∧ (augLoop t s k S).pulses = P0.map (GPulse.rename (renameOf t R'))
      ∧ (augLoop t s k S).frozen = s.frozen ++ (S.filter isOlder).map (fun p => p.1.sampledAt (p.2 + t)) := by
  induction S with
  | nil =>
    intro R B s k _ hd hm hp _
    simp [F.loop_nil, hd, hm, hp]
  | cons p rest ih =>
    intro R B s k hR hd hm hp hg
    obtain ⟨sd, st⟩ := p
    have hsd := (hS (sd, st) List.mem_cons_self).1
    have hst := (hS (sd, st) List.mem_cons_self).2
    have hS' : ∀ p ∈ rest, p.1.stamps = [] ∧ 0 ≤ p.2 := fun p hp => hS p (List.mem_cons_of_mem _ hp)
    simp only [F.loop_cons]
    by_cases h1 : st > 0
    · -- a frozen branch is added
      have hstep := F.branch t s k sd st h1
      have := ih hS' R (B ++ [(sd, st)]) (step t s k sd st) (k + 1) hR
        (by rw [hstep]; simp only [hd, List.map_append, List.append_assoc, List.map_cons, List.map_nil, brOf, hg])
        (by rw [hstep]; exact hm) (by rw [hstep]; exact hp) (by rw [hstep]; exact hg)
      have e1 : isOlder (sd, st) = true := by simp [isOlder, h1]
      have e2 : isRenamed t (sd, st) = false := by simp [isRenamed, h1]
      simp only [List.filter_cons, e1, e2, if_true, Bool.false_eq_true, if_false, List.map_cons]
      simp only [List.append_assoc, List.cons_append, List.nil_append] at this
      refine ⟨this.1, this.2.1, this.2.2.1, ?_⟩
      rw [this.2.2.2, hstep]
      simp
    · by_cases h2 : t > 0
      · -- the deme is sampled at the slice time: it is renamed everywhere
        have hst0 : st = 0 := le_antisymm (not_lt.1 h1) hst
        have hstep := F.rename t s k sd st h1 h2
        have hname : sd.sampledAt (st + t) = sd.sampledAt t := by rw [hst0, zero_add]
        rw [hname] at hstep
        have hσ : (fun a => sigma sd (sd.sampledAt t) (renameOf t R a)) = renameOf t (R ++ [sd]) :=
          funext (sigma_renameOf t R sd hR hsd)
        have hR' : ∀ a ∈ R ++ [sd], a.stamps = [] := by
          intro a ha
          rcases List.mem_append.1 ha with h | h
          · exact hR a h
          · rw [List.mem_singleton.1 h]; exact hsd
        have hbr : ∀ q : DName × ℚ, q ∈ B → GDeme.rename (sigma sd (sd.sampledAt t)) (brOf (renameOf t R) t q) = brOf (renameOf t (R ++ [sd])) t q := by
          intro q _
          simp only [GDeme.rename, brOf, sigma_of_stamped _ _ _ _ hsd, List.map_cons, List.map_nil, sigma_renameOf t R sd hR hsd]
        have := ih hS' (R ++ [sd]) B (step t s k sd st) (k + 1) hR'
          (by
            rw [hstep]
            simp only [hd, List.map_append, List.map_map, Function.comp_def, rename_rename, hσ]
            congr 1
            apply List.map_congr_left
            intro q hq
            exact hbr q hq)
          (by rw [hstep]; simp only [hm, List.map_map, Function.comp_def, renameMig_rename, hσ])
          (by rw [hstep]; simp only [hp, List.map_map, Function.comp_def, renamePulse_rename, hσ])
          (by
            intro a
            rw [hstep]
            simp only [dictGet_dictSet, hg]
            rw [← sigma_renameOf t R sd hR hsd a]
            unfold sigma
            by_cases ha : (a == sd) = true
            · have : a = sd := by simpa using ha
              subst this
              have hnot : renameOf t R a = a ∨ renameOf t R a = a.sampledAt t := by
                unfold renameOf; split_ifs <;> simp
              rcases hnot with h | h
              · simp [h]
              · simp [h]
            · have ha' : (a == sd) = false := by simpa using ha
              simp only [ha', Bool.false_eq_true, if_false]
              have hnot : renameOf t R a = a ∨ renameOf t R a = a.sampledAt t := by
                unfold renameOf; split_ifs <;> simp
              rcases hnot with h | h
              · simp [h, ha']
              · simp [h, sampledAt_ne_base a t sd hsd])
        have e1 : isOlder (sd, st) = false := by simp [isOlder, h1]
        have e2 : isRenamed t (sd, st) = true := by simp [isRenamed, h1, h2]
        simp only [List.filter_cons, e1, e2, if_true, Bool.false_eq_true, if_false, List.map_cons]
        simp only [List.append_assoc, List.cons_append, List.nil_append] at this
        refine ⟨this.1, this.2.1, this.2.2.1, ?_⟩
        rw [this.2.2.2, hstep]
      · -- neither: nothing happens
        have hstep := F.none t s k sd st h1 h2
        rw [hstep]
        have := ih hS' R B s (k + 1) hR hd hm hp hg
        have e1 : isOlder (sd, st) = false := by simp [isOlder, h1]
        have e2 : isRenamed t (sd, st) = false := by simp [isRenamed, h1, h2]
        simp only [List.filter_cons, e1, e2, Bool.false_eq_true, if_false]
        exact this

/-! ### the renamed list of sampled demes -/

/-- the name under which a sample is returned (`st` = sample time minus slice time) -/
def nameOfSample (t : ℚ) (p : DName × ℚ) : DName := if p.2 > 0 ∨ t > 0 then p.1.sampledAt (p.2 + t) else p.1

theorem augStep_sampled {step : ℚ → AugSt → ℕ → DName → ℚ → AugSt} {augLoop : ℚ → AugSt → ℕ → List (DName × ℚ) → AugSt} (F : AugFacts step augLoop)
    (t : ℚ) (s : AugSt) (k : ℕ) (sd : DName) (st : ℚ) :
    (step t s k sd st).sampled = if st > 0 ∨ t > 0 then s.sampled.set k (sd.sampledAt (st + t)) else s.sampled := by
  by_cases h1 : st > 0
  · rw [F.branch t s k sd st h1]; simp [h1]
  · by_cases h2 : t > 0
    · rw [F.rename t s k sd st h1 h2]; simp [h2]
    · rw [F.none t s k sd st h1 h2]; simp [h1, h2]

theorem augLoop_sampled {step : ℚ → AugSt → ℕ → DName → ℚ → AugSt} {augLoop : ℚ → AugSt → ℕ → List (DName × ℚ) → AugSt} (F : AugFacts step augLoop)
    (t : ℚ) (S : List (DName × ℚ)) :
    ∀ (pre : List DName) (s : AugSt), s.sampled = pre ++ S.map (·.1) →
      (augLoop t s pre.length S).sampled = pre ++ S.map (nameOfSample t) := by
  induction S with
  | nil => intro pre s hs; simpa [F.loop_nil] using hs
  | cons p rest ih =>
    intro pre s hs
    obtain ⟨sd, st⟩ := p
    simp only [F.loop_cons]
    have h1 : (step t s pre.length sd st).sampled = (pre ++ [nameOfSample t (sd, st)]) ++ rest.map (·.1) := by
      rw [augStep_sampled F, hs]
      unfold nameOfSample
      split_ifs <;> simp
    have := ih (pre ++ [nameOfSample t (sd, st)]) (step t s pre.length sd st) h1
    simp only [List.length_append, List.length_cons, List.length_nil, zero_add] at this
    rw [this]
    simp

/-! ### `min` -/

theorem foldl_min_le (xs : List ℚ) : ∀ init : ℚ,
    xs.foldl (fun a b => if b < a then b else a) init ≤ init ∧ ∀ y ∈ xs, xs.foldl (fun a b => if b < a then b else a) init ≤ y := by
  induction xs with
  | nil => intro init; simp
  | cons x rest ih =>
    intro init
    simp only [List.foldl_cons]
    have h := ih (if x < init then x else init)
    refine ⟨?_, ?_⟩
    · refine le_trans h.1 ?_
      split_ifs with hx
      · exact le_of_lt hx
      · exact le_refl _
    · intro y hy
      rcases List.mem_cons.1 hy with rfl | hy'
      · refine le_trans h.1 ?_
        split_ifs with hx
        · exact le_refl _
        · exact not_lt.1 hx
      · exact h.2 y hy'

theorem listMin_le (l : List ℚ) (x : ℚ) (hx : x ∈ l) : listMin l ≤ x := by
  cases l with
  | nil => cases hx
  | cons a rest =>
    unfold listMin
    rcases List.mem_cons.1 hx with rfl | h
    · exact (foldl_min_le rest _).1
    · exact (foldl_min_le rest a).2 x h

/-! ### `_augment_with_ancient_samples` in closed form -/

/-- the closed form of the augmentation, as a property of a function `aug` -/
def AugClosed (aug : Graph InEpoch → List DName → List ℚ → AugSt) : Prop :=
  ∀ (g : Graph InEpoch) (sampled : List DName) (times : List ℚ), sampled.length = times.length → (∀ a ∈ sampled, a.stamps = []) →
    (aug g sampled times).demes
        = (sliceGraph (listMin times) g).demes.map (GDeme.rename (renameOf (listMin times)
            (((sampled.zip times).filter fun p => !decide (p.2 - listMin times > 0) && decide (listMin times > 0)).map (·.1))))
          ++ ((sampled.zip times).filter fun p => decide (p.2 - listMin times > 0)).map (branchDeme (renameOf (listMin times)
            (((sampled.zip times).filter fun p => !decide (p.2 - listMin times > 0) && decide (listMin times > 0)).map (·.1))) (listMin times))
    ∧ (aug g sampled times).migs
        = (sliceGraph (listMin times) g).migs.map (GMig.rename (renameOf (listMin times)
            (((sampled.zip times).filter fun p => !decide (p.2 - listMin times > 0) && decide (listMin times > 0)).map (·.1))))
    ∧ (aug g sampled times).pulses
        = (sliceGraph (listMin times) g).pulses.map (GPulse.rename (renameOf (listMin times)
            (((sampled.zip times).filter fun p => !decide (p.2 - listMin times > 0) && decide (listMin times > 0)).map (·.1))))
    ∧ (aug g sampled times).frozen = ((sampled.zip times).filter fun p => decide (p.2 - listMin times > 0)).map (fun p => p.1.sampledAt p.2)
    ∧ (aug g sampled times).sampled
        = (sampled.zip times).map (fun p => if p.2 - listMin times > 0 ∨ listMin times > 0 then p.1.sampledAt p.2 else p.1)

theorem augment_spec {step : ℚ → AugSt → ℕ → DName → ℚ → AugSt} {augLoop : ℚ → AugSt → ℕ → List (DName × ℚ) → AugSt} (F : AugFacts step augLoop)
    (augment : Graph InEpoch → List DName → List ℚ → AugSt)
    (haug : ∀ g sampled times, augment g sampled times = augLoop (listMin times)
      { demes := (sliceGraph (listMin times) g).demes, migs := (sliceGraph (listMin times) g).migs, pulses := (sliceGraph (listMin times) g).pulses,
        sampled := sampled, frozen := [], renamed := [] } 0 (sampled.zip (times.map fun st => st - listMin times))) :
    AugClosed augment := by
  intro g sampled times hlen hbase
  set t := listMin times with ht
  -- the list the loop runs over
  have hzip : sampled.zip (times.map fun st => st - t) = (sampled.zip times).map (fun p => (p.1, p.2 - t)) := by
    rw [List.zip_map_right]
    apply List.map_congr_left
    intro p _
    rfl
  have hS : ∀ p ∈ (sampled.zip times).map (fun p => (p.1, p.2 - t)), p.1.stamps = [] ∧ 0 ≤ p.2 := by
    intro p hp
    obtain ⟨q, hq, rfl⟩ := List.mem_map.1 hp
    have h1 := (List.of_mem_zip hq).1
    have h2 := (List.of_mem_zip hq).2
    exact ⟨hbase _ h1, sub_nonneg.2 (listMin_le times _ h2)⟩
  have hmain := augLoop_spec F t (sliceGraph t g).demes (sliceGraph t g).migs (sliceGraph t g).pulses _ hS [] []
    { demes := (sliceGraph t g).demes, migs := (sliceGraph t g).migs, pulses := (sliceGraph t g).pulses, sampled := sampled, frozen := [], renamed := [] }
    0 (by simp)
    (by
      have : (renameOf t []) = fun a => a := by funext a; simp [renameOf]
      simp only [this, List.map_nil, List.append_nil]
      conv_lhs => rw [← List.map_id (sliceGraph t g).demes]
      apply List.map_congr_left
      intro d _
      simp [GDeme.rename])
    (by
      have : (renameOf t []) = fun a => a := by funext a; simp [renameOf]
      simp only [this]
      conv_lhs => rw [← List.map_id (sliceGraph t g).migs]
      apply List.map_congr_left
      intro d _
      simp [GMig.rename])
    (by
      have : (renameOf t []) = fun a => a := by funext a; simp [renameOf]
      simp only [this]
      conv_lhs => rw [← List.map_id (sliceGraph t g).pulses]
      apply List.map_congr_left
      intro d _
      simp [GPulse.rename])
    (by intro a; simp [dictGet, renameOf])
  have hsmp := augLoop_sampled F t ((sampled.zip times).map (fun p => (p.1, p.2 - t))) []
    { demes := (sliceGraph t g).demes, migs := (sliceGraph t g).migs, pulses := (sliceGraph t g).pulses, sampled := sampled, frozen := [], renamed := [] }
    (by
      simp only [List.nil_append, List.map_map, Function.comp_def]
      exact (List.map_fst_zip (le_of_eq hlen)).symm)
  have haug : augment g sampled times = augLoop t
      { demes := (sliceGraph t g).demes, migs := (sliceGraph t g).migs, pulses := (sliceGraph t g).pulses, sampled := sampled, frozen := [], renamed := [] }
      0 ((sampled.zip times).map (fun p => (p.1, p.2 - t))) := by
    rw [haug g sampled times, ← hzip]
  have hfR : (((sampled.zip times).map (fun p => (p.1, p.2 - t))).filter (isRenamed t)).map (·.1)
      = ((sampled.zip times).filter fun p => !decide (p.2 - t > 0) && decide (t > 0)).map (·.1) := by
    rw [List.filter_map, List.map_map]
    rfl
  have hfB : ((sampled.zip times).map (fun p => (p.1, p.2 - t))).filter isOlder
      = ((sampled.zip times).filter fun p => decide (p.2 - t > 0)).map (fun p => (p.1, p.2 - t)) := by
    rw [List.filter_map]
    rfl
  have hbr : ∀ (ρ : DName → DName) (p : DName × ℚ), brOf ρ t (p.1, p.2 - t) = branchDeme ρ t p := by
    intro ρ p
    simp [brOf, branchDeme]
  rw [haug]
  simp only [List.nil_append, hfR, hfB, List.map_map, Function.comp_def, hbr] at hmain
  refine ⟨hmain.1, hmain.2.1, hmain.2.2.1, ?_, ?_⟩
  · rw [hmain.2.2.2]
    simp
  · have := hsmp
    simp only [List.length_nil, List.nil_append, List.map_map, Function.comp_def, nameOfSample, sub_add_cancel] at this
    exact this

/-! ### the order of the samples -/

theorem foldl_min_mem (xs : List ℚ) : ∀ init : ℚ,
    xs.foldl (fun a b => if b < a then b else a) init = init ∨ xs.foldl (fun a b => if b < a then b else a) init ∈ xs := by
  induction xs with
  | nil => intro init; exact Or.inl rfl
  | cons x rest ih =>
    intro init
    simp only [List.foldl_cons]
    rcases ih (if x < init then x else init) with h | h
    · rw [h]
      split_ifs
      · exact Or.inr List.mem_cons_self
      · exact Or.inl rfl
    · exact Or.inr (List.mem_cons_of_mem _ h)

theorem listMin_mem (l : List ℚ) (h : l ≠ []) : listMin l ∈ l := by
  cases l with
  | nil => exact absurd rfl h
  | cons a rest =>
    show rest.foldl (fun a b => if b < a then b else a) a ∈ a :: rest
    rcases foldl_min_mem rest a with h1 | h1
    · rw [h1]; exact List.mem_cons_self
    · exact List.mem_cons_of_mem _ h1

theorem listMin_perm (l l' : List ℚ) (h : l'.Perm l) : listMin l' = listMin l := by
  by_cases hl : l = []
  · subst hl
    rw [List.Perm.eq_nil h]
  · have hl' : l' ≠ [] := fun h' => hl (by rw [h'] at h; exact List.Perm.eq_nil h.symm)
    apply le_antisymm
    · exact listMin_le l' _ (h.mem_iff.2 (listMin_mem l hl))
    · exact listMin_le l _ (h.mem_iff.1 (listMin_mem l' hl'))

theorem renameOf_perm (t : ℚ) (R R' : List DName) (h : R'.Perm R) : renameOf t R' = renameOf t R := by
  funext a
  unfold renameOf
  have : R'.contains a = R.contains a := by
    rw [Bool.eq_iff_iff]
    simp only [List.contains_iff_mem]
    exact h.mem_iff
  rw [this]

/-- **The order in which the samples are listed** does not matter for the augmented graph: the sliced and renamed part, the migrations and
    the pulses are identical, the frozen branches (and the frozen list) are listed in the order of the samples. -/
theorem augment_perm {augment : Graph InEpoch → List DName → List ℚ → AugSt} (hclosed : AugClosed augment)
    (g : Graph InEpoch) (sampled sampled' : List DName) (times times' : List ℚ)
    (hlen : sampled.length = times.length) (hlen' : sampled'.length = times'.length)
    (hbase : ∀ a ∈ sampled, a.stamps = []) (hperm : (sampled'.zip times').Perm (sampled.zip times)) :
    (augment g sampled' times').demes.Perm (augment g sampled times).demes
    ∧ (augment g sampled' times').migs = (augment g sampled times).migs
    ∧ (augment g sampled' times').pulses = (augment g sampled times).pulses
    ∧ (augment g sampled' times').frozen.Perm (augment g sampled times).frozen
    ∧ (augment g sampled' times').demes.take (sliceGraph (listMin times) g).demes.length
        = (augment g sampled times).demes.take (sliceGraph (listMin times) g).demes.length := by
  have hs : sampled'.Perm sampled := by
    have := hperm.map Prod.fst
    rwa [List.map_fst_zip (le_of_eq hlen'), List.map_fst_zip (le_of_eq hlen)] at this
  have ht : times'.Perm times := by
    have := hperm.map Prod.snd
    rwa [List.map_snd_zip (le_of_eq hlen'.symm), List.map_snd_zip (le_of_eq hlen.symm)] at this
  have hbase' : ∀ a ∈ sampled', a.stamps = [] := fun a ha => hbase a (hs.mem_iff.1 ha)
  obtain ⟨Y1, Y2, Y3, Y4, _⟩ := hclosed g sampled' times' hlen' hbase'
  obtain ⟨G1, G2, G3, G4, _⟩ := hclosed g sampled times hlen hbase
  have hmin := listMin_perm times times' ht
  rw [hmin] at Y1 Y2 Y3 Y4
  have hR := renameOf_perm (listMin times) _ _
    ((hperm.filter fun p => !decide (p.2 - listMin times > 0) && decide (listMin times > 0)).map (·.1))
  rw [hR] at Y1 Y2 Y3
  have hB := hperm.filter fun p => decide (p.2 - listMin times > 0)
  refine ⟨?_, ?_, ?_, ?_, ?_⟩
  · rw [Y1, G1]
    exact List.Perm.append_left _ (hB.map _)
  · rw [Y2, G2]
  · rw [Y3, G3]
  · rw [Y4, G4]
    exact hB.map _
  · rw [Y1, G1]
    simp [List.take_append_of_le_length]

end DadiVerif.DemesConv
