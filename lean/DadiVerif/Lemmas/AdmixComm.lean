import DadiVerif.Lemmas.AdmixExt
/-!
C06, round 4: a pulse commutes with the removal of a population that does not contribute to it (proportion 0), and
consequences for sequences of pulses.
-/
namespace DadiVerif.Admix
open Finset

/-- position of axis `d` after axis `a ≠ d` has been removed -/
def shiftAx (d a : ℕ) : ℕ := if d < a then d else d - 1

theorem set_insertIdx_ne : ∀ (a : ℕ) (j : Idx) (dest k i : ℕ), a ≤ j.length → dest ≠ a →
    (j.insertIdx a k).set dest i = (j.set (shiftAx dest a) i).insertIdx a k := by
  intro a
  induction a with
  | zero =>
    intro j dest k i _ hne
    cases dest with
    | zero => exact absurd rfl hne
    | succ d => simp [shiftAx]
  | succ a ih =>
    intro j dest k i ha hne
    cases j with
    | nil => simp at ha
    | cons x j =>
      cases dest with
      | zero => simp [shiftAx]
      | succ d =>
        have hd : d ≠ a := fun h => hne (by rw [h])
        have := ih j d k i (by simpa using ha) hd
        by_cases hlt : d < a
        · have e : shiftAx (d + 1) (a + 1) = shiftAx d a + 1 := by simp [shiftAx, hlt]
          rw [e]; simp only [List.insertIdx_succ_cons, List.set_cons_succ, this]
        · have hge : a < d := by omega
          have e : shiftAx (d + 1) (a + 1) = shiftAx d a + 1 := by
            simp only [shiftAx, if_neg hlt, if_neg (show ¬ d + 1 < a + 1 by omega)]; omega
          rw [e]; simp only [List.insertIdx_succ_cons, List.set_cons_succ, this]

theorem getD_insertIdx_ne (j : Idx) (a dest k : ℕ) (hne : dest ≠ a) :
    (j.insertIdx a k).getD dest 0 = j.getD (shiftAx dest a) 0 := by
  unfold shiftAx
  by_cases h : dest < a
  · rw [if_pos h, getD_insertIdx_lt _ _ _ _ _ h]
  · rw [if_neg h, getD_insertIdx_gt _ _ _ _ _ (by omega)]

/-- a population with coefficient 0 does not enter the mixed frequency -/
theorem adZ_insertIdx_zero : ∀ (a : ℕ) (grids : List (Array ℚ)) (coefs : List ℚ) (m : Idx) (k : ℕ),
    a < grids.length → a < coefs.length → a ≤ m.length → coefs.getD a 0 = 0 →
    adZ grids coefs (m.insertIdx a k) = adZ (grids.eraseIdx a) (coefs.eraseIdx a) m := by
  intro a
  induction a with
  | zero =>
    intro grids coefs m k hg hc _ h0
    cases grids with
    | nil => simp at hg
    | cons g gs =>
      cases coefs with
      | nil => simp at hc
      | cons c cs =>
        have : c = 0 := by simpa using h0
        subst this
        simp [adZ]
  | succ a ih =>
    intro grids coefs m k hg hc hm h0
    cases grids with
    | nil => simp at hg
    | cons g gs =>
      cases coefs with
      | nil => simp at hc
      | cons c cs =>
        cases m with
        | nil => simp at hm
        | cons i m =>
          simp only [List.insertIdx_succ_cons, List.eraseIdx_cons_succ, adZ]
          rw [ih gs cs m k (by simpa using hg) (by simpa using hc) (by simpa using hm) (by simpa using h0)]

/-- pulse, then integrate out a population `a` that contributes nothing to it = integrate `a` out, then pulse -/
theorem pulseRaw_remove_comm (grids : List (Array ℚ)) (g xa : Array ℚ) (coefs : List ℚ) (dest a : ℕ) (P : Dens) (j : Idx)
    (h2 : 2 ≤ g.size) (hne : dest ≠ a) (ha : a ≤ j.length) (hag : a < grids.length) (hac : a < coefs.length)
    (hc0 : coefs.getD a 0 = 0) :
    (removeAxis xa a (pulseRaw grids g g coefs dest P)).f j
      = (pulseRaw (grids.eraseIdx a) g g (coefs.eraseIdx a) (shiftAx dest a) (removeAxis xa a P)).f j := by
  rw [removeAxis_f]
  simp only [pulseRaw_f, removeAxis_f]
  have hterm : ∀ k i, depositAt g (P.f ((j.insertIdx a k).set dest i)) (adZ grids coefs ((j.insertIdx a k).set dest i))
        ((j.insertIdx a k).getD dest 0)
      = P.f ((j.set (shiftAx dest a) i).insertIdx a k) *
          depositAt g 1 (adZ (grids.eraseIdx a) (coefs.eraseIdx a) (j.set (shiftAx dest a) i)) (j.getD (shiftAx dest a) 0) := by
    intro k i
    rw [set_insertIdx_ne a j dest k i ha hne, getD_insertIdx_ne j a dest k hne,
      adZ_insertIdx_zero a grids coefs _ k hag hac (by simpa using ha) hc0, depositAt_linear g _ _ h2]
  simp only [hterm]
  have hr : ∀ i, depositAt g (∑ k ∈ range xa.size, trapzW xa k * P.f ((j.set (shiftAx dest a) i).insertIdx a k))
        (adZ (grids.eraseIdx a) (coefs.eraseIdx a) (j.set (shiftAx dest a) i)) (j.getD (shiftAx dest a) 0)
      = ∑ k ∈ range xa.size, trapzW xa k * (P.f ((j.set (shiftAx dest a) i).insertIdx a k) *
          depositAt g 1 (adZ (grids.eraseIdx a) (coefs.eraseIdx a) (j.set (shiftAx dest a) i)) (j.getD (shiftAx dest a) 0)) := by
    intro i
    rw [depositAt_linear g _ _ h2, Finset.sum_mul]
    apply Finset.sum_congr rfl
    intro k _
    ring
  simp only [hr, Finset.mul_sum]
  rw [Finset.sum_comm]
  apply Finset.sum_congr rfl
  intro i _
  apply Finset.sum_congr rfl
  intro k _
  ring

/-! ### the same for the intended function `pulse` -/

theorem eraseIdx_insertIdx_lt {α : Type} : ∀ (a d : ℕ) (l : List α) (c : α), a < d → d ≤ l.length →
    (l.insertIdx d c).eraseIdx a = (l.eraseIdx a).insertIdx (d - 1) c := by
  intro a
  induction a with
  | zero =>
    intro d l c h hd
    cases d with
    | zero => omega
    | succ d =>
      cases l with
      | nil => simp at hd
      | cons x l => simp
  | succ a ih =>
    intro d l c h hd
    cases d with
    | zero => omega
    | succ d =>
      cases l with
      | nil => simp at hd
      | cons x l =>
        have := ih d l c (by omega) (by simpa using hd)
        have hd1 : d - 1 + 1 = d := by omega
        simp only [List.insertIdx_succ_cons, List.eraseIdx_cons_succ, Nat.add_sub_cancel, this]
        rw [← hd1, List.insertIdx_succ_cons, hd1]

theorem eraseIdx_insertIdx_gt {α : Type} : ∀ (d a : ℕ) (l : List α) (c : α), d < a →
    (l.insertIdx d c).eraseIdx a = (l.eraseIdx (a - 1)).insertIdx d c := by
  intro d
  induction d with
  | zero =>
    intro a l c h
    cases a with
    | zero => omega
    | succ a => simp
  | succ d ih =>
    intro a l c h
    cases a with
    | zero => omega
    | succ a =>
      cases l with
      | nil => simp
      | cons x l =>
        have := ih a l c (by omega)
        have ha1 : a - 1 + 1 = a := by omega
        simp only [List.insertIdx_succ_cons, List.eraseIdx_cons_succ, Nat.add_sub_cancel, this]
        rw [← ha1, List.eraseIdx_cons_succ, ha1, List.insertIdx_succ_cons]

theorem sum_eraseIdx_zero : ∀ (l : List ℚ) (a : ℕ), l.getD a 0 = 0 → (l.eraseIdx a).sum = l.sum := by
  intro l
  induction l with
  | nil => intro a _; simp
  | cons x l ih =>
    intro a h
    cases a with
    | zero => have : x = 0 := by simpa using h
              subst this; simp
    | succ a => simp only [List.eraseIdx_cons_succ, List.sum_cons]; rw [ih a (by simpa using h)]

/-- the coefficient vector after dropping a non-contributing population -/
theorem fullCoefs_eraseIdx (dest a : ℕ) (f : List ℚ) (hd : dest ≤ f.length) (hne : dest ≠ a)
    (h0 : f.getD (shiftAx a dest) 0 = 0) :
    (fullCoefs dest f).eraseIdx a = fullCoefs (shiftAx dest a) (f.eraseIdx (shiftAx a dest)) := by
  unfold fullCoefs
  rw [sum_eraseIdx_zero f _ h0]
  by_cases h : a < dest
  · have e1 : shiftAx a dest = a := by simp [shiftAx, h]
    have e2 : shiftAx dest a = dest - 1 := by simp only [shiftAx]; rw [if_neg (by omega)]
    rw [e1, e2, eraseIdx_insertIdx_lt a dest f _ h hd]
  · have h' : dest < a := by omega
    have e1 : shiftAx a dest = a - 1 := by simp only [shiftAx]; rw [if_neg (by omega)]
    have e2 : shiftAx dest a = dest := by simp [shiftAx, h']
    rw [e1, e2, eraseIdx_insertIdx_gt dest a f _ h']

theorem getD_eraseIdx_shift {α : Type} (l : List α) (dest a : ℕ) (d : α) (hne : dest ≠ a) :
    (l.eraseIdx a).getD (shiftAx dest a) d = l.getD dest d := by
  rw [List.getD_eq_getElem?_getD, List.getElem?_eraseIdx, List.getD_eq_getElem?_getD]
  unfold shiftAx
  by_cases h : dest < a
  · rw [if_pos h, if_pos h]
  · have e : dest - 1 + 1 = dest := by omega
    rw [if_neg h, if_neg (by omega), e]

theorem pulse_remove_comm (grids : List (Array ℚ)) (dest a : ℕ) (f : List ℚ) (P : Dens) (j : Idx)
    (hgl : grids.length = f.length + 1) (hd : dest ≤ f.length) (ha : a ≤ f.length) (hne : dest ≠ a) (hj : a ≤ j.length)
    (h2 : 2 ≤ (grids.getD dest #[]).size) (h0 : f.getD (shiftAx a dest) 0 = 0) :
    (removeAxis (grids.getD a #[]) a (pulse grids dest f P)).f j
      = (pulse (grids.eraseIdx a) (shiftAx dest a) (f.eraseIdx (shiftAx a dest)) (removeAxis (grids.getD a #[]) a P)).f j := by
  unfold pulse
  have hlen : (fullCoefs dest f).length = f.length + 1 := by unfold fullCoefs; rw [List.length_insertIdx]; simp [hd]
  have hc0 : (fullCoefs dest f).getD a 0 = 0 := by
    rw [fullCoefs_getD dest f hd a]
    unfold shiftAx at h0
    by_cases h : a < dest
    · rw [if_pos h]; rwa [if_pos h] at h0
    · rw [if_neg h, if_neg (by omega)]; rwa [if_neg h] at h0
  rw [pulseRaw_remove_comm grids _ _ (fullCoefs dest f) dest a P j h2 hne hj (by omega) (by omega) hc0,
    fullCoefs_eraseIdx dest a f hd hne h0, getD_eraseIdx_shift grids dest a #[] hne]

end DadiVerif.Admix
