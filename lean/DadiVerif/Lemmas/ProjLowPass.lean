import DadiVerif.Model.ProjLowPass
import Mathlib.Algebra.BigOperators.Ring.Finset
import Mathlib.Algebra.BigOperators.Intervals
import Mathlib.Tactic.Ring
import Mathlib.Tactic.SplitIfs
/-! C08, round 6: the per-population loop of `lowpass_func` (regenerated statement list `Gen.ProjLP.loopBody`) applies
    matrix k along axis k and restores the axis order.  Everything is about functions of an index assignment
    `position → index`; no flat-index arithmetic. -/
namespace DadiVerif
namespace LPAx
open Gen.ProjLP Finset

theorem sumTo_eq_sum (n : ℕ) (f : ℕ → ℚ) : sumTo n f = ∑ i ∈ range n, f i := by
  induction n with
  | zero => simp [sumTo]
  | succ n ih => rw [sumTo, ih, Finset.sum_range_succ]

theorem sumTo_congr {n : ℕ} {f g : ℕ → ℚ} (h : ∀ i, i < n → f i = g i) : sumTo n f = sumTo n g := by
  rw [sumTo_eq_sum, sumTo_eq_sum]
  exact Finset.sum_congr rfl fun i hi => h i (Finset.mem_range.mp hi)

/-! ### positions -/

theorem swapPos_invol (a b p : ℕ) : swapPos a b (swapPos a b p) = p := by
  unfold swapPos; split_ifs <;> simp_all

theorem swapPos_right (a b : ℕ) : swapPos a b b = a := by
  unfold swapPos; split_ifs <;> simp_all

theorem swapPos_left (a b : ℕ) : swapPos a b a = b := by
  unfold swapPos; simp

theorem swapPos_eq_left_iff (a b q : ℕ) : swapPos a b q = a ↔ q = b := by
  unfold swapPos; split_ifs <;> constructor <;> intro h <;> omega

theorem swapPos_eq_right_iff (a b q : ℕ) : swapPos a b q = b ↔ q = a := by
  unfold swapPos; split_ifs <;> constructor <;> intro h <;> omega

/-- `moveaxis` is a bijection on positions: `moveSrc` undoes `movePos` -/
theorem moveSrc_movePos (a b p : ℕ) : moveSrc a b (movePos a b p) = p := by
  unfold moveSrc movePos
  by_cases h1 : p = a
  · simp [h1]
  · simp only [h1, if_false]
    by_cases h2 : p < a <;> simp only [h2, if_true, if_false]
    · by_cases h3 : p < b <;> simp only [h3, if_true, if_false]
      · have : p ≠ b := by omega
        simp [this, h2]
      · have : p + 1 ≠ b := by omega
        have h4 : ¬ (p + 1 < b) := by omega
        simp [this, h4, h2]
    · by_cases h3 : p - 1 < b <;> simp only [h3, if_true, if_false]
      · have h5 : p - 1 ≠ b := by omega
        have h6 : ¬ (p - 1 < a) := by omega
        simp only [h5, if_false, h6]; omega
      · have h5 : p - 1 + 1 ≠ b := by omega
        have h6 : ¬ (p - 1 + 1 < b) := by omega
        have h7 : ¬ (p - 1 + 1 - 1 < a) := by omega
        simp only [h5, if_false, h6, h7]; omega

theorem moveSrc_eq_movePos (a b q : ℕ) : moveSrc a b q = movePos b a q := rfl

theorem movePos_movePos (a b p : ℕ) : movePos b a (movePos a b p) = p := by
  rw [← moveSrc_eq_movePos]; exact moveSrc_movePos a b p

theorem movePos_self (a b : ℕ) : movePos a b a = b := by simp [movePos]

theorem movePos_eq_dst_iff (a b q : ℕ) : movePos a b q = b ↔ q = a := by
  constructor
  · intro h
    by_contra hq
    unfold movePos at h
    simp only [hq, if_false] at h
    split_ifs at h <;> omega
  · rintro rfl; exact movePos_self _ _

/-! ### arrays -/

theorem swapA_swapA (a b : ℕ) (A : Idx → ℚ) : swapA a b (swapA a b A) = A := by
  funext idx
  simp only [swapA, swapPos_invol]

/-- conjugation: applying a matrix along position `b` between two `swapaxes(a, b)` is applying it along position `a` -/
theorem swapA_along (a b n : ℕ) (M : ℕ → ℕ → ℚ) (B : Idx → ℚ) :
    swapA a b (along b n M B) = along a n M (swapA a b B) := by
  funext idx
  simp only [swapA, along, swapPos_right]
  refine sumTo_congr fun i _ => ?_
  have : upd (fun p => idx (swapPos a b p)) b i = fun p => upd idx a i (swapPos a b p) := by
    funext q
    simp only [upd, swapPos_eq_left_iff]
  rw [this]

theorem moveA_moveA (a b : ℕ) (A : Idx → ℚ) : moveA b a (moveA a b A) = A := by
  funext idx
  simp only [moveA, movePos_movePos]

/-- conjugation for `moveaxis`: a matrix applied along position `b` and then `moveaxis(b, a)` is `moveaxis(b, a)` and then the
    matrix along position `a` -/
theorem moveA_along (a b n : ℕ) (M : ℕ → ℕ → ℚ) (B : Idx → ℚ) :
    moveA b a (along b n M B) = along a n M (moveA b a B) := by
  funext idx
  simp only [moveA, along, movePos_self]
  refine sumTo_congr fun i _ => ?_
  have : upd (fun p => idx (movePos b a p)) b i = fun p => upd idx a i (movePos b a p) := by
    funext q
    simp only [upd, movePos_eq_dst_iff]
  rw [this]

/-- two different axes can be treated in either order -/
theorem along_comm {a b : ℕ} (hab : a ≠ b) (n n' : ℕ) (M M' : ℕ → ℕ → ℚ) (A : Idx → ℚ) :
    along a n M (along b n' M' A) = along b n' M' (along a n M A) := by
  funext idx
  simp only [along, sumTo_eq_sum]
  have h1 : ∀ i, (upd idx a i) b = idx b := fun i => by simp [upd, Ne.symm hab]
  have h2 : ∀ j, (upd idx b j) a = idx a := fun j => by simp [upd, hab]
  have h3 : ∀ i j, upd (upd idx a i) b j = upd (upd idx b j) a i := fun i j => by
    funext q; simp only [upd]; split_ifs <;> first | rfl | omega
  simp only [h1, h2, h3, Finset.sum_mul]
  rw [Finset.sum_comm]
  exact Finset.sum_congr rfl fun _ _ => Finset.sum_congr rfl fun _ _ => by ring

/-- the identity matrix changes nothing (deep coverage: the calling-error matrix is the identity) -/
theorem along_one (k n : ℕ) (A : Idx → ℚ) (idx : Idx) (h : idx k < n) :
    along k n (fun i j => if i = j then 1 else 0) A idx = A idx := by
  simp only [along, sumTo_eq_sum]
  rw [Finset.sum_eq_single (idx k)]
  · have : upd idx k (idx k) = idx := by funext q; simp only [upd]; split_ifs with hq <;> simp [hq]
    simp [this]
  · intro i _ hi; simp [hi]
  · intro hn; exact absurd (Finset.mem_range.mpr h) hn

/-! ### the loop body -/

theorem foldOpt_append {σ α : Type} (f : σ → α → Option σ) (s : σ) (l₁ l₂ : List α) :
    foldOpt f s (l₁ ++ l₂) = (foldOpt f s l₁).bind fun s' => foldOpt f s' l₂ := by
  induction l₁ generalizing s with
  | nil => simp [foldOpt]
  | cons a l ih =>
    simp only [List.cons_append, foldOpt]
    cases f s a with
    | none => simp
    | some s' => simpa using ih s'

/-- `swapaxes(k, -1); dot(P); dot(H); swapaxes(k, -1)` = "P, then H, along axis k", shape and entries -/
theorem swap_dot_dot_swap (d k : ℕ) (hk : k < d) (mats : ℕ → Mat) (t : St)
    (hP : t.shape k = (mats 0).rows) (hH : (mats 0).cols = (mats 1).rows) :
    foldOpt (step d mats) t [.swap k (d - 1), .dot 0, .dot 1, .swap k (d - 1)]
      = some ⟨upd t.shape k (mats 1).cols,
              along k (mats 1).rows (mats 1).get (along k (mats 0).rows (mats 0).get t.val)⟩ := by
  have hL : d - 1 < d := by omega
  have hd : 0 < d := by omega
  simp only [foldOpt, step, hk, hL, hd, and_self, if_true, swapPos_right, hP, upd, hH]
  congr 2
  · funext p
    simp only [swapPos_eq_right_iff]
    by_cases hp : p = k
    · simp [hp, upd]
    · simp [hp, swapPos_invol, upd]
  · rw [swapA_along, swapA_along, swapA_swapA]

/-- `moveaxis(k, -1); dot(P); dot(H); moveaxis(-1, k)` is the same operator -/
theorem move_dot_dot_move (d k : ℕ) (hk : k < d) (mats : ℕ → Mat) (t : St)
    (hP : t.shape k = (mats 0).rows) (hH : (mats 0).cols = (mats 1).rows) :
    foldOpt (step d mats) t [.move k (d - 1), .dot 0, .dot 1, .move (d - 1) k]
      = some ⟨upd t.shape k (mats 1).cols,
              along k (mats 1).rows (mats 1).get (along k (mats 0).rows (mats 0).get t.val)⟩ := by
  have hL : d - 1 < d := by omega
  have hd : 0 < d := by omega
  have h0 : moveSrc k (d - 1) (d - 1) = k := by rw [moveSrc_eq_movePos]; exact movePos_self _ _
  simp only [foldOpt, step, hk, hL, hd, and_self, if_true, h0, hP, upd, hH]
  congr 2
  · funext p
    rw [moveSrc_eq_movePos]
    simp only [movePos_eq_dst_iff]
    by_cases hp : p = k
    · simp [hp, upd]
    · simp [hp, moveSrc_movePos, upd]
  · rw [moveA_along, moveA_along, moveA_moveA]

/-! ### the generated loop -/

/-- what the loop body read off the source has to be: the axis is swapped to the end and swapped back, or moved to the end and
    moved back (Props/C08.lean supplies the proof `rfl` for the current source; kept as a hypothesis here so that a changed
    source breaks `C08_lowpass_axes` and nothing else) -/
def BodyIs (d : ℕ) : Prop :=
  (∀ k, loopBody d k = [.swap k (d - 1), .dot 0, .dot 1, .swap k (d - 1)])
  ∨ (∀ k, loopBody d k = [.move k (d - 1), .dot 0, .dot 1, .move (d - 1) k])

/-- population k's two matrices (first the projection matrix, then the calling-error matrix) along axis k -/
def bodyVal (M : ℕ → Mat) (k : ℕ) (A : Idx → ℚ) : Idx → ℚ :=
  along k (M 1).rows (M 1).get (along k (M 0).rows (M 0).get A)

/-- populations 0, …, n−1 done -/
def closedVal (mats : ℕ → ℕ → Mat) (n : ℕ) (A : Idx → ℚ) : Idx → ℚ :=
  (List.range n).foldl (fun A k => bodyVal (mats k) k A) A

def closedShape (mats : ℕ → ℕ → Mat) (n : ℕ) (sh : ℕ → ℕ) : ℕ → ℕ := fun p => if p < n then (mats p 1).cols else sh p

theorem runBody_eq (d k : ℕ) (hb : BodyIs d) (hk : k < d) (mats : ℕ → Mat) (t : St)
    (hP : t.shape k = (mats 0).rows) (hH : (mats 0).cols = (mats 1).rows) :
    runBody d k mats t = some ⟨upd t.shape k (mats 1).cols, bodyVal mats k t.val⟩ := by
  rcases hb with hb | hb
  · rw [runBody, hb k]
    exact swap_dot_dot_swap d k hk mats t hP hH
  · rw [runBody, hb k]
    exact move_dot_dot_move d k hk mats t hP hH

theorem runLoop_prefix (d : ℕ) (hb : BodyIs d) (mats : ℕ → ℕ → Mat) (s : St)
    (hP : ∀ k < d, s.shape k = (mats k 0).rows) (hH : ∀ k < d, (mats k 0).cols = (mats k 1).rows) :
    ∀ n ≤ d, foldOpt (fun s k => runBody d k (mats k) s) s (List.range n)
      = some ⟨closedShape mats n s.shape, closedVal mats n s.val⟩ := by
  intro n
  induction n with
  | zero =>
    intro _
    cases s with
    | mk sh v =>
      simp only [List.range_zero, foldOpt, closedVal, List.foldl_nil]
      congr 2
  | succ n ih =>
    intro hn
    have hn' : n < d := by omega
    rw [List.range_succ, foldOpt_append, ih (by omega)]
    simp only [Option.bind_some, foldOpt]
    have hb' := runBody_eq d n hb hn' (mats n) ⟨closedShape mats n s.shape, closedVal mats n s.val⟩
      (by simp [closedShape, hP n hn']) (hH n hn')
    rw [hb']
    simp only [closedVal, List.range_succ, List.foldl_append, List.foldl_cons, List.foldl_nil]
    congr 2
    funext p
    simp only [upd, closedShape]
    by_cases h1 : p = n
    · simp [h1]
    · by_cases h2 : p < n
      · have : p < n + 1 := by omega
        simp [h1, h2, this]
      · have : ¬ p < n + 1 := by omega
        simp [h1, h2, this]

theorem runLoop_eq (d : ℕ) (hb : BodyIs d) (hv : loopVisits d = List.range d) (mats : ℕ → ℕ → Mat) (s : St)
    (hP : ∀ k < d, s.shape k = (mats k 0).rows) (hH : ∀ k < d, (mats k 0).cols = (mats k 1).rows) :
    runLoop d mats s = some ⟨closedShape mats d s.shape, closedVal mats d s.val⟩ := by
  rw [runLoop, hv]
  exact runLoop_prefix d hb mats s hP hH d le_rfl

/-- the populations can be treated in any order -/
theorem bodyVal_comm {a b : ℕ} (hab : a ≠ b) (Ma Mb : ℕ → Mat) (A : Idx → ℚ) :
    bodyVal Ma a (bodyVal Mb b A) = bodyVal Mb b (bodyVal Ma a A) := by
  simp only [bodyVal]
  rw [along_comm hab, along_comm hab, along_comm hab, along_comm hab]

end LPAx
end DadiVerif
