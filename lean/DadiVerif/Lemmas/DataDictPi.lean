import DadiVerif.Lemmas.DataDictSym
import Mathlib.Tactic.LinearCombination
/-! Infrastructure for C13, part 6: the mean number of pairwise differences is invariant under hypergeometric
    projection:  Σ_j w(m,n,i,j)·j(m−j) = m(m−1)·i(n−i)/(n(n−1)). -/
namespace DadiVerif.DataDict
open Finset DadiVerif.Gen.DD

/-- (k+1)·(M+2−(k+1))·C(M+2,k+1) = (M+2)(M+1)·C(M,k) -/
theorem choose_pairs (M k : ℕ) :
    (k + 1) * (M + 2 - (k + 1)) * (M + 2).choose (k + 1) = (M + 2) * (M + 1) * M.choose k := by
  have ha : M + 2 - (k + 1) = M + 1 - k := by omega
  have h1 := Nat.add_one_mul_choose_eq (M + 1) k
  have h2 := Nat.choose_mul_succ_eq M k
  rw [ha]
  calc (k + 1) * (M + 1 - k) * (M + 2).choose (k + 1)
      = (M + 1 - k) * ((M + 1 + 1).choose (k + 1) * (k + 1)) := by ring
    _ = (M + 1 - k) * ((M + 1 + 1) * (M + 1).choose k) := by rw [← h1]
    _ = (M + 2) * ((M + 1).choose k * (M + 1 - k)) := by ring
    _ = (M + 2) * (M.choose k * (M + 1)) := by rw [← h2]
    _ = (M + 2) * (M + 1) * M.choose k := by ring

/-- integer core: Σ_{j ≤ i} C(m,j)·C(n−m,i−j)·j(m−j) = m(m−1)·C(n−2,i−1)   (m = M+2, i = I+1) -/
theorem pairs_vandermonde (M r I : ℕ) :
    ∑ j ∈ range (I + 2), (M + 2).choose j * r.choose (I + 1 - j) * (j * (M + 2 - j))
      = (M + 2) * (M + 1) * (M + r).choose I := by
  rw [Finset.sum_range_succ']
  simp only [Nat.zero_mul, Nat.mul_zero, Nat.add_zero]
  have : ∀ k ∈ range (I + 1), (M + 2).choose (k + 1) * r.choose (I + 1 - (k + 1)) * ((k + 1) * (M + 2 - (k + 1)))
      = (M + 2) * (M + 1) * (M.choose k * r.choose (I - k)) := by
    intro k _
    have e : I + 1 - (k + 1) = I - k := by omega
    rw [e]
    have := choose_pairs M k
    calc (M + 2).choose (k + 1) * r.choose (I - k) * ((k + 1) * (M + 2 - (k + 1)))
        = r.choose (I - k) * ((k + 1) * (M + 2 - (k + 1)) * (M + 2).choose (k + 1)) := by ring
      _ = r.choose (I - k) * ((M + 2) * (M + 1) * M.choose k) := by rw [this]
      _ = (M + 2) * (M + 1) * (M.choose k * r.choose (I - k)) := by ring
  rw [Finset.sum_congr rfl this, ← Finset.mul_sum, vandermonde_range]

/-- Σ_j w(m,n,i,j)·j(m−j) = m(m−1)·i(n−i)/(n(n−1)) -/
theorem projWeight_pairs (m n i : ℕ) (hm : 2 ≤ m) (hmn : m ≤ n) (hi : i ≤ n) :
    sumRange (m + 1) (fun j => projWeight m n i j * ((j : ℚ) * ((m : ℚ) - j)))
      = (m : ℚ) * (m - 1) * ((i : ℚ) * ((n : ℚ) - i)) / ((n : ℚ) * (n - 1)) := by
  rw [sumRange_eq]
  -- restrict both sums to a common range
  have big : ∑ j ∈ range (m + 1), projWeight m n i j * ((j : ℚ) * ((m : ℚ) - j))
      = ∑ j ∈ range (max m i + 1), projWeight m n i j * ((j : ℚ) * ((m : ℚ) - j)) := by
    apply Finset.sum_subset
    · intro x hx; simp only [mem_range] at hx ⊢; omega
    · intro x _ hx2
      have : m < x := by simp only [mem_range] at hx2; omega
      rw [projWeight_of_gt_m this, zero_mul]
  have small : ∑ j ∈ range (i + 1), projWeight m n i j * ((j : ℚ) * ((m : ℚ) - j))
      = ∑ j ∈ range (max m i + 1), projWeight m n i j * ((j : ℚ) * ((m : ℚ) - j)) := by
    apply Finset.sum_subset
    · intro x hx; simp only [mem_range] at hx ⊢; omega
    · intro x _ hx2
      have : i < x := by simp only [mem_range] at hx2; omega
      rw [projWeight_of_gt this, zero_mul]
  rw [big, ← small]
  have hn2 : 2 ≤ n := le_trans hm hmn
  have hn0 : (n : ℚ) ≠ 0 := by positivity
  have hn1 : (n : ℚ) - 1 ≠ 0 := by
    have : (2 : ℚ) ≤ n := by exact_mod_cast hn2
    linarith
  have hC : ((n.choose i : ℕ) : ℚ) ≠ 0 := choose_pos_q hi
  -- every term as a natural-number numerator over C(n,i)
  have hterm : ∀ j ∈ range (i + 1), projWeight m n i j * ((j : ℚ) * ((m : ℚ) - j))
      = ((m.choose j * (n - m).choose (i - j) * (j * (m - j)) : ℕ) : ℚ) / ((n.choose i : ℕ) : ℚ) := by
    intro j hj
    have hji : j ≤ i := by simp only [mem_range] at hj; omega
    rw [projWeight_of_le hmn hji]
    by_cases hjm : j ≤ m
    · push_cast [Nat.cast_sub hjm]
      ring
    · have : m.choose j = 0 := Nat.choose_eq_zero_of_lt (by omega)
      simp [this]
  rw [Finset.sum_congr rfl hterm, ← Finset.sum_div]
  cases i with
  | zero =>
    simp
  | succ I =>
    obtain ⟨M, rfl⟩ : ∃ M, m = M + 2 := ⟨m - 2, by omega⟩
    have hsum := pairs_vandermonde M (n - (M + 2)) I
    have hMr : M + (n - (M + 2)) = n - 2 := by omega
    rw [hMr] at hsum
    have hcast : ((∑ j ∈ range (I + 1 + 1), ((M + 2).choose j * (n - (M + 2)).choose (I + 1 - j) * (j * (M + 2 - j)) : ℕ) : ℕ) : ℚ)
        = (((M + 2) * (M + 1) * (n - 2).choose I : ℕ) : ℚ) := by
      exact_mod_cast congrArg (Nat.cast (R := ℚ)) hsum
    rw [← Nat.cast_sum, hcast]
    -- (I+1)(n−(I+1))·C(n,I+1) = n(n−1)·C(n−2,I)
    obtain ⟨N, rfl⟩ : ∃ N, n = N + 2 := ⟨n - 2, by omega⟩
    have hrel := choose_pairs N I
    have hrelq : ((I + 1 : ℕ) : ℚ) * (((N + 2 : ℕ) : ℚ) - ((I + 1 : ℕ) : ℚ)) * (((N + 2).choose (I + 1) : ℕ) : ℚ)
        = ((N + 2 : ℕ) : ℚ) * ((N + 1 : ℕ) : ℚ) * ((N.choose I : ℕ) : ℚ) := by
      have hle : I + 1 ≤ N + 2 := hi
      rw [← Nat.cast_sub hle]
      exact_mod_cast congrArg (Nat.cast (R := ℚ)) hrel
    have e : N + 2 - 2 = N := by omega
    rw [e]
    rw [div_eq_div_iff hC (mul_ne_zero hn0 hn1)]
    push_cast at hrelq ⊢
    linear_combination ((M : ℚ) + 2) * ((M : ℚ) + 1) * (-hrelq)

end DadiVerif.DataDict
