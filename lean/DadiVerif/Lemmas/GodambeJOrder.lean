import DadiVerif.Lemmas.GodambeModelOrder
set_option autoImplicit false
set_option linter.unusedVariables false
namespace DadiVerif
namespace Godambe
namespace Order
open Gen.Godambe

section Pert
variable {K : Type} [Field K] [LinearOrder K] [IsStrictOrderedRing K]

/-- two gradient lists that agree, bootstrap by bootstrap, within δ in the coordinates i and j, the second one bounded by Γ there -/
def GradClose (i j : ℕ) (δi δj Γi Γj : K) (gh g : List (List K)) : Prop :=
  List.Forall₂ (fun a b : List K => |a.getD i 0 - b.getD i 0| ≤ δi ∧ |b.getD i 0| ≤ Γi ∧ |a.getD j 0 - b.getD j 0| ≤ δj ∧ |b.getD j 0| ≤ Γj) gh g

theorem prod_perturb (a b a' b' δa δb Γa Γb : K) (ha : |a' - a| ≤ δa) (hb : |b' - b| ≤ δb) (hA : |a| ≤ Γa) (hB : |b| ≤ Γb) :
    |a' * b' - a * b| ≤ δa * Γb + Γa * δb + δa * δb := by
  have e : a' * b' - a * b = (a' - a) * b + a * (b' - b) + (a' - a) * (b' - b) := by ring
  rw [e]
  have hδa : 0 ≤ δa := (abs_nonneg _).trans ha
  have hΓa : 0 ≤ Γa := (abs_nonneg _).trans hA
  have t1 : |(a' - a) * b| ≤ δa * Γb := by rw [abs_mul]; exact mul_le_mul ha hB (abs_nonneg _) hδa
  have t2 : |a * (b' - b)| ≤ Γa * δb := by rw [abs_mul]; exact mul_le_mul hA hb (abs_nonneg _) hΓa
  have t3 : |(a' - a) * (b' - b)| ≤ δa * δb := by rw [abs_mul]; exact mul_le_mul ha hb (abs_nonneg _) hδa
  calc _ ≤ |(a' - a) * b + a * (b' - b)| + |(a' - a) * (b' - b)| := abs_add_le _ _
    _ ≤ (|(a' - a) * b| + |a * (b' - b)|) + |(a' - a) * (b' - b)| := by gcongr; exact abs_add_le _ _
    _ ≤ _ := by linarith

theorem sums_perturb (i j : ℕ) (δi δj Γi Γj : K) (gh g : List (List K)) (h : GradClose i j δi δj Γi Γj gh g) :
    |(gh.map fun a => a.getD i 0 * a.getD j 0).sum - (g.map fun a => a.getD i 0 * a.getD j 0).sum|
        ≤ (g.length : K) * (δi * Γj + Γi * δj + δi * δj)
    ∧ |(gh.map fun a => a.getD i 0).sum - (g.map fun a => a.getD i 0).sum| ≤ (g.length : K) * δi
    ∧ gh.length = g.length := by
  induction h with
  | nil => simp
  | @cons a b l₁ l₂ hab _ ih =>
    obtain ⟨h1, h2, h3, h4⟩ := hab
    obtain ⟨ih1, ih2, ih3⟩ := ih
    simp only [List.map_cons, List.sum_cons, List.length_cons, Nat.cast_succ]
    refine ⟨?_, ?_, by rw [ih3]⟩
    · have hp := prod_perturb (b.getD i 0) (b.getD j 0) (a.getD i 0) (a.getD j 0) δi δj Γi Γj h1 h3 h2 h4
      have e : ∀ u v w z : K, (u + v) - (w + z) = (u - w) + (v - z) := fun u v w z => by ring
      rw [e]
      refine (abs_add_le _ _).trans ?_
      rw [add_mul, one_mul]
      linarith
    · have e : ∀ u v w z : K, (u + v) - (w + z) = (u - w) + (v - z) := fun u v w z => by ring
      rw [e]
      refine (abs_add_le _ _).trans ?_
      rw [add_mul, one_mul]
      linarith

/-- **J and cU are Lipschitz in the bootstrap gradients** (the model's `jEntry`/`cuEntry`, any ordered field – ℚ as the driver runs them, ℝ
    below): gradients within δ of gradients bounded by Γ give J within `δᵢΓⱼ + Γᵢδⱼ + δᵢδⱼ` and cU within `δᵢ` -/
theorem jEntry_perturb (i j : ℕ) (δi δj Γi Γj : K) (gh g : List (List K)) (hne : g ≠ []) (h : GradClose i j δi δj Γi Γj gh g) :
    |jEntry gh i j - jEntry g i j| ≤ δi * Γj + Γi * δj + δi * δj ∧ |cuEntry gh i - cuEntry g i| ≤ δi := by
  obtain ⟨h1, h2, h3⟩ := sums_perturb i j δi δj Γi Γj gh g h
  have hN : (0 : K) < (g.length : K) := by exact_mod_cast List.length_pos_iff.mpr hne
  unfold jEntry cuEntry
  rw [h3, ← sub_div, ← sub_div, abs_div, abs_div, abs_of_pos hN]
  constructor
  · rw [div_le_iff₀ hN]; linarith
  · rw [div_le_iff₀ hN]; linarith
end Pert

/-- the gradient list of N bootstraps × n parameters -/
def gradTable {α : Type} (N n : ℕ) (g : ℕ → ℕ → α) : List (List α) :=
  (List.range N).map fun b => (List.range n).map fun i => g b i

theorem gradTable_getD (n : ℕ) (g : ℕ → ℝ) (i : ℕ) (hi : i < n) : ((List.range n).map g).getD i 0 = g i := by
  simp [List.getD_eq_getElem?_getD, hi]

theorem gradClose_table (N n : ℕ) (gh g : ℕ → ℕ → ℝ) (i j : ℕ) (hi : i < n) (hj : j < n) (δi δj Γi Γj : ℝ)
    (h : ∀ b < N, |gh b i - g b i| ≤ δi ∧ |g b i| ≤ Γi ∧ |gh b j - g b j| ≤ δj ∧ |g b j| ≤ Γj) :
    GradClose i j δi δj Γi Γj (gradTable N n gh) (gradTable N n g) := by
  unfold GradClose gradTable
  rw [List.forall₂_map_left_iff, List.forall₂_map_right_iff, List.forall₂_same]
  intro b hb
  rw [gradTable_getD n _ i hi, gradTable_getD n _ i hi, gradTable_getD n _ j hj, gradTable_getD n _ j hj]
  exact h b (List.mem_range.mp hb)

end Order
end Godambe
end DadiVerif
