import DadiVerif.Lemmas.DemesUnits
import DadiVerif.Model.Integrate
/-! C16 (round 5) — the frozen branch of an ancient sample under a change of the reference size.

`_augment_with_ancient_samples` adds the branch with `start_size = 1` whatever the units of the graph: written with sizes × b (and times × a,
rates / b) the augmented graph is the augmented graph in those units EXCEPT that the added branches keep size 1.  Their relative size is
therefore `1 / Ne` — it changes with the reference size while every other quantity of the program is invariant.  A frozen population is not
integrated (C04_frozen_axis_skipped), so the only place its size can matter is the time step (`_compute_dt` takes the minimum over ALL
populations, frozen ones included): `frozen_nu_only_dt`. -/
namespace DadiVerif.DemesConv
open Gen.Demes

/-- **Augmentation in other units, sizes included.**  Times × a, sizes × b, rates / b: the sliced / renamed part of the augmented graph, its
    migrations and pulses are those of the augmented graph written in the new units; the appended frozen branches have their times in the
    new unit and KEEP SIZE 1; names carry `a·x` for `x`; frozen list and sampled demes correspond. -/
theorem augment_rescale_sizes {augment : Graph InEpoch → List DName → List ℚ → AugSt} (hclosed : AugClosed augment)
    (ex lg : ℚ → ℚ) (pw : ℚ → ℚ → ℚ) {a b : ℚ} (ha : 0 < a) (hb : b ≠ 0) (g : Graph InEpoch) (sampled : List DName) (times : List ℚ)
    (hlen : sampled.length = times.length) (hbase : ∀ n ∈ sampled, n.stamps = []) (hg : g.namesBase) :
    (augment (g.rescale a b) sampled (times.map (a * ·))).demes.map (GDeme.ev ex lg pw)
        = (((augment g sampled times).demes.map (GDeme.ev ex lg pw)).take (sliceGraph (listMin times) g).demes.length).map
            (fun d => GDeme.rename (DName.smap a) (GDeme.rescaleEv a b d))
          ++ (((augment g sampled times).demes.map (GDeme.ev ex lg pw)).drop (sliceGraph (listMin times) g).demes.length).map
            (fun d => GDeme.rename (DName.smap a) (GDeme.rescaleEv a 1 d))
    ∧ ((augment g sampled times).demes.drop (sliceGraph (listMin times) g).demes.length).map (·.name) = (augment g sampled times).frozen
    ∧ (augment (g.rescale a b) sampled (times.map (a * ·))).migs
        = (augment g sampled times).migs.map (fun m => GMig.rename (DName.smap a) (GMig.rescale a b m))
    ∧ (augment (g.rescale a b) sampled (times.map (a * ·))).pulses
        = (augment g sampled times).pulses.map (fun p => GPulse.rename (DName.smap a) (GPulse.rescale a p))
    ∧ (augment (g.rescale a b) sampled (times.map (a * ·))).frozen = (augment g sampled times).frozen.map (DName.smap a)
    ∧ (augment (g.rescale a b) sampled (times.map (a * ·))).sampled = (augment g sampled times).sampled.map (DName.smap a) := by
  have hlen' : sampled.length = (times.map (a * ·)).length := by simpa using hlen
  obtain ⟨Y1, Y2, Y3, Y4, Y5⟩ := hclosed (g.rescale a b) sampled (times.map (a * ·)) hlen' hbase
  obtain ⟨G1, G2, G3, G4, G5⟩ := hclosed g sampled times hlen hbase
  rw [Y1, Y2, Y3, Y4, Y5, G1, G2, G3, G4, G5]
  clear Y1 Y2 Y3 Y4 Y5 G1 G2 G3 G4 G5
  rw [listMin_scale ha]
  set t := listMin times with ht
  have hzip : sampled.zip (times.map (a * ·)) = (sampled.zip times).map (fun p => (p.1, a * p.2)) := by
    rw [List.zip_map_right]
    apply List.map_congr_left
    intro p _; rfl
  have hpos : ∀ x : ℚ, decide (a * x - a * t > 0) = decide (x - t > 0) := by
    intro x
    rw [← mul_sub]
    by_cases h : x - t > 0
    · have : a * (x - t) > 0 := mul_pos ha h
      simp [h, this]
    · have : ¬ a * (x - t) > 0 := not_lt.2 (mul_nonpos_of_nonneg_of_nonpos (le_of_lt ha) (not_lt.1 h))
      simp [h, this]
  have hpost : decide (a * t > 0) = decide (t > 0) := by
    by_cases h : t > 0
    · have : a * t > 0 := mul_pos ha h
      simp [h, this]
    · have : ¬ a * t > 0 := not_lt.2 (mul_nonpos_of_nonneg_of_nonpos (le_of_lt ha) (not_lt.1 h))
      simp [h, this]
  have hR : ((sampled.zip (times.map (a * ·))).filter fun p => !decide (p.2 - a * t > 0) && decide (a * t > 0)).map (·.1)
      = ((sampled.zip times).filter fun p => !decide (p.2 - t > 0) && decide (t > 0)).map (·.1) := by
    rw [hzip, List.filter_map, List.map_map]
    simp only [Function.comp_def, hpos, hpost]
  have hB : (sampled.zip (times.map (a * ·))).filter (fun p => decide (p.2 - a * t > 0))
      = ((sampled.zip times).filter fun p => decide (p.2 - t > 0)).map (fun p => (p.1, a * p.2)) := by
    rw [hzip, List.filter_map]
    simp only [Function.comp_def, hpos]
  rw [hR, hB]
  set R := ((sampled.zip times).filter fun p => !decide (p.2 - t > 0) && decide (t > 0)).map (·.1) with hRdef
  set B := (sampled.zip times).filter (fun p => decide (p.2 - t > 0)) with hBdef
  have hsb : ∀ p ∈ sampled.zip times, p.1.stamps = [] := fun p hp => hbase _ (List.of_mem_zip hp).1
  have hBb : ∀ p ∈ B, p.1.stamps = [] := fun p hp => hsb p (List.mem_of_mem_filter hp)
  obtain ⟨S1, S2, S3⟩ := sliceGraph_rescale' ex lg pw ha hb t g
  obtain ⟨hnd, hnm, hnp⟩ := sliceGraph_namesBase t g hg
  have hlenS : ((sliceGraph t g).demes.map (GDeme.rename (renameOf t R))).length = (sliceGraph t g).demes.length := by simp
  refine ⟨?_, ?_, ?_, ?_, ?_, ?_⟩
  · -- demes
    simp only [List.map_append, List.map_map]
    rw [List.take_left' (by simp), List.drop_left' (by simp)]
    congr 1
    · -- the sliced part
      have e1 : List.map (GDeme.ev ex lg pw ∘ GDeme.rename (renameOf (a * t) R)) (sliceGraph (a * t) (g.rescale a b)).demes
          = ((sliceGraph (a * t) (g.rescale a b)).demes.map (GDeme.ev ex lg pw)).map (GDeme.rename (renameOf (a * t) R)) := by
        rw [List.map_map]; rfl
      rw [e1, S1, List.map_map, List.map_map, List.map_map]
      apply List.map_congr_left
      intro d hd
      obtain ⟨h1, h2⟩ := hnd d hd
      simp only [Function.comp_def, GDeme.rename, GDeme.rescaleEv, GDeme.ev, List.map_map, GDeme.mk.injEq, true_and, and_true]
      refine ⟨renameOf_smap t R d.name h1, ?_⟩
      apply List.map_congr_left
      intro x hx
      exact renameOf_smap t R x (h2 x hx)
    · -- the frozen branches: size 1 in every unit system
      rw [List.map_map]
      apply List.map_congr_left
      intro p hp
      have hb' := hBb p hp
      simp only [Function.comp_def, branchDeme, GDeme.ev, GDeme.rename, GDeme.rescaleEv, List.map_cons, List.map_nil, OutEpoch.ev,
        EvEpoch.rescale, Option.map_some, Sym.eval, GDeme.mk.injEq, smap_sampledAt a p.2 p.1 hb', renameOf_smap t R p.1 hb']
      simp [mul_sub]
  · rw [List.drop_left' (by simp), List.map_map]
    apply List.map_congr_left
    intro p _
    rfl
  · rw [S3, List.map_map, List.map_map]
    apply List.map_congr_left
    intro m hm
    obtain ⟨h1, h2⟩ := hnm m hm
    simp [Function.comp_def, GMig.rename, GMig.rescale, renameOf_smap t R _ h1, renameOf_smap t R _ h2]
  · rw [S2, List.map_map, List.map_map]
    apply List.map_congr_left
    intro p hp
    obtain ⟨h1, h2⟩ := hnp p hp
    simp only [Function.comp_def, GPulse.rename, GPulse.rescale, renameOf_smap t R _ h1, List.map_map, GPulse.mk.injEq, true_and, and_true]
    apply List.map_congr_left
    intro x hx
    exact renameOf_smap t R x (h2 x hx)
  · rw [List.map_map, List.map_map]
    apply List.map_congr_left
    intro p hp
    simp only [Function.comp_def, smap_sampledAt a p.2 p.1 (hBb p hp)]
  · rw [hzip, List.map_map, List.map_map]
    apply List.map_congr_left
    intro p hp
    have hb' := hsb p hp
    have hc : (a * p.2 - a * t > 0 ∨ a * t > 0) ↔ (p.2 - t > 0 ∨ t > 0) := by
      have h1 := hpos p.2
      have h2 := hpost
      simp only [decide_eq_decide] at h1 h2
      rw [h1, h2]
    simp only [Function.comp_def]
    by_cases h : p.2 - t > 0 ∨ t > 0
    · rw [if_pos (hc.2 h), if_pos h, smap_sampledAt a p.2 p.1 hb']
    · rw [if_neg (fun h' => h (hc.1 h')), if_neg h, smap_base a p.1 hb']

end DadiVerif.DemesConv

namespace DadiVerif
/-! ### a frozen population's parameters reach the result only through the time step (model of C02 / C04: `Model/Integrate.lean`) -/

/-- the parameters of population `k` replaced -/
def StepParams.setPop (P : StepParams) (k : ℕ) (p : PopParams) : StepParams := { pops := P.pops.set k p, theta0 := P.theta0, beta := P.beta }

theorem sweepAxisFn_setPop (grids : List (Array ℚ)) (fr : List Bool) (use : Bool) (eps : ℕ → List ℕ → ℕ → ℚ) (pops : List PopParams) (β : Option ℚ)
    (dt : ℚ) (acc : List ℕ → ℚ) (k : ℕ) (p : PopParams) (hk : fr.getD k false = true) (j : ℕ) :
    sweepAxisFn grids fr use eps (pops.set k p) β dt acc j = sweepAxisFn grids fr use eps pops β dt acc j := by
  unfold sweepAxisFn
  by_cases hj : j = k
  · subst hj
    rw [if_pos hk, if_pos hk]
  · rw [List.getElem?_set_ne (fun e => hj e.symm)]

/-- **one time step does not read the parameters of a frozen population**: neither the mutation injection (guarded by the frozen flags) nor
    the sweep over the other axes (each reads its own population's parameters) nor the population's own axis (skipped:
    C04_frozen_axis_skipped) -/
theorem sweepFn_frozen_indep (grids : List (Array ℚ)) (fr nm : List Bool) (use : Bool) (eps : ℕ → List ℕ → ℕ → ℚ) (P : StepParams) (dt : ℚ)
    (T : List ℕ → ℚ) (k : ℕ) (p : PopParams) (hk : fr.getD k false = true) :
    sweepFn grids fr nm use eps (P.setPop k p) dt T = sweepFn grids fr nm use eps P dt T := by
  unfold sweepFn StepParams.setPop
  dsimp only
  congr 1
  funext acc j
  exact sweepAxisFn_setPop grids fr use eps P.pops P.beta dt acc k p hk j

/-- hence the constant-parameter driver gives the same density for two parameter sets that differ only in a frozen population —
    **provided `_compute_dt` gives the same time step**: `dt` is the minimum over ALL populations, frozen ones included (`stepDt`), and this
    is the only way the frozen population's size enters -/
theorem integrateConst_frozen (grids : List (Array ℚ)) (fr nm : List Bool) (use : Bool) (eps : ℕ → List ℕ → ℕ → ℚ) (tf : ℚ) (P : StepParams)
    (Tend : ℚ) (k : ℕ) (p : PopParams) (hk : fr.getD k false = true) (hdt : stepDt tf (P.setPop k p) = stepDt tf P) (fuel : ℕ) (t : ℚ)
    (φ : List ℕ → ℚ) :
    integrateConst (fun P dt φ => sweepFn grids fr nm use eps P dt φ) tf (P.setPop k p) Tend fuel t φ
      = integrateConst (fun P dt φ => sweepFn grids fr nm use eps P dt φ) tf P Tend fuel t φ := by
  induction fuel generalizing t φ with
  | zero => rfl
  | succ n ih =>
    unfold integrateConst
    split_ifs
    · dsimp only
      rw [hdt, sweepFn_frozen_indep grids fr nm use eps P _ φ k p hk]
      exact ih _ _
    · rfl

end DadiVerif
