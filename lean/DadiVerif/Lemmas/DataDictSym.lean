import DadiVerif.Lemmas.DataDictSnp
/-! Infrastructure for C13, part 5: axis-reversal symmetry of the projection rows (an unpolarised SNP may name its
    alleles in either order), dictionaries with distinct keys. -/
namespace DadiVerif.DataDict
open Finset DadiVerif.Gen.DD

/-- counting the other allele mirrors the projection row: w(m, n, n−i, m−j) = w(m, n, i, j) -/
theorem projWeight_mirror (m n i j : ℕ) (hi : i ≤ n) (hj : j ≤ m) :
    projWeight m n (n - i) (m - j) = projWeight m n i j := by
  by_cases hm : n < m
  · rw [projWeight_short hm, projWeight_short hm]
  · have hm' : m ≤ n := Nat.le_of_not_lt hm
    by_cases hji : j ≤ i
    · by_cases hw : i - j ≤ n - m
      · -- inside the window on both sides
        have hg : m - j ≤ n - i := by omega
        rw [projWeight_of_le hm' hg, projWeight_of_le hm' hji]
        have e1 : m.choose (m - j) = m.choose j := Nat.choose_symm hj
        have e2 : (n - m).choose (n - i - (m - j)) = (n - m).choose (i - j) := by
          have : n - i - (m - j) = (n - m) - (i - j) := by omega
          rw [this, Nat.choose_symm hw]
        have e3 : n.choose (n - i) = n.choose i := Nat.choose_symm hi
        rw [e1, e2, e3]
      · -- i − j too large: right side has C(n−m, i−j) = 0, left side fails its guard
        have hg : ¬ m - j ≤ n - i := by omega
        rw [projWeight_of_gt (by omega), projWeight_of_le hm' hji]
        rw [Nat.choose_eq_zero_of_lt (by omega : n - m < i - j)]
        simp
    · -- j > i: right side fails its guard, left side has C(n−m, ·) = 0
      have hg : m - j ≤ n - i := by omega
      rw [projWeight_of_gt (by omega : i < j), projWeight_of_le hm' hg]
      rw [Nat.choose_eq_zero_of_lt (by omega : n - m < n - i - (m - j))]
      simp

/-- pointwise complement of the derived calls -/
def complCalls : List ℕ → List ℕ → List ℕ
  | n :: ns, i :: is => (n - i) :: complCalls ns is
  | _, _ => []

theorem prodW_mirror (proj ns is idx : List ℕ) (h1 : ns.length = proj.length) (h2 : is.length = proj.length)
    (hle : List.Forall₂ (· ≤ ·) is ns) (hidx : InBox idx (shapeOf proj)) :
    prodW proj ns (complCalls ns is) (mirror proj idx) = prodW proj ns is idx := by
  induction proj generalizing ns is idx with
  | nil =>
    have : ns = [] := List.length_eq_zero_iff.mp h1
    subst this
    cases idx with
    | nil => simp [prodW]
    | cons _ _ => exact absurd hidx (by simp [InBox, shapeOf])
  | cons p ps ih =>
    match ns, is, idx, h1, h2, hle, hidx with
    | n :: ns, i :: is, j :: js, h1, h2, hle, hidx =>
      rw [List.forall₂_cons] at hle
      have hj : j ≤ p := by
        have h0 : j < p + 1 := hidx.1
        omega
      simp only [complCalls, mirror, prodW, weightArgs]
      rw [projWeight_mirror p n i j hle.1 hj,
        ih ns is js (by simpa using h1) (by simpa using h2) hle.2 hidx.2]
    | _ :: _, _ :: _, [], _, _, _, hidx => exact absurd hidx (by simp [InBox, shapeOf])
    | [], _, _, h1, _, _, _ => simp at h1
    | _ :: _, [], _, _, h2, _, _ => simp at h2

/-- folding does not see an axis reversal of its argument -/
theorem foldAt_mirror (proj : List ℕ) (u : List ℕ → ℚ) (idx : List ℕ) (hidx : InBox idx (shapeOf proj)) :
    foldAt proj (fun i => u (mirror proj i)) idx = foldAt proj u idx := by
  simp only [foldAt, mirror_mirror hidx]
  split_ifs <;> ring

/-! ### dictionaries -/

def keysDistinct : List Snp → Prop
  | [] => True
  | s :: t => (∀ x ∈ t, sameKey x s = false) ∧ keysDistinct t

theorem ddInsert_new (s : Snp) (d : List Snp) (h : ∀ x ∈ d, sameKey x s = false) : ddInsert s d = d ++ [s] := by
  induction d with
  | nil => rfl
  | cons t rest ih =>
    have ht := h t (by simp)
    simp only [ddInsert, ht, Bool.false_eq_true, if_false, List.cons_append]
    rw [ih fun x hx => h x (by simp [hx])]

theorem sameKey_symm (a b : Snp) : sameKey a b = sameKey b a := by
  simp only [sameKey]
  rw [Bool.beq_comm (a := a.chrom), Bool.beq_comm (a := a.pos), Bool.beq_comm (a := a.info)]

theorem mkDict_foldl (snps d : List Snp) (hd : ∀ x ∈ d, ∀ s ∈ snps, sameKey x s = false) (hk : keysDistinct snps) :
    snps.foldl (fun d s => ddInsert s d) d = d ++ snps := by
  induction snps generalizing d with
  | nil => simp
  | cons s t ih =>
    rw [List.foldl_cons, ddInsert_new s d fun x hx => hd x hx s (by simp)]
    rw [ih (d ++ [s]) ?_ hk.2]
    · simp
    · intro x hx y hy
      rcases List.mem_append.mp hx with h | h
      · exact hd x h y (by simp [hy])
      · have : x = s := by simpa using h
        subst this
        rw [sameKey_symm]
        exact hk.1 y hy

/-- with pairwise distinct keys the dictionary is the list of lines -/
theorem mkDict_distinct (snps : List Snp) (hk : keysDistinct snps) : mkDict snps = snps := by
  unfold mkDict
  rw [mkDict_foldl snps [] (by simp) hk]
  simp

/-! ### the line-by-line pass -/

theorem mapM_option_eq_map {α β : Type} (f : α → Option β) (g : α → β) (h : ∀ a b, f a = some b → b = g a)
    (l : List α) (r : List β) (hr : l.mapM f = some r) : r = l.map g := by
  induction l generalizing r with
  | nil => simp at hr; simp [hr]
  | cons a t ih =>
    rw [List.mapM_cons] at hr
    cases hfa : f a with
    | none => simp [hfa] at hr
    | some b =>
      cases ht : t.mapM f with
      | none => simp [hfa, ht] at hr
      | some bs =>
        simp [hfa, ht] at hr
        subst hr
        rw [List.map_cons, ← h a b hfa, ← ih bs ht]

theorem callsFor_eq (inds : List Indiv) (popIds : List ℕ) (cl : List (ℕ × ℕ)) (h : callsFor inds popIds = some cl) :
    cl = popIds.map (callsOfPop inds) := by
  unfold callsFor at h
  refine mapM_option_eq_map _ (callsOfPop inds) ?_ popIds cl h
  intro p b hb
  by_cases hp : hasPop p inds = true
  · simp [hp] at hb; exact hb.symm
  · simp [hp] at hb

/-- when no requested population lacks a sample column, the entries are the kept lines with their counted calls -/
theorem vcfEntries_eq (filt : Bool) (popIds : List ℕ) (sites : List Site) (es : List Snp)
    (h : vcfEntries filt popIds sites = some es) :
    es = (sites.filter (siteKept filt)).map fun st => siteSnp st (siteCalls st popIds) := by
  unfold vcfEntries at h
  refine mapM_option_eq_map _ _ ?_ _ es h
  intro st b hb
  cases hc : callsFor st.inds popIds with
  | none => simp [hc] at hb
  | some cl =>
    simp [hc] at hb
    rw [← hb, callsFor_eq st.inds popIds cl hc]
    rfl

end DadiVerif.DataDict
