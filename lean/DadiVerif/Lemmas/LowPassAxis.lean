import DadiVerif.Lemmas.LowPassND
/-! C18 helper lemmas, part 7: the matrices of one population as the driver tabulates them (`mkAxis`) satisfy the
    conditions `AxisOk` used by the total-mass theorem. -/
namespace DadiVerif.LowPass
open Finset

theorem lsum_map_mul_left {α : Type} (l : List α) (w : α → ℚ) (t : ℚ) :
    lsum (l.map fun g => t * w g) = t * lsum (l.map w) := by
  induction l with
  | nil => simp
  | cons a l ih => simp [ih, mul_add]

theorem half_two_mul (n : ℕ) : 2 * n / 2 = n := by omega

theorem callEntryE_rowsum (e : ℚ) (m : ℕ) (F : ℚ) (hF0 : 0 ≤ F) (hF1 : F < 1) (af : ℕ) (haf : af ≤ 2 * m) :
    ∑ t ∈ range (2 * m + 1), callEntryE e (2 * m) F af t = 1 := by
  simp only [callEntryE, half_two_mul]
  refine pw_mixture_sum af m haf F hF0 hF1 (2 * m + 1) (fun g pr t => callPart e af t g pr) ?_
  intro g hg pr
  exact callPart_rowsum e hg pr

theorem callEntryE_nonneg (e : ℚ) (he0 : 0 ≤ e) (he1 : e ≤ 1) (m : ℕ) (F : ℚ) (hF0 : 0 ≤ F) (hF1 : F < 1)
    (af t : ℕ) (haf : af ≤ 2 * m) : 0 ≤ callEntryE e (2 * m) F af t := by
  simp only [callEntryE, half_two_mul]
  apply lsum_map_nonneg
  intro gp hgp
  exact callPart_nonneg e he0 he1 af t gp.1 gp.2 (pw_prob_pos af m haf F hF0 hF1 hgp).le

/-- without heterozygote error the calling-error matrix is the identity -/
theorem callEntryE_zero (m : ℕ) (F : ℚ) (hF0 : 0 ≤ F) (hF1 : F < 1) (af t : ℕ) (haf : af ≤ 2 * m) :
    callEntryE 0 (2 * m) F af t = if t = af then 1 else 0 := by
  simp only [callEntryE, half_two_mul]
  have : lsum ((pw af m F).map fun gp => callPart 0 af t gp.1 gp.2)
      = lsum ((pw af m F).map fun gp => (if t = af then 1 else 0) * gp.2) := by
    apply lsum_map_congr
    intro gp hgp
    rw [callPart_zero_err (pw_mem hgp).1]
    split_ifs <;> simp
  rw [this, lsum_map_mul_left (pw af m F) (fun gp => gp.2) (if t = af then (1:ℚ) else 0),
    pw_sum af m haf F hF0 hF1, mul_one]

theorem nocall_unit (c : List ℚ) (hc : ∀ v ∈ c, 0 ≤ v) (hs : lsum c ≤ 1) (N : ℕ) (F : ℚ) (hF0 : 0 ≤ F) (hF1 : F < 1)
    (af : ℕ) (haf : af ≤ 2 * N) : 0 ≤ nocall c (2 * N) F af ∧ nocall c (2 * N) F af ≤ 1 := by
  simp only [nocall, half_two_mul]
  exact pw_mixture_bounds af N haf F hF0 hF1 (fun g pr => nocallPart c af g pr)
    (fun g _ pr hpr => nocallPart_bounds c hc hs af g pr hpr)

/-- entries of the tabulated per-axis kernel -/
theorem mkAxis_K_eq (c : List ℚ) (nseq nsub : ℕ) (F peAll : ℚ) (i j : ℕ) (hi : i < nseq + 1) (hj : j < nsub + 1) :
    (mkAxis c nseq nsub F peAll).K i j
      = kernel peAll (projEntry nseq nsub F) (callEntryE (hetErr c) nsub F) nsub i j := by
  have hrow : projRow nseq nsub F = fun i => (List.range (nsub + 1)).map (projEntry nseq nsub F i) :=
    funext (projRow_eq nseq nsub F)
  simp only [mkAxis]
  rw [tableAt_mkTable _ _ _ _ _ hi hj, kernel_eq, kernel_eq, hrow]
  refine Finset.sum_congr rfl (fun k hk => ?_)
  have hk' : k < nsub + 1 := by simpa using hk
  rw [tableAt_tabOfRows _ _ _ _ _ hi hk', tableAt_mkTable _ _ _ _ _ hk' hj]

theorem mkAxis_pnc_eq (c : List ℚ) (nseq nsub : ℕ) (F peAll : ℚ) (i : ℕ) (hi : i < nseq + 1) :
    (mkAxis c nseq nsub F peAll).pnc i = nocall c nseq F i := by
  simp only [mkAxis]
  exact vecAt_mkVec _ _ _ hi

/-- the tabulated axis of one population is sub-stochastic: non-negative kernel with row sums `peAll ≤ 1`,
    no-call probabilities in [0, 1] -/
theorem mkAxis_ok (c : List ℚ) (hc : ∀ v ∈ c, 0 ≤ v) (hs : lsum c ≤ 1) (ht : 0 < covTail c)
    (N m : ℕ) (hmN : m ≤ N) (F : ℚ) (hF0 : 0 ≤ F) (hF1 : F < 1) (peAll : ℚ) (hpe0 : 0 ≤ peAll) (hpe1 : peAll ≤ 1) :
    AxisOk (mkAxis c (2 * N) (2 * m) F peAll) := by
  obtain ⟨he0, he1⟩ := hetErr_unit c hc ht
  have hIn : (mkAxis c (2 * N) (2 * m) F peAll).nIn = 2 * N + 1 := rfl
  have hOut : (mkAxis c (2 * N) (2 * m) F peAll).nOut = 2 * m + 1 := rfl
  constructor
  · intro i hi j hj
    rw [hIn] at hi; rw [hOut] at hj
    rw [mkAxis_K_eq c _ _ F peAll i j hi hj]
    apply kernel_nonneg peAll hpe0
    · intro k _; exact projEntry_nonneg N m F hF0 hF1 i k (by omega)
    · intro k hk; exact callEntryE_nonneg _ he0 he1 m F hF0 hF1 k j (by omega)
  · intro i hi
    rw [hIn] at hi
    rw [hOut]
    have : ∑ j ∈ range (2 * m + 1), (mkAxis c (2 * N) (2 * m) F peAll).K i j
        = ∑ j ∈ range (2 * m + 1), kernel peAll (projEntry (2 * N) (2 * m) F) (callEntryE (hetErr c) (2 * m) F) (2 * m) i j :=
      Finset.sum_congr rfl (fun j hj => mkAxis_K_eq c _ _ F peAll i j hi (by simpa using hj))
    rw [this, kernel_rowsum peAll _ _ (2 * m) i (projEntry_rowsum N m hmN F hF0 hF1 i (by omega))
      (fun k hk => callEntryE_rowsum _ m F hF0 hF1 k (by omega))]
    exact hpe1
  · intro i hi
    rw [hIn] at hi
    rw [mkAxis_pnc_eq c _ _ F peAll i hi]
    exact (nocall_unit c hc hs N F hF0 hF1 i (by omega)).1
  · intro i hi
    rw [hIn] at hi
    rw [mkAxis_pnc_eq c _ _ F peAll i hi]
    exact (nocall_unit c hc hs N F hF0 hF1 i (by omega)).2

/-- a population with a sub-probability coverage distribution that has mass on depths ≥ 1, even sizes
    2 ≤ nsub ≤ nseq and 0 ≤ F < 1 -/
def PopOk (p : Pop) : Prop :=
  (∀ v ∈ p.c, 0 ≤ v) ∧ lsum p.c ≤ 1 ∧ 0 < covTail p.c ∧ 0 ≤ p.F ∧ p.F < 1 ∧
    ∃ N m, p.nseq = 2 * N ∧ p.nsub = 2 * m ∧ 1 ≤ m ∧ m ≤ N

theorem foldl_unit (pops : List Pop) (h : ∀ p ∈ pops, PopOk p) :
    ∀ acc : ℚ, 0 ≤ acc → acc ≤ 1 →
      0 ≤ pops.foldl (fun acc p => acc * probEnough p.c p.nseq p.nsub) acc ∧
      pops.foldl (fun acc p => acc * probEnough p.c p.nseq p.nsub) acc ≤ 1 := by
  induction pops with
  | nil => intro acc h0 h1; exact ⟨h0, h1⟩
  | cons p ps ih =>
    intro acc h0 h1
    obtain ⟨hc, hs, _, _, _, N, m, e1, e2, hm1, hmN⟩ := h p (List.mem_cons_self)
    have := probEnough_unit p.c hc hs N m hm1 hmN
    rw [← e1, ← e2] at this
    simp only [List.foldl_cons]
    exact ih (fun q hq => h q (List.mem_cons_of_mem _ hq)) _ (mul_nonneg h0 this.1) (by nlinarith)

end DadiVerif.LowPass
