import DadiVerif.Lemmas.Admix
/-!
C06, round 4: (a) the deposit carries the mixture frequency for any number of parents (moments of the deposit, the mixed
frequency as the explicit parental sum), (b) the clamped bracket for mixed frequencies beyond the two ends of the grid
(what `numpy.minimum(.., len(zz)-1)` / `numpy.maximum(.., 1)` do when round-off pushes `ad_z` past 1 or below 0),
(c) the deposit is linear in the source density.
-/
namespace DadiVerif.Admix
open Finset

/-! ### moments of one cell's deposit -/

/-- zeroth moment: the (unweighted) sum of the deposited values is the normaliser -/
theorem deposit_total (zz : Array ℚ) (φ adz : ℚ) (h2 : 2 ≤ zz.size)
    (h : gv zz (uNat zz adz) - gv zz (uNat zz adz - 1) ≠ 0) :
    ∑ k ∈ range zz.size, depositAt zz φ adz k = Gen.Admix.norm zz φ adz := by
  have := deposit_sum zz φ adz h2 (fun _ => 1)
  simp only [one_mul] at this
  rw [this, ← add_mul, frac_sum zz φ adz h2 h, one_mul]

/-- first moment: Σ_k z_k·deposit_k = ad_z·Σ_k deposit_k — the deposited frequency is the mixed frequency -/
theorem deposit_moment (zz : Array ℚ) (φ adz : ℚ) (h2 : 2 ≤ zz.size)
    (h : gv zz (uNat zz adz) - gv zz (uNat zz adz - 1) ≠ 0) :
    ∑ k ∈ range zz.size, gv zz k * depositAt zz φ adz k = adz * ∑ k ∈ range zz.size, depositAt zz φ adz k := by
  rw [deposit_total zz φ adz h2 h, deposit_sum zz φ adz h2 (gv zz)]
  have := frac_mean zz φ adz h2 h
  calc gv zz (uNat zz adz - 1) * (Gen.Admix.fracLower zz φ adz * Gen.Admix.norm zz φ adz)
        + gv zz (uNat zz adz) * (Gen.Admix.fracUpper zz φ adz * Gen.Admix.norm zz φ adz)
      = (Gen.Admix.fracLower zz φ adz * gv zz (uNat zz adz - 1) + Gen.Admix.fracUpper zz φ adz * gv zz (uNat zz adz))
          * Gen.Admix.norm zz φ adz := by ring
    _ = _ := by rw [this]

theorem bracket_width_ne (zz : Array ℚ) (adz : ℚ) (hg : GridOk zz) :
    gv zz (uNat zz adz) - gv zz (uNat zz adz - 1) ≠ 0 := by
  have hb := uNat_bounds zz adz hg.1
  have := hg.lt (uNat zz adz - 1) (uNat zz adz) (by omega) hb.2
  exact ne_of_gt (by linarith)

/-! ### the mixed frequency as the explicit parental sum -/

theorem adZ_eq_sum : ∀ (coefs : List ℚ) (grids : List (Array ℚ)) (idx : Idx),
    coefs.length ≤ grids.length → coefs.length ≤ idx.length →
    adZ grids coefs idx = ∑ m ∈ range coefs.length, coefs.getD m 0 * gv (grids.getD m #[]) (idx.getD m 0) := by
  intro coefs
  induction coefs with
  | nil => intro grids idx _ _; cases grids <;> simp [adZ]
  | cons c cs ih =>
    intro grids idx hg hi
    cases grids with
    | nil => simp at hg
    | cons g gs =>
      cases idx with
      | nil => simp at hi
      | cons i is =>
        simp only [adZ, List.length_cons]
        rw [Finset.sum_range_succ', ih gs is (by simpa using hg) (by simpa using hi)]
        simp only [List.getD_cons_succ, List.getD_cons_zero]
        ring

theorem getD_insertIdx_lt {α : Type} : ∀ (l : List α) (a m : ℕ) (x d : α), m < a → (l.insertIdx a x).getD m d = l.getD m d := by
  intro l a m x d h
  rw [List.getD_eq_getElem?_getD, List.getElem?_insertIdx_of_lt h, ← List.getD_eq_getElem?_getD]

theorem getD_insertIdx_gt {α : Type} : ∀ (l : List α) (a m : ℕ) (x d : α), a < m → (l.insertIdx a x).getD m d = l.getD (m - 1) d := by
  intro l a m x d h
  rw [List.getD_eq_getElem?_getD, List.getElem?_insertIdx_of_gt h, ← List.getD_eq_getElem?_getD]

/-- coefficient of population m: the proportion of that source, `1 - Σ f` for the destination -/
theorem fullCoefs_getD (dest : ℕ) (f : List ℚ) (hd : dest ≤ f.length) (m : ℕ) :
    (fullCoefs dest f).getD m 0 = if m < dest then f.getD m 0 else if m = dest then 1 - f.sum else f.getD (m - 1) 0 := by
  unfold fullCoefs
  rcases Nat.lt_trichotomy m dest with h | h | h
  · rw [if_pos h, getD_insertIdx_lt _ _ _ _ _ h]
  · subst h; rw [if_neg (lt_irrefl _), if_pos rfl, getD_insertIdx_self _ _ _ _ hd]
  · rw [if_neg (by omega), if_neg (by omega), getD_insertIdx_gt _ _ _ _ _ h]

/-! ### beyond the ends of the grid: what the two clamps do -/

theorem ssList_all_lt (l : List ℚ) (v : ℚ) (h : ∀ i, i < l.length → l.getD i 0 < v) : ssList l v = l.length := by
  have h1 := ssList_le l v
  by_contra hne
  exact ssList_stop l v (by omega) (h _ (by omega))

/-- mixed frequency above the last grid point: `searchsorted` returns `len(zz)`, the `minimum` clamp makes the bracket the
    last interval -/
theorem uNat_above (zz : Array ℚ) (hg : GridOk zz) (adz : ℚ) (h : gv zz (zz.size - 1) < adz) : uNat zz adz = zz.size - 1 := by
  have h2 := hg.1
  have hs : searchsortedLeft zz adz = zz.size := by
    unfold searchsortedLeft
    have := ssList_all_lt zz.toList adz (fun i hi => by
      rw [← gv_toList]
      have hi' : i < zz.size := by simpa using hi
      by_cases hl : i = zz.size - 1
      · rw [hl]; exact h
      · exact lt_trans (hg.lt i (zz.size - 1) (by omega) (by omega)) h)
    simpa using this
  unfold uNat
  rw [hs]; omega

/-- mixed frequency at or below the first grid point: `searchsorted` returns 0, the `maximum` clamp makes the bracket the
    first interval -/
theorem uNat_below (zz : Array ℚ) (hg : GridOk zz) (adz : ℚ) (h : adz ≤ gv zz 0) : uNat zz adz = 1 := by
  have h2 := hg.1
  have hs : searchsortedLeft zz adz = 0 := by
    unfold searchsortedLeft
    apply ssList_eq _ _ 0 (by simp; omega) (fun i hi => by omega)
    rw [← gv_toList]; exact not_lt.2 h
  unfold uNat
  rw [hs]; omega

/-- overshoot `δ = ad_z - z_last > 0` (round-off above 1): the deposit is still well defined, hence mass-preserving
    (`deposit_mass`), as long as `δ·(z_{n-2}-z_{n-3}) < (z_{n-1}-z_{n-2})²`; the lower point receives a negative share -/
theorem depositOk_above (zz : Array ℚ) (φ adz : ℚ) (hg : GridOk zz) (h : gv zz (zz.size - 1) < adz)
    (hsmall : (adz - gv zz (zz.size - 1)) * delz0 zz (zz.size - 2) < (gv zz (zz.size - 1) - gv zz (zz.size - 2)) ^ 2) :
    DepositOk zz φ adz ∧ Gen.Admix.fracLower zz φ adz < 0 ∧ 1 < Gen.Admix.fracUpper zz φ adz := by
  have h2 := hg.1
  have hu := uNat_above zz hg adz h
  have hl : zz.size - 1 - 1 = zz.size - 2 := by omega
  have hw : 0 < gv zz (zz.size - 1) - gv zz (zz.size - 2) := by
    have := hg.lt (zz.size - 2) (zz.size - 1) (by omega) (by omega); linarith
  have hfl := (cell_frac zz φ adz h2).1
  have hfu := (cell_frac zz φ adz h2).2
  rw [hu, hl] at hfl hfu
  have hd2 : delz2 zz (zz.size - 1) = 0 := by unfold delz2; rw [if_neg (by omega)]
  refine ⟨⟨by rw [hu, hl]; exact ne_of_gt hw, ?_⟩, ?_, ?_⟩
  · rw [hu, hl, hd2, mul_zero, add_zero, hfl]
    apply ne_of_gt
    have e : (gv zz (zz.size - 1) - adz) / (gv zz (zz.size - 1) - gv zz (zz.size - 2)) * delz0 zz (zz.size - 2)
          + (gv zz (zz.size - 1) - gv zz (zz.size - 2))
        = ((gv zz (zz.size - 1) - gv zz (zz.size - 2)) ^ 2 - (adz - gv zz (zz.size - 1)) * delz0 zz (zz.size - 2))
          / (gv zz (zz.size - 1) - gv zz (zz.size - 2)) := by
      field_simp; ring
    rw [e]
    exact div_pos (by linarith) hw
  · rw [hfl, div_lt_iff₀ hw]; linarith
  · rw [hfu, lt_div_iff₀ hw]; linarith

/-- undershoot `δ = z_0 - ad_z ≥ 0` (round-off below 0): well defined as long as `δ·(z_2-z_1) < (z_1-z_0)²`; the upper
    point receives a non-positive share -/
theorem depositOk_below (zz : Array ℚ) (φ adz : ℚ) (hg : GridOk zz) (h : adz ≤ gv zz 0)
    (hsmall : (gv zz 0 - adz) * delz2 zz 1 < (gv zz 1 - gv zz 0) ^ 2) :
    DepositOk zz φ adz ∧ 1 ≤ Gen.Admix.fracLower zz φ adz ∧ Gen.Admix.fracUpper zz φ adz ≤ 0 := by
  have h2 := hg.1
  have hu := uNat_below zz hg adz h
  have hw : 0 < gv zz 1 - gv zz 0 := by
    have := hg.lt 0 1 (by omega) (by omega); linarith
  have hfl := (cell_frac zz φ adz h2).1
  have hfu := (cell_frac zz φ adz h2).2
  rw [hu] at hfl hfu
  simp only [Nat.sub_self] at hfl hfu
  have hd0 : delz0 zz 0 = 0 := by unfold delz0; rw [if_pos rfl]
  refine ⟨⟨by rw [hu]; exact ne_of_gt hw, ?_⟩, ?_, ?_⟩
  · rw [hu]
    simp only [Nat.sub_self]
    rw [hd0, mul_zero, zero_add, hfu]
    apply ne_of_gt
    have e : (gv zz 1 - gv zz 0) + (adz - gv zz 0) / (gv zz 1 - gv zz 0) * delz2 zz 1
        = ((gv zz 1 - gv zz 0) ^ 2 - (gv zz 0 - adz) * delz2 zz 1) / (gv zz 1 - gv zz 0) := by
      field_simp; ring
    rw [e]
    exact div_pos (by linarith) hw
  · rw [hfl, le_div_iff₀ hw]; linarith
  · rw [hfu]; exact div_nonpos_of_nonpos_of_nonneg (by linarith) hw.le

/-! ### the deposit is linear in the source density -/

theorem depositAt_linear (zz : Array ℚ) (φ adz : ℚ) (h2 : 2 ≤ zz.size) (k : ℕ) :
    depositAt zz φ adz k = φ * depositAt zz 1 adz k := by
  have hfl : Gen.Admix.fracLower zz φ adz = Gen.Admix.fracLower zz 1 adz := by
    rw [(cell_frac zz φ adz h2).1, (cell_frac zz 1 adz h2).1]
  have hfu : Gen.Admix.fracUpper zz φ adz = Gen.Admix.fracUpper zz 1 adz := by
    rw [(cell_frac zz φ adz h2).2, (cell_frac zz 1 adz h2).2]
  have hn : Gen.Admix.norm zz φ adz = φ * Gen.Admix.norm zz 1 adz := by
    rw [cell_norm zz φ adz h2, cell_norm zz 1 adz h2, hfl, hfu]; ring
  obtain ⟨hU, hL⟩ := cell_idx zz φ adz h2
  obtain ⟨hU1, hL1⟩ := cell_idx zz 1 adz h2
  unfold depositAt
  rw [hU, hL, hU1, hL1, hfl, hfu, hn]
  split <;> split <;> ring

theorem depositAt_zero (zz : Array ℚ) (adz : ℚ) (h2 : 2 ≤ zz.size) (k : ℕ) : depositAt zz 0 adz k = 0 := by
  rw [depositAt_linear zz 0 adz h2 k, zero_mul]

/-! ### densities: the new / the destination population carries the parental mixture frequency -/

/-- constructor, any number of parents: per source cell, the first moment of the deposit along the new axis is the mixed
    frequency Σ_m coefs[m]·x_m times its zeroth moment -/
theorem newPopRaw_mixture (grids : List (Array ℚ)) (zz : Array ℚ) (coefs : List ℚ) (P : Dens) (idx : Idx) (hg : GridOk zz) :
    ∑ k ∈ range zz.size, gv zz k * (newPopRaw grids zz coefs P).f (idx ++ [k])
      = adZ grids coefs idx * ∑ k ∈ range zz.size, (newPopRaw grids zz coefs P).f (idx ++ [k]) := by
  simp only [newPopRaw_f]
  exact deposit_moment zz _ _ hg.1 (bracket_width_ne zz _ hg)

theorem getD_set_self (idx : Idx) (dest k : ℕ) (h : dest < idx.length) : (idx.set dest k).getD dest 0 = k := by
  simp [List.getD_eq_getElem?_getD, h]

/-- a line of a pulse's result along the destination axis, summed against any weights `v` -/
theorem pulseRaw_line_sum (gridsC : List (Array ℚ)) (g : Array ℚ) (coefs : List ℚ) (dest : ℕ) (P : Dens) (idx : Idx)
    (hd : dest < idx.length) (v : ℕ → ℚ) :
    ∑ k ∈ range g.size, v k * (pulseRaw gridsC g g coefs dest P).f (idx.set dest k)
      = ∑ j ∈ range g.size, trapzW g j *
          ∑ k ∈ range g.size, v k * depositAt g (P.f (idx.set dest j)) (adZ gridsC coefs (idx.set dest j)) k := by
  simp only [pulseRaw_f, List.set_set, getD_set_self idx dest _ hd, Finset.mul_sum]
  rw [Finset.sum_comm]
  apply Finset.sum_congr rfl
  intro j _
  apply Finset.sum_congr rfl
  intro k _
  ring

/-- pulse of a point density (all of the line's mass in the cell with destination index `c`): the destination carries
    the mixed frequency of that cell -/
theorem pulseRaw_mixture (gridsC : List (Array ℚ)) (g : Array ℚ) (coefs : List ℚ) (dest : ℕ) (P : Dens) (idx : Idx)
    (hd : dest < idx.length) (hg : GridOk g) (c : ℕ) (hc : c < g.size)
    (hpt : ∀ j, j ≠ c → P.f (idx.set dest j) = 0) :
    ∑ k ∈ range g.size, gv g k * (pulseRaw gridsC g g coefs dest P).f (idx.set dest k)
      = adZ gridsC coefs (idx.set dest c) * ∑ k ∈ range g.size, (pulseRaw gridsC g g coefs dest P).f (idx.set dest k) := by
  have h1 := pulseRaw_line_sum gridsC g coefs dest P idx hd (fun _ => 1)
  simp only [one_mul] at h1
  rw [pulseRaw_line_sum gridsC g coefs dest P idx hd (gv g), h1]
  have collapse : ∀ (v : ℕ → ℚ),
      ∑ j ∈ range g.size, trapzW g j * ∑ k ∈ range g.size, v k * depositAt g (P.f (idx.set dest j)) (adZ gridsC coefs (idx.set dest j)) k
        = trapzW g c * ∑ k ∈ range g.size, v k * depositAt g (P.f (idx.set dest c)) (adZ gridsC coefs (idx.set dest c)) k := by
    intro v
    apply Finset.sum_eq_single c
    · intro j _ hj
      rw [hpt j hj]
      simp [depositAt_zero g _ hg.1]
    · intro h; exact absurd (Finset.mem_range.2 hc) h
  have c1 := collapse (fun _ => 1)
  simp only [one_mul] at c1
  rw [collapse (gv g), c1, deposit_moment g _ _ hg.1 (bracket_width_ne g _ hg)]
  ring

end DadiVerif.Admix
