import DadiVerif.Model.DemesProg
import Mathlib.Data.List.Basic
import Mathlib.Data.List.Induction
import Mathlib.Tactic.Ring
/-! C16 (round 5) — `_integrate_phi`: what the generic evaluation of a branch (`bindIntegrate`) returns when the generated row
    satisfies the Boolean wiring specification `wiringOk`.  Nothing here depends on the text of a generated definition. -/
namespace DadiVerif.DemesConv
open Gen.Demes

theorem mapM_option_eq_some {α β : Type} (f : α → Option β) (g : α → β) (l : List α) (h : ∀ x ∈ l, f x = some (g x)) :
    l.mapM f = some (l.map g) := by
  induction l with
  | nil => rfl
  | cons a t ih =>
    rw [List.mapM_cons, h a List.mem_cons_self, ih (fun x hx => h x (List.mem_cons_of_mem _ hx))]
    rfl

theorem map_range_getD {α : Type} (l : List α) (d : α) : (List.range l.length).map (fun k => l.getD k d) = l := by
  apply List.ext_getElem
  · simp
  · intro i h1 h2
    simp [List.getD_eq_getElem?_getD, List.getElem?_eq_getElem h2]

theorem pyRaiseIf_false : pyRaiseIf false = some () := rfl

theorem mapM_range_get {α : Type} (l : List α) (f : ℕ → Option α) (h : ∀ k (hk : k < l.length), f k = some l[k]) :
    (List.range l.length).mapM f = some l := by
  induction l using List.reverseRecOn with
  | nil => rfl
  | append_singleton init a ih =>
    have h1 : ∀ k (hk : k < init.length), f k = some init[k] := by
      intro k hk
      have := h k (by simp; omega)
      rw [this, List.getElem_append_left hk]
    have h2 : f init.length = some a := by
      have := h init.length (by simp)
      simpa using this
    simp only [List.length_append, List.length_singleton, List.range_succ, List.mapM_append, ih h1, List.mapM_cons, List.mapM_nil, h2]
    rfl

/-- **evaluation of a well-wired branch**: the integrator receives `nu`, `frozen` and the off-diagonal entries of `M` at their own
    indices; the gamma / h lists, all entries of which are one scalar, arrive as such -/
theorem bindIntegrate_spec {ν : Type} (c : IntegCall) (hw : wiringOk c = true) (p : IntegParams ν) (ids : List DName) (γ η : ℚ)
    (hnu : p.nu.length = c.npop) (hfr : p.frozen.length = c.npop) (hg : p.gamma = List.replicate c.npop γ)
    (hh : p.h = List.replicate c.npop η) (hM : p.M.length = c.npop) (hrow : ∀ r ∈ p.M, r.length = c.npop) :
    bindIntegrate c p ids = some { fn := integName c.npop, T := p.T, nu := p.nu, m := offDiag c.npop p.M, gamma := List.replicate c.npop γ, h := List.replicate c.npop η, theta := p.theta, frozen := p.frozen, ids := ids } := by
  simp only [wiringOk, Bool.and_eq_true, List.all_eq_true, List.mem_range] at hw
  obtain ⟨hcom, hpop⟩ := hw
  have hfn : c.fn = integName c.npop := by
    have := hcom
    simp only [commonWired, Bool.and_eq_true, beq_iff_eq] at this
    exact this.1.1.1.1.1.1.1
  have hguard : argsWired c = true := by
    have := hcom
    simp only [commonWired, Bool.and_eq_true] at this
    obtain ⟨⟨⟨⟨⟨⟨⟨_, a0⟩, a1⟩, a2⟩, a3⟩, a4⟩, a5⟩, a6⟩ := this
    simp only [argsWired, Bool.and_eq_true]
    exact ⟨⟨⟨⟨⟨⟨a0, a1⟩, a2⟩, a3⟩, a4⟩, a5⟩, a6⟩
  have P : ∀ k < c.npop, look c (Slot.nu k) = some (Slot.nu k) ∧ look c (Slot.frozen k) = some (Slot.frozen k)
      ∧ (∃ j < c.npop, look c (Slot.gamma k) = some (Slot.gamma j)) ∧ (∃ j < c.npop, look c (Slot.h k) = some (Slot.h j))
      ∧ ∀ j < c.npop, j ≠ k → look c (Slot.M k j) = some (Slot.M k j) := by
    intro k hk
    have := hpop k hk
    simp only [popWired, popWiredNoFrozen, Bool.and_eq_true, beq_iff_eq, List.any_eq_true, List.all_eq_true, List.mem_range,
      Bool.or_eq_true] at this
    obtain ⟨⟨⟨⟨a, b⟩, c1⟩, d⟩, e⟩ := this
    refine ⟨a, e, b, c1, ?_⟩
    intro j hj hjk
    rcases d j hj with h | h
    · exact absurd h hjk
    · exact h
  have Enu : (List.range c.npop).mapM (fun k => slotNu p (look c (Slot.nu k))) = some p.nu := by
    rw [← hnu]
    apply mapM_range_get
    intro k hk
    rw [(P k (hnu ▸ hk)).1]
    simp [slotNu, List.getElem?_eq_getElem hk]
  have Efr : (List.range c.npop).mapM (fun k => slotFrozen p (look c (Slot.frozen k))) = some p.frozen := by
    rw [← hfr]
    apply mapM_range_get
    intro k hk
    rw [(P k (hfr ▸ hk)).2.1]
    simp [slotFrozen, List.getElem?_eq_getElem hk]
  have Ega : (List.range c.npop).mapM (fun k => slotGamma p (look c (Slot.gamma k))) = some (List.replicate c.npop γ) := by
    rw [mapM_option_eq_some _ (fun _ => γ) _ ?_]
    · congr 1
      apply List.ext_getElem <;> simp
    · intro k hk
      obtain ⟨j, hj, e⟩ := (P k (List.mem_range.1 hk)).2.2.1
      rw [e]
      simp only [slotGamma, hg]
      simp [hj]
  have Eh : (List.range c.npop).mapM (fun k => slotH p (look c (Slot.h k))) = some (List.replicate c.npop η) := by
    rw [mapM_option_eq_some _ (fun _ => η) _ ?_]
    · congr 1
      apply List.ext_getElem <;> simp
    · intro k hk
      obtain ⟨j, hj, e⟩ := (P k (List.mem_range.1 hk)).2.2.2.1
      rw [e]
      simp only [slotH, hh]
      simp [hj]
  have Em : (List.range c.npop).mapM (fun i => (List.range c.npop).mapM fun j => if i == j then some (0 : ℚ) else slotM p (look c (Slot.M i j)))
      = some (offDiag c.npop p.M) := by
    unfold offDiag
    apply mapM_option_eq_some
    intro i hi
    apply mapM_option_eq_some
    intro j hj
    by_cases hij : i = j
    · simp [hij]
    · have hij' : (i == j) = false := by simpa using hij
      rw [hij']
      simp only [Bool.false_eq_true, if_false]
      rw [(P i (List.mem_range.1 hi)).2.2.2.2 j (List.mem_range.1 hj) (fun h => hij h.symm)]
      simp only [slotM]
      have h1 : i < p.M.length := by rw [hM]; exact List.mem_range.1 hi
      have h2 : j < (p.M[i]).length := by rw [hrow _ (List.getElem_mem h1)]; exact List.mem_range.1 hj
      simp [List.getElem?_eq_getElem h1, List.getElem?_eq_getElem h2, List.getD_eq_getElem?_getD]
  unfold bindIntegrate
  simp only [hguard, Bool.not_true, pyRaiseIf_false, Enu, Efr, Ega, Eh, Em, hfn, bind, Option.bind, pure]

end DadiVerif.DemesConv
