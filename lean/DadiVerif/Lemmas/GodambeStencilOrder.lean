import DadiVerif.Lemmas.GodambeOrder
import Mathlib.Algebra.BigOperators.Field
set_option autoImplicit false
set_option linter.unusedVariables false
namespace DadiVerif
namespace Godambe
namespace Order
open Real Gen.Godambe

/-- one entry of the Poisson log-likelihood (the generated `llBin`, at ℝ, with the true logarithm) of a model whose expected value
    is affine along the coordinate: `A + a·β` -/
noncomputable def cell1 (A β d lg : ℝ) (a : ℝ) : ℝ := llBin (A + a * β) d (Real.log (A + a * β)) lg
/-- … affine along two coordinates -/
noncomputable def cell2 (A β γ d lg : ℝ) (a b : ℝ) : ℝ := llBin (A + a * β + b * γ) d (Real.log (A + a * β + b * γ)) lg

theorem cell_bound (d X den B : ℝ) (hX : |X| ≤ B) : |d * X / den| ≤ |d| * B / |den| := by
  rw [abs_div, abs_mul]
  exact div_le_div_of_nonneg_right (mul_le_mul_of_nonneg_left hX (abs_nonneg d)) (abs_nonneg den)

section Cell
variable (A β d lg x h μ : ℝ)

theorem gradC_cell (hh : h ≠ 0) (hμ : 0 < μ) (hb : μ ≤ A + x * β - |h * β|) :
    |gradC (cell1 A β d lg) x h - (-β + d * β / (A + x * β))| ≤ |d| * |β| ^ 3 / μ ^ 3 * h ^ 2 := by
  have hm : A + x * β ≠ 0 := by have := abs_nonneg (h * β); exact (by linarith : 0 < A + x * β).ne'
  have e : gradC (cell1 A β d lg) x h - (-β + d * β / (A + x * β))
      = d * (Real.log (A + x * β + h * β) - Real.log (A + x * β - h * β) - 2 * (h * β) / (A + x * β)) / (2 * h) := by
    simp only [gradC, cell1, llBin, Nat.cast_ofNat]
    rw [show A + (x + h) * β = A + x * β + h * β by ring, show A + (x - h) * β = A + x * β - h * β by ring]
    field_simp; ring
  rw [e]
  refine (cell_bound _ _ _ _ (log_central1 (A + x * β) μ (h * β) hμ hb)).trans (le_of_eq ?_)
  have hh' : |h| ≠ 0 := abs_ne_zero.mpr hh
  rw [abs_mul, abs_mul, abs_two, ← sq_abs h]
  field_simp

theorem hessDiagC_cell (hh : h ≠ 0) (hμ : 0 < μ) (hb : μ ≤ A + x * β - |h * β|) :
    |hessDiagC (cell1 A β d lg) (cell1 A β d lg x) x h - (-(d * β ^ 2 / (A + x * β) ^ 2))| ≤ |d| * β ^ 4 / μ ^ 4 * h ^ 2 := by
  have hm : A + x * β ≠ 0 := by have := abs_nonneg (h * β); exact (by linarith : 0 < A + x * β).ne'
  have e : hessDiagC (cell1 A β d lg) (cell1 A β d lg x) x h - (-(d * β ^ 2 / (A + x * β) ^ 2))
      = d * (Real.log (A + x * β + h * β) + Real.log (A + x * β - h * β) - 2 * Real.log (A + x * β) + (h * β) ^ 2 / (A + x * β) ^ 2) / (h * h) := by
    simp only [hessDiagC, cell1, llBin, Nat.cast_ofNat]
    rw [show A + (x + h) * β = A + x * β + h * β by ring, show A + (x - h) * β = A + x * β - h * β by ring]
    field_simp; ring
  rw [e]
  refine (cell_bound _ _ _ _ (log_sym2 (A + x * β) (h * β) μ hμ hb)).trans (le_of_eq ?_)
  have hh' : |h| ≠ 0 := abs_ne_zero.mpr hh
  have h4 : h ^ 4 = |h| ^ 4 := by rw [← abs_pow]; exact (abs_of_nonneg (by positivity)).symm
  rw [abs_mul, ← sq_abs h, mul_pow, h4]
  field_simp

theorem hessDiag1_cell (hh : h ≠ 0) (hμ : 0 < μ) (hb : μ ≤ A + x * β - 2 * |h * β|) :
    |hessDiag1 (cell1 A β d lg) (cell1 A β d lg x) x h - (-(d * β ^ 2 / (A + x * β) ^ 2))| ≤ 10 * |d| * |β| ^ 3 / μ ^ 3 * |h| := by
  have hm : A + x * β ≠ 0 := by have := abs_nonneg (h * β); exact (by linarith : 0 < A + x * β).ne'
  have e : hessDiag1 (cell1 A β d lg) (cell1 A β d lg x) x h - (-(d * β ^ 2 / (A + x * β) ^ 2))
      = d * (Real.log (A + x * β + 2 * (h * β)) - 2 * Real.log (A + x * β + h * β) + Real.log (A + x * β) + (h * β) ^ 2 / (A + x * β) ^ 2) / (h * h) := by
    simp only [hessDiag1, cell1, llBin, Nat.cast_ofNat]
    rw [show A + (x + 2 * h) * β = A + x * β + 2 * (h * β) by ring, show A + (x + h) * β = A + x * β + h * β by ring]
    field_simp; ring
  rw [e]
  refine (cell_bound _ _ _ _ (log_forward2 (A + x * β) μ (h * β) hμ hb)).trans (le_of_eq ?_)
  have hh' : |h| ≠ 0 := abs_ne_zero.mpr hh
  rw [abs_mul, abs_mul]
  field_simp

/-- `get_grad`, one-sided: first order with the two-point formula, second order with the three-point one (`two_pt_deriv_test`) -/
theorem grad1_cell (hh : h ≠ 0) (hμ : 0 < μ) (hb : μ ≤ A + x * β - 2 * |h * β|) :
    |grad1 (cell1 A β d lg) x h - (-β + d * β / (A + x * β))|
      ≤ if twoPtDerivTest then 6 * |d| * |β| ^ 3 / μ ^ 3 * h ^ 2 else |d| * β ^ 2 / μ ^ 2 * |h| := by
  have hm : A + x * β ≠ 0 := by have := abs_nonneg (h * β); exact (by linarith : 0 < A + x * β).ne'
  have hh' : |h| ≠ 0 := abs_ne_zero.mpr hh
  unfold grad1
  split
  · have e : ((((4 : ℕ) : ℝ) * cell1 A β d lg (x + h) - cell1 A β d lg (x + ((2 : ℕ) : ℝ) * h)) - ((3 : ℕ) : ℝ) * cell1 A β d lg x) / (((2 : ℕ) : ℝ) * h) - (-β + d * β / (A + x * β))
        = d * (4 * Real.log (A + x * β + h * β) - Real.log (A + x * β + 2 * (h * β)) - 3 * Real.log (A + x * β) - 2 * (h * β) / (A + x * β)) / (2 * h) := by
      simp only [cell1, llBin, Nat.cast_ofNat]
      rw [show A + (x + 2 * h) * β = A + x * β + 2 * (h * β) by ring, show A + (x + h) * β = A + x * β + h * β by ring]
      field_simp; ring
    simp only [] at e ⊢
    rw [e]
    refine (cell_bound _ _ _ _ (log_forward1_3pt (A + x * β) μ (h * β) hμ hb)).trans (le_of_eq ?_)
    rw [abs_mul, abs_mul, abs_two, ← sq_abs h]
    field_simp; ring
  · have e : (cell1 A β d lg (x + h) - cell1 A β d lg x) / h - (-β + d * β / (A + x * β))
        = d * (Real.log (A + x * β + h * β) - Real.log (A + x * β) - (h * β) / (A + x * β)) / h := by
      simp only [cell1, llBin]
      rw [show A + (x + h) * β = A + x * β + h * β by ring]
      field_simp; ring
    simp only [] at e ⊢
    rw [e]
    have hb1 : μ ≤ A + x * β - |h * β| := by have := abs_nonneg (h * β); linarith
    refine (cell_bound _ _ _ _ (log_taylor1 (A + x * β) (h * β) μ hμ hb1)).trans (le_of_eq ?_)
    rw [mul_pow, ← sq_abs h]
    field_simp
end Cell

section Cell2
variable (A β γ d lg x y h k μ : ℝ)

theorem hessOffC_cell (hh : h ≠ 0) (hk : k ≠ 0) (hμ : 0 < μ) (hb : μ ≤ A + x * β + y * γ - (|h * β| + |k * γ|)) :
    |hessOffC (cell2 A β γ d lg) (cell2 A β γ d lg x y) x y h k - (-(d * β * γ / (A + x * β + y * γ) ^ 2))|
      ≤ |d| * (|h * β| + |k * γ|) ^ 4 / (2 * |h| * |k| * μ ^ 4) := by
  have hs0 : 0 ≤ |h * β| + |k * γ| := by positivity
  have hm : A + x * β + y * γ ≠ 0 := (by linarith : 0 < A + x * β + y * γ).ne'
  have e : hessOffC (cell2 A β γ d lg) (cell2 A β γ d lg x y) x y h k - (-(d * β * γ / (A + x * β + y * γ) ^ 2))
      = d * (Real.log (A + x * β + y * γ + h * β + k * γ) - Real.log (A + x * β + y * γ + h * β - k * γ)
             - Real.log (A + x * β + y * γ - h * β + k * γ) + Real.log (A + x * β + y * γ - h * β - k * γ)
             + 4 * (h * β) * (k * γ) / (A + x * β + y * γ) ^ 2) / (4 * h * k) := by
    simp only [hessOffC, cell2, llBin, Nat.cast_ofNat]
    rw [show A + (x + h) * β + (y + k) * γ = A + x * β + y * γ + h * β + k * γ by ring,
        show A + (x + h) * β + (y - k) * γ = A + x * β + y * γ + h * β - k * γ by ring,
        show A + (x - h) * β + (y + k) * γ = A + x * β + y * γ - h * β + k * γ by ring,
        show A + (x - h) * β + (y - k) * γ = A + x * β + y * γ - h * β - k * γ by ring]
    field_simp; ring
  rw [e]
  refine (cell_bound _ _ _ _ (log_mixed_central (A + x * β + y * γ) μ (h * β) (k * γ) _ le_rfl hμ hb)).trans (le_of_eq ?_)
  have hh' : |h| ≠ 0 := abs_ne_zero.mpr hh
  have hk' : |k| ≠ 0 := abs_ne_zero.mpr hk
  simp only [abs_mul, show |(4 : ℝ)| = 4 by norm_num]
  field_simp; ring

theorem hessOff1_cell (hh : h ≠ 0) (hk : k ≠ 0) (hμ : 0 < μ) (hb : μ ≤ A + x * β + y * γ - (|h * β| + |k * γ|)) :
    |hessOff1 (cell2 A β γ d lg) (cell2 A β γ d lg x y) x y h k - (-(d * β * γ / (A + x * β + y * γ) ^ 2))|
      ≤ 3 * |d| * (|h * β| + |k * γ|) ^ 3 / (|h| * |k| * μ ^ 3) := by
  have hs0 : 0 ≤ |h * β| + |k * γ| := by positivity
  have hm : A + x * β + y * γ ≠ 0 := (by linarith : 0 < A + x * β + y * γ).ne'
  have e : hessOff1 (cell2 A β γ d lg) (cell2 A β γ d lg x y) x y h k - (-(d * β * γ / (A + x * β + y * γ) ^ 2))
      = d * (Real.log (A + x * β + y * γ + h * β + k * γ) - Real.log (A + x * β + y * γ + h * β)
             - Real.log (A + x * β + y * γ + k * γ) + Real.log (A + x * β + y * γ)
             + (h * β) * (k * γ) / (A + x * β + y * γ) ^ 2) / (h * k) := by
    simp only [hessOff1, cell2, llBin]
    rw [show A + (x + h) * β + (y + k) * γ = A + x * β + y * γ + h * β + k * γ by ring,
        show A + (x + h) * β + y * γ = A + x * β + y * γ + h * β by ring,
        show A + x * β + (y + k) * γ = A + x * β + y * γ + k * γ by ring]
    field_simp; ring
  rw [e]
  refine (cell_bound _ _ _ _ (log_mixed_forward (A + x * β + y * γ) μ (h * β) (k * γ) _ le_rfl hμ hb)).trans (le_of_eq ?_)
  have hh' : |h| ≠ 0 := abs_ne_zero.mpr hh
  have hk' : |k| ≠ 0 := abs_ne_zero.mpr hk
  simp only [abs_mul]
  field_simp
end Cell2

/-! ### the stencils are linear in the function: a sum over entries is differentiated entry by entry -/
section Sums
open Finset
variable {ι : Type} (s : Finset ι)

theorem gradC_sum (c : ι → ℝ → ℝ) (x h : ℝ) : gradC (fun a => ∑ i ∈ s, c i a) x h = ∑ i ∈ s, gradC (c i) x h := by
  simp only [gradC]
  rw [← Finset.sum_sub_distrib, Finset.sum_div]

theorem grad1_sum (c : ι → ℝ → ℝ) (x h : ℝ) : grad1 (fun a => ∑ i ∈ s, c i a) x h = ∑ i ∈ s, grad1 (c i) x h := by
  unfold grad1
  split
  · simp only []
    rw [Finset.mul_sum, Finset.mul_sum, ← Finset.sum_sub_distrib, ← Finset.sum_sub_distrib, Finset.sum_div]
  · simp only []
    rw [← Finset.sum_sub_distrib, Finset.sum_div]

theorem hessDiagC_sum (c : ι → ℝ → ℝ) (x h : ℝ) :
    hessDiagC (fun a => ∑ i ∈ s, c i a) (∑ i ∈ s, c i x) x h = ∑ i ∈ s, hessDiagC (c i) (c i x) x h := by
  simp only [hessDiagC]
  rw [Finset.mul_sum, ← Finset.sum_sub_distrib, ← Finset.sum_add_distrib, Finset.sum_div]

theorem hessDiag1_sum (c : ι → ℝ → ℝ) (x h : ℝ) :
    hessDiag1 (fun a => ∑ i ∈ s, c i a) (∑ i ∈ s, c i x) x h = ∑ i ∈ s, hessDiag1 (c i) (c i x) x h := by
  simp only [hessDiag1]
  rw [Finset.mul_sum, ← Finset.sum_sub_distrib, ← Finset.sum_add_distrib, Finset.sum_div]

theorem hessOffC_sum (c : ι → ℝ → ℝ → ℝ) (x y h k : ℝ) :
    hessOffC (fun a b => ∑ i ∈ s, c i a b) (∑ i ∈ s, c i x y) x y h k = ∑ i ∈ s, hessOffC (c i) (c i x y) x y h k := by
  simp only [hessOffC]
  rw [← Finset.sum_sub_distrib, ← Finset.sum_sub_distrib, ← Finset.sum_add_distrib, Finset.sum_div]

theorem hessOff1_sum (c : ι → ℝ → ℝ → ℝ) (x y h k : ℝ) :
    hessOff1 (fun a b => ∑ i ∈ s, c i a b) (∑ i ∈ s, c i x y) x y h k = ∑ i ∈ s, hessOff1 (c i) (c i x y) x y h k := by
  simp only [hessOff1]
  rw [← Finset.sum_sub_distrib, ← Finset.sum_sub_distrib, ← Finset.sum_add_distrib, Finset.sum_div]

/-- `|Σ aᵢ − Σ bᵢ| ≤ Σ Bᵢ` from entrywise bounds -/
theorem abs_sum_sub_le (a b B : ι → ℝ) (h : ∀ i ∈ s, |a i - b i| ≤ B i) : |∑ i ∈ s, a i - ∑ i ∈ s, b i| ≤ ∑ i ∈ s, B i := by
  rw [← Finset.sum_sub_distrib]
  exact (Finset.abs_sum_le_sum_abs _ _).trans (Finset.sum_le_sum h)
end Sums
end Order
end Godambe
end DadiVerif
