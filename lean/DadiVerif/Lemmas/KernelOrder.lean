import DadiVerif.Lemmas.KernelLine
/-!
Kernel programs, part 5 — the canonical statement order is sound: `canonOrder` only exchanges adjacent statements that touch
disjoint data (`indep`), and executing two such statements in either order gives the same state.  Hence running the resolved
program (canonical order) equals running the statements in SOURCE order.
-/
namespace DadiVerif
open Gen
namespace KProg

/-- the two states hold the same data in resource ρ -/
def agree (σ σ' : WState) : Res → Prop
  | .arr (.work w) => σ.arr w = σ'.arr w
  | .arr .phi => σ.phi = σ'.phi
  | .arr _ => True
  | .sc s => σ.sc s = σ'.sc s

theorem agree_refl (σ : WState) (ρ : Res) : agree σ σ ρ := by
  unfold agree; split <;> trivial

theorem agree_symm {σ σ' : WState} {ρ : Res} (h : agree σ σ' ρ) : agree σ' σ ρ := by
  unfold agree at *; split <;> simp_all

theorem agree_trans {σ σ' σ'' : WState} {ρ : Res} (h : agree σ σ' ρ) (h' : agree σ' σ'' ρ) : agree σ σ'' ρ := by
  unfold agree at *; split <;> simp_all

theorem state_ext (σ σ' : WState) (h : ∀ ρ, agree σ σ' ρ) : σ = σ' := by
  obtain ⟨a, s, p⟩ := σ; obtain ⟨a', s', p'⟩ := σ'
  have h1 : a = a' := funext fun w => h (.arr (.work w))
  have h2 : s = s' := funext fun w => h (.sc w)
  have h3 : p = p' := h (.arr .phi)
  subst h1; subst h2; subst h3; rfl

theorem lookRef_congr (env : KEnv) (σ σ' : WState) (r : RRef) (h : agree σ σ' (.arr r)) : lookRef env σ r = lookRef env σ' r := by
  cases r <;> simp_all [lookRef, agree]

theorem evalExpr_congr (env : KEnv) (vals : List ℕ) (σ σ' : WState) (j : ℕ) (e : RExpr)
    (h : ∀ ρ ∈ exprReads e, agree σ σ' ρ) : evalExpr env vals σ j e = evalExpr env vals σ' j e := by
  induction e with
  | num n d => rfl
  | sc s =>
    cases s <;> simp_all [evalExpr, evalSc, exprReads, agree]
  | arr r ix => simp only [evalExpr]; rw [lookRef_congr env σ σ' r (h _ (by simp [exprReads]))]
  | flat r idx => simp only [evalExpr]; rw [lookRef_congr env σ σ' r (h _ (by simp [exprReads]))]
  | neg e ih => simp only [evalExpr]; rw [ih (fun ρ hρ => h ρ (by simpa [exprReads] using hρ))]
  | add a b iha ihb | sub a b iha ihb | mul a b iha ihb | div a b iha ihb =>
    simp only [evalExpr]
    rw [iha (fun ρ hρ => h ρ (by simp [exprReads, hρ])), ihb (fun ρ hρ => h ρ (by simp [exprReads, hρ]))]

/-! ### frame: a statement changes only what it writes -/
theorem agree_setArr_of_ne (σ : WState) (w : WArr) (f : ℕ → ℚ) (ρ : Res) (h : ρ ≠ .arr (.work w)) : agree (σ.setArr w f) σ ρ := by
  unfold agree
  split
  · rename_i w'
    have : w' ≠ w := fun hc => h (by rw [hc])
    simp [this]
  · rfl
  · trivial
  · rfl

theorem agree_setSc_of_ne (σ : WState) (w : WSc) (v : ℚ) (ρ : Res) (h : ρ ≠ .sc w) : agree (σ.setSc w v) σ ρ := by
  unfold agree
  split
  · rfl
  · rfl
  · trivial
  · rename_i w'
    have : w' ≠ w := fun hc => h (by rw [hc])
    simp [this]

theorem out_eq_some {a : RArg} {w : WArr} (h : a.out = some w) : a = .ptr (.work w) := by
  unfold RArg.out at h
  split at h
  · simp at h; subst h; rfl
  · simp at h

/-- the optional write of a procedure's i-th argument -/
def outSet (args : List RArg) (i : ℕ) (f : ℕ → ℚ) (σ : WState) : WState :=
  match (args.getD i .bad).out with
  | some w => σ.setArr w f
  | none => σ

theorem frame_outSet (args : List RArg) (i : ℕ) (f : ℕ → ℚ) (σ : WState) (ρ : Res) (h : ρ ∉ argRefs (args.getD i .bad)) :
    agree (outSet args i f σ) σ ρ := by
  unfold outSet
  split
  · rename_i w hw
    rw [out_eq_some hw] at h
    exact agree_setArr_of_ne σ w f ρ (by simpa [argRefs] using h)
  · exact agree_refl σ ρ

theorem execProc_eq (env : KEnv) (vals : List ℕ) (σ : WState) (p : RProc) (args : List RArg) :
    execProc env vals σ p args =
      (let A (i : ℕ) : ℕ → ℚ := lookRef env σ (args.getD i .bad).ref
       match p with
       | .computeDx => outSet args 2 (fun i => A 0 (i + 1) - A 0 i) σ
       | .computeDfactor => outSet args 2 (dfactorOf (A 0) (evalBound env (args.getD 1 .bad).bound)) σ
       | .computeXInt => outSet args 2 (fun i => (1/2 : ℚ) * (A 0 (i + 1) + A 0 i)) σ
       | .computeDelj => outSet args 4 (deljC (evalExpr env vals σ 0 (args.getD 5 .bad).expr != 0) (env.eps vals) (A 1) (A 2) (A 0)) σ
       | .computeAbc =>
           let N := evalBound env (args.getD 6 .bad).bound
           let dt := evalExpr env vals σ 0 (args.getD 5 .bad).expr
           outSet args 9 (abcC (A 0) (A 1) (A 2) (A 3) (A 4) N)
             (outSet args 8 (abcB (A 0) (A 1) (A 2) (A 3) (A 4) dt N) (outSet args 7 (abcA (A 0) (A 1) (A 2) (A 3) (A 4)) σ))
       | .solve =>
           let N := evalBound env (args.getD 5 .bad).bound
           let sol := thomas ((List.range N).map fun j => (⟨A 0 j, A 1 j, A 2 j, A 3 j⟩ : Row))
           outSet args 4 (fun j => listGetD sol j) σ
       | _ => σ) := by
  cases p <;> rfl

theorem frame_proc (env : KEnv) (vals : List ℕ) (σ : WState) (p : RProc) (args : List RArg) (ρ : Res)
    (h : ρ ∉ stmtWrites (.proc p args)) : agree (execProc env vals σ p args) σ ρ := by
  rw [execProc_eq]
  simp only [stmtWrites, List.mem_flatMap, not_exists, not_and] at h
  cases p <;> simp only [procOuts] at h ⊢
  case computeDx | computeDfactor | computeXInt => exact frame_outSet _ _ _ _ _ (h 2 (by simp))
  case computeDelj | solve => exact frame_outSet _ _ _ _ _ (h 4 (by simp))
  case computeAbc =>
    exact agree_trans (frame_outSet _ _ _ _ _ (h 9 (by simp)))
      (agree_trans (frame_outSet _ _ _ _ _ (h 8 (by simp))) (frame_outSet _ _ _ _ _ (h 7 (by simp))))
  all_goals exact agree_refl σ ρ

theorem frame (env : KEnv) (vals : List ℕ) (σ : WState) (st : RStmt) (ρ : Res) (h : ρ ∉ stmtWrites st) :
    agree (execStmt env vals σ st) σ ρ := by
  cases st with
  | proc p args => exact frame_proc env vals σ p args ρ h
  | setSc w fn args => exact agree_setSc_of_ne _ _ _ _ (by simpa [stmtWrites] using h)
  | tab w lo hi fn args => exact agree_setArr_of_ne _ _ _ _ (by simpa [stmtWrites] using h)
  | store lo hi r idx e =>
    simp only [stmtWrites, List.mem_singleton] at h
    cases r <;> simp only [execStmt] <;> try exact agree_refl σ ρ
    unfold agree
    split <;> simp_all
  | bc cond w ix e => exact agree_setArr_of_ne _ _ _ _ (by simpa [stmtWrites] using h)
  | bad why => exact agree_refl σ ρ

/-! ### dependence: what a statement writes depends only on what it reads -/
theorem agree_outSet (args : List RArg) (i : ℕ) (f : ℕ → ℚ) (τ τ' : WState) (ρ : Res) (h : agree τ τ' ρ) :
    agree (outSet args i f τ) (outSet args i f τ') ρ := by
  unfold outSet
  split
  · rename_i w _
    unfold agree at h ⊢
    split <;> simp_all
  · exact h

theorem mem_argRefs_getD (args : List RArg) (i : ℕ) (ρ : Res) (h : ρ ∈ argRefs (args.getD i .bad)) : ρ ∈ args.flatMap argRefs := by
  rw [List.getD_eq_getElem?_getD] at h
  cases hg : args[i]? with
  | none => rw [hg] at h; simp [argRefs] at h
  | some a =>
    rw [hg] at h
    exact List.mem_flatMap.mpr ⟨a, List.mem_of_getElem? hg, h⟩

theorem A_congr (env : KEnv) (σ σ' : WState) (args : List RArg) (h : ∀ ρ ∈ args.flatMap argRefs, agree σ σ' ρ) (i : ℕ) :
    lookRef env σ (args.getD i .bad).ref = lookRef env σ' (args.getD i .bad).ref := by
  apply lookRef_congr
  cases hg : args.getD i .bad with
  | ptr r => exact h _ (mem_argRefs_getD args i _ (by rw [hg]; simp [argRefs, RArg.ref]))
  | ext b => simp [RArg.ref, agree]
  | val e => simp [RArg.ref, agree]
  | bad => simp [RArg.ref, agree]

theorem val_congr (env : KEnv) (vals : List ℕ) (σ σ' : WState) (args : List RArg) (h : ∀ ρ ∈ args.flatMap argRefs, agree σ σ' ρ)
    (i j : ℕ) : evalExpr env vals σ j (args.getD i .bad).expr = evalExpr env vals σ' j (args.getD i .bad).expr := by
  apply evalExpr_congr
  intro ρ hρ
  cases hg : args.getD i .bad with
  | val e => rw [hg] at hρ; exact h _ (mem_argRefs_getD args i _ (by rw [hg]; simpa [argRefs, RArg.expr] using hρ))
  | ptr r => rw [hg] at hρ; simp [RArg.expr, exprReads] at hρ
  | ext b => rw [hg] at hρ; simp [RArg.expr, exprReads] at hρ
  | bad => rw [hg] at hρ; simp [RArg.expr, exprReads] at hρ

theorem dep (env : KEnv) (vals : List ℕ) (σ σ' : WState) (st : RStmt) (h : ∀ ρ ∈ stmtReads st, agree σ σ' ρ)
    (ρ : Res) (hρ : ρ ∈ stmtWrites st) : agree (execStmt env vals σ st) (execStmt env vals σ' st) ρ := by
  cases st with
  | proc p args =>
    simp only [stmtReads] at h
    have hA : ∀ i, lookRef env σ (args.getD i .bad).ref = lookRef env σ' (args.getD i .bad).ref := A_congr env σ σ' args h
    have hV : ∀ i j, evalExpr env vals σ j (args.getD i .bad).expr = evalExpr env vals σ' j (args.getD i .bad).expr :=
      val_congr env vals σ σ' args h
    have hag : agree σ σ' ρ := by
      simp only [stmtWrites, List.mem_flatMap] at hρ
      obtain ⟨i, _, hi⟩ := hρ
      exact h ρ (mem_argRefs_getD args i ρ hi)
    simp only [execStmt]
    rw [execProc_eq, execProc_eq]
    simp only [hA, hV]
    cases p <;> simp only
    case computeAbc => exact agree_outSet _ _ _ _ _ _ (agree_outSet _ _ _ _ _ _ (agree_outSet _ _ _ _ _ _ hag))
    all_goals first | exact agree_outSet _ _ _ _ _ _ hag | exact hag
  | setSc w fn args =>
    simp only [stmtWrites, List.mem_singleton] at hρ
    subst hρ
    simp only [execStmt, agree, setSc_sc, if_true]
    congr 1
    apply List.map_congr_left
    intro e he
    exact evalExpr_congr env vals σ σ' 0 e (fun ρ hρ => h ρ (by simp only [stmtReads, List.mem_flatMap]; exact ⟨e, he, hρ⟩))
  | tab w lo hi fn args =>
    simp only [stmtWrites, List.mem_singleton] at hρ
    subst hρ
    have he : ∀ j, ∀ e ∈ args, evalExpr env vals σ j e = evalExpr env vals σ' j e := fun j e he =>
      evalExpr_congr env vals σ σ' j e (fun ρ hρ => h ρ (by simp only [stmtReads, List.mem_flatMap]; exact ⟨e, he, hρ⟩))
    simp only [execStmt, agree, setArr_arr, if_true]
    funext j
    cases fn with
    | some f => simp only; congr 1; exact List.map_congr_left (he j)
    | none =>
      simp only
      cases args with
      | nil => rfl
      | cons e es => exact he j e (by simp)
  | store lo hi r idx e =>
    simp only [stmtWrites, List.mem_singleton] at hρ
    subst hρ
    have hr : agree σ σ' (.arr r) := h _ (by simp [stmtReads])
    have he : ∀ j, evalExpr env vals σ j e = evalExpr env vals σ' j e := fun j =>
      evalExpr_congr env vals σ σ' j e (fun ρ hρ => h ρ (by simp [stmtReads, hρ]))
    cases r <;> simp only [execStmt] <;> try exact hr
    simp only [agree] at hr ⊢
    simp only [he, hr]
  | bc cond w ix e =>
    simp only [stmtWrites, List.mem_singleton] at hρ
    subst hρ
    have hw : σ.arr w = σ'.arr w := h (.arr (.work w)) (by simp [stmtReads])
    have he : evalExpr env vals σ 0 e = evalExpr env vals σ' 0 e :=
      evalExpr_congr env vals σ σ' 0 e (fun ρ hρ => h ρ (by simp [stmtReads, hρ]))
    have hc' : ∀ c ∈ cond, evalCmp env vals σ c = evalCmp env vals σ' c := by
      intro c hc
      have := fun ρ (hρ : ρ ∈ cmpReads c) => h ρ (by
        simp only [stmtReads, List.mem_append, List.mem_flatMap]; exact Or.inl (Or.inl ⟨c, hc, hρ⟩))
      cases c <;> simp only [evalCmp, cmpReads] at this ⊢ <;> rw [evalExpr_congr env vals σ σ' 0 _ this]
    have hc : cond.all (evalCmp env vals σ) = cond.all (evalCmp env vals σ') := by
      rw [Bool.eq_iff_iff]
      simp only [List.all_eq_true]
      constructor
      · intro H c hc; rw [← hc' c hc]; exact H c hc
      · intro H c hc; rw [hc' c hc]; exact H c hc
    simp only [execStmt, agree, setArr_arr, if_true, hw, he, hc]
  | bad why => simp [stmtWrites] at hρ

/-! ### independent statements commute; the canonical order is sound -/
theorem disjoint_spec {a b : List Res} (h : disjoint a b = true) : ∀ x ∈ a, x ∉ b := by
  intro x hx hb
  simp only [disjoint, List.all_eq_true] at h
  have := h x hx
  simp [hb] at this

theorem indep_spec {s t : RStmt} (h : indep s t = true) :
    (∀ x ∈ stmtWrites s, x ∉ stmtReads t ∧ x ∉ stmtWrites t) ∧ (∀ x ∈ stmtWrites t, x ∉ stmtReads s) := by
  unfold indep at h
  split at h
  · simp at h
  · simp at h
  · simp only [Bool.and_eq_true] at h
    refine ⟨fun x hx => ?_, disjoint_spec h.2⟩
    have := disjoint_spec h.1 x hx
    simpa [List.mem_append, not_or] using this

theorem exec_comm (env : KEnv) (vals : List ℕ) (σ : WState) (s t : RStmt) (h : indep s t = true) :
    execStmt env vals (execStmt env vals σ s) t = execStmt env vals (execStmt env vals σ t) s := by
  obtain ⟨d1, d2⟩ := indep_spec h
  apply state_ext
  intro ρ
  by_cases hs : ρ ∈ stmtWrites s
  · have l := frame env vals (execStmt env vals σ s) t ρ (d1 ρ hs).2
    have r := dep env vals (execStmt env vals σ t) σ s
      (fun ρ' hρ' => frame env vals σ t ρ' (fun hc => d2 ρ' hc hρ')) ρ hs
    exact agree_trans l (agree_symm r)
  · by_cases ht : ρ ∈ stmtWrites t
    · have r := frame env vals (execStmt env vals σ t) s ρ hs
      have l := dep env vals (execStmt env vals σ s) σ t
        (fun ρ' hρ' => frame env vals σ s ρ' (fun hc => (d1 ρ' hc).1 hρ')) ρ ht
      exact agree_trans l (agree_symm r)
    · exact agree_trans (agree_trans (frame env vals _ t ρ ht) (frame env vals σ s ρ hs))
        (agree_symm (agree_trans (frame env vals _ s ρ hs) (frame env vals σ t ρ ht)))

theorem foldl_placeStmt (env : KEnv) (vals : List ℕ) (s : RStmt) : ∀ (acc : List RStmt) (σ : WState),
    (placeStmt s acc).reverse.foldl (execStmt env vals) σ = execStmt env vals (acc.reverse.foldl (execStmt env vals) σ) s
  | [], σ => by simp [placeStmt]
  | t :: rest, σ => by
      unfold placeStmt
      split
      · rename_i hc
        simp only [Bool.and_eq_true] at hc
        simp only [List.reverse_cons, List.foldl_append, List.foldl_cons, List.foldl_nil]
        rw [foldl_placeStmt env vals s rest σ, exec_comm env vals _ s t hc.2]
      · simp only [List.reverse_cons, List.foldl_append, List.foldl_cons, List.foldl_nil]

/-- **executing the canonically ordered statements = executing them in source order** -/
theorem foldl_canonOrder (env : KEnv) (vals : List ℕ) (l : List RStmt) (σ : WState) :
    (canonOrder l).foldl (execStmt env vals) σ = l.foldl (execStmt env vals) σ := by
  unfold canonOrder
  suffices H : ∀ (l acc : List RStmt), (l.foldl (fun acc s => placeStmt s acc) acc).reverse.foldl (execStmt env vals) σ
      = l.foldl (execStmt env vals) (acc.reverse.foldl (execStmt env vals) σ) by simpa using H l []
  intro l
  induction l with
  | nil => intro acc; rfl
  | cons s rest ih =>
    intro acc
    simp only [List.foldl_cons]
    rw [ih (placeStmt s acc), foldl_placeStmt]

/-- **running the resolved program (canonical statement order) = running the statements in source order** -/
theorem run_resolve_eq_src (K : C.KernelSig) (p : C.KernelProg) (env : KEnv) (phi : Array ℚ) :
    run (resolve K p) env phi = run (resolveSrc K p) env phi := by
  unfold run
  congr 1
  funext vals a
  unfold lineExec
  exact congrArg WState.phi (foldl_canonOrder env vals (resolveSrc K p).stmts (initState a))

end KProg
end DadiVerif
