import DadiVerif.Model.Fold
import Mathlib.Algebra.BigOperators.Ring.Finset
import Mathlib.Algebra.BigOperators.Intervals
import Mathlib.Algebra.BigOperators.Field
import Mathlib.Algebra.Order.Field.Rat
import Mathlib.Tactic.FieldSimp
import Mathlib.Tactic.Ring
import Mathlib.Tactic.Linarith
import Mathlib.Tactic.Push
/-!
Helper lemmas for C09 that do NOT depend on what tools/gen_Fold.py currently generates.

Nothing in this file unfolds a generated definition or uses the value of a generated constant: whatever is needed about the
translated programs (`fold_outData = sfold`, `fold_maskCorners = true`, `binop = binopClosed`, …) enters as a *hypothesis*
(`FoldDataOK`, `FoldMaskOK`, …).  Those hypotheses are proved in Props/C09.lean (theorems `C09_fold_program`, …), next to the
property theorems that use them — so an edit of the source that changes a generated definition breaks exactly the program
theorem it falsifies and the property theorems that depend on it, and this file keeps building.
(Lemmas/Fold.lean instantiates the lemmas of this file once more, under their old names, for C11's Lemmas/LikFold.lean.)

Part A: closed forms of the property statement (`sfold`, `fo`) over an abstract index type with local hypotheses at one index
(`mirror (mirror i) = i`, `total (mirror i) = T − total i`, `total i ≤ T`).  Part B: the flat C-order instance satisfies these
hypotheses (the only place with index arithmetic).  Part C: sums over `List.range` as `Finset` sums, reflection.  Part D: the
executable model in closed form, given the program hypotheses.  Part E: closed forms of the two operator templates.
-/
namespace DadiVerif
namespace Fold
open Gen.Fold Finset

/-! ### Part A — closed forms -/
section pointwise
variable {ι : Type} (mirror : ι → ι) (total : ι → ℕ) (T : ℕ) (x : ι → ℚ) (m : ι → Bool)

/-- closed form of the folded data -/
def sfold (i : ι) : ℚ :=
  if 2 * total i > T then 0
  else if 2 * total i = T then (x i + x (mirror i)) / 2
  else x i + x (mirror i)

/-- entry is "folded out" (its minor-allele mirror is kept instead) -/
def fo (i : ι) : Bool := decide (2 * total i > T)

/-- `n == T/2.` in floating point on integers = `2n = T` -/
theorem cast_eq_half_iff (n T : ℕ) : ((n : ℚ) = (T : ℚ) / 2) ↔ 2 * n = T := by
  constructor
  · intro h
    have h2 : (2 : ℚ) * (n : ℚ) = (T : ℚ) := by rw [h]; ring
    exact_mod_cast h2
  · intro h
    have h2 : (2 : ℚ) * (n : ℚ) = (T : ℚ) := by exact_mod_cast h
    rw [← h2]; ring

/-- `n > int(T/2)` = `2n > T` -/
theorem decide_gt_half (n T : ℕ) : decide (n > T / 2) = decide (2 * n > T) := by
  congr 1
  apply propext
  constructor <;> intro h <;> omega

variable {mirror total T}

/-- local hypotheses at index `i` -/
structure Loc (mirror : ι → ι) (total : ι → ℕ) (T : ℕ) (i : ι) : Prop where
  invol : mirror (mirror i) = i
  tot   : total (mirror i) = T - total i
  le    : total i ≤ T

theorem Loc.mir {i : ι} (h : Loc mirror total T i) : Loc mirror total T (mirror i) where
  invol := by rw [h.invol]
  tot := by rw [h.invol, h.tot]; have := h.le; omega
  le := by rw [h.tot]; omega

/-- an entry and its mirror are never both folded out -/
theorem fo_not_both {i : ι} (h : Loc mirror total T i) : ¬ (fo total T i = true ∧ fo total T (mirror i) = true) := by
  have h1 := h.tot; have h2 := h.le
  unfold fo; simp only [decide_eq_true_eq]; omega

theorem sfold_mirror_arg {i : ι} (h : Loc mirror total T i) :
    sfold mirror total T (fun j => x (mirror j)) i = sfold mirror total T x i := by
  unfold sfold; simp only [h.invol]; split_ifs <;> ring

/-- fold ∘ unfold ∘ fold = fold on the data (closed forms) -/
theorem sfold_unfold_sfold {i : ι} (h : Loc mirror total T i) :
    sfold mirror total T (fun j => (sfold mirror total T x j + sfold mirror total T x (mirror j)) / 2) i
      = sfold mirror total T x i := by
  have hm := h.invol; have h1 := h.tot; have h2 := h.le
  have h3 := h.mir.tot; have h4 := h.mir.le
  unfold sfold
  simp only [hm]
  split_ifs <;> first | (exfalso; omega) | ring

/-- mask algebra of fold ∘ unfold ∘ fold, corner masking included (`c` = corner indicator, mirror-symmetric) -/
theorem mask_fuf {i : ι} (h : Loc mirror total T i) (c : ι → Bool) (hc : c (mirror i) = c i) :
    let M : ι → Bool := fun j => m j || m (mirror j) || fo total T j || c j
    let U : ι → Bool := fun j => (M j ^^ fo total T j) || (M (mirror j) ^^ fo total T (mirror j)) || c j
    (U i || U (mirror i) || fo total T i || c i) = M i := by
  intro M U
  have hnb := fo_not_both h
  simp only [M, U, h.invol, hc]
  cases m i <;> cases m (mirror i) <;> cases c i <;> cases hf : fo total T i <;>
    cases hg : fo total T (mirror i) <;> simp_all

/-- an entry of the folded spectrum and its mirror together carry the entry of the input and its mirror -/
theorem sfold_add_mirror {i : ι} (h : Loc mirror total T i) :
    sfold mirror total T x i + sfold mirror total T x (mirror i) = x i + x (mirror i) := by
  have hm := h.invol; have h1 := h.tot; have h2 := h.le
  unfold sfold
  simp only [hm]
  split_ifs <;> first | (exfalso; omega) | ring

/-- mask algebra of unfold ∘ fold: entry ∨ mirror ∨ corners -/
theorem mask_uf {i : ι} (h : Loc mirror total T i) (c : ι → Bool) (hc : c (mirror i) = c i) :
    let M : ι → Bool := fun j => m j || m (mirror j) || fo total T j || c j
    ((M i ^^ fo total T i) || (M (mirror i) ^^ fo total T (mirror i)) || c i) = (m i || m (mirror i) || c i) := by
  intro M
  have hnb := fo_not_both h
  simp only [M, h.invol, hc]
  cases m i <;> cases m (mirror i) <;> cases c i <;> cases hf : fo total T i <;>
    cases hg : fo total T (mirror i) <;> simp_all

/-- coefficient form used for the total -/
def coef (total : ι → ℕ) (T : ℕ) (i : ι) : ℚ :=
  if 2 * total i > T then 0 else if 2 * total i = T then 1/2 else 1

theorem sfold_coef (i : ι) :
    sfold mirror total T x i = coef total T i * x i + coef total T i * x (mirror i) := by
  unfold sfold coef; split_ifs <;> ring

theorem coef_add {i : ι} (h : Loc mirror total T i) : coef total T i + coef total T (mirror i) = 1 := by
  have h1 := h.tot; have h2 := h.le
  unfold coef
  split_ifs <;> first | (exfalso; omega) | norm_num

end pointwise


/-! ### Part B — the flat C-order instance (the only index arithmetic) -/

theorem mirrorFlat_lt {N k : ℕ} (h : k < N) : mirrorFlat N k < N := by unfold mirrorFlat; omega
theorem mirrorFlat_invol {N k : ℕ} (h : k < N) : mirrorFlat N (mirrorFlat N k) = k := by unfold mirrorFlat; omega

theorem prodL_pos_of_lt {shape : List ℕ} {k : ℕ} (h : k < prodL shape) : 0 < prodL shape := by omega

/-- digits of `N-1-k`: quotient and remainder by the stride `P` -/
theorem reflect_divmod (s P k : ℕ) (hP : 0 < P) (hk : k < s * P) :
    (s * P - 1 - k) / P = s - 1 - k / P ∧ (s * P - 1 - k) % P = P - 1 - k % P := by
  have hq : k / P < s := (Nat.div_lt_iff_lt_mul hP).mpr hk
  have hr : k % P < P := Nat.mod_lt _ hP
  have hk' : P * (k / P) + k % P = k := Nat.div_add_mod k P
  obtain ⟨e, he⟩ : ∃ e, s = k / P + 1 + e := ⟨s - 1 - k / P, by omega⟩
  rw [Nat.div_mod_unique hP]
  refine ⟨?_, by omega⟩
  have e1 : s - 1 - k / P = e := by omega
  rw [e1]
  have e2 : s * P = P * (k / P) + P + P * e := by rw [he]; ring
  omega

/-- reversing the flat array reverses every axis of the multi-index -/
theorem unflat_mirror : ∀ (shape : List ℕ) (k : ℕ), k < prodL shape →
    unflat shape (mirrorFlat (prodL shape) k) = mirrorIdx shape (unflat shape k)
  | [], _, _ => rfl
  | s :: ss, k, h => by
      have hP : 0 < prodL ss := by
        rcases Nat.eq_zero_or_pos (prodL ss) with h0 | h0
        · simp [prodL, h0] at h
        · exact h0
      have hk : k < s * prodL ss := h
      obtain ⟨k1, k2⟩ := reflect_divmod s (prodL ss) k hP hk
      have ih := unflat_mirror ss (k % prodL ss) (Nat.mod_lt _ hP)
      unfold mirrorFlat at ih ⊢
      simp only [unflat, prodL, mirrorIdx]
      rw [k1, k2, ih]

/-- every component of `unflat shape k` is in range -/
theorem unflat_lt : ∀ (shape : List ℕ) (k : ℕ), k < prodL shape →
    List.Forall₂ (fun i s => i < s) (unflat shape k) shape
  | [], _, _ => List.Forall₂.nil
  | s :: ss, k, h => by
      have hP : 0 < prodL ss := by
        rcases Nat.eq_zero_or_pos (prodL ss) with h0 | h0
        · simp [prodL, h0] at h
        · exact h0
      have hk : k < s * prodL ss := h
      simp only [unflat]
      exact List.Forall₂.cons ((Nat.div_lt_iff_lt_mul hP).mpr hk) (unflat_lt ss _ (Nat.mod_lt _ hP))

theorem totalSamples_cons (s : ℕ) (ss : List ℕ) : totalSamples (s :: ss) = (s - 1) + totalSamples ss := by
  simp [totalSamples]

theorem sum_mirrorIdx {idx shape : List ℕ} (h : List.Forall₂ (fun i s => i < s) idx shape) :
    (mirrorIdx shape idx).sum + idx.sum = totalSamples shape := by
  induction h with
  | nil => simp [mirrorIdx, totalSamples]
  | cons hlt _ ih =>
    simp only [mirrorIdx, List.sum_cons, totalSamples_cons]
    omega

/-- total of the mirror entry + total of the entry = total sample size -/
theorem totalFlat_mirror {shape : List ℕ} {k : ℕ} (h : k < prodL shape) :
    totalFlat shape (mirrorFlat (prodL shape) k) + totalFlat shape k = totalSamples shape := by
  unfold totalFlat
  rw [unflat_mirror shape k h]
  exact sum_mirrorIdx (unflat_lt shape k h)

/-- the flat instance satisfies the local hypotheses of Part A at every index in range -/
theorem loc_flat {shape : List ℕ} {k : ℕ} (h : k < prodL shape) :
    Loc (mirrorFlat (prodL shape)) (totalFlat shape) (totalSamples shape) k where
  invol := mirrorFlat_invol h
  tot := by have := totalFlat_mirror h; omega
  le := by have := totalFlat_mirror h; omega

/-! ### arrays built by `tabulate` -/
theorem tabulate_size {α : Type} (N : ℕ) (f : ℕ → α) : (tabulate N f).size = N := by
  simp [tabulate]

theorem tabulate_getD {α : Type} (N : ℕ) (f : ℕ → α) (d : α) {k : ℕ} (h : k < N) :
    (tabulate N f).getD k d = f k := by
  simp [tabulate, Array.getD, h]

theorem tabulate_congr {α : Type} (N : ℕ) (f g : ℕ → α) (h : ∀ k < N, f k = g k) :
    tabulate N f = tabulate N g := by
  unfold tabulate
  congr 1
  funext k
  exact h k.val k.isLt

/-! ### Part C — sums over `range N` with the reflection `k ↦ N-1-k` -/

theorem foldl_add_eq_sum (f : ℕ → ℚ) (n : ℕ) :
    (List.range n).foldl (fun acc k => acc + f k) 0 = ∑ k ∈ range n, f k := by
  induction n with
  | zero => simp
  | succ n ih => rw [List.range_succ, List.foldl_append, ih, Finset.sum_range_succ]; simp

theorem sum_reflect (f : ℕ → ℚ) (N : ℕ) : ∑ k ∈ range N, f (mirrorFlat N k) = ∑ k ∈ range N, f k := by
  unfold mirrorFlat
  exact Finset.sum_range_reflect f N

/-- folding conserves the total over `range N` -/
theorem sfold_total (N : ℕ) (total : ℕ → ℕ) (T : ℕ) (x : ℕ → ℚ)
    (h : ∀ k < N, Loc (mirrorFlat N) total T k) :
    ∑ k ∈ range N, sfold (mirrorFlat N) total T x k = ∑ k ∈ range N, x k := by
  simp only [sfold_coef, Finset.sum_add_distrib]
  have e : ∑ k ∈ range N, coef total T k * x (mirrorFlat N k)
      = ∑ k ∈ range N, coef total T (mirrorFlat N k) * x k := by
    rw [← sum_reflect (fun k => coef total T (mirrorFlat N k) * x k) N]
    refine Finset.sum_congr rfl (fun k hk => ?_)
    rw [(h k (mem_range.mp hk)).invol]
  rw [e, ← Finset.sum_add_distrib]
  refine Finset.sum_congr rfl (fun k hk => ?_)
  rw [← add_mul, coef_add (h k (mem_range.mp hk)), one_mul]



/-! ### the program hypotheses (proved in Props/C09.lean from the generated definitions) -/

/-- the translated data program of `Spectrum.fold` computes the closed form -/
def FoldDataOK : Prop :=
  ∀ {ι : Type} (mirror : ι → ι) (total : ι → ℕ) (T : ℕ) (x : ι → ℚ) (m : ι → Bool) (i : ι), Loc mirror total T i →
    fold_outData mirror total T x m i = sfold mirror total T x i

/-- the translated mask program of `Spectrum.fold` (before corner masking) -/
def FoldMaskOK : Prop :=
  ∀ {ι : Type} (mirror : ι → ι) (total : ι → ℕ) (T : ℕ) (x : ι → ℚ) (m : ι → Bool) (i : ι), Loc mirror total T i →
    fold_outMask mirror total T x m i = (m i || m (mirror i) || fo total T i)

def UnfoldDataOK : Prop :=
  ∀ {ι : Type} (mirror : ι → ι) (total : ι → ℕ) (T : ℕ) (x : ι → ℚ) (m : ι → Bool) (i : ι), Loc mirror total T i →
    unfold_outData mirror total T x m i = (x i + x (mirror i)) / 2

def UnfoldMaskOK : Prop :=
  ∀ {ι : Type} (mirror : ι → ι) (total : ι → ℕ) (T : ℕ) (x : ι → ℚ) (m : ι → Bool) (i : ι), Loc mirror total T i →
    unfold_outMask mirror total T x m i = ((m i ^^ fo total T i) || (m (mirror i) ^^ fo total T (mirror i)))

/-- `fold` / `unfold` leave the data and the mask of the spectrum they are called on as they are -/
def SelfAfterOK : Prop :=
  ∀ {ι : Type} (mirror : ι → ι) (total : ι → ℕ) (T : ℕ) (x : ι → ℚ) (m : ι → Bool) (i : ι),
    fold_selfDataAfter mirror total T x m i = x i ∧ fold_selfMaskAfter mirror total T x m i = m i
    ∧ unfold_selfDataAfter mirror total T x m i = x i ∧ unfold_selfMaskAfter mirror total T x m i = m i

/-! ### Part D — the executable model in closed form -/

theorem sfold_indicator {ι : Type} {mirror : ι → ι} {total : ι → ℕ} {T : ℕ} (x : ι → ℚ) (u : ι → Bool) {i : ι}
    (hu : u (mirror i) = u i) :
    sfold mirror total T (fun j => if u j then x j else 0) i = if u i then sfold mirror total T x i else 0 := by
  unfold sfold
  simp only [hu]
  split_ifs <;> simp

theorem sfold_congr {ι : Type} {mirror : ι → ι} {total : ι → ℕ} {T : ℕ} {x y : ι → ℚ} {i : ι}
    (h1 : x i = y i) (h2 : x (mirror i) = y (mirror i)) :
    sfold mirror total T x i = sfold mirror total T y i := by
  unfold sfold; rw [h1, h2]

theorem cornerFlat_mirror {N k : ℕ} (h : k < N) : cornerFlat N (mirrorFlat N k) = cornerFlat N k := by
  unfold cornerFlat mirrorFlat
  rw [Bool.eq_iff_iff]
  simp only [Bool.or_eq_true, beq_iff_eq]
  omega

theorem spec_eq_of {A B : Spec} (hs : A.shape = B.shape) (hd : A.data = B.data) (hm : A.mask = B.mask)
    (hf : A.folded = B.folded) (hp : A.popIds = B.popIds) : A = B := by
  cases A; cases B; simp_all

/-- abbreviations for statements: mirror index, per-entry total, total sample size of a spectrum -/
abbrev Spec.mir (S : Spec) (k : ℕ) : ℕ := mirrorFlat S.N k
abbrev Spec.tot (S : Spec) (k : ℕ) : ℕ := totalFlat S.shape k
abbrev Spec.T (S : Spec) : ℕ := totalSamples S.shape

theorem Spec.loc (S : Spec) {k : ℕ} (h : k < S.N) : Loc (mirrorFlat S.N) (totalFlat S.shape) (totalSamples S.shape) k :=
  loc_flat h

theorem sumData_eq (S : Spec) : sumData S = ∑ k ∈ range S.N, S.x k := foldl_add_eq_sum _ _
theorem sumUnmasked_eq (S : Spec) : sumUnmasked S = ∑ k ∈ range S.N, (if S.m k then 0 else S.x k) :=
  foldl_add_eq_sum _ _

theorem x_of_data {A : Spec} {N : ℕ} {f : ℕ → ℚ} (hd : A.data = tabulate N f) {k : ℕ} (h : k < N) : A.x k = f k := by
  unfold Spec.x; rw [hd, tabulate_getD _ _ _ h]
theorem m_of_mask {A : Spec} {N : ℕ} {f : ℕ → Bool} (hd : A.mask = tabulate N f) {k : ℕ} (h : k < N) : A.m k = f k := by
  unfold Spec.m; rw [hd, tabulate_getD _ _ _ h]

/-- a spectrum is determined by its entries once the array sizes are those of the shape -/
theorem spec_ext {A B : Spec} (hs : A.shape = B.shape) (hAd : A.data.size = B.N) (hAm : A.mask.size = B.N)
    (hBd : B.data.size = B.N) (hBm : B.mask.size = B.N) (hx : ∀ k < B.N, A.x k = B.x k ∧ A.m k = B.m k)
    (hf : A.folded = B.folded) (hp : A.popIds = B.popIds) : A = B := by
  apply spec_eq_of hs ?_ ?_ hf hp
  · apply Array.ext (by rw [hAd, hBd])
    intro k h1 h2
    have hkN : k < B.N := by rw [← hAd]; exact h1
    have := (hx k hkN).1
    simpa [Spec.x, Array.getD, h1, h2] using this
  · apply Array.ext (by rw [hAm, hBm])
    intro k h1 h2
    have hkN : k < B.N := by rw [← hAm]; exact h1
    have := (hx k hkN).2
    simpa [Spec.m, Array.getD, h1, h2] using this

section outs
variable (S : Spec)

theorem foldOut_N : (foldOut S).N = S.N := rfl
theorem foldOut_data : (foldOut S).data
    = tabulate S.N fun k => fold_outData (mirrorFlat S.N) (totalFlat S.shape) (totalSamples S.shape) S.x S.m k := rfl
theorem foldOut_mask : (foldOut S).mask
    = tabulate S.N fun k => fold_outMask (mirrorFlat S.N) (totalFlat S.shape) (totalSamples S.shape) S.x S.m k
        || (fold_maskCorners && cornerFlat S.N k) := rfl
theorem foldOut_shape : (foldOut S).shape = S.shape := rfl
theorem unfoldOut_N : (unfoldOut S).N = S.N := rfl
theorem unfoldOut_shape : (unfoldOut S).shape = S.shape := rfl

theorem foldOut_x_of (hD : FoldDataOK) {k : ℕ} (h : k < S.N) :
    (foldOut S).x k = sfold (mirrorFlat S.N) (totalFlat S.shape) (totalSamples S.shape) S.x k := by
  show (tabulate S.N _).getD k _ = _
  rw [tabulate_getD _ _ _ h]
  exact hD _ _ _ S.x S.m k (S.loc h)

theorem foldOut_m_of (hM : FoldMaskOK) (hc : fold_maskCorners = true) {k : ℕ} (h : k < S.N) :
    (foldOut S).m k = (S.m k || S.m (mirrorFlat S.N k) || fo (totalFlat S.shape) (totalSamples S.shape) k || cornerFlat S.N k) := by
  show (tabulate S.N _).getD k _ = _
  rw [tabulate_getD _ _ _ h, hM _ _ _ S.x S.m k (S.loc h), hc]
  simp

theorem unfoldOut_x_of (hD : UnfoldDataOK) {k : ℕ} (h : k < S.N) :
    (unfoldOut S).x k = (S.x k + S.x (mirrorFlat S.N k)) / 2 := by
  show (tabulate S.N _).getD k _ = _
  rw [tabulate_getD _ _ _ h, hD _ _ _ S.x S.m k (S.loc h)]

theorem unfoldOut_m_of (hM : UnfoldMaskOK) (hc : unfold_maskCorners = true) {k : ℕ} (h : k < S.N) :
    (unfoldOut S).m k = ((S.m k ^^ fo (totalFlat S.shape) (totalSamples S.shape) k)
      || (S.m (mirrorFlat S.N k) ^^ fo (totalFlat S.shape) (totalSamples S.shape) (mirrorFlat S.N k))
      || cornerFlat S.N k) := by
  show (tabulate S.N _).getD k _ = _
  rw [tabulate_getD _ _ _ h, hM _ _ _ S.x S.m k (S.loc h), hc]
  simp

theorem reverseSpec_N : (reverseSpec S).N = S.N := rfl
theorem reverseSpec_x {k : ℕ} (h : k < S.N) : (reverseSpec S).x k = S.x (mirrorFlat S.N k) := by
  show (tabulate S.N _).getD k _ = _
  rw [tabulate_getD _ _ _ h]
theorem reverseSpec_m {k : ℕ} (h : k < S.N) : (reverseSpec S).m k = S.m (mirrorFlat S.N k) := by
  show (tabulate S.N _).getD k _ = _
  rw [tabulate_getD _ _ _ h]

/-- `fold` raises `ValueError` exactly on folded spectra; `unfold` exactly on unfolded ones (the generated guards) -/
def GuardsOK : Prop :=
  (∀ b, fold_raises b = b) ∧ fold_raisesWhat = "ValueError" ∧ (∀ b, unfold_raises b = !b) ∧ unfold_raisesWhat = "ValueError"

theorem foldSpec_eq_of (hG : GuardsOK) : foldSpec S = if S.folded then .raise "ValueError" else .ok (foldOut S) := by
  unfold foldSpec; rw [hG.1, hG.2.1]
theorem unfoldSpec_eq_of (hG : GuardsOK) : unfoldSpec S = if S.folded then .ok (unfoldOut S) else .raise "ValueError" := by
  unfold unfoldSpec; rw [hG.2.2.1, hG.2.2.2]
  cases S.folded <;> rfl

end outs

/-! ### Part E — the two operator templates in closed form

`binopClosed` / `inplaceClosed` say what the templates of the unchanged source do; `BinaryProgramOK` / `InplaceProgramOK`
(proved in Props/C09.lean by running the interpreter `runT` on the generated statement lists) say that the model is that. -/

/-- the guards common to both templates, in source order: folding check, then the forwarded ndarray method -/
def guards (methods : List String) (name : String) (S : Spec) (o : Operand) : Option Res :=
  if !methods.contains name then some (.undefined "not-a-template-method")
  else if foldingRefused o.isSpectrum S.folded o.folded then some (.raise foldingRefusedWhat)
  else if ndarrayLacks.contains name then some (.raise "AttributeError")
  else if !o.fits S.N then some (.undefined "shape")
  else none

/-- the Spectrum a binary template constructs: data = the operation on the DATA arrays of both operands, entry by entry
    (entries under a mask included); mask = union of the masks (an ndarray or a scalar has none) -/
def binOut (M : Method) (S : Spec) (o : Operand) : Spec :=
  { shape := S.shape
    data := tabulate S.N fun k => (arith M (S.x k) (o.dataAt k)).getD 0
    mask := tabulate S.N fun k => S.m k || o.maskAt k
    folded := S.folded
    popIds := S.popIds.orElse fun _ => o.popIds }

def binopClosed (name : String) (S : Spec) (o : Operand) : Res :=
  match guards binaryMethods name S o with
  | some r => r
  | none =>
    match methodOf name with
    | none => .undefined "method"
    | some M => if !arithDefined M S o then .undefined "arith" else .ok (binOut M S o)

/-- `self` after an in-place template: data and mask updated, shape / folded / labels untouched -/
def inplaceOut (M : Method) (S : Spec) (o : Operand) : Spec :=
  { S with
    data := tabulate S.N fun k => (arith M (S.x k) (o.dataAt k)).getD 0
    mask := if o.isMasked then tabulate S.N fun k => S.m k || o.maskAt k else S.mask }

def inplaceClosed (name : String) (S : Spec) (o : Operand) : Res :=
  match guards inplaceMethods name S o with
  | some r => r
  | none =>
    match methodOf name with
    | none => .undefined "method"
    | some M => if !arithDefined M S o then .undefined "arith" else .ok (inplaceOut M S o)

/-- the binary templates, run statement by statement on the generated list, are `binopClosed` — for every method name,
    spectrum and operand (Spectrum, masked array, ndarray, scalar) -/
def BinaryProgramOK : Prop := ∀ (name : String) (S : Spec) (o : Operand), binop name S o = binopClosed name S o

/-- the in-place templates are `inplaceClosed`; and a call that raises leaves `self` as it was -/
def InplaceProgramOK : Prop :=
  ∀ (name : String) (S : Spec) (o : Operand), inplace name S o = inplaceClosed name S o
    ∧ (∀ w, inplaceClosed name S o = .raise w → inplaceSelfAfter name S o = some S)
    ∧ (∀ R, inplaceClosed name S o = .ok R → inplaceSelfAfter name S o = some R)

theorem tabulate_getD_or (N : ℕ) (f c : ℕ → Bool) :
    (tabulate N fun k => (tabulate N f).getD k false || c k) = tabulate N fun k => f k || c k := by
  apply tabulate_congr
  intro k hk
  rw [tabulate_getD N f false hk]

theorem arithDefined_spectrum_plain (M : Method) (S O : Spec) :
    arithDefined M S (.spectrum O) = arithDefined M S (.plain O.data) := rfl
theorem arithDefined_masked_plain (M : Method) (S : Spec) (d : Array ℚ) (mk : Array Bool) :
    arithDefined M S (.masked d mk) = arithDefined M S (.plain d) := rfl

/-- `run_template [h₁, …]`: execute the interpreter `runT` on a concrete statement list for a concrete kind of operand, using the
    case hypotheses `hᵢ` to decide the tests (pure rewriting with the defining equations of the interpreter) -/
macro "run_template" "[" ts:Lean.Parser.Tactic.simpLemma,* "]" : tactic =>
  `(tactic| simp only [$ts,*, runT, stepT, TCond.holds, Operand.isMasked, evalArg, Operand.dataOf, TState.init, evalMask, dataOp,
      inplaceRun, List.lookup, Operand.isSpectrum, Operand.folded, Operand.fits, Operand.popIds, Operand.maskAt, Operand.dataAt,
      Bool.not_true, Bool.not_false, if_true, if_false, Bool.false_eq_true, reduceCtorEq, beq_self_eq_true, String.reduceBEq,
      arithDefined_spectrum_plain, arithDefined_masked_plain])

theorem guards_not_ok {ms : List String} {name : String} {S : Spec} {o : Operand} {r : Res}
    (h : guards ms name S o = some r) (R : Spec) : r ≠ .ok R := by
  unfold guards at h
  split_ifs at h <;> (cases h; intro hR; cases hR)

theorem guards_none {ms : List String} {name : String} {S : Spec} {o : Operand}
    (h : guards ms name S o = none) :
    name ∈ ms ∧ foldingRefused o.isSpectrum S.folded o.folded = false ∧ name ∉ ndarrayLacks ∧ o.fits S.N = true := by
  unfold guards at h
  split_ifs at h with h1 h2 h3 h4
  simp_all

theorem arithDefined_iff {M : Method} {S : Spec} {o : Operand} :
    arithDefined M S o = true ↔ ∀ k < S.N, (arith M (S.x k) (o.dataAt k)).isSome = true := by
  unfold arithDefined
  simp [List.all_eq_true]

theorem binopClosed_ok {name : String} {S : Spec} {o : Operand} {R : Spec} (h : binopClosed name S o = .ok R) :
    ∃ M, methodOf name = some M ∧ guards binaryMethods name S o = none ∧ arithDefined M S o = true
      ∧ R = binOut M S o := by
  unfold binopClosed at h
  split at h
  · rename_i r hg; exact absurd h (guards_not_ok hg R)
  · rename_i hg
    split at h
    · cases h
    · rename_i M hM
      split_ifs at h with hd
      injection h with h
      exact ⟨M, hM, hg, by simpa using hd, h.symm⟩

theorem inplaceClosed_ok {name : String} {S : Spec} {o : Operand} {R : Spec} (h : inplaceClosed name S o = .ok R) :
    ∃ M, methodOf name = some M ∧ guards inplaceMethods name S o = none ∧ arithDefined M S o = true
      ∧ R = inplaceOut M S o := by
  unfold inplaceClosed at h
  split at h
  · rename_i r hg; exact absurd h (guards_not_ok hg R)
  · rename_i hg
    split at h
    · cases h
    · rename_i M hM
      split_ifs at h with hd
      injection h with h
      exact ⟨M, hM, hg, by simpa using hd, h.symm⟩

theorem binOut_x {M : Method} {S : Spec} {o : Operand} (hd : arithDefined M S o = true) {k : ℕ} (h : k < S.N) :
    arith M (S.x k) (o.dataAt k) = some ((binOut M S o).x k) := by
  have := (arithDefined_iff.mp hd) k h
  have e : (binOut M S o).x k = (arith M (S.x k) (o.dataAt k)).getD 0 := by
    show (tabulate S.N _).getD k _ = _
    rw [tabulate_getD _ _ _ h]
  obtain ⟨v, hv⟩ := Option.isSome_iff_exists.mp this
  rw [e, hv]; rfl

theorem binOut_m {M : Method} {S : Spec} {o : Operand} {k : ℕ} (h : k < S.N) :
    (binOut M S o).m k = (S.m k || o.maskAt k) := by
  show (tabulate S.N _).getD k _ = _
  rw [tabulate_getD _ _ _ h]

theorem inplaceOut_x {M : Method} {S : Spec} {o : Operand} (hd : arithDefined M S o = true) {k : ℕ} (h : k < S.N) :
    arith M (S.x k) (o.dataAt k) = some ((inplaceOut M S o).x k) := by
  have := (arithDefined_iff.mp hd) k h
  have e : (inplaceOut M S o).x k = (arith M (S.x k) (o.dataAt k)).getD 0 := by
    show (tabulate S.N _).getD k _ = _
    rw [tabulate_getD _ _ _ h]
  obtain ⟨v, hv⟩ := Option.isSome_iff_exists.mp this
  rw [e, hv]; rfl

theorem inplaceOut_m {M : Method} {S : Spec} {o : Operand} {k : ℕ} (h : k < S.N) :
    (inplaceOut M S o).m k = (S.m k || o.maskAt k) := by
  cases o with
  | spectrum O =>
    have e : (inplaceOut M S (.spectrum O)).mask = tabulate S.N fun k => S.m k || (Operand.spectrum O).maskAt k := by
      simp [inplaceOut, Operand.isMasked]
    exact m_of_mask e h
  | masked d mk =>
    have e : (inplaceOut M S (.masked d mk)).mask = tabulate S.N fun k => S.m k || (Operand.masked d mk).maskAt k := by
      simp [inplaceOut, Operand.isMasked]
    exact m_of_mask e h
  | plain d => simp [inplaceOut, Operand.isMasked, Operand.maskAt, Spec.m]
  | scalar c => simp [inplaceOut, Operand.isMasked, Operand.maskAt, Spec.m]

theorem binopClosed_eq_ok {name : String} {S : Spec} {o : Operand} {M : Method} (h1 : name ∈ binaryMethods)
    (h2 : foldingRefused o.isSpectrum S.folded o.folded = false) (h3 : name ∉ ndarrayLacks)
    (h4 : o.fits S.N = true) (h5 : methodOf name = some M) (h6 : arithDefined M S o = true) :
    binopClosed name S o = .ok (binOut M S o) := by
  unfold binopClosed guards
  simp [h1, h2, h3, h4, h5, h6]

theorem inplaceClosed_eq_ok {name : String} {S : Spec} {o : Operand} {M : Method} (h1 : name ∈ inplaceMethods)
    (h2 : foldingRefused o.isSpectrum S.folded o.folded = false) (h3 : name ∉ ndarrayLacks)
    (h4 : o.fits S.N = true) (h5 : methodOf name = some M) (h6 : arithDefined M S o = true) :
    inplaceClosed name S o = .ok (inplaceOut M S o) := by
  unfold inplaceClosed guards
  simp [h1, h2, h3, h4, h5, h6]

/-- sums, differences and products are always exact -/
theorem arithDefined_ring (M : Method) (A : Spec) (o : Operand) (hM : M.op = .add ∨ M.op = .sub ∨ M.op = .mul) :
    arithDefined M A o = true := by
  rw [arithDefined_iff]
  intro k _
  rcases hM with h | h | h <;> simp [arith, h]

/-! ### Part F — ancestral misidentification in closed form -/

/-- `c₁·fs + c₂·reverse_array(fs)` evaluated with the binary templates of the unchanged source -/
def misidGen (S : Spec) (c1 c2 : ℚ) : Spec :=
  { shape := S.shape
    data := tabulate S.N fun k => c1 * S.x k + c2 * S.x (mirrorFlat S.N k)
    mask := tabulate S.N fun k => S.m k || S.m (mirrorFlat S.N k)
    folded := S.folded
    popIds := S.popIds }

/-- the convex mix `(1−p)·x + p·mirror x`, mask `m ∨ mirror m` -/
def misidOut (S : Spec) (p : ℚ) : Spec := misidGen S (1 - p) p

theorem misidGen_N (S : Spec) (c1 c2 : ℚ) : (misidGen S c1 c2).N = S.N := rfl
theorem misidGen_x (S : Spec) (c1 c2 : ℚ) {k : ℕ} (h : k < S.N) :
    (misidGen S c1 c2).x k = c1 * S.x k + c2 * S.x (mirrorFlat S.N k) := by
  show (tabulate S.N _).getD k _ = _
  rw [tabulate_getD _ _ _ h]
theorem misidGen_m (S : Spec) (c1 c2 : ℚ) {k : ℕ} (h : k < S.N) :
    (misidGen S c1 c2).m k = (S.m k || S.m (mirrorFlat S.N k)) := by
  show (tabulate S.N _).getD k _ = _
  rw [tabulate_getD _ _ _ h]

theorem misidOut_N (S : Spec) (p : ℚ) : (misidOut S p).N = S.N := rfl
theorem misidOut_x (S : Spec) (p : ℚ) {k : ℕ} (h : k < S.N) :
    (misidOut S p).x k = (1 - p) * S.x k + p * S.x (mirrorFlat S.N k) := misidGen_x S _ _ h
theorem misidOut_m (S : Spec) (p : ℚ) {k : ℕ} (h : k < S.N) :
    (misidOut S p).m k = (S.m k || S.m (mirrorFlat S.N k)) := misidGen_m S _ _ h

theorem binOut_data (M : Method) (S : Spec) (o : Operand) :
    (binOut M S o).data = tabulate S.N fun k => (arith M (S.x k) (o.dataAt k)).getD 0 := rfl
theorem binOut_mask (M : Method) (S : Spec) (o : Operand) :
    (binOut M S o).mask = tabulate S.N fun k => S.m k || o.maskAt k := rfl
theorem misidGen_data (S : Spec) (c1 c2 : ℚ) :
    (misidGen S c1 c2).data = tabulate S.N fun k => c1 * S.x k + c2 * S.x (mirrorFlat S.N k) := rfl
theorem misidGen_mask (S : Spec) (c1 c2 : ℚ) :
    (misidGen S c1 c2).mask = tabulate S.N fun k => S.m k || S.m (mirrorFlat S.N k) := rfl

/-- `(c₁ * fs) + (c₂ * reverse_array(fs))` with the closed forms of `__rmul__` and `__add__` -/
theorem binOut_misid (S : Spec) (c1 c2 : ℚ) :
    binOut ⟨.add, false⟩ (binOut ⟨.mul, true⟩ S (.scalar c1)) (.spectrum (binOut ⟨.mul, true⟩ (reverseSpec S) (.scalar c2)))
      = misidGen S c1 c2 := by
  have hd : ∀ (M : Method) (A : Spec) (o : Operand), (M.op = .add ∨ M.op = .mul) → arithDefined M A o = true :=
    fun M A o h => arithDefined_ring M A o (by rcases h with h | h <;> simp [h])
  have hAN : (binOut ⟨.mul, true⟩ S (.scalar c1)).N = S.N := rfl
  have hAx : ∀ k < S.N, (binOut ⟨.mul, true⟩ S (.scalar c1)).x k = c1 * S.x k := by
    intro k hk
    have := binOut_x (hd ⟨.mul, true⟩ S (.scalar c1) (Or.inr rfl)) hk
    simp [arith, Operand.dataAt] at this
    exact this.symm
  have hBx : ∀ k < S.N, (binOut ⟨.mul, true⟩ (reverseSpec S) (.scalar c2)).x k = c2 * S.x (mirrorFlat S.N k) := by
    intro k hk
    have := binOut_x (hd ⟨.mul, true⟩ (reverseSpec S) (.scalar c2) (Or.inr rfl)) (k := k) hk
    simp [arith, Operand.dataAt] at this
    rw [reverseSpec_x S hk] at this
    exact this.symm
  have hAm : ∀ k < S.N, (binOut ⟨.mul, true⟩ S (.scalar c1)).m k = S.m k := by
    intro k hk; rw [binOut_m (M := ⟨.mul, true⟩) (S := S) hk]; simp [Operand.maskAt]
  have hBm : ∀ k < S.N, (binOut ⟨.mul, true⟩ (reverseSpec S) (.scalar c2)).m k = S.m (mirrorFlat S.N k) := by
    intro k hk
    rw [binOut_m (M := ⟨.mul, true⟩) (S := reverseSpec S) (k := k) hk, reverseSpec_m S hk]; simp [Operand.maskAt]
  refine spec_eq_of rfl ?_ ?_ rfl ?_
  · rw [binOut_data, misidGen_data, hAN]
    apply tabulate_congr
    intro k hk
    simp [arith, Operand.dataAt, hAx k hk, hBx k hk]
  · rw [binOut_mask, misidGen_mask, hAN]
    apply tabulate_congr
    intro k hk
    simp [Operand.maskAt, hAm k hk, hBm k hk]
  · simp only [binOut, Operand.popIds, reverseSpec, misidGen]
    cases S.popIds <;> simp

/-- misidentification twice = misidentification once, with `p + q − 2pq` (an entry is wrong iff exactly one of the two flips hit it) -/
theorem misidOut_comp (S : Spec) (p q : ℚ) : misidOut (misidOut S p) q = misidOut S (p + q - 2 * p * q) := by
  refine spec_eq_of rfl ?_ ?_ rfl rfl
  · unfold misidOut
    rw [misidGen_data, misidGen_data, misidGen_N]
    apply tabulate_congr
    intro k hk
    have hk2 := mirrorFlat_lt hk
    rw [misidGen_x S _ _ hk, misidGen_x S _ _ hk2, mirrorFlat_invol hk]
    ring
  · unfold misidOut
    rw [misidGen_mask, misidGen_mask, misidGen_N]
    apply tabulate_congr
    intro k hk
    have hk2 := mirrorFlat_lt hk
    rw [misidGen_m S _ _ hk, misidGen_m S _ _ hk2, mirrorFlat_invol hk]
    cases S.m k <;> cases S.m (mirrorFlat S.N k) <;> rfl

/-- misidentifying the mirror image with `p` = misidentifying the spectrum with `1 − p` -/
theorem misidOut_reverse (S : Spec) (p : ℚ) : misidOut (reverseSpec S) p = misidOut S (1 - p) := by
  refine spec_eq_of rfl ?_ ?_ rfl rfl
  · unfold misidOut
    rw [misidGen_data, misidGen_data, reverseSpec_N]
    apply tabulate_congr
    intro k hk
    have hk2 := mirrorFlat_lt hk
    rw [reverseSpec_x S hk, reverseSpec_x S hk2, mirrorFlat_invol hk]
    ring
  · unfold misidOut
    rw [misidGen_mask, misidGen_mask, reverseSpec_N]
    apply tabulate_congr
    intro k hk
    have hk2 := mirrorFlat_lt hk
    rw [reverseSpec_m S hk, reverseSpec_m S hk2, mirrorFlat_invol hk]
    cases S.m k <;> cases S.m (mirrorFlat S.N k) <;> rfl

/-- the mask of the result is mirror-symmetric, whatever the mask of the input -/
theorem misidOut_m_sym (S : Spec) (p : ℚ) {k : ℕ} (h : k < S.N) :
    (misidOut S p).m (mirrorFlat S.N k) = (misidOut S p).m k := by
  rw [misidOut_m S p (mirrorFlat_lt h), misidOut_m S p h, mirrorFlat_invol h]
  cases S.m k <;> cases S.m (mirrorFlat S.N k) <;> rfl

/-- `p = 0` gives the spectrum back as a whole record exactly when its mask is mirror-symmetric -/
theorem misidOut_zero_iff (S : Spec) (hd : S.data.size = S.N) (hm : S.mask.size = S.N) :
    misidOut S 0 = S ↔ ∀ k < S.N, S.m (mirrorFlat S.N k) = S.m k := by
  constructor
  · intro h k hk
    have h1 : (misidOut S 0).m k = S.m k := by rw [h]
    have h2 : (misidOut S 0).m (mirrorFlat S.N k) = S.m (mirrorFlat S.N k) := by rw [h]
    rw [misidOut_m S 0 hk] at h1
    rw [misidOut_m S 0 (mirrorFlat_lt hk), mirrorFlat_invol hk] at h2
    revert h1 h2
    cases S.m k <;> cases S.m (mirrorFlat S.N k) <;> simp
  · intro h
    refine spec_ext (A := misidOut S 0) (B := S) rfl ?_ ?_ hd hm ?_ rfl rfl
    · exact tabulate_size _ _
    · exact tabulate_size _ _
    intro k hk
    rw [misidOut_x S 0 hk, misidOut_m S 0 hk, h k hk]
    constructor
    · ring
    · cases S.m k <;> rfl

end Fold
end DadiVerif
