import DadiVerif.Model.Integrate
import DadiVerif.Lemmas.Step
/-! Helper lemmas for M5/M6: linearity and re-scaling of one line step; driver inductions. -/
namespace DadiVerif
open Gen

namespace Line

/-- rows of a linear combination of right-hand sides -/
theorem rows_comb (L : Line) (s t : ℚ) (φ1 φ2 : ℕ → ℚ) :
    L.rows (fun j => s * φ1 j + t * φ2 j)
      = ((L.rows φ1).zip ((List.range L.N).map fun j => φ2 j / L.dt)).map (Row.comb s t) := by
  unfold rows
  apply List.ext_getElem
  · simp
  · intro n h1 h2
    simp [Row.comb]
    ring

theorem rows_fst (L : Line) (φ1 φ2 : ℕ → ℚ) :
    ((L.rows φ1).zip ((List.range L.N).map fun j => φ2 j / L.dt)).map Prod.fst = L.rows φ1 := by
  apply List.ext_getElem
  · simp [rows]
  · intro n h1 h2; simp

theorem rows_withR (L : Line) (φ1 φ2 : ℕ → ℚ) :
    ((L.rows φ1).zip ((List.range L.N).map fun j => φ2 j / L.dt)).map Row.withR = L.rows φ2 := by
  apply List.ext_getElem
  · simp [rows]
  · intro n h1 h2; simp [rows, Row.withR]

/-- C03 (line level): the implicit step is linear in the density -/
theorem step_linear (L : Line) (s t : ℚ) (φ1 φ2 : ℕ → ℚ) :
    L.step (fun j => s * φ1 j + t * φ2 j)
      = List.zipWith (fun x y => s * x + t * y) (L.step φ1) (L.step φ2) := by
  unfold step thomas
  rw [rows_comb]
  have h := solveAux_linear s t ((L.rows φ1).zip ((List.range L.N).map fun j => φ2 j / L.dt)) 1 0 0 0
  simp only [mul_zero, add_zero] at h
  rw [h, rows_fst, rows_withR]

/-- re-scaled line: all flux coefficients and absorbing terms divided by k, time step multiplied by k -/
def rescale (L : Line) (k : ℚ) : Line :=
  { N := L.N, x := L.x, At := fun i => L.At i / k, Ct := fun i => L.Ct i / k, bc := fun j => L.bc j / k, dt := k * L.dt }

theorem rescale_a (L : Line) (k : ℚ) (j : ℕ) : (L.rescale k).a j = 1 / k * L.a j := by
  show (if j = 0 then 0 else - L.df j * (L.At j / k)) = 1 / k * (if j = 0 then 0 else - L.df j * L.At j)
  split_ifs <;> ring
theorem rescale_c (L : Line) (k : ℚ) (j : ℕ) : (L.rescale k).c j = 1 / k * L.c j := by
  show (if j + 1 < L.N then - L.df j * (L.Ct (j+1) / k) else 0) = 1 / k * (if j + 1 < L.N then - L.df j * L.Ct (j+1) else 0)
  split_ifs <;> ring
theorem rescale_b (L : Line) (k : ℚ) (j : ℕ) : (L.rescale k).b j = 1 / k * L.b j := by
  show 1 / (k * L.dt) + (if j + 1 < L.N then L.df j * (L.At (j+1) / k) else 0)
        + (if j = 0 then 0 else L.df j * (L.Ct j / k)) + L.bc j / k
      = 1 / k * (1 / L.dt + (if j + 1 < L.N then L.df j * L.At (j+1) else 0)
        + (if j = 0 then 0 else L.df j * L.Ct j) + L.bc j)
  have e : 1 / (k * L.dt) = 1 / k * (1 / L.dt) := by rw [one_div_mul_one_div]
  rw [e]
  split_ifs <;> ring

theorem rows_rescale (L : Line) (k : ℚ) (φ : ℕ → ℚ) :
    (L.rescale k).rows φ = (L.rows φ).map (Row.scale (1 / k)) := by
  unfold rows
  simp only [List.map_map]
  apply List.map_congr_left
  intro j _
  simp only [Function.comp, Row.scale, rescale_a, rescale_b, rescale_c]
  congr 1
  show φ j / (k * L.dt) = 1 / k * (φ j / L.dt)
  field_simp

/-- C03 (line level): dividing V, M and the absorbing terms by k while multiplying dt by k leaves the step unchanged -/
theorem step_rescale (L : Line) (k : ℚ) (hk : k ≠ 0) (φ : ℕ → ℚ) : (L.rescale k).step φ = L.step φ := by
  unfold step
  rw [rows_rescale L k, thomas_scale (1 / k) (by simp [hk])]

end Line

/-- C02: a constant passed as a function of time gives the constant-parameter driver, for any step function,
    any number of steps -/
theorem integrateFn_const {σ : Type} (step : StepParams → ℚ → σ → σ) (tf : ℚ) (P : StepParams) (T : ℚ) :
    ∀ (fuel : ℕ) (t : ℚ) (φ : σ),
      integrateFn step tf (fun _ => P) T fuel t P φ = integrateConst step tf P T fuel t φ := by
  intro fuel
  induction fuel with
  | zero => intros; rfl
  | succ n ih =>
    intro t φ
    simp only [integrateFn, integrateConst]
    split
    · exact ih _ _
    · rfl


/-! ### the advection function of `axisLine` is the canonical `Mgen`, whatever the dimension -/
theorem Mkernel_getD (x : ℚ) (ms ys : List ℚ) (g h : ℚ) :
    (Mkernel x ms ys g h).getD (Mgen x ms ys g h) = Mgen x ms ys g h := by
  cases hk : Mkernel x ms ys g h with
  | none => rfl
  | some r => simp [Mkernel_eq_Mgen x ms ys g h r hk]

theorem sumL_zipWith_scale (k x : ℚ) (ms ys : List ℚ) :
    sumL (List.zipWith (fun m y => m * (y - x)) (ms.map (· / k)) ys)
      = sumL (List.zipWith (fun m y => m * (y - x)) ms ys) / k := by
  induction ms generalizing ys with
  | nil => simp
  | cons m ms ih =>
    cases ys with
    | nil => simp
    | cons y ys => simp only [List.map_cons, List.zipWith_cons_cons, sumL_cons, ih]; ring

theorem Mgen_scale (k x : ℚ) (ms ys : List ℚ) (g h : ℚ) :
    Mgen x (ms.map (· / k)) ys (g / k) h = Mgen x ms ys g h / k := by
  unfold Mgen; rw [sumL_zipWith_scale]; ring

/-- parameters re-expressed relative to a reference size k times larger: ν→kν, m→m/k, γ→γ/k -/
def AxisParams.scaled (P : AxisParams) (k : ℚ) : AxisParams :=
  { nu := k * P.nu, gamma := P.gamma / k, h := P.h, ms := P.ms.map (· / k), beta := P.beta }

theorem V_scaled (P : AxisParams) (k u : ℚ) : (P.scaled k).V u = P.V u / k := by
  unfold AxisParams.V AxisParams.scaled
  cases P.beta with
  | none => simp only [C.Vfunc]; ring
  | some β => simp only [C.Vfunc_beta]; ring

theorem delj_wj_scaled (m d k : ℚ) : C.delj_wj (m / k) d = C.delj_wj m d / k := by
  simp only [C.delj_wj]; ring
theorem delj_guard_scaled (e w k : ℚ) (hk : k ≠ 0) : C.delj_guard e (w / k) = C.delj_guard e w := by
  simp only [C.delj_guard]
  congr 1
  by_cases hw : w = 0
  · simp [hw]
  · have : w / k ≠ 0 := div_ne_zero hw hk
    have a1 : (w / k != 0) = true := bne_iff_ne.mpr this
    have a2 : (w != 0) = true := bne_iff_ne.mpr hw
    rw [a1, a2]
theorem delj_quot_scaled (e w v k : ℚ) (hk : k ≠ 0) : C.delj_quot e (w / k) (v / k) = C.delj_quot e w v := by
  simp only [C.delj_quot]
  have e1 : (-e * (w / k) + e * (v / k) - v / k) = (-e * w + e * v - v) / k := by ring
  have e2 : (w / k - e * (w / k)) = (w - e * w) / k := by ring
  rw [e1, e2, div_div_div_cancel_right₀ hk]

theorem deljC_scaled (use : Bool) (eps : ℕ → ℚ) (MI VI dx : ℕ → ℚ) (k : ℚ) (hk : k ≠ 0) (i : ℕ) :
    deljC use eps (fun i => MI i / k) (fun i => VI i / k) dx i = deljC use eps MI VI dx i := by
  unfold deljC
  simp only [delj_wj_scaled, delj_guard_scaled _ _ _ hk, delj_quot_scaled _ _ _ _ hk]

/-- C03 (line level): the line built from re-scaled parameters and dt·k is the re-scaled line -/
theorem axisLine_scaled (xs : Array ℚ) (P : AxisParams) (ys : List ℚ) (use : Bool) (eps : ℕ → ℚ)
    (dt k : ℚ) (hk : 0 < k) :
    axisLine xs (P.scaled k) ys use eps (k * dt) = (axisLine xs P ys use eps dt).rescale k := by
  have hk0 : k ≠ 0 := ne_of_gt hk
  have hM : ∀ u, (Mkernel u (P.scaled k).ms ys (P.scaled k).gamma (P.scaled k).h).getD
      (Mgen u (P.scaled k).ms ys (P.scaled k).gamma (P.scaled k).h)
      = (Mkernel u P.ms ys P.gamma P.h).getD (Mgen u P.ms ys P.gamma P.h) / k := by
    intro u
    rw [Mkernel_getD, Mkernel_getD]
    exact Mgen_scale k u P.ms ys P.gamma P.h
  unfold axisLine mkLine Line.rescale
  simp only [hM, V_scaled]
  have hd := fun i => deljC_scaled use eps
    (fun i => (Mkernel (1 / 2 * (xs.getD (i + 1) 0 + xs.getD i 0)) P.ms ys P.gamma P.h).getD
      (Mgen (1 / 2 * (xs.getD (i + 1) 0 + xs.getD i 0)) P.ms ys P.gamma P.h))
    (fun i => P.V (1 / 2 * (xs.getD (i + 1) 0 + xs.getD i 0)))
    (fun i => xs.getD (i + 1) 0 - xs.getD i 0) k hk0 i
  simp only [hd]
  congr 1
  · funext i; simp only [C.atemp]; ring
  · funext i; simp only [C.ctemp]; ring
  · funext j
    have g1 : ∀ m : ℚ, (m / k ≤ 0) ↔ (m ≤ 0) := fun m => by
      rw [div_le_iff₀ hk]; simp
    have g2 : ∀ m : ℚ, (m / k ≥ 0) ↔ (m ≥ 0) := fun m => by
      show 0 ≤ m / k ↔ 0 ≤ m
      rw [le_div_iff₀ hk]; simp
    simp only [g1, g2, AxisParams.scaled, C.bcFirst, C.bcLast]
    split_ifs <;> field_simp <;> ring

end DadiVerif
