import DadiVerif.Lemmas.DemesProgCompute
/-! C16 (round 5) — the closed form `importCF` of the import under a change of the reference size of the GRAPH (sizes and times × c, rates / c,
    reference size × c): every call of the history is unchanged, every size argument has the same value at every fraction of its
    integration time. -/
namespace DadiVerif.DemesConv
open Gen.Demes

/-- the value of a size argument at the fraction `frac` of the integration time its closure captured -/
def evalEntry (ex lg : ℚ → ℚ) (pw : ℚ → ℚ → ℚ) (frac : ℚ) : NuEntry → ℚ
  | NuEntry.num v => v.eval ex lg pw
  | NuEntry.lam fn N0 NF Ne T => ((NuEntry.lam fn N0 NF Ne T).at (frac * T)).eval ex lg pw

/-- the history with every size argument evaluated -/
def Trace.ev (ex lg : ℚ → ℚ) (pw : ℚ → ℚ → ℚ) (frac : ℚ) (t : Trace NuEntry) : Trace ℚ := t.map (PCall.mapNu (evalEntry ex lg pw frac))

def scaleIv (c : ℚ) (iv : ETime × ETime) : ETime × ETime := (tscale c iv.1, tscale c iv.2)

/-- `discrete_demographic_events()` of the rescaled graph: the same events at the scaled times -/
def LibEvents.scale (c : ℚ) (l : LibEvents) : LibEvents :=
  { pulses := l.pulses.map fun p => { p with time := c * p.time }
    branches := l.branches.map fun p => { p with time := c * p.time }
    mergers := l.mergers.map fun p => { p with time := c * p.time }
    admixtures := l.admixtures.map fun p => { p with time := c * p.time }
    splits := l.splits.map fun p => { p with time := c * p.time } }

theorem toList_scale (c : ℚ) (l : LibEvents) : (l.scale c).toList = libScale c l.toList := by
  unfold LibEvents.toList LibEvents.scale libScale
  simp [List.map_append, List.map_map, Function.comp_def]

/-- the generated size formulas under a common scaling of sizes and reference size (proved in `Props/C16.lean` from their text) -/
structure ScaleFacts (ex lg : ℚ → ℚ) (pw : ℚ → ℚ → ℚ) : Prop where
  num : ∀ (a a' : Sym) (Ne c : ℚ), c ≠ 0 → a'.eval ex lg pw = c * a.eval ex lg pw → (nuConstList a' (c * Ne)).eval ex lg pw = (nuConstList a Ne).eval ex lg pw
  const : ∀ (a a' b b' : Sym) (Ne T t c : ℚ), c ≠ 0 → a'.eval ex lg pw = c * a.eval ex lg pw → b'.eval ex lg pw = c * b.eval ex lg pw →
    (nuConstFn a' b' (c * Ne) T t).eval ex lg pw = (nuConstFn a b Ne T t).eval ex lg pw
  lin : ∀ (a a' b b' : Sym) (Ne T t c : ℚ), c ≠ 0 → a'.eval ex lg pw = c * a.eval ex lg pw → b'.eval ex lg pw = c * b.eval ex lg pw →
    (nuLinear a' b' (c * Ne) T t).eval ex lg pw = (nuLinear a b Ne T t).eval ex lg pw
  expo : ∀ (a a' b b' : Sym) (Ne T t c : ℚ), c ≠ 0 → a'.eval ex lg pw = c * a.eval ex lg pw → b'.eval ex lg pw = c * b.eval ex lg pw →
    (nuExp a' b' (c * Ne) T t).eval ex lg pw = (nuExp a b Ne T t).eval ex lg pw

/-! ### `_sizes_at_time` on the rescaled graph -/

theorem demeOf_rescale (a b : ℚ) (g : Graph InEpoch) (n : DName) : (g.rescale a b).demeOf n = (g.demeOf n).map (GDeme.rescale a b) := by
  unfold Graph.demeOf
  rw [show (g.rescale a b).demes = g.demes.map (GDeme.rescale a b) from rfl, List.find?_map]
  rfl

theorem epochsOfName_rescale (c : ℚ) (g : Graph InEpoch) (n : DName) :
    (g.rescale c c).epochsOfName n = (g.epochsOfName n).map (Epoch.scale c) := by
  unfold Graph.epochsOfName
  rw [demeOf_rescale]
  cases g.demeOf n with
  | none => rfl
  | some d => exact epochsOf_rescale c d.start d.epochs

/-- sizes with their values -/
def evalS (ex lg : ℚ → ℚ) (pw : ℚ → ℚ → ℚ) (s : Sym × Sym × SizeFn) : ℚ × ℚ × SizeFn := (s.1.eval ex lg pw, s.2.1.eval ex lg pw, s.2.2)

theorem sizesAtTimeRef_rescale (ex lg : ℚ → ℚ) (pw : ℚ → ℚ → ℚ) {c : ℚ} (hc : 0 < c) (g : Graph InEpoch) (n : DName) (iv : ETime × ETime) :
    (sizesAtTimeRef (g.rescale c c) n (scaleIv c iv)).map (evalS ex lg pw)
      = (sizesAtTimeRef g n iv).map fun s => (c * (evalS ex lg pw s).1, c * (evalS ex lg pw s).2.1, s.2.2) := by
  unfold sizesAtTimeRef scaleIv
  dsimp only
  rw [epochsOfName_rescale, epochSearch_scale hc]
  cases epochSearch (g.epochsOfName n) iv.1 iv.2 with
  | none => rfl
  | some e =>
    simp only [Option.map_some]
    rw [show ∀ {α β : Type} (a : α) (f : α → Option β), (some a >>= f) = f a from fun _ _ => rfl]
    rw [show ∀ {α β : Type} (a : α) (f : α → Option β), (some a >>= f) = f a from fun _ _ => rfl]
    have h := epochSizes_scale ex lg pw (ne_of_gt hc) e iv.1 iv.2
    unfold epochSizes at h
    cases h1 : sizesAt (e.scale c).fn (e.scale c).ss (e.scale c).es (e.scale c).st (e.scale c).et (e.scale c).span (tscale c iv.1) (tscale c iv.2) <;>
      cases h2 : sizesAt e.fn e.ss e.es e.st e.et e.span iv.1 iv.2 <;> rw [h1, h2] at h <;> simp at h
    · rfl
    · simp only [evalPair, Prod.mk.injEq] at h
      simp only [bind, Option.bind, pure, Option.map_some, evalS, Option.some.injEq, Prod.mk.injEq]
      exact ⟨h.1, h.2, rfl⟩

/-! ### `_make_nu_func` and one row on the rescaled graph -/

/-- the sizes of the rescaled graph: the same size functions, values `c` times larger -/
def SizesRel (ex lg : ℚ → ℚ) (pw : ℚ → ℚ → ℚ) (c : ℚ) (s' s : Sym × Sym × SizeFn) : Prop :=
  s'.1.eval ex lg pw = c * s.1.eval ex lg pw ∧ s'.2.1.eval ex lg pw = c * s.2.1.eval ex lg pw ∧ s'.2.2 = s.2.2

theorem nuEntryOf_scale {ex lg : ℚ → ℚ} {pw : ℚ → ℚ → ℚ} (F : ScaleFacts ex lg pw) {c : ℚ} (hc : c ≠ 0) (T Ne frac : ℚ) (s' s : Sym × Sym × SizeFn)
    (h : SizesRel ex lg pw c s' s) :
    (nuEntryOf T (c * Ne) s').map (evalEntry ex lg pw frac) = (nuEntryOf T Ne s).map (evalEntry ex lg pw frac) := by
  obtain ⟨h1, h2, h3⟩ := h
  unfold nuEntryOf
  rw [h3]
  cases s.2.2 <;> simp only [Option.map_some, Option.map_none, evalEntry, NuEntry.at, F.const _ _ _ _ _ _ _ _ hc h1 h1, F.lin _ _ _ _ _ _ _ _ hc h1 h2,
    F.expo _ _ _ _ _ _ _ _ hc h1 h2]

theorem allConst_rel {ex lg : ℚ → ℚ} {pw : ℚ → ℚ → ℚ} {c : ℚ} {sizes' sizes : List (Sym × Sym × SizeFn)} (h : List.Forall₂ (SizesRel ex lg pw c) sizes' sizes) :
    (sizes'.all fun s => s.2.2 == SizeFn.constant) = (sizes.all fun s => s.2.2 == SizeFn.constant) := by
  induction h with
  | nil => rfl
  | cons hab _ ih => simp only [List.all_cons, ih, hab.2.2]

theorem numEntries_rel {ex lg : ℚ → ℚ} {pw : ℚ → ℚ → ℚ} (F : ScaleFacts ex lg pw) {c : ℚ} (hc : c ≠ 0) (Ne frac : ℚ)
    {sizes' sizes : List (Sym × Sym × SizeFn)} (h : List.Forall₂ (SizesRel ex lg pw c) sizes' sizes) :
    (sizes'.map fun s => evalEntry ex lg pw frac (NuEntry.num (nuConstList s.1 (c * Ne)))) = sizes.map fun s => evalEntry ex lg pw frac (NuEntry.num (nuConstList s.1 Ne)) := by
  induction h with
  | nil => rfl
  | cons hab _ ih =>
    simp only [List.map_cons, List.cons.injEq, evalEntry]
    exact ⟨F.num _ _ _ _ hc hab.1, by simpa [evalEntry] using ih⟩

theorem lamEntries_rel {ex lg : ℚ → ℚ} {pw : ℚ → ℚ → ℚ} (F : ScaleFacts ex lg pw) {c : ℚ} (hc : c ≠ 0) (T Ne frac : ℚ)
    {sizes' sizes : List (Sym × Sym × SizeFn)} (h : List.Forall₂ (SizesRel ex lg pw c) sizes' sizes) :
    (sizes'.mapM (nuEntryOf T (c * Ne))).map (List.map (evalEntry ex lg pw frac)) = (sizes.mapM (nuEntryOf T Ne)).map (List.map (evalEntry ex lg pw frac)) := by
  induction h with
  | nil => rfl
  | @cons a b l1 l2 hab _ ih =>
    rw [List.mapM_cons, List.mapM_cons]
    have h1 := nuEntryOf_scale F hc T Ne frac a b hab
    cases e1 : nuEntryOf T (c * Ne) a <;> cases e2 : nuEntryOf T Ne b <;> rw [e1, e2] at h1 <;> simp at h1
    · rfl
    · cases e3 : l1.mapM (nuEntryOf T (c * Ne)) <;> cases e4 : l2.mapM (nuEntryOf T Ne) <;> rw [e3, e4] at ih <;> simp at ih
      · rfl
      · simp [bind, Option.bind, pure, h1, ih]

theorem makeNuFuncCF_scale {ex lg : ℚ → ℚ} {pw : ℚ → ℚ → ℚ} (F : ScaleFacts ex lg pw) {c : ℚ} (hc : c ≠ 0) (T Ne frac : ℚ)
    (sizes' sizes : List (Sym × Sym × SizeFn)) (h : List.Forall₂ (SizesRel ex lg pw c) sizes' sizes) :
    (makeNuFuncCF sizes' T (c * Ne)).map (List.map (evalEntry ex lg pw frac)) = (makeNuFuncCF sizes T Ne).map (List.map (evalEntry ex lg pw frac)) := by
  unfold makeNuFuncCF
  rw [allConst_rel h]
  split_ifs
  · simp only [Option.map_some, List.map_map, Option.some.injEq]
    exact numEntries_rel F hc Ne frac h
  · exact lamEntries_rel F hc T Ne frac h

/-- a row with its size arguments evaluated -/
def rowEv (ex lg : ℚ → ℚ) (pw : ℚ → ℚ → ℚ) (frac : ℚ) (r : ParamRow) : ℚ × List Bool × List ℚ × List (List ℚ) :=
  (r.1, r.2.1, r.2.2.1.map (evalEntry ex lg pw frac), r.2.2.2)

theorem forall₂_sizes (ex lg : ℚ → ℚ) (pw : ℚ → ℚ → ℚ) {c : ℚ} (hc : 0 < c) (g : Graph InEpoch) (iv : ETime × ETime) (names : List DName) :
    ∀ (sz' sz : List (Sym × Sym × SizeFn)), names.mapM (fun d => sizesAtTimeRef (g.rescale c c) d (scaleIv c iv)) = some sz' →
      names.mapM (fun d => sizesAtTimeRef g d iv) = some sz → List.Forall₂ (SizesRel ex lg pw c) sz' sz := by
  induction names with
  | nil =>
    intro sz' sz h1 h2
    simp only [List.mapM_nil, pure, Option.some.injEq] at h1 h2
    subst h1; subst h2
    exact List.Forall₂.nil
  | cons n t ih =>
    intro sz' sz h1 h2
    rw [List.mapM_cons] at h1 h2
    have hr := sizesAtTimeRef_rescale ex lg pw hc g n iv
    cases e1 : sizesAtTimeRef (g.rescale c c) n (scaleIv c iv) <;> cases e2 : sizesAtTimeRef g n iv <;> rw [e1, e2] at hr <;> simp at hr
    · rw [e1] at h1; simp [bind, Option.bind] at h1
    · rw [e1] at h1; rw [e2] at h2
      cases e3 : t.mapM (fun d => sizesAtTimeRef (g.rescale c c) d (scaleIv c iv)) <;> rw [e3] at h1 <;> simp [bind, Option.bind, pure] at h1
      cases e4 : t.mapM (fun d => sizesAtTimeRef g d iv) <;> rw [e4] at h2 <;> simp [bind, Option.bind, pure] at h2
      subst h1; subst h2
      refine List.Forall₂.cons ?_ (ih _ _ e3 e4)
      simp only [evalS, Prod.mk.injEq] at hr
      exact ⟨hr.1, hr.2.1, hr.2.2⟩

theorem mapM_sizes_isSome (ex lg : ℚ → ℚ) (pw : ℚ → ℚ → ℚ) {c : ℚ} (hc : 0 < c) (g : Graph InEpoch) (iv : ETime × ETime) (names : List DName) :
    (names.mapM (fun d => sizesAtTimeRef (g.rescale c c) d (scaleIv c iv))).isSome = (names.mapM (fun d => sizesAtTimeRef g d iv)).isSome := by
  induction names with
  | nil => rfl
  | cons n t ih =>
    rw [List.mapM_cons, List.mapM_cons]
    have hr := sizesAtTimeRef_rescale ex lg pw hc g n iv
    cases e1 : sizesAtTimeRef (g.rescale c c) n (scaleIv c iv) <;> cases e2 : sizesAtTimeRef g n iv <;> rw [e1, e2] at hr <;> simp at hr
    · rfl
    · cases e3 : t.mapM (fun d => sizesAtTimeRef (g.rescale c c) d (scaleIv c iv)) <;> cases e4 : t.mapM (fun d => sizesAtTimeRef g d iv) <;>
        rw [e3, e4] at ih <;> simp at ih <;> rfl

/-- **one interval of the rescaled graph**: the same `T`, frozen flags, migration matrix, and the same value of every size argument -/
theorem paramRow_rescale {ex lg : ℚ → ℚ} {pw : ℚ → ℚ → ℚ} (F : ScaleFacts ex lg pw) {c : ℚ} (hc : 0 < c) (g : Graph InEpoch) (fz : List DName)
    (N frac : ℚ) (iv : ETime × ETime) (names : List DName) :
    (paramRow (g.rescale c c) fz (c * N) (scaleIv c iv, names)).map (rowEv ex lg pw frac)
      = (paramRow g fz N (iv, names)).map (rowEv ex lg pw frac) := by
  unfold paramRow
  dsimp only
  rw [show (scaleIv c iv).1 = tscale c iv.1 from rfl, show (scaleIv c iv).2 = tscale c iv.2 from rfl, intTime_scale (ne_of_gt hc),
    show (g.rescale c c).migs = g.migs.map (GMig.rescale c c) from rfl, migMatrix_rescale hc]
  have hs := mapM_sizes_isSome ex lg pw hc g iv names
  have hf := forall₂_sizes ex lg pw hc g iv names
  cases e1 : names.mapM (fun d => sizesAtTimeRef (g.rescale c c) d (scaleIv c iv)) <;> cases e2 : names.mapM (fun d => sizesAtTimeRef g d iv) <;>
    rw [e1, e2] at hs <;> simp at hs
  · rfl
  · rename_i sz' sz
    simp only [Option.bind_some]
    have hn := makeNuFuncCF_scale F (ne_of_gt hc) (intTime iv.1 iv.2 N) N frac sz' sz (hf sz' sz e1 e2)
    cases e3 : makeNuFuncCF sz' (intTime iv.1 iv.2 N) (c * N) <;> cases e4 : makeNuFuncCF sz (intTime iv.1 iv.2 N) N <;> rw [e3, e4] at hn <;> simp at hn
    all_goals first
      | rfl
      | (simp only [Option.bind_some, Option.map_some, rowEv, Option.some.injEq, Prod.mk.injEq, true_and, and_true]; exact hn)

/-! ### the loop of `_compute_sfs` does not look at the size arguments -/

def IntegParams.mapNu {ν μ : Type} (f : ν → μ) (p : IntegParams ν) : IntegParams μ :=
  { nu := p.nu.map f, T := p.T, M := p.M, gamma := p.gamma, h := p.h, theta := p.theta, frozen := p.frozen }

theorem mapM_map_comm {α β γ : Type} (g : α → Option β) (f : β → γ) (l : List α) : (l.mapM g).map (List.map f) = l.mapM fun x => (g x).map f := by
  induction l with
  | nil => rfl
  | cons a t ih =>
    rw [List.mapM_cons, List.mapM_cons, ← ih]
    cases g a <;> cases t.mapM g <;> rfl

theorem slotNu_mapNu {ν μ : Type} (f : ν → μ) (p : IntegParams ν) (s : Option Slot) : slotNu (p.mapNu f) s = (slotNu p s).map f := by
  unfold slotNu IntegParams.mapNu
  cases s with
  | none => rfl
  | some s => cases s <;> simp

theorem bindIntegrate_mapNu {ν μ : Type} (f : ν → μ) (c : IntegCall) (p : IntegParams ν) (ids : List DName) :
    bindIntegrate c (p.mapNu f) ids = (bindIntegrate c p ids).map (IntegRecv.mapNu f) := by
  unfold bindIntegrate
  dsimp only
  have h : ((List.range c.npop).mapM fun k => slotNu (p.mapNu f) (look c (Slot.nu k))) = ((List.range c.npop).mapM fun k => slotNu p (look c (Slot.nu k))).map (List.map f) := by
    rw [mapM_map_comm]
    apply mapM_congr_option
    intro k _
    exact slotNu_mapNu f p _
  rw [h]
  have e1 : slotFrozen (p.mapNu f) = slotFrozen p := rfl
  have e2 : slotGamma (p.mapNu f) = slotGamma p := rfl
  have e3 : slotH (p.mapNu f) = slotH p := rfl
  have e4 : slotM (p.mapNu f) = slotM p := rfl
  have e5 : (p.mapNu f).T = p.T := rfl
  have e6 : (p.mapNu f).theta = p.theta := rfl
  rw [e1, e2, e3, e4, e5, e6]
  generalize pyRaiseIf (!argsWired c) = A
  generalize ((List.range c.npop).mapM fun k => slotNu p (look c (Slot.nu k))) = B
  generalize ((List.range c.npop).mapM fun k => slotFrozen p (look c (Slot.frozen k))) = C
  generalize ((List.range c.npop).mapM fun k => slotGamma p (look c (Slot.gamma k))) = D
  generalize ((List.range c.npop).mapM fun k => slotH p (look c (Slot.h k))) = E
  generalize ((List.range c.npop).mapM fun i => (List.range c.npop).mapM fun j => if i == j then some (0 : ℚ) else slotM p (look c (Slot.M i j))) = G
  cases A <;> cases B <;> cases C <;> cases D <;> cases E <;> cases G <;> rfl

def mapTr {ν μ : Type} (f : ν → μ) (t : Trace ν) : Trace μ := t.map (PCall.mapNu f)

theorem integratePhiRef_mapNu {ν μ : Type} (f : ν → μ) (phi : Trace ν) (p : IntegParams ν) (ids : List DName) :
    integratePhiRef (mapTr f phi) (p.mapNu f) ids = (integratePhiRef phi p ids).map (mapTr f) := by
  unfold integratePhiRef
  cases integCalls.find? (fun c => c.npop == ids.length) with
  | none => rfl
  | some c =>
    simp only [bindIntegrate_mapNu, Option.map_map]
    cases bindIntegrate c p ids with
    | none => rfl
    | some r => simp [mapTr, PCall.mapNu]

theorem removeParents_mapNu {ν μ : Type} (f : ν → μ) (ps ids : List DName) :
    removeParents (ν := μ) ps ids = (removeParents (ν := ν) ps ids).map fun r => (r.1.map (PCall.mapNu f), r.2) := by
  induction ps generalizing ids with
  | nil => rfl
  | cons p t ih =>
    simp only [removeParents]
    cases pyIndex ids p with
    | none => rfl
    | some i =>
      simp only [Option.bind_some, ih (ids.eraseIdx i), Option.map_map]
      cases removeParents (ν := ν) t (ids.eraseIdx i) <;> simp [PCall.mapNu]

theorem applyEventSpec_mapNu {ν μ : Type} (f : ν → μ) (ids : List DName) (e : DEvt) :
    applyEventSpec (ν := μ) ids e = (applyEventSpec (ν := ν) ids e).map fun r => (r.1.map (PCall.mapNu f), r.2) := by
  cases e with
  | pulses so d pr => simp [applyEventSpec, PCall.mapNu]
  | branch p c => simp only [applyEventSpec]; cases pyIndex ids p <;> simp [PCall.mapNu]
  | merge ps pr c =>
    simp only [applyEventSpec, removeParents_mapNu f ps (ids ++ [c])]
    split_ifs
    · rfl
    · rfl
    · cases removeParents (ν := ν) ps (ids ++ [c]) <;> simp [PCall.mapNu]
  | admix ps pr c =>
    simp only [applyEventSpec]
    split_ifs <;> simp [PCall.mapNu]
  | split p cs =>
    simp only [applyEventSpec]
    cases pyIndex ids p with
    | none => rfl
    | some i =>
      match cs with
      | [] => rfl
      | [c] => simp
      | c0 :: c1 :: rest =>
        simp only [Option.bind_some]
        split_ifs <;> simp [PCall.mapNu]
  | marginalize d => simp only [applyEventSpec]; cases pyIndex ids d <;> simp [PCall.mapNu]

theorem foldlM_nat {σ τ α : Type} (g : σ → τ) (F : σ → α → Option σ) (F' : τ → α → Option τ) (h : ∀ s x, F' (g s) x = (F s x).map g)
    (l : List α) (s : σ) : l.foldlM F' (g s) = (l.foldlM F s).map g := by
  induction l generalizing s with
  | nil => rfl
  | cons a t ih =>
    rw [List.foldlM_cons, List.foldlM_cons, h]
    cases F s a with
    | none => rfl
    | some s' => exact ih s'

theorem stepEvents_mapNu {ν μ : Type} (f : ν → μ) (events : List DEvt) (st : Trace ν × List DName) :
    stepEvents events (mapTr f st.1, st.2) = (stepEvents events st).map fun r => (mapTr f r.1, r.2) := by
  induction events generalizing st with
  | nil => rfl
  | cons e t ih =>
    rw [stepEvents_cons, stepEvents_cons, applyEventSpec_mapNu f st.2 e]
    cases applyEventSpec (ν := ν) st.2 e with
    | none => rfl
    | some r =>
      simp only [Option.map_some, Option.bind_some]
      have := ih (st.1 ++ r.1, r.2)
      simp only [mapTr, List.map_append] at this ⊢
      exact this

def rowMap {ν μ : Type} (f : ν → μ) (p : ℚ × List ν × List (List ℚ) × List Bool × ETime × ETime) : ℚ × List μ × List (List ℚ) × List Bool × ETime × ETime :=
  (p.1, p.2.1.map f, p.2.2.1, p.2.2.2.1, p.2.2.2.2)

theorem stepIntegrate_mapNu {ν μ : Type} (f : ν → μ) (θ γ η : ℚ) (phi : Trace ν) (ids : List DName) (p : ℚ × List ν × List (List ℚ) × List Bool × ETime × ETime) :
    stepIntegrate θ γ η (mapTr f phi) ids (rowMap f p) = (stepIntegrate θ γ η phi ids p).map (mapTr f) := by
  rw [stepIntegrate_eq, stepIntegrate_eq]
  unfold rowMap
  dsimp only
  split_ifs
  · exact integratePhiRef_mapNu f phi { nu := p.2.1, T := p.1, M := p.2.2.1, gamma := List.map (fun _ => γ) p.2.2.2.1, h := List.map (fun _ => η) p.2.2.2.1, theta := θ, frozen := p.2.2.2.1 } ids
  · rfl

theorem stepReorder_mapNu {ν μ : Type} (f : ν → μ) (liveAt : ETime × ETime → List DName) (ivs : List (ETime × ETime)) (t : ETime) (r : Trace ν × List DName) :
    stepReorder liveAt ivs t (mapTr f r.1, r.2) = (stepReorder liveAt ivs t r).map fun x => (mapTr f x.1, x.2) := by
  rw [stepReorder_eq, stepReorder_eq]
  dsimp only
  split_ifs with h1
  · cases pyIndex (ivs.map fun x43 => x43.1) t with
    | none => rfl
    | some i =>
      simp only [Option.bind_some]
      cases ivs[i]? with
      | none => rfl
      | some iv =>
        simp only [Option.bind_some]
        split_ifs with h2
        · cases (liveAt iv).mapM fun x46 => (pyIndex r.2 x46).map (· + 1) with
          | none => rfl
          | some o => simp [mapTr, PCall.mapNu]
        · rfl
  · rfl

theorem cfStep_mapNu {ν μ : Type} (f : ν → μ) (evAt : ETime → List DEvt) (liveAt : ETime × ETime → List DName) (ivs : List (ETime × ETime)) (θ γ η : ℚ)
    (st : List DName × Trace ν) (p : ℚ × List ν × List (List ℚ) × List Bool × ETime × ETime) :
    cfStep evAt liveAt ivs θ γ η (st.1, mapTr f st.2) (rowMap f p) = (cfStep evAt liveAt ivs θ γ η st p).map fun r => (r.1, mapTr f r.2) := by
  rw [cfStep_eq, cfStep_eq]
  dsimp only
  rw [show (rowMap f p).2.2.2.2 = p.2.2.2.2 from rfl, stepIntegrate_mapNu]
  cases stepIntegrate θ γ η st.2 (if (st.1 == []) = true then liveAt p.2.2.2.2 else st.1) p with
  | none => rfl
  | some phi =>
    simp only [Option.map_some, Option.bind_some]
    have h2 := stepEvents_mapNu f (evAt p.2.2.2.2.2) (phi, if (st.1 == []) = true then liveAt p.2.2.2.2 else st.1)
    dsimp only at h2
    rw [h2]
    cases stepEvents (evAt p.2.2.2.2.2) (phi, if (st.1 == []) = true then liveAt p.2.2.2.2 else st.1) with
    | none => rfl
    | some r42 =>
      simp only [Option.map_some, Option.bind_some]
      rw [stepReorder_mapNu]
      cases stepReorder liveAt ivs p.2.2.2.2.2 r42 <;> rfl

theorem zip5_map {ν μ : Type} (f : ν → μ) (Ts : List ℚ) (nus : List (List ν)) (Ms : List (List (List ℚ))) (frs : List (List Bool)) (ivs : List (ETime × ETime)) :
    pyZip5 Ts (nus.map (List.map f)) Ms frs ivs = (pyZip5 Ts nus Ms frs ivs).map (rowMap f) := by
  unfold pyZip5
  induction Ts generalizing nus Ms frs ivs with
  | nil => simp
  | cons a t ih =>
    cases nus <;> cases Ms <;> cases frs <;> cases ivs <;> simp [rowMap]
    exact ih _ _ _ _

/-- the loop does not inspect the size arguments: mapping them before or after is the same -/
theorem computeCF_mapNu {ν μ : Type} (f : ν → μ) (evAt : ETime → List DEvt) (liveAt : ETime × ETime → List DName) (ivs : List (ETime × ETime))
    (nus : List (List ν)) (Ms : List (List (List ℚ))) (Ts : List ℚ) (frs : List (List Bool)) (θ γ η : ℚ) :
    computeCF evAt liveAt ivs (nus.map (List.map f)) Ms Ts frs θ γ η = (computeCF evAt liveAt ivs nus Ms Ts frs θ γ η).map fun r => (mapTr f r.1, r.2) := by
  rw [computeCF_eq, computeCF_eq]
  cases ivs[0]? with
  | none => rfl
  | some iv0 =>
    simp only [Option.bind_some]
    cases (liveAt iv0)[0]? with
    | none => rfl
    | some root =>
      simp only [Option.bind_some]
      cases nus with
      | nil => rfl
      | cons n0 nt =>
        cases n0 with
        | nil => rfl
        | cons x xs =>
          simp only [List.map_cons, List.getElem?_cons_zero, Option.bind_some]
          have hz := zip5_map f Ts ((x :: xs) :: nt) Ms frs ivs
          simp only [List.map_cons] at hz
          rw [hz, List.foldlM_map]
          have hf := foldlM_nat (fun r : List DName × Trace ν => (r.1, mapTr f r.2)) (cfStep evAt liveAt ivs θ γ η)
            (fun s p => cfStep evAt liveAt ivs θ γ η s (rowMap f p)) (fun s p => cfStep_mapNu f evAt liveAt ivs θ γ η s p)
            (pyZip5 Ts ((x :: xs) :: nt) Ms frs ivs) ([], [PCall.phi1D (some x) θ γ η [root]])
          simp only [mapTr, List.map_cons, List.map_nil, PCall.mapNu, Option.map_some] at hf
          rw [hf]
          cases List.foldlM (cfStep evAt liveAt ivs θ γ η) ([], [PCall.phi1D (some x) θ γ η [root]]) (pyZip5 Ts ((x :: xs) :: nt) Ms frs ivs) <;> rfl

/-! ### the loop of `_compute_sfs` under a change of the time unit of its keys -/

theorem tscale_inj {c : ℚ} (hc : c ≠ 0) {a b : ETime} (h : tscale c a = tscale c b) : a = b := by
  cases a <;> cases b <;> simp [tscale] at h ⊢
  exact h.resolve_right hc |> fun e => e

theorem pyIndex_map_inj {α β : Type} [DecidableEq α] [DecidableEq β] (h : α → β) (hinj : ∀ a b, h a = h b → a = b) (l : List α) (x : α) :
    pyIndex (l.map h) (h x) = pyIndex l x := by
  unfold pyIndex
  have hi : (l.map h).idxOf (h x) = l.idxOf x := by
    induction l with
    | nil => rfl
    | cons a t ih =>
      simp only [List.map_cons, List.idxOf_cons]
      by_cases e : a = x
      · simp [e]
      · have h1 : (h a == h x) = false := by simpa using fun e' => e (hinj a x e')
        have h2 : (a == x) = false := by simpa using e
        rw [h1, h2, ih]
  have hc : (l.map h).contains (h x) = l.contains x := by
    rw [Bool.eq_iff_iff, List.contains_iff_mem, List.contains_iff_mem, List.mem_map]
    exact ⟨fun ⟨a, ha, e⟩ => hinj a x e ▸ ha, fun hx => ⟨x, hx, rfl⟩⟩
  rw [hc, hi]

theorem tgt_zero_scale {c : ℚ} (hc : 0 < c) (t : ETime) : tgt (tscale c t) (some 0) = tgt t (some 0) := by
  unfold tgt
  have := tle_tscale hc t (some 0)
  simp only [tscale_some, mul_zero] at this
  rw [this]

theorem stepReorder_scale {ν : Type} {c : ℚ} (hc : 0 < c) (liveAt liveAt' : ETime × ETime → List DName) (ivs : List (ETime × ETime))
    (hl : ∀ iv, liveAt' (scaleIv c iv) = liveAt iv) (t : ETime) (r : Trace ν × List DName) :
    stepReorder liveAt' (ivs.map (scaleIv c)) (tscale c t) r = stepReorder liveAt ivs t r := by
  rw [stepReorder_eq, stepReorder_eq, tgt_zero_scale hc]
  have h1 : ((ivs.map (scaleIv c)).map fun x43 => x43.1) = (ivs.map fun x43 => x43.1).map (tscale c) := by
    simp [List.map_map, Function.comp_def, scaleIv]
  rw [h1, pyIndex_map_inj (tscale c) (fun a b => tscale_inj (ne_of_gt hc))]
  split_ifs
  · cases pyIndex (ivs.map fun x43 => x43.1) t with
    | none => rfl
    | some i =>
      simp only [Option.bind_some, List.getElem?_map]
      cases ivs[i]? with
      | none => rfl
      | some iv => simp only [Option.map_some, Option.bind_some, hl]
  · rfl

def rowIv (c : ℚ) {ν : Type} (p : ℚ × List ν × List (List ℚ) × List Bool × ETime × ETime) : ℚ × List ν × List (List ℚ) × List Bool × ETime × ETime :=
  (p.1, p.2.1, p.2.2.1, p.2.2.2.1, scaleIv c p.2.2.2.2)

theorem cfStep_scale {ν : Type} {c : ℚ} (hc : 0 < c) (evAt evAt' : ETime → List DEvt) (liveAt liveAt' : ETime × ETime → List DName) (ivs : List (ETime × ETime))
    (he : ∀ t, evAt' (tscale c t) = evAt t) (hl : ∀ iv, liveAt' (scaleIv c iv) = liveAt iv) (θ γ η : ℚ)
    (st : List DName × Trace ν) (p : ℚ × List ν × List (List ℚ) × List Bool × ETime × ETime) :
    cfStep evAt' liveAt' (ivs.map (scaleIv c)) θ γ η st (rowIv c p) = cfStep evAt liveAt ivs θ γ η st p := by
  rw [cfStep_eq, cfStep_eq]
  unfold rowIv
  dsimp only
  rw [hl, show (scaleIv c p.2.2.2.2).2 = tscale c p.2.2.2.2.2 from rfl, he]
  have hI : ∀ (phi0 : Trace ν) (ids : List DName), stepIntegrate θ γ η phi0 ids (p.1, p.2.1, p.2.2.1, p.2.2.2.1, scaleIv c p.2.2.2.2) = stepIntegrate θ γ η phi0 ids p := by
    intro phi0 ids
    rw [stepIntegrate_eq, stepIntegrate_eq]
  rw [hI]
  congr 1
  funext phi
  congr 1
  funext r42
  rw [stepReorder_scale hc liveAt liveAt' ivs hl]

theorem zip5_iv {ν : Type} (c : ℚ) (Ts : List ℚ) (nus : List (List ν)) (Ms : List (List (List ℚ))) (frs : List (List Bool)) (ivs : List (ETime × ETime)) :
    pyZip5 Ts nus Ms frs (ivs.map (scaleIv c)) = (pyZip5 Ts nus Ms frs ivs).map (rowIv c) := by
  unfold pyZip5
  induction Ts generalizing nus Ms frs ivs with
  | nil => simp
  | cons a t ih =>
    cases nus <;> cases Ms <;> cases frs <;> cases ivs <;> simp [rowIv]
    exact ih _ _ _ _

/-- the loop only compares and looks up the times it is given: the same rows with every key in another unit give the same history -/
theorem computeCF_scale {ν : Type} {c : ℚ} (hc : 0 < c) (evAt evAt' : ETime → List DEvt) (liveAt liveAt' : ETime × ETime → List DName) (ivs : List (ETime × ETime))
    (he : ∀ t, evAt' (tscale c t) = evAt t) (hl : ∀ iv, liveAt' (scaleIv c iv) = liveAt iv)
    (nus : List (List ν)) (Ms : List (List (List ℚ))) (Ts : List ℚ) (frs : List (List Bool)) (θ γ η : ℚ) :
    computeCF evAt' liveAt' (ivs.map (scaleIv c)) nus Ms Ts frs θ γ η = computeCF evAt liveAt ivs nus Ms Ts frs θ γ η := by
  rw [computeCF_eq, computeCF_eq, List.getElem?_map]
  cases ivs[0]? with
  | none => rfl
  | some iv0 =>
    simp only [Option.map_some, Option.bind_some, hl]
    congr 1; funext t32; congr 1; funext t33; congr 1; funext t34
    rw [zip5_iv, List.foldlM_map]
    congr 2
    funext st p
    exact cfStep_scale hc evAt evAt' liveAt liveAt' ivs he hl θ γ η st p

/-! ### the whole import on the rescaled graph -/

theorem presItems_rescale {c : ℚ} (hc : 0 < c) (g : Graph InEpoch) :
    presItems (g.rescale c c) = (presItems g).map fun p => (scaleIv c p.1, p.2) := by
  unfold presItems
  rw [demesPresent_rescale hc, List.map_map, List.map_map]
  apply List.map_congr_left
  intro p _
  simp [Function.comp_def, scaleIv, List.map_map]

theorem ivs_rescale {c : ℚ} (hc : 0 < c) (g : Graph InEpoch) :
    (demesPresent (g.rescale c c)).map (·.1) = ((demesPresent g).map (·.1)).map (scaleIv c) := by
  rw [demesPresent_rescale hc, List.map_map, List.map_map]
  rfl

theorem liveNames_rescale {c : ℚ} (hc : 0 < c) (g : Graph InEpoch) (iv : ETime × ETime) : liveNames (g.rescale c c) (scaleIv c iv) = liveNames g iv := by
  unfold liveNames
  have hm : scaleIv c iv ∈ intervals (g.rescale c c) ↔ iv ∈ intervals g := by
    rw [intervals_rescale hc, List.mem_map]
    constructor
    · rintro ⟨x, hx, e⟩
      have : x = iv := by
        unfold scaleIv at e
        have e1 := tscale_inj (ne_of_gt hc) (Prod.mk.inj e).1
        have e2 := tscale_inj (ne_of_gt hc) (Prod.mk.inj e).2
        exact Prod.ext e1 e2
      exact this ▸ hx
    · exact fun h => ⟨iv, h, rfl⟩
  by_cases h : iv ∈ intervals g
  · rw [if_pos (hm.2 h), if_pos h]
    show (liveIn (g.rescale c c) (tscale c iv.1) (tscale c iv.2)).map _ = _
    rw [liveIn_rescale hc, List.map_map]
    rfl
  · rw [if_neg (fun h' => h (hm.1 h')), if_neg h]

theorem eventsAt_rescale {c : ℚ} (hc : 0 < c) (g : Graph InEpoch) (lib : LibEvents) (sp : List DName) (t : ETime) :
    eventsAt (demoEvents (g.rescale c c) (lib.scale c).toList sp) (tscale c t) = eventsAt (demoEvents g lib.toList sp) t := by
  rw [toList_scale, demoEvents_rescale hc, eventsAt_scale (ne_of_gt hc)]

theorem rootCond_rescale {c : ℚ} (g : Graph InEpoch) :
    ((g.rescale c c).demes.any fun d => decide (d.start = none)) = (g.demes.any fun d => decide (d.start = none))
    ∧ ((g.rescale c c).demes.filter fun d => decide (d.start = none)).length = (g.demes.filter fun d => decide (d.start = none)).length := by
  have h : ∀ d : GDeme InEpoch, decide ((d.rescale c c).start = none) = decide (d.start = none) := by
    intro d
    show decide (tscale c d.start = none) = _
    cases d.start <;> simp [tscale]
  constructor
  · rw [show (g.rescale c c).demes = g.demes.map (GDeme.rescale c c) from rfl, List.any_map]
    congr 1
    funext d
    exact h d
  · rw [show (g.rescale c c).demes = g.demes.map (GDeme.rescale c c) from rfl, List.filter_map, List.length_map]
    congr 2
    funext d
    exact h d

theorem rowEv_parts {ex lg : ℚ → ℚ} {pw : ℚ → ℚ → ℚ} {frac : ℚ} {rows' rows : List ParamRow} (h : rows'.map (rowEv ex lg pw frac) = rows.map (rowEv ex lg pw frac)) :
    rows'.map (·.1) = rows.map (·.1) ∧ rows'.map (·.2.1) = rows.map (·.2.1) ∧ rows'.map (·.2.2.2) = rows.map (·.2.2.2)
    ∧ (rows'.map (·.2.2.1)).map (List.map (evalEntry ex lg pw frac)) = (rows.map (·.2.2.1)).map (List.map (evalEntry ex lg pw frac)) := by
  have h1 := congrArg (List.map fun r : ℚ × List Bool × List ℚ × List (List ℚ) => r.1) h
  have h2 := congrArg (List.map fun r : ℚ × List Bool × List ℚ × List (List ℚ) => r.2.1) h
  have h3 := congrArg (List.map fun r : ℚ × List Bool × List ℚ × List (List ℚ) => r.2.2.2) h
  have h4 := congrArg (List.map fun r : ℚ × List Bool × List ℚ × List (List ℚ) => r.2.2.1) h
  simp only [List.map_map, Function.comp_def, rowEv] at h1 h2 h3 h4
  exact ⟨h1, h2, h3, by simpa [List.map_map, Function.comp_def] using h4⟩

/-- **the import of the rescaled graph** (sizes and times × c, rates / c, the library's events at the scaled times, reference size × c — the
    default scales by itself): the same history of `phi`, call by call, every size argument with the same value at every fraction of its
    integration time; it raises in the same cases -/
theorem importCF_rescale {ex lg : ℚ → ℚ} {pw : ℚ → ℚ → ℚ} (F : ScaleFacts ex lg pw) {c : ℚ} (hc : 0 < c) (g : Graph InEpoch) (lib : LibEvents)
    (sp fz : List DName) (Ne : Option ℚ) (θ : ℚ) (γ η : Option ℚ) (frac : ℚ) :
    (importCF (g.rescale c c) (lib.scale c) sp fz (Ne.map (c * ·)) θ γ η).map (Trace.ev ex lg pw frac)
      = (importCF g lib sp fz Ne θ γ η).map (Trace.ev ex lg pw frac) := by
  unfold importCF
  rw [(rootCond_rescale g).1, (rootCond_rescale g).2, presItems_rescale hc, List.any_map]
  have hany : (fun p : (ETime × ETime) × List DName => decide (p.2.length > 5)) ∘ (fun p : (ETime × ETime) × List DName => (scaleIv c p.1, p.2)) = fun p => decide (p.2.length > 5) := rfl
  rw [hany]
  split_ifs
  · rfl
  · rfl
  · have hne : neOf (g.rescale c c) (Ne.map (c * ·)) = (neOf g Ne).map (c * ·) := by
      cases Ne with
      | none => exact rootNe_rescale c c g
      | some v => rfl
    rw [hne, ivs_rescale hc]
    cases neOf g Ne with
    | none => rfl
    | some N =>
      simp only [Option.map_some, Option.bind_some]
      -- the rows
      have hrows := mapM_map_rel (paramRow g fz N) (fun p : (ETime × ETime) × List DName => paramRow (g.rescale c c) fz (c * N) (scaleIv c p.1, p.2)) (rowEv ex lg pw frac) (rowEv ex lg pw frac) id
        (presItems g) (fun p _ => by rw [paramRow_rescale F hc]; simp)
      have hmm : ((presItems g).map fun p => (scaleIv c p.1, p.2)).mapM (paramRow (g.rescale c c) fz (c * N))
          = (presItems g).mapM fun p : (ETime × ETime) × List DName => paramRow (g.rescale c c) fz (c * N) (scaleIv c p.1, p.2) := by
        generalize presItems g = l
        induction l with
        | nil => rfl
        | cons a t ih => rw [List.map_cons, List.mapM_cons, List.mapM_cons, ih]
      rw [hmm]
      cases e1 : (presItems g).mapM (fun p : (ETime × ETime) × List DName => paramRow (g.rescale c c) fz (c * N) (scaleIv c p.1, p.2)) <;>
        cases e2 : (presItems g).mapM (paramRow g fz N) <;> rw [e1, e2] at hrows <;> simp at hrows
      · rfl
      · rename_i rows' rows
        obtain ⟨hT, hfr, hM, hnu⟩ := rowEv_parts (frac := frac) (ex := ex) (lg := lg) (pw := pw) (by simpa using hrows)
        simp only [Option.bind_some]
        rw [hT, hfr, hM]
        -- the loop
        have hA := computeCF_mapNu (evalEntry ex lg pw frac) (eventsAt (demoEvents (g.rescale c c) (lib.scale c).toList sp)) (liveNames (g.rescale c c))
          (((demesPresent g).map (·.1)).map (scaleIv c)) (rows'.map (·.2.2.1)) (rows.map (·.2.2.2)) (rows.map (·.1)) (rows.map (·.2.1)) θ (optD γ 0) (optD η (1 / 2))
        have hB := computeCF_mapNu (evalEntry ex lg pw frac) (eventsAt (demoEvents g lib.toList sp)) (liveNames g)
          ((demesPresent g).map (·.1)) (rows.map (·.2.2.1)) (rows.map (·.2.2.2)) (rows.map (·.1)) (rows.map (·.2.1)) θ (optD γ 0) (optD η (1 / 2))
        have hC := computeCF_scale hc (eventsAt (demoEvents g lib.toList sp)) (eventsAt (demoEvents (g.rescale c c) (lib.scale c).toList sp))
          (liveNames g) (liveNames (g.rescale c c)) ((demesPresent g).map (·.1)) (eventsAt_rescale hc g lib sp) (liveNames_rescale hc g)
          ((rows.map (·.2.2.1)).map (List.map (evalEntry ex lg pw frac))) (rows.map (·.2.2.2)) (rows.map (·.1)) (rows.map (·.2.1)) θ (optD γ 0) (optD η (1 / 2))
        rw [hnu, hC, hB] at hA
        -- the final reordering
        generalize computeCF (eventsAt (demoEvents (g.rescale c c) (lib.scale c).toList sp)) (liveNames (g.rescale c c))
          (((demesPresent g).map (·.1)).map (scaleIv c)) (rows'.map (·.2.2.1)) (rows.map (·.2.2.2)) (rows.map (·.1)) (rows.map (·.2.1)) θ (optD γ 0) (optD η (1 / 2)) = X' at hA ⊢
        generalize computeCF (eventsAt (demoEvents g lib.toList sp)) (liveNames g) ((demesPresent g).map (·.1)) (rows.map (·.2.2.1)) (rows.map (·.2.2.2))
          (rows.map (·.1)) (rows.map (·.2.1)) θ (optD γ 0) (optD η (1 / 2)) = X at hA ⊢
        cases X' <;> cases X <;> simp at hA
        · rfl
        · rename_i r' r
          obtain ⟨h1, h2⟩ := hA
          simp only [Option.bind_some, Option.map_map]
          rw [h2]
          congr 1
          funext o
          simp only [Function.comp, Trace.ev, List.map_append]
          unfold mapTr at h1
          rw [h1]

/-! ### the order of the sampled demes -/

/-- the import up to the end of `_compute_sfs`: the history and the population order at that point -/
def importCore (g : Graph InEpoch) (lib : LibEvents) (sp fz : List DName) (Ne : Option ℚ) (θ : ℚ) (γ η : Option ℚ) : Option (Trace NuEntry × List DName) :=
  if !((g.demes.any fun d => decide (d.start = none)) && ((g.demes.filter fun d => decide (d.start = none)).length == 1)) then none else
  if (presItems g).any (fun p => decide (p.2.length > 5)) then none else
  (neOf g Ne).bind fun N => ((presItems g).mapM (paramRow g fz N)).bind fun rows =>
  computeCF (eventsAt (demoEvents g lib.toList sp)) (liveNames g) ((demesPresent g).map (·.1))
      (rows.map (·.2.2.1)) (rows.map (·.2.2.2)) (rows.map (·.1)) (rows.map (·.2.1)) θ (optD γ 0) (optD η (1 / 2))

theorem importCF_core (g : Graph InEpoch) (lib : LibEvents) (sp fz : List DName) (Ne : Option ℚ) (θ : ℚ) (γ η : Option ℚ) :
    importCF g lib sp fz Ne θ γ η = (importCore g lib sp fz Ne θ γ η).bind fun r =>
      (sp.mapM fun x => (pyIndex r.2 x).map (· + 1)).map fun order => r.1 ++ [PCall.reorder order] ++ [PCall.fromPhi sp] := by
  unfold importCF importCore
  split_ifs
  · rfl
  · rfl
  · cases neOf g Ne with
    | none => rfl
    | some N =>
      simp only [Option.bind_some]
      cases (presItems g).mapM (paramRow g fz N) <;> rfl

/-- listing the sampled demes in another order (same members) changes nothing up to the end of `_compute_sfs` -/
theorem importCore_congr (g : Graph InEpoch) (lib : LibEvents) (sp sp' fz : List DName) (Ne : Option ℚ) (θ : ℚ) (γ η : Option ℚ)
    (hmem : ∀ x, sp'.contains x = sp.contains x) : importCore g lib sp' fz Ne θ γ η = importCore g lib sp fz Ne θ γ η := by
  unfold importCore
  rw [demoEvents_congr g lib.toList sp sp' hmem]

end DadiVerif.DemesConv
