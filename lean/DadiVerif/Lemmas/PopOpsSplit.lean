import DadiVerif.Lemmas.Hypergeom
/-! C10: projecting a MERGED population.  Sampling M chromosomes from the pool of two populations (n_a + n_b) is NOT
    sampling fixed numbers from each; it is the mixture over the splits M = m_a + m_b, the split being itself hypergeometric.
    Pure mathematics on the weights `hyp` of Lemmas/Hypergeom.lean (C08's file, imported only). -/
namespace DadiVerif
open Finset

theorem choose_trinom (N M I : ℕ) : N.choose M * (N - M).choose I = N.choose I * (N - I).choose M := by
  by_cases h : M + I ≤ N
  · have h1 := Nat.choose_mul (n := N) (k := M + I) (s := M) (Nat.le_add_right M I)
    have h2 := Nat.choose_mul (n := N) (k := M + I) (s := I) (Nat.le_add_left I M)
    rw [Nat.add_sub_cancel_left] at h1
    rw [Nat.add_sub_cancel] at h2
    rw [← h1, ← h2, Nat.choose_symm_add]
  · by_cases hM : M ≤ N
    · by_cases hI : I ≤ N
      · rw [Nat.choose_eq_zero_of_lt (by omega : N - M < I), Nat.choose_eq_zero_of_lt (by omega : N - I < M)]; simp
      · rw [Nat.choose_eq_zero_of_lt (by omega : N - M < I), Nat.choose_eq_zero_of_lt (by omega : N < I)]; simp
    · rw [Nat.choose_eq_zero_of_lt (by omega : N < M), Nat.choose_eq_zero_of_lt (by omega : N - I < M)]; simp

/-- the two ways of writing the hypergeometric weight, cleared of denominators -/
theorem hyp_dual_nat (m n i j : ℕ) (hm : m ≤ n) (hi : i ≤ n) (hj : j ≤ m) (hji : j ≤ i) :
    m.choose j * (n - m).choose (i - j) * n.choose m = i.choose j * (n - i).choose (m - j) * n.choose i := by
  have e1 : n.choose m * m.choose j = n.choose j * (n - j).choose (m - j) := Nat.choose_mul hj
  have e2 : n.choose i * i.choose j = n.choose j * (n - j).choose (i - j) := Nat.choose_mul hji
  have e3 : (n - j).choose (m - j) * (n - m).choose (i - j) = (n - j).choose (i - j) * (n - i).choose (m - j) := by
    have := choose_trinom (n - j) (m - j) (i - j)
    rwa [show n - j - (m - j) = n - m by omega, show n - j - (i - j) = n - i by omega] at this
  calc m.choose j * (n - m).choose (i - j) * n.choose m
      = (n.choose m * m.choose j) * (n - m).choose (i - j) := by ring
    _ = n.choose j * ((n - j).choose (m - j) * (n - m).choose (i - j)) := by rw [e1]; ring
    _ = n.choose j * ((n - j).choose (i - j) * (n - i).choose (m - j)) := by rw [e3]
    _ = (n.choose i * i.choose j) * (n - i).choose (m - j) := by rw [e2]; ring
    _ = i.choose j * (n - i).choose (m - j) * n.choose i := by ring

/-- C(n,m) · hyp m n i j = C(i,j) · C(n−i, m−j)   (also for m > n, where both sides vanish) -/
theorem choose_mul_hyp (m n i j : ℕ) (hi : i ≤ n) (hj : j ≤ m) :
    ((n.choose m : ℕ) : ℚ) * hyp m n i j = ((i.choose j * (n - i).choose (m - j) : ℕ) : ℚ) := by
  by_cases hm : m ≤ n
  · by_cases hji : j ≤ i
    · rw [hyp_of_le hji]
      have hne := choose_pos_q hi
      have h := hyp_dual_nat m n i j hm hi hj hji
      have hq : ((m.choose j * (n - m).choose (i - j) : ℕ) : ℚ) * (n.choose m : ℕ)
          = ((i.choose j * (n - i).choose (m - j) : ℕ) : ℚ) * (n.choose i : ℕ) := by exact_mod_cast h
      field_simp
      linarith
    · rw [hyp_of_lt (by omega), Nat.choose_eq_zero_of_lt (by omega : i < j)]; simp
  · rw [Nat.choose_eq_zero_of_lt (by omega : n < m)]
    by_cases hji : j ≤ i
    · rw [Nat.choose_eq_zero_of_lt (by omega : n - i < m - j)]; simp
    · rw [Nat.choose_eq_zero_of_lt (by omega : i < j)]; simp

/-- inner Vandermonde of the split identity: over the admissible sizes `ma` of the first part -/
theorem split_inner (p q M s sa : ℕ) (hs : s ≤ M) (hsa : sa ≤ s) :
    ∑ ma ∈ range (M + 1), (if sa ≤ ma ∧ s - sa ≤ M - ma then p.choose (ma - sa) * q.choose ((M - ma) - (s - sa)) else 0)
      = (p + q).choose (M - s) := by
  rw [← Finset.sum_filter]
  have hf : (range (M + 1)).filter (fun ma => sa ≤ ma ∧ s - sa ≤ M - ma) = Ico sa (M - (s - sa) + 1) := by
    ext x; simp only [mem_filter, mem_range, mem_Ico]; omega
  rw [hf, Finset.sum_Ico_eq_sum_range, show M - (s - sa) + 1 - sa = M - s + 1 by omega, ← vandermonde_range p q (M - s)]
  apply Finset.sum_congr rfl
  intro t ht
  rw [mem_range] at ht
  rw [show sa + t - sa = t by omega, show M - (sa + t) - (s - sa) = M - s - t by omega]

/-- the split identity, cleared of denominators -/
theorem split_nat (na nb M ia ib s : ℕ) (hs : s ≤ M) :
    ∑ ma ∈ range (M + 1), ∑ sa ∈ range (s + 1),
        (if sa ≤ ma ∧ s - sa ≤ M - ma then
          ia.choose sa * (na - ia).choose (ma - sa) * (ib.choose (s - sa) * (nb - ib).choose ((M - ma) - (s - sa))) else 0)
      = (ia + ib).choose s * ((na - ia) + (nb - ib)).choose (M - s) := by
  rw [Finset.sum_comm]
  have h1 : ∀ sa ∈ range (s + 1), ∑ ma ∈ range (M + 1),
        (if sa ≤ ma ∧ s - sa ≤ M - ma then
          ia.choose sa * (na - ia).choose (ma - sa) * (ib.choose (s - sa) * (nb - ib).choose ((M - ma) - (s - sa))) else 0)
      = ia.choose sa * ib.choose (s - sa) * ((na - ia) + (nb - ib)).choose (M - s) := by
    intro sa hsa
    rw [mem_range] at hsa
    rw [← split_inner (na - ia) (nb - ib) M s sa hs (by omega), Finset.mul_sum]
    apply Finset.sum_congr rfl
    intro ma _
    split_ifs
    · ring
    · simp
  rw [Finset.sum_congr rfl h1, ← Finset.sum_mul, vandermonde_range ia ib s]

/-- **projecting a merged population = hypergeometric mixture over the splits.**  With N = n_a + n_b and a source entry with
    i_a, i_b derived alleles: the weight of seeing `s` derived alleles among `M` chromosomes drawn from the pool equals the sum
    over the numbers `ma` drawn from population a — probability `hyp na N M ma` = C(n_a,ma)·C(n_b,M−ma)/C(N,M) — of the weight of
    seeing `sa` and `s − sa` derived alleles in independent samples of sizes `ma` and `M − ma` from the two populations. -/
theorem hyp_split (na nb M ia ib s : ℕ) (hia : ia ≤ na) (hib : ib ≤ nb) (hM : M ≤ na + nb) (hs : s ≤ M) :
    hyp M (na + nb) (ia + ib) s
      = ∑ ma ∈ range (M + 1), hyp na (na + nb) M ma *
          ∑ sa ∈ range (s + 1), hyp ma na ia sa * hyp (M - ma) nb ib (s - sa) := by
  have hNM : ((na + nb).choose M : ℚ) ≠ 0 := choose_pos_q hM
  have hmain : ((na + nb).choose M : ℚ) * hyp M (na + nb) (ia + ib) s
      = ((na + nb).choose M : ℚ) * ∑ ma ∈ range (M + 1), hyp na (na + nb) M ma *
          ∑ sa ∈ range (s + 1), hyp ma na ia sa * hyp (M - ma) nb ib (s - sa) := by
    rw [choose_mul_hyp M (na + nb) (ia + ib) s (by omega) hs, show na + nb - (ia + ib) = (na - ia) + (nb - ib) by omega,
      ← split_nat na nb M ia ib s hs, Finset.mul_sum]
    push_cast
    apply Finset.sum_congr rfl
    intro ma hma
    rw [mem_range] at hma
    -- C(N,M) · hyp na N M ma = C(na,ma) · C(nb, M−ma)
    have hw : ((na + nb).choose M : ℚ) * hyp na (na + nb) M ma = ((na.choose ma : ℕ) : ℚ) * ((nb.choose (M - ma) : ℕ) : ℚ) := by
      by_cases hmaM : ma ≤ M
      · rw [hyp_of_le hmaM]
        field_simp
        rw [show na + nb - na = nb by omega]
        push_cast; ring
      · omega
    rw [← mul_assoc, hw, Finset.mul_sum]
    apply Finset.sum_congr rfl
    intro sa hsa
    rw [mem_range] at hsa
    by_cases hc : sa ≤ ma ∧ s - sa ≤ M - ma
    · rw [if_pos hc]
      symm
      have ha := choose_mul_hyp ma na ia sa hia hc.1
      have hb := choose_mul_hyp (M - ma) nb ib (s - sa) hib hc.2
      calc ((na.choose ma : ℕ) : ℚ) * ((nb.choose (M - ma) : ℕ) : ℚ) * (hyp ma na ia sa * hyp (M - ma) nb ib (s - sa))
          = (((na.choose ma : ℕ) : ℚ) * hyp ma na ia sa) * (((nb.choose (M - ma) : ℕ) : ℚ) * hyp (M - ma) nb ib (s - sa)) := by ring
        _ = _ := by rw [ha, hb]; push_cast; ring
    · rw [if_neg hc]
      symm
      rw [not_and_or, not_le, not_le] at hc
      rcases hc with hc | hc
      · rw [hyp_of_gt_m hc]; simp
      · rw [hyp_of_gt_m (m := M - ma) hc]; simp
  exact mul_left_cancel₀ hNM hmain

/-- …and it is NOT a commutation: for n_a = n_b = 1, the entry (1,0), M = 1 and the split (1,0) the pooled weight of seeing
    the derived allele is 1/2, the split-then-merge weight is 1 -/
theorem hyp_split_counterexample :
    hyp 1 (1 + 1) (1 + 0) 1 = 1 / 2 ∧ (∑ sa ∈ range (1 + 1), hyp 1 1 1 sa * hyp (1 - 1) 1 0 (1 - sa)) = 1 := by
  constructor
  · norm_num [hyp, Nat.choose]
  · norm_num [hyp, Nat.choose, Finset.sum_range_succ]

end DadiVerif
