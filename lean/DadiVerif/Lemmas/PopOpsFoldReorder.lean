import DadiVerif.Lemmas.PopOpsFoldProj
/-! C10 (round 5): `project` commutes with `reorder_pops` on FOLDED input (any mask), under `ObsF`.  A permutation of the axes is
    a bijection of the boxes, so `reorder_pops` commutes with `fold` and with `unfold` entry by entry. -/
namespace DadiVerif.PopOps

/-- a permutation of the axes maps the box ONTO the box of the permuted shape -/
theorem permIdx_surj (axes sh : List Nat) (hp : axes.Perm (List.range sh.length)) (j : Idx)
    (hj : j ∈ boxIdx (permIdx 0 axes sh)) : ∃ i ∈ boxIdx sh, permIdx 0 axes i = j := by
  have hnod : axes.Nodup := hp.nodup_iff.2 List.nodup_range
  have hlen : axes.length = sh.length := by rw [hp.length_eq]; simp
  have hjl : j.length = axes.length := by rw [mem_box_length _ _ hj]; simp [permIdx]
  have hval : ∀ a ∈ axes, a < sh.length := fun a ha => by simpa using hp.mem_iff.1 ha
  have hcov : ∀ a, a < sh.length → a ∈ axes := fun a ha => hp.mem_iff.2 (by simpa using ha)
  refine ⟨(List.range sh.length).map (fun a => j.getD (axes.idxOf a) 0), ?_, ?_⟩
  · rw [mem_boxIdx]
    apply List.forall₂_iff_get.2
    refine ⟨by simp, fun a h1 h2 => ?_⟩
    simp only [List.length_map, List.length_range] at h1
    simp only [List.get_eq_getElem, List.getElem_map, List.getElem_range]
    have ha := hcov a h1
    have hk : axes.idxOf a < axes.length := List.idxOf_lt_length_iff.2 ha
    have := getD_lt_of_mem_box _ j hj (axes.idxOf a) (by simpa [permIdx] using hk)
    have e : (permIdx 0 axes sh).getD (axes.idxOf a) 0 = sh.getD a 0 := by
      unfold permIdx
      simp [List.getD_eq_getElem?_getD, List.getElem?_eq_getElem hk]
    rw [e] at this
    simpa [List.getD_eq_getElem?_getD, List.getElem?_eq_getElem h1] using this
  · apply List.ext_getElem
    · simp [permIdx, hjl]
    · intro k h1 h2
      have hk : k < axes.length := by simpa [permIdx] using h1
      have hak : axes[k] < sh.length := hval _ (List.getElem_mem hk)
      simp only [permIdx, List.getElem_map]
      rw [List.getD_eq_getElem?_getD, List.getElem?_eq_getElem (by simpa using hak)]
      simp only [List.getElem_map, List.getElem_range, Option.getD_some]
      rw [List.Nodup.idxOf_getElem hnod k hk]
      simp [List.getD_eq_getElem?_getD, List.getElem?_eq_getElem h2]

/-- the reordered spectrum at the image of `i` -/
theorem reorderCore_at (axes : List Nat) (S : FS) (hp : axes.Perm (List.range S.ndim)) (i : Idx) (hi : i ∈ S.box) :
    (reorderCore axes S).dat (permIdx 0 axes i) = S.dat i ∧ (reorderCore axes S).msk (permIdx 0 axes i) = S.msk i := by
  have hcov : ∀ a, a < S.ndim → a ∈ axes := fun a ha => hp.mem_iff.2 (by simpa using ha)
  have hinj : ∀ i' ∈ S.box, permIdx 0 axes i' = permIdx 0 axes i → i' = i := fun i' hi' h =>
    permIdx_inj axes S.ndim hcov i i' (mem_box_length _ _ hi) (mem_box_length _ _ hi') h
  exact ⟨pushL_inj S.box (nodup_boxIdx _) _ _ i hi hinj, anyL_inj S.box _ _ i hi hinj⟩

theorem permIdx_map_const (axes sh : List Nat) (_hval : ∀ a ∈ axes, a < sh.length) :
    permIdx 0 axes (sh.map fun _ => 0) = (permIdx 0 axes sh).map fun _ => 0 := by
  unfold permIdx
  rw [List.map_map]
  apply List.map_congr_left
  intro a _
  show (sh.map fun _ => 0).getD a 0 = (fun _ => 0) (sh.getD a 0)
  exact getD_map_zero sh a

theorem permIdx_map_pred (axes sh : List Nat) :
    permIdx 0 axes (sh.map (· - 1)) = (permIdx 0 axes sh).map (· - 1) := by
  unfold permIdx
  rw [List.map_map]
  apply List.map_congr_left
  intro a _
  exact getD_map_pred sh a

theorem isCorner_permIdx (axes sh : List Nat) (hp : axes.Perm (List.range sh.length)) (i : Idx) (hi : i ∈ boxIdx sh) :
    isCorner (permIdx 0 axes sh) (permIdx 0 axes i) = isCorner sh i := by
  have hval : ∀ a ∈ axes, a < sh.length := fun a ha => by simpa using hp.mem_iff.1 ha
  have hcov : ∀ a, a < sh.length → a ∈ axes := fun a ha => hp.mem_iff.2 (by simpa using ha)
  have hil := mem_box_length _ _ hi
  rw [Bool.eq_iff_iff, isCorner_iff, isCorner_iff, ← permIdx_map_const axes sh hval, ← permIdx_map_pred]
  constructor
  · rintro (h | h)
    · left; exact permIdx_inj axes sh.length hcov _ _ (by simp) hil h
    · right; exact permIdx_inj axes sh.length hcov _ _ (by simp) hil h
  · rintro (h | h)
    · left; rw [h]
    · right; rw [h]

theorem foldedOut_permIdx (axes sh : List Nat) (hp : axes.Perm (List.range sh.length)) (i : Idx) (hi : i ∈ boxIdx sh) :
    foldedOut (permIdx 0 axes sh) (permIdx 0 axes i) = foldedOut sh i := by
  unfold foldedOut
  rw [nTotal_permIdx axes sh hp, permIdx_sum axes i (by rw [mem_box_length _ _ hi]; exact hp)]

/-- `reorder_pops` of a folded spectrum = fold of the reordered spectrum, entry by entry (mask and data, also under the mask) -/
theorem reorderCore_foldCore (axes : List Nat) (X : FS) (hp : axes.Perm (List.range X.ndim)) :
    ObsF (reorderCore axes (foldCore X)) (foldCore (reorderCore axes X)) := by
  have hval : ∀ a ∈ axes, a < X.shape.length := fun a ha => by simpa [FS.ndim] using hp.mem_iff.1 ha
  refine ⟨rfl, fun j hj => ?_⟩
  obtain ⟨i, hi, rfl⟩ := permIdx_surj axes X.shape hp j hj
  have hmi := mirror_mem_box X.shape i hi
  obtain ⟨d1, m1⟩ := reorderCore_at axes (foldCore X) hp i hi
  obtain ⟨d2, m2⟩ := reorderCore_at axes X hp i hi
  obtain ⟨d3, m3⟩ := reorderCore_at axes X hp _ hmi
  have hmir := permIdx_mirror axes X.shape i hi
  have hpb : permIdx 0 axes i ∈ (reorderCore axes X).box := permIdx_mem_box axes X.shape hval i hi
  have hmsk : (reorderCore axes (foldCore X)).msk (permIdx 0 axes i) = (foldCore (reorderCore axes X)).msk (permIdx 0 axes i) := by
    rw [m1]
    show (X.msk i || X.msk (mirror X.shape i) || foldedOut X.shape i || isCorner X.shape i)
      = ((reorderCore axes X).msk (permIdx 0 axes i) || (reorderCore axes X).msk (mirror (permIdx 0 axes X.shape) (permIdx 0 axes i))
          || foldedOut (permIdx 0 axes X.shape) (permIdx 0 axes i) || isCorner (permIdx 0 axes X.shape) (permIdx 0 axes i))
    rw [hmir, m2, m3, foldedOut_permIdx axes X.shape hp i hi, isCorner_permIdx axes X.shape hp i hi]
  refine ⟨hmsk, fun _ => ?_⟩
  rw [d1, foldCore_dat_closed X i hi, foldCore_dat_closed (reorderCore axes X) _ hpb]
  show _ = foldCoef (nTotal (permIdx 0 axes X.shape)) (permIdx 0 axes i).sum
      * ((reorderCore axes X).dat (permIdx 0 axes i) + (reorderCore axes X).dat (mirror (permIdx 0 axes X.shape) (permIdx 0 axes i)))
  rw [hmir, d2, d3, nTotal_permIdx axes X.shape hp, permIdx_sum axes i (by rw [mem_box_length _ _ hi]; exact hp)]

/-- `unfold` of the reordered folded spectrum = the reordered unfolding -/
theorem unfoldCore_reorderCore (axes : List Nat) (F : FS) (hp : axes.Perm (List.range F.ndim)) :
    Obs (unfoldCore (reorderCore axes F)) (reorderCore axes (unfoldCore F)) := by
  refine ⟨rfl, fun j hj => ?_⟩
  have hj' : j ∈ boxIdx (permIdx 0 axes F.shape) := hj
  obtain ⟨i, hi, rfl⟩ := permIdx_surj axes F.shape hp j hj'
  have hmi := mirror_mem_box F.shape i hi
  obtain ⟨d1, m1⟩ := reorderCore_at axes (unfoldCore F) hp i hi
  obtain ⟨d2, m2⟩ := reorderCore_at axes F hp i hi
  obtain ⟨d3, m3⟩ := reorderCore_at axes F hp _ hmi
  have hmir := permIdx_mirror axes F.shape i hi
  have hmsk : (unfoldCore (reorderCore axes F)).msk (permIdx 0 axes i) = (reorderCore axes (unfoldCore F)).msk (permIdx 0 axes i) := by
    rw [m1]
    show (Bool.xor ((reorderCore axes F).msk (permIdx 0 axes i)) (foldedOut (permIdx 0 axes F.shape) (permIdx 0 axes i))
        || Bool.xor ((reorderCore axes F).msk (mirror (permIdx 0 axes F.shape) (permIdx 0 axes i)))
            (foldedOut (permIdx 0 axes F.shape) (mirror (permIdx 0 axes F.shape) (permIdx 0 axes i)))
        || isCorner (permIdx 0 axes F.shape) (permIdx 0 axes i))
      = (Bool.xor (F.msk i) (foldedOut F.shape i) || Bool.xor (F.msk (mirror F.shape i)) (foldedOut F.shape (mirror F.shape i))
        || isCorner F.shape i)
    rw [hmir, m2, m3, foldedOut_permIdx axes F.shape hp i hi, foldedOut_permIdx axes F.shape hp _ hmi,
      isCorner_permIdx axes F.shape hp i hi]
  refine ⟨hmsk, fun _ => ?_⟩
  rw [d1]
  show ((reorderCore axes F).dat (permIdx 0 axes i) + (reorderCore axes F).dat (mirror (permIdx 0 axes F.shape) (permIdx 0 axes i))) / 2
    = (F.dat i + F.dat (mirror F.shape i)) / 2
  rw [hmir, d2, d3]

/-- **reorder_pops ∘ project = project ∘ reorder_pops on FOLDED input** (ANY mask), public functions, under `ObsF` -/
theorem reorder_project_folded (neworder ms : List Nat) (F : FS) (hf : F.folded = true)
    (hno : sortAsc neworder = (List.range F.ndim).map (· + 1)) (hadm : AdmSizes ms F.shape) :
    ∃ A B, (project ms F).bind (reorderPops neworder) = some A ∧
      (reorderPops neworder F).bind (project (permIdx 0 (neworder.map (· - 1)) ms)) = some B ∧
      ObsF A B ∧ A.labels = B.labels ∧ A.folded = true ∧ B.folded = true := by
  set axes := neworder.map (· - 1) with haxes
  have hp : axes.Perm (List.range F.ndim) := by
    have h1 : neworder.Perm ((List.range F.ndim).map (· + 1)) := hno ▸ (sortAsc_perm neworder).symm
    have h2 := h1.map (· - 1)
    rw [List.map_map] at h2
    have h3 : (List.range F.ndim).map ((· - 1) ∘ (· + 1)) = List.range F.ndim := by
      conv_rhs => rw [← List.map_id (List.range F.ndim)]
      apply List.map_congr_left; intro a _; simp
    rw [h3] at h2; exact h2
  have hax : ∀ a ∈ axes, a < F.shape.length := fun a ha => by simpa [FS.ndim] using hp.mem_iff.1 ha
  set V := unfoldCore F with hV
  set X : FS := { projectCore ms V with folded := false, labels := F.labels } with hX
  have hXnd : (foldCore X).ndim = F.ndim := projectCore_ndim ms V
  have hXnd' : X.ndim = F.ndim := projectCore_ndim ms V
  have hA : reorderPops neworder (foldCore X) = some (reorderCore axes (foldCore X)) := by simp [reorderPops, hXnd, hno, haxes]
  have hR : reorderPops neworder F = some (reorderCore axes F) := by simp [reorderPops, hno, haxes]
  have hadm' : AdmSizes (permIdx 0 axes ms) (reorderCore axes F).shape := permIdx_adm hadm axes hax
  have hB := project_folded (permIdx 0 axes ms) (reorderCore axes F) hf hadm'
  refine ⟨reorderCore axes (foldCore X),
    foldCore { projectCore (permIdx 0 axes ms) (unfoldCore (reorderCore axes F)) with folded := false, labels := (reorderCore axes F).labels },
    by rw [project_folded ms F hf hadm]; exact hA, by rw [hR]; exact hB, ?_, rfl, rfl, rfl⟩
  refine (reorderCore_foldCore axes X (by rw [hXnd']; exact hp)).trans (obs_foldCore ?_)
  refine (obs_reorderCore axes (obs_update _ _ _)).trans ?_
  refine (reorderCore_projectCore axes ms V hp hadm).trans ?_
  exact (obs_projectCore _ (unfoldCore_reorderCore axes F hp).symm).trans (obs_update _ _ _).symm

end DadiVerif.PopOps
