import DadiVerif.Model.ND
import Mathlib.Tactic.Ring
import Mathlib.Tactic.Linarith
/-! Index arithmetic of row-major arrays, proved once: `ND.get (ND.ofFn shape f) idx = f idx` for every in-box index. -/
namespace DadiVerif

/-- idx is a valid multi-index of an array of this shape -/
def InBox : List ℕ → List ℕ → Prop
  | [], [] => True
  | s :: ss, i :: is => i < s ∧ InBox ss is
  | _, _ => False

theorem flatIdx_lt : ∀ (shape idx : List ℕ), InBox shape idx → flatIdx shape idx < prodL shape
  | [], [], _ => by simp [flatIdx, prodL]
  | s :: ss, i :: is, h => by
      obtain ⟨hi, hrest⟩ := h
      have ih := flatIdx_lt ss is hrest
      simp only [flatIdx, prodL]
      calc i * prodL ss + flatIdx ss is < i * prodL ss + prodL ss := by omega
        _ = (i + 1) * prodL ss := by ring
        _ ≤ s * prodL ss := Nat.mul_le_mul_right _ hi
  | [], _ :: _, h => h.elim
  | _ :: _, [], h => h.elim

theorem unflat_flatIdx : ∀ (shape idx : List ℕ), InBox shape idx → unflat shape (flatIdx shape idx) = idx
  | [], [], _ => rfl
  | s :: ss, i :: is, h => by
      obtain ⟨hi, hrest⟩ := h
      have hlt := flatIdx_lt ss is hrest
      have hpos : 0 < prodL ss := by omega
      simp only [flatIdx, unflat]
      have e1 : (i * prodL ss + flatIdx ss is) / prodL ss = i := by
        rw [Nat.add_comm, Nat.add_mul_div_right _ _ hpos, Nat.div_eq_of_lt hlt]; simp
      have e2 : (i * prodL ss + flatIdx ss is) % prodL ss = flatIdx ss is := by
        rw [Nat.add_comm, Nat.add_mul_mod_self_right, Nat.mod_eq_of_lt hlt]
      rw [e1, e2, unflat_flatIdx ss is hrest]
  | [], _ :: _, h => h.elim
  | _ :: _, [], h => h.elim

theorem unflat_inBox : ∀ (shape : List ℕ) (n : ℕ), n < prodL shape → InBox shape (unflat shape n)
  | [], _, _ => trivial
  | s :: ss, n, h => by
      simp only [prodL] at h
      have hpos : 0 < prodL ss := by
        rcases Nat.eq_zero_or_pos (prodL ss) with h0 | h0
        · rw [h0] at h; simp at h
        · exact h0
      simp only [unflat]
      refine ⟨?_, unflat_inBox ss _ (Nat.mod_lt _ hpos)⟩
      rw [Nat.div_lt_iff_lt_mul hpos]; exact h

theorem ND.get_ofFn (shape : List ℕ) (f : List ℕ → ℚ) (idx : List ℕ) (h : InBox shape idx) :
    (ND.ofFn shape f).get idx = f idx := by
  have hlt := flatIdx_lt shape idx h
  unfold ND.get ND.ofFn
  have hsz : flatIdx shape idx < (Array.ofFn (n := prodL shape) fun k => f (unflat shape k.val)).size := by simpa using hlt
  rw [Array.getD_eq_getD_getElem?, Array.getElem?_eq_getElem hsz]
  simp only [Option.getD_some, Array.getElem_ofFn]
  rw [unflat_flatIdx shape idx h]

/-- two tabulations agree as arrays as soon as the functions agree on the box -/
theorem ND.ofFn_congr (shape : List ℕ) (f g : List ℕ → ℚ) (h : ∀ idx, InBox shape idx → f idx = g idx) :
    ND.ofFn shape f = ND.ofFn shape g := by
  unfold ND.ofFn
  congr 1
  apply Array.ext
  · simp
  · intro i h1 h2
    simp only [Array.getElem_ofFn]
    exact h _ (unflat_inBox shape i (by simpa using h1))

end DadiVerif
