import DadiVerif.Lemmas.PopOpsSym
/-! C10 (round 5): `project` commutes with `marginalize` on FOLDED input, end to end through the public functions
    (`unfold → loop → fold` on both sides, twice), under the observation relation `ObsF`. -/
namespace DadiVerif.PopOps

theorem project_folded (ms : List Nat) (S : FS) (hf : S.folded = true) (hadm : AdmSizes ms S.shape) :
    project ms S = some (foldCore { projectCore ms (unfoldCore S) with folded := false, labels := S.labels }) := by
  have h1 : ms.length = S.ndim := hadm.length_eq
  have h2 := zipWith_adm_false hadm
  unfold project
  rw [h2, if_neg (by simp [h1])]
  simp [hf]

/-- a folded spectrum with the standard mask (folded-out entries and the two corners) unfolds to a spectrum with the standard
    mask (the two corners) -/
theorem stdMask_unfoldCore (F : FS) (hpos : ∀ s ∈ F.shape, 1 ≤ s)
    (hmask : ∀ i ∈ F.box, F.msk i = (foldedOut F.shape i || isCorner F.shape i)) : StdMask (unfoldCore F) := by
  refine ⟨hpos, fun i hi hm => ?_⟩
  have hi' : i ∈ F.box := hi
  have hmi := mirror_mem_box F.shape i hi'
  have h4 := isCorner_mirror F.shape i hi'
  have hm' : (Bool.xor (F.msk i) (foldedOut F.shape i) || Bool.xor (F.msk (mirror F.shape i)) (foldedOut F.shape (mirror F.shape i))
      || isCorner F.shape i) = true := hm
  rw [hmask i hi', hmask _ hmi, h4] at hm'
  show isCorner F.shape i = true
  revert hm'
  cases foldedOut F.shape i <;> cases foldedOut F.shape (mirror F.shape i) <;> cases isCorner F.shape i <;> simp

/-- **marginalize ∘ project = project ∘ marginalize on FOLDED input.**  For a folded spectrum with the standard mask,
    `fs.project(ns).marginalize(over)` and `fs.marginalize(over).project(ns without over)` both succeed and are `ObsF`-equal — same
    shape, same mask, same data at every unmasked entry AND the same data under the folded-out mask (zero) — with the same labels,
    both folded. -/
theorem marginalize_project_folded (over ms : List Nat) (F : FS) (hf : F.folded = true) (hpos : ∀ s ∈ F.shape, 1 ≤ s)
    (hmask : ∀ i ∈ F.box, F.msk i = (foldedOut F.shape i || isCorner F.shape i))
    (hn : over.Nodup) (hv : ∀ k ∈ over, k < F.ndim) (hl : over.length < F.ndim) (hadm : AdmSizes ms F.shape) :
    ∃ A B, (project ms F).bind (marginalize over true) = some A ∧
      (marginalize over true F).bind (project (dropSet over 0 ms)) = some B ∧
      ObsF A B ∧ A.labels = B.labels ∧ A.folded = true ∧ B.folded = true := by
  set ks := sortDesc over with hks
  have hms' : dropSet over 0 ms = dropAxes ks ms := (dropAxes_sortDesc over hn ms).symm
  set V := unfoldCore F with hV
  have hVsh : V.shape = F.shape := rfl
  have hVnd : V.ndim = F.ndim := rfl
  obtain ⟨hVsym, hVcm⟩ := sym_unfoldCore F hpos
  have hVstd : StdMask V := stdMask_unfoldCore F hpos hmask
  have hadmV : AdmSizes ms V.shape := hadm
  have hvalid : ValidDrops ks V.ndim :=
    validDrops_desc ks V.ndim (sortDesc_desc over hn) (fun k hk => hv k ((sortDesc_perm over).mem_iff.1 hk))
  -- left: project, then marginalize
  set X : FS := { projectCore ms V with folded := false, labels := F.labels } with hX
  have hXnd : (foldCore X).ndim = F.ndim := projectCore_ndim ms V
  have hA := marginalize_folded over true (foldCore X) rfl hn (by rw [hXnd]; exact hv) (by rw [hXnd]; exact hl)
  rw [← hks] at hA
  simp only [if_true] at hA
  -- right: marginalize, then project
  have hM := marginalize_folded over true F hf hn hv hl
  rw [← hks] at hM
  simp only [if_true] at hM
  set Y : FS := maskCorners { marginalizeCore ks V with folded := false, labels := F.labels.map (dropAxes ks) } with hY
  have hYsh : Y.shape = dropAxes ks F.shape := marginalizeCore_shape ks V
  have hadm' : AdmSizes (dropAxes ks ms) (foldCore Y).shape := by
    show AdmSizes _ Y.shape; rw [hYsh]; exact hadm.dropAxes ks
  have hB := project_folded (dropAxes ks ms) (foldCore Y) rfl hadm'
  refine ⟨foldCore (maskCorners { marginalizeCore ks (unfoldCore (foldCore X)) with folded := false, labels := (foldCore X).labels.map (dropAxes ks) }),
    foldCore { projectCore (dropAxes ks ms) (unfoldCore (foldCore Y)) with folded := false, labels := (foldCore Y).labels },
    by rw [project_folded ms F hf hadm]; exact hA, by rw [hM, hms']; exact hB, ?_, rfl, rfl, rfl⟩
  apply obs_foldCore
  -- inside the outer folds: Obs
  obtain ⟨hPsym, hPcm⟩ := sym_projectCore ms hadmV hVsym hVcm
  have hXU : Obs (unfoldCore (foldCore X)) X := unfold_fold_sym X (sym_update _ _ hPsym) (cm_update _ _ hPcm)
  obtain ⟨hYsym, hYcm⟩ := sym_maskCorners (sym_update false (F.labels.map (dropAxes ks)) (sym_marginalizeCore ks hVsym))
  have hYU : Obs (unfoldCore (foldCore Y)) Y := unfold_fold_sym Y hYsym hYcm
  have hcore := marginalizeCore_projectCore_std ks ms V hVstd hvalid hadmV
  have hleft : Obs
      (maskCorners { marginalizeCore ks (unfoldCore (foldCore X)) with folded := false, labels := (foldCore X).labels.map (dropAxes ks) })
      (maskCorners (marginalizeCore ks (projectCore ms V))) :=
    obs_maskCorners ((obs_update _ _ _).trans (obs_marginalizeCore ks (hXU.trans (obs_update _ _ _))))
  have hright : Obs (projectCore (dropAxes ks ms) (maskCorners (marginalizeCore ks V)))
      { projectCore (dropAxes ks ms) (unfoldCore (foldCore Y)) with folded := false, labels := (foldCore Y).labels } :=
    (obs_projectCore _ ((obs_maskCorners (obs_update _ _ _).symm).trans hYU.symm)).trans (obs_update _ _ _).symm
  exact hleft.trans (hcore.trans hright)

end DadiVerif.PopOps
