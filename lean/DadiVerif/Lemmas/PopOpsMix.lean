import DadiVerif.Lemmas.PopOpsMixF
import DadiVerif.Lemmas.PopOpsMixK
import DadiVerif.Lemmas.PopOpsMixR
/-! C10 (round 5): **n-D lifting of the merged-axis mixture.**  Projecting the MERGED population of `combine_two_pops` to `M` is,
    entry by entry on the box of the result, the hypergeometric mixture over the splits `M = ma + (M − ma)` of
    "project the two populations to (ma, M − ma), then merge" — the weight identity `hyp_split` lifted through the fibres of the merge
    (which live in boxes of different extents for every split). -/
namespace DadiVerif.PopOps
open Finset

theorem mergeShape_getD_a (a b : Nat) (sh : List Nat) (hab : a < b) (hb : b < sh.length) (hpos : ∀ s ∈ sh, 1 ≤ s) :
    (mergeShape a b sh).getD a 0 = sh.getD a 0 + sh.getD b 0 - 1 := by
  rw [mergeShape_explicit a b sh hab hb hpos, getD_eraseIdx_lt _ _ _ _ hab, getD_set_self _ _ _ _ (by omega)]

/-- the merged shape after projecting the two populations to a split of `M` is the merged shape with extent `M+1` -/
theorem mergeShape_split (a b M ma : Nat) (sh : List Nat) (hab : a < b) (hb : b < sh.length) (hpos : ∀ s ∈ sh, 1 ≤ s) (hma : ma ≤ M) :
    mergeShape a b ((sh.set a (ma + 1)).set b (M - ma + 1)) = (mergeShape a b sh).set a (M + 1) := by
  have hpos2 : ∀ s ∈ (sh.set a (ma + 1)).set b (M - ma + 1), 1 ≤ s := pos_set (pos_set hpos a _ (by omega)) b _ (by omega)
  rw [mergeShape_explicit a b _ hab (by simpa using hb) hpos2, mergeShape_explicit a b sh hab hb hpos]
  rw [getD_set_ne _ _ _ _ _ (by omega : b ≠ a), getD_set_self _ _ _ _ (by omega), getD_set_self _ _ _ _ (by simpa using hb)]
  rw [List.set_comm _ _ (by omega : b ≠ a), List.set_set, List.eraseIdx_set_eq, ← List.eraseIdx_set_gt hab, List.set_set]
  congr 2
  omega

/-- left-hand side, written out: resampling the merged axis of the merged spectrum -/
theorem mix_lhs (a b M : Nat) (sh : List Nat) (hab : a < b) (hb : b < sh.length) (hpos : ∀ s ∈ sh, 1 ≤ s)
    (x : Idx → ℚ) (w : ℕ → ℕ → ℚ) (j : Idx) (hj : j ∈ boxIdx ((mergeShape a b sh).set a (M + 1))) :
    projDat w a ((mergeShape a b sh).getD a 0) (pushL (boxIdx sh) (merge2 a b) x) j
      = ∑ ia ∈ range (sh.getD a 0), ∑ ib ∈ range (sh.getD b 0), w (ia + ib) (j.getD a 0) * x (unmerge a b j ia ib) := by
  have hjl : j.length = sh.length - 1 := by
    rw [mem_box_length _ _ hj, List.length_set, mergeShape_length a b sh hb]
  have haj : a < j.length := by omega
  have hN := mergeShape_getD_a a b sh hab hb hpos
  unfold projDat
  rw [sum_range_eq]
  have step : ∀ h ∈ range ((mergeShape a b sh).getD a 0), w h (j.getD a 0) * pushL (boxIdx sh) (merge2 a b) x (j.set a h)
      = ∑ ia ∈ range (sh.getD a 0), ∑ ib ∈ range (sh.getD b 0), (if ia + ib = h then w h (j.getD a 0) * x (unmerge a b j ia ib) else 0) := by
    intro h hh
    rw [mem_range] at hh
    rw [pushL_merge2_eq a b sh hab hb hpos x (j.set a h) (set_mem_box' _ a (M + 1) h j hj hh), getD_set_self _ _ _ _ haj, Finset.mul_sum]
    apply Finset.sum_congr rfl; intro ia _
    rw [Finset.mul_sum]
    apply Finset.sum_congr rfl; intro ib _
    rw [unmerge_of_set]
    split_ifs <;> simp
  rw [Finset.sum_congr rfl step, Finset.sum_comm]
  apply Finset.sum_congr rfl; intro ia hia
  rw [Finset.sum_comm]
  apply Finset.sum_congr rfl; intro ib hib
  rw [mem_range] at hia hib
  rw [Finset.sum_eq_single_of_mem (ia + ib) (by rw [mem_range, hN]; omega)]
  · rw [if_pos rfl]
  · intro h _ hne; rw [if_neg (Ne.symm hne)]

/-- one term of the right-hand side, written out: project both populations (any kernels), then merge -/
theorem mix_rhs_term (a b M ma : Nat) (sh : List Nat) (hab : a < b) (hb : b < sh.length) (hpos : ∀ s ∈ sh, 1 ≤ s) (hma : ma ≤ M)
    (x : Idx → ℚ) (wa wb : ℕ → ℕ → ℚ) (j : Idx) (hj : j ∈ boxIdx ((mergeShape a b sh).set a (M + 1))) :
    pushL (boxIdx ((sh.set a (ma + 1)).set b (M - ma + 1))) (merge2 a b)
        (projDat wb b (sh.getD b 0) (projDat wa a (sh.getD a 0) x)) j
      = ∑ u ∈ range (ma + 1), ∑ v ∈ range (M - ma + 1),
          (if u + v = j.getD a 0 then ∑ hb ∈ range (sh.getD b 0), wb hb v * ∑ ha ∈ range (sh.getD a 0), wa ha u * x (unmerge a b j ha hb)
           else 0) := by
  have hjl : j.length = sh.length - 1 := by
    rw [mem_box_length _ _ hj, List.length_set, mergeShape_length a b sh hb]
  have hbj : b ≤ j.length := by omega
  have hpos2 : ∀ s ∈ (sh.set a (ma + 1)).set b (M - ma + 1), 1 ≤ s := pos_set (pos_set hpos a _ (by omega)) b _ (by omega)
  rw [pushL_merge2_eq a b _ hab (by simpa using hb) hpos2 _ j (by rw [mergeShape_split a b M ma sh hab hb hpos hma]; exact hj)]
  rw [getD_set_ne _ _ _ _ _ (by omega : b ≠ a), getD_set_self _ _ _ _ (by omega), getD_set_self _ _ _ _ (by simpa using hb)]
  apply Finset.sum_congr rfl; intro u _
  apply Finset.sum_congr rfl; intro v _
  split_ifs
  · unfold projDat
    rw [sum_range_eq, unmerge_getD_b a b j u v hbj]
    apply Finset.sum_congr rfl; intro hb' _
    rw [unmerge_set_b a b j u v hb' hbj, sum_range_eq, unmerge_getD_a a b j u hb' hab hbj]
    congr 1
    apply Finset.sum_congr rfl; intro ha' _
    rw [unmerge_set_a a b j u hb' ha' hab]
  · rfl

/-- **the mixture identity on functions**: for every cell `j` of the projected merged box -/
theorem mix_dat (a b M : Nat) (sh : List Nat) (hab : a < b) (hb : b < sh.length) (hpos : ∀ s ∈ sh, 1 ≤ s)
    (hM : M ≤ (sh.getD a 0 - 1) + (sh.getD b 0 - 1)) (x : Idx → ℚ) (j : Idx) (hj : j ∈ boxIdx ((mergeShape a b sh).set a (M + 1))) :
    projDat (projW ((sh.getD a 0 - 1) + (sh.getD b 0 - 1)) M) a ((mergeShape a b sh).getD a 0) (pushL (boxIdx sh) (merge2 a b) x) j
      = ∑ ma ∈ range (M + 1), hyp (sh.getD a 0 - 1) ((sh.getD a 0 - 1) + (sh.getD b 0 - 1)) M ma *
          pushL (boxIdx ((sh.set a (ma + 1)).set b (M - ma + 1))) (merge2 a b)
            (projDat (projW (sh.getD b 0 - 1) (M - ma)) b (sh.getD b 0) (projDat (projW (sh.getD a 0 - 1) ma) a (sh.getD a 0) x)) j := by
  have hjl : j.length = sh.length - 1 := by
    rw [mem_box_length _ _ hj, List.length_set, mergeShape_length a b sh hb]
  have hs : j.getD a 0 ≤ M := by
    have := getD_lt_of_mem_box _ j hj a (by rw [List.length_set, mergeShape_length a b sh hb]; omega)
    rw [getD_set_self _ _ _ _ (by rw [mergeShape_length a b sh hb]; omega)] at this
    omega
  rw [mix_lhs a b M sh hab hb hpos x _ j hj]
  have hR : ∀ ma ∈ range (M + 1), hyp (sh.getD a 0 - 1) ((sh.getD a 0 - 1) + (sh.getD b 0 - 1)) M ma *
          pushL (boxIdx ((sh.set a (ma + 1)).set b (M - ma + 1))) (merge2 a b)
            (projDat (projW (sh.getD b 0 - 1) (M - ma)) b (sh.getD b 0) (projDat (projW (sh.getD a 0 - 1) ma) a (sh.getD a 0) x)) j
        = hyp (sh.getD a 0 - 1) ((sh.getD a 0 - 1) + (sh.getD b 0 - 1)) M ma *
          ∑ u ∈ range (ma + 1), ∑ v ∈ range (M - ma + 1),
            (if u + v = j.getD a 0 then ∑ hb' ∈ range (sh.getD b 0), projW (sh.getD b 0 - 1) (M - ma) hb' v *
                ∑ ha ∈ range (sh.getD a 0), projW (sh.getD a 0 - 1) ma ha u * x (unmerge a b j ha hb') else 0) := by
    intro ma hma
    rw [mix_rhs_term a b M ma sh hab hb hpos (by rw [mem_range] at hma; omega) x _ _ j hj]
  rw [Finset.sum_congr rfl hR]
  rw [mix_rearrange (range (M + 1)) (fun m => range (m + 1)) (fun m => range (M - m + 1)) (range (sh.getD a 0)) (range (sh.getD b 0))
    (fun m => hyp (sh.getD a 0 - 1) ((sh.getD a 0 - 1) + (sh.getD b 0 - 1)) M m) (fun u v => u + v = j.getD a 0)
    (fun m => projW (sh.getD a 0 - 1) m) (fun m => projW (sh.getD b 0 - 1) (M - m)) (fun ha hb' => x (unmerge a b j ha hb'))]
  apply Finset.sum_congr rfl; intro ia hia
  apply Finset.sum_congr rfl; intro ib hib
  rw [mem_range] at hia hib
  rw [← mix_kernel (sh.getD a 0 - 1) (sh.getD b 0 - 1) M ia ib (j.getD a 0) (by omega) (by omega) hM hs]

theorem anyL_clean {S : FS} (hc : Clean S) (f : Idx → Idx) (j : Idx) : anyL S.box f S.msk j = false := by
  rw [anyL_false_iff]; intro i hi _; exact hc.2 i hi

/-- **n-D mixture theorem on the model** (spectrum without masked entries): shape, mask (the two corners, on both sides and in
    every term) and data at every cell of the box. -/
theorem projectAxis_combineTwo_mixture (a b M : Nat) (S : FS) (hc : Clean S) (hab : a < b) (hb : b < S.ndim)
    (hM : M ≤ (S.shape.getD a 0 - 1) + (S.shape.getD b 0 - 1)) :
    (projectAxis a M (combineTwoCore a b S)).shape = (mergeShape a b S.shape).set a (M + 1) ∧
    (∀ ma, ma ≤ M → (splitTerm a b ma (M - ma) S).shape = (mergeShape a b S.shape).set a (M + 1)) ∧
    ∀ j ∈ boxIdx ((mergeShape a b S.shape).set a (M + 1)),
      (projectAxis a M (combineTwoCore a b S)).msk j = isCorner ((mergeShape a b S.shape).set a (M + 1)) j ∧
      (∀ ma, ma ≤ M → (splitTerm a b ma (M - ma) S).msk j = isCorner ((mergeShape a b S.shape).set a (M + 1)) j) ∧
      (projectAxis a M (combineTwoCore a b S)).dat j
        = ∑ ma ∈ range (M + 1), hyp (S.shape.getD a 0 - 1) ((S.shape.getD a 0 - 1) + (S.shape.getD b 0 - 1)) M ma *
            (splitTerm a b ma (M - ma) S).dat j := by
  have hb0 : b < S.shape.length := hb
  have hpos := hc.1
  have hsa : 1 ≤ S.shape.getD a 0 := by
    have : S.shape.getD a 0 = S.shape[a]'(by omega) := by simp [List.getD_eq_getElem?_getD, List.getElem?_eq_getElem (show a < S.shape.length by omega)]
    rw [this]; exact hpos _ (List.getElem_mem _)
  have hsb : 1 ≤ S.shape.getD b 0 := by
    have : S.shape.getD b 0 = S.shape[b]'hb0 := by simp [List.getD_eq_getElem?_getD, List.getElem?_eq_getElem hb0]
    rw [this]; exact hpos _ (List.getElem_mem _)
  have hN := mergeShape_getD_a a b S.shape hab hb0 hpos
  have hshape : ∀ ma, ma ≤ M → (splitTerm a b ma (M - ma) S).shape = (mergeShape a b S.shape).set a (M + 1) :=
    fun ma hma => mergeShape_split a b M ma S.shape hab hb0 hpos hma
  have hclean : ∀ ma, Clean (projectAxis b (M - ma) (projectAxis a ma S)) := fun ma => clean_projectAxis _ _ (clean_projectAxis _ _ hc)
  refine ⟨rfl, hshape, fun j hj => ⟨?_, fun ma hma => ?_, ?_⟩⟩
  · rw [projectAxis_msk]
    have hT : (combineTwoCore a b S).msk = isCorner (mergeShape a b S.shape) := by
      funext j'
      rw [combineTwoCore_msk, anyL_clean hc]; simp
    rw [hT]
    exact projMsk_isCorner (mergeShape a b S.shape) a M (by rw [mergeShape_length a b _ hb0]; omega) (by rw [hN]; omega) j hj
  · show (combineTwoCore a b _).msk j = _
    rw [combineTwoCore_msk, anyL_clean (hclean ma)]
    have := hshape ma hma
    unfold splitTerm at this
    rw [show (combineTwoCore a b (projectAxis b (M - ma) (projectAxis a ma S))).shape
        = mergeShape a b (projectAxis b (M - ma) (projectAxis a ma S)).shape from rfl] at this
    rw [this]; simp
  · rw [projectAxis_dat]
    have hT : (combineTwoCore a b S).dat = pushL (boxIdx S.shape) (merge2 a b) S.dat := by
      funext j'; exact pushL_val_clean hc (merge2 a b) j'
    have hTs : (combineTwoCore a b S).shape = mergeShape a b S.shape := rfl
    rw [hT, hTs, show (mergeShape a b S.shape).getD a 0 - 1 = (S.shape.getD a 0 - 1) + (S.shape.getD b 0 - 1) by rw [hN]; omega]
    rw [mix_dat a b M S.shape hab hb0 hpos hM S.dat j hj]
    apply Finset.sum_congr rfl
    intro ma _
    congr 1
    show _ = pushL (projectAxis b (M - ma) (projectAxis a ma S)).box (merge2 a b) (projectAxis b (M - ma) (projectAxis a ma S)).val j
    rw [pushL_val_clean (hclean ma) (merge2 a b) j, projectAxis_dat, projectAxis_dat]
    have e : (projectAxis a ma S).shape.getD b 0 = S.shape.getD b 0 := by
      rw [projectAxis_shape]; exact getD_set_ne _ _ _ _ _ (by omega)
    rw [e]
    rfl

theorem splitW_eq (na nb M ma : Nat) (hma : ma ≤ M) : splitW na nb M ma = hyp na (na + nb) M ma := by
  unfold splitW
  rw [chooseN_eq, chooseN_eq, chooseN_eq, hyp_of_le hma, show na + nb - na = nb by omega]

/-- …in the form the driver evaluates: the projected merged spectrum IS (observationally: shape, mask, data at every unmasked
    entry — in fact at every entry) the model's `mixSplit` -/
theorem mixSplit_obs (a b M : Nat) (S : FS) (hc : Clean S) (hab : a < b) (hb : b < S.ndim)
    (hM : M ≤ (S.shape.getD a 0 - 1) + (S.shape.getD b 0 - 1)) :
    Obs (projectAxis a M (combineTwoCore a b S)) (mixSplit a b M S) := by
  obtain ⟨h1, _, h3⟩ := projectAxis_combineTwo_mixture a b M S hc hab hb hM
  refine ⟨h1, fun j hj => ?_⟩
  rw [h1] at hj
  obtain ⟨hm, _, hd⟩ := h3 j hj
  refine ⟨hm, fun _ => ?_⟩
  rw [hd]
  show _ = ((List.range (M + 1)).map fun ma => splitW (S.shape.getD a 0 - 1) (S.shape.getD b 0 - 1) M ma * (splitTerm a b ma (M - ma) S).dat j).sum
  rw [sum_range_eq]
  apply Finset.sum_congr rfl
  intro ma hma
  rw [mem_range] at hma
  rw [splitW_eq _ _ _ _ (by omega)]

/-! ### the public functions: `fs.combine_two_pops([p,q]).project(ns)` with only the merged population projected -/

theorem stepsF_id (p : Nat) (ss : List Nat) (hpos : ∀ s ∈ ss, 1 ≤ s) : stepsF p ss (ss.map (· - 1)) = [] := by
  induction ss generalizing p with
  | nil => simp [stepsF_nil_left]
  | cons s ss ih =>
    have h1 : 1 ≤ s := hpos s (by simp)
    rw [List.map_cons, stepsF_cons, if_pos (by omega)]
    exact ih (p + 1) (fun x hx => hpos x (by simp [hx]))

/-- the loop of `project` when only axis `k` changes its size performs exactly one step -/
theorem stepsF_single (p : Nat) (ss : List Nat) (k M : Nat) (hk : k < ss.length) (hpos : ∀ s ∈ ss, 1 ≤ s)
    (hne : M + 1 ≠ ss.getD k 0) : stepsF p ss ((ss.map (· - 1)).set k M) = [(p + k, M)] := by
  induction ss generalizing p k with
  | nil => simp at hk
  | cons s ss ih =>
    have h1 : 1 ≤ s := hpos s (by simp)
    have hpos' : ∀ x ∈ ss, 1 ≤ x := fun x hx => hpos x (by simp [hx])
    cases k with
    | zero =>
      simp only [List.map_cons, List.set_cons_zero, List.getD_cons_zero] at hne ⊢
      rw [stepsF_cons, if_neg hne, stepsF_id (p + 1) ss hpos']
      rfl
    | succ k =>
      simp only [List.map_cons, List.set_cons_succ, List.getD_cons_succ] at hne ⊢
      rw [stepsF_cons, if_pos (by omega), ih (p + 1) k (by simpa using hk) hpos' hne]
      congr 2; omega

theorem projectCore_single (k M : Nat) (T : FS) (hk : k < T.ndim) (hpos : ∀ s ∈ T.shape, 1 ≤ s) (hne : M + 1 ≠ T.shape.getD k 0) :
    projectCore ((T.shape.map (· - 1)).set k M) T = projectAxis k M T := by
  rw [projectCore_eq_steps, stepsF_single 0 T.shape k M hk hpos hne]
  simp [projSteps]

theorem admSizes_pred (sh : List Nat) (hpos : ∀ s ∈ sh, 1 ≤ s) : List.Forall₂ (fun m s => m + 1 ≤ s) (sh.map (· - 1)) sh := by
  induction sh with
  | nil => simp
  | cons s ss ih =>
    have h1 : 1 ≤ s := hpos s (by simp)
    rw [List.map_cons]
    exact List.Forall₂.cons (by show s - 1 + 1 ≤ s; omega) (ih (fun x hx => hpos x (by simp [hx])))

theorem admSizes_single (sh : List Nat) (k M : Nat) (hpos : ∀ s ∈ sh, 1 ≤ s) (hM : M + 1 ≤ sh.getD k 0) :
    AdmSizes ((sh.map (· - 1)).set k M) sh := by
  unfold AdmSizes
  by_cases hk : k < sh.length
  · conv => arg 3; rw [← set_getD_self sh k 0]
    exact forall2_set (admSizes_pred sh hpos) k hM
  · rw [List.set_eq_of_length_le (by simp; omega)]
    exact admSizes_pred sh hpos

/-- **public form**: `fs.combine_two_pops([p, q]).project(ns)` where `ns` keeps every sample size except that of the MERGED population,
    which goes to `M < n_a + n_b`: succeeds and is observationally the hypergeometric mixture `mixSplit` (any order of `p`, `q`). -/
theorem combineTwo_project_merged_public (p q M : Nat) (S : FS) (hf : S.folded = false) (hc : Clean S)
    (hp : 1 ≤ p ∧ p ≤ S.ndim) (hq : 1 ≤ q ∧ q ≤ S.ndim) (hpq : p ≠ q)
    (hM : M < (S.shape.getD (min p q - 1) 0 - 1) + (S.shape.getD (max p q - 1) 0 - 1)) :
    ∃ T A, combineTwo p q S = some T ∧ project ((T.shape.map (· - 1)).set (min p q - 1) M) T = some A ∧
      Obs A (mixSplit (min p q - 1) (max p q - 1) M S) ∧ A.labels = T.labels ∧ A.folded = false := by
  set a := min p q - 1 with ha
  set b := max p q - 1 with hb
  have hab : a < b := by omega
  have hbd : b < S.ndim := by omega
  have hb0 : b < S.shape.length := hbd
  have hcond : ¬ (p = 0 ∨ q = 0 ∨ p = q ∨ S.ndim < p ∨ S.ndim < q) := by omega
  have hC : combineTwo p q S = some (combineTwoCore a b S) := by rw [combineTwo, if_neg hcond, c2Pair_eq]
  set T := combineTwoCore a b S with hT
  have hTsh : T.shape = mergeShape a b S.shape := rfl
  have hTpos : ∀ s ∈ T.shape, 1 ≤ s := by
    intro s hs
    rw [hTsh, mergeShape_eq] at hs
    rw [List.mem_map] at hs
    obtain ⟨x, _, rfl⟩ := hs
    omega
  have hTf : T.folded = false := by show (Gen.c2PropagatesFolded && S.folded) = false; rw [hf]; simp
  have hN := mergeShape_getD_a a b S.shape hab hb0 hc.1
  have hak : a < T.ndim := by show a < (mergeShape a b S.shape).length; rw [mergeShape_length a b _ hb0]; omega
  have hsa : 1 ≤ S.shape.getD a 0 := by
    have : S.shape.getD a 0 = S.shape[a]'(by omega) := by simp [List.getD_eq_getElem?_getD, List.getElem?_eq_getElem (show a < S.shape.length by omega)]
    rw [this]; exact hc.1 _ (List.getElem_mem _)
  have hsb : 1 ≤ S.shape.getD b 0 := by
    have : S.shape.getD b 0 = S.shape[b]'hb0 := by simp [List.getD_eq_getElem?_getD, List.getElem?_eq_getElem hb0]
    rw [this]; exact hc.1 _ (List.getElem_mem _)
  have hne : M + 1 ≠ T.shape.getD a 0 := by rw [hTsh, hN]; omega
  have hadm : AdmSizes ((T.shape.map (· - 1)).set a M) T.shape := admSizes_single T.shape a M hTpos (by rw [hTsh, hN]; omega)
  refine ⟨T, _, hC, project_unfolded _ T hTf hadm, ?_, rfl, rfl⟩
  refine (obs_update _ _ _).trans ?_
  rw [projectCore_single a M T hak hTpos hne]
  exact mixSplit_obs a b M S hc hab hbd (by omega)

end DadiVerif.PopOps
