import DadiVerif.Model.Kernel
import DadiVerif.Lemmas.Bridge
import Mathlib.Tactic.Ring
import Mathlib.Tactic.Linarith
/-!
Kernel programs, part 1 — the loop nest and the in-place update of a flat row-major array.

`sweepLines`: for every line `i` (a multi-index of the other axes) of a list of lines, read the entries
`flatIdx shape (i.insertIdx k j)`, j < N, compute new values from them, write them back to the same positions — one line after the
other, IN PLACE.  `sweepLines_eq_ofFn`: if the list contains every line of the box exactly once, the result is the tabulation
`ND.ofFn` of "new value of the line through idx, at position idx[k]", every line computed from the ORIGINAL array
(no line reads what another line wrote: distinct lines occupy disjoint flat positions — `flatIdx` is injective on the box).
`nestFold_eq_foldl`: a loop nest with lower bounds 0 visits `boxIdx` of its extents in row-major order.
-/
namespace DadiVerif
namespace KProg

/-! ### flat index ↔ multi-index -/
theorem flatIdx_unflat : ∀ (shape : List ℕ) (n : ℕ), n < prodL shape → flatIdx shape (unflat shape n) = n
  | [], n, h => by simp [prodL] at h; simp [flatIdx, h]
  | s :: ss, n, h => by
      simp only [prodL] at h
      have hpos : 0 < prodL ss := by
        rcases Nat.eq_zero_or_pos (prodL ss) with h0 | h0
        · rw [h0] at h; simp at h
        · exact h0
      simp only [unflat, flatIdx]
      rw [flatIdx_unflat ss _ (Nat.mod_lt _ hpos), Nat.mul_comm]
      exact Nat.div_add_mod n (prodL ss)

theorem flatIdx_inj (shape a b : List ℕ) (ha : InBox shape a) (hb : InBox shape b) (h : flatIdx shape a = flatIdx shape b) :
    a = b := by
  rw [← unflat_flatIdx shape a ha, ← unflat_flatIdx shape b hb, h]

theorem inBox_boxIdx : ∀ (shape idx : List ℕ), idx ∈ boxIdx shape ↔ InBox shape idx
  | [], idx => by cases idx <;> simp [boxIdx, InBox]
  | s :: ss, [] => by simp [boxIdx, InBox]
  | s :: ss, c :: cs => by
      simp only [boxIdx, List.mem_flatMap, List.mem_range, List.mem_map, InBox]
      constructor
      · rintro ⟨a, ha, b, hb, hab⟩
        injection hab with h1 h2
        subst h1; subst h2
        exact ⟨ha, (inBox_boxIdx ss _).1 hb⟩
      · rintro ⟨h1, h2⟩
        exact ⟨c, h1, cs, (inBox_boxIdx ss _).2 h2, rfl⟩

theorem nodup_boxIdx : ∀ (shape : List ℕ), (boxIdx shape).Nodup
  | [] => by simp [boxIdx]
  | s :: ss => by
      simp only [boxIdx]
      rw [List.nodup_flatMap]
      refine ⟨fun a _ => ?_, ?_⟩
      · exact (nodup_boxIdx ss).map (fun x y h => by injection h)
      · refine List.Pairwise.imp_of_mem ?_ (List.nodup_range (n := s))
        intro a b _ _ hab
        simp only [Function.onFun, List.disjoint_left, List.mem_map]
        rintro x ⟨u, _, rfl⟩ ⟨v, _, hv⟩
        injection hv with h1 _
        exact hab h1.symm

/-! ### writing one line -/
/-- `for(j = 0; j < n; j++) a[ix j] = v j` -/
def writeLine (n : ℕ) (ix : ℕ → ℕ) (v : ℕ → ℚ) (a : Array ℚ) : Array ℚ :=
  (List.range n).foldl (fun a j => a.setIfInBounds (ix j) (v j)) a

theorem getD_setIfInBounds (a : Array ℚ) (i j : ℕ) (v : ℚ) :
    (a.setIfInBounds i v).getD j 0 = if i = j ∧ i < a.size then v else a.getD j 0 := by
  simp only [Array.getD_eq_getD_getElem?, Array.getElem?_setIfInBounds]
  by_cases h1 : i = j
  · subst h1
    by_cases h2 : i < a.size
    · simp [h2]
    · have : a[i]? = none := by simp; omega
      simp [h2]
  · simp [h1]

theorem writeLine_succ (n : ℕ) (ix : ℕ → ℕ) (v : ℕ → ℚ) (a : Array ℚ) :
    writeLine (n + 1) ix v a = (writeLine n ix v a).setIfInBounds (ix n) (v n) := by
  unfold writeLine
  rw [List.range_succ, List.foldl_append]
  rfl

theorem writeLine_size (n : ℕ) (ix : ℕ → ℕ) (v : ℕ → ℚ) (a : Array ℚ) : (writeLine n ix v a).size = a.size := by
  induction n with
  | zero => rfl
  | succ n ih => rw [writeLine_succ, Array.size_setIfInBounds, ih]

theorem writeLine_miss (n : ℕ) (ix : ℕ → ℕ) (v : ℕ → ℚ) (a : Array ℚ) (m : ℕ) (h : ∀ j < n, ix j ≠ m) :
    (writeLine n ix v a).getD m 0 = a.getD m 0 := by
  induction n with
  | zero => rfl
  | succ n ih =>
    rw [writeLine_succ, getD_setIfInBounds, if_neg (fun hc => h n (Nat.lt_succ_self n) hc.1)]
    exact ih (fun j hj => h j (Nat.lt_succ_of_lt hj))

theorem writeLine_hit (n : ℕ) (ix : ℕ → ℕ) (v : ℕ → ℚ) (a : Array ℚ)
    (hinj : ∀ j j', j < n → j' < n → ix j = ix j' → j = j') (hb : ∀ j < n, ix j < a.size) (j : ℕ) (hj : j < n) :
    (writeLine n ix v a).getD (ix j) 0 = v j := by
  induction n with
  | zero => omega
  | succ n ih =>
    rw [writeLine_succ, getD_setIfInBounds, writeLine_size]
    by_cases hjn : j = n
    · subst hjn
      rw [if_pos ⟨rfl, hb j hj⟩]
    · have hjn' : j < n := by omega
      rw [if_neg]
      · exact ih (fun a b ha hb' => hinj a b (by omega) (by omega)) (fun a ha => hb a (by omega)) hjn'
      · rintro ⟨h1, _⟩
        exact hjn (hinj j n hj (Nat.lt_succ_self n) h1.symm)

/-! ### all lines, in place -/
/-- flat position of node j of line i (axis k) -/
def lineIx (shape : List ℕ) (k : ℕ) (i : List ℕ) (j : ℕ) : ℕ := flatIdx shape (i.insertIdx k j)

/-- what a kernel does to a flat array: line after line, in place.  `f i φ j`: new value of node j of line i, computed from the
    old values φ of that line -/
def sweepLines (shape : List ℕ) (k : ℕ) (f : List ℕ → (ℕ → ℚ) → ℕ → ℚ) (lines : List (List ℕ)) (a : Array ℚ) : Array ℚ :=
  lines.foldl (fun a i => writeLine (shape.getD k 0) (lineIx shape k i) (f i (fun j => a.getD (lineIx shape k i j) 0)) a) a

theorem sweepLines_size (shape : List ℕ) (k : ℕ) (f : List ℕ → (ℕ → ℚ) → ℕ → ℚ) (lines : List (List ℕ)) (a : Array ℚ) :
    (sweepLines shape k f lines a).size = a.size := by
  induction lines generalizing a with
  | nil => rfl
  | cons i rest ih =>
    simp only [sweepLines, List.foldl_cons] at ih ⊢
    rw [ih, writeLine_size]

theorem lineIx_inj (shape : List ℕ) (k : ℕ) (hk : k < shape.length) (i i' : List ℕ) (j j' : ℕ)
    (hi : InBox (shape.eraseIdx k) i) (hi' : InBox (shape.eraseIdx k) i') (hj : j < shape.getD k 0) (hj' : j' < shape.getD k 0)
    (h : lineIx shape k i j = lineIx shape k i' j') : i = i' ∧ j = j' := by
  have e := flatIdx_inj shape _ _ (inBox_insertIdx shape i k j hk hi hj) (inBox_insertIdx shape i' k j' hk hi' hj') h
  have hlen : k ≤ i.length := by
    have := inBox_length _ _ hi
    rw [this, List.length_eraseIdx]; split_ifs; omega
  have hlen' : k ≤ i'.length := by
    have := inBox_length _ _ hi'
    rw [this, List.length_eraseIdx]; split_ifs; omega
  constructor
  · have := congrArg (fun l => l.eraseIdx k) e
    simpa [List.eraseIdx_insertIdx_self] using this
  · have := congrArg (fun l => l[k]?) e
    simpa [List.getElem?_insertIdx_self, hlen, hlen'] using this

theorem lineIx_lt (shape : List ℕ) (k : ℕ) (hk : k < shape.length) (i : List ℕ) (j : ℕ)
    (hi : InBox (shape.eraseIdx k) i) (hj : j < shape.getD k 0) : lineIx shape k i j < prodL shape :=
  flatIdx_lt shape _ (inBox_insertIdx shape i k j hk hi hj)

/-- value at an in-box position after sweeping a duplicate-free list of in-box lines -/
theorem sweepLines_getD (shape : List ℕ) (k : ℕ) (hk : k < shape.length) (f : List ℕ → (ℕ → ℚ) → ℕ → ℚ)
    (hf : ∀ i φ ψ, (∀ j < shape.getD k 0, φ j = ψ j) → ∀ j < shape.getD k 0, f i φ j = f i ψ j)
    (lines : List (List ℕ)) (hl : ∀ i ∈ lines, InBox (shape.eraseIdx k) i) (hnd : lines.Nodup)
    (a : Array ℚ) (hsz : a.size = prodL shape) (idx : List ℕ) (hidx : InBox shape idx) :
    (sweepLines shape k f lines a).getD (flatIdx shape idx) 0
      = if idx.eraseIdx k ∈ lines then
          f (idx.eraseIdx k) (fun j => a.getD (lineIx shape k (idx.eraseIdx k) j) 0) (idx.getD k 0)
        else a.getD (flatIdx shape idx) 0 := by
  induction lines generalizing a with
  | nil => simp [sweepLines]
  | cons i rest ih =>
    have hi : InBox (shape.eraseIdx k) i := hl i List.mem_cons_self
    obtain ⟨hirest, hndrest⟩ := List.nodup_cons.mp hnd
    set N := shape.getD k 0 with hN
    set a' := writeLine N (lineIx shape k i) (f i (fun j => a.getD (lineIx shape k i j) 0)) a with ha'
    have hsz' : a'.size = prodL shape := by rw [ha', writeLine_size, hsz]
    have hstep : sweepLines shape k f (i :: rest) a = sweepLines shape k f rest a' := by
      simp only [sweepLines, List.foldl_cons]; rfl
    obtain ⟨hins, hjk⟩ := insert_erase shape idx k hidx hk
    have hi0 : InBox (shape.eraseIdx k) (idx.eraseIdx k) := inBox_eraseIdx shape idx k hidx
    -- entries of other lines are untouched by the step for line i
    have hother : ∀ i' j', InBox (shape.eraseIdx k) i' → i' ≠ i → j' < N →
        a'.getD (lineIx shape k i' j') 0 = a.getD (lineIx shape k i' j') 0 := by
      intro i' j' hi' hne hj'
      rw [ha']
      apply writeLine_miss
      intro j hj hc
      exact hne (lineIx_inj shape k hk i i' j j' hi hi' hj hj' hc).1.symm
    have hflat : flatIdx shape idx = lineIx shape k (idx.eraseIdx k) (idx.getD k 0) := by
      unfold lineIx; rw [hins]
    rw [hstep, ih (fun i' h' => hl i' (List.mem_cons_of_mem _ h')) hndrest a' hsz']
    by_cases hmem : idx.eraseIdx k ∈ rest
    · have hne : idx.eraseIdx k ≠ i := fun hc => hirest (hc ▸ hmem)
      rw [if_pos hmem, if_pos (List.mem_cons_of_mem _ hmem)]
      exact hf _ _ _ (fun j hj => hother _ j hi0 hne hj) _ hjk
    · rw [if_neg hmem]
      by_cases heq : idx.eraseIdx k = i
      · rw [if_pos (by rw [heq]; exact List.mem_cons_self), hflat, heq, ha']
        exact writeLine_hit N _ _ a
          (fun j j' hj hj' h => (lineIx_inj shape k hk i i j j' hi hi hj hj' h).2)
          (fun j hj => by rw [hsz]; exact lineIx_lt shape k hk i j hi hj) _ hjk
      · rw [if_neg (by simp [List.mem_cons, heq, hmem]), hflat]
        exact hother _ _ hi0 heq hjk

/-- **a kernel that visits every line of the box exactly once tabulates the line-wise update of the ORIGINAL array** -/
theorem sweepLines_eq_ofFn (shape : List ℕ) (k : ℕ) (hk : k < shape.length) (f : List ℕ → (ℕ → ℚ) → ℕ → ℚ)
    (hf : ∀ i φ ψ, (∀ j < shape.getD k 0, φ j = ψ j) → ∀ j < shape.getD k 0, f i φ j = f i ψ j)
    (lines : List (List ℕ)) (hl : ∀ i, i ∈ lines ↔ InBox (shape.eraseIdx k) i) (hnd : lines.Nodup)
    (a : Array ℚ) (hsz : a.size = prodL shape) :
    sweepLines shape k f lines a
      = (ND.ofFn shape fun idx =>
          f (idx.eraseIdx k) (fun j => (⟨shape, a⟩ : ND).get ((idx.eraseIdx k).insertIdx k j)) (idx.getD k 0)).data := by
  apply Array.ext
  · rw [sweepLines_size, hsz]; simp [ND.ofFn]
  · intro m h1 h2
    have hm : m < prodL shape := by rw [sweepLines_size, hsz] at h1; exact h1
    have hidx := unflat_inBox shape m hm
    have hflat := flatIdx_unflat shape m hm
    have key := sweepLines_getD shape k hk f hf lines (fun i hi => (hl i).1 hi) hnd a hsz (unflat shape m) hidx
    rw [if_pos ((hl _).2 (inBox_eraseIdx shape _ k hidx)), hflat] at key
    have e1 : (sweepLines shape k f lines a)[m] = (sweepLines shape k f lines a).getD m 0 := by
      rw [Array.getD_eq_getD_getElem?, Array.getElem?_eq_getElem h1]; rfl
    rw [e1, key]
    simp only [ND.ofFn, Array.getElem_ofFn, ND.get, lineIx]

/-! ### the loop nest -/
theorem nestFold_eq_foldl {α : Type} : ∀ (exts : List ℕ) (body : List ℕ → α → α) (a : α),
    nestFold (exts.map fun e => (0, e)) body a = (boxIdx exts).foldl (fun a i => body i a) a
  | [], body, a => by simp [nestFold, boxIdx]
  | e :: es, body, a => by
      simp only [List.map_cons, nestFold, boxIdx, Nat.sub_zero, Nat.zero_add]
      rw [List.foldl_flatMap]
      congr 1
      funext a i
      rw [nestFold_eq_foldl es, List.foldl_map]

end KProg
end DadiVerif
