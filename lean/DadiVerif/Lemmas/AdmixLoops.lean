import DadiVerif.Lemmas.Admix
/-!
C06, round 4: the generated loop / fancy-indexing structure (`Gen.Admix.loopRows`) against the functional model.
`depositFill` (the two fills of a scratch row in source order, `=` or `+=`) is `depositAt` because the generated cell
program never returns coinciding lower and upper indices; a loop nest that visits every line, with the scratch array
zeroed per line and integrated along axis 0, is `pulseRaw`.
-/
set_option linter.unusedSimpArgs false
namespace DadiVerif.Admix

/-- the generated cell program never returns the same index twice (the clamps are applied to the upper index and the
    lower index is derived from the clamped one) -/
theorem idx_distinct (zz : Array ℚ) (φ adz : ℚ) : Gen.Admix.lowerIdx zz φ adz ≠ Gen.Admix.upperIdx zz φ adz := by
  simp only [Gen.Admix.lowerIdx, Gen.Admix.upperIdx]
  omega

/-- whatever the order and the assignment operators of the two fills: the scratch row is the deposit -/
theorem depositFill_eq (L : Gen.Admix.LoopRow) (zz : Array ℚ) (φ adz : ℚ) (k : ℕ) :
    depositFill L zz φ adz k = depositAt zz φ adz k := by
  have hne := idx_distinct zz φ adz
  unfold depositFill depositAt
  by_cases hl : (k : ℤ) = Gen.Admix.lowerIdx zz φ adz
  · have hu : ¬ (k : ℤ) = Gen.Admix.upperIdx zz φ adz := fun h => hne (hl.symm.trans h)
    cases L.lowerFirst <;> cases L.secondAdd <;> simp [hl, hu, hne, Ne.symm hne]
  · by_cases hu : (k : ℤ) = Gen.Admix.upperIdx zz φ adz
    · cases L.lowerFirst <;> cases L.secondAdd <;> simp [hl, hu, hne, Ne.symm hne]
    · cases L.lowerFirst <;> cases L.secondAdd <;> simp [hl, hu]

/-- the loop structure is the intended one: modelled, every loop `range(0, extent)`, `trapz` along the rows (axis 0) -/
def loopsOk (r : Gen.Admix.FnRow) (L : Gen.Admix.LoopRow) : Bool :=
  loopsModelled r L && L.trapzAxis == 0 && L.loopLo.all (· == 0) && L.loopHiOff.all (· == 0)

theorem getD_of_all_zero : ∀ (l : List ℕ) (i : ℕ), l.all (· == 0) = true → l.getD i 0 = 0 := by
  intro l
  induction l with
  | nil => intro i _; simp
  | cons x xs ih =>
    intro i h
    simp only [List.all_cons, Bool.and_eq_true, beq_iff_eq] at h
    cases i with
    | zero => simpa using h.1
    | succ i => simpa using ih i h.2

theorem skipped_false (L : Gen.Admix.LoopRow) (shape : List ℕ) (idx : Idx)
    (hlo : L.loopLo.all (· == 0) = true) (hhi : L.loopHiOff.all (· == 0) = true) :
    skippedByLoops L shape idx = false := by
  unfold skippedByLoops
  rw [List.any_eq_false]
  intro i _
  simp only [getD_of_all_zero _ i hlo, getD_of_all_zero _ i hhi, Nat.not_lt_zero, decide_false, Bool.false_or, add_zero,
    Bool.and_eq_true, decide_eq_true_eq, not_and, not_le]
  exact fun h => h

theorem newPopRawL_eq (L : Gen.Admix.LoopRow) (grids : List (Array ℚ)) (zz : Array ℚ) (coefs : List ℚ) (P : Dens) :
    newPopRawL L grids zz coefs P = newPopRaw grids zz coefs P := by
  unfold newPopRawL newPopRaw
  simp only [depositFill_eq]

theorem pulseRawL_eq (L : Gen.Admix.LoopRow) (grids : List (Array ℚ)) (zz tg : Array ℚ) (coefs : List ℚ) (dest : ℕ) (P : Dens)
    (hax : L.trapzAxis = 0) (hlo : L.loopLo.all (· == 0) = true) (hhi : L.loopHiOff.all (· == 0) = true) :
    pulseRawL L grids zz tg coefs dest P = pulseRaw grids zz tg coefs dest P := by
  unfold pulseRawL pulseRaw
  simp only [skipped_false L _ _ hlo hhi, hax, depositFill_eq, if_true, Bool.false_eq_true, if_false]

/-- a function whose generated loop structure is the intended one: the loop-aware model (what K runs) is the functional
    model (what the conservation theorems are about) -/
theorem applyRowL_eq (r : Gen.Admix.FnRow) (L : Gen.Admix.LoopRow) (h : loopsOk r L = true)
    (f : List ℚ) (grids : List (Array ℚ)) (P : Dens) : applyRowL r L f grids P = applyRow r f grids P := by
  simp only [loopsOk, Bool.and_eq_true, beq_iff_eq] at h
  obtain ⟨⟨⟨hm, hax⟩, hlo⟩, hhi⟩ := h
  unfold applyRowL applyRow
  simp only [hm, Bool.not_true, Bool.false_eq_true, if_false, newPopRawL_eq, pulseRawL_eq L _ _ _ _ _ _ hax hlo hhi]

end DadiVerif.Admix
